(* TermPenProofs.v -- C10: lemmas about the pen path (term.c delta encoder, palette
   conversion, the driver's SGR encoder) against the VT's SGR semantics. *)
From Coq Require Import ZArith List Bool Lia.
From Tickit Require Import Csi VT TermPenDefs TermPenSpec Gen_Palette Gen_SgrOnOff.
Import ListNotations.
Local Open Scope Z_scope.

(* ---- the palette table as it is in the source now *)
Lemma palette_shape :
  length xterm256 = 256%nat /\
  forallb (fun p => (0 <=? fst p) && (fst p <? 16) && (0 <=? snd p) && (snd p <? 8)) xterm256 = true.
Proof. split; vm_compute; reflexivity. Qed.

(* ---- attributes and pens *)
Lemma attr_eqb_eq : forall a b, attr_eqb a b = true <-> a = b.
Proof. intros a b; split; [ destruct a, b; intro H; try reflexivity; discriminate H | intros ->; destruct b; reflexivity ]. Qed.
Lemma attr_eqb_refl : forall a, attr_eqb a a = true.
Proof. destruct a; reflexivity. Qed.
Lemma attr_eqb_neq : forall a b, a <> b -> attr_eqb a b = false.
Proof.
  intros a b Hne. destruct (attr_eqb a b) eqn:E; [ | reflexivity ].
  apply attr_eqb_eq in E. contradiction.
Qed.
Lemma attr_eq_dec : forall a b : attr, {a = b} + {a <> b}.
Proof. decide equality. Qed.
Lemma pset_same : forall p a v, pset p a v a = v.
Proof. intros p a v; unfold pset; rewrite attr_eqb_refl; reflexivity. Qed.
Lemma pset_other : forall p a v b, a <> b -> pset p a v b = p b.
Proof. intros p a v b Hne; unfold pset; rewrite (attr_eqb_neq _ _ Hne); reflexivity. Qed.
Lemma in_all_attrs : forall a, In a all_attrs.
Proof. destruct a; cbn; tauto. Qed.
Lemma nodup_all_attrs : NoDup all_attrs.
Proof.
  unfold all_attrs.
  repeat (constructor; [ cbn; intro Hin; repeat (destruct Hin as [Hin | Hin]; [ discriminate Hin | ]); exact Hin | ]).
  constructor.
Qed.

Lemma rgb_eqb_eq : forall x y, rgb_eqb x y = true -> x = y.
Proof.
  intros [r g b] [r' g' b']; unfold rgb_eqb; cbn [rgb_r rgb_g rgb_b]; intro H.
  apply andb_true_iff in H; destruct H as [H Hb].
  apply andb_true_iff in H; destruct H as [Hr Hg].
  apply Z.eqb_eq in Hr, Hg, Hb. subst; reflexivity.
Qed.
Lemma rgb_eqb_refl : forall x, rgb_eqb x x = true.
Proof. intros [r g b]; unfold rgb_eqb; cbn [rgb_r rgb_g rgb_b]; rewrite !Z.eqb_refl; reflexivity. Qed.

Lemma rgb_eq_dec : forall x y : rgb, {x = y} + {x <> y}.
Proof. decide equality; apply Z.eq_dec. Qed.
Lemma aval_eq_dec : forall x y : aval, {x = y} + {x <> y}.
Proof.
  decide equality; try apply Z.eq_dec; try apply bool_dec.
  decide equality. apply rgb_eq_dec.
Qed.
Lemma optaval_eq_dec : forall x y : option aval, {x = y} + {x <> y}.
Proof. decide equality. apply aval_eq_dec. Qed.

(* ---- the palette: conversion never faults on a byte index, and stays below 16 *)
Lemma palette_entry : forall i, 0 <= i <= 255 ->
  exists a16 a8, nth_error xterm256 (Z.to_nat i) = Some (a16, a8) /\ 0 <= a16 < 16 /\ 0 <= a8 < 8.
Proof.
  intros i Hi.
  destruct palette_shape as [Hlen Hall].
  destruct (nth_error xterm256 (Z.to_nat i)) as [[a16 a8] | ] eqn:E.
  - exists a16, a8. split; [ reflexivity | ].
    rewrite forallb_forall in Hall.
    specialize (Hall _ (nth_error_In _ _ E)). cbn [fst snd] in Hall.
    apply andb_true_iff in Hall; destruct Hall as [Hall H4].
    apply andb_true_iff in Hall; destruct Hall as [Hall H3].
    apply andb_true_iff in Hall; destruct Hall as [H1 H2].
    apply Z.leb_le in H1, H3. apply Z.ltb_lt in H2, H4. lia.
  - exfalso. apply nth_error_None in E. rewrite Hlen in E. lia.
Qed.

Lemma convert_colour_ok : forall i colors, 0 <= i <= 255 ->
  exists j, convert_colour i colors = Some j /\ 0 <= j < 16.
Proof.
  intros i colors Hi. unfold convert_colour.
  destruct (i <? 0) eqn:Hneg; [ apply Z.ltb_lt in Hneg; lia | ].
  destruct (palette_entry i Hi) as (a16 & a8 & Hnth & H16 & H8).
  rewrite Hnth. destruct (16 <=? colors); eexists; (split; [ reflexivity | lia ]).
Qed.

Lemma convert_colour_range : forall i colors j, convert_colour i colors = Some j -> 0 <= j < 16.
Proof.
  intros i colors j. unfold convert_colour.
  destruct (i <? 0) eqn:Hneg; [ discriminate | ].
  apply Z.ltb_ge in Hneg.
  destruct (nth_error xterm256 (Z.to_nat i)) as [[a16 a8] | ] eqn:E; [ | discriminate ].
  assert (Hlt : (Z.to_nat i < length xterm256)%nat) by (apply nth_error_Some; rewrite E; discriminate).
  destruct palette_shape as [Hlen _]. rewrite Hlen in Hlt.
  assert (Hi : 0 <= i <= 255) by lia.
  destruct (palette_entry i Hi) as (b16 & b8 & Hnth & H16 & H8).
  rewrite E in Hnth. injection Hnth as <- <-.
  destruct (16 <=? colors); intro H; injection H as <-; lia.
Qed.

Lemma conv_val_in_range : forall colors a v, aval_in_range a v -> aval_in_range a (conv_val colors v).
Proof.
  intros colors a v Hv. destruct v as [b | n | i sec]; cbn [conv_val]; try exact Hv.
  destruct (colors <=? i) eqn:Hc; [ | exact Hv ].
  destruct (convert_colour i colors) as [j | ] eqn:Hj; [ | exact Hv ].
  apply convert_colour_range in Hj.
  unfold aval_in_range in *. destruct (attr_type a); try contradiction.
  split; [ lia | exact I ].
Qed.

Lemma default_val_in_range : forall a, aval_in_range a (default_val a).
Proof. destruct a; cbn; unfold COLOUR_DEFAULT; try exact I; try lia; try (split; [ lia | exact I ]). Qed.

(* ---- nondefault_enc *)
Lemma is_nondefault_false : forall p, is_nondefault p = false -> forall a, nondefault_attr p a = false.
Proof.
  intros p H a. unfold is_nondefault in H.
  destruct (nondefault_attr p a) eqn:E; [ | reflexivity ].
  assert (Hex : existsb (nondefault_attr p) all_attrs = true)
    by (apply existsb_exists; exists a; split; [ apply in_all_attrs | exact E ]).
  rewrite Hex in H; discriminate H.
Qed.

Lemma nondefault_enc : nondefault_enc_stmt.
Proof.
  unfold nondefault_enc_stmt.
  intros colon rgb8 p a x Hr Hnd Hpa.
  pose proof (is_nondefault_false p Hnd a) as Hn.
  pose proof (Hr a x Hpa) as Hx.
  unfold nondefault_attr, has_attr in Hn. rewrite Hpa in Hn. cbn [negb] in Hn.
  destruct a; destruct x as [b | n | i sec]; cbn in Hx; try contradiction;
    cbn [attr_type] in Hn;
    unfold get_bool_attr, get_int_attr, get_colour_attr in Hn; rewrite Hpa in Hn.
  - (* fg *) apply negb_false_iff in Hn. apply Z.eqb_eq in Hn. unfold COLOUR_DEFAULT in Hn. subst i. reflexivity.
  - apply negb_false_iff in Hn. apply Z.eqb_eq in Hn. unfold COLOUR_DEFAULT in Hn. subst i. reflexivity.
  - subst b. reflexivity.
  - apply Z.ltb_ge in Hn. assert (n = 0) by lia. subst n. cbn. destruct colon; reflexivity.
  - subst b. reflexivity.
  - subst b. reflexivity.
  - subst b. reflexivity.
  - apply Z.ltb_ge in Hn. cbn [enc vt_attr default_attrs a_font].
    assert (Hc : n = -1 \/ n = 0) by lia. destruct Hc as [-> | ->]; reflexivity.
  - subst b. reflexivity.
  - apply Z.ltb_ge in Hn. assert (n = 0) by lia. subst n. reflexivity.
Qed.

(* ==== term.c: the delta encoder *)

Definition step_target (colors : Z) (op : bool) (p tp : pen) (a : attr) : option aval :=
  if op then match p a with Some v => Some (conv_val colors v) | None => tp a end
  else Some (conv_val colors (match p a with Some v => v | None => default_val a end)).

Definition step_result (tp delta tp' delta' : pen) (a : attr) (T : option aval) : Prop :=
  ((forall b, tp' b = tp b) /\ (forall b, delta' b = delta b) /\ tp a = T) \/
  ((forall b, tp' b = pset tp a T b) /\ (forall b, delta' b = pset delta a T b) /\ tp a <> T).

Lemma step_bool : forall colors op (p tp delta : pen) a gb,
  attr_type a = TyBool ->
  op && negb (has_attr p a) = false ->
  get_bool_attr p a = gb ->
  (forall v, tp a = Some v -> aval_in_range a v) ->
  exists tp' delta', pen_step colors op p (Some (tp, delta)) a = Some (tp', delta') /\
    step_result tp delta tp' delta' a (Some (VBool gb)).
Proof.
  intros colors op p tp delta a gb Hty Hskip Hgb Htp.
  unfold pen_step. rewrite Hskip.
  assert (Hcol : is_colour_attr a = false) by (destruct a; try discriminate Hty; reflexivity).
  rewrite Hcol. cbn [andb].
  unfold equiv_attr, copy_attr. rewrite Hty, Hgb.
  assert (Hset : forall d, set_bool_attr d a gb = pset d a (Some (VBool gb)))
    by (intro d; destruct a; try discriminate Hty; reflexivity).
  rewrite !Hset.
  unfold has_attr.
  destruct (tp a) as [y | ] eqn:Hta.
  - specialize (Htp y eq_refl).
    assert (Hy : exists b', y = VBool b' /\ get_bool_attr tp a = b').
    { destruct a; try discriminate Hty; unfold get_bool_attr; rewrite Hta; destruct y as [b' | n | i sec]; cbn in Htp; try contradiction;
        exists b'; split; reflexivity. }
    destruct Hy as (b' & -> & Hgt). rewrite Hgt. cbn [andb].
    destruct (Bool.eqb b' gb) eqn:Heq.
    + apply eqb_prop in Heq. rewrite Heq in Hta.
      eexists; eexists; split; [ reflexivity | ]. left. repeat split; try reflexivity. exact Hta.
    + eexists; eexists; split; [ reflexivity | ]. right. repeat split; try reflexivity.
      rewrite Hta. intro Hc. injection Hc as Hc. rewrite Hc in Heq. rewrite eqb_reflx in Heq. discriminate Heq.
  - cbn [andb].
    eexists; eexists; split; [ reflexivity | ]. right. repeat split; try reflexivity. rewrite Hta. discriminate.
Qed.

Lemma step_int : forall colors op (p tp delta : pen) a n,
  attr_type a = TyInt ->
  op && negb (has_attr p a) = false ->
  get_int_attr p a = n ->
  (forall v, tp a = Some v -> aval_in_range a v) ->
  exists tp' delta', pen_step colors op p (Some (tp, delta)) a = Some (tp', delta') /\
    step_result tp delta tp' delta' a (Some (VInt n)).
Proof.
  intros colors op p tp delta a n Hty Hskip Hgn Htp.
  unfold pen_step. rewrite Hskip.
  assert (Hcol : is_colour_attr a = false) by (destruct a; try discriminate Hty; reflexivity).
  rewrite Hcol. cbn [andb].
  unfold equiv_attr, copy_attr. rewrite Hty, Hgn.
  assert (Hset : forall d, set_int_attr d a n = pset d a (Some (VInt n)))
    by (intro d; destruct a; try discriminate Hty; reflexivity).
  rewrite !Hset.
  unfold has_attr.
  destruct (tp a) as [y | ] eqn:Hta.
  - specialize (Htp y eq_refl).
    assert (Hy : exists m, y = VInt m /\ get_int_attr tp a = m).
    { destruct a; try discriminate Hty; unfold get_int_attr; rewrite Hta; destruct y as [b' | m | i sec]; cbn in Htp; try contradiction;
        exists m; split; reflexivity. }
    destruct Hy as (m & -> & Hgt). rewrite Hgt. cbn [andb].
    destruct (m =? n) eqn:Heq.
    + apply Z.eqb_eq in Heq. rewrite Heq in Hta.
      eexists; eexists; split; [ reflexivity | ]. left. repeat split; try reflexivity. exact Hta.
    + eexists; eexists; split; [ reflexivity | ]. right. repeat split; try reflexivity.
      rewrite Hta. intro Hc. injection Hc as Hc. rewrite Hc in Heq. rewrite Z.eqb_refl in Heq. discriminate Heq.
  - cbn [andb].
    eexists; eexists; split; [ reflexivity | ]. right. repeat split; try reflexivity. rewrite Hta. discriminate.
Qed.

Definition has_sec (sec : option rgb) : bool := match sec with Some _ => true | None => false end.

Lemma col_accessors : forall (q : pen) a i sec, is_colour_attr a = true -> q a = Some (VCol i sec) ->
  get_colour_attr q a = i /\ has_colour_attr_rgb8 q a = has_sec sec /\
  (forall c, sec = Some c -> get_colour_attr_rgb8 q a = c).
Proof.
  intros q a i sec Hcol Hq.
  destruct a; try discriminate Hcol;
    unfold get_colour_attr, has_colour_attr_rgb8, get_colour_attr_rgb8; rewrite Hq;
    (destruct sec as [c | ]; repeat split; try reflexivity; intros c' Hc'; [ injection Hc' as <-; reflexivity | discriminate Hc' ]).
Qed.

Lemma equiv_colour_spec : forall (q p : pen) a i sec i' sec',
  is_colour_attr a = true ->
  get_colour_attr p a = i -> has_colour_attr_rgb8 p a = has_sec sec ->
  (forall c, sec = Some c -> get_colour_attr_rgb8 p a = c) ->
  get_colour_attr q a = i' -> has_colour_attr_rgb8 q a = has_sec sec' ->
  (forall c, sec' = Some c -> get_colour_attr_rgb8 q a = c) ->
  (equiv_attr q p a = true <-> VCol i' sec' = VCol i sec).
Proof.
  intros q p a i sec i' sec' Hcol Hpi Hps Hpc Hqi Hqs Hqc.
  unfold equiv_attr.
  assert (Hty : attr_type a = TyColour) by (destruct a; try discriminate Hcol; reflexivity).
  rewrite Hty, Hpi, Hps, Hqi, Hqs. clear Hpi Hqi.
  destruct (i' =? i) eqn:Hi; cbn [negb].
  - apply Z.eqb_eq in Hi. subst i'.
    destruct sec' as [c' | ], sec as [c | ]; cbn [has_sec negb andb orb].
    + rewrite (Hpc c eq_refl), (Hqc c' eq_refl). split.
      * intro H. apply rgb_eqb_eq in H. subst c'. reflexivity.
      * intro H. injection H as ->. apply rgb_eqb_refl.
    + split; intro H; discriminate H.
    + split; intro H; discriminate H.
    + split; reflexivity.
  - split; [ intro H; discriminate H | intro H; injection H as H _; subst i'; rewrite Z.eqb_refl in Hi; discriminate Hi ].
Qed.

Lemma copy_colour : forall (p : pen) a i sec,
  is_colour_attr a = true ->
  get_colour_attr p a = i -> has_colour_attr_rgb8 p a = has_sec sec ->
  (forall c, sec = Some c -> get_colour_attr_rgb8 p a = c) ->
  forall d b, copy_attr d p a b = pset d a (Some (VCol i sec)) b.
Proof.
  intros p a i sec Hcol Hpi Hps Hpc d b.
  assert (Hty : attr_type a = TyColour) by (destruct a; try discriminate Hcol; reflexivity).
  unfold copy_attr. rewrite Hty, Hpi, Hps.
  assert (Hset : set_colour_attr d a i = pset d a (Some (VCol i None)))
    by (destruct a; try discriminate Hcol; reflexivity).
  rewrite Hset.
  destruct sec as [c | ]; cbn [has_sec]; [ | reflexivity ].
  rewrite (Hpc c eq_refl).
  assert (Hrgb : set_colour_attr_rgb8 (pset d a (Some (VCol i None))) a c
                 = pset (pset d a (Some (VCol i None))) a (Some (VCol i (Some c)))).
  { destruct a; try discriminate Hcol; unfold set_colour_attr_rgb8; rewrite pset_same; reflexivity. }
  rewrite Hrgb. unfold pset. destruct (attr_eqb a b); reflexivity.
Qed.

Lemma colour_shape : forall a y, is_colour_attr a = true -> aval_in_range a y ->
  exists i sec, y = VCol i sec.
Proof.
  intros a y Hcol Hy.
  destruct a; try discriminate Hcol; destruct y as [b | n | i sec]; cbn in Hy; try contradiction;
    exists i, sec; reflexivity.
Qed.

Lemma step_colour : forall colors op (p tp delta : pen) a i sec,
  is_colour_attr a = true -> 0 <= colors ->
  op && negb (has_attr p a) = false ->
  get_colour_attr p a = i -> has_colour_attr_rgb8 p a = has_sec sec ->
  (forall c, sec = Some c -> get_colour_attr_rgb8 p a = c) ->
  -1 <= i <= 255 ->
  (forall v, tp a = Some v -> aval_in_range a v) ->
  exists tp' delta', pen_step colors op p (Some (tp, delta)) a = Some (tp', delta') /\
    step_result tp delta tp' delta' a (Some (conv_val colors (VCol i sec))).
Proof.
  intros colors op p tp delta a i sec Hcol Hcolors Hskip Hpi Hps Hpc Hi Htp.
  unfold pen_step. rewrite Hskip, Hcol, Hpi. cbn [andb conv_val].
  destruct (colors <=? i) eqn:Hc.
  - (* palette conversion *)
    apply Z.leb_le in Hc.
    assert (Hi' : 0 <= i <= 255) by lia.
    assert (H0i : (0 <=? i) = true) by (apply Z.leb_le; lia). rewrite H0i. cbn [andb].
    destruct (convert_colour_ok i colors Hi') as (j & Hj & Hjr). rewrite Hj.
    assert (Hset : forall d, set_colour_attr d a j = pset d a (Some (VCol j None)))
      by (intro d; destruct a; try discriminate Hcol; reflexivity).
    rewrite !Hset.
    destruct (tp a) as [y | ] eqn:Hta.
    + destruct (colour_shape a y Hcol (Htp y eq_refl)) as (i' & sec' & ->).
      destruct (col_accessors tp a i' sec' Hcol Hta) as (Hqi & Hqs & _).
      unfold has_attr. rewrite Hta, Hqi, Hqs. cbn [andb]. clear Hqi.
      destruct (i' =? j) eqn:Hij; cbn [andb].
      * apply Z.eqb_eq in Hij. subst i'.
        destruct sec' as [c' | ]; cbn [has_sec negb].
        -- eexists; eexists; split; [ reflexivity | ]. right. repeat split; try reflexivity.
           rewrite Hta. discriminate.
        -- eexists; eexists; split; [ reflexivity | ]. left. repeat split; try reflexivity. exact Hta.
      * eexists; eexists; split; [ reflexivity | ]. right. repeat split; try reflexivity.
        rewrite Hta. intro H. injection H as H _. subst i'. rewrite Z.eqb_refl in Hij. discriminate Hij.
    + unfold has_attr. rewrite Hta. cbn [andb].
      eexists; eexists; split; [ reflexivity | ]. right. repeat split; try reflexivity.
      rewrite Hta. discriminate.
  - (* the index is within the terminal's palette *)
    cbn [andb].
    destruct (tp a) as [y | ] eqn:Hta.
    + destruct (colour_shape a y Hcol (Htp y eq_refl)) as (i' & sec' & ->).
      destruct (col_accessors tp a i' sec' Hcol Hta) as (Hqi & Hqs & Hqc).
      pose proof (equiv_colour_spec tp p a i sec i' sec' Hcol Hpi Hps Hpc Hqi Hqs Hqc) as Heq.
      unfold has_attr. rewrite Hta. cbn [andb].
      destruct (equiv_attr tp p a) eqn:He.
      * eexists; eexists; split; [ reflexivity | ]. left. repeat split; try reflexivity.
        rewrite Hta. f_equal. apply Heq. reflexivity.
      * eexists; eexists; split; [ reflexivity | ]. right.
        split; [ apply (copy_colour p a i sec Hcol Hpi Hps Hpc) | ].
        split; [ apply (copy_colour p a i sec Hcol Hpi Hps Hpc) | ].
        rewrite Hta. intro H.
        assert (Hv : VCol i' sec' = VCol i sec) by (injection H as H1 H2; rewrite H1, H2; reflexivity).
        apply Heq in Hv. discriminate Hv.
    + unfold has_attr. rewrite Hta. cbn [andb].
      eexists; eexists; split; [ reflexivity | ]. right.
      split; [ apply (copy_colour p a i sec Hcol Hpi Hps Hpc) | ].
      split; [ apply (copy_colour p a i sec Hcol Hpi Hps Hpc) | ].
      rewrite Hta. discriminate.
Qed.

(* the value a request stands for at [a]: its own, or (set-pen) the default *)
Definition eff_val (p : pen) (a : attr) : aval := match p a with Some v => v | None => default_val a end.

Lemma eff_in_range : forall p a, (forall v, p a = Some v -> aval_in_range a v) -> aval_in_range a (eff_val p a).
Proof.
  intros p a Hp. unfold eff_val. destruct (p a) as [x | ]; [ apply Hp; reflexivity | apply default_val_in_range ].
Qed.

Lemma eff_bool : forall p a, attr_type a = TyBool -> (forall v, p a = Some v -> aval_in_range a v) ->
  eff_val p a = VBool (get_bool_attr p a).
Proof.
  intros p a Hty Hp. unfold eff_val.
  destruct a; try discriminate Hty; unfold get_bool_attr;
    (destruct (p _) as [x | ]; [ specialize (Hp x eq_refl); destruct x; cbn in Hp; try contradiction; reflexivity | reflexivity ]).
Qed.

Lemma eff_int : forall p a, attr_type a = TyInt -> (forall v, p a = Some v -> aval_in_range a v) ->
  eff_val p a = VInt (get_int_attr p a).
Proof.
  intros p a Hty Hp. unfold eff_val.
  destruct a; try discriminate Hty; unfold get_int_attr;
    (destruct (p _) as [x | ]; [ specialize (Hp x eq_refl); destruct x; cbn in Hp; try contradiction; reflexivity | reflexivity ]).
Qed.

Lemma eff_col : forall p a, is_colour_attr a = true -> (forall v, p a = Some v -> aval_in_range a v) ->
  exists i sec, eff_val p a = VCol i sec /\ -1 <= i <= 255 /\
    get_colour_attr p a = i /\ has_colour_attr_rgb8 p a = has_sec sec /\
    (forall c, sec = Some c -> get_colour_attr_rgb8 p a = c).
Proof.
  intros p a Hcol Hp. unfold eff_val.
  destruct (p a) as [x | ] eqn:Hpa.
  - specialize (Hp x eq_refl).
    destruct (colour_shape a x Hcol Hp) as (i & sec & ->).
    exists i, sec. split; [ reflexivity | ].
    split; [ destruct a; try discriminate Hcol; cbn in Hp; lia | ].
    apply col_accessors; assumption.
  - exists (-1), None. split; [ destruct a; try discriminate Hcol; reflexivity | ].
    split; [ lia | ].
    destruct a; try discriminate Hcol;
      unfold get_colour_attr, has_colour_attr_rgb8, get_colour_attr_rgb8; rewrite Hpa;
      (repeat split; try reflexivity; intros c Hc; discriminate Hc).
Qed.

Lemma pen_step_char : forall colors op (p tp delta : pen) a,
  0 <= colors ->
  (forall v, tp a = Some v -> aval_in_range a v) ->
  (forall v, p a = Some v -> aval_in_range a v) ->
  exists tp' delta', pen_step colors op p (Some (tp, delta)) a = Some (tp', delta') /\
    step_result tp delta tp' delta' a (step_target colors op p tp a).
Proof.
  intros colors op p tp delta a Hcolors Htp Hp.
  destruct (op && negb (has_attr p a)) eqn:Hskip.
  - unfold pen_step. rewrite Hskip. exists tp, delta. split; [ reflexivity | ].
    left. repeat split; try reflexivity.
    apply andb_true_iff in Hskip. destruct Hskip as [Hop Hhas]. subst op.
    unfold step_target, has_attr in *. destruct (p a); [ discriminate Hhas | reflexivity ].
  - assert (HT : step_target colors op p tp a = Some (conv_val colors (eff_val p a))).
    { unfold step_target, eff_val. destruct op; [ | reflexivity ].
      cbn [andb] in Hskip. unfold has_attr in Hskip. destruct (p a); [ reflexivity | discriminate Hskip ]. }
    rewrite HT.
    destruct (attr_type a) eqn:Hty.
    + rewrite (eff_bool p a Hty Hp). cbn [conv_val]. apply step_bool; auto.
    + rewrite (eff_int p a Hty Hp). cbn [conv_val]. apply step_int; auto.
    + assert (Hcol : is_colour_attr a = true) by (destruct a; try discriminate Hty; reflexivity).
      destruct (eff_col p a Hcol Hp) as (i & sec & Hw & Hi & Hpi & Hps & Hpc).
      rewrite Hw. apply step_colour; auto.
Qed.

Lemma fold_char : forall colors op p tp0,
  0 <= colors -> pen_in_range p -> pen_in_range tp0 ->
  forall (l : list attr), NoDup l -> forall (tp delta : pen),
    (forall b, In b l -> tp b = tp0 b /\ delta b = None) ->
    exists tp' delta', fold_left (pen_step colors op p) l (Some (tp, delta)) = Some (tp', delta') /\
      (forall b, ~ In b l -> tp' b = tp b /\ delta' b = delta b) /\
      (forall b, In b l -> tp' b = step_target colors op p tp0 b /\
         ((tp' b = tp0 b /\ delta' b = None) \/ (tp' b <> tp0 b /\ delta' b = tp' b))).
Proof.
  intros colors op p tp0 Hcolors Hp Htp0 l.
  induction l as [ | a r IH]; intros Hnd tp delta Hpre.
  - exists tp, delta. split; [ reflexivity | ]. split; [ intros b _; split; reflexivity | intros b []].
  - inversion Hnd as [ | a' r' Hnotin Hnd' ]; subst a' r'.
    destruct (Hpre a (or_introl eq_refl)) as [Htpa Hda].
    assert (Htpr : forall v, tp a = Some v -> aval_in_range a v)
      by (intros v Hv; rewrite Htpa in Hv; exact (Htp0 a v Hv)).
    destruct (pen_step_char colors op p tp delta a Hcolors Htpr (Hp a)) as (tp1 & delta1 & Hstep & Hres).
    assert (HT : step_target colors op p tp a = step_target colors op p tp0 a)
      by (unfold step_target; rewrite Htpa; reflexivity).
    rewrite HT in Hres.
    assert (Hother : forall b, b <> a -> tp1 b = tp b /\ delta1 b = delta b).
    { intros b Hb. destruct Hres as [(H1 & H2 & _) | (H1 & H2 & _)].
      - split; [ apply H1 | apply H2 ].
      - rewrite H1, H2. rewrite !pset_other by (intro Heq; apply Hb; symmetry; exact Heq). split; reflexivity. }
    assert (Hpre1 : forall b, In b r -> tp1 b = tp0 b /\ delta1 b = None).
    { intros b Hb. assert (Hne : b <> a) by (intro Heq; subst b; contradiction).
      destruct (Hother b Hne) as [H1 H2]. destruct (Hpre b (or_intror Hb)) as [H3 H4].
      rewrite H1, H2. split; assumption. }
    destruct (IH Hnd' tp1 delta1 Hpre1) as (tp' & delta' & Hfold & Hout & Hin).
    exists tp', delta'.
    change (fold_left (pen_step colors op p) (a :: r) (Some (tp, delta)))
      with (fold_left (pen_step colors op p) r (pen_step colors op p (Some (tp, delta)) a)).
    rewrite Hstep. split; [ exact Hfold | ]. split.
    + intros b Hb. assert (Hne : b <> a) by (intro Heq; subst b; apply Hb; left; reflexivity).
      assert (Hnr : ~ In b r) by (intro Hr; apply Hb; right; exact Hr).
      destruct (Hout b Hnr) as [H1 H2]. destruct (Hother b Hne) as [H3 H4].
      rewrite H1, H2. split; assumption.
    + intros b [Hb | Hb].
      * subst b. destruct (Hout a Hnotin) as [H1 H2]. rewrite H1, H2.
        destruct Hres as [(R1 & R2 & R3) | (R1 & R2 & R3)].
        -- rewrite R1, R2, Hda. rewrite <- R3. split; [ reflexivity | ]. left. split; [ exact Htpa | reflexivity ].
        -- rewrite R1, R2, !pset_same. split; [ reflexivity | ]. right. split; [ | reflexivity ].
           rewrite <- Htpa. intro Heq. apply R3. symmetry. exact Heq.
      * apply Hin. exact Hb.
Qed.

Lemma cache_in_range : forall colors l, pen_in_range l -> pen_in_range (cache_of colors l).
Proof.
  intros colors l Hl a v Hv. unfold cache_of in Hv.
  destruct (l a) as [x | ] eqn:Hla; cbn [option_map] in Hv; [ | discriminate Hv ].
  injection Hv as <-. apply conv_val_in_range. apply Hl. exact Hla.
Qed.

Lemma logical_in_range : forall (is_set : bool) l p, pen_in_range l -> pen_in_range p ->
  pen_in_range (if is_set then logical_set l p else logical_ch l p).
Proof.
  intros is_set l p Hl Hp a v Hv. destruct is_set.
  - unfold logical_set in Hv. injection Hv as <-.
    destruct (p a) as [x | ] eqn:Hpa; [ apply Hp; exact Hpa | apply default_val_in_range ].
  - unfold logical_ch in Hv.
    destruct (p a) as [x | ] eqn:Hpa; [ injection Hv as <-; apply Hp; exact Hpa | apply Hl; exact Hv ].
Qed.

Lemma term_pen : term_pen_stmt.
Proof.
  unfold term_pen_stmt. intros colors is_set l tp p Hcolors Hl Hp Htp.
  set (l' := if is_set then logical_set l p else logical_ch l p).
  assert (Hl' : pen_in_range l') by (apply logical_in_range; assumption).
  assert (Htpr : pen_in_range tp).
  { intros a v Hv. rewrite Htp in Hv. exact (cache_in_range colors l Hl a v Hv). }
  assert (Hpre : forall b, In b all_attrs -> tp b = tp b /\ empty_pen b = None)
    by (intros b _; split; reflexivity).
  destruct (fold_char colors (negb is_set) p tp Hcolors Hp Htpr all_attrs nodup_all_attrs tp empty_pen Hpre)
    as (tp' & delta & Hfold & _ & Hin).
  exists tp', delta.
  assert (Hcache : forall a, tp' a = cache_of colors l' a).
  { intro a. destruct (Hin a (in_all_attrs a)) as [HT _]. rewrite HT.
    unfold step_target, cache_of, l'. destruct is_set; cbn [negb]; unfold logical_set, logical_ch.
    - reflexivity.
    - destruct (p a); [ reflexivity | apply Htp ]. }
  assert (Htpr' : pen_in_range tp').
  { intros a v Hv. rewrite Hcache in Hv. exact (cache_in_range colors l' Hl' a v Hv). }
  assert (Hd : forall a, (tp' a = tp a /\ delta a = None) \/ (tp' a <> tp a /\ delta a = tp' a))
    by (intro a; exact (proj2 (Hin a (in_all_attrs a)))).
  split; [ destruct is_set; exact Hfold | ].
  split; [ exact Hl' | ].
  split; [ exact Htpr' | ].
  split.
  { intros a v Hv. destruct (Hd a) as [[_ H] | [_ H]]; rewrite H in Hv; [ discriminate Hv | exact (Htpr' a v Hv) ]. }
  split; [ exact Hcache | ].
  split.
  { intro a. destruct (Hd a) as [[_ H] | [_ H]]; [ left | right ]; exact H. }
  split.
  { intros a Hne. destruct (Hd a) as [[H _] | [_ H]]; [ contradiction | exact H ]. }
  intros Hsame a. destruct (Hd a) as [[_ H] | [Hne _]]; [ exact H | ].
  exfalso. apply Hne. rewrite Hcache, Htp. unfold cache_of. rewrite Hsame. reflexivity.
Qed.

(* ==== termdriver-xterm.c: the SGR encoder against the VT *)

(* decide the integer tests that linear arithmetic settles *)
Ltac ztest :=
  repeat match goal with
  | |- context [Z.eqb ?x ?y] =>
      first [ replace (Z.eqb x y) with false by (symmetry; apply Z.eqb_neq; lia)
            | replace (Z.eqb x y) with true by (symmetry; apply Z.eqb_eq; lia) ]
  | |- context [Z.leb ?x ?y] =>
      first [ replace (Z.leb x y) with false by (symmetry; apply Z.leb_gt; lia)
            | replace (Z.leb x y) with true by (symmetry; apply Z.leb_le; lia) ]
  | |- context [Z.ltb ?x ?y] =>
      first [ replace (Z.ltb x y) with false by (symmetry; apply Z.ltb_ge; lia)
            | replace (Z.ltb x y) with true by (symmetry; apply Z.ltb_lt; lia) ]
  end; cbv beta iota delta [andb orb negb].

Lemma sgr_simple_fg_lo : forall i s, 0 <= i < 8 -> sgr_simple (30 + i) s = set_fg s (CIdx i).
Proof. intros i s Hi. unfold sgr_simple. ztest. f_equal. f_equal. lia. Qed.
Lemma sgr_simple_fg_hi : forall i s, 8 <= i < 16 -> sgr_simple (30 + 60 + i - 8) s = set_fg s (CIdx i).
Proof. intros i s Hi. unfold sgr_simple. ztest. f_equal. f_equal. lia. Qed.
Lemma sgr_simple_bg_lo : forall i s, 0 <= i < 8 -> sgr_simple (40 + i) s = set_bg s (CIdx i).
Proof. intros i s Hi. unfold sgr_simple. ztest. f_equal. f_equal. lia. Qed.
Lemma sgr_simple_bg_hi : forall i s, 8 <= i < 16 -> sgr_simple (40 + 60 + i - 8) s = set_bg s (CIdx i).
Proof. intros i s Hi. unfold sgr_simple. ztest. f_equal. f_equal. lia. Qed.
Lemma sgr_simple_font : forall n s, 0 <= n <= 9 -> sgr_simple (10 + n) s = set_font s n.
Proof. intros n s Hn. unfold sgr_simple. ztest. f_equal. lia. Qed.

(* ---- grouping and running one block *)
Lemma group_single : forall colon v rest,
  group_params colon ((v, false) :: rest) [] = [Some v] :: group_params colon rest [].
Proof. intros; reflexivity. Qed.
Lemma group_nocolon : forall v m rest,
  group_params false ((v, m) :: rest) [] = [Some v] :: group_params false rest [].
Proof. intros v m rest; destruct m; reflexivity. Qed.
Lemma group_colon2 : forall a b rest,
  group_params true ((a, true) :: (b, false) :: rest) [] = [Some a; Some b] :: group_params true rest [].
Proof. intros; reflexivity. Qed.
Lemma group_colon3 : forall a b c rest,
  group_params true ((a, true) :: (b, true) :: (c, false) :: rest) []
  = [Some a; Some b; Some c] :: group_params true rest [].
Proof. intros; reflexivity. Qed.
Lemma group_colon5 : forall a b c d e rest,
  group_params true ((a, true) :: (b, true) :: (c, true) :: (d, true) :: (e, false) :: rest) []
  = [Some a; Some b; Some c; Some d; Some e] :: group_params true rest [].
Proof. intros; reflexivity. Qed.

Lemma run_simple : forall n rest s, (n =? 38) || (n =? 48) = false ->
  sgr_run ([Some n] :: rest) s = sgr_run rest (sgr_simple n s).
Proof. intros n rest s H. cbn [sgr_run]. rewrite H. reflexivity. Qed.
Lemma run_sub : forall x y g rest s, sgr_run ((x :: y :: g) :: rest) s = sgr_run rest (sgr_sub (x :: y :: g) s).
Proof. intros; reflexivity. Qed.
Lemma run_legacy_idx : forall (fg : bool) i rest s,
  sgr_run ([Some (if fg then 38 else 48)] :: [Some 5] :: [Some i] :: rest) s
  = sgr_run rest (set_colour fg s (CIdx i)).
Proof. intros fg i rest s; destruct fg; reflexivity. Qed.
Lemma run_legacy_rgb : forall (fg : bool) r g b rest s,
  sgr_run ([Some (if fg then 38 else 48)] :: [Some 2] :: [Some r] :: [Some g] :: [Some b] :: rest) s
  = sgr_run rest (set_colour fg s (CRgb r g b)).
Proof. intros fg r g b rest s; destruct fg; reflexivity. Qed.
Lemma sub_idx : forall (fg : bool) i s,
  sgr_sub [Some (if fg then 38 else 48); Some 5; Some i] s = set_colour fg s (CIdx i).
Proof. intros fg i s; destruct fg; reflexivity. Qed.
Lemma sub_rgb : forall (fg : bool) r g b s,
  sgr_sub [Some (if fg then 38 else 48); Some 2; Some r; Some g; Some b] s = set_colour fg s (CRgb r g b).
Proof. intros fg r g b s; destruct fg; reflexivity. Qed.
Lemma sub_under : forall k s, 0 <= k <= 5 -> sgr_sub [Some 4; Some k] s = set_under s k.
Proof.
  intros k s Hk.
  assert (Hc : k = 0 \/ k = 1 \/ k = 2 \/ k = 3 \/ k = 4 \/ k = 5) by lia.
  destruct Hc as [-> | [-> | [-> | [-> | [-> | ->]]]]]; reflexivity.
Qed.

Definition block_ok (colon rgb8 : bool) (delta : pen) (a : attr) (x : aval) : Prop :=
  forall rest s, a_faint s = false ->
  exists s', sgr_run (group_params colon (attr_params colon rgb8 delta a ++ rest) []) s
             = sgr_run (group_params colon rest []) s' /\
             a_faint s' = false /\
             forall b, vt_attr s' b = if attr_eqb a b then enc colon rgb8 a x else vt_attr s b.

Lemma block_bool : forall colon rgb8 (delta : pen) a bv,
  attr_type a = TyBool -> delta a = Some (VBool bv) -> block_ok colon rgb8 delta a (VBool bv).
Proof.
  intros colon rgb8 delta a bv Hty Hd rest s Hf.
  assert (Hg : get_bool_attr delta a = bv)
    by (destruct a; try discriminate Hty; unfold get_bool_attr; rewrite Hd; reflexivity).
  exists (sgr_simple (if bv then fst (onoff a) else snd (onoff a)) s).
  destruct a; try discriminate Hty; unfold attr_params; rewrite Hg; destruct bv;
    (split; [ reflexivity | split; [ first [ exact Hf | reflexivity ] | intro b; destruct b; reflexivity ] ]).
Qed.

Lemma block_sizepos : forall colon rgb8 (delta : pen) n,
  delta ASizepos = Some (VInt n) -> aval_in_range ASizepos (VInt n) -> block_ok colon rgb8 delta ASizepos (VInt n).
Proof.
  intros colon rgb8 delta n Hd Hr rest s Hf.
  assert (Hg : get_int_attr delta ASizepos = n) by (unfold get_int_attr; rewrite Hd; reflexivity).
  unfold attr_params. rewrite Hg. cbn in Hr.
  destruct Hr as [-> | [-> | ->]].
  - exists (set_sizepos s 0). split; [ reflexivity | split; [ exact Hf | intro b; destruct b; reflexivity ] ].
  - exists (set_sizepos s 1). split; [ reflexivity | split; [ exact Hf | intro b; destruct b; reflexivity ] ].
  - exists (set_sizepos s 2). split; [ reflexivity | split; [ exact Hf | intro b; destruct b; reflexivity ] ].
Qed.

Lemma block_altfont : forall colon rgb8 (delta : pen) n,
  delta AAltfont = Some (VInt n) -> aval_in_range AAltfont (VInt n) -> block_ok colon rgb8 delta AAltfont (VInt n).
Proof.
  intros colon rgb8 delta n Hd Hr rest s Hf.
  assert (Hg : get_int_attr delta AAltfont = n) by (unfold get_int_attr; rewrite Hd; reflexivity).
  unfold attr_params. rewrite Hg. cbn in Hr.
  change (fst (onoff AAltfont)) with 10. change (snd (onoff AAltfont)) with 10.
  destruct (n <? 0) eqn:Hneg.
  - apply Z.ltb_lt in Hneg. cbn [orb].
    exists (set_font s 0). split; [ reflexivity | split; [ exact Hf | ] ].
    intro b; destruct b; try reflexivity.
    cbn [attr_eqb attr_index Nat.eqb enc vt_attr set_font a_font]. ztest. reflexivity.
  - apply Z.ltb_ge in Hneg. cbn [orb].
    replace (10 <=? n) with false by (symmetry; apply Z.leb_gt; lia).
    exists (set_font s n). cbn [app]. rewrite group_single, run_simple by (ztest; reflexivity).
    rewrite sgr_simple_font by lia.
    split; [ reflexivity | split; [ exact Hf | ] ].
    intro b; destruct b; try reflexivity.
    cbn [attr_eqb attr_index Nat.eqb enc vt_attr set_font a_font]. ztest. reflexivity.
Qed.

Lemma block_under : forall colon rgb8 (delta : pen) n,
  delta AUnder = Some (VInt n) -> aval_in_range AUnder (VInt n) -> block_ok colon rgb8 delta AUnder (VInt n).
Proof.
  intros colon rgb8 delta n Hd Hr rest s Hf.
  assert (Hg : get_int_attr delta AUnder = n) by (unfold get_int_attr; rewrite Hd; reflexivity).
  unfold attr_params. rewrite Hg. cbn in Hr.
  assert (Hc : n = 0 \/ n = 1 \/ n = 2 \/ n = 3) by lia.
  destruct Hc as [-> | [-> | [-> | ->]]]; destruct colon;
    (eexists; split; [ reflexivity | split; [ exact Hf | intro b; destruct b; reflexivity ] ]).
Qed.

Lemma block_fg : forall colon rgb8 (delta : pen) i sec,
  delta AFg = Some (VCol i sec) -> aval_in_range AFg (VCol i sec) -> block_ok colon rgb8 delta AFg (VCol i sec).
Proof.
  intros colon rgb8 delta i sec Hd Hr rest s Hf.
  destruct (col_accessors delta AFg i sec eq_refl Hd) as (Hgi & Hgs & Hgc).
  unfold attr_params. rewrite Hgi, Hgs.
  change (fst (onoff AFg)) with 30. change (snd (onoff AFg)) with 39. change (30 + 8) with 38.
  cbn in Hr. destruct Hr as [Hi _].
  assert (Hattr : forall c (b : attr), vt_attr (set_fg s c) b = if attr_eqb AFg b then XCol c else vt_attr s b)
    by (intros c b; destruct b; reflexivity).
  destruct (i <? 0) eqn:Hneg.
  { (* default colour *)
    exists (set_fg s CDefault). split; [ reflexivity | split; [ exact Hf | ] ].
    intro b. rewrite Hattr. cbn [enc]. rewrite Hneg. reflexivity. }
  apply Z.ltb_ge in Hneg.
  assert (Henc_idx : (rgb8 && has_sec sec = false) -> enc colon rgb8 AFg (VCol i sec) = XCol (CIdx i)).
  { intro Hno. cbn [enc]. replace (i <? 0) with false by (symmetry; apply Z.ltb_ge; lia).
    destruct sec as [c | ]; [ | reflexivity ]. destruct rgb8; [ discriminate Hno | reflexivity ]. }
  destruct (rgb8 && has_sec sec) eqn:Hrgb.
  { (* RGB8 *)
    apply andb_true_iff in Hrgb. destruct Hrgb as [-> Hsec].
    destruct sec as [c | ]; [ | discriminate Hsec ]. rewrite (Hgc c eq_refl).
    exists (set_fg s (CRgb (rgb_r c) (rgb_g c) (rgb_b c))).
    split.
    - cbn [app]. destruct colon.
      + rewrite group_colon5, run_sub. rewrite (sub_rgb true). reflexivity.
      + rewrite !group_nocolon. rewrite (run_legacy_rgb true). reflexivity.
    - split; [ exact Hf | ]. intro b. rewrite Hattr. cbn [enc].
      replace (i <? 0) with false by (symmetry; apply Z.ltb_ge; lia). reflexivity. }
  specialize (Henc_idx eq_refl).
  exists (set_fg s (CIdx i)).
  split; [ | split; [ exact Hf | intro b; rewrite Hattr, Henc_idx; reflexivity ] ].
  destruct (i <? 8) eqn:H8.
  { apply Z.ltb_lt in H8. cbn [app]. rewrite group_single, run_simple by (ztest; reflexivity).
    rewrite sgr_simple_fg_lo by lia. reflexivity. }
  apply Z.ltb_ge in H8.
  destruct (i <? 16) eqn:H16.
  { apply Z.ltb_lt in H16. cbn [app]. rewrite group_single, run_simple by (ztest; reflexivity).
    rewrite sgr_simple_fg_hi by lia. reflexivity. }
  cbn [app]. destruct colon.
  - rewrite group_colon3, run_sub. rewrite (sub_idx true). reflexivity.
  - rewrite !group_nocolon. rewrite (run_legacy_idx true). reflexivity.
Qed.

Lemma block_bg : forall colon rgb8 (delta : pen) i sec,
  delta ABg = Some (VCol i sec) -> aval_in_range ABg (VCol i sec) -> block_ok colon rgb8 delta ABg (VCol i sec).
Proof.
  intros colon rgb8 delta i sec Hd Hr rest s Hf.
  destruct (col_accessors delta ABg i sec eq_refl Hd) as (Hgi & Hgs & Hgc).
  unfold attr_params. rewrite Hgi, Hgs.
  change (fst (onoff ABg)) with 40. change (snd (onoff ABg)) with 49. change (40 + 8) with 48.
  cbn in Hr. destruct Hr as [Hi _].
  assert (Hattr : forall c (b : attr), vt_attr (set_bg s c) b = if attr_eqb ABg b then XCol c else vt_attr s b)
    by (intros c b; destruct b; reflexivity).
  destruct (i <? 0) eqn:Hneg.
  { (* default colour *)
    exists (set_bg s CDefault). split; [ reflexivity | split; [ exact Hf | ] ].
    intro b. rewrite Hattr. cbn [enc]. rewrite Hneg. reflexivity. }
  apply Z.ltb_ge in Hneg.
  assert (Henc_idx : (rgb8 && has_sec sec = false) -> enc colon rgb8 ABg (VCol i sec) = XCol (CIdx i)).
  { intro Hno. cbn [enc]. replace (i <? 0) with false by (symmetry; apply Z.ltb_ge; lia).
    destruct sec as [c | ]; [ | reflexivity ]. destruct rgb8; [ discriminate Hno | reflexivity ]. }
  destruct (rgb8 && has_sec sec) eqn:Hrgb.
  { (* RGB8 *)
    apply andb_true_iff in Hrgb. destruct Hrgb as [-> Hsec].
    destruct sec as [c | ]; [ | discriminate Hsec ]. rewrite (Hgc c eq_refl).
    exists (set_bg s (CRgb (rgb_r c) (rgb_g c) (rgb_b c))).
    split.
    - cbn [app]. destruct colon.
      + rewrite group_colon5, run_sub. rewrite (sub_rgb false). reflexivity.
      + rewrite !group_nocolon. rewrite (run_legacy_rgb false). reflexivity.
    - split; [ exact Hf | ]. intro b. rewrite Hattr. cbn [enc].
      replace (i <? 0) with false by (symmetry; apply Z.ltb_ge; lia). reflexivity. }
  specialize (Henc_idx eq_refl).
  exists (set_bg s (CIdx i)).
  split; [ | split; [ exact Hf | intro b; rewrite Hattr, Henc_idx; reflexivity ] ].
  destruct (i <? 8) eqn:H8.
  { apply Z.ltb_lt in H8. cbn [app]. rewrite group_single, run_simple by (ztest; reflexivity).
    rewrite sgr_simple_bg_lo by lia. reflexivity. }
  apply Z.ltb_ge in H8.
  destruct (i <? 16) eqn:H16.
  { apply Z.ltb_lt in H16. cbn [app]. rewrite group_single, run_simple by (ztest; reflexivity).
    rewrite sgr_simple_bg_hi by lia. reflexivity. }
  cbn [app]. destruct colon.
  - rewrite group_colon3, run_sub. rewrite (sub_idx false). reflexivity.
  - rewrite !group_nocolon. rewrite (run_legacy_idx false). reflexivity.
Qed.

Lemma attr_block : forall colon rgb8 (delta : pen) a x,
  delta a = Some x -> aval_in_range a x -> block_ok colon rgb8 delta a x.
Proof.
  intros colon rgb8 delta a x Hd Hr.
  destruct a; destruct x as [bv | n | i sec]; cbn in Hr; try contradiction.
  - apply block_fg; assumption.
  - apply block_bg; assumption.
  - apply block_bool; [ reflexivity | assumption ].
  - apply block_under; assumption.
  - apply block_bool; [ reflexivity | assumption ].
  - apply block_bool; [ reflexivity | assumption ].
  - apply block_bool; [ reflexivity | assumption ].
  - apply block_altfont; assumption.
  - apply block_bool; [ reflexivity | assumption ].
  - apply block_sizepos; assumption.
Qed.

Definition opt_params (colon rgb8 : bool) (delta : pen) (a : attr) : list sparam :=
  if has_attr delta a then attr_params colon rgb8 delta a else [].

Lemma chpen_params_eq : forall colon rgb8 delta,
  chpen_params colon rgb8 delta = flat_map (opt_params colon rgb8 delta) all_attrs.
Proof. reflexivity. Qed.

Lemma blocks_chain : forall colon rgb8 (delta : pen), pen_in_range delta ->
  forall (l : list attr), NoDup l -> forall rest s, a_faint s = false ->
  exists s', sgr_run (group_params colon (flat_map (opt_params colon rgb8 delta) l ++ rest) []) s
             = sgr_run (group_params colon rest []) s' /\
             a_faint s' = false /\
             (forall b, In b l -> vt_attr s' b = match delta b with Some x => enc colon rgb8 b x | None => vt_attr s b end) /\
             (forall b, ~ In b l -> vt_attr s' b = vt_attr s b).
Proof.
  intros colon rgb8 delta Hr l.
  induction l as [ | a r IH]; intros Hnd rest s Hf.
  - exists s. split; [ reflexivity | split; [ exact Hf | split; [ intros b [] | intros b _; reflexivity ] ] ].
  - inversion Hnd as [ | a' r' Hnotin Hnd' ]; subst a' r'.
    cbn [flat_map]. rewrite <- app_assoc.
    assert (Hs1 : exists s1, sgr_run (group_params colon (opt_params colon rgb8 delta a ++ flat_map (opt_params colon rgb8 delta) r ++ rest) []) s
                  = sgr_run (group_params colon (flat_map (opt_params colon rgb8 delta) r ++ rest) []) s1 /\
                  a_faint s1 = false /\
                  vt_attr s1 a = match delta a with Some x => enc colon rgb8 a x | None => vt_attr s a end /\
                  (forall b, b <> a -> vt_attr s1 b = vt_attr s b)).
    { unfold opt_params at 1. unfold has_attr. destruct (delta a) as [x | ] eqn:Hd.
      - destruct (attr_block colon rgb8 delta a x Hd (Hr a x Hd) (flat_map (opt_params colon rgb8 delta) r ++ rest) s Hf)
          as (s1 & Hrun & Hf1 & Hat).
        exists s1. split; [ exact Hrun | split; [ exact Hf1 | split ] ].
        + rewrite Hat, attr_eqb_refl. reflexivity.
        + intros b Hb. rewrite Hat, attr_eqb_neq by (intro Heq; apply Hb; symmetry; exact Heq). reflexivity.
      - exists s. split; [ reflexivity | split; [ exact Hf | split; [ reflexivity | intros b _; reflexivity ] ] ]. }
    destruct Hs1 as (s1 & Hrun1 & Hf1 & Ha1 & Ho1).
    destruct (IH Hnd' rest s1 Hf1) as (s' & Hrun & Hf' & Hin & Hout).
    exists s'. split; [ rewrite Hrun1; exact Hrun | split; [ exact Hf' | split ] ].
    + intros b [Hb | Hb].
      * subst b. rewrite (Hout a Hnotin). exact Ha1.
      * assert (Hne : b <> a) by (intro Heq; subst b; contradiction).
        rewrite (Hin b Hb), (Ho1 b Hne). reflexivity.
    + intros b Hb.
      assert (Hne : b <> a) by (intro Heq; subst b; apply Hb; left; reflexivity).
      assert (Hnr : ~ In b r) by (intro Hr'; apply Hb; right; exact Hr').
      rewrite (Hout b Hnr), (Ho1 b Hne). reflexivity.
Qed.

(* the driver's parameters, run on a terminal's rendition *)
Lemma chpen_params_run : forall colon rgb8 (delta : pen), pen_in_range delta ->
  forall s, a_faint s = false ->
  exists s', sgr_run (group_params colon (chpen_params colon rgb8 delta) []) s = s' /\
             a_faint s' = false /\
             (forall b, vt_attr s' b = match delta b with Some x => enc colon rgb8 b x | None => vt_attr s b end).
Proof.
  intros colon rgb8 delta Hr s Hf.
  destruct (blocks_chain colon rgb8 delta Hr all_attrs nodup_all_attrs [] s Hf) as (s' & Hrun & Hf' & Hin & _).
  rewrite app_nil_r in Hrun. cbn [group_params sgr_run] in Hrun.
  exists s'. split; [ rewrite chpen_params_eq; exact Hrun | split; [ exact Hf' | ] ].
  intro b. apply Hin. apply in_all_attrs.
Qed.

(* ---- the size of params[] *)
Definition attr_bound (a : attr) : nat :=
  match a with AFg | ABg => 5 | AUnder => 2 | _ => 1 end%nat.

Lemma attr_params_len : forall colon rgb8 delta a,
  (length (attr_params colon rgb8 delta a) <= attr_bound a)%nat.
Proof.
  intros colon rgb8 delta a. destruct a; unfold attr_params; cbn [attr_bound].
  - destruct (get_colour_attr delta AFg <? 0) eqn:H0; [ cbn [length]; lia | ].
    destruct (rgb8 && has_colour_attr_rgb8 delta AFg) eqn:H1; [ cbn [length]; lia | ].
    destruct (get_colour_attr delta AFg <? 8) eqn:H2; [ cbn [length]; lia | ].
    destruct (get_colour_attr delta AFg <? 16) eqn:H3; cbn [length]; lia.
  - destruct (get_colour_attr delta ABg <? 0) eqn:H0; [ cbn [length]; lia | ].
    destruct (rgb8 && has_colour_attr_rgb8 delta ABg) eqn:H1; [ cbn [length]; lia | ].
    destruct (get_colour_attr delta ABg <? 8) eqn:H2; [ cbn [length]; lia | ].
    destruct (get_colour_attr delta ABg <? 16) eqn:H3; cbn [length]; lia.
  - cbn [length]; lia.
  - destruct (get_int_attr delta AUnder =? 0) eqn:H0; [ cbn [length]; lia | ].
    destruct (get_int_attr delta AUnder =? 1) eqn:H1; [ cbn [length]; lia | ].
    destruct colon; cbn [length]; lia.
  - cbn [length]; lia.
  - cbn [length]; lia.
  - cbn [length]; lia.
  - destruct ((get_int_attr delta AAltfont <? 0) || (10 <=? get_int_attr delta AAltfont)) eqn:H0; cbn [length]; lia.
  - cbn [length]; lia.
  - destruct (get_int_attr delta ASizepos =? 0) eqn:H0; [ cbn [length]; lia | ].
    destruct (get_int_attr delta ASizepos =? 2) eqn:H1; [ cbn [length]; lia | ].
    destruct (get_int_attr delta ASizepos =? 3) eqn:H2; cbn [length]; lia.
Qed.

Lemma opt_params_len : forall colon rgb8 delta a,
  (length (opt_params colon rgb8 delta a) <= attr_bound a)%nat.
Proof.
  intros colon rgb8 delta a. unfold opt_params.
  destruct (has_attr delta a); [ apply attr_params_len | cbn [length]; lia ].
Qed.

Lemma params_fit : forall colon rgb8 delta,
  Z.of_nat (length (chpen_params colon rgb8 delta)) <= chpen_params_capacity.
Proof.
  intros colon rgb8 delta. rewrite chpen_params_eq. unfold all_attrs. cbn [flat_map].
  rewrite !app_length. cbn [length].
  pose proof (opt_params_len colon rgb8 delta AFg) as H1.
  pose proof (opt_params_len colon rgb8 delta ABg) as H2.
  pose proof (opt_params_len colon rgb8 delta ABold) as H3.
  pose proof (opt_params_len colon rgb8 delta AUnder) as H4.
  pose proof (opt_params_len colon rgb8 delta AItalic) as H5.
  pose proof (opt_params_len colon rgb8 delta AReverse) as H6.
  pose proof (opt_params_len colon rgb8 delta AStrike) as H7.
  pose proof (opt_params_len colon rgb8 delta AAltfont) as H8.
  pose proof (opt_params_len colon rgb8 delta ABlink) as H9.
  pose proof (opt_params_len colon rgb8 delta ASizepos) as H10.
  cbn [attr_bound] in *. unfold chpen_params_capacity. lia.
Qed.

Definition tight_pen : pen :=
  pset (pset (pset (pset (pset (pset (pset (pset (pset (pset empty_pen
    AFg (Some (VCol 1 (Some (mkRgb 1 2 3))))) ABg (Some (VCol 2 (Some (mkRgb 4 5 6)))))
    ABold (Some (VBool true))) AUnder (Some (VInt 3))) AItalic (Some (VBool true)))
    AReverse (Some (VBool true))) AStrike (Some (VBool true))) AAltfont (Some (VInt 1)))
    ABlink (Some (VBool true))) ASizepos (Some (VInt 2)).

Lemma params_fit_tight : exists colon rgb8 delta,
  pen_in_range delta /\ Z.of_nat (length (chpen_params colon rgb8 delta)) = 19.
Proof.
  exists true, true, tight_pen. split; [ | vm_compute; reflexivity ].
  intros a v Hv. destruct a; vm_compute in Hv; injection Hv as <-; cbn; lia.
Qed.

(* ==== chpen_core and the pen path as a whole *)

Lemma group_params_nonempty : forall colon ps cur,
  ps <> [] \/ cur <> [] -> group_params colon ps cur <> [].
Proof.
  intros colon ps. induction ps as [ | [v more] r IH]; intros cur H.
  - destruct H as [H | H]; [ contradiction | ].
    cbn [group_params]. destruct cur; [ contradiction | discriminate ].
  - cbn [group_params]. destruct (more && colon).
    + apply IH. right. discriminate.
    + discriminate.
Qed.

Lemma params_empty : forall colon rgb8 (delta : pen),
  (forall a, delta a = None) -> chpen_params colon rgb8 delta = [].
Proof.
  intros colon rgb8 delta H. rewrite chpen_params_eq. unfold all_attrs, opt_params, has_attr.
  cbn [flat_map]. rewrite !H. reflexivity.
Qed.

Lemma pen_emptyb_true : forall delta : pen, pen_emptyb delta = true -> forall a, delta a = None.
Proof.
  intros delta H a. unfold pen_emptyb in H. rewrite forallb_forall in H.
  specialize (H a (in_all_attrs a)). unfold has_attr in H.
  destruct (delta a); [ discriminate H | reflexivity ].
Qed.

Lemma pen_emptyb_false : forall delta : pen, pen_emptyb delta = false -> exists a x, delta a = Some x.
Proof.
  intros delta H.
  destruct (delta AFg) as [x | ] eqn:H1; [ exists AFg, x; exact H1 | ].
  destruct (delta ABg) as [x | ] eqn:H2; [ exists ABg, x; exact H2 | ].
  destruct (delta ABold) as [x | ] eqn:H3; [ exists ABold, x; exact H3 | ].
  destruct (delta AUnder) as [x | ] eqn:H4; [ exists AUnder, x; exact H4 | ].
  destruct (delta AItalic) as [x | ] eqn:H5; [ exists AItalic, x; exact H5 | ].
  destruct (delta AReverse) as [x | ] eqn:H6; [ exists AReverse, x; exact H6 | ].
  destruct (delta AStrike) as [x | ] eqn:H7; [ exists AStrike, x; exact H7 | ].
  destruct (delta AAltfont) as [x | ] eqn:H8; [ exists AAltfont, x; exact H8 | ].
  destruct (delta ABlink) as [x | ] eqn:H9; [ exists ABlink, x; exact H9 | ].
  destruct (delta ASizepos) as [x | ] eqn:H10; [ exists ASizepos, x; exact H10 | ].
  exfalso. unfold pen_emptyb, all_attrs, has_attr in H. cbn [forallb] in H.
  rewrite H1, H2, H3, H4, H5, H6, H7, H8, H9, H10 in H. discriminate H.
Qed.

(* an attribute present (with a value in range) always produces parameters: run on two
   renditions that differ everywhere, the block makes them agree at that attribute *)
Definition other_attrs : attrs := mkAttrs (CIdx 1) (CIdx 1) true false 1 true true true 1 true 1.

Lemma params_nonempty : forall colon rgb8 (delta : pen) a x,
  pen_in_range delta -> delta a = Some x -> chpen_params colon rgb8 delta <> [].
Proof.
  intros colon rgb8 delta a x Hr Hd Hnil.
  destruct (chpen_params_run colon rgb8 delta Hr default_attrs eq_refl) as (s1 & Hrun1 & _ & Hat1).
  destruct (chpen_params_run colon rgb8 delta Hr other_attrs eq_refl) as (s2 & Hrun2 & _ & Hat2).
  rewrite Hnil in Hrun1, Hrun2. cbn [group_params sgr_run] in Hrun1, Hrun2. subst s1 s2.
  specialize (Hat1 a). specialize (Hat2 a). rewrite Hd in Hat1, Hat2. rewrite <- Hat2 in Hat1.
  destruct a; discriminate Hat1.
Qed.

Lemma set_sgr_id : forall v, v = set_sgr v (v_sgr v).
Proof. intros [ ]; reflexivity. Qed.

Lemma chpen_core : chpen_core_stmt.
Proof.
  unfold chpen_core_stmt. intros colon rgb8 delta final v Hr Hf.
  unfold xterm_chpen.
  pose proof (params_fit colon rgb8 delta) as Hfit.
  replace (chpen_params_capacity <? Z.of_nat (length (chpen_params colon rgb8 delta))) with false
    by (symmetry; apply Z.ltb_ge; exact Hfit).
  destruct (chpen_params_run colon rgb8 delta Hr (v_sgr v) Hf) as (s' & Hrun & Hf' & Hat).
  destruct (chpen_params colon rgb8 delta) as [ | p0 ps'] eqn:Hps.
  - (* nothing to send *)
    exists []. split; [ reflexivity | ]. cbn [vt_run fold_left].
    split; [ apply set_sgr_id | ]. split; [ exact Hf | ]. split; [ reflexivity | ].
    cbn [group_params sgr_run] in Hrun. subst s'.
    destruct (is_nondefault final || pen_emptyb delta) eqn:Hcase; [ exact Hat | ].
    exfalso. apply orb_false_iff in Hcase. destruct Hcase as [_ Hne].
    destruct (pen_emptyb_false delta Hne) as (a & x & Hd).
    exact (params_nonempty colon rgb8 delta a x Hr Hd Hps).
  - assert (Hnone : (forall a, delta a = None) -> False).
    { intro Hall. rewrite (params_empty colon rgb8 delta Hall) in Hps. discriminate Hps. }
    destruct (is_nondefault final) eqn:Hnd; cbn [negb orb].
    + (* the parameters *)
      exists [TCsi None (group_params colon (p0 :: ps') []) [] 109]. split; [ reflexivity | ].
      assert (Hv' : vt_run [TCsi None (group_params colon (p0 :: ps') []) [] 109] v = set_sgr v s').
      { cbn [vt_run fold_left vt_step].
        change (vt_csi v None (group_params colon (p0 :: ps') []) [] 109)
          with (vt_sgr v (group_params colon (p0 :: ps') [])).
        unfold vt_sgr.
        destruct (group_params colon (p0 :: ps') []) as [ | g gs] eqn:Hg.
        - exfalso. apply (group_params_nonempty colon (p0 :: ps') []); [ left; discriminate | exact Hg ].
        - rewrite Hrun. reflexivity. }
      rewrite Hv'. cbn [set_sgr v_sgr].
      split; [ reflexivity | ]. split; [ exact Hf' | ].
      split; [ intro Hall; exfalso; exact (Hnone Hall) | exact Hat ].
    + (* reset *)
      exists [TCsi None [] [] 109]. split; [ reflexivity | ].
      change (vt_run [TCsi None [] [] 109] v) with (set_sgr v default_attrs).
      cbn [set_sgr v_sgr].
      split; [ reflexivity | ]. split; [ reflexivity | ].
      split; [ intro Hall; exfalso; exact (Hnone Hall) | ].
      destruct (pen_emptyb delta) eqn:He; [ | reflexivity ].
      exfalso. exact (Hnone (pen_emptyb_true delta He)).
Qed.

(* ---- the two layers together *)
Lemma op_ok : forall colors colon rgb8 (is_set : bool) l tp v p,
  0 <= colors -> PenInv colors colon rgb8 l tp v -> pen_in_range p ->
  exists tp' ts,
    (if is_set then do_setpen else do_chpen) chpen_params_capacity colon rgb8 (mkTp tp colors) p
      = Some (mkTp tp' colors, ts) /\
    PenInv colors colon rgb8 (if is_set then logical_set l p else logical_ch l p) tp' (vt_run ts v) /\
    vt_run ts v = set_sgr v (v_sgr (vt_run ts v)) /\
    ((forall a, (if is_set then logical_set l p else logical_ch l p) a = l a) ->
     ts = [] /\ forall a, tp' a = tp a).
Proof.
  intros colors colon rgb8 is_set l tp v p Hcolors Hinv Hp.
  destruct Hinv as (Hl & Htp & Hm & Hfaint).
  pose proof (term_pen colors is_set l tp p Hcolors Hl Hp Htp) as Hterm. cbv zeta in Hterm.
  set (l' := if is_set then logical_set l p else logical_ch l p) in *.
  destruct Hterm as (tp' & delta & Hterm & Hl' & Htpr' & Hdr & Hcache & Hsub & Hchg & Hsame).
  pose proof (chpen_core colon rgb8 delta tp' v Hdr Hfaint) as Hcore. cbv zeta in Hcore.
  destruct Hcore as (ts & Hx & Hv' & Hf' & Hnil & Hcase).
  exists tp', ts.
  split.
  { destruct is_set; unfold do_setpen, do_chpen; cbn [tp_colors tp_pen];
      rewrite Hterm, Hx; reflexivity. }
  split.
  { split; [ exact Hl' | ]. split; [ exact Hcache | ]. split; [ | exact Hf' ].
    destruct (is_nondefault tp' || pen_emptyb delta) eqn:Hc.
    - intro a. rewrite Hcase.
      destruct (delta a) as [x | ] eqn:Hda.
      + destruct (Hsub a) as [Hn | He]; [ rewrite Hn in Hda; discriminate Hda | ].
        rewrite <- He, Hda. reflexivity.
      + destruct (optaval_eq_dec (tp' a) (tp a)) as [E | N]; [ rewrite E; apply Hm | ].
        exfalso. pose proof (Hchg a N) as He. rewrite Hda in He.
        apply N. rewrite <- He. symmetry.
        pose proof (Hcache a) as Hc'. rewrite <- He in Hc'.
        rewrite Htp. unfold cache_of in *.
        assert (Hl'a : l' a = None) by (destruct (l' a); [ discriminate Hc' | reflexivity ]).
        unfold l' in Hl'a. destruct is_set.
        * unfold logical_set in Hl'a. discriminate Hl'a.
        * unfold logical_ch in Hl'a. destruct (p a); [ discriminate Hl'a | ]. rewrite Hl'a. reflexivity.
    - apply orb_false_iff in Hc. destruct Hc as [Hnd _].
      rewrite Hcase. intro a. destruct (tp' a) as [y | ] eqn:Hy; [ | reflexivity ].
      symmetry. exact (nondefault_enc colon rgb8 tp' a y Htpr' Hnd Hy). }
  split; [ exact Hv' | ].
  intro Hs. split; [ apply Hnil; apply Hsame; exact Hs | ].
  intro a. rewrite Hcache, Htp. unfold cache_of. rewrite Hs. reflexivity.
Qed.

Lemma setpen_ok : forall colors colon rgb8 l tp v p,
  0 <= colors -> PenInv colors colon rgb8 l tp v -> pen_in_range p ->
  exists tp' ts,
    do_setpen chpen_params_capacity colon rgb8 (mkTp tp colors) p = Some (mkTp tp' colors, ts) /\
    PenInv colors colon rgb8 (logical_set l p) tp' (vt_run ts v) /\
    vt_run ts v = set_sgr v (v_sgr (vt_run ts v)).
Proof.
  intros colors colon rgb8 l tp v p Hcolors Hinv Hp.
  destruct (op_ok colors colon rgb8 true l tp v p Hcolors Hinv Hp) as (tp' & ts & H1 & H2 & H3 & _).
  exists tp', ts. split; [ exact H1 | split; [ exact H2 | exact H3 ] ].
Qed.

Lemma chpen_ok : forall colors colon rgb8 l tp v p,
  0 <= colors -> PenInv colors colon rgb8 l tp v -> pen_in_range p ->
  exists tp' ts,
    do_chpen chpen_params_capacity colon rgb8 (mkTp tp colors) p = Some (mkTp tp' colors, ts) /\
    PenInv colors colon rgb8 (logical_ch l p) tp' (vt_run ts v) /\
    vt_run ts v = set_sgr v (v_sgr (vt_run ts v)).
Proof.
  intros colors colon rgb8 l tp v p Hcolors Hinv Hp.
  destruct (op_ok colors colon rgb8 false l tp v p Hcolors Hinv Hp) as (tp' & ts & H1 & H2 & H3 & _).
  exists tp', ts. split; [ exact H1 | split; [ exact H2 | exact H3 ] ].
Qed.

Lemma vt_run_app : forall ts ts' v, vt_run (ts ++ ts') v = vt_run ts' (vt_run ts v).
Proof. intros ts ts' v. unfold vt_run. apply fold_left_app. Qed.

Lemma history_ok : forall colors colon rgb8 ops l tp v,
  0 <= colors -> PenInv colors colon rgb8 l tp v ->
  Forall (fun o => pen_in_range (snd o)) ops ->
  exists tp' ts,
    pen_run chpen_params_capacity colon rgb8 (mkTp tp colors) ops = Some (mkTp tp' colors, ts) /\
    PenInv colors colon rgb8 (logical_run l ops) tp' (vt_run ts v).
Proof.
  intros colors colon rgb8 ops.
  induction ops as [ | [is_set p] r IH]; intros l tp v Hcolors Hinv Hall.
  - exists tp, []. split; [ reflexivity | exact Hinv ].
  - inversion Hall as [ | o r' Hp Hr ]; subst o r'. cbn [snd] in Hp.
    destruct (op_ok colors colon rgb8 is_set l tp v p Hcolors Hinv Hp) as (tp1 & ts1 & H1 & H2 & _).
    destruct (IH _ tp1 (vt_run ts1 v) Hcolors H2 Hr) as (tp' & ts' & H3 & H4).
    exists tp', (ts1 ++ ts'). cbn [pen_run logical_run]. rewrite H1, H3.
    split; [ reflexivity | ]. rewrite vt_run_app. exact H4.
Qed.

Lemma rendition : forall colors colon rgb8 l tp v,
  PenInv colors colon rgb8 l tp v ->
  forall a, vt_attr (v_sgr v) a =
            match l a with
            | Some x => enc colon rgb8 a (conv_val colors x)
            | None => vt_attr default_attrs a
            end.
Proof.
  intros colors colon rgb8 l tp v (Hl & Htp & Hm & _) a.
  rewrite Hm, Htp. unfold cache_of. destruct (l a); reflexivity.
Qed.

Lemma noop_silent : forall colors colon rgb8 (is_set : bool) l tp v p,
  0 <= colors -> PenInv colors colon rgb8 l tp v -> pen_in_range p ->
  (forall a, (if is_set then logical_set l p else logical_ch l p) a = l a) ->
  exists tp',
    (if is_set then do_setpen else do_chpen) chpen_params_capacity colon rgb8 (mkTp tp colors) p
      = Some (mkTp tp' colors, []) /\
    forall a, tp' a = tp a.
Proof.
  intros colors colon rgb8 is_set l tp v p Hcolors Hinv Hp Hs.
  destruct (op_ok colors colon rgb8 is_set l tp v p Hcolors Hinv Hp) as (tp' & ts & H1 & _ & _ & H4).
  destruct (H4 Hs) as [Hts Hsame]. subst ts.
  exists tp'. split; [ exact H1 | exact Hsame ].
Qed.

Lemma initial_inv : forall colors colon rgb8 lines cols,
  PenInv colors colon rgb8 empty_pen empty_pen (vt_init lines cols).
Proof.
  intros colors colon rgb8 lines cols.
  split; [ intros a v Hv; discriminate Hv | ].
  split; [ intro a; reflexivity | ].
  split; [ intro a; reflexivity | reflexivity ].
Qed.
