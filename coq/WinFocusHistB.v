(* WinFocusHistB.v -- C15 over histories, part B: the invariant FInv and the generic step;
   how the focus target (ftarget) behaves under the tree editors of the window operations. *)
From Coq Require Import ZArith List Bool Lia ZifyBool Permutation.
From Tickit Require Import RectDefs RectProofs WinRectSet WinDefs WinSpec WinScreenInv
  WinFocusProofs WinFocusHistA.
Import ListNotations.
Local Open Scope Z_scope.
Local Strategy 1000 [rsfuel].

(* ------------------------------------------------------------------------------------ *)
(* the invariant                                                                         *)

(* the cursor is where the specification puts it, or a flush that will put it there is pending *)
Definition CursorInv (st : root) (tm : term) : Prop :=
  cursor_of tm = cursor_spec (r_tree st) \/
  (r_later st = true /\ (r_nrest st = true \/ r_nexp st = true)).

Record FInv (st : root) (tm : term) : Prop := mkFInv {
  fi_wft : WFT (r_tree st);
  fi_ok : StOK st;
  fi_cursor : CursorInv st tm }.

Definition flags_mono (st st' : root) : Prop :=
  (r_later st = true -> r_later st' = true) /\
  (r_nexp st = true -> r_nexp st' = true) /\
  (r_nrest st = true -> r_nrest st' = true).

Lemma fm_refl : forall st, flags_mono st st.
Proof. intro st. unfold flags_mono. tauto. Qed.

Lemma fm_trans : forall a b c, flags_mono a b -> flags_mono b c -> flags_mono a c.
Proof. unfold flags_mono. intros a b c H1 H2. tauto. Qed.

Lemma fm_root_damage : forall st d, flags_mono st (root_damage st d).
Proof.
  intros st d. unfold root_damage, flags_mono.
  destruct (rs_contains (r_fuel st) (r_damage st) d) as [[|]|]; [tauto| |cbn; tauto].
  destruct (rs_add (r_fuel st) (r_damage st) d); cbn; tauto.
Qed.

Lemma fm_expose : forall st id ex, flags_mono st (win_expose st id ex).
Proof.
  intros st id ex. unfold win_expose.
  destruct (t_chain id (r_tree st)) as [chain|]; [|apply fm_refl].
  destruct (expose_up chain ex); [apply fm_root_damage|apply fm_refl].
Qed.

Lemma fm_restore : forall st, flags_mono st (request_restore st).
Proof. intro st. unfold flags_mono, request_restore. cbn. tauto. Qed.

Lemma fm_cond_restore : forall (b : bool) st, flags_mono st (if b then request_restore st else st).
Proof. intros [|] st; [apply fm_restore|apply fm_refl]. Qed.

Lemma fm_cond_expose : forall (b : bool) st id ex, flags_mono st (if b then win_expose st id ex else st).
Proof. intros [|] st id ex; [apply fm_expose|apply fm_refl]. Qed.

(* states with the same three flags *)
Definition same_flags (st st' : root) : Prop :=
  r_later st' = r_later st /\ r_nexp st' = r_nexp st /\ r_nrest st' = r_nrest st.

Lemma fm_same : forall st st', same_flags st st' -> flags_mono st st'.
Proof. intros st st' (A & B & C). unfold flags_mono. rewrite A, B, C. tauto. Qed.

(* the generic step: what has to be shown of an operation st -> st' (terminal untouched) *)
Theorem finv_step : forall st st' tm, FInv st tm ->
  (forall app, ScreenInv app st' (canon app st)) ->
  ids_unique (r_tree st') -> wf_focus (r_tree st') ->
  (ckey (ftarget (r_tree st')) = ckey (ftarget (r_tree st)) \/
   (r_nrest st' = true /\ r_later st' = true)) ->
  flags_mono st st' ->
  FInv st' tm.
Proof.
  intros st st' tm [HT Hok Hcur] HSI Hu' Hwf' Hkey (FL & FE & FR).
  pose proof (state_of_screen _ _ _ (HSI (fun _ _ _ => 0))) as Hok'.
  assert (HT' : WFT (r_tree st')).
  { destruct Hok' as [[Ho1 Ho2] Hv _ _]. constructor; assumption. }
  constructor; [exact HT'|exact Hok'|].
  destruct Hcur as [Hc|[Hl [Hr|He]]].
  - destruct Hkey as [Hk|[Hr Hl]]; [|right; split; [exact Hl|left; exact Hr]].
    destruct (cursor_spec_stable (r_tree st) (r_tree st') (r_damage st') HT HT' Hk
                (owner_locality st st' Hok HSI)) as [He|Hd].
    + left. rewrite He. exact Hc.
    + right. destruct (so_flags _ Hok') as [Hf _]. destruct (Hf Hd) as [H1 H2].
      split; [exact H2|right; exact H1].
  - right. split; [apply FL; exact Hl|left; apply FR; exact Hr].
  - right. split; [apply FL; exact Hl|right; apply FE; exact He].
Qed.

(* ------------------------------------------------------------------------------------ *)
(* ftarget under info maps                                                               *)

Lemma kids_find_map : forall (g : wtree -> wtree) k ch, (forall c, t_id (g c) = t_id c) ->
  kids_find k (map g ch) = option_map g (kids_find k ch).
Proof.
  intros g k ch Hg. unfold kids_find. induction ch as [|c r IH]; [reflexivity|].
  cbn [map find]. rewrite Hg. destruct (t_id c =? k); [reflexivity|exact IH].
Qed.

Lemma ftarget_map_on : forall F, (forall i, w_id (F i) = w_id i) ->
  forall t, (forall s, subtree s t -> w_fchild (F (t_info s)) = w_fchild (t_info s)) ->
  ftarget (t_map F t) = F (ftarget t).
Proof.
  intros F HF. induction t as [i ch IH] using wtree_ind'. intro Hfc.
  cbn [t_map]. rewrite !ftarget_unf.
  pose proof (Hfc (Node i ch) (sub_refl _)) as Hi. cbn [t_info] in Hi. rewrite Hi.
  destruct (w_fchild i) as [k|]; [|reflexivity].
  rewrite kids_find_map by (intro c; apply t_map_id; exact HF).
  destruct (kids_find k ch) as [c|] eqn:Ef; [|reflexivity]. cbn [option_map].
  apply kids_find_some in Ef. destruct Ef as [Hin _]. rewrite Forall_forall in IH.
  apply IH; [exact Hin|]. intros s Hs. apply Hfc. eapply sub_kid; [exact Hin|exact Hs].
Qed.

Lemma ftarget_update : forall f z t, (forall i, w_id (f i) = w_id i) ->
  (forall s, subtree s t -> t_id s = z -> w_fchild (f (t_info s)) = w_fchild (t_info s)) ->
  ftarget (t_update f z t) = (if w_id (ftarget t) =? z then f (ftarget t) else ftarget t).
Proof.
  intros f z t Hf Hfc. rewrite t_update_map.
  apply (ftarget_map_on (fun i => if w_id i =? z then f i else i)).
  - intro i. destruct (w_id i =? z); [apply Hf|reflexivity].
  - intros s Hs. cbn beta. destruct (w_id (t_info s) =? z) eqn:E; [|reflexivity].
    apply Hfc; [exact Hs|unfold t_id; lia].
Qed.

(* t_find finds a subtree *)
Lemma t_find_sub : forall id t n, t_find id t = Some n -> subtree n t /\ t_id n = id.
Proof.
  intros id. induction t as [i ch IH] using wtree_ind'. intros n Hf.
  rewrite t_find_unf in Hf. destruct (w_id i =? id) eqn:E.
  - inversion Hf; subst n. split; [constructor|unfold t_id; cbn [t_info]; lia].
  - assert (Hgo : exists c, In c ch /\ t_find id c = Some n).
    { clear IH E. induction ch as [|c r IHr]; [discriminate|].
      cbn [tf_go] in Hf. destruct (t_find id c) as [x|] eqn:Ec.
      - inversion Hf; subst x. exists c. split; [left; reflexivity|exact Ec].
      - destruct (IHr Hf) as [c0 [Hin Hc0]]. exists c0. split; [right; exact Hin|exact Hc0]. }
    destruct Hgo as [c [Hin Hc]]. rewrite Forall_forall in IH.
    destruct (IH c Hin n Hc) as [Hs Hid]. split; [|exact Hid].
    eapply sub_kid; [exact Hin|exact Hs].
Qed.

(* the focus target, if it has the given id, is the window t_find finds *)
Lemma ftarget_found : forall T id w, NoDup (t_ids T) -> t_find id T = Some w ->
  w_id (ftarget T) = id -> ftarget T = t_info w.
Proof.
  intros T id w Hnd Hf Hid. destruct (ftarget_sub T) as [s [Hs Hi]].
  destruct (t_find_sub _ _ _ Hf) as [Hw Hwid].
  assert (s = w).
  { eapply subtree_same_id; [exact Hnd|exact Hs|exact Hw|]. unfold t_id at 1. rewrite Hi. lia. }
  subst s. symmetry. exact Hi.
Qed.

(* wf_focus under an info change that keeps id, visibility and link *)
Lemma wf_focus_update_keep : forall f z t,
  (forall i, w_id (f i) = w_id i /\ w_vis (f i) = w_vis i /\ w_fchild (f i) = w_fchild i) ->
  wf_focus t -> wf_focus (t_update f z t).
Proof.
  intros f z t Hf Hwf. apply (wf_focus_lshape t); [|exact Hwf].
  unfold lshape. symmetry. apply t_update_E. intro i. destruct (Hf i) as (A & B & C).
  unfold E_l. rewrite A, B, C. reflexivity.
Qed.

(* ------------------------------------------------------------------------------------ *)
(* ftarget under edits of one child list                                                 *)

Lemma upd_kids_id : forall f pid c, t_id (t_upd_kids f pid c) = t_id c.
Proof. intros f pid c. unfold t_id. rewrite t_upd_kids_info. reflexivity. Qed.

Lemma ftarget_upd_kids : forall f pid (Pk : Z -> Prop), kids_edit_ok f ->
  (forall l k, NoDup (flat_map t_ids l) -> Pk k -> kids_find k (f l) = kids_find k l) ->
  forall t, NoDup (t_ids t) ->
  (forall i ch, subtree (Node i ch) t -> w_id i = pid -> forall k, w_fchild i = Some k -> Pk k) ->
  ftarget (t_upd_kids f pid t) = ftarget t.
Proof.
  intros f pid Pk Hok Hf. induction t as [i ch IH] using wtree_ind'. intros Hnd HP.
  apply node_nodup in Hnd. destruct Hnd as [Hni Hndch]. rewrite Forall_forall in IH.
  destruct (flat_map_sub (t_upd_kids f pid) ch Hndch
              (fun c Hc => upd_kids_nodup f pid Hok c (kids_nodup_in ch c Hndch Hc))) as [Hn1 _].
  cbn [t_upd_kids]. cbn zeta. rewrite !ftarget_unf.
  destruct (w_fchild i) as [k|] eqn:Ek; [|reflexivity].
  set (ch' := map (t_upd_kids f pid) ch) in *.
  assert (HK : kids_find k (if w_id i =? pid then f ch' else ch') = kids_find k ch').
  { destruct (w_id i =? pid) eqn:E; [|reflexivity]. apply Hf; [exact Hn1|].
    apply (HP i ch (sub_refl _)); [lia|exact Ek]. }
  rewrite HK. unfold ch'. rewrite kids_find_map by apply upd_kids_id.
  destruct (kids_find k ch) as [c|] eqn:Ef; [|reflexivity]. cbn [option_map].
  apply kids_find_some in Ef. destruct Ef as [Hin _].
  apply IH; [exact Hin|exact (kids_nodup_in ch c Hndch Hin)|].
  intros j cs Hs. apply (HP j cs). eapply sub_kid; [exact Hin|exact Hs].
Qed.

(* kids_find under the three kinds of edit *)
Lemma kids_find_remove : forall id k l, k <> id -> kids_find k (kids_remove id l) = kids_find k l.
Proof.
  intros id k l Hk. unfold kids_find, kids_remove. induction l as [|c r IH]; [reflexivity|].
  cbn [filter find]. destruct (t_id c =? id) eqn:E1; cbn [negb].
  - replace (t_id c =? k) with false by lia. exact IH.
  - cbn [find]. destruct (t_id c =? k); [reflexivity|exact IH].
Qed.

Lemma kids_find_cons_other : forall k node l, t_id node <> k -> kids_find k (node :: l) = kids_find k l.
Proof.
  intros k node l H. unfold kids_find. cbn [find]. replace (t_id node =? k) with false by lia. reflexivity.
Qed.

Lemma kids_find_snoc_other : forall k node l, t_id node <> k -> kids_find k (l ++ [node]) = kids_find k l.
Proof.
  intros k node l H. unfold kids_find. induction l as [|c r IH].
  - cbn [app find]. replace (t_id node =? k) with false by lia. reflexivity.
  - cbn [app find]. destruct (t_id c =? k); [reflexivity|exact IH].
Qed.

Lemma kids_find_perm : forall k l l', NoDup (flat_map t_ids l) -> Permutation l' l ->
  kids_find k l' = kids_find k l.
Proof.
  intros k l l' Hnd Hp.
  assert (Hnd' : NoDup (flat_map t_ids l')).
  { eapply Permutation_NoDup; [apply Permutation_sym; apply Permutation_flat_map; exact Hp|exact Hnd]. }
  destruct (kids_find k l) as [c|] eqn:E.
  - apply kids_find_some in E. destruct E as [Hin Hid].
    apply kids_find_in; [exact Hnd'| |exact Hid].
    eapply Permutation_in; [apply Permutation_sym; exact Hp|exact Hin].
  - destruct (kids_find k l') as [c'|] eqn:E'; [|reflexivity].
    apply kids_find_some in E'. destruct E' as [Hin Hid].
    rewrite (kids_find_in k l c' Hnd (Permutation_in _ Hp Hin) Hid) in E. discriminate.
Qed.

(* win_close's tree when the parent does not link to the closed window *)
Lemma ftarget_close : forall id pid t,
  (forall s, subtree s t -> t_id s = pid -> w_fchild (t_info s) <> Some id) ->
  ftarget (t_update (clear_link id) pid (t_upd_kids (kids_remove id) pid t)) = ftarget t.
Proof.
  intros id pid. induction t as [i ch IH] using wtree_ind'. intro Hp.
  rewrite Forall_forall in IH.
  set (H := fun c => t_update (clear_link id) pid (t_upd_kids (kids_remove id) pid c)).
  assert (Hid : forall c, t_id (H c) = t_id c).
  { intro c. unfold H. rewrite t_update_info_other by apply clear_link_id. apply upd_kids_id. }
  assert (Hinfo : (if w_id i =? pid then clear_link id i else i) = i).
  { destruct (w_id i =? pid) eqn:E; [|reflexivity].
    pose proof (Hp (Node i ch) (sub_refl _)) as Hn. unfold t_id in Hn. cbn [t_info] in Hn.
    unfold clear_link. destruct (w_fchild i) as [k|] eqn:Ek; [|reflexivity]. cbn [opt_eqb].
    destruct (k =? id) eqn:Ekid; [|reflexivity]. exfalso. apply Hn; [lia|f_equal; lia]. }
  cbn [t_upd_kids t_update]. cbn zeta. rewrite Hinfo, !ftarget_unf.
  destruct (w_fchild i) as [k|] eqn:Ek; [|reflexivity].
  assert (HK : kids_find k (map (t_update (clear_link id) pid)
                 (if w_id i =? pid then kids_remove id (map (t_upd_kids (kids_remove id) pid) ch)
                  else map (t_upd_kids (kids_remove id) pid) ch)) =
               option_map H (kids_find k ch)).
  { rewrite kids_find_map by (intro c; apply t_update_info_other; apply clear_link_id).
    assert (Hrm : kids_find k (if w_id i =? pid then kids_remove id (map (t_upd_kids (kids_remove id) pid) ch)
                               else map (t_upd_kids (kids_remove id) pid) ch)
                  = kids_find k (map (t_upd_kids (kids_remove id) pid) ch)).
    { destruct (w_id i =? pid) eqn:E; [|reflexivity]. apply kids_find_remove.
      pose proof (Hp (Node i ch) (sub_refl _)) as Hn. unfold t_id in Hn. cbn [t_info] in Hn.
      intro Hkid. apply Hn; [lia|rewrite Ek; f_equal; exact Hkid]. }
    rewrite Hrm, kids_find_map by apply upd_kids_id.
    destruct (kids_find k ch); reflexivity. }
  rewrite HK. destruct (kids_find k ch) as [c|] eqn:Ef; [|reflexivity]. cbn [option_map].
  apply kids_find_some in Ef. destruct Ef as [Hin _]. unfold H.
  apply IH; [exact Hin|]. intros s Hs. apply Hp. eapply sub_kid; [exact Hin|exact Hs].
Qed.

(* adding a leaf to one child list keeps wf_focus *)
Lemma upd_kids_wf_add : forall f pid node, wf_focus node ->
  (forall l x, In x (f l) <-> In x l \/ x = node) ->
  forall t, wf_focus t -> wf_focus (t_upd_kids f pid t).
Proof.
  intros f pid node Hnode Hf. induction t as [i ch IH] using wtree_ind'. intro Hwf.
  apply wf_focus_inv in Hwf. destruct Hwf as [Hl Hch]. rewrite Forall_forall in IH, Hch.
  cbn [t_upd_kids]. cbn zeta. set (ch' := map (t_upd_kids f pid) ch).
  assert (Hin' : forall c, In c ch -> In (t_upd_kids f pid c) (if w_id i =? pid then f ch' else ch')).
  { intros c Hc. destruct (w_id i =? pid); [apply Hf; left|]; unfold ch'; apply in_map; exact Hc. }
  constructor.
  - intros k Hk. destruct (Hl k Hk) as [c [Hin [Hid Hv]]].
    exists (t_upd_kids f pid c). split; [apply Hin'; exact Hin|].
    rewrite upd_kids_id, t_upd_kids_info. split; assumption.
  - rewrite Forall_forall. intros x Hx.
    assert (Hx' : In x ch' \/ x = node).
    { destruct (w_id i =? pid); [apply Hf; exact Hx|left; exact Hx]. }
    destruct Hx' as [Hx'|Hx']; [|subst x; exact Hnode].
    unfold ch' in Hx'. apply in_map_iff in Hx'. destruct Hx' as [c [Hc Hin]]. subst x.
    apply IH; [exact Hin|apply Hch; exact Hin].
Qed.

(* the same without any uniqueness, for edits that keep kids_find outright *)
Lemma ftarget_upd_kids_simple : forall f pid (Pk : Z -> Prop),
  (forall l k, Pk k -> kids_find k (f l) = kids_find k l) ->
  forall t,
  (forall i ch, subtree (Node i ch) t -> w_id i = pid -> forall k, w_fchild i = Some k -> Pk k) ->
  ftarget (t_upd_kids f pid t) = ftarget t.
Proof.
  intros f pid Pk Hf. induction t as [i ch IH] using wtree_ind'. intro HP.
  rewrite Forall_forall in IH. cbn [t_upd_kids]. cbn zeta. rewrite !ftarget_unf.
  destruct (w_fchild i) as [k|] eqn:Ek; [|reflexivity].
  set (ch' := map (t_upd_kids f pid) ch) in *.
  assert (HK : kids_find k (if w_id i =? pid then f ch' else ch') = kids_find k ch').
  { destruct (w_id i =? pid) eqn:E; [|reflexivity]. apply Hf.
    apply (HP i ch (sub_refl _)); [lia|exact Ek]. }
  rewrite HK. unfold ch'. rewrite kids_find_map by apply upd_kids_id.
  destruct (kids_find k ch) as [c|] eqn:Ef; [|reflexivity]. cbn [option_map].
  apply kids_find_some in Ef. destruct Ef as [Hin _].
  apply IH; [exact Hin|]. intros j cs Hs. apply (HP j cs). eapply sub_kid; [exact Hin|exact Hs].
Qed.

(* an info change that the cursor specification does not read *)
Lemma update_keep_ckey : forall f z t,
  (forall i, w_id (f i) = w_id i /\ w_fchild (f i) = w_fchild i /\ ckey (f i) = ckey i) ->
  ckey (ftarget (t_update f z t)) = ckey (ftarget t).
Proof.
  intros f z t Hf. rewrite ftarget_update.
  - destruct (w_id (ftarget t) =? z); [|reflexivity]. destruct (Hf (ftarget t)) as (_ & _ & C). exact C.
  - intro i. destruct (Hf i) as (A & _). exact A.
  - intros s _ _. destruct (Hf (t_info s)) as (_ & B & _). exact B.
Qed.
