(* LifeBindSim.v -- the heap twin of bindings.c (LifeBindDefs.v) and the logical model (BindDefs.v)
   run in lockstep: same results, same traces, same fuel; the cells allocated are exactly the nodes
   of the list. *)
From Coq Require Import ZArith List Bool PArith FMapPositive Lia.
From Tickit Require Import BindDefs LifeBindDefs.
Import ListNotations.
Local Open Scope Z_scope.

Definition cell_of (b : binding) (nx : option positive) : bcell :=
  mkC nx (b_id b) (b_ev b) (b_flags b) (b_fn b) (b_data b).

(* a node of the list together with the address of its cell *)
Definition node := (positive * binding)%type.
Definition addrs (lp : list node) : list positive := map fst lp.
Definition binds (lp : list node) : list binding := map snd lp.
Definition names (l : list binding) : list Z := map b_data l.

(* the nodes [lp], linked through their [next] pointers, starting at [k] *)
Inductive hchain (m : BM.t bcell) : option positive -> list node -> Prop :=
| hc_nil : hchain m None []
| hc_cons : forall a b nx lp,
    BM.find a m = Some (cell_of b nx) -> hchain m nx lp -> hchain m (Some a) ((a, b) :: lp).

(* a chain does not depend on cells outside it *)
Lemma hchain_ext : forall m m' k lp, hchain m k lp ->
  (forall a, In a (addrs lp) -> BM.find a m' = BM.find a m) -> hchain m' k lp.
Proof.
  induction 1 as [|a b nx lp Hf Hc IH]; intros He; [constructor|econstructor].
  - rewrite He by (left; reflexivity). exact Hf.
  - apply IH. intros x Hx. apply He. right. exact Hx.
Qed.

Lemma hchain_live : forall m k lp a, hchain m k lp -> In a (addrs lp) -> BM.find a m <> None.
Proof.
  induction 1 as [|a0 b nx lp Hf Hc IH]; intros Hin; [destruct Hin|].
  destruct Hin as [<-|Hin]; [cbn; congruence|auto].
Qed.

(* split form: the prefix [lp1], then the rest [lp2] starting at [k2] *)
Inductive hsplit (m : BM.t bcell) : option positive -> list node -> option positive -> list node -> Prop :=
| hs_here : forall k lp, hchain m k lp -> hsplit m k [] k lp
| hs_step : forall a b nx lp1 k2 lp2,
    BM.find a m = Some (cell_of b nx) -> hsplit m nx lp1 k2 lp2 ->
    hsplit m (Some a) ((a, b) :: lp1) k2 lp2.

Lemma hsplit_chain : forall m k lp1 k2 lp2, hsplit m k lp1 k2 lp2 -> hchain m k (lp1 ++ lp2).
Proof. induction 1; cbn; [assumption|]. econstructor; eauto. Qed.
Lemma hsplit_tail : forall m k lp1 k2 lp2, hsplit m k lp1 k2 lp2 -> hchain m k2 lp2.
Proof. induction 1; auto. Qed.
Lemma hchain_split : forall m lp1 lp2 k, hchain m k (lp1 ++ lp2) -> exists k2, hsplit m k lp1 k2 lp2.
Proof.
  induction lp1 as [|[a b] lp1 IH]; intros lp2 k H; cbn in H.
  - exists k. constructor. exact H.
  - inversion H as [|a' b' nx lp' Hf Hc]; subst.
    destruct (IH lp2 nx Hc) as (k2 & Hs). exists k2. econstructor; eauto.
Qed.
Lemma hsplit_snoc : forall m k lp1 a b nx lp2, hsplit m k lp1 (Some a) ((a, b) :: lp2) ->
  BM.find a m = Some (cell_of b nx) -> hsplit m k (lp1 ++ [(a, b)]) nx lp2.
Proof.
  intros m k lp1 a b nx lp2 H. remember (Some a) as k2 eqn:Ek. remember ((a, b) :: lp2) as lp eqn:El.
  induction H as [k lp Hc | a0 b0 nx0 lp1 k2 lp2' Hf Hs IH]; intros Hfa; subst.
  - cbn. inversion Hc as [|a' b' nx' lp' Hf' Hc']; subst.
    assert (nx' = nx) by (rewrite Hf' in Hfa; inversion Hfa; reflexivity). subst nx'.
    econstructor; [exact Hf'|]. constructor. exact Hc'.
  - cbn. econstructor; [exact Hf|]. apply IH; auto.
Qed.

(* the slot through which the cell after a prefix is reached *)
Fixpoint slot_from (s : bslot) (la : list positive) : bslot :=
  match la with [] => s | a :: r => slot_from (BNext a) r end.
Definition slot_after (lp1 : list node) : bslot := slot_from BFirst (addrs lp1).

Lemma slot_from_snoc : forall la1 s a, slot_from s (la1 ++ [a]) = BNext a.
Proof. induction la1; intros; cbn; auto. Qed.
Lemma slot_after_snoc : forall lp1 a b, slot_after (lp1 ++ [(a, b)]) = BNext a.
Proof. intros. unfold slot_after, addrs. rewrite map_app. apply slot_from_snoc. Qed.

Lemma hsplit_read_from : forall m k lp1 k2 lp2, hsplit m k lp1 k2 lp2 ->
  forall h s0, cells h = m -> read_slot h s0 = Ok k -> read_slot h (slot_from s0 (addrs lp1)) = Ok k2.
Proof.
  induction 1 as [k lp Hc | a b nx lp1 k2 lp2 Hf Hs IH]; intros h s0 Hm H0; cbn [slot_from addrs map fst]; [exact H0|].
  apply IH; [exact Hm|]. cbn. unfold rd. rewrite Hm, Hf. reflexivity.
Qed.
Lemma hsplit_read_slot : forall h k lp1 k2 lp2,
  hsplit (cells h) k lp1 k2 lp2 -> hfirst h = k -> read_slot h (slot_after lp1) = Ok k2.
Proof. intros. eapply hsplit_read_from; eauto. cbn. congruence. Qed.

(* ---- writing through the slot after a prefix re-targets the rest of the chain ---- *)
Definition same_dom (m m' : BM.t bcell) : Prop := forall x, BM.find x m' = None <-> BM.find x m = None.

Lemma write_from : forall lp1 m a b k2 lp2 v lpv h,
  hsplit m (Some a) ((a, b) :: lp1) k2 lp2 -> cells h = m ->
  NoDup (a :: addrs lp1) -> (forall x, In x (a :: addrs lp1) -> ~ In x (addrs lpv)) -> hchain m v lpv ->
  exists m', write_slot h (slot_from (BNext a) (addrs lp1)) v = Ok (with_cells h m') /\
             hchain m' (Some a) ((a, b) :: lp1 ++ lpv) /\
             (forall x, ~ In x (a :: addrs lp1) -> BM.find x m' = BM.find x m) /\ same_dom m m'.
Proof.
  induction lp1 as [|[a1 b1] lp1 IH]; intros m a b k2 lp2 v lpv h Hs Hm Hnd Hdis Hv; subst m.
  - inversion Hs as [|a' b' nx lp1' k2' lp2' Hf Hs']; subst. inversion Hs'; subst.
    exists (BM.add a (cell_of b v) (cells h)). cbn [slot_from addrs map write_slot]. unfold rd. rewrite Hf. cbn [rbind].
    unfold wr. rewrite Hf.
    split; [reflexivity|]. split; [|split].
    + econstructor; [apply BM.gss|]. eapply hchain_ext; [exact Hv|].
      intros x Hx. apply BM.gso. intro E. subst x. apply (Hdis a); [left; reflexivity|exact Hx].
    + intros x Hx. apply BM.gso. intro E. apply Hx. left. auto.
    + intro x. destruct (Pos.eq_dec x a) as [->|Hne]; [rewrite BM.gss, Hf; split; discriminate|].
      rewrite BM.gso by exact Hne. tauto.
  - inversion Hs as [|a' b' nx lp1' k2' lp2' Hf Hs']; subst.
    assert (Enx : nx = Some a1) by (inversion Hs'; reflexivity). subst nx.
    inversion Hnd as [|? ? Hna Hnd']; subst.
    destruct (IH (cells h) a1 b1 k2 lp2 v lpv h Hs' eq_refl Hnd') as (m' & Hw & Hc & Hfr & Hdom).
    { intros x Hx. apply Hdis. right. exact Hx. }
    { exact Hv. }
    exists m'. cbn [slot_from addrs map fst]. split; [exact Hw|]. split; [|split].
    + cbn. econstructor; [|exact Hc]. rewrite Hfr; [exact Hf|exact Hna].
    + intros x Hx. apply Hfr. intro Hi. apply Hx. right. exact Hi.
    + exact Hdom.
Qed.

Lemma write_slot_after : forall lp1 h k k2 lp2 v lpv,
  hsplit (cells h) k lp1 k2 lp2 -> hfirst h = k ->
  NoDup (addrs lp1) -> (forall x, In x (addrs lp1) -> ~ In x (addrs lpv)) -> hchain (cells h) v lpv ->
  exists h', write_slot h (slot_after lp1) v = Ok h' /\
             hchain (cells h') (hfirst h') (lp1 ++ lpv) /\
             (forall x, ~ In x (addrs lp1) -> BM.find x (cells h') = BM.find x (cells h)) /\
             same_dom (cells h) (cells h') /\
             hiter h' = hiter h /\ hdel h' = hdel h /\ hfresh h' = hfresh h.
Proof.
  intros lp1 h k k2 lp2 v lpv Hs Hk Hnd Hdis Hv. destruct lp1 as [|[a b] lp1].
  - exists (set_first h v). cbn. split; [reflexivity|]. split; [exact Hv|]. repeat split; auto.
  - assert (Hk' : k = Some a) by (inversion Hs; reflexivity). subst k. rewrite Hk' in Hs.
    destruct (write_from lp1 (cells h) a b k2 lp2 v lpv h Hs eq_refl Hnd Hdis Hv) as (m' & Hw & Hc & Hfr & Hdom).
    exists (with_cells h m'). unfold slot_after. cbn [addrs map fst slot_from]. split; [exact Hw|].
    cbn. rewrite Hk'. split; [exact Hc|]. repeat split; auto; apply Hdom.
Qed.

(* ---- the read-only walks ---- *)
Definition maxf (m : Z) (b : binding) : Z := if b_id b >? m then b_id b else m.

Lemma max_from_spec : forall h k lp, hchain (cells h) k lp -> forall n m0, (length lp < n)%nat ->
  h_max_from n k m0 h = Ok (fold_left maxf (binds lp) m0).
Proof.
  induction 1 as [|a b nx lp Hf Hc IH]; intros n m0 Hn; (destruct n as [|n]; [cbn in Hn; lia|]); cbn [h_max_from]; [reflexivity|].
  unfold rd. rewrite Hf. cbn [rbind cell_of c_next c_id]. rewrite IH by (cbn in Hn; lia). reflexivity.
Qed.

Lemma end_from_spec : forall h k lp, hchain (cells h) k lp -> forall n s m0, (length lp < n)%nat ->
  read_slot h s = Ok k ->
  h_end_from n s m0 h = Ok (slot_from s (addrs lp), fold_left maxf (binds lp) m0).
Proof.
  induction 1 as [|a b nx lp Hf Hc IH]; intros n s m0 Hn Hs; (destruct n as [|n]; [cbn in Hn; lia|]); cbn [h_end_from];
    rewrite Hs; cbn [rbind]; [reflexivity|].
  unfold rd. rewrite Hf. cbn [rbind cell_of c_next c_id].
  rewrite (IH n (BNext a)); [reflexivity|cbn in Hn; lia|]. cbn. unfold rd. rewrite Hf. reflexivity.
Qed.

Definition has_id (id : Z) (p : node) : bool := b_id (snd p) =? id.
Lemma find_id_spec : forall h k lp, hchain (cells h) k lp -> forall n id, (length lp < n)%nat ->
  h_find_id n k id h = Ok (option_map fst (find (has_id id) lp)).
Proof.
  induction 1 as [|a b nx lp Hf Hc IH]; intros n id Hn; (destruct n as [|n]; [cbn in Hn; lia|]); cbn [h_find_id]; [reflexivity|].
  unfold rd. rewrite Hf. cbn [rbind cell_of c_next c_id find]. unfold has_id at 1. cbn [snd].
  destruct (b_id b =? id); [reflexivity|]. apply IH. cbn in Hn. lia.
Qed.

Lemma last_slot_spec : forall h lp k a b, hchain (cells h) k (lp ++ [(a, b)]) -> forall n s, (length lp < n)%nat ->
  read_slot h s = Ok k -> h_last_slot n s h = Ok (slot_from s (addrs lp)).
Proof.
  intros h lp. induction lp as [|[a0 b0] lp IH]; intros k a b Hc n s Hn Hs; (destruct n as [|n]; [cbn in Hn; lia|]);
    cbn [h_last_slot]; rewrite Hs; cbn [rbind app] in *; inversion Hc as [|a' b' nx lp' Hf Hc']; subst.
  - inversion Hc'; subst. unfold rd. rewrite Hf. reflexivity.
  - unfold rd. rewrite Hf. cbn [rbind cell_of c_next].
    assert (exists a1, nx = Some a1) as [a1 ->].
    { destruct lp as [|[a1 b1] lp]; inversion Hc'; eauto. }
    cbn [addrs map fst slot_from]. apply (IH (Some a1) a b Hc'); [cbn in Hn; lia|].
    cbn. unfold rd. rewrite Hf. reflexivity.
Qed.

(* ---- the sweep ---- *)
Definition deadp (p : node) : bool := b_id (snd p) =? TOMBSTONE_ID.
Definition livep (p : node) : bool := negb (deadp p).

Lemma in_addrs_app : forall lp1 lp2 x, In x (addrs (lp1 ++ lp2)) <-> In x (addrs lp1) \/ In x (addrs lp2).
Proof. intros. unfold addrs. rewrite map_app. apply in_app_iff. Qed.

Lemma nodup_app_inv : forall (A : Type) (l1 l2 : list A), NoDup (l1 ++ l2) ->
  NoDup l1 /\ NoDup l2 /\ (forall x, In x l1 -> ~ In x l2).
Proof.
  induction l1 as [|y l1 IH]; intros l2 H; cbn in *.
  - split; [constructor|]. split; [exact H|]. intros x [].
  - inversion H as [|? ? Hny Hnd]; subst. destruct (IH l2 Hnd) as (H1 & H2 & H3).
    split; [constructor; auto; intro Hi; apply Hny; apply in_or_app; auto|]. split; [exact H2|].
    intros x [->|Hx] Hx2; [apply Hny; apply in_or_app; auto|eapply H3; eauto].
Qed.
Lemma nodup_addrs_app : forall lp1 lp2, NoDup (addrs (lp1 ++ lp2)) ->
  NoDup (addrs lp1) /\ NoDup (addrs lp2) /\ (forall x, In x (addrs lp1) -> ~ In x (addrs lp2)).
Proof. intros lp1 lp2 H. unfold addrs in *. rewrite map_app in H. apply nodup_app_inv. exact H. Qed.

Lemma sweep_spec : forall lp2 lp1 h k2 n,
  hsplit (cells h) (hfirst h) lp1 k2 lp2 -> NoDup (addrs (lp1 ++ lp2)) -> (length lp2 < n)%nat ->
  exists h', h_sweep n (slot_after lp1) h = Ok h' /\
             hchain (cells h') (hfirst h') (lp1 ++ filter livep lp2) /\
             (forall x, BM.find x (cells h') = None <-> BM.find x (cells h) = None \/ In x (addrs (filter deadp lp2))) /\
             hiter h' = hiter h /\ hdel h' = hdel h /\ hfresh h' = hfresh h.
Proof.
  induction lp2 as [|[a b] r IH]; intros lp1 h k2 n Hs Hnd Hn; (destruct n as [|n]; [cbn in Hn; lia|]); cbn [h_sweep];
    rewrite (hsplit_read_slot h _ lp1 k2 _ Hs eq_refl); cbn [rbind].
  - pose proof (hsplit_tail _ _ _ _ _ Hs) as Ht. inversion Ht; subst.
    exists h. split; [reflexivity|]. rewrite app_nil_r. split; [rewrite <- (app_nil_r lp1); eapply hsplit_chain; eauto|].
    split; [intro x; cbn; tauto|auto].
  - pose proof (hsplit_tail _ _ _ _ _ Hs) as Ht. inversion Ht as [|a' b' nx lp' Hf Hc]; subst.
    unfold rd at 1. rewrite Hf. cbn [rbind cell_of c_id c_next].
    destruct (nodup_addrs_app _ _ Hnd) as (Hnd1 & Hnd2 & Hdis).
    destruct (b_id b =? TOMBSTONE_ID) eqn:Eid; cbn [negb].
    + (* a tombstone: unlinked and freed *)
      assert (Hdis_r : forall x, In x (addrs lp1) -> ~ In x (addrs r)).
      { intros x H1 H2. apply (Hdis x H1). right. exact H2. }
      destruct (write_slot_after lp1 h _ _ _ nx r Hs eq_refl Hnd1 Hdis_r Hc) as (h1 & Hw & Hc1 & Hfr1 & Hdom1 & Hi1 & Hd1 & Hn1).
      rewrite Hw. cbn [rbind].
      assert (Ha1 : ~ In a (addrs lp1)) by (intro Hi; apply (Hdis a Hi); left; reflexivity).
      assert (Hf1 : BM.find a (cells h1) = Some (cell_of b nx)) by (rewrite Hfr1; auto).
      unfold rd. rewrite Hf1. cbn [rbind]. unfold wr. rewrite Hf1. cbn [rbind]. unfold hfree. cbn [cells with_cells].
      rewrite BM.gss. cbn [rbind].
      set (h3 := with_cells (with_cells h1 (BM.add a (set_next (cell_of b nx) None) (cells h1)))
                            (BM.remove a (BM.add a (set_next (cell_of b nx) None) (cells h1)))).
      assert (Hoth : forall x, x <> a -> BM.find x (cells h3) = BM.find x (cells h1)).
      { intros x Hx. unfold h3. cbn. rewrite BM.gro by auto. apply BM.gso. auto. }
      assert (Har : ~ In a (addrs r)) by (inversion Hnd2; assumption).
      assert (Hc3 : hchain (cells h3) (hfirst h3) (lp1 ++ r)).
      { eapply hchain_ext; [exact Hc1|]. intros x Hx. apply Hoth. intro E. subst x.
        apply in_addrs_app in Hx. tauto. }
      destruct (hchain_split _ _ _ _ Hc3) as (k2' & Hs3).
      assert (Hnd3 : NoDup (addrs (lp1 ++ r))).
      { unfold addrs in *. rewrite map_app in *. cbn in Hnd. apply NoDup_remove_1 in Hnd. exact Hnd. }
      destruct (IH lp1 h3 k2' n Hs3 Hnd3) as (h' & Hsw & Hc' & Hdom' & Hi' & Hd' & Hn'); [cbn in Hn; lia|].
      exists h'. split; [exact Hsw|].
      change (filter livep ((a, b) :: r)) with (if negb (b_id b =? TOMBSTONE_ID) then (a, b) :: filter livep r else filter livep r).
      change (filter deadp ((a, b) :: r)) with (if b_id b =? TOMBSTONE_ID then (a, b) :: filter deadp r else filter deadp r).
      rewrite Eid. cbn [negb].
      split; [exact Hc'|]. split; [|unfold h3 in *; cbn in *; repeat split; congruence].
      intro x. rewrite Hdom'. cbn [addrs map fst In]. destruct (Pos.eq_dec x a) as [->|Hne].
      * unfold h3. cbn. rewrite BM.grs. tauto.
      * rewrite (Hoth x Hne). rewrite (Hdom1 x). intuition congruence.
    + (* a live node: move on *)
      assert (Hs' : hsplit (cells h) (hfirst h) (lp1 ++ [(a, b)]) nx r) by (eapply hsplit_snoc; eauto).
      assert (Hnd' : NoDup (addrs ((lp1 ++ [(a, b)]) ++ r))) by (rewrite <- app_assoc; exact Hnd).
      destruct (IH (lp1 ++ [(a, b)]) h nx n Hs' Hnd') as (h' & Hsw & Hc' & Hdom' & Hrest); [cbn in Hn; lia|].
      rewrite slot_after_snoc in Hsw. exists h'. split; [exact Hsw|].
      change (filter livep ((a, b) :: r)) with (if negb (b_id b =? TOMBSTONE_ID) then (a, b) :: filter livep r else filter livep r).
      change (filter deadp ((a, b) :: r)) with (if b_id b =? TOMBSTONE_ID then (a, b) :: filter deadp r else filter deadp r).
      rewrite Eid. cbn [negb].
      split; [rewrite <- app_assoc in Hc'; exact Hc'|]. split; [exact Hdom'|exact Hrest].
Qed.

(* ---- the representation relation ---- *)
Record Rep (w : world) (hw : hworld) (lp : list node) : Prop := mk_Rep {
  rp_list : first (ws w) = binds lp;
  rp_chain : hchain (cells (hs hw)) (hfirst (hs hw)) lp;
  rp_nodup : NoDup (addrs lp);
  rp_exact : forall a, BM.find a (cells (hs hw)) <> None -> In a (addrs lp);
  rp_fresh : forall a, In a (addrs lp) -> (a < hfresh (hs hw))%positive;
  rp_iter : hiter (hs hw) = is_iter (ws w);
  rp_del : hdel (hs hw) = needs_del (ws w);
  rp_n : hn hw = wn w;
  rp_t : ht hw = wt w;
  rp_names : NoDup (names (binds lp));
  rp_bound : forall d, In d (names (binds lp)) -> - wn w < d < wn w;
  rp_wn : 0 < wn w }.

Lemma rep_init : Rep init_world init_hworld [].
Proof.
  constructor; cbn; auto; try constructor; try (intros; contradiction); try lia.
  intros a H. exfalso. apply H. apply BM.gempty.
Qed.

(* enough fuel for every walk inside one call *)
Lemma bounded_length : forall (l : list positive) n, NoDup l -> (forall x, In x l -> (x < n)%positive) ->
  (length l < Pos.to_nat n)%nat.
Proof.
  intros l n Hnd Hb.
  assert (Hinc : incl (map Pos.to_nat l) (seq 1 (Pos.to_nat n - 1))).
  { intros y Hy. apply in_map_iff in Hy. destruct Hy as (x & <- & Hx). apply in_seq. specialize (Hb x Hx). lia. }
  assert (Hnd' : NoDup (map Pos.to_nat l)).
  { clear Hb Hinc. induction Hnd as [|x l Hx Hnd IH]; cbn; constructor; auto.
    intro Hi. apply in_map_iff in Hi. destruct Hi as (y & E & Hy). apply Pos2Nat.inj in E. subst y. auto. }
  pose proof (NoDup_incl_length Hnd' Hinc) as H. rewrite map_length, seq_length in H. pose proof (Pos2Nat.is_pos n). lia.
Qed.
Lemma rep_fuel : forall w hw lp, Rep w hw lp -> (length lp < walk_fuel (hs hw))%nat.
Proof.
  intros w hw lp R. unfold walk_fuel.
  pose proof (bounded_length (addrs lp) _ (rp_nodup _ _ _ R) (rp_fresh _ _ _ R)) as H.
  unfold addrs in H. rewrite map_length in H. apply Nat.lt_lt_succ_r. exact H.
Qed.

(* ---- how a pair of worlds may develop: names and addresses are never used twice ---- *)
Record Evolves (w : world) (hw : hworld) (lp : list node) (w' : world) (hw' : hworld) (lp' : list node) : Prop := mk_Ev {
  ev_n : wn w <= wn w';
  ev_f : (hfresh (hs hw) <= hfresh (hs hw'))%positive;
  ev_pairs : forall a b, In (a, b) lp' ->
     (exists b0, In (a, b0) lp /\ b_data b0 = b_data b) \/ (wn w <= Z.abs (b_data b) /\ (hfresh (hs hw) <= a)%positive) }.

Lemma evolves_refl : forall w hw lp, Evolves w hw lp w hw lp.
Proof. intros. constructor; [lia|lia|]. intros a b H. left. eauto. Qed.
Lemma evolves_trans : forall w1 h1 l1 w2 h2 l2 w3 h3 l3,
  Evolves w1 h1 l1 w2 h2 l2 -> Evolves w2 h2 l2 w3 h3 l3 -> Evolves w1 h1 l1 w3 h3 l3.
Proof.
  intros w1 h1 l1 w2 h2 l2 w3 h3 l3 [N1 F1 P1] [N2 F2 P2]. constructor; [lia|lia|].
  intros a b H. destruct (P2 a b H) as [(b0 & H0 & E0)|[Hn Hf]].
  - destruct (P1 a b0 H0) as [(b1 & H1 & E1)|[Hn Hf]].
    + left. exists b1. split; [exact H1|congruence].
    + right. rewrite <- E0. auto.
  - right. split; lia.
Qed.

(* ---- cursors: the loop variable [bind] against the name BindDefs.v follows ---- *)
Definition crel (w : world) (hw : hworld) (lp : list node) (cur : option Z) (hcur : option positive) : Prop :=
  match cur, hcur with
  | None, None => True
  | Some d, Some a =>
    (exists b, In (a, b) lp /\ b_data b = d) \/
    (~ In d (names (binds lp)) /\ BM.find a (cells (hs hw)) = None /\ Z.abs d < wn w /\ (a < hfresh (hs hw))%positive)
  | _, _ => False
  end.

Lemma in_addrs : forall (lp : list node) a b, In (a, b) lp -> In a (addrs lp).
Proof. intros. unfold addrs. apply in_map_iff. exists (a, b). auto. Qed.
Lemma in_names : forall (lp : list node) a b, In (a, b) lp -> In (b_data b) (names (binds lp)).
Proof. intros. unfold names, binds. rewrite map_map. apply in_map_iff. exists (a, b). auto. Qed.
Lemma addrs_in : forall (lp : list node) a, In a (addrs lp) -> exists b, In (a, b) lp.
Proof. intros lp a H. apply in_map_iff in H. destruct H as ([a' b] & E & H). cbn in E. subst a'. eauto. Qed.
Lemma names_in : forall (lp : list node) d, In d (names (binds lp)) -> exists a b, In (a, b) lp /\ b_data b = d.
Proof.
  intros lp d H. unfold names, binds in H. rewrite map_map in H. apply in_map_iff in H.
  destruct H as ([a b] & E & H). cbn in E. eauto.
Qed.

Lemma nodup_addrs_fun : forall (lp : list node) a b b', NoDup (addrs lp) -> In (a, b) lp -> In (a, b') lp -> b = b'.
Proof.
  induction lp as [|[a0 b0] lp IH]; intros a b b' Hnd H1 H2; [destruct H1|].
  cbn in Hnd. inversion Hnd as [|? ? Hn Hnd']; subst.
  destruct H1 as [E1|H1]; destruct H2 as [E2|H2].
  - congruence.
  - inversion E1; subst. exfalso. apply Hn. eapply in_addrs; eauto.
  - inversion E2; subst. exfalso. apply Hn. eapply in_addrs; eauto.
  - eapply IH; eauto.
Qed.
Lemma nodup_names_fun : forall (lp : list node) a a' b b', NoDup (names (binds lp)) ->
  In (a, b) lp -> In (a', b') lp -> b_data b = b_data b' -> (a, b) = (a', b').
Proof.
  induction lp as [|[a0 b0] lp IH]; intros a a' b b' Hnd H1 H2 E; [destruct H1|].
  cbn in Hnd. inversion Hnd as [|? ? Hn Hnd']; subst.
  destruct H1 as [E1|H1]; destruct H2 as [E2|H2].
  - congruence.
  - inversion E1; subst. exfalso. apply Hn. rewrite E. eapply in_names; eauto.
  - inversion E2; subst. exfalso. apply Hn. rewrite <- E. eapply in_names; eauto.
  - eapply IH; eauto.
Qed.

Lemma crel_evolves : forall w hw lp w' hw' lp' cur hcur,
  Rep w hw lp -> Rep w' hw' lp' -> Evolves w hw lp w' hw' lp' ->
  crel w hw lp cur hcur -> crel w' hw' lp' cur hcur.
Proof.
  intros w hw lp w' hw' lp' cur hcur R R' [EN EF EP] C.
  destruct cur as [d|], hcur as [a|]; cbn in *; auto.
  assert (Hdang : ~ In d (names (binds lp)) -> BM.find a (cells (hs hw)) = None -> Z.abs d < wn w ->
                  (a < hfresh (hs hw))%positive ->
                  ~ In d (names (binds lp')) /\ BM.find a (cells (hs hw')) = None).
  { intros Hd Ha Hbd Hba. split.
    - intro Hi. destruct (names_in _ _ Hi) as (a' & b' & Hp & Ed).
      destruct (EP a' b' Hp) as [(b0 & H0 & E0)|[Hn _]]; [|rewrite Ed in Hn; lia].
      apply Hd. rewrite <- Ed, <- E0. eapply in_names; eauto.
    - destruct (BM.find a (cells (hs hw'))) eqn:Hf; [|reflexivity]. exfalso.
      assert (Hin : In a (addrs lp')) by (apply (rp_exact _ _ _ R'); congruence).
      destruct (addrs_in _ _ Hin) as (b' & Hp).
      destruct (EP a b' Hp) as [(b0 & H0 & E0)|[_ Hf']]; [|lia].
      pose proof (hchain_live _ _ _ a (rp_chain _ _ _ R) (in_addrs _ _ _ H0)). congruence. }
  destruct C as [(b & Hp & Ed)|(Hd & Ha & Hbd & Hba)].
  - destruct (in_dec Pos.eq_dec a (addrs lp')) as [Hin|Hnin].
    + left. destruct (addrs_in _ _ Hin) as (b' & Hp').
      destruct (EP a b' Hp') as [(b0 & H0 & E0)|[_ Hf']].
      * assert (b0 = b) by (eapply nodup_addrs_fun; eauto; apply (rp_nodup _ _ _ R)). subst b0.
        exists b'. split; [exact Hp'|congruence].
      * pose proof (rp_fresh _ _ _ R a (in_addrs _ _ _ Hp)). lia.
    + right.
      assert (Hbd : Z.abs d < wn w).
      { pose proof (rp_bound _ _ _ R d). rewrite <- Ed in *. specialize (H (in_names _ _ _ Hp)). lia. }
      assert (Hba : (a < hfresh (hs hw))%positive) by (apply (rp_fresh _ _ _ R); eapply in_addrs; eauto).
      split; [|split; [|split; lia]].
      * intro Hi. destruct (names_in _ _ Hi) as (a' & b' & Hp' & Ed').
        destruct (EP a' b' Hp') as [(b0 & H0 & E0)|[Hn _]]; [|rewrite Ed' in Hn; lia].
        assert (E : (a', b0) = (a, b)).
        { eapply nodup_names_fun; eauto; [apply (rp_names _ _ _ R)|congruence]. }
        inversion E; subst. apply Hnin. eapply in_addrs; eauto.
      * destruct (BM.find a (cells (hs hw'))) eqn:Hf; [|reflexivity]. exfalso. apply Hnin.
        apply (rp_exact _ _ _ R'). congruence.
  - right. destruct (Hdang Hd Ha Hbd Hba). repeat split; auto; lia.
Qed.

(* ---- list facts ---- *)
Lemma binds_filter_live : forall lp,
  binds (filter livep lp) = filter (fun b => negb (b_id b =? TOMBSTONE_ID)) (binds lp).
Proof.
  unfold binds. induction lp as [|[a b] lp IH]; [reflexivity|].
  change (filter livep ((a, b) :: lp)) with (if negb (b_id b =? TOMBSTONE_ID) then (a, b) :: filter livep lp else filter livep lp).
  cbn [map snd filter]. destruct (b_id b =? TOMBSTONE_ID); cbn [negb map snd]; rewrite IH; reflexivity.
Qed.
Lemma filter_in_pair : forall (f : node -> bool) lp p, In p (filter f lp) -> In p lp.
Proof. intros f lp p H. apply filter_In in H. tauto. Qed.
Lemma nodup_map_filter : forall (A B : Type) (g : A -> B) (f : A -> bool) l, NoDup (map g l) -> NoDup (map g (filter f l)).
Proof.
  induction l as [|x l IH]; intros H; cbn in *; [constructor|]. inversion H as [|? ? Hn Hnd]; subst.
  destruct (f x); cbn; auto. constructor; auto. intro Hi. apply Hn. apply in_map_iff in Hi.
  destruct Hi as (y & E & Hy). apply filter_In in Hy. apply in_map_iff. exists y. tauto.
Qed.

(* the cell of one node is rewritten (same next pointer, same name) *)
Definition upd_node (a : positive) (f : binding -> binding) (lp : list node) : list node :=
  map (fun p => if Pos.eqb (fst p) a then (fst p, f (snd p)) else p) lp.

Lemma addrs_upd_node : forall a f lp, addrs (upd_node a f lp) = addrs lp.
Proof.
  intros. unfold addrs, upd_node. rewrite map_map. apply map_ext. intros [x y]. cbn. destruct (Pos.eqb x a); reflexivity.
Qed.
Lemma names_upd_node : forall a f lp, (forall b, b_data (f b) = b_data b) -> names (binds (upd_node a f lp)) = names (binds lp).
Proof.
  intros a f lp Hf. unfold names, binds, upd_node. rewrite !map_map. apply map_ext. intros [x y]. cbn.
  destruct (Pos.eqb x a); cbn; auto.
Qed.
Lemma upd_node_notin : forall a f lp, ~ In a (addrs lp) -> upd_node a f lp = lp.
Proof.
  induction lp as [|[x y] lp IH]; intros H; [reflexivity|].
  change (upd_node a f ((x, y) :: lp)) with ((if Pos.eqb x a then (x, f y) else (x, y)) :: upd_node a f lp).
  destruct (Pos.eqb_spec x a) as [->|Hne]; [exfalso; apply H; left; reflexivity|].
  rewrite IH; [reflexivity|]. intro Hi. apply H. right. exact Hi.
Qed.
Lemma in_upd_node : forall a f lp x y, In (x, y) (upd_node a f lp) ->
  exists y0, In (x, y0) lp /\ (y = y0 \/ y = f y0).
Proof.
  intros a f lp x y H. apply in_map_iff in H. destruct H as ([x0 y0] & E & H). cbn in E.
  destruct (Pos.eqb x0 a); inversion E; subst; eauto.
Qed.

Lemma chain_update : forall m k lp, hchain m k lp -> forall a b f, NoDup (addrs lp) -> In (a, b) lp ->
  exists nx, BM.find a m = Some (cell_of b nx) /\ hchain (BM.add a (cell_of (f b) nx) m) k (upd_node a f lp).
Proof.
  induction 1 as [|a0 b0 nx0 lp Hf Hc IH]; intros a b f Hnd Hin; [destruct Hin|].
  cbn in Hnd. inversion Hnd as [|? ? Hn Hnd']; subst.
  change (upd_node a f ((a0, b0) :: lp)) with ((if Pos.eqb a0 a then (a0, f b0) else (a0, b0)) :: upd_node a f lp).
  destruct Hin as [E|Hin].
  - inversion E; subst. rewrite Pos.eqb_refl. exists nx0. split; [exact Hf|].
    econstructor; [apply BM.gss|]. rewrite upd_node_notin by exact Hn.
    eapply hchain_ext; [exact Hc|]. intros x Hx. apply BM.gso. intro; subst. contradiction.
  - assert (Hne : a0 <> a) by (intro; subst; apply Hn; eapply in_addrs; eauto).
    destruct (Pos.eqb_spec a0 a) as [|_]; [contradiction|].
    destruct (IH a b f Hnd' Hin) as (nx & Hfa & Hc'). exists nx. split; [exact Hfa|].
    econstructor; [rewrite BM.gso by auto; exact Hf|exact Hc'].
Qed.

Lemma binds_upd_node : forall lp a b f, NoDup (addrs lp) -> NoDup (names (binds lp)) -> In (a, b) lp ->
  (forall x, b_data (f x) = b_data x) ->
  binds (upd_node a f lp) = update_node (b_data b) f (binds lp).
Proof.
  intros lp a b f Hna Hnn Hin Hf. unfold binds, upd_node, update_node. rewrite !map_map.
  apply map_ext_in. intros [x y] Hxy. cbn.
  destruct (Pos.eqb_spec x a) as [->|Hne].
  - assert (y = b) by (eapply nodup_addrs_fun; eauto). subst y. rewrite Z.eqb_refl. reflexivity.
  - destruct (Z.eqb_spec (b_data y) (b_data b)) as [E|_]; [|reflexivity].
    exfalso. apply Hne. assert (P : (x, y) = (a, b)) by (eapply nodup_names_fun; eauto). inversion P. reflexivity.
Qed.

(* the node at a given address: what the list model finds by name, the heap model finds by pointer *)
Lemma chain_at : forall m k lp, hchain m k lp -> forall a b, NoDup (names (binds lp)) -> In (a, b) lp ->
  exists lp2 nx, BM.find a m = Some (cell_of b nx) /\ hchain m nx lp2 /\
                 find_node (b_data b) (binds lp) = Some b /\
                 next_of (b_data b) (binds lp) = Some (head_name (binds lp2)) /\
                 nx = option_map fst (hd_error lp2) /\ (forall p, In p lp2 -> In p lp).
Proof.
  induction 1 as [|a0 b0 nx0 lp Hf Hc IH]; intros a b Hnn Hin; [destruct Hin|].
  cbn in Hnn. inversion Hnn as [|? ? Hn Hnn']; subst. destruct Hin as [E|Hin].
  - inversion E; subst. exists lp, nx0. cbn. unfold find_node. cbn. rewrite Z.eqb_refl.
    repeat split; auto. inversion Hc; reflexivity.
  - assert (Hne : b_data b0 <> b_data b) by (intro E; apply Hn; rewrite E; eapply in_names; eauto).
    destruct (IH a b Hnn' Hin) as (lp2 & nx & H1 & H2 & H3 & H4 & H5 & H6).
    exists lp2, nx. cbn. unfold find_node in *. cbn.
    destruct (Z.eqb_spec (b_data b0) (b_data b)) as [|_]; [contradiction|]. repeat split; auto.
Qed.

Lemma find_id_binds : forall lp id,
  find (fun b => b_id b =? id) (binds lp) = option_map snd (find (has_id id) lp).
Proof.
  induction lp as [|[a b] lp IH]; intro id; cbn; [reflexivity|]. unfold has_id at 1. cbn [snd].
  destruct (b_id b =? id); [reflexivity|apply IH].
Qed.
Lemma find_in : forall (A : Type) (f : A -> bool) l x, find f l = Some x -> In x l.
Proof. intros A f l x H. apply find_some in H. tauto. Qed.

Lemma binds_snoc : forall lp a b, binds (lp ++ [(a, b)]) = binds lp ++ [b].
Proof. intros. unfold binds. rewrite map_app. reflexivity. Qed.
Lemma last_snoc : forall (A : Type) (l : list A) x d, last (l ++ [x]) d = x.
Proof. induction l as [|y l IH]; intros; cbn; auto. rewrite IH. destruct (l ++ [x]) eqn:E; auto. destruct l; discriminate. Qed.
Lemma snoc_cases : forall (A : Type) (l : list A), l = [] \/ exists l0 x, l = l0 ++ [x].
Proof.
  induction l as [|y l IH]; [left; reflexivity|right]. destruct IH as [->|(l0 & x & ->)].
  - exists [], y. reflexivity.
  - exists (y :: l0), x. reflexivity.
Qed.

(* ---- the operations, on related worlds ---- *)
Lemma live_or_dead : forall lp x, In x (addrs lp) -> In x (addrs (filter livep lp)) \/ In x (addrs (filter deadp lp)).
Proof.
  intros lp x H. destruct (addrs_in _ _ H) as (b & Hp). destruct (deadp (x, b)) eqn:E.
  - right. apply (in_addrs _ x b). apply filter_In. auto.
  - left. apply (in_addrs _ x b). apply filter_In. unfold livep. rewrite E. auto.
Qed.
Lemma names_as_map : forall lp, names (binds lp) = map (fun p : node => b_data (snd p)) lp.
Proof. intro. unfold names, binds. apply map_map. Qed.

Lemma rep_end_iteration : forall w hw lp was, Rep w hw lp ->
  exists h3 lp', h_end_iteration was (hs hw) = Ok h3 /\
    Rep (set_state (end_iteration was (ws w)) w) (hset h3 hw) lp' /\
    Evolves w hw lp (set_state (end_iteration was (ws w)) w) (hset h3 hw) lp'.
Proof.
  intros w hw lp was R. unfold h_end_iteration, end_iteration. cbn [hdel set_iter needs_del].
  rewrite (rp_del _ _ _ R). destruct (negb was && needs_del (ws w)) eqn:Ec.
  - (* the sweep *)
    unfold h_cleanup.
    assert (Hs : hsplit (cells (set_iter (hs hw) was)) (hfirst (set_iter (hs hw) was)) [] (hfirst (hs hw)) lp).
    { constructor. exact (rp_chain _ _ _ R). }
    destruct (sweep_spec lp [] (set_iter (hs hw) was) _ (walk_fuel (set_iter (hs hw) was)) Hs (rp_nodup _ _ _ R) (rep_fuel _ _ _ R))
      as (h' & Hsw & Hc' & Hdom & Hi' & Hd' & Hn').
    unfold slot_after in Hsw. cbn [addrs map slot_from] in Hsw. rewrite Hsw. cbn [rbind].
    exists (set_del h' false), (filter livep lp). split; [reflexivity|]. split.
    + constructor; cbn.
      * rewrite (rp_list _ _ _ R). symmetry. apply binds_filter_live.
      * exact Hc'.
      * apply nodup_map_filter. exact (rp_nodup _ _ _ R).
      * intros a Ha. assert (Hold : BM.find a (cells (hs hw)) <> None /\ ~ In a (addrs (filter deadp lp))).
        { split; intro Hx; apply Ha; apply Hdom; auto. }
        destruct Hold as [H1 H2]. destruct (live_or_dead lp a (rp_exact _ _ _ R a H1)); [assumption|contradiction].
      * intros a Ha. rewrite Hn'. cbn. apply (rp_fresh _ _ _ R). destruct (addrs_in _ _ Ha) as (b & Hp).
        eapply in_addrs. eapply filter_in_pair; eauto.
      * rewrite Hi'. reflexivity.
      * reflexivity.
      * exact (rp_n _ _ _ R).
      * exact (rp_t _ _ _ R).
      * rewrite names_as_map. apply nodup_map_filter. rewrite <- names_as_map. exact (rp_names _ _ _ R).
      * intros d Hd. apply (rp_bound _ _ _ R). destruct (names_in _ _ Hd) as (a & b & Hp & <-).
        eapply in_names. eapply filter_in_pair; eauto.
      * exact (rp_wn _ _ _ R).
    + constructor; cbn; [lia|rewrite Hn'; cbn; lia|].
      intros a b Hp. left. exists b. split; [eapply filter_in_pair; eauto|reflexivity].
  - exists (set_iter (hs hw) was), lp. split; [reflexivity|]. split.
    + destruct R. constructor; cbn; auto.
    + constructor; cbn; [lia|lia|]. intros a b Hp. left. eauto.
Qed.

(* one cell is turned into a tombstone; the sweep is requested *)
Lemma rep_tomb : forall w hw lp a b, Rep w hw lp -> In (a, b) lp ->
  exists nx, BM.find a (cells (hs hw)) = Some (cell_of b nx) /\
    let h1 := with_cells (hs hw) (BM.add a (ctomb (cell_of b nx)) (cells (hs hw))) in
    wr (hs hw) a (ctomb (cell_of b nx)) = Ok h1 /\
    Rep (set_state (mkS (update_node (b_data b) tombstone (first (ws w))) (is_iter (ws w)) true) w)
        (hset (set_del h1 true) hw) (upd_node a tombstone lp) /\
    Evolves w hw lp (set_state (mkS (update_node (b_data b) tombstone (first (ws w))) (is_iter (ws w)) true) w)
            (hset (set_del h1 true) hw) (upd_node a tombstone lp).
Proof.
  intros w hw lp a b R Hin.
  destruct (chain_update _ _ _ (rp_chain _ _ _ R) a b tombstone (rp_nodup _ _ _ R) Hin) as (nx & Hf & Hc).
  exists nx. split; [exact Hf|]. cbn zeta. unfold wr. rewrite Hf. split; [reflexivity|].
  assert (Ht : ctomb (cell_of b nx) = cell_of (tombstone b) nx) by reflexivity.
  split.
  - constructor; cbn.
    + rewrite (rp_list _ _ _ R). symmetry. apply binds_upd_node; auto; [apply (rp_nodup _ _ _ R)|apply (rp_names _ _ _ R)].
    + rewrite Ht. exact Hc.
    + rewrite addrs_upd_node. exact (rp_nodup _ _ _ R).
    + intros x Hx. rewrite addrs_upd_node. destruct (Pos.eq_dec x a) as [->|Hne]; [eapply in_addrs; eauto|].
      rewrite BM.gso in Hx by auto. exact (rp_exact _ _ _ R x Hx).
    + intros x Hx. rewrite addrs_upd_node in Hx. exact (rp_fresh _ _ _ R x Hx).
    + exact (rp_iter _ _ _ R).
    + reflexivity.
    + exact (rp_n _ _ _ R).
    + exact (rp_t _ _ _ R).
    + rewrite names_upd_node by reflexivity. exact (rp_names _ _ _ R).
    + intros d Hd. rewrite names_upd_node in Hd by reflexivity. exact (rp_bound _ _ _ R d Hd).
    + exact (rp_wn _ _ _ R).
  - constructor; cbn; [lia|lia|]. intros x y Hp. left. destruct (in_upd_node _ _ _ _ _ Hp) as (y0 & H0 & [->| ->]); eauto.
Qed.

Lemma NoDup_app_snoc : forall (A : Type) (l : list A) x, NoDup l -> ~ In x l -> NoDup (l ++ [x]).
Proof.
  induction l as [|y l IH]; intros x Hnd Hx; cbn; [constructor; [intros []|constructor]|].
  inversion Hnd as [|? ? Hy Hnd']; subst. constructor.
  - intro Hi. apply in_app_or in Hi. destruct Hi as [Hi|[E|[]]]; [contradiction|]. subst. apply Hx. left. reflexivity.
  - apply IH; auto. intro Hi. apply Hx. right. exact Hi.
Qed.

Lemma max_id_binds : forall l, max_id l = fold_left maxf l 0.
Proof. reflexivity. Qed.

Lemma rep_bind : forall w hw lp ev flags fn e, Rep w hw lp ->
  let name := if has flags BIND_FIRST then - wn w else wn w in
  let id := max_id (first (ws w)) + 1 in
  let nb := mkB id ev (Z.land flags (BIND_UNBIND + BIND_DESTROY + BIND_ONESHOT)) fn name in
  let s1 := mkS (if has flags BIND_FIRST then nb :: first (ws w) else first (ws w) ++ [nb]) (is_iter (ws w)) (needs_del (ws w)) in
  exists h1 lp', h_bind_event (hs hw) ev flags fn name = Ok (h1, id) /\
     Rep (mkW s1 (wn w + 1) (e :: wt w)) (mkHW h1 (hn hw + 1) (e :: ht hw)) lp' /\
     Evolves w hw lp (mkW s1 (wn w + 1) (e :: wt w)) (mkHW h1 (hn hw + 1) (e :: ht hw)) lp'.
Proof.
  intros w hw lp ev flags fn e R name id nb s1.
  pose proof (rp_wn _ _ _ R) as Hwn.
  assert (Hname : Z.abs name = wn w) by (unfold name; destruct (has flags BIND_FIRST); lia).
  set (a := hfresh (hs hw)).
  assert (Hafresh : ~ In a (addrs lp)) by (intro Hi; pose proof (rp_fresh _ _ _ R a Hi); unfold a in *; lia).
  assert (Hnfresh : ~ In name (names (binds lp))) by (intro Hi; pose proof (rp_bound _ _ _ R name Hi); lia).
  assert (Hmax : fold_left maxf (binds lp) 0 + 1 = id) by (unfold id; rewrite (rp_list _ _ _ R); reflexivity).
  assert (Hev : forall lp', (forall x y, In (x, y) lp' -> In (x, y) lp \/ (x, y) = (a, nb)) -> forall h1, hfresh h1 = Pos.succ a ->
            Evolves w hw lp (mkW s1 (wn w + 1) (e :: wt w)) (mkHW h1 (hn hw + 1) (e :: ht hw)) lp').
  { intros lp' Hsub h1 Hfr. constructor; cbn; [lia|rewrite Hfr; unfold a; lia|].
    intros x y Hp. destruct (Hsub x y Hp) as [Ho|E]; [left; eauto|]. inversion E; subst x y. right. cbn. unfold a. lia. }
  unfold h_bind_event. destruct (has flags BIND_FIRST) eqn:Efirst.
  - (* at the head *)
    rewrite (max_from_spec _ _ _ (rp_chain _ _ _ R) _ 0 (rep_fuel _ _ _ R)). cbn [rbind]. rewrite Hmax.
    unfold halloc. fold a. cbn [write_slot rbind].
    exists (set_first (mkH (BM.add a (mkC (hfirst (hs hw)) id ev (Z.land flags (BIND_UNBIND + BIND_DESTROY + BIND_ONESHOT)) fn name) (cells (hs hw)))
                           (hfirst (hs hw)) (hiter (hs hw)) (hdel (hs hw)) (Pos.succ a)) (Some a)), ((a, nb) :: lp).
    split; [reflexivity|]. split.
    + constructor; cbn.
      * rewrite (rp_list _ _ _ R). reflexivity.
      * econstructor; [apply BM.gss|]. eapply hchain_ext; [exact (rp_chain _ _ _ R)|].
        intros x Hx. apply BM.gso. intro; subst; contradiction.
      * constructor; [exact Hafresh|exact (rp_nodup _ _ _ R)].
      * intros x Hx. destruct (Pos.eq_dec x a) as [->|Hne]; [left; reflexivity|]. right.
        rewrite BM.gso in Hx by auto. exact (rp_exact _ _ _ R x Hx).
      * intros x [E|Hx]; [rewrite <- E; lia|]. pose proof (rp_fresh _ _ _ R x Hx). unfold a. lia.
      * exact (rp_iter _ _ _ R).
      * exact (rp_del _ _ _ R).
      * rewrite (rp_n _ _ _ R). reflexivity.
      * rewrite (rp_t _ _ _ R). reflexivity.
      * constructor; [exact Hnfresh|exact (rp_names _ _ _ R)].
      * intros d [E|Hd]; [rewrite <- E; lia|]. pose proof (rp_bound _ _ _ R d Hd). lia.
      * lia.
    + apply Hev; [|reflexivity]. intros x y [E|Hp]; [right; symmetry; exact E|left; exact Hp].
  - (* at the end *)
    rewrite (end_from_spec _ _ _ (rp_chain _ _ _ R) _ BFirst 0 (rep_fuel _ _ _ R) eq_refl). cbn [rbind]. rewrite Hmax.
    unfold halloc. fold a.
    set (h1 := mkH (BM.add a (mkC None id ev (Z.land flags (BIND_UNBIND + BIND_DESTROY + BIND_ONESHOT)) fn name) (cells (hs hw)))
                   (hfirst (hs hw)) (hiter (hs hw)) (hdel (hs hw)) (Pos.succ a)).
    assert (Hc1 : hchain (cells h1) (hfirst h1) lp).
    { eapply hchain_ext; [exact (rp_chain _ _ _ R)|]. intros x Hx. apply BM.gso. intro; subst; contradiction. }
    assert (Hc1' : hchain (cells h1) (hfirst h1) (lp ++ [])) by (rewrite app_nil_r; exact Hc1).
    destruct (hchain_split _ _ _ _ Hc1') as (k2 & Hs1).
    assert (Hv : hchain (cells h1) (Some a) [(a, nb)]).
    { econstructor; [apply BM.gss|constructor]. }
    destruct (write_slot_after lp h1 _ k2 [] (Some a) [(a, nb)] Hs1 eq_refl (rp_nodup _ _ _ R)) as (h2 & Hw & Hc2 & Hfr2 & Hdom2 & Hi2 & Hd2 & Hn2).
    { intros x Hx [E|[]]. cbn in E. subst x. contradiction. }
    { exact Hv. }
    fold (slot_after lp). rewrite Hw. cbn [rbind].
    exists h2, (lp ++ [(a, nb)]). split; [reflexivity|]. split.
    + constructor; cbn.
      * rewrite (rp_list _ _ _ R). rewrite binds_snoc. reflexivity.
      * exact Hc2.
      * unfold addrs. rewrite map_app. cbn. apply NoDup_app_snoc; [exact (rp_nodup _ _ _ R)|exact Hafresh].
      * intros x Hx. apply in_addrs_app. destruct (Pos.eq_dec x a) as [->|Hne]; [right; left; reflexivity|]. left.
        apply (rp_exact _ _ _ R). intro Hnone. apply Hx. apply Hdom2. unfold h1. cbn. rewrite BM.gso by auto. exact Hnone.
      * intros x Hx. rewrite Hn2. cbn. apply in_addrs_app in Hx. destruct Hx as [Hx|[E|[]]]; [|cbn in E; rewrite <- E; lia].
        pose proof (rp_fresh _ _ _ R x Hx). unfold a. lia.
      * rewrite Hi2. exact (rp_iter _ _ _ R).
      * rewrite Hd2. exact (rp_del _ _ _ R).
      * rewrite (rp_n _ _ _ R). reflexivity.
      * rewrite (rp_t _ _ _ R). reflexivity.
      * rewrite binds_snoc. unfold names. rewrite map_app. cbn. apply NoDup_app_snoc; [exact (rp_names _ _ _ R)|exact Hnfresh].
      * intros d Hd. rewrite binds_snoc in Hd. unfold names in Hd. rewrite map_app in Hd. apply in_app_or in Hd.
        destruct Hd as [Hd|[E|[]]]; [|cbn in E; rewrite <- E; lia]. pose proof (rp_bound _ _ _ R d Hd). lia.
      * lia.
    + apply Hev; [|rewrite Hn2; reflexivity]. intros x y Hp. apply in_app_or in Hp. destruct Hp as [Hp|[E|[]]]; auto.
Qed.

Lemma rep_destroy_step : forall w hw lp0 a b d0, Rep w hw (lp0 ++ [(a, b)]) ->
  last (first (ws w)) d0 = b /\
  exists h1 h2, h_last_slot (walk_fuel (hs hw)) BFirst (hs hw) = Ok (slot_after lp0) /\
    read_slot (hs hw) (slot_after lp0) = Ok (Some a) /\
    write_slot (hs hw) (slot_after lp0) None = Ok h1 /\ rd h1 a = Ok (cell_of b None) /\ hfree h1 a = Ok h2 /\
    Rep (set_state (mkS (removelast (first (ws w))) (is_iter (ws w)) (needs_del (ws w))) w) (hset h2 hw) lp0 /\
    Evolves w hw (lp0 ++ [(a, b)]) (set_state (mkS (removelast (first (ws w))) (is_iter (ws w)) (needs_del (ws w))) w) (hset h2 hw) lp0.
Proof.
  intros w hw lp0 a b d0 R. rewrite (rp_list _ _ _ R), binds_snoc. split; [apply last_snoc|].
  pose proof (rp_chain _ _ _ R) as Hc. destruct (hchain_split _ _ _ _ Hc) as (k2 & Hs).
  pose proof (hsplit_tail _ _ _ _ _ Hs) as Ht. inversion Ht as [|a' b' nx lp' Hf Hnil]; subst. inversion Hnil; subst.
  destruct (nodup_addrs_app _ _ (rp_nodup _ _ _ R)) as (Hnd0 & _ & Hdis).
  assert (Ha0 : ~ In a (addrs lp0)) by (intro Hi; apply (Hdis a Hi); left; reflexivity).
  destruct (write_slot_after lp0 (hs hw) _ _ _ None [] Hs eq_refl Hnd0) as (h1 & Hw & Hc1 & Hfr1 & Hdom1 & Hi1 & Hd1 & Hn1);
    [intros x _ []|constructor|]. rewrite app_nil_r in Hc1.
  assert (Hf1 : BM.find a (cells h1) = Some (cell_of b None)) by (rewrite Hfr1; auto).
  exists h1, (with_cells h1 (BM.remove a (cells h1))).
  split; [|split; [|split; [|split; [|split]]]].
  - unfold slot_after. apply (last_slot_spec (hs hw) lp0 _ a b Hc); [|reflexivity].
    pose proof (rep_fuel _ _ _ R) as Hfu. rewrite app_length in Hfu. cbn in Hfu. lia.
  - eapply hsplit_read_slot; eauto.
  - exact Hw.
  - unfold rd. rewrite Hf1. reflexivity.
  - unfold hfree. rewrite Hf1. reflexivity.
  - split.
    + constructor; cbn.
      * rewrite removelast_last. reflexivity.
      * eapply hchain_ext; [exact Hc1|]. intros x Hx. apply BM.gro. intro; subst; contradiction.
      * exact Hnd0.
      * intros x Hx. destruct (Pos.eq_dec x a) as [->|Hne]; [rewrite BM.grs in Hx; contradiction|].
        rewrite BM.gro in Hx by auto.
        assert (Hin : In x (addrs (lp0 ++ [(a, b)]))).
        { apply (rp_exact _ _ _ R). intro Hnone. apply Hx. apply Hdom1. exact Hnone. }
        apply in_addrs_app in Hin. destruct Hin as [Hin|[E|[]]]; [exact Hin|]. cbn in E. congruence.
      * intros x Hx. rewrite Hn1. apply (rp_fresh _ _ _ R). apply in_addrs_app. auto.
      * rewrite Hi1. exact (rp_iter _ _ _ R).
      * rewrite Hd1. exact (rp_del _ _ _ R).
      * exact (rp_n _ _ _ R).
      * exact (rp_t _ _ _ R).
      * pose proof (rp_names _ _ _ R) as Hnn. rewrite binds_snoc in Hnn. unfold names in Hnn. rewrite map_app in Hnn.
        apply nodup_app_inv in Hnn. tauto.
      * intros d Hd. apply (rp_bound _ _ _ R). rewrite binds_snoc. unfold names. rewrite map_app. apply in_or_app. auto.
      * exact (rp_wn _ _ _ R).
    + constructor; cbn; [lia|rewrite Hn1; lia|]. intros x y Hp. left. exists y. split; [apply in_or_app; auto|reflexivity].
Qed.

(* ---- lockstep ---- *)
Definition trel (w : world) (hw : hworld) (lp : list node) (t : task) (t' : htask) : Prop :=
  match t, t' with
  | KCall fn n fl, HCall fn' n' fl' => fn = fn' /\ n = n' /\ fl = fl'
  | KActs a, HActs a' => a = a'
  | KAct a, HAct a' => a = a'
  | KLoop wf ev cur, HLoop wf' ev' cur' => wf = wf' /\ ev = ev' /\ crel w hw lp cur cur'
  | KDestroy, HDestroy => True
  | _, _ => False
  end.

Definition rres (w : world) (hw : hworld) (lp : list node) (r : res (world * Z)) (r' : res (hworld * Z)) : Prop :=
  match r, r' with
  | Ok (w', v), Ok (hw', v') => v = v' /\ exists lp', Rep w' hw' lp' /\ Evolves w hw lp w' hw' lp'
  | Fault, Fault => True
  | OutOfFuel, OutOfFuel => True
  | _, _ => False
  end.

Section Sim.
Variable env : env_t.

Definition Sim (fuel : nat) : Prop := forall t t' w hw lp,
  Rep w hw lp -> trel w hw lp t t' -> rres w hw lp (exec fixed env fuel t w) (hexec env fuel t' hw).

Lemma rres_evolves : forall w hw lp w1 hw1 lp1 r r',
  Evolves w hw lp w1 hw1 lp1 -> rres w1 hw1 lp1 r r' -> rres w hw lp r r'.
Proof.
  intros w hw lp w1 hw1 lp1 r r' E H. destruct r as [[w' v]| |], r' as [[hw' v']| |]; cbn in *; auto.
  destruct H as [Hv (lp' & R' & E')]. split; [exact Hv|]. exists lp'. split; [exact R'|]. eapply evolves_trans; eauto.
Qed.

(* a world with one more trace event *)
Lemma rep_log : forall w hw lp e, Rep w hw lp -> Rep (log e w) (hlog e hw) lp.
Proof. intros w hw lp e R. destruct R. constructor; cbn; auto. congruence. Qed.
Lemma evolves_log : forall w hw lp e, Evolves w hw lp (log e w) (hlog e hw) lp.
Proof. intros. constructor; cbn; [lia|lia|]. intros a b H. left. eauto. Qed.
Lemma rep_begin : forall w hw lp, Rep w hw lp ->
  Rep (set_state (begin_iteration (ws w)) w) (hset (h_begin_iteration (hs hw)) hw) lp.
Proof. intros w hw lp R. destruct R. constructor; cbn; auto. Qed.
Lemma evolves_same : forall w hw lp w' hw', wn w' = wn w -> hfresh (hs hw') = hfresh (hs hw) -> Evolves w hw lp w' hw' lp.
Proof. intros. constructor; [lia|lia|]. intros a b Hp. left. eauto. Qed.

Lemma find_node_none : forall d l, ~ In d (names l) -> find_node d l = None.
Proof.
  intros d l H. unfold find_node. destruct (find (fun x => b_data x =? d) l) as [b|] eqn:E; [|reflexivity].
  apply find_some in E. destruct E as [Hin Hd]. apply Z.eqb_eq in Hd. exfalso. apply H. subst d. apply in_map. exact Hin.
Qed.
Lemma next_of_none : forall d l, ~ In d (names l) -> next_of d l = None.
Proof.
  induction l as [|b l IH]; intros H; cbn; [reflexivity|].
  destruct (Z.eqb_spec (b_data b) d) as [E|_]; [exfalso; apply H; left; exact E|]. apply IH. intro Hi. apply H. right. exact Hi.
Qed.
Lemma crel_next : forall w hw lp lp2, (forall p, In p lp2 -> In p lp) ->
  crel w hw lp (head_name (binds lp2)) (option_map fst (hd_error lp2)).
Proof.
  intros w hw lp lp2 Hsub. destruct lp2 as [|[a2 b2] lp2]; cbn; [exact I|]. left. exists b2. split; [apply Hsub; left|]; reflexivity.
Qed.
Lemma crel_head : forall w hw lp, Rep w hw lp -> crel w hw lp (head_name (first (ws w))) (hfirst (hs hw)).
Proof.
  intros w hw lp R. rewrite (rp_list _ _ _ R). pose proof (rp_chain _ _ _ R) as Hc.
  inversion Hc as [|a b nx lp' Hf Hc' Hk Hl]; cbn; [exact I|]. left. exists b. split; [left|]; reflexivity.
Qed.
Lemma rep_eta : forall w hw lp, Rep w hw lp -> Rep (set_state (ws w) w) (hset (hs hw) hw) lp.
Proof. intros w hw lp R. destruct R. constructor; cbn; auto. Qed.

Lemma end_sim : forall w hw lp was e v, Rep w hw lp ->
  rres w hw lp (Ok (log e (set_state (end_iteration was (ws w)) w), v))
               (rbind (h_end_iteration was (hs hw)) (fun h3 => Ok (hlog e (hset h3 hw), v))).
Proof.
  intros w hw lp was e v R. destruct (rep_end_iteration w hw lp was R) as (h3 & lp' & He & R' & E'). rewrite He. cbn.
  split; [reflexivity|]. exists lp'. split; [apply rep_log; exact R'|].
  eapply evolves_trans; [exact E'|apply evolves_log].
Qed.

Ltac use_ih H :=
  match type of H with
  | rres _ _ _ ?r ?r' => destruct r as [[?w2 ?v2]| |], r' as [[?hw2 ?v2']| |]; cbn [rres] in H; cbn [rbind];
                         try contradiction; try exact I
  end.

Lemma sim_call : forall f, Sim f -> forall fn n fl w hw lp, Rep w hw lp ->
  rres w hw lp (exec fixed env (S f) (KCall fn n fl) w) (hexec env (S f) (HCall fn n fl) hw).
Proof.
  intros f IH fn n fl w hw lp R. cbn [exec hexec]. destruct fn as [hid|]; [|exact I].
  rewrite (rp_t _ _ _ R). destruct (env (wt w) hid n fl) as [acts ret].
  pose proof (IH (KActs acts) (HActs acts) w hw lp R eq_refl) as H. use_ih H.
  destruct H as [_ (lp' & R' & E')]. cbn [rres]. split; [reflexivity|]. exists lp'. split; [apply rep_log; exact R'|].
  eapply evolves_trans; [exact E'|apply evolves_log].
Qed.

Lemma sim_acts : forall f, Sim f -> forall acts w hw lp, Rep w hw lp ->
  rres w hw lp (exec fixed env (S f) (KActs acts) w) (hexec env (S f) (HActs acts) hw).
Proof.
  intros f IH acts w hw lp R. cbn [exec hexec]. destruct acts as [|a rest].
  - cbn. split; [reflexivity|]. exists lp. split; [exact R|apply evolves_refl].
  - pose proof (IH (KAct a) (HAct a) w hw lp R eq_refl) as H. use_ih H.
    destruct H as [_ (lp' & R' & E')]. eapply rres_evolves; [exact E'|]. apply IH; [exact R'|reflexivity].
Qed.

Lemma sim_bind : forall f ev flags hid w hw lp, Rep w hw lp ->
  rres w hw lp (exec fixed env (S f) (KAct (ABind ev flags hid)) w) (hexec env (S f) (HAct (ABind ev flags hid)) hw).
Proof.
  intros f ev flags hid w hw lp R. cbn [exec hexec]. unfold bind_event. rewrite (rp_n _ _ _ R).
  set (name := if has flags BIND_FIRST then - wn w else wn w).
  destruct (rep_bind w hw lp ev flags (Some hid)
              (TBind name ev flags hid (max_id (first (ws w)) + 1)) R) as (h1 & lp' & Hb & R' & E').
  fold name in Hb. rewrite Hb. cbn [rbind]. rewrite (rp_t _ _ _ R) in *. rewrite (rp_n _ _ _ R) in *.
  cbn. split; [reflexivity|]. exists lp'. split; [exact R'|exact E'].
Qed.

Lemma sim_emit : forall f, Sim f -> forall (wf : bool) ev w hw lp, Rep w hw lp ->
  rres w hw lp (exec fixed env (S f) (KAct (if wf then AEmitWF ev else AEmit ev)) w)
               (hexec env (S f) (HAct (if wf then AEmitWF ev else AEmit ev)) hw).
Proof.
  intros f IH wf ev w hw lp R.
  set (w1 := log (TEmitB wf ev) (set_state (begin_iteration (ws w)) w)).
  set (hw1 := hlog (TEmitB wf ev) (hset (h_begin_iteration (hs hw)) hw)).
  assert (R1 : Rep w1 hw1 lp) by (apply rep_log, rep_begin; exact R).
  assert (E1 : Evolves w hw lp w1 hw1 lp) by (apply evolves_same; reflexivity).
  pose proof (IH (KLoop wf ev (head_name (first (ws w1)))) (HLoop wf ev (hfirst (hs hw1))) w1 hw1 lp R1
                 (conj eq_refl (conj eq_refl (crel_head _ _ _ R1)))) as H.
  destruct wf; cbn [exec hexec]; fold w1 hw1; rewrite (rp_iter _ _ _ R); use_ih H;
    destruct H as [Hv (lp' & R' & E')]; subst; (eapply rres_evolves; [eapply evolves_trans; [exact E1|exact E']|]);
    apply end_sim; exact R'.
Qed.

Lemma sim_destroy_act : forall f, Sim f -> forall w hw lp, Rep w hw lp ->
  rres w hw lp (exec fixed env (S f) (KAct ADestroy) w) (hexec env (S f) (HAct ADestroy) hw).
Proof.
  intros f IH w hw lp R. cbn [exec hexec].
  pose proof (IH KDestroy HDestroy (log TDestroyB w) (hlog TDestroyB hw) lp (rep_log _ _ _ _ R) I) as H. use_ih H.
  destruct H as [_ (lp' & R' & E')]. cbn [rres]. split; [reflexivity|]. exists lp'. split; [apply rep_log; exact R'|].
  eapply evolves_trans; [apply evolves_log|]. eapply evolves_trans; [exact E'|apply evolves_log].
Qed.

Lemma sim_unbind : forall f, Sim f -> forall id w hw lp, Rep w hw lp ->
  rres w hw lp (exec fixed env (S f) (KAct (AUnbind id)) w) (hexec env (S f) (HAct (AUnbind id)) hw).
Proof.
  intros f IH id w hw lp R. cbn [exec hexec].
  set (w0 := log (TUnbindB id) w). set (hw0 := hlog (TUnbindB id) hw).
  assert (R0 : Rep w0 hw0 lp) by (apply rep_log; exact R).
  assert (E0 : Evolves w hw lp w0 hw0 lp) by apply evolves_log.
  eapply rres_evolves; [exact E0|].
  rewrite (find_id_spec _ _ _ (rp_chain _ _ _ R0) _ id (rep_fuel _ _ _ R0)). cbn [rbind].
  rewrite (rp_list _ _ _ R0), find_id_binds.
  destruct (find (has_id id) lp) as [[a b]|] eqn:Efind; cbn [option_map fst snd].
  2:{ cbn [rres]. split; [reflexivity|]. exists lp. split; [apply rep_log; exact R0|apply evolves_log]. }
  pose proof (find_in _ _ _ _ Efind) as Hin.
  destruct (rep_tomb w0 hw0 lp a b R0 Hin) as (nx & Hf & Hwr & R1 & E1). cbn zeta in Hwr, R1, E1.
  unfold rd. rewrite Hf. cbn [rbind cell_of c_fn c_data c_flags]. rewrite Hwr. cbn [rbind].
  rewrite <- (rp_list _ _ _ R0).
  set (h1 := with_cells (hs hw0) (BM.add a (ctomb (cell_of b nx)) (cells (hs hw0)))) in *.
  set (s1 := mkS (update_node (b_data b) tombstone (first (ws w0))) (is_iter (ws w0)) true) in *.
  change (hiter (set_del h1 true)) with (hiter (hs hw0)). rewrite (rp_iter _ _ _ R0).
  change (is_iter s1) with (is_iter (ws w0)).
  set (w1 := set_state (begin_iteration s1) w0). set (hw1 := hset (h_begin_iteration (set_del h1 true)) hw0).
  assert (R1b : Rep w1 hw1 (upd_node a tombstone lp)).
  { pose proof (rep_begin _ _ _ R1) as Hb. exact Hb. }
  assert (E1b : Evolves w0 hw0 lp w1 hw1 (upd_node a tombstone lp)).
  { eapply evolves_trans; [exact E1|]. apply evolves_same; reflexivity. }
  eapply rres_evolves; [exact E1b|].
  destruct (has (b_flags b) BIND_UNBIND).
  - pose proof (IH (KCall (b_fn b) (b_data b) EV_UNBIND) (HCall (b_fn b) (b_data b) EV_UNBIND)
                   (log (TCallB (b_data b) EV_UNBIND) w1) (hlog (TCallB (b_data b) EV_UNBIND) hw1) _
                   (rep_log _ _ _ _ R1b) (conj eq_refl (conj eq_refl eq_refl))) as H.
    use_ih H. destruct H as [_ (lp2 & R2 & E2)].
    eapply rres_evolves; [eapply evolves_trans; [apply evolves_log|exact E2]|]. apply end_sim. exact R2.
  - cbn [rbind]. apply end_sim. exact R1b.
Qed.

Lemma sim_loop : forall f, Sim f -> forall wf ev cur cur' w hw lp, Rep w hw lp -> crel w hw lp cur cur' ->
  rres w hw lp (exec fixed env (S f) (KLoop wf ev cur) w) (hexec env (S f) (HLoop wf ev cur') hw).
Proof.
  intros f IH wf ev cur cur' w hw lp R C. cbn [exec hexec].
  destruct cur as [d|], cur' as [a|]; cbn [crel] in C; try contradiction.
  2:{ cbn [rres]. split; [reflexivity|]. exists lp. split; [exact R|apply evolves_refl]. }
  destruct C as [(b & Hin & Ed)|(Hd & Ha & _)].
  2:{ rewrite (rp_list _ _ _ R), (find_node_none _ _ Hd). unfold rd. rewrite Ha. exact I. }
  subst d. destruct (chain_at _ _ _ (rp_chain _ _ _ R) a b (rp_names _ _ _ R) Hin) as (lp2 & nx & Hf & Hc2 & Hfn & Hnx & Enx & Hsub).
  rewrite (rp_list _ _ _ R), Hfn. unfold rd at 1. rewrite Hf. cbn [rbind cell_of c_ev c_fn c_data c_flags c_next].
  destruct (b_ev b =? ev).
  - (* the handler of this node is invoked *)
    unfold visit. cbn [oneshot_whilefalse oneshot_reentrant fixed]. rewrite !andb_false_r. cbn [negb]. rewrite andb_true_r.
    (* the two worlds just before the call *)
    assert (Hpre : exists wc hwc lpc fl,
      (let '(s1, flags) := (if has (b_flags b) BIND_ONESHOT
                            then (mkS (update_node (b_data b) tombstone (first (ws w))) (is_iter (ws w)) true, EV_FIRE + EV_UNBIND)
                            else (ws w, EV_FIRE)) in (set_state s1 w, flags)) = (wc, fl) /\
      (if has (b_flags b) BIND_ONESHOT
       then rbind (wr (hs hw) a (ctomb (cell_of b nx))) (fun h1 => Ok (set_del h1 true, EV_FIRE + EV_UNBIND))
       else Ok (hs hw, EV_FIRE)) = Ok (hs hwc, fl) /\ hn hwc = hn hw /\ ht hwc = ht hw /\
      Rep wc hwc lpc /\ Evolves w hw lp wc hwc lpc /\ (exists b', In (a, b') lpc /\ b_data b' = b_data b)).
    { destruct (has (b_flags b) BIND_ONESHOT).
      - destruct (rep_tomb w hw lp a b R Hin) as (nx' & Hf' & Hwr & R1 & E1). cbn zeta in Hwr, R1, E1.
        assert (nx' = nx) by (rewrite Hf in Hf'; inversion Hf'; reflexivity). subst nx'.
        eexists _, (hset (set_del _ true) hw), _, _. split; [reflexivity|]. rewrite Hwr. cbn [rbind].
        split; [reflexivity|]. split; [reflexivity|]. split; [reflexivity|]. split; [exact R1|]. split; [exact E1|].
        exists (tombstone b). split; [|reflexivity]. unfold upd_node. apply in_map_iff. exists (a, b). cbn. rewrite Pos.eqb_refl. auto.
      - eexists _, (hset (hs hw) hw), lp, _. split; [reflexivity|]. split; [reflexivity|]. split; [reflexivity|]. split; [reflexivity|].
        split; [apply rep_eta; exact R|]. split; [apply evolves_same; reflexivity|]. eauto. }
    destruct Hpre as (wc & hwc & lpc & fl & Hk & Hh & Hnc & Htc & Rc & Ec & (b' & Hinc & Edc)).
    match goal with |- rres _ _ _ (let '(s1, flags) := ?X in _) _ =>
      assert (Hx : (let '(s1, flags) := X in (set_state s1 w, flags)) = (wc, fl)) by exact Hk; destruct X as [s1 fl0] end.
    inversion Hx; subst wc fl0. clear Hx Hk. rewrite Hh. cbn [rbind].
    assert (Ehw : hlog (TCallB (b_data b) fl) (hset (hs hwc) hw) = hlog (TCallB (b_data b) fl) hwc).
    { unfold hlog, hset. cbn. rewrite Hnc, Htc. reflexivity. }
    rewrite Ehw.
    pose proof (IH (KCall (b_fn b) (b_data b) fl) (HCall (b_fn b) (b_data b) fl) _ _ _
                   (rep_log _ _ _ (TCallB (b_data b) fl) Rc) (conj eq_refl (conj eq_refl eq_refl))) as H.
    use_ih H. destruct H as [Ev (lp1 & R1 & E1)]. subst v2'.
    assert (E01 : Evolves w hw lp w2 hw2 lp1).
    { eapply evolves_trans; [exact Ec|]. eapply evolves_trans; [apply evolves_log|exact E1]. }
    destruct (wf && negb (v2 =? 0)).
    + cbn [rres]. split; [reflexivity|]. exists lp1. split; [exact R1|exact E01].
    + eapply rres_evolves; [exact E01|].
      assert (C1 : crel w2 hw2 lp1 (Some (b_data b)) (Some a)).
      { eapply crel_evolves; [exact R|exact R1|exact E01|]. cbn. left. eauto. }
      cbn [crel] in C1. destruct C1 as [(b1 & Hin1 & Ed1)|(Hd1 & Ha1 & _)].
      * destruct (chain_at _ _ _ (rp_chain _ _ _ R1) a b1 (rp_names _ _ _ R1) Hin1) as (lp3 & nx1 & Hf1 & _ & _ & Hnx1 & Enx1 & Hsub1).
        rewrite Ed1 in Hnx1. rewrite (rp_list _ _ _ R1), Hnx1. unfold rd. rewrite Hf1. cbn [rbind cell_of c_next].
        apply IH; [exact R1|]. split; [reflexivity|]. split; [reflexivity|]. rewrite Enx1. apply crel_next. exact Hsub1.
      * rewrite (rp_list _ _ _ R1), (next_of_none _ _ Hd1). unfold rd. rewrite Ha1. exact I.
  - (* not for this event: on to the next node *)
    rewrite Hnx. apply IH; [exact R|]. split; [reflexivity|]. split; [reflexivity|]. rewrite Enx. apply crel_next. exact Hsub.
Qed.

Lemma sim_destroy : forall f, Sim f -> forall w hw lp, Rep w hw lp ->
  rres w hw lp (exec fixed env (S f) KDestroy w) (hexec env (S f) HDestroy hw).
Proof.
  intros f IH w hw lp R. cbn [exec hexec].
  destruct (snoc_cases _ lp) as [->|(lp0 & [a b] & ->)].
  - rewrite (rp_list _ _ _ R). pose proof (rp_chain _ _ _ R) as Hc. inversion Hc as [Hk|]. cbn [binds map].
    cbn [rres]. split; [reflexivity|]. exists []. split; [exact R|apply evolves_refl].
  - destruct (rep_destroy_step w hw lp0 a b (mkB 0 0 0 None 0) R) as (Hlast & h1 & h2 & Hls & Hrs & Hws & Hrd & Hfr & R0 & E0).
    assert (Hne : exists x l, first (ws w) = x :: l).
    { rewrite (rp_list _ _ _ R), binds_snoc. destruct (binds lp0); cbn; eauto. }
    destruct Hne as (x & l & El). rewrite El. rewrite <- El. rewrite Hlast.
    assert (Hk : exists a0, hfirst (hs hw) = Some a0).
    { pose proof (rp_chain _ _ _ R) as Hc. destruct lp0; inversion Hc; eauto. }
    destruct Hk as (a0 & Ea0). rewrite Ea0.
    rewrite Hls. cbn [rbind]. rewrite Hrs. cbn [rbind]. rewrite Hws. cbn [rbind]. rewrite Hrd.
    cbn [rbind cell_of c_fn c_data c_ev c_flags]. rewrite Hfr. cbn [rbind].
    set (w0 := set_state (mkS (removelast (first (ws w))) (is_iter (ws w)) (needs_del (ws w))) w) in *.
    eapply rres_evolves; [exact E0|].
    destruct ((b_ev b =? 0) || has (b_flags b) (BIND_UNBIND + BIND_DESTROY)).
    + pose proof (IH (KCall (b_fn b) (b_data b) (EV_UNBIND + EV_DESTROY)) (HCall (b_fn b) (b_data b) (EV_UNBIND + EV_DESTROY)) _ _ _
                     (rep_log _ _ _ (TCallB (b_data b) (EV_UNBIND + EV_DESTROY)) R0) (conj eq_refl (conj eq_refl eq_refl))) as H.
      use_ih H. destruct H as [_ (lp1 & R1 & E1)].
      eapply rres_evolves; [eapply evolves_trans; [apply evolves_log|exact E1]|]. apply IH; [exact R1|exact I].
    + cbn [rbind]. apply IH; [exact R0|exact I].
Qed.

Theorem sim_all : forall fuel, Sim fuel.
Proof.
  induction fuel as [|f IH]; intros t t' w hw lp R T.
  - destruct t, t'; cbn in T; try contradiction; exact I.
  - destruct t as [fn n fl|acts|a|wf ev cur|], t' as [fn' n' fl'|acts'|a'|wf' ev' cur'|]; cbn [trel] in T; try contradiction.
    + destruct T as (-> & -> & ->). apply sim_call; assumption.
    + subst acts'. apply sim_acts; assumption.
    + subst a'. destruct a as [ev flags hid|id|ev|ev|].
      * apply sim_bind; assumption.
      * apply sim_unbind; assumption.
      * apply (sim_emit f IH false); assumption.
      * apply (sim_emit f IH true); assumption.
      * apply sim_destroy_act; assumption.
    + destruct T as (-> & -> & C). apply sim_loop; assumption.
    + apply sim_destroy; assumption.
Qed.

End Sim.

(* ---- the statements ---- *)
(* histories run in lockstep on the two models: same result kind with the same fuel, same value, same
   trace, and the heap holds exactly the cells of the list's nodes *)
Theorem twin_simulates : forall env fuel ops,
  match run fixed env fuel ops, hrun env fuel ops with
  | Ok (w, v), Ok (hw, v') => v = v' /\ wt w = ht hw /\ wn w = hn hw /\ exists lp, Rep w hw lp
  | Fault, Fault => True
  | OutOfFuel, OutOfFuel => True
  | _, _ => False
  end.
Proof.
  intros env fuel ops. unfold run, hrun.
  pose proof (sim_all env fuel (KActs ops) (HActs ops) init_world init_hworld [] rep_init eq_refl) as H.
  destruct (exec fixed env fuel (KActs ops) init_world) as [[w v]| |], (hexec env fuel (HActs ops) init_hworld) as [[hw v']| |];
    cbn [rres] in H; try contradiction; auto.
  destruct H as [Hv (lp & R & _)]. split; [exact Hv|]. split; [symmetry; exact (rp_t _ _ _ R)|].
  split; [symmetry; exact (rp_n _ _ _ R)|]. exists lp. exact R.
Qed.

(* nothing but the nodes of the list is allocated; in particular nothing once the list is empty *)
Theorem twin_no_leak : forall w hw lp, Rep w hw lp ->
  (forall a, BM.find a (cells (hs hw)) <> None <-> In a (addrs lp)) /\
  (first (ws w) = [] -> bheap_empty (hs hw) = true).
Proof.
  intros w hw lp R. split.
  - intro a. split; [apply (rp_exact _ _ _ R)|]. intro Hin. eapply hchain_live; [exact (rp_chain _ _ _ R)|exact Hin].
  - intro He. unfold bheap_empty. apply BM.is_empty_1. intros a c Hm.
    assert (Hin : In a (addrs lp)).
    { apply (rp_exact _ _ _ R). apply BM.find_1 in Hm. congruence. }
    rewrite (rp_list _ _ _ R) in He. destruct lp; [destruct Hin|discriminate].
Qed.
