(* LifeBindSim.v -- the heap twin of bindings.c (LifeBindDefs.v) and the logical model (BindDefs.v)
   run in lockstep: same results, same traces, same fuel; the cells allocated are exactly the nodes
   of the list. *)
From Coq Require Import ZArith List Bool PArith FMapPositive Lia.
From Tickit Require Import BindDefs LifeBindDefs.
Import ListNotations.
Local Open Scope Z_scope.

Definition cell_of (b : binding) (nx : option positive) : bcell :=
  mkC nx (b_id b) (b_ev b) (b_flags b) (b_fn b) (b_data b).

(* a node of the list together with the address of its cell *)
Definition node := (positive * binding)%type.
Definition addrs (lp : list node) : list positive := map fst lp.
Definition binds (lp : list node) : list binding := map snd lp.
Definition names (l : list binding) : list Z := map b_data l.

(* the nodes [lp], linked through their [next] pointers, starting at [k] *)
Inductive hchain (m : BM.t bcell) : option positive -> list node -> Prop :=
| hc_nil : hchain m None []
| hc_cons : forall a b nx lp,
    BM.find a m = Some (cell_of b nx) -> hchain m nx lp -> hchain m (Some a) ((a, b) :: lp).

(* a chain does not depend on cells outside it *)
Lemma hchain_ext : forall m m' k lp, hchain m k lp ->
  (forall a, In a (addrs lp) -> BM.find a m' = BM.find a m) -> hchain m' k lp.
Proof.
  induction 1 as [|a b nx lp Hf Hc IH]; intros He; [constructor|econstructor].
  - rewrite He by (left; reflexivity). exact Hf.
  - apply IH. intros x Hx. apply He. right. exact Hx.
Qed.

Lemma hchain_live : forall m k lp a, hchain m k lp -> In a (addrs lp) -> BM.find a m <> None.
Proof.
  induction 1 as [|a0 b nx lp Hf Hc IH]; intros Hin; [destruct Hin|].
  destruct Hin as [<-|Hin]; [cbn; congruence|auto].
Qed.

(* split form: the prefix [lp1], then the rest [lp2] starting at [k2] *)
Inductive hsplit (m : BM.t bcell) : option positive -> list node -> option positive -> list node -> Prop :=
| hs_here : forall k lp, hchain m k lp -> hsplit m k [] k lp
| hs_step : forall a b nx lp1 k2 lp2,
    BM.find a m = Some (cell_of b nx) -> hsplit m nx lp1 k2 lp2 ->
    hsplit m (Some a) ((a, b) :: lp1) k2 lp2.

Lemma hsplit_chain : forall m k lp1 k2 lp2, hsplit m k lp1 k2 lp2 -> hchain m k (lp1 ++ lp2).
Proof. induction 1; cbn; [assumption|]. econstructor; eauto. Qed.
Lemma hsplit_tail : forall m k lp1 k2 lp2, hsplit m k lp1 k2 lp2 -> hchain m k2 lp2.
Proof. induction 1; auto. Qed.
Lemma hchain_split : forall m lp1 lp2 k, hchain m k (lp1 ++ lp2) -> exists k2, hsplit m k lp1 k2 lp2.
Proof.
  induction lp1 as [|[a b] lp1 IH]; intros lp2 k H; cbn in H.
  - exists k. constructor. exact H.
  - inversion H as [|a' b' nx lp' Hf Hc]; subst.
    destruct (IH lp2 nx Hc) as (k2 & Hs). exists k2. econstructor; eauto.
Qed.
Lemma hsplit_snoc : forall m k lp1 a b nx lp2, hsplit m k lp1 (Some a) ((a, b) :: lp2) ->
  BM.find a m = Some (cell_of b nx) -> hsplit m k (lp1 ++ [(a, b)]) nx lp2.
Proof.
  intros m k lp1 a b nx lp2 H. remember (Some a) as k2 eqn:Ek. remember ((a, b) :: lp2) as lp eqn:El.
  induction H as [k lp Hc | a0 b0 nx0 lp1 k2 lp2' Hf Hs IH]; intros Hfa; subst.
  - cbn. inversion Hc as [|a' b' nx' lp' Hf' Hc']; subst.
    assert (nx' = nx) by (rewrite Hf' in Hfa; inversion Hfa; reflexivity). subst nx'.
    econstructor; [exact Hf'|]. constructor. exact Hc'.
  - cbn. econstructor; [exact Hf|]. apply IH; auto.
Qed.

(* the slot through which the cell after a prefix is reached *)
Fixpoint slot_from (s : bslot) (la : list positive) : bslot :=
  match la with [] => s | a :: r => slot_from (BNext a) r end.
Definition slot_after (lp1 : list node) : bslot := slot_from BFirst (addrs lp1).

Lemma slot_from_snoc : forall la1 s a, slot_from s (la1 ++ [a]) = BNext a.
Proof. induction la1; intros; cbn; auto. Qed.
Lemma slot_after_snoc : forall lp1 a b, slot_after (lp1 ++ [(a, b)]) = BNext a.
Proof. intros. unfold slot_after, addrs. rewrite map_app. apply slot_from_snoc. Qed.

Lemma hsplit_read_from : forall m k lp1 k2 lp2, hsplit m k lp1 k2 lp2 ->
  forall h s0, cells h = m -> read_slot h s0 = Ok k -> read_slot h (slot_from s0 (addrs lp1)) = Ok k2.
Proof.
  induction 1 as [k lp Hc | a b nx lp1 k2 lp2 Hf Hs IH]; intros h s0 Hm H0; cbn [slot_from addrs map fst]; [exact H0|].
  apply IH; [exact Hm|]. cbn. unfold rd. rewrite Hm, Hf. reflexivity.
Qed.
Lemma hsplit_read_slot : forall h k lp1 k2 lp2,
  hsplit (cells h) k lp1 k2 lp2 -> hfirst h = k -> read_slot h (slot_after lp1) = Ok k2.
Proof. intros. eapply hsplit_read_from; eauto. cbn. congruence. Qed.

(* ---- writing through the slot after a prefix re-targets the rest of the chain ---- *)
Definition same_dom (m m' : BM.t bcell) : Prop := forall x, BM.find x m' = None <-> BM.find x m = None.

Lemma write_from : forall lp1 m a b k2 lp2 v lpv h,
  hsplit m (Some a) ((a, b) :: lp1) k2 lp2 -> cells h = m ->
  NoDup (a :: addrs lp1) -> (forall x, In x (a :: addrs lp1) -> ~ In x (addrs lpv)) -> hchain m v lpv ->
  exists m', write_slot h (slot_from (BNext a) (addrs lp1)) v = Ok (with_cells h m') /\
             hchain m' (Some a) ((a, b) :: lp1 ++ lpv) /\
             (forall x, ~ In x (a :: addrs lp1) -> BM.find x m' = BM.find x m) /\ same_dom m m'.
Proof.
  induction lp1 as [|[a1 b1] lp1 IH]; intros m a b k2 lp2 v lpv h Hs Hm Hnd Hdis Hv; subst m.
  - inversion Hs as [|a' b' nx lp1' k2' lp2' Hf Hs']; subst. inversion Hs'; subst.
    exists (BM.add a (cell_of b v) (cells h)). cbn [slot_from addrs map write_slot]. unfold rd. rewrite Hf. cbn [rbind].
    unfold wr. rewrite Hf.
    split; [reflexivity|]. split; [|split].
    + econstructor; [apply BM.gss|]. eapply hchain_ext; [exact Hv|].
      intros x Hx. apply BM.gso. intro E. subst x. apply (Hdis a); [left; reflexivity|exact Hx].
    + intros x Hx. apply BM.gso. intro E. apply Hx. left. auto.
    + intro x. destruct (Pos.eq_dec x a) as [->|Hne]; [rewrite BM.gss, Hf; split; discriminate|].
      rewrite BM.gso by exact Hne. tauto.
  - inversion Hs as [|a' b' nx lp1' k2' lp2' Hf Hs']; subst.
    assert (Enx : nx = Some a1) by (inversion Hs'; reflexivity). subst nx.
    inversion Hnd as [|? ? Hna Hnd']; subst.
    destruct (IH (cells h) a1 b1 k2 lp2 v lpv h Hs' eq_refl Hnd') as (m' & Hw & Hc & Hfr & Hdom).
    { intros x Hx. apply Hdis. right. exact Hx. }
    { exact Hv. }
    exists m'. cbn [slot_from addrs map fst]. split; [exact Hw|]. split; [|split].
    + cbn. econstructor; [|exact Hc]. rewrite Hfr; [exact Hf|exact Hna].
    + intros x Hx. apply Hfr. intro Hi. apply Hx. right. exact Hi.
    + exact Hdom.
Qed.

Lemma write_slot_after : forall lp1 h k k2 lp2 v lpv,
  hsplit (cells h) k lp1 k2 lp2 -> hfirst h = k ->
  NoDup (addrs lp1) -> (forall x, In x (addrs lp1) -> ~ In x (addrs lpv)) -> hchain (cells h) v lpv ->
  exists h', write_slot h (slot_after lp1) v = Ok h' /\
             hchain (cells h') (hfirst h') (lp1 ++ lpv) /\
             (forall x, ~ In x (addrs lp1) -> BM.find x (cells h') = BM.find x (cells h)) /\
             same_dom (cells h) (cells h') /\
             hiter h' = hiter h /\ hdel h' = hdel h /\ hfresh h' = hfresh h.
Proof.
  intros lp1 h k k2 lp2 v lpv Hs Hk Hnd Hdis Hv. destruct lp1 as [|[a b] lp1].
  - exists (set_first h v). cbn. split; [reflexivity|]. split; [exact Hv|]. repeat split; auto.
  - assert (Hk' : k = Some a) by (inversion Hs; reflexivity). subst k. rewrite Hk' in Hs.
    destruct (write_from lp1 (cells h) a b k2 lp2 v lpv h Hs eq_refl Hnd Hdis Hv) as (m' & Hw & Hc & Hfr & Hdom).
    exists (with_cells h m'). unfold slot_after. cbn [addrs map fst slot_from]. split; [exact Hw|].
    cbn. rewrite Hk'. split; [exact Hc|]. repeat split; auto; apply Hdom.
Qed.

(* ---- the read-only walks ---- *)
Definition maxf (m : Z) (b : binding) : Z := if b_id b >? m then b_id b else m.

Lemma max_from_spec : forall h k lp, hchain (cells h) k lp -> forall n m0, (length lp < n)%nat ->
  h_max_from n k m0 h = Ok (fold_left maxf (binds lp) m0).
Proof.
  induction 1 as [|a b nx lp Hf Hc IH]; intros n m0 Hn; (destruct n as [|n]; [cbn in Hn; lia|]); cbn [h_max_from]; [reflexivity|].
  unfold rd. rewrite Hf. cbn [rbind cell_of c_next c_id]. rewrite IH by (cbn in Hn; lia). reflexivity.
Qed.

Lemma end_from_spec : forall h k lp, hchain (cells h) k lp -> forall n s m0, (length lp < n)%nat ->
  read_slot h s = Ok k ->
  h_end_from n s m0 h = Ok (slot_from s (addrs lp), fold_left maxf (binds lp) m0).
Proof.
  induction 1 as [|a b nx lp Hf Hc IH]; intros n s m0 Hn Hs; (destruct n as [|n]; [cbn in Hn; lia|]); cbn [h_end_from];
    rewrite Hs; cbn [rbind]; [reflexivity|].
  unfold rd. rewrite Hf. cbn [rbind cell_of c_next c_id].
  rewrite (IH n (BNext a)); [reflexivity|cbn in Hn; lia|]. cbn. unfold rd. rewrite Hf. reflexivity.
Qed.

Definition has_id (id : Z) (p : node) : bool := b_id (snd p) =? id.
Lemma find_id_spec : forall h k lp, hchain (cells h) k lp -> forall n id, (length lp < n)%nat ->
  h_find_id n k id h = Ok (option_map fst (find (has_id id) lp)).
Proof.
  induction 1 as [|a b nx lp Hf Hc IH]; intros n id Hn; (destruct n as [|n]; [cbn in Hn; lia|]); cbn [h_find_id]; [reflexivity|].
  unfold rd. rewrite Hf. cbn [rbind cell_of c_next c_id find]. unfold has_id at 1. cbn [snd].
  destruct (b_id b =? id); [reflexivity|]. apply IH. cbn in Hn. lia.
Qed.

Lemma last_slot_spec : forall h lp k a b, hchain (cells h) k (lp ++ [(a, b)]) -> forall n s, (length lp < n)%nat ->
  read_slot h s = Ok k -> h_last_slot n s h = Ok (slot_from s (addrs lp)).
Proof.
  intros h lp. induction lp as [|[a0 b0] lp IH]; intros k a b Hc n s Hn Hs; (destruct n as [|n]; [cbn in Hn; lia|]);
    cbn [h_last_slot]; rewrite Hs; cbn [rbind app] in *; inversion Hc as [|a' b' nx lp' Hf Hc']; subst.
  - inversion Hc'; subst. unfold rd. rewrite Hf. reflexivity.
  - unfold rd. rewrite Hf. cbn [rbind cell_of c_next].
    assert (exists a1, nx = Some a1) as [a1 ->].
    { destruct lp as [|[a1 b1] lp]; inversion Hc'; eauto. }
    cbn [addrs map fst slot_from]. apply (IH (Some a1) a b Hc'); [cbn in Hn; lia|].
    cbn. unfold rd. rewrite Hf. reflexivity.
Qed.

(* ---- the sweep ---- *)
Definition deadp (p : node) : bool := b_id (snd p) =? TOMBSTONE_ID.
Definition livep (p : node) : bool := negb (deadp p).

Lemma in_addrs_app : forall lp1 lp2 x, In x (addrs (lp1 ++ lp2)) <-> In x (addrs lp1) \/ In x (addrs lp2).
Proof. intros. unfold addrs. rewrite map_app. apply in_app_iff. Qed.

Lemma nodup_app_inv : forall (A : Type) (l1 l2 : list A), NoDup (l1 ++ l2) ->
  NoDup l1 /\ NoDup l2 /\ (forall x, In x l1 -> ~ In x l2).
Proof.
  induction l1 as [|y l1 IH]; intros l2 H; cbn in *.
  - split; [constructor|]. split; [exact H|]. intros x [].
  - inversion H as [|? ? Hny Hnd]; subst. destruct (IH l2 Hnd) as (H1 & H2 & H3).
    split; [constructor; auto; intro Hi; apply Hny; apply in_or_app; auto|]. split; [exact H2|].
    intros x [->|Hx] Hx2; [apply Hny; apply in_or_app; auto|eapply H3; eauto].
Qed.
Lemma nodup_addrs_app : forall lp1 lp2, NoDup (addrs (lp1 ++ lp2)) ->
  NoDup (addrs lp1) /\ NoDup (addrs lp2) /\ (forall x, In x (addrs lp1) -> ~ In x (addrs lp2)).
Proof. intros lp1 lp2 H. unfold addrs in *. rewrite map_app in H. apply nodup_app_inv. exact H. Qed.

Lemma sweep_spec : forall lp2 lp1 h k2 n,
  hsplit (cells h) (hfirst h) lp1 k2 lp2 -> NoDup (addrs (lp1 ++ lp2)) -> (length lp2 < n)%nat ->
  exists h', h_sweep n (slot_after lp1) h = Ok h' /\
             hchain (cells h') (hfirst h') (lp1 ++ filter livep lp2) /\
             (forall x, BM.find x (cells h') = None <-> BM.find x (cells h) = None \/ In x (addrs (filter deadp lp2))) /\
             hiter h' = hiter h /\ hdel h' = hdel h /\ hfresh h' = hfresh h.
Proof.
  induction lp2 as [|[a b] r IH]; intros lp1 h k2 n Hs Hnd Hn; (destruct n as [|n]; [cbn in Hn; lia|]); cbn [h_sweep];
    rewrite (hsplit_read_slot h _ lp1 k2 _ Hs eq_refl); cbn [rbind].
  - pose proof (hsplit_tail _ _ _ _ _ Hs) as Ht. inversion Ht; subst.
    exists h. split; [reflexivity|]. rewrite app_nil_r. split; [rewrite <- (app_nil_r lp1); eapply hsplit_chain; eauto|].
    split; [intro x; cbn; tauto|auto].
  - pose proof (hsplit_tail _ _ _ _ _ Hs) as Ht. inversion Ht as [|a' b' nx lp' Hf Hc]; subst.
    unfold rd at 1. rewrite Hf. cbn [rbind cell_of c_id c_next].
    destruct (nodup_addrs_app _ _ Hnd) as (Hnd1 & Hnd2 & Hdis).
    destruct (b_id b =? TOMBSTONE_ID) eqn:Eid; cbn [negb].
    + (* a tombstone: unlinked and freed *)
      assert (Hdis_r : forall x, In x (addrs lp1) -> ~ In x (addrs r)).
      { intros x H1 H2. apply (Hdis x H1). right. exact H2. }
      destruct (write_slot_after lp1 h _ _ _ nx r Hs eq_refl Hnd1 Hdis_r Hc) as (h1 & Hw & Hc1 & Hfr1 & Hdom1 & Hi1 & Hd1 & Hn1).
      rewrite Hw. cbn [rbind].
      assert (Ha1 : ~ In a (addrs lp1)) by (intro Hi; apply (Hdis a Hi); left; reflexivity).
      assert (Hf1 : BM.find a (cells h1) = Some (cell_of b nx)) by (rewrite Hfr1; auto).
      unfold rd. rewrite Hf1. cbn [rbind]. unfold wr. rewrite Hf1. cbn [rbind]. unfold hfree. cbn [cells with_cells].
      rewrite BM.gss. cbn [rbind].
      set (h3 := with_cells (with_cells h1 (BM.add a (set_next (cell_of b nx) None) (cells h1)))
                            (BM.remove a (BM.add a (set_next (cell_of b nx) None) (cells h1)))).
      assert (Hoth : forall x, x <> a -> BM.find x (cells h3) = BM.find x (cells h1)).
      { intros x Hx. unfold h3. cbn. rewrite BM.gro by auto. apply BM.gso. auto. }
      assert (Har : ~ In a (addrs r)) by (inversion Hnd2; assumption).
      assert (Hc3 : hchain (cells h3) (hfirst h3) (lp1 ++ r)).
      { eapply hchain_ext; [exact Hc1|]. intros x Hx. apply Hoth. intro E. subst x.
        apply in_addrs_app in Hx. tauto. }
      destruct (hchain_split _ _ _ _ Hc3) as (k2' & Hs3).
      assert (Hnd3 : NoDup (addrs (lp1 ++ r))).
      { unfold addrs in *. rewrite map_app in *. cbn in Hnd. apply NoDup_remove_1 in Hnd. exact Hnd. }
      destruct (IH lp1 h3 k2' n Hs3 Hnd3) as (h' & Hsw & Hc' & Hdom' & Hi' & Hd' & Hn'); [cbn in Hn; lia|].
      exists h'. split; [exact Hsw|].
      change (filter livep ((a, b) :: r)) with (if negb (b_id b =? TOMBSTONE_ID) then (a, b) :: filter livep r else filter livep r).
      change (filter deadp ((a, b) :: r)) with (if b_id b =? TOMBSTONE_ID then (a, b) :: filter deadp r else filter deadp r).
      rewrite Eid. cbn [negb].
      split; [exact Hc'|]. split; [|unfold h3 in *; cbn in *; repeat split; congruence].
      intro x. rewrite Hdom'. cbn [addrs map fst In]. destruct (Pos.eq_dec x a) as [->|Hne].
      * unfold h3. cbn. rewrite BM.grs. tauto.
      * rewrite (Hoth x Hne). rewrite (Hdom1 x). intuition congruence.
    + (* a live node: move on *)
      assert (Hs' : hsplit (cells h) (hfirst h) (lp1 ++ [(a, b)]) nx r) by (eapply hsplit_snoc; eauto).
      assert (Hnd' : NoDup (addrs ((lp1 ++ [(a, b)]) ++ r))) by (rewrite <- app_assoc; exact Hnd).
      destruct (IH (lp1 ++ [(a, b)]) h nx n Hs' Hnd') as (h' & Hsw & Hc' & Hdom' & Hrest); [cbn in Hn; lia|].
      rewrite slot_after_snoc in Hsw. exists h'. split; [exact Hsw|].
      change (filter livep ((a, b) :: r)) with (if negb (b_id b =? TOMBSTONE_ID) then (a, b) :: filter livep r else filter livep r).
      change (filter deadp ((a, b) :: r)) with (if b_id b =? TOMBSTONE_ID then (a, b) :: filter deadp r else filter deadp r).
      rewrite Eid. cbn [negb].
      split; [rewrite <- app_assoc in Hc'; exact Hc'|]. split; [exact Hdom'|exact Hrest].
Qed.
