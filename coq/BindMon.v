(* BindMon.v -- bookkeeping for the simulation proof: runs of the monitor over trace
   segments, the facts that survive arbitrary nested handler activity (Mono, Keep), and
   lemmas relating lookups in the C list to lookups in the monitor's list. *)
From Coq Require Import ZArith List Bool Lia Sorted.
From Tickit Require Import BindDefs BindSpec BindInv.
Import ListNotations.
Local Open Scope Z_scope.

(* ------------------------------------------------------------ monitor runs *)
Lemma mon_run_app : forall t1 t2 m,
  mon_run m (t1 ++ t2) = match mon_run m t1 with inl m1 => mon_run m1 t2 | inr x => inr x end.
Proof.
  induction t1 as [|e t1 IH]; cbn [app mon_run]; intros t2 m; [reflexivity|].
  destruct (mon_step m e); auto.
Qed.

(* w' extends w's trace by events that take the monitor from m to m' *)
Definition Steps (w : world) (m : mstate) (w' : world) (m' : mstate) : Prop :=
  exists evs, wt w' = evs ++ wt w /\ mon_run m (rev evs) = inl m'.

Lemma steps_refl : forall w m, Steps w m w m.
Proof. intros; exists []; auto. Qed.

Lemma steps_trans : forall w1 m1 w2 m2 w3 m3, Steps w1 m1 w2 m2 -> Steps w2 m2 w3 m3 -> Steps w1 m1 w3 m3.
Proof.
  intros w1 m1 w2 m2 w3 m3 (e1 & H1 & R1) (e2 & H2 & R2). exists (e2 ++ e1). split.
  - rewrite H2, H1, app_assoc; reflexivity.
  - rewrite rev_app_distr, mon_run_app, R1; exact R2.
Qed.

Lemma steps_log : forall w m e m', mon_step m e = inl m' -> Steps w m (log e w) m'.
Proof. intros w m e m' H; exists [e]; split; [reflexivity|]. cbn [rev app mon_run]; rewrite H; reflexivity. Qed.

Lemma steps_same_trace : forall w m w', wt w' = wt w -> Steps w m w' m.
Proof. intros w m w' H; exists []; auto. Qed.

(* ------------------------------------------------------------ what nested activity cannot undo *)
(* a binding known to the monitor before and live afterwards was live before, unchanged *)
Definition Mono (m m' : mstate) : Prop :=
  m_n m <= m_n m' /\
  forall a, In a (m_live m') -> - m_n m < a_name a < m_n m -> In a (m_live m).

Lemma mono_refl : forall m, Mono m m.
Proof. intros m; split; [lia|auto]. Qed.

Lemma mono_trans : forall m1 m2 m3, Mono m1 m2 -> Mono m2 m3 -> Mono m1 m3.
Proof.
  intros m1 m2 m3 (L1 & H1) (L2 & H2); split; [lia|]. intros a Ha Hr. apply H1; auto. apply H2; auto. lia.
Qed.

Lemma mono_subset : forall m m', m_n m = m_n m' -> incl (m_live m') (m_live m) -> Mono m m'.
Proof. intros m m' Hn Hi; split; [lia|]. intros a Ha _; apply Hi; exact Ha. Qed.

(* while an iteration is in progress no node leaves the list *)
Definition Keep (w w' : world) : Prop :=
  is_iter (ws w) = true -> incl (names (first (ws w))) (names (first (ws w'))).

Lemma keep_refl : forall w, Keep w w.
Proof. intros w _; apply incl_refl. Qed.

Lemma keep_trans : forall w1 w2 w3, Keep w1 w2 -> Keep w2 w3 ->
  (is_iter (ws w1) = true -> is_iter (ws w2) = true) -> Keep w1 w3.
Proof. intros w1 w2 w3 K1 K2 Hi H. eapply incl_tran; [apply K1; auto|apply K2; auto]. Qed.

(* ------------------------------------------------------------ lookups *)
Lemma remove_live_in : forall d l a, In a (remove_live d l) -> In a l /\ a_name a <> d.
Proof.
  unfold remove_live; intros d l a H; apply filter_In in H; destruct H as (H & E); split; auto.
  apply negb_true_iff in E; apply Z.eqb_neq in E; exact E.
Qed.

Lemma remove_live_absent : forall d l, (forall a, In a l -> a_name a <> d) -> remove_live d l = l.
Proof.
  induction l as [|a l IH]; intros H; [reflexivity|]. unfold remove_live; cbn [filter].
  destruct (a_name a =? d) eqn:E.
  - apply Z.eqb_eq in E. exfalso; apply (H a); cbn; auto.
  - cbn [negb]. f_equal. apply IH; intros; apply H; cbn; auto.
Qed.

Lemma remove_name_in : forall d l n, In n (remove_name d l) <-> In n l /\ n <> d.
Proof.
  unfold remove_name; intros d l n; rewrite filter_In, negb_true_iff, Z.eqb_neq; tauto.
Qed.

Lemma memZ_false : forall x l, ~ In x l -> memZ x l = false.
Proof.
  intros x l H; unfold memZ. destruct (existsb (fun y => y =? x) l) eqn:E; auto.
  apply existsb_exists in E; destruct E as (y & Hy & He); apply Z.eqb_eq in He; subst; tauto.
Qed.

Lemma abs_ids : forall l, map a_id (abs_list l) = map b_id (filter live l).
Proof. intros; unfold abs_list; rewrite map_map; reflexivity. Qed.

Lemma abs_names_sorted : forall l, StronglySorted Z.lt (names l) -> StronglySorted Z.lt (map a_name (abs_list l)).
Proof.
  induction l as [|b l IH]; cbn [names map]; intros H; [constructor|].
  inversion H as [|? ? Hs Hf]; subst. destruct (live b) eqn:E.
  - rewrite abs_list_cons_live by exact E. cbn [map abs_of a_name]. constructor; [apply IH; exact Hs|].
    rewrite Forall_forall in *; intros x Hx. apply in_map_iff in Hx; destruct Hx as (a & <- & Ha).
    apply Hf; apply abs_names_in; exact Ha.
  - rewrite abs_list_cons_dead by exact E. apply IH; exact Hs.
Qed.

(* in a list with distinct names, an element is found by its name *)
Lemma find_live_in : forall l a, StronglySorted Z.lt (map a_name l) -> In a l -> find_live (a_name a) l = Some a.
Proof.
  induction l as [|x l IH]; intros a Hs Hin; [destruct Hin|].
  cbn [map] in Hs; inversion Hs as [|? ? Hs' Hf]; subst. unfold find_live; cbn [find].
  destruct Hin as [<-|Hin]; [rewrite Z.eqb_refl; reflexivity|].
  destruct (a_name x =? a_name a) eqn:E.
  - apply Z.eqb_eq in E. rewrite Forall_forall in Hf. specialize (Hf _ (in_map a_name _ _ Hin)); lia.
  - apply IH; auto.
Qed.

Lemma find_live_some : forall d l a, find_live d l = Some a -> In a l /\ a_name a = d.
Proof. unfold find_live; intros d l a H; apply find_some in H; destruct H as (H & E); apply Z.eqb_eq in E; auto. Qed.

Lemma live_unique : forall l a1 a2, StronglySorted Z.lt (map a_name l) -> In a1 l -> In a2 l ->
  a_name a1 = a_name a2 -> a1 = a2.
Proof.
  intros l a1 a2 Hs H1 H2 He. pose proof (find_live_in l a1 Hs H1) as F1. pose proof (find_live_in l a2 Hs H2) as F2.
  rewrite He in F1; congruence.
Qed.

Lemma is_live_false : forall l n, (forall a, In a l -> a_name a <> n) -> is_live l n = false.
Proof.
  intros l n H; unfold is_live. destruct (existsb (fun a => a_name a =? n) l) eqn:E; auto.
  apply existsb_exists in E; destruct E as (a & Ha & He); apply Z.eqb_eq in He. exfalso; eapply H; eauto.
Qed.

(* the C looks the id up in the raw list (tombstones carry id -1), the monitor among the
   live bindings *)
Lemma find_id_rel : forall n id l,
  Forall (node_ok n) l ->
  match find (fun b => b_id b =? id) l with
  | None => find (fun a => a_id a =? id) (abs_list l) = None
  | Some b => In b l /\
              if live b then find (fun a => a_id a =? id) (abs_list l) = Some (abs_of b)
              else find (fun a => a_id a =? id) (abs_list l) = None
  end.
Proof.
  intros n id; induction l as [|b l IH]; intros Hn; [reflexivity|].
  inversion Hn as [|? ? Hb Hl]; subst. specialize (IH Hl). cbn [find].
  destruct (b_id b =? id) eqn:E.
  - split; [cbn; auto|]. destruct (live b) eqn:Lv.
    + rewrite abs_list_cons_live by exact Lv. cbn [find abs_of a_id]. rewrite E; reflexivity.
    + rewrite abs_list_cons_dead by exact Lv.
      (* id = -1: no live binding has it *)
      apply Z.eqb_eq in E. unfold live in Lv. apply negb_false_iff in Lv; apply Z.eqb_eq in Lv.
      destruct (find (fun a => a_id a =? id) (abs_list l)) eqn:F; auto.
      apply find_some in F; destruct F as (Hin & He). apply Z.eqb_eq in He.
      apply abs_in_live in Hin; destruct Hin as (b' & Hb' & Lv' & ->). cbn [abs_of a_id] in He.
      rewrite Forall_forall in Hl. destruct (Hl _ Hb') as (_ & Hpos & _). specialize (Hpos Lv').
      unfold TOMBSTONE_ID in *; lia.
  - destruct (live b) eqn:Lv.
    + rewrite abs_list_cons_live by exact Lv. cbn [find abs_of a_id]. rewrite E.
      destruct (find (fun b0 => b_id b0 =? id) l); [|exact IH]. destruct IH; split; [cbn; auto|auto].
    + rewrite abs_list_cons_dead by exact Lv.
      destruct (find (fun b0 => b_id b0 =? id) l); [|exact IH]. destruct IH; split; [cbn; auto|auto].
Qed.

(* flag words *)
Lemma has_or : forall fl, has fl (BIND_UNBIND + BIND_DESTROY) = has fl BIND_UNBIND || has fl BIND_DESTROY.
Proof.
  intros fl; unfold has, BIND_UNBIND, BIND_DESTROY. change (2 + 4) with (Z.lor 2 4).
  rewrite Z.land_lor_distr_r.
  destruct (Z.land fl 2 =? 0) eqn:E1, (Z.land fl 4 =? 0) eqn:E2; cbn [negb orb];
    rewrite ?Z.eqb_eq, ?Z.eqb_neq in *.
  - apply negb_false_iff, Z.eqb_eq. apply Z.lor_eq_0_iff; auto.
  - apply negb_true_iff, Z.eqb_neq. intros H; apply Z.lor_eq_0_iff in H; tauto.
  - apply negb_true_iff, Z.eqb_neq. intros H; apply Z.lor_eq_0_iff in H; tauto.
  - apply negb_true_iff, Z.eqb_neq. intros H; apply Z.lor_eq_0_iff in H; tauto.
Qed.
