(* LoopSigProofs.v -- proofs for C18 over LoopSigDefs. *)
From Coq Require Import ZArith List Bool Lia.
From Tickit Require Import LoopDefs LoopSigDefs.
Import ListNotations.
Local Open Scope Z_scope.

(* ------------------------------------------------------------------ the pending set *)

Ltac break_match :=
  match goal with
  | |- context [match ?x with _ => _ end] => destruct x
  end.

Section Pending.
Variable c : cfg.
Variable env : Z -> list saction.

Lemma pending_semit : forall s id k f x, pending (semit s id k f x) = pending s.
Proof. reflexivity. Qed.

Lemma pending_evloop_io : forall s fd cond wid, pending (fst (evloop_io c s fd cond wid)) = pending s.
Proof. intros. unfold evloop_io. destruct (find_free (slots s) 0); reflexivity. Qed.

Lemma pending_evloop_cancel_io : forall s i, pending (evloop_cancel_io s i) = pending s.
Proof. intros. unfold evloop_cancel_io. destruct (nth_error (slots s) i); reflexivity. Qed.

Lemma pending_scancel : forall s id, pending (scancel s id) = pending s.
Proof.
  intros s id. unfold scancel.
  destruct (find_iow id (iows s)) as [w|].
  { rewrite pending_evloop_cancel_io. destruct (i_unbind w); reflexivity. }
  destruct (find_sgw id (sgws s)) as [w|].
  { destruct (memz (g_sig w) (kpend s)); [reflexivity|].
    cbn [cursor up_sgws]. destruct (cursor s) as [cu|]; [destruct (cu =? id)|]; destruct (g_unbind w); reflexivity. }
  destruct (find_ltr id (dlaters s)) as [w|].
  { destruct (l_unbind w); reflexivity. }
  destruct (find_ltr id (drun s)) as [w|].
  { destruct (l_unbind w); reflexivity. }
  reflexivity.
Qed.

Lemma pending_sdo_action : forall s a, pending (sdo_action c s a) = pending s.
Proof.
  intros s a. destruct a as [ub cb|fd cond ub cb|sig ub cb|id|e|sig| |]; cbn [sdo_action]; try reflexivity.
  - pose proof (pending_evloop_io s fd cond (snext s)) as H.
    destruct (evloop_io c s fd cond (snext s)) as [s1 i]. cbn [fst] in H. cbn. exact H.
  - apply pending_scancel.
  - destruct (is_watched s sig); reflexivity.
Qed.

Lemma pending_sdo_actions : forall l s, pending (sdo_actions c s l) = pending s.
Proof.
  induction l as [|a l IH]; intros s; [reflexivity|].
  unfold sdo_actions in *. cbn [fold_left]. rewrite IH. apply pending_sdo_action.
Qed.

Lemma pending_drun_loop : forall n s, pending (drun_loop c env n s) = pending s.
Proof.
  induction n as [|n IH]; intros s; [reflexivity|].
  cbn [drun_loop]. destruct (drun s) as [|w r]; [reflexivity|].
  rewrite IH, pending_sdo_actions. reflexivity.
Qed.

Lemma pending_invoke_laters : forall s, pending (invoke_laters c env s) = pending s.
Proof. intros s. unfold invoke_laters. rewrite pending_drun_loop. reflexivity. Qed.

Lemma pending_io_dispatch : forall fuel idx s s', io_dispatch c env fuel idx s = Some s' -> pending s' = pending s.
Proof.
  induction fuel as [|f IH]; intros idx s s' H; [discriminate|].
  cbn [io_dispatch] in H. destruct (nth_error (slots s) idx) as [sl|]; [|inversion H; reflexivity].
  destruct (p_fd sl =? -1); [eapply IH; eassumption|].
  destruct (p_revents sl =? 0); [eapply IH; eassumption|].
  destruct (find_iow (p_watch sl) (iows s)) as [w|]; [|discriminate].
  apply IH in H. rewrite H, pending_sdo_actions. reflexivity.
Qed.

Lemma pending_sig_walk : forall fuel bound this sig s s', sig_walk c env fuel bound this sig s = Some s' -> pending s' = pending s.
Proof.
  induction fuel as [|f IH]; intros bound this sig s s' H; [discriminate|].
  cbn [sig_walk] in H. destruct this as [id|]; [|inversion H; reflexivity].
  destruct (find_sgw id (sgws s)) as [w|]; [|discriminate].
  apply IH in H. rewrite H. destruct ((g_sig w =? sig) && (g_id w <? bound)); [rewrite pending_sdo_actions|]; [|reflexivity].
  unfold sig_fire. destruct (g_id w <? 0); reflexivity.
Qed.

Lemma pending_dispatch_sigs : forall fuel sigs s s', dispatch_sigs c env fuel sigs s = Some s' -> pending s' = pending s.
Proof.
  induction sigs as [|sg r IH]; intros s s' H; [inversion H; reflexivity|].
  cbn [dispatch_sigs] in H. destruct (is_watched s sg); [|eapply IH; eassumption].
  destruct (sig_walk c env fuel (snext s) (match sgws s with [] => None | h :: _ => Some (g_id h) end) sg s) as [s1|] eqn:Ew; [|discriminate].
  apply IH in H. apply pending_sig_walk in Ew. congruence.
Qed.

End Pending.

(* what ppoll does to pollret, errno and the pending set *)
Lemma ppoll_cases : forall s ret s1, ppoll s = (ret, s1) ->
  (0 <= ret /\ pending s1 = pending s) \/ (ret = -1 /\ errno s1 = EINTR).
Proof.
  intros s ret s1 H. unfold ppoll in H.
  destruct (0 <? Z.of_nat (length (filter (fun x => negb (p_revents x =? 0)) (map (poll_slot (ready s)) (slots s))))) eqn:E.
  - inversion H; subst. left. split; [apply Z.ltb_lt in E; lia|reflexivity].
  - destruct (kpend s ++ filter (is_watched s) (inwait s)); inversion H; subst.
    + left. split; [lia|reflexivity].
    + right. split; reflexivity.
Qed.

(* C18_signal_reaches, the loop's side: with the latched errno, the set of signals the handler
   has recorded is empty at the end of every pass, whatever the callbacks did *)
Lemma iteration_pending : forall env fuel sleep s s',
  pending s = [] -> iteration fixed_cfg env fuel sleep s = Some s' -> pending s' = [].
Proof.
  intros env fuel sleep s s' Hp H. unfold iteration in H. cbn [stop_early fixed_cfg andb] in H.
  set (s1 := up_slog (up_siter s (siter s + 1)) _) in H.
  assert (Hp1 : pending s1 = []) by exact Hp.
  destruct (ppoll s1) as [ret s2] eqn:Epp.
  destruct (ppoll_cases _ _ _ Epp) as [[Hret Hpend] | [Hret Herr]].
  - destruct (0 <? ret) eqn:E0.
    + apply pending_io_dispatch in H. rewrite H, pending_invoke_laters. congruence.
    + assert (Hn : (ret <? 0) = false) by (apply Z.ltb_ge; lia). rewrite Hn in H. cbn [andb] in H.
      inversion H; subst. rewrite pending_invoke_laters. congruence.
  - subst ret. change (0 <? -1) with false in H. change (-1 <? 0) with true in H.
    cbn [andb errno_late fixed_cfg] in H. rewrite Herr in H. change (EINTR =? EINTR) with true in H.
    unfold dispatch_signals in H. apply pending_dispatch_sigs in H. rewrite H. reflexivity.
Qed.

Lemma stick_pending : forall env fuel sleep s s',
  pending s = [] -> stick fixed_cfg env fuel sleep s = Some s' -> pending s' = [].
Proof. intros env fuel sleep s s' Hp H. unfold stick in H. eapply iteration_pending; [|exact H]. exact Hp. Qed.

(* tickit_run: the same after every pass of the loop, whichever callback stops it and when *)
Lemma run_passes_pending : forall env fuel k s s',
  pending s = [] -> run_passes fixed_cfg env fuel k s = Some s' -> pending s' = [].
Proof.
  induction k as [|k IH]; intros s s' Hp H; cbn [run_passes] in H; [inversion H; subst; exact Hp|].
  destruct (negb (running s)); [inversion H; subst; exact Hp|].
  destruct (iteration fixed_cfg env fuel true (if Nat.eqb k 0 then up_running s false else s)) as [s2|] eqn:E; [|discriminate].
  eapply IH; [|exact H]. eapply iteration_pending; [|exact E]. destruct (Nat.eqb k 0); exact Hp.
Qed.

Lemma sdo_op_pending : forall env fuel s o s',
  pending s = [] -> sdo_op fixed_cfg env fuel (Some s) o = Some s' -> pending s' = [].
Proof.
  intros env fuel s o s' Hp H. destruct o as [a|sl|fd rv|sg|rk]; cbn [sdo_op] in H.
  - inversion H; subst. rewrite pending_sdo_action. assumption.
  - eapply stick_pending; eassumption.
  - inversion H; subst. assumption.
  - inversion H; subst. assumption.
  - destruct (run_passes fixed_cfg env fuel rk _) as [s2|] eqn:E; [|discriminate]. inversion H; subst.
    cbn [pending up_sgws]. eapply run_passes_pending; [|exact E]. exact Hp.
Qed.

Lemma fold_sdo_op_none : forall cf env fuel ops, fold_left (sdo_op cf env fuel) ops None = None.
Proof. induction ops as [|o r IH]; [reflexivity|exact IH]. Qed.

Lemma signal_reaches : forall env fuel ops s',
  srun_ops fixed_cfg env fuel ops = Some s' -> pending s' = [].
Proof.
  intros env fuel ops. unfold srun_ops.
  assert (G : forall ops s s', pending s = [] ->
              fold_left (sdo_op fixed_cfg env fuel) ops (Some s) = Some s' -> pending s' = []).
  { induction ops0 as [|o r IH]; intros s s' Hp H.
    - inversion H; subst. assumption.
    - cbn [fold_left] in H.
      destruct (sdo_op fixed_cfg env fuel (Some s) o) as [s1|] eqn:E.
      + eapply IH; [|exact H]. eapply sdo_op_pending; eassumption.
      + rewrite fold_sdo_op_none in H. discriminate. }
  intros s' H. eapply G; [|exact H]. reflexivity.
Qed.

(* ... and the signals the kernel held back are all handed over by a ppoll that finds no ready
   descriptor: none stays pending in the kernel past it *)
Lemma ppoll_delivers : forall s ret s1, ppoll s = (ret, s1) -> ret <= 0 -> kpend s1 = [].
Proof.
  intros s ret s1 H Hr. unfold ppoll in H.
  destruct (0 <? Z.of_nat (length (filter (fun x => negb (p_revents x =? 0)) (map (poll_slot (ready s)) (slots s))))) eqn:E.
  - inversion H; subst. apply Z.ltb_lt in E. lia.
  - destruct (kpend s) as [|k r] eqn:Ek.
    + cbn [app] in H. destruct (filter (is_watched s) (inwait s)); inversion H; subst.
      * exact Ek.
      * reflexivity.
    + cbn [app] in H. inversion H; subst. reflexivity.
Qed.

(* the pinned loop (errno read after the callbacks): a deferred callback that clears errno
   makes the loop skip the dispatch; the signal stays recorded and its watcher is not called *)
Definition w24_env (cb : Z) : list saction := if cb =? 1 then [SErrno 0] else [].
Definition w24_ops : list sop :=
  [SAct (SSig 10 false 0); SAct (SLater false 1); SAct (SRaise 10); STick false; STick false; STick false].

Lemma signal_reaches_refuted_pinned :
  exists s', srun_ops pinned_cfg w24_env 100 w24_ops = Some s' /\ pending s' = [10] /\
             forall e, In (OEv e) (slog s') -> e_kind e <> KSig.
Proof.
  eexists. split; [vm_compute; reflexivity|]. split; [reflexivity|].
  intros e [H|[H|[H|[H|[]]]]]; try discriminate; inversion H; subst; cbn; discriminate.
Qed.

(* the same script on the repaired loop: the watcher is called in the first pass *)
Lemma signal_reaches_witness_fixed :
  srun fixed_cfg w24_env 100 w24_ops =
  Some [OPoll 0; OEv (mkE 1 KLater 3 1 0 0); OEv (mkE 0 KSig 1 1 0 10); OPoll 0; OPoll 0].
Proof. vm_compute. reflexivity. Qed.

(* ------------------------------------------------------------------ poll slots *)

(* what ppoll reports for a slot is what was scripted ready for ITS descriptor, restricted to
   what it asked for plus ERR/HUP/NVAL; nothing for a free slot *)
Lemma ppoll_slot_exact : forall s ret s1, ppoll s = (ret, s1) ->
  slots s1 = map (poll_slot (ready s)) (slots s).
Proof.
  intros s ret s1 H. unfold ppoll in H.
  destruct (0 <? Z.of_nat (length (filter (fun x => negb (p_revents x =? 0)) (map (poll_slot (ready s)) (slots s))))).
  - inversion H; subst. reflexivity.
  - destruct (kpend s ++ filter (is_watched s) (inwait s)); inversion H; subst; reflexivity.
Qed.

Lemma set_nth_nth_error : forall {A} (l : list A) i v, (i < length l)%nat -> nth_error (set_nth l i v) i = Some v.
Proof.
  induction l as [|h t IH]; intros i v Hi; [cbn in Hi; lia|].
  destruct i as [|i]; [reflexivity|]. cbn. apply IH. cbn in Hi. lia.
Qed.

Lemma find_free_bound : forall l i j, find_free l i = Some j -> (i <= j < i + length l)%nat.
Proof.
  induction l as [|h t IH]; intros i j H; [discriminate|].
  cbn [find_free] in H. destruct (p_fd h =? -1).
  - inversion H; subst. cbn. lia.
  - apply IH in H. cbn. lia.
Qed.

(* the repaired evloop_io: the slot a new watch gets -- reused or fresh -- holds no revents,
   so the dispatch loop of the running iteration passes it by *)
Lemma evloop_io_resets : forall s fd cond wid s1 i,
  evloop_io fixed_cfg s fd cond wid = (s1, i) ->
  nth_error (slots s1) i = Some (mkSlot fd (events_of_cond cond) 0 wid).
Proof.
  intros s fd cond wid s1 i H. unfold evloop_io in H.
  destruct (find_free (slots s) 0) as [j|] eqn:Ef.
  - inversion H; subst. cbn [slots up_slots revents_stale fixed_cfg].
    apply set_nth_nth_error. apply find_free_bound in Ef. lia.
  - inversion H; subst. cbn [slots up_slots revents_stale fixed_cfg].
    rewrite nth_error_app2 by lia. rewrite Nat.sub_diag. reflexivity.
Qed.

(* pinned evloop_io: a watch registered by a callback into the slot another one just left is
   invoked with the conditions reported for the OTHER descriptor *)
Definition w25_env (cb : Z) : list saction := if cb =? 1 then [SCancel 0; SIo 2 1 false 9] else [].
Definition w25_ops : list sop :=
  [SAct (SIo 0 1 false 9); SAct (SLater false 1); SReady 0 1; STick false].

Lemma io_exact_refuted_pinned :
  srun pinned_cfg w25_env 100 w25_ops =
  Some [OPoll 0; OEv (mkE 1 KLater 3 1 0 0); OEv (mkE 2 KIo 1 1 0 1)].
Proof. vm_compute. reflexivity. Qed.

Lemma io_exact_witness_fixed :
  srun fixed_cfg w25_env 100 w25_ops = Some [OPoll 0; OEv (mkE 1 KLater 3 1 0 0)].
Proof. vm_compute. reflexivity. Qed.

(* ------------------------------------------------------------------ a watch that is gone is never invoked *)

Definition live_ids (s : sst) : list Z :=
  map i_id (iows s) ++ map g_id (sgws s) ++ map l_id (dlaters s) ++ map l_id (drun s).

(* gone: registered once (its number is below the counter) and in none of the lists *)
Definition dead (s : sst) (id : Z) : Prop := ~ In id (live_ids s) /\ id < snext s.

Definition is_fire (id : Z) (o : obs) : bool :=
  match o with OEv e => (e_id e =? id) && Z.testbit (e_flags e) 0 | OPoll _ => false end.
Definition fires (id : Z) (l : list obs) : nat := length (filter (is_fire id) l).

(* [keeps id s s']: id stays gone and is not invoked on the way from s to s' *)
Definition keeps (id : Z) (s s' : sst) : Prop := dead s' id /\ fires id (slog s') = fires id (slog s).

Lemma keeps_refl : forall id s, dead s id -> keeps id s s.
Proof. intros. split; [assumption|reflexivity]. Qed.

Lemma keeps_trans : forall id s1 s2 s3, keeps id s1 s2 -> keeps id s2 s3 -> keeps id s1 s3.
Proof. intros id s1 s2 s3 [_ H1] [H2 H3]. split; [assumption|congruence]. Qed.

Lemma in_remove_iow : forall id x l, In x (map i_id (remove_iow id l)) -> In x (map i_id l).
Proof.
  induction l as [|h t IH]; intros H; [exact H|]. cbn [remove_iow] in H.
  destruct (i_id h =? id); cbn [map In] in *; [right; exact H|]. destruct H as [H|H]; [left; exact H|right; auto].
Qed.
Lemma in_remove_sgw : forall id x l, In x (map g_id (remove_sgw id l)) -> In x (map g_id l).
Proof.
  induction l as [|h t IH]; intros H; [exact H|]. cbn [remove_sgw] in H.
  destruct (g_id h =? id); cbn [map In] in *; [right; exact H|]. destruct H as [H|H]; [left; exact H|right; auto].
Qed.
Lemma in_remove_ltr : forall id x l, In x (map l_id (remove_ltr id l)) -> In x (map l_id l).
Proof.
  induction l as [|h t IH]; intros H; [exact H|]. cbn [remove_ltr] in H.
  destruct (l_id h =? id); cbn [map In] in *; [right; exact H|]. destruct H as [H|H]; [left; exact H|right; auto].
Qed.

Lemma find_iow_in : forall id l w, find_iow id l = Some w -> i_id w = id /\ In id (map i_id l).
Proof.
  induction l as [|h t IH]; intros w H; [discriminate|]. cbn [find_iow] in H.
  destruct (i_id h =? id) eqn:E.
  - inversion H; subst. apply Z.eqb_eq in E. split; [exact E|left; exact E].
  - destruct (IH w H) as [H1 H2]. split; [exact H1|right; exact H2].
Qed.
Lemma find_sgw_in : forall id l w, find_sgw id l = Some w -> g_id w = id /\ In id (map g_id l).
Proof.
  induction l as [|h t IH]; intros w H; [discriminate|]. cbn [find_sgw] in H.
  destruct (g_id h =? id) eqn:E.
  - inversion H; subst. apply Z.eqb_eq in E. split; [exact E|left; exact E].
  - destruct (IH w H) as [H1 H2]. split; [exact H1|right; exact H2].
Qed.

Lemma fires_unbind : forall id s id' k x, fires id (slog (semit s id' k EV_UNBIND x)) = fires id (slog s).
Proof.
  intros. unfold fires, semit. cbn [slog up_slog filter is_fire e_id e_flags].
  unfold EV_UNBIND. change (Z.testbit 2 0) with false. rewrite andb_false_r. reflexivity.
Qed.

Lemma fires_other : forall id s id' k f x, id' <> id -> fires id (slog (semit s id' k f x)) = fires id (slog s).
Proof.
  intros id s id' k f x Hne. unfold fires, semit. cbn [slog up_slog filter is_fire e_id e_flags].
  destruct (id' =? id) eqn:E; [apply Z.eqb_eq in E; contradiction|reflexivity].
Qed.

Section Gone.
Variable c : cfg.
Variable env : Z -> list saction.

Lemma live_ids_evloop_io : forall s fd cond wid, live_ids (fst (evloop_io c s fd cond wid)) = live_ids s
  /\ snext (fst (evloop_io c s fd cond wid)) = snext s /\ slog (fst (evloop_io c s fd cond wid)) = slog s.
Proof. intros. unfold evloop_io. destruct (find_free (slots s) 0); repeat split; reflexivity. Qed.

Lemma live_ids_cancel_io : forall s i, live_ids (evloop_cancel_io s i) = live_ids s
  /\ snext (evloop_cancel_io s i) = snext s /\ slog (evloop_cancel_io s i) = slog s.
Proof. intros. unfold evloop_cancel_io. destruct (nth_error (slots s) i); repeat split; reflexivity. Qed.

Lemma keeps_scancel : forall id s id', dead s id -> keeps id s (scancel s id').
Proof.
  intros id s id' [Hn Hlt]. unfold scancel.
  destruct (find_iow id' (iows s)) as [w|].
  { destruct (live_ids_cancel_io
                (if i_unbind w then semit (up_iows s (remove_iow id' (iows s))) id' KIo EV_UNBIND 0
                 else up_iows s (remove_iow id' (iows s))) (i_slot w)) as [Hl [Hs Hg]].
    split; [split|].
    - rewrite Hl. intros Hin. apply Hn. unfold live_ids in *.
      destruct (i_unbind w); cbn [iows sgws dlaters drun semit up_slog up_iows] in Hin;
        (apply in_app_or in Hin; apply in_or_app; destruct Hin as [Hin|Hin]; [left; eapply in_remove_iow; exact Hin|right; exact Hin]).
    - rewrite Hs. destruct (i_unbind w); exact Hlt.
    - rewrite Hg. destruct (i_unbind w); [rewrite fires_unbind; reflexivity|reflexivity]. }
  destruct (find_sgw id' (sgws s)) as [w|].
  { destruct (memz (g_sig w) (kpend s)); [apply keeps_refl; split; assumption|].
    set (s2 := match cursor (up_sgws s (remove_sgw id' (sgws s))) with
               | Some cu => if cu =? id' then up_cursor (up_sgws s (remove_sgw id' (sgws s))) (sgw_after id' (sgws s))
                            else up_sgws s (remove_sgw id' (sgws s))
               | None => up_sgws s (remove_sgw id' (sgws s)) end).
    assert (H2 : live_ids s2 = map i_id (iows s) ++ map g_id (remove_sgw id' (sgws s)) ++ map l_id (dlaters s) ++ map l_id (drun s)
                 /\ snext s2 = snext s /\ slog s2 = slog s).
    { unfold s2. destruct (cursor (up_sgws s (remove_sgw id' (sgws s)))) as [cu|]; [destruct (cu =? id')|]; repeat split; reflexivity. }
    destruct H2 as [Hl [Hs Hg]].
    assert (Hd : ~ In id (live_ids s2)).
    { rewrite Hl. intros Hin. apply Hn. unfold live_ids.
      apply in_app_or in Hin. apply in_or_app. destruct Hin as [Hin|Hin]; [left; exact Hin|right].
      apply in_app_or in Hin. apply in_or_app. destruct Hin as [Hin|Hin]; [left; eapply in_remove_sgw; exact Hin|right; exact Hin]. }
    destruct (g_unbind w).
    - split; [split; [exact Hd|cbn [snext semit up_slog]; rewrite Hs; exact Hlt]|rewrite fires_unbind, Hg; reflexivity].
    - split; [split; [exact Hd|rewrite Hs; exact Hlt]|rewrite Hg; reflexivity]. }
  destruct (find_ltr id' (dlaters s)) as [w|].
  { assert (Hd : ~ In id (live_ids (up_dlaters s (remove_ltr id' (dlaters s))))).
    { intros Hin. apply Hn. unfold live_ids in *. cbn [iows sgws dlaters drun up_dlaters] in Hin.
      apply in_app_or in Hin. apply in_or_app. destruct Hin as [Hin|Hin]; [left; exact Hin|right].
      apply in_app_or in Hin. apply in_or_app. destruct Hin as [Hin|Hin]; [left; exact Hin|right].
      apply in_app_or in Hin. apply in_or_app. destruct Hin as [Hin|Hin]; [left; eapply in_remove_ltr; exact Hin|right; exact Hin]. }
    destruct (l_unbind w).
    - split; [split; [exact Hd|exact Hlt]|rewrite fires_unbind; reflexivity].
    - split; [split; [exact Hd|exact Hlt]|reflexivity]. }
  destruct (find_ltr id' (drun s)) as [w|].
  { assert (Hd : ~ In id (live_ids (up_drun s (remove_ltr id' (drun s))))).
    { intros Hin. apply Hn. unfold live_ids in *. cbn [iows sgws dlaters drun up_drun] in Hin.
      apply in_app_or in Hin. apply in_or_app. destruct Hin as [Hin|Hin]; [left; exact Hin|right].
      apply in_app_or in Hin. apply in_or_app. destruct Hin as [Hin|Hin]; [left; exact Hin|right].
      apply in_app_or in Hin. apply in_or_app. destruct Hin as [Hin|Hin]; [left; exact Hin|right; eapply in_remove_ltr; exact Hin]. }
    destruct (l_unbind w).
    - split; [split; [exact Hd|exact Hlt]|rewrite fires_unbind; reflexivity].
    - split; [split; [exact Hd|exact Hlt]|reflexivity]. }
  apply keeps_refl. split; assumption.
Qed.

Lemma keeps_sdo_action : forall id s a, dead s id -> keeps id s (sdo_action c s a).
Proof.
  intros id s a Hd. destruct Hd as [Hn Hlt] eqn:Ed. clear Ed.
  destruct a as [ub cb|fd cond ub cb|sig ub cb|id'|e|sig| |]; cbn [sdo_action].
  - (* later *)
    split; [split|reflexivity].
    + intros Hin. unfold live_ids in Hin. cbn [iows sgws dlaters drun up_snext up_dlaters] in Hin.
      rewrite map_app in Hin. cbn [map l_id] in Hin.
      apply in_app_or in Hin. destruct Hin as [Hin|Hin]; [apply Hn; unfold live_ids; apply in_or_app; left; exact Hin|].
      apply in_app_or in Hin. destruct Hin as [Hin|Hin];
        [apply Hn; unfold live_ids; apply in_or_app; right; apply in_or_app; left; exact Hin|].
      rewrite <- app_assoc in Hin. apply in_app_or in Hin. destruct Hin as [Hin|Hin].
      * apply Hn. unfold live_ids. apply in_or_app. right. apply in_or_app. right. apply in_or_app. left. exact Hin.
      * cbn [app] in Hin. destruct Hin as [Hin|Hin]; [lia|].
        apply Hn. unfold live_ids. apply in_or_app. right. apply in_or_app. right. apply in_or_app. right. exact Hin.
    + cbn [snext up_snext]. lia.
  - (* io *)
    destruct (live_ids_evloop_io s fd cond (snext s)) as [Hl [Hs Hg]].
    destruct (evloop_io c s fd cond (snext s)) as [s1 i]. cbn [fst] in *.
    split; [split|].
    + intros Hin. unfold live_ids in Hin. cbn [iows sgws dlaters drun up_snext up_iows] in Hin.
      rewrite map_app in Hin. cbn [map i_id] in Hin. rewrite <- app_assoc in Hin.
      apply in_app_or in Hin. destruct Hin as [Hin|Hin].
      * apply Hn. rewrite <- Hl. unfold live_ids. apply in_or_app. left. exact Hin.
      * cbn [app] in Hin. destruct Hin as [Hin|Hin]; [lia|].
        apply Hn. rewrite <- Hl. unfold live_ids. apply in_or_app. right. exact Hin.
    + cbn [snext up_snext]. lia.
    + cbn [slog up_snext up_iows]. rewrite Hg. reflexivity.
  - (* signal *)
    split; [split|reflexivity].
    + intros Hin. unfold live_ids in Hin. cbn [iows sgws dlaters drun up_snext up_sgws] in Hin.
      rewrite map_app in Hin. cbn [map g_id] in Hin.
      apply in_app_or in Hin. destruct Hin as [Hin|Hin]; [apply Hn; unfold live_ids; apply in_or_app; left; exact Hin|].
      rewrite <- app_assoc in Hin. apply in_app_or in Hin. destruct Hin as [Hin|Hin].
      * apply Hn. unfold live_ids. apply in_or_app. right. apply in_or_app. left. exact Hin.
      * cbn [app] in Hin. destruct Hin as [Hin|Hin]; [lia|].
        apply Hn. unfold live_ids. apply in_or_app. right. apply in_or_app. right. exact Hin.
    + cbn [snext up_snext]. lia.
  - apply keeps_scancel. split; assumption.
  - split; [split; [exact Hn|exact Hlt]|reflexivity].
  - destruct (is_watched s sig); (split; [split; [exact Hn|exact Hlt]|reflexivity]).
  - apply keeps_refl. split; assumption.
  - split; [split; [exact Hn|exact Hlt]|reflexivity].
Qed.

Lemma keeps_sdo_actions : forall id l s, dead s id -> keeps id s (sdo_actions c s l).
Proof.
  induction l as [|a l IH]; intros s Hd; [apply keeps_refl; assumption|].
  unfold sdo_actions in *. cbn [fold_left].
  pose proof (keeps_sdo_action id s a Hd) as H1.
  eapply keeps_trans; [exact H1|]. apply IH. exact (proj1 H1).
Qed.

Lemma keeps_drun_loop : forall id n s, dead s id -> keeps id s (drun_loop c env n s).
Proof.
  induction n as [|n IH]; intros s Hd; [apply keeps_refl; assumption|].
  cbn [drun_loop]. destruct (drun s) as [|w r] eqn:Er; [apply keeps_refl; assumption|].
  destruct Hd as [Hn Hlt].
  assert (Hw : l_id w <> id).
  { intros E. apply Hn. unfold live_ids. rewrite Er. cbn [map]. rewrite <- E.
    apply in_or_app. right. apply in_or_app. right. apply in_or_app. right. left. reflexivity. }
  set (s1 := semit (up_drun s r) (l_id w) KLater (EV_FIRE + EV_UNBIND) 0).
  assert (H1 : keeps id s s1).
  { split; [split|].
    - intros Hin. apply Hn. unfold live_ids in *. rewrite Er. cbn [iows sgws dlaters drun s1 semit up_slog up_drun map] in *.
      apply in_app_or in Hin. apply in_or_app. destruct Hin as [Hin|Hin]; [left; exact Hin|right].
      apply in_app_or in Hin. apply in_or_app. destruct Hin as [Hin|Hin]; [left; exact Hin|right].
      apply in_app_or in Hin. apply in_or_app. destruct Hin as [Hin|Hin]; [left; exact Hin|right; right; exact Hin].
    - exact Hlt.
    - unfold s1. rewrite fires_other by exact Hw. reflexivity. }
  eapply keeps_trans; [exact H1|].
  pose proof (keeps_sdo_actions id (env (l_cb w)) s1 (proj1 H1)) as H2.
  eapply keeps_trans; [exact H2|]. apply IH. exact (proj1 H2).
Qed.

Lemma keeps_invoke_laters : forall id s, dead s id -> keeps id s (invoke_laters c env s).
Proof.
  intros id s [Hn Hlt]. unfold invoke_laters.
  set (s1 := up_dlaters (up_drun s (drun s ++ dlaters s)) []).
  assert (H1 : keeps id s s1).
  { split; [split|reflexivity]; [|exact Hlt].
    intros Hin. apply Hn. unfold live_ids in *. cbn [iows sgws dlaters drun s1 up_dlaters up_drun map] in Hin.
    rewrite map_app in Hin.
    apply in_app_or in Hin. apply in_or_app. destruct Hin as [Hin|Hin]; [left; exact Hin|right].
    apply in_app_or in Hin. apply in_or_app. destruct Hin as [Hin|Hin]; [left; exact Hin|right].
    cbn [app] in Hin. apply in_app_or in Hin. apply in_or_app. destruct Hin as [Hin|Hin]; [right; exact Hin|left; exact Hin]. }
  eapply keeps_trans; [exact H1|]. apply keeps_drun_loop. exact (proj1 H1).
Qed.

Lemma keeps_io_dispatch : forall id fuel idx s s', dead s id -> io_dispatch c env fuel idx s = Some s' -> keeps id s s'.
Proof.
  induction fuel as [|f IH]; intros idx s s' Hd H; [discriminate|].
  cbn [io_dispatch] in H. destruct (nth_error (slots s) idx) as [sl|]; [|inversion H; subst; apply keeps_refl; assumption].
  destruct (p_fd sl =? -1); [eapply IH; eassumption|].
  destruct (p_revents sl =? 0); [eapply IH; eassumption|].
  destruct (find_iow (p_watch sl) (iows s)) as [w|] eqn:Ef; [|discriminate].
  destruct (find_iow_in _ _ _ Ef) as [Hid Hin].
  assert (Hw : i_id w <> id).
  { intros E. destruct Hd as [Hn _]. apply Hn. unfold live_ids. apply in_or_app. left. rewrite <- E, Hid. exact Hin. }
  set (s1 := semit s (i_id w) KIo EV_FIRE (cond_of_revents (p_revents sl))) in H.
  assert (H1 : keeps id s s1).
  { destruct Hd as [Hn Hlt]. split; [split; [exact Hn|exact Hlt]|]. unfold s1. apply fires_other. exact Hw. }
  pose proof (keeps_sdo_actions id (env (i_cb w)) s1 (proj1 H1)) as H2.
  eapply keeps_trans; [exact H1|]. eapply keeps_trans; [exact H2|]. eapply IH; [exact (proj1 H2)|exact H].
Qed.

Lemma keeps_sig_walk : forall id fuel bound this sig s s', dead s id -> sig_walk c env fuel bound this sig s = Some s' -> keeps id s s'.
Proof.
  induction fuel as [|f IH]; intros bound this sig s s' Hd H; [discriminate|].
  cbn [sig_walk] in H. destruct this as [id0|]; [|inversion H; subst; apply keeps_refl; assumption].
  destruct (find_sgw id0 (sgws s)) as [w|] eqn:Ef; [|discriminate].
  destruct (find_sgw_in _ _ _ Ef) as [Hid Hin].
  assert (Hw : id0 <> id).
  { intros E. destruct Hd as [Hn _]. apply Hn. unfold live_ids. apply in_or_app. right. apply in_or_app. left. rewrite <- E. exact Hin. }
  set (s1 := up_cursor s (sgw_after id0 (sgws s))) in H.
  assert (H1 : keeps id s s1) by (destruct Hd as [Hn Hlt]; split; [split; [exact Hn|exact Hlt]|reflexivity]).
  destruct ((g_sig w =? sig) && (g_id w <? bound)).
  - set (s2 := sig_fire s1 w sig) in H.
    assert (H2 : keeps id s1 s2).
    { destruct (proj1 H1) as [Hn Hlt]. unfold s2, sig_fire. destruct (g_id w <? 0); [apply keeps_refl; split; assumption|].
      split; [split; [exact Hn|exact Hlt]|]. rewrite Hid. apply fires_other. exact Hw. }
    pose proof (keeps_sdo_actions id (cb_acts env w) s2 (proj1 H2)) as H3.
    eapply keeps_trans; [exact H1|]. eapply keeps_trans; [exact H2|]. eapply keeps_trans; [exact H3|].
    eapply IH; [exact (proj1 H3)|exact H].
  - eapply keeps_trans; [exact H1|]. eapply IH; [exact (proj1 H1)|exact H].
Qed.

Lemma keeps_dispatch_sigs : forall id fuel sigs s s', dead s id -> dispatch_sigs c env fuel sigs s = Some s' -> keeps id s s'.
Proof.
  induction sigs as [|sg r IH]; intros s s' Hd H; [inversion H; subst; apply keeps_refl; assumption|].
  cbn [dispatch_sigs] in H. destruct (is_watched s sg); [|eapply IH; eassumption].
  destruct (sig_walk c env fuel (snext s) (match sgws s with [] => None | h :: _ => Some (g_id h) end) sg s) as [s1|] eqn:Ew; [|discriminate].
  pose proof (keeps_sig_walk id _ _ _ _ _ _ Hd Ew) as H1.
  eapply keeps_trans; [exact H1|]. eapply IH; [exact (proj1 H1)|exact H].
Qed.

Lemma keeps_ppoll : forall id s ret s1, dead s id -> ppoll s = (ret, s1) -> keeps id s s1.
Proof.
  intros id s ret s1 [Hn Hlt] H. unfold ppoll in H.
  destruct (0 <? Z.of_nat (length (filter (fun x => negb (p_revents x =? 0)) (map (poll_slot (ready s)) (slots s))))).
  - inversion H; subst. split; [split; [exact Hn|exact Hlt]|reflexivity].
  - destruct (kpend s ++ filter (is_watched s) (inwait s)); inversion H; subst;
      (split; [split; [exact Hn|exact Hlt]|reflexivity]).
Qed.

Lemma keeps_iteration : forall id fuel sleep s s', dead s id -> iteration c env fuel sleep s = Some s' -> keeps id s s'.
Proof.
  intros id fuel sleep s s' Hd H. unfold iteration in H.
  set (s1 := up_slog (up_siter s (siter s + 1)) _) in H.
  assert (H1 : keeps id s s1) by (destruct Hd as [Hn Hlt]; split; [split; [exact Hn|exact Hlt]|reflexivity]).
  destruct (ppoll s1) as [ret s2] eqn:Epp.
  pose proof (keeps_ppoll id _ _ _ (proj1 H1) Epp) as H2.
  pose proof (keeps_invoke_laters id s2 (proj1 H2)) as H3.
  eapply keeps_trans; [exact H1|]. eapply keeps_trans; [exact H2|]. eapply keeps_trans; [exact H3|].
  destruct (stop_early c && negb (running (invoke_laters c env s2))); [inversion H; subst; apply keeps_refl; exact (proj1 H3)|].
  destruct (0 <? ret).
  - eapply keeps_io_dispatch; [exact (proj1 H3)|exact H].
  - destruct ((ret <? 0) && ((if errno_late c then errno (invoke_laters c env s2) else errno s2) =? EINTR)).
    + unfold dispatch_signals in H.
      assert (H4 : keeps id (invoke_laters c env s2) (up_pending (invoke_laters c env s2) [])).
      { destruct (proj1 H3) as [Hn Hlt]. split; [split; [exact Hn|exact Hlt]|reflexivity]. }
      eapply keeps_trans; [exact H4|]. eapply keeps_dispatch_sigs; [exact (proj1 H4)|exact H].
    + inversion H; subst. apply keeps_refl. exact (proj1 H3).
Qed.

Lemma keeps_running : forall id s v, dead s id -> keeps id s (up_running s v).
Proof. intros id s v [Hn Hlt]. split; [split; [exact Hn|exact Hlt]|reflexivity]. Qed.

Lemma keeps_stick : forall id fuel sleep s s', dead s id -> stick c env fuel sleep s = Some s' -> keeps id s s'.
Proof.
  intros id fuel sleep s s' Hd H. unfold stick in H. pose proof (keeps_running id s true Hd) as H0.
  eapply keeps_trans; [exact H0|]. eapply keeps_iteration; [exact (proj1 H0)|exact H].
Qed.

Lemma keeps_run_passes : forall id fuel k s s', dead s id -> run_passes c env fuel k s = Some s' -> keeps id s s'.
Proof.
  induction k as [|k IH]; intros s s' Hd H; cbn [run_passes] in H; [inversion H; subst; apply keeps_refl; exact Hd|].
  destruct (negb (running s)); [inversion H; subst; apply keeps_refl; exact Hd|].
  destruct (iteration c env fuel true (if Nat.eqb k 0 then up_running s false else s)) as [s2|] eqn:E; [|discriminate].
  assert (H0 : keeps id s (if Nat.eqb k 0 then up_running s false else s))
    by (destruct (Nat.eqb k 0); [apply keeps_running; exact Hd|apply keeps_refl; exact Hd]).
  pose proof (keeps_iteration id fuel true _ _ (proj1 H0) E) as H1.
  eapply keeps_trans; [exact H0|]. eapply keeps_trans; [exact H1|]. eapply IH; [exact (proj1 H1)|exact H].
Qed.

(* C18_cancelled_not_invoked: once a watch is gone -- cancelled by anyone, or a deferred
   callback that has had its turn -- no later step of any iteration invokes it *)
Lemma keeps_sgws_sub : forall id s v, dead s id -> 0 <= id ->
  (forall x, In x (map g_id v) -> In x (map g_id (sgws s)) \/ x = INT_ID) -> keeps id s (up_sgws s v).
Proof.
  intros id s v [Hn Hlt] Hid Hsub. split; [split; [|exact Hlt]|reflexivity].
  unfold live_ids in *. cbn [iows sgws dlaters drun up_sgws]. intros Hin. apply Hn.
  apply in_app_or in Hin. apply in_or_app. destruct Hin as [Hin|Hin]; [left; exact Hin|right].
  apply in_app_or in Hin. apply in_or_app. destruct Hin as [Hin|Hin]; [left|right; exact Hin].
  destruct (Hsub id Hin) as [A|A]; [exact A|unfold INT_ID in A; lia].
Qed.

Lemma gone_never_invoked : forall id fuel ops s s', 0 <= id -> dead s id ->
  fold_left (sdo_op c env fuel) ops (Some s) = Some s' -> keeps id s s'.
Proof.
  intros id fuel ops s s' Hid. revert s s'.
  induction ops as [|o r IH]; intros s s' Hd H.
  - inversion H; subst. apply keeps_refl. assumption.
  - cbn [fold_left] in H.
    destruct (sdo_op c env fuel (Some s) o) as [s1|] eqn:E; [|rewrite fold_sdo_op_none in H; discriminate].
    assert (H1 : keeps id s s1).
    { destruct o as [a|sl|fd rv|sg|rk]; cbn [sdo_op] in E.
      - inversion E; subst. apply keeps_sdo_action. assumption.
      - eapply keeps_stick; eassumption.
      - inversion E; subst. destruct Hd as [Hn Hlt]. split; [split; [exact Hn|exact Hlt]|reflexivity].
      - inversion E; subst. destruct Hd as [Hn Hlt]. split; [split; [exact Hn|exact Hlt]|reflexivity].
      - pose proof (keeps_running id s true Hd) as H0.
        destruct (run_passes c env fuel rk _) as [s2|] eqn:Er; [|discriminate]. inversion E; subst s1.
        assert (Ha : keeps id (up_running s true) (up_sgws (up_running s true) (remove_sgw INT_ID (sgws s) ++ [int_watch]))).
        { apply keeps_sgws_sub; [exact (proj1 H0)|exact Hid|]. intros x Hx. rewrite map_app in Hx. apply in_app_or in Hx.
          destruct Hx as [Hx|[Hx|[]]]; [left; eapply in_remove_sgw; exact Hx|right; symmetry; exact Hx]. }
        pose proof (keeps_run_passes id fuel rk _ _ (proj1 Ha) Er) as Hb.
        eapply keeps_trans; [exact H0|]. eapply keeps_trans; [exact Ha|]. eapply keeps_trans; [exact Hb|].
        apply keeps_sgws_sub; [exact (proj1 Hb)|exact Hid|]. intros x Hx. left. eapply in_remove_sgw. exact Hx. }
    eapply keeps_trans; [exact H1|]. eapply IH; [exact (proj1 H1)|exact H].
Qed.

End Gone.

(* cancelling a live IO or signal watch (whose numbers are unique) makes it gone *)
Lemma remove_iow_notin : forall id l, NoDup (map i_id l) -> ~ In id (map i_id (remove_iow id l)).
Proof.
  induction l as [|h t IH]; intros Hnd Hin; [exact Hin|].
  cbn [remove_iow] in Hin. cbn [map] in Hnd. inversion Hnd as [|? ? Hh Ht]; subst.
  destruct (i_id h =? id) eqn:E.
  - apply Z.eqb_eq in E. subst id. contradiction.
  - cbn [map In] in Hin. destruct Hin as [Hin|Hin]; [apply Z.eqb_neq in E; contradiction|]. exact (IH Ht Hin).
Qed.
Lemma remove_sgw_notin : forall id l, NoDup (map g_id l) -> ~ In id (map g_id (remove_sgw id l)).
Proof.
  induction l as [|h t IH]; intros Hnd Hin; [exact Hin|].
  cbn [remove_sgw] in Hin. cbn [map] in Hnd. inversion Hnd as [|? ? Hh Ht]; subst.
  destruct (g_id h =? id) eqn:E.
  - apply Z.eqb_eq in E. subst id. contradiction.
  - cbn [map In] in Hin. destruct Hin as [Hin|Hin]; [apply Z.eqb_neq in E; contradiction|]. exact (IH Ht Hin).
Qed.

Lemma nodup_app_disjoint : forall (a b : list Z) x, NoDup (a ++ b) -> In x a -> ~ In x b.
Proof.
  induction a as [|h t IH]; intros b x Hnd Hin Hb; [exact Hin|].
  cbn [app] in Hnd. inversion Hnd as [|? ? Hh Ht]; subst.
  destruct Hin as [->|Hin].
  - apply Hh. apply in_or_app. right. exact Hb.
  - exact (IH b x Ht Hin Hb).
Qed.

Lemma NoDup_app_remove_l : forall (a b : list Z), NoDup (a ++ b) -> NoDup b.
Proof. induction a as [|h t IH]; intros b H; [exact H|]. cbn [app] in H. inversion H; subst. auto. Qed.
Lemma NoDup_app_remove_r : forall (a b : list Z), NoDup (a ++ b) -> NoDup a.
Proof.
  induction a as [|h t IH]; intros b H; [constructor|]. cbn [app] in H. inversion H as [|? ? Hh Ht]; subst.
  constructor; [intros Hin; apply Hh; apply in_or_app; left; exact Hin|eauto].
Qed.

(* cancelling a live IO watch makes it gone (so, by gone_never_invoked, it is not invoked
   afterwards, in this iteration or any other) *)
Lemma scancel_io_dead : forall s id w, find_iow id (iows s) = Some w -> NoDup (live_ids s) -> id < snext s ->
  dead (scancel s id) id.
Proof.
  intros s id w Hf Hnd Hlt. unfold scancel. rewrite Hf.
  destruct (find_iow_in _ _ _ Hf) as [_ Hin].
  set (s1 := if i_unbind w then semit (up_iows s (remove_iow id (iows s))) id KIo EV_UNBIND 0
             else up_iows s (remove_iow id (iows s))).
  destruct (live_ids_cancel_io s1 (i_slot w)) as [Hl [Hs _]].
  split.
  - rewrite Hl. unfold live_ids in *.
    assert (E : live_ids s1 = map i_id (remove_iow id (iows s)) ++ map g_id (sgws s) ++ map l_id (dlaters s) ++ map l_id (drun s))
      by (unfold s1; destruct (i_unbind w); reflexivity).
    unfold live_ids in E. rewrite E. intros H. apply in_app_or in H. destruct H as [H|H].
    + eapply remove_iow_notin; [|exact H]. eapply NoDup_app_remove_r. exact Hnd.
    + eapply nodup_app_disjoint; [exact Hnd|exact Hin|exact H].
  - rewrite Hs. unfold s1. destruct (i_unbind w); exact Hlt.
Qed.

Lemma scancel_sig_dead : forall s id w, find_iow id (iows s) = None -> find_sgw id (sgws s) = Some w ->
  memz (g_sig w) (kpend s) = false -> NoDup (live_ids s) -> id < snext s ->
  dead (scancel s id) id.
Proof.
  intros s id w Hio Hf Hk Hnd Hlt. unfold scancel. rewrite Hio, Hf, Hk.
  destruct (find_sgw_in _ _ _ Hf) as [_ Hin].
  set (s2 := match cursor (up_sgws s (remove_sgw id (sgws s))) with
             | Some cu => if cu =? id then up_cursor (up_sgws s (remove_sgw id (sgws s))) (sgw_after id (sgws s))
                          else up_sgws s (remove_sgw id (sgws s))
             | None => up_sgws s (remove_sgw id (sgws s)) end).
  assert (H2 : live_ids s2 = map i_id (iows s) ++ map g_id (remove_sgw id (sgws s)) ++ map l_id (dlaters s) ++ map l_id (drun s)
               /\ snext s2 = snext s).
  { unfold s2. destruct (cursor (up_sgws s (remove_sgw id (sgws s)))) as [cu|]; [destruct (cu =? id)|]; split; reflexivity. }
  destruct H2 as [Hl Hs].
  assert (Hd : dead s2 id).
  { split; [|rewrite Hs; exact Hlt]. rewrite Hl. unfold live_ids in Hnd. intros H.
    apply in_app_or in H. destruct H as [H|H].
    - (* id among the IO watches: impossible, the lists are disjoint *)
      eapply nodup_app_disjoint; [exact Hnd|exact H|]. apply in_or_app. left. exact Hin.
    - apply NoDup_app_remove_l in Hnd. apply in_app_or in H. destruct H as [H|H].
      + eapply remove_sgw_notin; [|exact H]. eapply NoDup_app_remove_r. exact Hnd.
      + eapply nodup_app_disjoint; [exact Hnd|exact Hin|exact H]. }
  destruct (g_unbind w); [|exact Hd]. destruct Hd as [Hn Hl2]. split; [exact Hn|exact Hl2].
Qed.

(* ------------------------------------------------------------------ every watcher of a delivered signal is invoked *)

(* a signal callback that neither cancels nor registers signal watches (it may set errno,
   raise signals, register deferred callbacks and IO watches) *)
Definition sig_quiet (a : saction) : bool :=
  match a with SSig _ _ _ => false | SCancel _ => false | _ => true end.

Definition sig_event (s : sst) (w : sgw) : obs := OEv (mkE (g_id w) KSig EV_FIRE (siter s) 0 (g_sig w)).

Lemma snext_scancel : forall s id, snext (scancel s id) = snext s.
Proof.
  intros s id. unfold scancel, evloop_cancel_io.
  destruct (find_iow id (iows s)) as [w|].
  - destruct (i_unbind w); cbn [slots semit up_slog up_iows];
      destruct (nth_error (slots s) (i_slot w)); reflexivity.
  - destruct (find_sgw id (sgws s)) as [w|].
    + destruct (memz (g_sig w) (kpend s)); [reflexivity|]. cbn [cursor up_sgws].
      destruct (cursor s) as [cu|]; [destruct (cu =? id)|]; destruct (g_unbind w); reflexivity.
    + destruct (find_ltr id (dlaters s)) as [w|]; [destruct (l_unbind w); reflexivity|].
      destruct (find_ltr id (drun s)) as [w|]; [destruct (l_unbind w); reflexivity|reflexivity].
Qed.

Lemma snext_le_action : forall c s a, snext s <= snext (sdo_action c s a).
Proof.
  intros c s a. destruct a as [ub cb|fd cond ub cb|sig ub cb|id|e|sig| |]; cbn [sdo_action]; try (cbn; lia).
  - unfold evloop_io. destruct (find_free (slots s) 0); cbn; lia.
  - rewrite snext_scancel. lia.
  - destruct (is_watched s sig); cbn; lia.
Qed.

Lemma snext_le_actions : forall c l s, snext s <= snext (sdo_actions c s l).
Proof.
  intros c l. induction l as [|a r IH]; intros s; [cbn; lia|]. cbn [sdo_actions fold_left].
  pose proof (snext_le_action c s a). specialize (IH (sdo_action c s a)). unfold sdo_actions in IH. lia.
Qed.

Section Delivery.
Variable c : cfg.
Variable env : Z -> list saction.

Lemma quiet_action : forall s a, sig_quiet a = true ->
  sgws (sdo_action c s a) = sgws s /\ cursor (sdo_action c s a) = cursor s /\
  slog (sdo_action c s a) = slog s /\ siter (sdo_action c s a) = siter s.
Proof.
  intros s a H. destruct a as [ub cb|fd cond ub cb|sig ub cb|id|e|sig| |]; try discriminate; cbn [sdo_action];
    try (repeat split; reflexivity).
  - unfold evloop_io. destruct (find_free (slots s) 0); repeat split; reflexivity.
  - destruct (is_watched s sig); repeat split; reflexivity.
Qed.

Lemma quiet_actions : forall l s, forallb sig_quiet l = true ->
  sgws (sdo_actions c s l) = sgws s /\ cursor (sdo_actions c s l) = cursor s /\
  slog (sdo_actions c s l) = slog s /\ siter (sdo_actions c s l) = siter s.
Proof.
  induction l as [|a l IH]; intros s H; [repeat split; reflexivity|].
  cbn [forallb] in H. apply andb_true_iff in H. destruct H as [Ha Hl].
  unfold sdo_actions in *. cbn [fold_left].
  destruct (quiet_action s a Ha) as [A1 [A2 [A3 A4]]].
  destruct (IH (sdo_action c s a) Hl) as [B1 [B2 [B3 B4]]].
  repeat split; congruence.
Qed.

Lemma find_sgw_mid : forall pre w post, ~ In (g_id w) (map g_id pre) -> find_sgw (g_id w) (pre ++ w :: post) = Some w.
Proof.
  induction pre as [|h t IH]; intros w post Hn; cbn [app find_sgw].
  - rewrite Z.eqb_refl. reflexivity.
  - destruct (g_id h =? g_id w) eqn:E.
    + apply Z.eqb_eq in E. exfalso. apply Hn. left. exact E.
    + apply IH. intros Hin. apply Hn. right. exact Hin.
Qed.

Lemma sgw_after_mid : forall pre w post, ~ In (g_id w) (map g_id pre) ->
  sgw_after (g_id w) (pre ++ w :: post) = match post with [] => None | n :: _ => Some (g_id n) end.
Proof.
  induction pre as [|h t IH]; intros w post Hn; cbn [app sgw_after].
  - rewrite Z.eqb_refl. reflexivity.
  - destruct (g_id h =? g_id w) eqn:E.
    + apply Z.eqb_eq in E. exfalso. apply Hn. left. exact E.
    + apply IH. intros Hin. apply Hn. right. exact Hin.
Qed.

Lemma nodup_mid : forall (pre : list sgw) w post, NoDup (map g_id (pre ++ w :: post)) ->
  ~ In (g_id w) (map g_id pre) /\ NoDup (map g_id ((pre ++ [w]) ++ post)).
Proof.
  intros pre w post H. split.
  - rewrite map_app in H. cbn [map] in H. apply NoDup_remove_2 in H. intros Hin. apply H. apply in_or_app. left. exact Hin.
  - rewrite <- app_assoc. exact H.
Qed.

(* the walk from the watch after [pre] to the end of the list invokes exactly the watchers of
   [sig] among the remaining ones, in list order, and changes nothing else that matters *)
Lemma sig_walk_all : forall post pre w fuel bound sig s,
  sgws s = pre ++ w :: post -> NoDup (map g_id (sgws s)) ->
  (forall v, In v (sgws s) -> 0 <= g_id v < bound) ->
  (forall v, In v (sgws s) -> forallb sig_quiet (env (g_cb v)) = true) ->
  (length post + 1 < fuel)%nat ->
  exists s', sig_walk c env fuel bound (Some (g_id w)) sig s = Some s' /\
             slog s' = rev (map (sig_event s) (filter (fun v => g_sig v =? sig) (w :: post))) ++ slog s /\
             sgws s' = sgws s /\ siter s' = siter s /\ snext s <= snext s'.
Proof.
  induction post as [|n post IH]; intros pre w fuel bound sig s Hl Hnd Hbd Hq Hf.
  - destruct fuel as [|[|f]]; try (cbn in Hf; lia). cbn [sig_walk].
    rewrite Hl in Hnd. destruct (nodup_mid pre w [] Hnd) as [Hn _].
    rewrite Hl, (find_sgw_mid pre w [] Hn), (sgw_after_mid pre w [] Hn). rewrite <- Hl.
    assert (Hqw : forallb sig_quiet (env (g_cb w)) = true) by (apply Hq; rewrite Hl; apply in_or_app; right; left; reflexivity).
    assert (Hbw0 : 0 <= g_id w < bound) by (apply Hbd; rewrite Hl; apply in_or_app; right; left; reflexivity).
    assert (Hbw : (g_id w <? bound) = true) by (apply Z.ltb_lt; lia).
    assert (Hnn : (g_id w <? 0) = false) by (apply Z.ltb_ge; lia).
    rewrite Hbw, andb_true_r. unfold sig_fire, cb_acts. rewrite Hnn.
    cbn [filter]. destruct (g_sig w =? sig) eqn:E.
    + destruct (quiet_actions (env (g_cb w)) (semit (up_cursor s None) (g_id w) KSig EV_FIRE sig) Hqw) as [A1 [A2 [A3 A4]]].
      rewrite A2. cbn [cursor semit up_slog up_cursor]. eexists. split; [reflexivity|].
      rewrite A3, A1, A4. apply Z.eqb_eq in E. subst sig.
      split; [reflexivity|split; [reflexivity|split; [reflexivity|]]].
      exact (snext_le_actions c (env (g_cb w)) (semit (up_cursor s None) (g_id w) KSig EV_FIRE (g_sig w))).
    + cbn [cursor up_cursor]. eexists. split; [reflexivity|]. repeat split; try reflexivity.
  - destruct fuel as [|f]; [cbn in Hf; lia|]. cbn [sig_walk].
    pose proof Hnd as Hnd0. rewrite Hl in Hnd. destruct (nodup_mid pre w (n :: post) Hnd) as [Hn Hnd2].
    rewrite Hl, (find_sgw_mid pre w (n :: post) Hn), (sgw_after_mid pre w (n :: post) Hn). rewrite <- Hl.
    assert (Hqw : forallb sig_quiet (env (g_cb w)) = true) by (apply Hq; rewrite Hl; apply in_or_app; right; left; reflexivity).
    assert (Hl2 : pre ++ w :: n :: post = (pre ++ [w]) ++ n :: post) by (rewrite <- app_assoc; reflexivity).
    assert (Hbw0 : 0 <= g_id w < bound) by (apply Hbd; rewrite Hl; apply in_or_app; right; left; reflexivity).
    assert (Hbw : (g_id w <? bound) = true) by (apply Z.ltb_lt; lia).
    assert (Hnn : (g_id w <? 0) = false) by (apply Z.ltb_ge; lia).
    rewrite Hbw, andb_true_r. unfold sig_fire, cb_acts. rewrite Hnn.
    cbn [filter]. destruct (g_sig w =? sig) eqn:E.
    + destruct (quiet_actions (env (g_cb w)) (semit (up_cursor s (Some (g_id n))) (g_id w) KSig EV_FIRE sig) Hqw) as [A1 [A2 [A3 A4]]].
      rewrite A2. cbn [cursor semit up_slog up_cursor].
      set (s2 := sdo_actions c (semit (up_cursor s (Some (g_id n))) (g_id w) KSig EV_FIRE sig) (env (g_cb w))) in *.
      assert (G2 : sgws s2 = sgws s) by exact A1.
      destruct (IH (pre ++ [w]) n f bound sig s2) as [s' [W [Lg [Sg [It Sn]]]]].
      * rewrite G2, Hl. exact Hl2.
      * rewrite G2. exact Hnd0.
      * rewrite G2. exact Hbd.
      * rewrite G2. exact Hq.
      * cbn [length] in Hf. lia.
      * exists s'. split; [exact W|]. split; [|split; [rewrite Sg; exact G2|split; [rewrite It, A4; reflexivity|]]].
        2:{ pose proof (snext_le_actions c (env (g_cb w)) (semit (up_cursor s (Some (g_id n))) (g_id w) KSig EV_FIRE sig)) as Hm.
            fold s2 in Hm. cbn [snext semit up_slog up_cursor] in Hm. lia. }
        rewrite Lg, A3. cbn [slog semit up_slog up_cursor map rev].
        apply Z.eqb_eq in E. subst sig.
        assert (Ev : map (sig_event s2) (filter (fun v => g_sig v =? g_sig w) (n :: post)) =
                     map (sig_event s) (filter (fun v => g_sig v =? g_sig w) (n :: post))).
        { apply map_ext. intros v. unfold sig_event. rewrite A4. reflexivity. }
        rewrite Ev. unfold sig_event at 3. rewrite <- app_assoc. reflexivity.
    + cbn [cursor up_cursor].
      destruct (IH (pre ++ [w]) n f bound sig (up_cursor s (Some (g_id n)))) as [s' [W [Lg [Sg [It Sn]]]]].
      * cbn [sgws up_cursor]. rewrite Hl. exact Hl2.
      * exact Hnd0.
      * exact Hbd.
      * exact Hq.
      * cbn [length] in Hf. lia.
      * exists s'. split; [exact W|]. split; [exact Lg|split; [exact Sg|split; [exact It|exact Sn]]].
Qed.

End Delivery.

Section Delivery2.
Variable c : cfg.
Variable env : Z -> list saction.

Lemma not_watched_filter : forall l sig, existsb (fun w => g_sig w =? sig) l = false ->
  filter (fun v => g_sig v =? sig) l = [].
Proof.
  induction l as [|h t IH]; intros sig H; [reflexivity|]. cbn [existsb filter] in *.
  apply orb_false_iff in H. destruct H as [H1 H2]. rewrite H1. apply IH. exact H2.
Qed.

Definition invoked (s : sst) (sigs : list Z) : list obs :=
  flat_map (fun sig => map (sig_event s) (filter (fun v => g_sig v =? sig) (sgws s))) sigs.

Lemma dispatch_sigs_all : forall sigs fuel s,
  NoDup (map g_id (sgws s)) ->
  (forall v, In v (sgws s) -> 0 <= g_id v < snext s) ->
  (forall v, In v (sgws s) -> forallb sig_quiet (env (g_cb v)) = true) ->
  (length (sgws s) + 1 < fuel)%nat ->
  exists s', dispatch_sigs c env fuel sigs s = Some s' /\
             slog s' = rev (invoked s sigs) ++ slog s /\ sgws s' = sgws s /\ siter s' = siter s.
Proof.
  induction sigs as [|sg r IH]; intros fuel s Hnd Hbd Hq Hf.
  - exists s. repeat split; reflexivity.
  - cbn [dispatch_sigs]. unfold is_watched. destruct (existsb (fun w => g_sig w =? sg) (sgws s)) eqn:Ew.
    + destruct (sgws s) as [|h t] eqn:El; [discriminate|].
      destruct (sig_walk_all c env t [] h fuel (snext s) sg s) as [s1 [W [Lg [Sg [It Sn]]]]].
      * rewrite El. reflexivity.
      * rewrite El. exact Hnd.
      * rewrite El. exact Hbd.
      * rewrite El. exact Hq.
      * cbn [length] in Hf. lia.
      * rewrite W.
        destruct (IH fuel s1) as [s' [D [Lg2 [Sg2 It2]]]].
        -- rewrite Sg, El. exact Hnd.
        -- rewrite Sg, El. intros v Hv. specialize (Hbd v Hv). lia.
        -- rewrite Sg, El. exact Hq.
        -- rewrite Sg, El. exact Hf.
        -- exists s'. split; [exact D|]. split; [|split; [congruence|congruence]].
           rewrite Lg2, Lg. unfold invoked. cbn [flat_map]. rewrite rev_app_distr, <- app_assoc.
           rewrite Sg, El.
           assert (Ev : forall sigs0, flat_map (fun sig => map (sig_event s1) (filter (fun v => g_sig v =? sig) (h :: t))) sigs0 =
                                      flat_map (fun sig => map (sig_event s) (filter (fun v => g_sig v =? sig) (h :: t))) sigs0).
           { intros sigs0. apply flat_map_ext. intros a. apply map_ext. intros v. unfold sig_event. rewrite It. reflexivity. }
           rewrite Ev. reflexivity.
    + destruct (IH fuel s Hnd Hbd Hq Hf) as [s' [D [Lg [Sg It]]]].
      exists s'. split; [exact D|]. split; [|split; assumption].
      rewrite Lg. unfold invoked. cbn [flat_map]. rewrite (not_watched_filter _ _ Ew). reflexivity.
Qed.

(* C18_all_watchers_invoked: when the loop dispatches, every callback watching a recorded signal
   is invoked exactly once, signals in ascending order, watchers in registration (list) order --
   for callbacks that do not themselves cancel or register signal watches *)
Theorem dispatch_invokes_all : forall fuel s,
  NoDup (map g_id (sgws s)) ->
  (forall v, In v (sgws s) -> 0 <= g_id v < snext s) ->
  (forall v, In v (sgws s) -> forallb sig_quiet (env (g_cb v)) = true) ->
  (length (sgws s) + 1 < fuel)%nat ->
  exists s', dispatch_signals c env fuel s = Some s' /\
             slog s' = rev (invoked s (sort_z (pending s))) ++ slog s /\ pending s' = [] /\ sgws s' = sgws s.
Proof.
  intros fuel s Hnd Hbd Hq Hf. unfold dispatch_signals.
  destruct (dispatch_sigs_all (sort_z (pending s)) fuel (up_pending s []) Hnd Hbd Hq Hf) as [s' [D [Lg [Sg It]]]].
  exists s'. split; [exact D|]. split; [exact Lg|]. split; [|exact Sg].
  apply pending_dispatch_sigs in D. exact D.
Qed.

End Delivery2.

(* the state handed to ppoll by one pass of the loop *)
Definition before_poll (sleep : bool) (s : sst) : sst :=
  let s0 := up_siter s (siter s + 1) in
  up_slog s0 (OPoll (if sleep then match dlaters s0 with [] => -1 | _ => 0 end else 0) :: slog s0).

(* an iteration whose ppoll was interrupted reaches dispatch_signals, after the deferred
   callbacks and whatever they did to errno, with everything the handler recorded *)
Lemma iteration_interrupted : forall env fuel sleep s s2,
  ppoll (before_poll sleep s) = (-1, s2) ->
  iteration fixed_cfg env fuel sleep s = dispatch_signals fixed_cfg env fuel (invoke_laters fixed_cfg env s2) /\
  pending (invoke_laters fixed_cfg env s2) = pending s2.
Proof.
  intros env fuel sleep s s2 H. split; [|apply pending_invoke_laters].
  unfold iteration. fold (before_poll sleep s). rewrite H. cbn [stop_early fixed_cfg andb].
  destruct (ppoll_cases _ _ _ H) as [[Hr _]|[_ He]]; [lia|].
  change (0 <? -1) with false. change (-1 <? 0) with true. cbn [andb errno_late fixed_cfg].
  rewrite He. reflexivity.
Qed.

(* tickit_tick is one such iteration; tickit_run a sequence of them *)
Lemma stick_interrupted : forall env fuel sleep s s2,
  ppoll (before_poll sleep (up_running s true)) = (-1, s2) ->
  stick fixed_cfg env fuel sleep s = dispatch_signals fixed_cfg env fuel (invoke_laters fixed_cfg env s2) /\
  pending (invoke_laters fixed_cfg env s2) = pending s2.
Proof. intros env fuel sleep s s2 H. unfold stick. apply iteration_interrupted. exact H. Qed.

(* the seeded loop that leaves as soon as a deferred callback has called tickit_stop: the signal
   that interrupted that very ppoll stays recorded, no later iteration dispatches it *)
Definition wstop_env (cb : Z) : list saction := if cb =? 1 then [SStop] else [].
Definition wstop_ops : list sop :=
  [SAct (SSig 10 false 2); SAct (SLater false 1); SArrive 10; STick false; STick false; STick false].

Lemma signal_reaches_refuted_stop_early :
  exists s', srun_ops stop_early_cfg wstop_env 100 wstop_ops = Some s' /\ pending s' = [10] /\
             forall e, In (OEv e) (slog s') -> e_kind e <> KSig.
Proof.
  eexists. split; [vm_compute; reflexivity|]. split; [reflexivity|].
  intros e H. cbn in H. repeat (destruct H as [H|H]; [inversion H; subst; discriminate|]). destruct H.
Qed.

Lemma stop_witness_fixed :
  srun fixed_cfg wstop_env 100 wstop_ops =
    Some [OPoll 0; OEv (mkE 1 KLater 3 1 0 0); OEv (mkE 0 KSig 1 1 0 10); OPoll 0; OPoll 0].
Proof. vm_compute. reflexivity. Qed.
