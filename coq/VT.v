(* VT.v -- SPECIFICATION of a VT-conformant screen (trusted; part of the specification of
   C09, C10 and C12).  Written after DEC STD 070 / the VT510 programmer's reference and
   xterm's ctlseqs for the control functions the xterm driver of libtickit can emit.

   The screen is a total function from (row, column) to cells; only positions inside
   [0,lines) x [0,cols) are meaningful.  Rows and columns are 0-based here; the control
   functions take 1-based parameters.

   Conventions fixed here (and named in the trusted base):
   * pending wrap ("last column flag"): printing into the last column (or the right
     margin) leaves the cursor there and sets the flag; the next graphic character first
     wraps.  Every cursor-movement function clears the flag and moves from the column
     the cursor is in (xterm without reverse-wrap, DEC STD 070).  ICH, DCH, IL, DL, DECIC,
     DECDC, DECSTBM, DECSLRM clear it; ED, EL, ECH leave it (only reachable from
     out-of-range requests).
   * erased and inserted cells hold a space with default attributes except the current
     SGR background ("background colour erase", as xterm does).
   * origin mode (DECOM) is never set by the driver: addressing is absolute.
   * DECSLRM is recognised only while DECLRMM (mode 69) is set; otherwise CSI s is
     save-cursor.  DECSTBM needs top < bottom, DECSLRM needs left < right; both home the
     cursor when accepted and are ignored otherwise.
   * mouse tracking 1000/1002/1003 is one register: setting one replaces the others,
     resetting any switches tracking off (xterm).
   * SGR: 38/48 accept ;5;n  ;2;r;g;b  :5:n  :2:r:g:b  :2:cs:r:g:b ; 4:n selects the
     underline style; a bare 4 followed by ;2 is underline + faint (the legacy reading);
     21 is doubly underlined (ECMA-48); 73/74/75 super/subscript/neither. *)
From Coq Require Import ZArith List Bool Lia.
From Tickit Require Import Csi.
Import ListNotations.
Local Open Scope Z_scope.

Inductive colour := CDefault | CIdx (n : Z) | CRgb (r g b : Z).

Record attrs := mkAttrs {
  a_fg : colour; a_bg : colour;
  a_bold : bool; a_faint : bool; a_under : Z; a_italic : bool; a_reverse : bool;
  a_strike : bool; a_font : Z; a_blink : bool; a_sizepos : Z   (* 0 normal, 1 super, 2 sub *)
}.
Definition default_attrs : attrs :=
  mkAttrs CDefault CDefault false false 0 false false false 0 false 0.

Record cell := mkCell { c_glyph : Z; c_attrs : attrs }.
Definition grid := Z -> Z -> cell.

Record cursor := mkCursor { cu_row : Z; cu_col : Z; cu_pend : bool }.
Record margins := mkMargins { mg_top : Z; mg_bot : Z; mg_left : Z; mg_right : Z }.  (* inclusive *)
Record modes := mkModes {
  md_alt : bool; md_curvis : bool; md_blink : bool; md_lrmm : bool;
  md_mouse : Z; md_sgrmouse : bool; md_keypad : bool; md_shape : Z; md_awm : bool
}.

Record vt := mkVt {
  v_lines : Z; v_cols : Z;
  v_grid : grid;
  v_cur : cursor;
  v_mg : margins;
  v_sgr : attrs;
  v_md : modes;
  v_savedcur : cursor;            (* DECSC / SCOSC / 1049 slot *)
  v_other : grid                  (* the screen buffer not displayed *)
}.

(* ---- setters *)
Definition set_grid (v : vt) (g : grid) : vt :=
  mkVt (v_lines v) (v_cols v) g (v_cur v) (v_mg v) (v_sgr v) (v_md v) (v_savedcur v) (v_other v).
Definition set_cur (v : vt) (c : cursor) : vt :=
  mkVt (v_lines v) (v_cols v) (v_grid v) c (v_mg v) (v_sgr v) (v_md v) (v_savedcur v) (v_other v).
Definition set_mg (v : vt) (m : margins) : vt :=
  mkVt (v_lines v) (v_cols v) (v_grid v) (v_cur v) m (v_sgr v) (v_md v) (v_savedcur v) (v_other v).
Definition set_sgr (v : vt) (a : attrs) : vt :=
  mkVt (v_lines v) (v_cols v) (v_grid v) (v_cur v) (v_mg v) a (v_md v) (v_savedcur v) (v_other v).
Definition set_md (v : vt) (m : modes) : vt :=
  mkVt (v_lines v) (v_cols v) (v_grid v) (v_cur v) (v_mg v) (v_sgr v) m (v_savedcur v) (v_other v).
Definition set_savedcur (v : vt) (c : cursor) : vt :=
  mkVt (v_lines v) (v_cols v) (v_grid v) (v_cur v) (v_mg v) (v_sgr v) (v_md v) c (v_other v).
Definition set_other (v : vt) (g : grid) : vt :=
  mkVt (v_lines v) (v_cols v) (v_grid v) (v_cur v) (v_mg v) (v_sgr v) (v_md v) (v_savedcur v) g.

Definition row (v : vt) := cu_row (v_cur v).
Definition col (v : vt) := cu_col (v_cur v).
Definition pend (v : vt) := cu_pend (v_cur v).
Definition goto_rc (v : vt) (r c : Z) : vt := set_cur v (mkCursor r c false).

Definition clamp (lo hi x : Z) : Z := Z.max lo (Z.min hi x).

(* ---- initial state *)
Definition erased (a : attrs) : attrs :=
  mkAttrs CDefault (a_bg a) false false 0 false false false 0 false 0.
Definition blank_cell (a : attrs) : cell := mkCell 32 (erased a).
Definition blank (v : vt) : cell := blank_cell (v_sgr v).
Definition full_margins (lines cols : Z) : margins := mkMargins 0 (lines - 1) 0 (cols - 1).
Definition default_modes : modes := mkModes false true false false 0 false false 0 true.

Definition vt_init (lines cols : Z) : vt :=
  mkVt lines cols (fun _ _ => blank_cell default_attrs) (mkCursor 0 0 false)
       (full_margins lines cols) default_attrs default_modes (mkCursor 0 0 false)
       (fun _ _ => blank_cell default_attrs).

(* ---- parameters *)
Definition pfirst (g : list (option Z)) : option Z := match g with o :: _ => o | [] => None end.
Definition pnth (ps : list (list (option Z))) (i : nat) : option Z := pfirst (nth i ps []).
(* default 1, and 0 means 1 (cursor movement, insert/delete counts) *)
Definition arg1 (ps : list (list (option Z))) (i : nat) : Z :=
  match pnth ps i with Some n => if n =? 0 then 1 else n | None => 1 end.
Definition arg0 (ps : list (list (option Z))) (i : nat) : Z :=
  match pnth ps i with Some n => n | None => 0 end.

(* ---- scrolling region helpers *)
Definition in_tb (v : vt) (y : Z) : bool := (mg_top (v_mg v) <=? y) && (y <=? mg_bot (v_mg v)).
Definition in_lr (v : vt) (x : Z) : bool := (mg_left (v_mg v) <=? x) && (x <=? mg_right (v_mg v)).

(* move the region rows [y0..bot] x [left..right] up by n, blanks at the bottom *)
Definition scroll_up_from (v : vt) (y0 n : Z) : grid :=
  let g := v_grid v in let m := v_mg v in
  fun y x => if (y0 <=? y) && (y <=? mg_bot m) && in_lr v x
             then (if y + n <=? mg_bot m then g (y + n) x else blank v)
             else g y x.
(* move the region rows [y0..bot] x [left..right] down by n, blanks at the top *)
Definition scroll_down_from (v : vt) (y0 n : Z) : grid :=
  let g := v_grid v in let m := v_mg v in
  fun y x => if (y0 <=? y) && (y <=? mg_bot m) && in_lr v x
             then (if y <? y0 + n then blank v else g (y - n) x)
             else g y x.

(* IND: down one line, scrolling the region when on its bottom line *)
Definition vt_index (v : vt) : vt :=
  let r := row v in
  if r =? mg_bot (v_mg v) then
    (if in_lr v (col v) then set_grid v (scroll_up_from v (mg_top (v_mg v)) 1) else v)
  else if r <? v_lines v - 1 then set_cur v (mkCursor (r + 1) (col v) (pend v))
  else v.
Definition vt_cr (v : vt) : vt :=
  let c := col v in
  set_cur v (mkCursor (row v) (if mg_left (v_mg v) <=? c then mg_left (v_mg v) else 0) false).

(* ---- printing one graphic character of width 1 *)
Definition vt_putc (b : Z) (v : vt) : vt :=
  let v1 := if pend v && md_awm (v_md v) then vt_index (vt_cr v)
            else set_cur v (mkCursor (row v) (col v) false) in
  let r := row v1 in let c := col v1 in
  let g := v_grid v1 in
  let cellv := mkCell b (v_sgr v1) in
  let v2 := set_grid v1 (fun y x => if (y =? r) && (x =? c) then cellv else g y x) in
  let rlimit := if c <=? mg_right (v_mg v1) then mg_right (v_mg v1) else v_cols v1 - 1 in
  if c <? rlimit then set_cur v2 (mkCursor r (c + 1) false)
  else set_cur v2 (mkCursor r c (md_awm (v_md v1))).

(* ---- cursor movement *)
Definition vt_cup (v : vt) (pr pc : Z) : vt :=
  goto_rc v (clamp 0 (v_lines v - 1) (pr - 1)) (clamp 0 (v_cols v - 1) (pc - 1)).
Definition vt_vpa (v : vt) (pr : Z) : vt := goto_rc v (clamp 0 (v_lines v - 1) (pr - 1)) (col v).
Definition vt_cha (v : vt) (pc : Z) : vt := goto_rc v (row v) (clamp 0 (v_cols v - 1) (pc - 1)).
Definition vt_cuu (v : vt) (n : Z) : vt :=
  let r := row v in let t := mg_top (v_mg v) in
  goto_rc v (if t <=? r then Z.max t (r - n) else Z.max 0 (r - n)) (col v).
Definition vt_cud (v : vt) (n : Z) : vt :=
  let r := row v in let b := mg_bot (v_mg v) in
  goto_rc v (if r <=? b then Z.min b (r + n) else Z.min (v_lines v - 1) (r + n)) (col v).
Definition vt_cuf (v : vt) (n : Z) : vt :=
  let c := col v in let rm := mg_right (v_mg v) in
  goto_rc v (row v) (if c <=? rm then Z.min rm (c + n) else Z.min (v_cols v - 1) (c + n)).
Definition vt_cub (v : vt) (n : Z) : vt :=
  let c := col v in let lm := mg_left (v_mg v) in
  goto_rc v (row v) (if lm <=? c then Z.max lm (c - n) else Z.max 0 (c - n)).

(* ---- erasing *)
Definition vt_ech (v : vt) (n : Z) : vt :=
  let g := v_grid v in let r := row v in let c := col v in
  set_grid v (fun y x => if (y =? r) && (c <=? x) && (x <? c + n) then blank v else g y x).
Definition vt_el (v : vt) (p : Z) : vt :=
  let g := v_grid v in let r := row v in let c := col v in
  set_grid v (fun y x =>
    if (y =? r) && (if p =? 0 then c <=? x else if p =? 1 then x <=? c else p =? 2)
    then blank v else g y x).
Definition vt_ed (v : vt) (p : Z) : vt :=
  let g := v_grid v in let r := row v in let c := col v in
  set_grid v (fun y x =>
    if (if p =? 0 then (r <? y) || ((y =? r) && (c <=? x))
        else if p =? 1 then (y <? r) || ((y =? r) && (x <=? c))
        else p =? 2)
    then blank v else g y x).

(* ---- insertion and deletion *)
Definition clear_pend (v : vt) : vt := set_cur v (mkCursor (row v) (col v) false).
Definition vt_ich (v : vt) (n : Z) : vt :=
  if in_lr v (col v) then
    let g := v_grid v in let r := row v in let c := col v in let rm := mg_right (v_mg v) in
    clear_pend (set_grid v (fun y x =>
      if (y =? r) && (c <=? x) && (x <=? rm) then (if x <? c + n then blank v else g y (x - n))
      else g y x))
  else v.
Definition vt_dch (v : vt) (n : Z) : vt :=
  if in_lr v (col v) then
    let g := v_grid v in let r := row v in let c := col v in let rm := mg_right (v_mg v) in
    clear_pend (set_grid v (fun y x =>
      if (y =? r) && (c <=? x) && (x <=? rm) then (if x + n <=? rm then g y (x + n) else blank v)
      else g y x))
  else v.
Definition vt_il (v : vt) (n : Z) : vt :=
  if in_tb v (row v) && in_lr v (col v)
  then clear_pend (set_grid v (scroll_down_from v (row v) n)) else v.
Definition vt_dl (v : vt) (n : Z) : vt :=
  if in_tb v (row v) && in_lr v (col v)
  then clear_pend (set_grid v (scroll_up_from v (row v) n)) else v.
Definition vt_decic (v : vt) (n : Z) : vt :=
  if in_tb v (row v) && in_lr v (col v) then
    let g := v_grid v in let c := col v in let rm := mg_right (v_mg v) in
    clear_pend (set_grid v (fun y x =>
      if in_tb v y && (c <=? x) && (x <=? rm) then (if x <? c + n then blank v else g y (x - n))
      else g y x))
  else v.
Definition vt_decdc (v : vt) (n : Z) : vt :=
  if in_tb v (row v) && in_lr v (col v) then
    let g := v_grid v in let c := col v in let rm := mg_right (v_mg v) in
    clear_pend (set_grid v (fun y x =>
      if in_tb v y && (c <=? x) && (x <=? rm) then (if x + n <=? rm then g y (x + n) else blank v)
      else g y x))
  else v.

(* ---- margins *)
Definition vt_decstbm (v : vt) (ps : list (list (option Z))) : vt :=
  let t := arg1 ps 0 in
  let b := match pnth ps 1 with Some n => if n =? 0 then v_lines v else n | None => v_lines v end in
  if (t <? b) && (b <=? v_lines v) then
    goto_rc (set_mg v (mkMargins (t - 1) (b - 1) (mg_left (v_mg v)) (mg_right (v_mg v)))) 0 0
  else v.
Definition vt_decslrm (v : vt) (ps : list (list (option Z))) : vt :=
  let l := arg1 ps 0 in
  let r := match pnth ps 1 with Some n => if n =? 0 then v_cols v else n | None => v_cols v end in
  if (l <? r) && (r <=? v_cols v) then
    goto_rc (set_mg v (mkMargins (mg_top (v_mg v)) (mg_bot (v_mg v)) (l - 1) (r - 1))) 0 0
  else v.

(* ---- SGR *)
Definition set_fg (a : attrs) (c : colour) : attrs :=
  mkAttrs c (a_bg a) (a_bold a) (a_faint a) (a_under a) (a_italic a) (a_reverse a) (a_strike a) (a_font a) (a_blink a) (a_sizepos a).
Definition set_bg (a : attrs) (c : colour) : attrs :=
  mkAttrs (a_fg a) c (a_bold a) (a_faint a) (a_under a) (a_italic a) (a_reverse a) (a_strike a) (a_font a) (a_blink a) (a_sizepos a).
Definition set_bold (a : attrs) (b : bool) : attrs :=
  mkAttrs (a_fg a) (a_bg a) b (a_faint a) (a_under a) (a_italic a) (a_reverse a) (a_strike a) (a_font a) (a_blink a) (a_sizepos a).
Definition set_faint (a : attrs) (b : bool) : attrs :=
  mkAttrs (a_fg a) (a_bg a) (a_bold a) b (a_under a) (a_italic a) (a_reverse a) (a_strike a) (a_font a) (a_blink a) (a_sizepos a).
Definition set_under (a : attrs) (u : Z) : attrs :=
  mkAttrs (a_fg a) (a_bg a) (a_bold a) (a_faint a) u (a_italic a) (a_reverse a) (a_strike a) (a_font a) (a_blink a) (a_sizepos a).
Definition set_italic (a : attrs) (b : bool) : attrs :=
  mkAttrs (a_fg a) (a_bg a) (a_bold a) (a_faint a) (a_under a) b (a_reverse a) (a_strike a) (a_font a) (a_blink a) (a_sizepos a).
Definition set_reverse (a : attrs) (b : bool) : attrs :=
  mkAttrs (a_fg a) (a_bg a) (a_bold a) (a_faint a) (a_under a) (a_italic a) b (a_strike a) (a_font a) (a_blink a) (a_sizepos a).
Definition set_strike (a : attrs) (b : bool) : attrs :=
  mkAttrs (a_fg a) (a_bg a) (a_bold a) (a_faint a) (a_under a) (a_italic a) (a_reverse a) b (a_font a) (a_blink a) (a_sizepos a).
Definition set_font (a : attrs) (f : Z) : attrs :=
  mkAttrs (a_fg a) (a_bg a) (a_bold a) (a_faint a) (a_under a) (a_italic a) (a_reverse a) (a_strike a) f (a_blink a) (a_sizepos a).
Definition set_blink (a : attrs) (b : bool) : attrs :=
  mkAttrs (a_fg a) (a_bg a) (a_bold a) (a_faint a) (a_under a) (a_italic a) (a_reverse a) (a_strike a) (a_font a) b (a_sizepos a).
Definition set_sizepos (a : attrs) (s : Z) : attrs :=
  mkAttrs (a_fg a) (a_bg a) (a_bold a) (a_faint a) (a_under a) (a_italic a) (a_reverse a) (a_strike a) (a_font a) (a_blink a) s.

(* a single parameter without sub-parameters, other than 38/48 *)
Definition sgr_simple (n : Z) (a : attrs) : attrs :=
  if n =? 0 then default_attrs
  else if n =? 1 then set_bold a true
  else if n =? 2 then set_faint a true
  else if n =? 3 then set_italic a true
  else if n =? 4 then set_under a 1
  else if n =? 5 then set_blink a true
  else if n =? 7 then set_reverse a true
  else if n =? 9 then set_strike a true
  else if (10 <=? n) && (n <=? 19) then set_font a (n - 10)
  else if n =? 21 then set_under a 2
  else if n =? 22 then set_faint (set_bold a false) false
  else if n =? 23 then set_italic a false
  else if n =? 24 then set_under a 0
  else if n =? 25 then set_blink a false
  else if n =? 27 then set_reverse a false
  else if n =? 29 then set_strike a false
  else if (30 <=? n) && (n <=? 37) then set_fg a (CIdx (n - 30))
  else if n =? 39 then set_fg a CDefault
  else if (40 <=? n) && (n <=? 47) then set_bg a (CIdx (n - 40))
  else if n =? 49 then set_bg a CDefault
  else if n =? 73 then set_sizepos a 1
  else if n =? 74 then set_sizepos a 2
  else if n =? 75 then set_sizepos a 0
  else if (90 <=? n) && (n <=? 97) then set_fg a (CIdx (n - 90 + 8))
  else if (100 <=? n) && (n <=? 107) then set_bg a (CIdx (n - 100 + 8))
  else a.

Definition set_colour (is_fg : bool) (a : attrs) (c : colour) : attrs :=
  if is_fg then set_fg a c else set_bg a c.

(* a group with sub-parameters (colon form) *)
Definition sgr_sub (g : list (option Z)) (a : attrs) : attrs :=
  match g with
  | [Some 4; Some k] => if (0 <=? k) && (k <=? 5) then set_under a k else a
  | [Some 4; None] => set_under a 1
  | [Some n; Some 5; Some i] =>
      if n =? 38 then set_fg a (CIdx i) else if n =? 48 then set_bg a (CIdx i) else a
  | [Some n; Some 2; Some r; Some g'; Some b] =>
      if n =? 38 then set_fg a (CRgb r g' b) else if n =? 48 then set_bg a (CRgb r g' b) else a
  | [Some n; Some 2; _; Some r; Some g'; Some b] =>
      if n =? 38 then set_fg a (CRgb r g' b) else if n =? 48 then set_bg a (CRgb r g' b) else a
  | _ => a
  end.

Fixpoint sgr_run (ps : list (list (option Z))) (a : attrs) : attrs :=
  match ps with
  | [] => a
  | g :: rest =>
      match g with
      | [] => sgr_run rest default_attrs
      | [o] =>
          let n := match o with Some n => n | None => 0 end in
          if (n =? 38) || (n =? 48) then
            (* legacy extended colour: consumes the following parameters *)
            match rest with
            | [Some 5] :: ([Some i] :: rest') => sgr_run rest' (set_colour (n =? 38) a (CIdx i))
            | [Some 2] :: ([Some r] :: ([Some g'] :: ([Some b] :: rest'))) =>
                sgr_run rest' (set_colour (n =? 38) a (CRgb r g' b))
            | _ => a      (* malformed: the rest of the sequence is dropped *)
            end
          else sgr_run rest (sgr_simple n a)
      | _ :: _ :: _ => sgr_run rest (sgr_sub g a)
      end
  end.
Definition vt_sgr (v : vt) (ps : list (list (option Z))) : vt :=
  set_sgr v (match ps with [] => default_attrs | _ => sgr_run ps (v_sgr v) end).

(* ---- modes *)
Definition md_set_alt (m : modes) (b : bool) := mkModes b (md_curvis m) (md_blink m) (md_lrmm m) (md_mouse m) (md_sgrmouse m) (md_keypad m) (md_shape m) (md_awm m).
Definition md_set_curvis (m : modes) (b : bool) := mkModes (md_alt m) b (md_blink m) (md_lrmm m) (md_mouse m) (md_sgrmouse m) (md_keypad m) (md_shape m) (md_awm m).
Definition md_set_blink (m : modes) (b : bool) := mkModes (md_alt m) (md_curvis m) b (md_lrmm m) (md_mouse m) (md_sgrmouse m) (md_keypad m) (md_shape m) (md_awm m).
Definition md_set_lrmm (m : modes) (b : bool) := mkModes (md_alt m) (md_curvis m) (md_blink m) b (md_mouse m) (md_sgrmouse m) (md_keypad m) (md_shape m) (md_awm m).
Definition md_set_mouse (m : modes) (z : Z) := mkModes (md_alt m) (md_curvis m) (md_blink m) (md_lrmm m) z (md_sgrmouse m) (md_keypad m) (md_shape m) (md_awm m).
Definition md_set_sgrmouse (m : modes) (b : bool) := mkModes (md_alt m) (md_curvis m) (md_blink m) (md_lrmm m) (md_mouse m) b (md_keypad m) (md_shape m) (md_awm m).
Definition md_set_keypad (m : modes) (b : bool) := mkModes (md_alt m) (md_curvis m) (md_blink m) (md_lrmm m) (md_mouse m) (md_sgrmouse m) b (md_shape m) (md_awm m).
Definition md_set_shape (m : modes) (z : Z) := mkModes (md_alt m) (md_curvis m) (md_blink m) (md_lrmm m) (md_mouse m) (md_sgrmouse m) (md_keypad m) z (md_awm m).
Definition md_set_awm (m : modes) (b : bool) := mkModes (md_alt m) (md_curvis m) (md_blink m) (md_lrmm m) (md_mouse m) (md_sgrmouse m) (md_keypad m) (md_shape m) b.

(* one DEC private mode, set (on = true) or reset *)
Definition vt_decmode (v : vt) (n : Z) (on : bool) : vt :=
  let m := v_md v in
  if n =? 1049 then
    (if Bool.eqb (md_alt m) on then v
     else if on then
       (* save cursor, switch to the alternate buffer, cleared *)
       set_md (set_savedcur (set_other (set_grid v (fun _ _ => blank v)) (v_grid v)) (v_cur v))
              (md_set_alt m true)
     else
       set_md (set_cur (set_other (set_grid v (v_other v)) (v_grid v)) (v_savedcur v))
              (md_set_alt m false))
  else if n =? 25 then set_md v (md_set_curvis m on)
  else if n =? 12 then set_md v (md_set_blink m on)
  else if n =? 7 then set_md v (md_set_awm m on)
  else if n =? 69 then
    (if on then set_md v (md_set_lrmm m true)
     else set_md (set_mg v (mkMargins (mg_top (v_mg v)) (mg_bot (v_mg v)) 0 (v_cols v - 1)))
                 (md_set_lrmm m false))
  else if (n =? 1000) || (n =? 1002) || (n =? 1003) then set_md v (md_set_mouse m (if on then n else 0))
  else if n =? 1006 then set_md v (md_set_sgrmouse m on)
  else v.
Fixpoint vt_decmodes (v : vt) (ps : list (list (option Z))) (on : bool) : vt :=
  match ps with
  | [] => v
  | g :: rest => vt_decmodes (match pfirst g with Some n => vt_decmode v n on | None => v end) rest on
  end.

(* ---- dispatch of one token *)
Definition vt_csi (v : vt) (priv : option Z) (ps : list (list (option Z))) (inter : list Z) (fin : Z) : vt :=
  match priv, inter with
  | None, [] =>
      if fin =? 72 (* H *) then vt_cup v (arg1 ps 0) (arg1 ps 1)
      else if fin =? 102 (* f *) then vt_cup v (arg1 ps 0) (arg1 ps 1)
      else if fin =? 100 (* d *) then vt_vpa v (arg1 ps 0)
      else if fin =? 71 (* G *) then vt_cha v (arg1 ps 0)
      else if fin =? 96 (* ` *) then vt_cha v (arg1 ps 0)
      else if fin =? 65 (* A *) then vt_cuu v (arg1 ps 0)
      else if fin =? 66 (* B *) then vt_cud v (arg1 ps 0)
      else if fin =? 67 (* C *) then vt_cuf v (arg1 ps 0)
      else if fin =? 68 (* D *) then vt_cub v (arg1 ps 0)
      else if fin =? 88 (* X *) then vt_ech v (arg1 ps 0)
      else if fin =? 74 (* J *) then vt_ed v (arg0 ps 0)
      else if fin =? 75 (* K *) then vt_el v (arg0 ps 0)
      else if fin =? 64 (* @ *) then vt_ich v (arg1 ps 0)
      else if fin =? 80 (* P *) then vt_dch v (arg1 ps 0)
      else if fin =? 76 (* L *) then vt_il v (arg1 ps 0)
      else if fin =? 77 (* M *) then vt_dl v (arg1 ps 0)
      else if fin =? 114 (* r *) then vt_decstbm v ps
      else if fin =? 115 (* s *) then
        (if md_lrmm (v_md v) then vt_decslrm v ps else set_savedcur v (v_cur v))
      else if fin =? 109 (* m *) then vt_sgr v ps
      else v
  | None, [39] (* ' *) =>
      if fin =? 125 (* } *) then vt_decic v (arg1 ps 0)
      else if fin =? 126 (* ~ *) then vt_decdc v (arg1 ps 0)
      else v
  | None, [32] (* SP *) =>
      if fin =? 113 (* q *) then set_md v (md_set_shape (v_md v) (arg0 ps 0)) else v
  | Some 63 (* ? *), [] =>
      if fin =? 104 (* h *) then vt_decmodes v ps true
      else if fin =? 108 (* l *) then vt_decmodes v ps false
      else v
  | _, _ => v       (* DECRQM and everything else: no change of the observable state *)
  end.

Definition vt_step (v : vt) (t : token) : vt :=
  match t with
  | TChar b => if b =? 127 then v else vt_putc b v
  | TCtl b =>
      if b =? 13 then vt_cr v
      else if (b =? 10) || (b =? 11) || (b =? 12) then vt_index v
      else if b =? 8 then vt_cub v 1
      else v
  | TCsi priv ps inter fin => vt_csi v priv ps inter fin
  | TEsc inter fin =>
      match inter with
      | [] => if fin =? 61 (* = *) then set_md v (md_set_keypad (v_md v) true)
              else if fin =? 62 (* > *) then set_md v (md_set_keypad (v_md v) false)
              else if fin =? 55 (* 7 *) then set_savedcur v (v_cur v)
              else if fin =? 56 (* 8 *) then set_cur v (v_savedcur v)
              else v
      | _ => v
      end
  | TStr _ _ => v
  | TBad _ => v
  end.

Definition vt_run (ts : list token) (v : vt) : vt := fold_left vt_step ts v.
Definition vt_run_bytes (bs : list Z) (v : vt) : vt := vt_run (lex bs) v.

(* ---- executable helpers for the oracle: tabulate the grid so that closures do not pile up *)
Fixpoint seqZ (start : Z) (n : nat) : list Z :=
  match n with O => [] | S k => start :: seqZ (start + 1) k end.
Definition tabulate (lines cols : Z) (g : grid) : list (list cell) :=
  map (fun y => map (fun x => g y x) (seqZ 0 (Z.to_nat cols))) (seqZ 0 (Z.to_nat lines)).
Definition of_table (dflt : cell) (t : list (list cell)) : grid :=
  fun y x => if (y <? 0) || (x <? 0) then dflt
             else nth (Z.to_nat x) (nth (Z.to_nat y) t []) dflt.
Definition vt_freeze (v : vt) : vt :=
  let d := blank_cell default_attrs in
  set_other (set_grid v (of_table d (tabulate (v_lines v) (v_cols v) (v_grid v))))
            (of_table d (tabulate (v_lines v) (v_cols v) (v_other v))).

(* ---- decidable equalities used by the checkers *)
Definition colour_eqb (a b : colour) : bool :=
  match a, b with
  | CDefault, CDefault => true
  | CIdx n, CIdx m => n =? m
  | CRgb r g b', CRgb r2 g2 b2 => (r =? r2) && (g =? g2) && (b' =? b2)
  | _, _ => false
  end.
Definition attrs_eqb (a b : attrs) : bool :=
  colour_eqb (a_fg a) (a_fg b) && colour_eqb (a_bg a) (a_bg b) &&
  Bool.eqb (a_bold a) (a_bold b) && Bool.eqb (a_faint a) (a_faint b) && (a_under a =? a_under b) &&
  Bool.eqb (a_italic a) (a_italic b) && Bool.eqb (a_reverse a) (a_reverse b) &&
  Bool.eqb (a_strike a) (a_strike b) && (a_font a =? a_font b) && Bool.eqb (a_blink a) (a_blink b) &&
  (a_sizepos a =? a_sizepos b).
Definition cell_eqb (a b : cell) : bool := (c_glyph a =? c_glyph b) && attrs_eqb (c_attrs a) (c_attrs b).
Definition cursor_eqb (a b : cursor) : bool :=
  (cu_row a =? cu_row b) && (cu_col a =? cu_col b) && Bool.eqb (cu_pend a) (cu_pend b).
Definition margins_eqb (a b : margins) : bool :=
  (mg_top a =? mg_top b) && (mg_bot a =? mg_bot b) && (mg_left a =? mg_left b) && (mg_right a =? mg_right b).
Definition modes_eqb (a b : modes) : bool :=
  Bool.eqb (md_alt a) (md_alt b) && Bool.eqb (md_curvis a) (md_curvis b) &&
  Bool.eqb (md_blink a) (md_blink b) && Bool.eqb (md_lrmm a) (md_lrmm b) &&
  (md_mouse a =? md_mouse b) && Bool.eqb (md_sgrmouse a) (md_sgrmouse b) &&
  Bool.eqb (md_keypad a) (md_keypad b) && (md_shape a =? md_shape b) && Bool.eqb (md_awm a) (md_awm b).
