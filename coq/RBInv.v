(* RBInv.v -- the invariant of a render buffer, what xlate_and_clip computes in terms of the
   specification's target predicate, and the refinement lemma for an operation on one row. *)
From Coq Require Import ZArith List Bool Lia.
From Tickit Require Import RectDefs RBDefs RBSpec RBLemmas RBSpanProofs RBAbsLemmas.
Import ListNotations.
Local Open Scope Z_scope.

Definition clip_in (L C : Z) (c : rect) : Prop :=
  lines c = 0 \/ (0 <= top c /\ top c + lines c <= L /\ 0 <= left c /\ 0 <= cols c /\ left c + cols c <= C).

Definition row_ok (C : Z) (r : row) : Prop := len r = C /\ WF r /\ masks_ok r.

Record Inv (s : rb) : Prop := mkInv {
  inv_lines : zlen (cells s) = rb_lines s;
  inv_cols : 0 <= rb_cols s;
  inv_rows : forall y, 0 <= y < rb_lines s -> row_ok (rb_cols s) (zn (cells s) y []);
  inv_clip : clip_in (rb_lines s) (rb_cols s) (clip (aux s));
  inv_stack : Forall (fun f => f_pen_only f = true \/ clip_in (rb_lines s) (rb_cols s) (f_clip f)) (stack (aux s));
  inv_depth : depth (aux s) = zlen (stack (aux s)) }.

(* ---------------------------------------------------------------------------------- *)
(* booleans to propositions *)

Lemma bool_eq_iff : forall a b : bool, (a = true <-> b = true) -> a = b.
Proof. intros [] [] H; try reflexivity; destruct H as [H1 H2]; [symmetry; apply H1|apply H2]; reflexivity. Qed.

Lemma cell_inb_iff : forall r y x, cell_inb r (y, x) = true <-> top r <= y < top r + lines r /\ left r <= x < left r + cols r.
Proof.
  intros. unfold cell_inb, bottom, right. cbn [fst snd].
  rewrite !andb_true_iff, !Z.leb_le, !Z.ltb_lt. lia.
Qed.

Lemma target_iff : forall a r y x,
  target a r y x = true <->
  (top r + xl a <= y < top r + xl a + lines r /\ left r + xc a <= x < left r + xc a + cols r) /\
  (top (clip a) <= y < top (clip a) + lines (clip a) /\ left (clip a) <= x < left (clip a) + cols (clip a)).
Proof.
  intros. unfold target. rewrite andb_true_iff, !cell_inb_iff. unfold r_translate. cbn [top left lines cols]. lia.
Qed.

(* ---------------------------------------------------------------------------------- *)
(* xlate_and_clip against the target predicate *)

Lemma xlate_none : forall a line col n,
  xlate_and_clip a line col n = None -> forall y x, target a (row_rect line col n) y x = false.
Proof.
  intros a line col n H y x.
  destruct (target a (row_rect line col n) y x) eqn:T; [|reflexivity]. exfalso.
  apply target_iff in T. unfold row_rect in T. cbn [top left lines cols] in T.
  unfold xlate_and_clip, bottom, right in H.
  destruct (Z.eqb_spec (lines (clip a)) 0); [lia|].
  destruct (Z.ltb_spec (line + xl a) (top (clip a))); cbn [orb] in H; [lia|].
  destruct (Z.geb_spec (line + xl a) (top (clip a) + lines (clip a))); cbn [orb] in H; [lia|].
  destruct (Z.geb_spec (col + xc a) (left (clip a) + cols (clip a))); cbn [orb] in H; [lia|].
  destruct (Z.ltb_spec (col + xc a) (left (clip a))).
  - destruct (Z.leb_spec (n - (left (clip a) - (col + xc a))) 0); [lia|discriminate].
  - destruct (Z.leb_spec n 0); [lia|discriminate].
Qed.

Lemma xlate_some : forall a line col n l c k sc,
  0 <= cols (clip a) ->
  xlate_and_clip a line col n = Some (l, c, k, sc) ->
  (forall y x, target a (row_rect line col n) y x = (y =? l) && (c <=? x) && (x <? c + k)) /\
  0 <= k /\ sc = c - (col + xc a) /\ l = line + xl a /\
  top (clip a) <= l < top (clip a) + lines (clip a) /\ left (clip a) <= c /\ c + k <= left (clip a) + cols (clip a) /\
  col + xc a <= c.
Proof.
  intros a line col n l c k sc Hcc H.
  unfold xlate_and_clip, bottom, right in H.
  destruct (Z.eqb_spec (lines (clip a)) 0); [discriminate|].
  destruct (Z.ltb_spec (line + xl a) (top (clip a))); cbn [orb] in H; [discriminate|].
  destruct (Z.geb_spec (line + xl a) (top (clip a) + lines (clip a))); cbn [orb] in H; [discriminate|].
  destruct (Z.geb_spec (col + xc a) (left (clip a) + cols (clip a))); cbn [orb] in H; [discriminate|].
  assert (G : forall c k sc,
     l = line + xl a -> left (clip a) <= c -> c + k <= left (clip a) + cols (clip a) -> 0 <= k ->
     sc = c - (col + xc a) ->
     (c = Z.max (col + xc a) (left (clip a))) ->
     (c + k = Z.min (col + xc a + n) (left (clip a) + cols (clip a))) ->
     (forall y x, target a (row_rect line col n) y x = (y =? l) && (c <=? x) && (x <? c + k)) /\
     0 <= k /\ sc = c - (col + xc a) /\ l = line + xl a /\
     top (clip a) <= l < top (clip a) + lines (clip a) /\ left (clip a) <= c /\ c + k <= left (clip a) + cols (clip a) /\
     col + xc a <= c).
  { intros c0 k0 sc0 El Hc0 Hk0 Hk1 Esc Ec0 Ek0. repeat split; try (clear H; lia).
    intros y x. apply bool_eq_iff. rewrite target_iff.
    unfold row_rect. cbn [top left lines cols].
    rewrite !andb_true_iff, Z.eqb_eq, Z.leb_le, Z.ltb_lt. clear H. lia. }
  destruct (Z.ltb_spec (col + xc a) (left (clip a))).
  - destruct (Z.leb_spec (n - (left (clip a) - (col + xc a))) 0); [discriminate|].
    destruct (Z.gtb_spec (n - (left (clip a) - (col + xc a))) (left (clip a) + cols (clip a) - left (clip a)));
      inversion H; subst; clear H; apply G; lia.
  - destruct (Z.leb_spec n 0); [discriminate|].
    destruct (Z.gtb_spec n (left (clip a) + cols (clip a) - (col + xc a)));
      inversion H; subst; clear H; apply G; lia.
Qed.

(* ---------------------------------------------------------------------------------- *)
(* pointwise view of the abstraction of a buffer *)

Lemma ag_abs_len : forall s, zlen (ag (abs_rb s)) = zlen (cells s).
Proof. intros. unfold abs_rb. cbn [ag]. now rewrite zlen_map. Qed.

Lemma ag_abs_row : forall s y, 0 <= y < zlen (cells s) -> zn (ag (abs_rb s)) y [] = abs_row (zn (cells s) y []).
Proof. intros s y Hy. unfold abs_rb. cbn [ag]. now rewrite (zn_map abs_row (cells s) y [] []) by assumption. Qed.

(* painting one row of the abstract grid *)
Definition paint_row (l c k : Z) (f : Z -> cellc -> cellc) (g : agrid) : agrid :=
  mapi (fun y row =>
          mapi (fun x cell => if (y =? l) && (c <=? x) && (x <? c + k) && (am cell =? -1) then mkA (f x (ac cell)) (am cell) else cell) row) g.

Lemma a_paint_as_row : forall s line col n l c k sc f,
  0 <= cols (clip (a_aux s)) ->
  xlate_and_clip (a_aux s) line col n = Some (l, c, k, sc) ->
  ag (a_paint s (row_rect line col n) (fun _ x old => f x old)) = paint_row l c k f (ag s).
Proof.
  intros s line col n l c k sc f Hcc H. destruct (xlate_some _ _ _ _ _ _ _ _ Hcc H) as (T & _).
  unfold a_paint, paint_row. cbn [ag set_ag].
  apply agrid_ext.
  - now rewrite !zlen_mapi.
  - intros y Hy. rewrite zlen_mapi in Hy.
    rewrite (zn_mapi _ (ag s) y [] []), (zn_mapi _ (ag s) y [] []) by assumption. now rewrite !zlen_mapi.
  - intros y x Hy Hx. rewrite zlen_mapi in Hy. unfold gcell in *.
    rewrite (zn_mapi _ (ag s) y [] []) in * by assumption. rewrite zlen_mapi in Hx.
    rewrite (zn_mapi _ (ag s) y [] []) by assumption.
    rewrite (zn_mapi _ _ x dacell dacell), (zn_mapi _ _ x dacell dacell) by assumption.
    now rewrite T.
Qed.

Lemma a_paint_none : forall s line col n f,
  xlate_and_clip (a_aux s) line col n = None -> a_paint s (row_rect line col n) f = s.
Proof.
  intros s line col n f H. unfold a_paint. destruct s as [L C g a]. unfold set_ag. cbn [a_lines a_cols ag a_aux] in *.
  f_equal. apply agrid_ext.
  - now rewrite zlen_mapi.
  - intros y Hy. rewrite zlen_mapi in Hy. rewrite (zn_mapi _ g y [] []) by assumption. now rewrite zlen_mapi.
  - intros y x Hy Hx. rewrite zlen_mapi in Hy. unfold gcell in *.
    rewrite (zn_mapi _ g y [] []) in * by assumption. rewrite zlen_mapi in Hx.
    rewrite (zn_mapi _ _ x dacell dacell) by assumption.
    now rewrite (xlate_none _ _ _ _ H).
Qed.

(* ---------------------------------------------------------------------------------- *)
(* replacing one row of a buffer *)

Definition set_row (s : rb) (l : Z) (r' : row) : rb :=
  set_cells s (mapi (fun i old => if i =? l then r' else old) (cells s)).

Lemma on_row_ok : forall s l f r',
  0 <= l < zlen (cells s) -> f (zn (cells s) l []) = Ok r' -> on_row s l f = Ok (set_row s l r').
Proof.
  intros s l f r' Hl Hf. unfold on_row, zlen in *.
  destruct (Z.leb_spec 0 l); [|lia]. destruct (Z.ltb_spec l (Z.of_nat (length (cells s)))); [|lia]. cbn [andb].
  unfold zn in Hf. rewrite Hf. reflexivity.
Qed.

Lemma set_row_inv : forall s l r',
  Inv s -> 0 <= l < rb_lines s -> row_ok (rb_cols s) r' -> Inv (set_row s l r').
Proof.
  intros s l r' I Hl Hr. destruct I as [I1 I2 I3 I4 I5 I6].
  constructor; cbn [set_row set_cells cells rb_lines rb_cols aux]; auto.
  - now rewrite zlen_mapi.
  - intros y Hy. rewrite (@zn_mapi row row _ (cells s) y [] []) by lia.
    destruct (Z.eqb_spec y l); [assumption|apply I3; assumption].
Qed.

(* the abstraction after replacing row l by a row that differs from the old one exactly as a
   paint of [c, c+k) with contents f *)
Lemma set_row_abs : forall s l r' c k f,
  Inv s -> 0 <= l < rb_lines s ->
  let r := zn (cells s) l [] in
  len r' = len r ->
  (forall x, 0 <= x < len r ->
     abs_cell r' x = if (c <=? x) && (x <? c + k) && (cmask (get r x) =? -1) then f x (abs_cell r x) else abs_cell r x) ->
  (forall x, 0 <= x < len r -> cmask (get r' x) = cmask (get r x)) ->
  ag (abs_rb (set_row s l r')) = paint_row l c k f (ag (abs_rb s)).
Proof.
  intros s l r' c k f I Hl r HL Ha Hm. destruct I as [I1 I2 I3 I4 I5 I6].
  unfold paint_row. cbn [abs_rb ag set_row set_cells cells].
  apply agrid_ext.
  - now rewrite zlen_mapi, !zlen_map, zlen_mapi.
  - intros y Hy. rewrite zlen_map, zlen_mapi in Hy.
    rewrite (zn_map abs_row _ y [] []) by (rewrite zlen_mapi; assumption).
    rewrite (@zn_mapi row row _ (cells s) y [] []) by assumption.
    rewrite (zn_mapi _ _ y [] []) by (rewrite zlen_map; assumption).
    rewrite zlen_mapi. rewrite (zn_map abs_row _ y [] []) by assumption.
    rewrite !zlen_abs_row. destruct (Z.eqb_spec y l); [subst; assumption|reflexivity].
  - intros y x Hy Hx. rewrite zlen_map, zlen_mapi in Hy. unfold gcell in *.
    rewrite (zn_map abs_row _ y [] []) in * by (rewrite zlen_mapi; assumption).
    rewrite (@zn_mapi row row _ (cells s) y [] []) in * by assumption.
    rewrite (zn_mapi _ _ y [] []) by (rewrite zlen_map; assumption).
    rewrite (zn_map abs_row _ y [] []) by assumption.
    rewrite zlen_abs_row in Hx.
    destruct (Z.eqb_spec y l) as [->|Hne].
    + fold r. fold r in Hx. rewrite zn_abs_row by assumption. rewrite HL in Hx.
      rewrite (zn_mapi _ (abs_row r) x dacell dacell) by (rewrite zlen_abs_row; assumption).
      rewrite zn_abs_row by assumption. cbn [am ac andb].
      rewrite Ha, Hm by assumption.
      destruct ((c <=? x) && (x <? c + k) && (cmask (get r x) =? -1)); reflexivity.
    + rewrite (zn_mapi _ _ x dacell dacell) by (rewrite zlen_abs_row; assumption).
      cbn [andb]. reflexivity.
Qed.
