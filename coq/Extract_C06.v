From Coq Require Extraction.
From Coq Require Import ExtrOcamlBasic.
From Tickit Require Import RectDefs RectSpec.
Extraction "mC06.ml" r_intersect r_intersects r_contains r_add r_subtract
  add_checkb subtract_checkb intersect_checkb intersects_checkb contains_checkb.
