(* TiDefs.v -- BEYOND THE GIVEN PROPERTIES (src/termdriver-ti.c is not an anchor of C09/C10/C12).
   Executable model of the terminfo driver's decision logic -- goto_abs, move_rel, scrollrect,
   erasech, clear, chpen, setctl_int / getctl_int, shutdown (= stop = pause), resume -- over an
   ABSTRACT terminfo entry: which optional capabilities exist, bce, the colour count.  The
   driver's output is a list of capability invocations [TiCap name params] (what run_ti is given)
   and raw bytes [TiRaw] (CR, spaces, the fixed "extra" mode strings). *)
From Coq Require Import ZArith List Bool Lia.
From Tickit Require Import Csi TermPenDefs XtermDefs.
Import ListNotations.
Local Open Scope Z_scope.

Inductive ticap :=
| Kcup | Kvpa | Khpa | Kcuu | Kcuu1 | Kcud | Kcud1 | Kcuf | Kcuf1 | Kcub | Kcub1
| Kich | Kich1 | Kdch | Kdch1 | Kil | Kil1 | Kdl | Kdl1 | Kech | Ked2 | Kstbm
| Ksgr | Ksgr0 | Kritm | Ksitm | Ksetaf | Ksetab | Kcnorm | Kcivis.

Inductive titok :=
| TiCap (c : ticap) (params : list Z)
| TiRaw (bs : list Z).

(* the abstract terminfo entry *)
Record tient := mkTient {
  e_vpa : bool; e_hpa : bool;
  e_cuu1 : bool; e_cud1 : bool; e_cuf1 : bool; e_cub1 : bool;
  e_ich1 : bool; e_dch1 : bool; e_il1 : bool; e_dl1 : bool;
  e_ritm : bool; e_sitm : bool;
  e_mouse : bool;              (* key_mouse is ESC [ M or ESC [ < : vt200 mouse strings available *)
  e_bce : bool; e_colours : Z
}.

Definition cap0 (c : ticap) : titok := TiCap c [].
Definition cap1 (c : ticap) (n : Z) : titok := TiCap c [n].
Definition cr : titok := TiRaw [13].

(* goto_abs: bool result, output *)
Definition ti_goto_abs (e : tient) (line col : Z) : bool * list titok :=
  if negb (line =? -1) && negb (col =? -1) then (true, [TiCap Kcup [line; col]])
  else if negb (line =? -1) then
    (if negb (e_vpa e) then (false, []) else (true, [cap1 Kvpa line]))
  else if negb (col =? -1) then
    (if col =? 0 then (true, [cr])
     else if e_hpa e then (true, [cap1 Khpa col])
     else (true, [cr; cap1 Kcuf col]))        (* cuf is a required capability *)
  else (true, []).

Definition ti_move_rel (e : tient) (downward rightward : Z) : list titok :=
  (if (downward =? 1) && e_cud1 e then [cap0 Kcud1]
   else if (downward =? -1) && e_cuu1 e then [cap0 Kcuu1]
   else if 0 <? downward then [cap1 Kcud downward]
   else if downward <? 0 then [cap1 Kcuu (- downward)]
   else []) ++
  (if (rightward =? 1) && e_cuf1 e then [cap0 Kcuf1]
   else if (rightward =? -1) && e_cub1 e then [cap0 Kcub1]
   else if 0 <? rightward then [cap1 Kcuf rightward]
   else if rightward <? 0 then [cap1 Kcub (- rightward)]
   else []).

Definition ti_insdel (e : tient) (rightward : Z) : list titok :=
  if (rightward =? 1) && e_dch1 e then [cap0 Kdch1]
  else if (rightward =? -1) && e_ich1 e then [cap0 Kich1]
  else if 0 <? rightward then [cap1 Kdch rightward]
  else if rightward <? 0 then [cap1 Kich (- rightward)]
  else [].
Fixpoint ti_scroll_lines (e : tient) (n : nat) (line left rightward : Z) : list titok :=
  match n with
  | O => []
  | S k => snd (ti_goto_abs e line left) ++ ti_insdel e rightward ++ ti_scroll_lines e k (line + 1) left rightward
  end.

Definition ti_scrollrect (e : tient) (term_lines term_cols : Z) (r : rect) (downward rightward : Z)
  : bool * list titok :=
  if (downward =? 0) && (rightward =? 0) then (true, [])
  else if (r_right r =? term_cols) && (downward =? 0) then
    (true, ti_scroll_lines e (Z.to_nat (r_lines r)) (r_top r) (r_left r) rightward)
  else if (r_left r =? 0) && (r_cols r =? term_cols) && (rightward =? 0) then
    (true,
     [TiCap Kstbm [r_top r; r_bottom r - 1]] ++
     snd (ti_goto_abs e (r_top r) 0) ++
     (if (downward =? 1) && e_dl1 e then [cap0 Kdl1]
      else if (downward =? -1) && e_il1 e then [cap0 Kil1]
      else if 0 <? downward then [cap1 Kdl downward]
      else if downward <? 0 then [cap1 Kil (- downward)]
      else []) ++
     [TiCap Kstbm [0; term_lines - 1]])
  else (false, []).

Fixpoint ti_spaces (fuel : nat) (count : Z) : list titok :=
  match fuel with
  | O => []
  | S f => if 64 <? count then TiRaw (repeat 32 64) :: ti_spaces f (count - 64)
           else [TiRaw (repeat 32 (Z.to_nat count))]
  end.
(* erasech: the loop clobbers [count], so the move back is by what was left (as the code is) *)
Definition ti_erasech (e : tient) (rv : bool) (count : Z) (moveend : maybe) : list titok :=
  if count <? 1 then []
  else if e_bce e && negb rv then
    [cap1 Kech count] ++ (match moveend with MYes => ti_move_rel e 0 count | _ => [] end)
  else
    let left := if 64 <? count then count - 64 * ((count - 1) / 64) else count in
    ti_spaces (S (Z.to_nat (count / 64))) count ++
    (match moveend with MNo => ti_move_rel e 0 (- left) | _ => [] end).

Definition ti_clear : list titok := [cap0 Ked2].

Definition b2z (b : bool) : Z := if b then 1 else 0.

(* chpen: sgr with the nine parameters from FINAL, italics from DELTA, colours from FINAL *)
Definition ti_chpen (e : tient) (delta final : pen) : list titok :=
  [TiCap Ksgr [0; b2z (get_bool_attr final AUnder); b2z (get_bool_attr final AReverse);
               b2z (get_bool_attr final ABlink); 0; b2z (get_bool_attr final ABold); 0; 0; 0]] ++
  (if has_attr delta AItalic then
     (if e_sitm e && get_bool_attr delta AItalic then [cap0 Ksitm]
      else if e_ritm e then [cap0 Kritm] else [])
   else []) ++
  (let c := get_colour_attr final AFg in
   if (-1 <? c) && (c <? e_colours e) then [cap1 Ksetaf c] else []) ++
  (let c := get_colour_attr final ABg in
   if (-1 <? c) && (c <? e_colours e) then [cap1 Ksetab c] else []).

(* modes *)
Record timode := mkTimode { ti_altscreen : bool; ti_cursorvis : bool; ti_mouse : bool }.
Definition timode_new : timode := mkTimode false true false.

Definition raw_of (s : list Z) : titok := TiRaw s.
Definition str_1049 (on : bool) : list Z := [27; 91; 63; 49; 48; 52; 57; (if on then 104 else 108)].
Definition str_mouse (on : bool) : list Z :=
  let f := if on then 104 else 108 in
  [27; 91; 63; 49; 48; 48; 50; f; 27; 91; 63; 49; 48; 48; 54; f].

Definition ti_setctl (e : tient) (m : timode) (c : ctl) (value : Z) : timode * list titok * bool :=
  match c with
  | CtlAltscreen =>
      if Bool.eqb (negb (ti_altscreen m)) (negb (nz value)) then (m, [], true)
      else (mkTimode (nz value) (ti_cursorvis m) (ti_mouse m), [raw_of (str_1049 (nz value))], true)
  | CtlCursorvis =>
      if Bool.eqb (negb (ti_cursorvis m)) (negb (nz value)) then (m, [], true)
      else (mkTimode (ti_altscreen m) (nz value) (ti_mouse m), [cap0 (if nz value then Kcnorm else Kcivis)], true)
  | CtlMouse =>
      if negb (e_mouse e) then (m, [], false)
      else if Bool.eqb (negb (ti_mouse m)) (negb (nz value)) then (m, [], true)
      else (mkTimode (ti_altscreen m) (ti_cursorvis m) (nz value), [raw_of (str_mouse (nz value))], true)
  | _ => (m, [], false)
  end.
Definition ti_getctl (e : tient) (m : timode) (c : ctl) : option Z :=
  match c with
  | CtlAltscreen => Some (b2z (ti_altscreen m))
  | CtlCursorvis => Some (b2z (ti_cursorvis m))
  | CtlMouse => Some (b2z (ti_mouse m))
  | CtlColors => Some (e_colours e)
  | _ => None
  end.
Definition ti_shutdown (m : timode) : list titok :=
  (if ti_mouse m then [raw_of (str_mouse false)] else []) ++
  (if negb (ti_cursorvis m) then [cap0 Kcnorm] else []) ++
  (if ti_altscreen m then [raw_of (str_1049 false)] else []) ++
  [cap0 Ksgr0].
Definition ti_resume (m : timode) : list titok :=
  (if ti_altscreen m then [raw_of (str_1049 true)] else []) ++
  (if negb (ti_cursorvis m) then [cap0 Kcivis] else []) ++
  (if ti_mouse m then [raw_of (str_mouse true)] else []).

(* ---- term.c above the driver: the cached pen, colours = the entry's colour count *)
Record titerm := mkTiterm { tt_ent : tient; tt_mode : timode; tt_pen : pen; tt_lines : Z; tt_cols : Z;
                            tt_started : bool }.

Definition ti_do_pen (is_set : bool) (t : titerm) (p : pen) : option (titerm * list titok) :=
  match (if is_set then term_setpen else term_chpen) (e_colours (tt_ent t)) (tt_pen t) p with
  | None => None
  | Some (tp', delta) =>
      Some (mkTiterm (tt_ent t) (tt_mode t) tp' (tt_lines t) (tt_cols t) (tt_started t),
            ti_chpen (tt_ent t) delta tp')
  end.

(* ---- the symbolic byte rendering the harness's terminfo shim produces: "{name p1 p2}" *)
Definition ticap_name (c : ticap) : list Z :=
  match c with
  | Kcup => [99;117;112] | Kvpa => [118;112;97] | Khpa => [104;112;97]
  | Kcuu => [99;117;117] | Kcuu1 => [99;117;117;49] | Kcud => [99;117;100] | Kcud1 => [99;117;100;49]
  | Kcuf => [99;117;102] | Kcuf1 => [99;117;102;49] | Kcub => [99;117;98] | Kcub1 => [99;117;98;49]
  | Kich => [105;99;104] | Kich1 => [105;99;104;49] | Kdch => [100;99;104] | Kdch1 => [100;99;104;49]
  | Kil => [105;108] | Kil1 => [105;108;49] | Kdl => [100;108] | Kdl1 => [100;108;49]
  | Kech => [101;99;104] | Ked2 => [101;100;50] | Kstbm => [115;116;98;109]
  | Ksgr => [115;103;114] | Ksgr0 => [115;103;114;48] | Kritm => [114;105;116;109] | Ksitm => [115;105;116;109]
  | Ksetaf => [115;101;116;97;102] | Ksetab => [115;101;116;97;98]
  | Kcnorm => [99;110;111;114;109] | Kcivis => [99;105;118;105;115]
  end.
Definition ti_render_tok (t : titok) : list Z :=
  match t with
  | TiCap c ps => 123 :: ticap_name c ++ flat_map (fun p => 32 :: dec p) ps ++ [125]
  | TiRaw bs => bs
  end.
Definition ti_render (ts : list titok) : list Z := flat_map ti_render_tok ts.

(* ---- one call of the public API on a terminfo terminal object *)
Inductive tiop :=
| IGoto (l c : Z) | IMove (d r : Z) | IPrint (bs : list Z) | IErase (n : Z) (me : maybe) | IClear
| IScroll (r : rect) (d rt : Z) | ISetpen (p : pen) | IChpen (p : pen)
| ISetctl (c : ctl) (v : Z) | IGetctl (c : ctl) | IPause | IResume | ITeardown.

Definition with_timode (t : titerm) (m : timode) : titerm :=
  mkTiterm (tt_ent t) m (tt_pen t) (tt_lines t) (tt_cols t) (tt_started t).

(* result: bool as 0/1 (1 for void calls), or the value read *)
Definition ti_step (t : titerm) (o : tiop) : option (titerm * list titok * Z) :=
  let e := tt_ent t in
  match o with
  | IGoto l c => let '(ok, ts) := ti_goto_abs e l c in Some (t, ts, b2z ok)
  | IMove d r => Some (t, ti_move_rel e d r, 1)
  | IPrint bs => Some (t, (match bs with [] => [] | _ => [TiRaw bs] end), 1)
  | IErase n me => Some (t, ti_erasech e (get_bool_attr (tt_pen t) AReverse) n me, 1)
  | IClear => Some (t, ti_clear, 1)
  | IScroll r d rt => let '(ok, ts) := ti_scrollrect e (tt_lines t) (tt_cols t) r d rt in Some (t, ts, b2z ok)
  | ISetpen p => match ti_do_pen true t p with Some (t', ts) => Some (t', ts, 1) | None => None end
  | IChpen p => match ti_do_pen false t p with Some (t', ts) => Some (t', ts, 1) | None => None end
  | ISetctl c v => let '(m', ts, ok) := ti_setctl e (tt_mode t) c v in Some (with_timode t m', ts, b2z ok)
  | IGetctl c => match ti_getctl e (tt_mode t) c with Some v => Some (t, [], v) | None => Some (t, [], -99) end
  | IPause => Some (t, ti_shutdown (tt_mode t), 1)
  | IResume =>
      Some (t, ti_resume (tt_mode t) ++ (if is_nondefault (tt_pen t) then ti_chpen e (tt_pen t) (tt_pen t) else []), 1)
  | ITeardown =>
      if tt_started t
      then Some (mkTiterm (tt_ent t) (tt_mode t) (tt_pen t) (tt_lines t) (tt_cols t) false, ti_shutdown (tt_mode t), 1)
      else Some (t, [], 1)
  end.
