(* WinRectSetProofs.v -- region-level ("covered") correctness of the window layer's
   rectangle set (WinRectSet.v = wrappers around the C05 model RectSetDefs.v, repaired code
   stale = false) and of the helpers rs_clip rfuel / rs_sub_vis rfuel / shift_damage rfuel of WinDefs.v.

   Part A (sections 0-7): facts that need only [all_nonempty] of the set (no sortedness, no
             separation), proved here directly on RectSetDefs.rs_scan / rs_add_at /
             rs_subtract_loop / rs_contains_scan.
   Part B (section 8): the exact facts under the C05 invariant RectSetSpec.Inv, obtained
             from the C05 theorems (rs_add_ok, rs_subtract_ok, rs_translate_ok, ...).

   Every theorem is stated for ANY fuel for which the result is [Some _].
   No axioms; stdlib + lia only. *)
From Coq Require Import ZArith List Bool Lia ZifyBool.
From Tickit Require Import RectDefs RectProofs WinRectSet WinDefs.
From Tickit Require RectSetDefs RectSetSpec RectSetProofs RectSetSubtract RectSetQueries
  RectSetHistory.
Import ListNotations.
Local Open Scope Z_scope.

Notation Inv := RectSetSpec.Inv.

Section Fuel.
Context {rfuel : nat}.

(* ------------------------------------------------------------------------------------ *)
(* 0. small helpers                                                                      *)

Lemma init_bounded_self_cell q p :
  cell_in (init_bounded (top q) (left q) (bottom q) (right q)) p <-> cell_in q p.
Proof.
  destruct q as [tq lq hq wq]; destruct p as [y c].
  unfold cell_in, init_bounded, bottom, right; cbn [top left lines cols fst snd]. lia.
Qed.

Lemma nonempty_bounds q : nonempty q -> top q < bottom q /\ left q < right q.
Proof.
  destruct q as [tq lq hq wq]; unfold nonempty, bottom, right; cbn [top left lines cols]. lia.
Qed.

Lemma init_bounded_nonempty t l b r : t < b -> l < r -> nonempty (init_bounded t l b r).
Proof. intros Htb Hlr. unfold nonempty, init_bounded; cbn [lines cols]. lia. Qed.

Lemma contains_sound large small :
  r_contains large small = true -> forall p, cell_in small p -> cell_in large p.
Proof.
  destruct large as [ta la ha wa], small as [tb lb hb wb].
  unfold r_contains, cell_in, bottom, right; cbn [top left lines cols].
  intros H [y c]; cbn [fst snd]. lia.
Qed.

Lemma all_nonempty_nth s i x : all_nonempty s -> nth_error s i = Some x -> nonempty x.
Proof.
  intros Hne Hn. unfold all_nonempty in Hne. rewrite Forall_forall in Hne.
  apply Hne. eapply nth_error_In. exact Hn.
Qed.

Lemma covered_in s x p : In x s -> cell_in x p -> covered s p.
Proof. intros Hin Hc. exists x. split; assumption. Qed.

(* ------------------------------------------------------------------------------------ *)
(* 1. rs_insert / rs_delete                                                              *)

Lemma rs_insert_covered s r p : covered (rs_insert s r) p <-> cell_in r p \/ covered s p.
Proof.
  unfold rs_insert.
  induction s as [|x s IH]; cbn [RectSetDefs.rs_insert].
  - rewrite covered_cons. tauto.
  - destruct (RectSetDefs.cmprect x r >? 0) eqn:E.
    + rewrite covered_cons. tauto.
    + rewrite !covered_cons, IH. tauto.
Qed.

Lemma rs_insert_nonempty s r : all_nonempty s -> nonempty r -> all_nonempty (rs_insert s r).
Proof.
  unfold all_nonempty, rs_insert. intros Hs Hr.
  induction s as [|x s IH]; cbn [RectSetDefs.rs_insert].
  - constructor; [exact Hr|constructor].
  - destruct (RectSetDefs.cmprect x r >? 0) eqn:E.
    + constructor; assumption.
    + inversion Hs as [|x' s' Hx Hs']; subst. constructor; [exact Hx|apply IH; exact Hs'].
Qed.

Lemma rs_delete_covered_nth : forall s i x, nth_error s i = Some x ->
  forall p, covered s p <-> cell_in x p \/ covered (rs_delete s i) p.
Proof.
  unfold rs_delete.
  induction s as [|y s IH]; intros i x Hn p.
  - destruct i; discriminate.
  - destruct i as [|j]; cbn [RectSetDefs.rs_delete nth_error] in *.
    + injection Hn as ->. apply covered_cons.
    + rewrite !covered_cons, (IH j x Hn p). tauto.
Qed.

Lemma rs_delete_covered s i p :
  covered s p <->
  (exists x, nth_error s i = Some x /\ cell_in x p) \/ covered (rs_delete s i) p.
Proof.
  destruct (nth_error s i) as [x|] eqn:Hn.
  - rewrite (rs_delete_covered_nth s i x Hn p). split.
    + intros [H|H]; [left; exists x; auto|right; exact H].
    + intros [[x' [[= <-] H]]|H]; [left; exact H|right; exact H].
  - assert (Hd : rs_delete s i = s).
    { unfold rs_delete. revert i Hn. induction s as [|y s IH]; intros i Hn; [reflexivity|].
      destruct i as [|j]; cbn [nth_error RectSetDefs.rs_delete] in *; [discriminate|].
      rewrite (IH j Hn). reflexivity. }
    rewrite Hd. split; [tauto|]. intros [[x [Hx _]]|H]; [discriminate|exact H].
Qed.

Lemma rs_delete_incl : forall s i x, In x (rs_delete s i) -> In x s.
Proof.
  unfold rs_delete.
  induction s as [|y s IH]; intros i x Hin.
  - destruct i; exact Hin.
  - destruct i as [|j]; cbn [RectSetDefs.rs_delete] in Hin.
    + right. exact Hin.
    + destruct Hin as [->|Hin]; [left; reflexivity|right; eapply IH; exact Hin].
Qed.

Lemma rs_delete_nonempty s i : all_nonempty s -> all_nonempty (rs_delete s i).
Proof.
  unfold all_nonempty. rewrite !Forall_forall. intros Hs x Hin.
  apply Hs. eapply rs_delete_incl. exact Hin.
Qed.

(* ------------------------------------------------------------------------------------ *)
(* generic fold lemma: a step that keeps an invariant [I] of the set and adds the region *)
(* [G x] for each list element x                                                         *)

Lemma fold_left_none {A} (step : option rectset -> A -> option rectset) :
  (forall x, step None x = None) -> forall L, fold_left step L None = None.
Proof.
  intros Hnone L. induction L as [|x L IH]; cbn [fold_left]; [reflexivity|].
  rewrite Hnone. exact IH.
Qed.

Lemma fold_step_ok {A} (I : rectset -> Prop) (step : option rectset -> A -> option rectset)
      (G : A -> cell -> Prop) (P : A -> Prop) :
  (forall x, step None x = None) ->
  (forall s x s', I s -> P x -> step (Some s) x = Some s' ->
                  I s' /\ forall p, covered s' p <-> covered s p \/ G x p) ->
  forall L s s', I s -> Forall P L -> fold_left step L (Some s) = Some s' ->
    I s' /\ forall p, covered s' p <-> covered s p \/ exists x, In x L /\ G x p.
Proof.
  intros Hnone Hstep L.
  induction L as [|x L IH]; intros s s' Hne HP H; cbn [fold_left] in H.
  - injection H as <-. split; [exact Hne|].
    intros p. split; [tauto|]. intros [Hc|[x [[] _]]]. exact Hc.
  - inversion HP as [|x' L' Hx HL]; subst.
    destruct (step (Some s) x) as [s1|] eqn:E1.
    + destruct (Hstep s x s1 Hne Hx E1) as [Hne1 Hcov1].
      destruct (IH s1 s' Hne1 HL H) as [Hne' Hcov'].
      split; [exact Hne'|]. intros p. rewrite Hcov', Hcov1. split.
      * intros [[Hc|Hg]|[x' [Hin Hg]]].
        -- left. exact Hc.
        -- right. exists x. split; [left; reflexivity|exact Hg].
        -- right. exists x'. split; [right; exact Hin|exact Hg].
      * intros [Hc|[x' [[<-|Hin] Hg]]].
        -- left. left. exact Hc.
        -- left. right. exact Hg.
        -- right. exists x'. split; assumption.
    + rewrite (fold_left_none step Hnone L) in H. discriminate.
Qed.

Lemma forall_true {A} (l : list A) : Forall (fun _ => True) l.
Proof. induction l; constructor; auto. Qed.

(* ------------------------------------------------------------------------------------ *)
(* 2. rs_scan / rs_add_at / rs_add / rs_add_list  (only all_nonempty needed)             *)

Lemma stretch_ok x t l b r :
  nonempty x -> t < b -> l < r ->
  (b <? top x) = false ->
  ((t >? bottom x) || (l >? right x) || (r <? left x)) = false ->
  ((t =? top x) && (b =? bottom x)) || ((l =? left x) && (r =? right x)) = true ->
  (if top x <? t then top x else t) < (if bottom x >? b then bottom x else b) /\
  (if left x <? l then left x else l) < (if right x >? r then right x else r) /\
  forall p,
    cell_in (init_bounded (if top x <? t then top x else t)
                          (if left x <? l then left x else l)
                          (if bottom x >? b then bottom x else b)
                          (if right x >? r then right x else r)) p <->
    cell_in x p \/ cell_in (init_bounded t l b r) p.
Proof.
  destruct x as [tx lx hx wx].
  unfold nonempty, cell_in, init_bounded, bottom, right; cbn [top left lines cols].
  intros Hx Htb Hlr H1 H2 H3.
  destruct (tx <? t) eqn:E1; destruct (lx <? l) eqn:E2;
    destruct (tx + hx >? b) eqn:E3; destruct (lx + wx >? r) eqn:E4;
    (split; [lia|split; [lia|intros [y c]; cbn [fst snd]; lia]]).
Qed.

Lemma nth_shift {A} (x0 : A) rest (i i0 : nat) x :
  (S i0 <= i)%nat -> nth_error rest (i - S i0) = Some x ->
  nth_error (x0 :: rest) (i - i0) = Some x.
Proof.
  intros Hle Hn. replace (i - i0)%nat with (S (i - S i0)) by lia. exact Hn.
Qed.

Definition scan_post (s : rectset) (i0 : nat) (t b l r : Z) (res : RectSetDefs.scan_result)
  : Prop :=
  match res with
  | RectSetDefs.ScInsert => True
  | RectSetDefs.ScReturn => exists x, In x s /\ r_contains x (init_bounded t l b r) = true
  | RectSetDefs.ScMerge i t' b' l' r' =>
      exists x, (i0 <= i)%nat /\ nth_error s (i - i0) = Some x /\
                t' < b' /\ l' < r' /\
                forall p, cell_in (init_bounded t' l' b' r') p <->
                          cell_in x p \/ cell_in (init_bounded t l b r) p
  | RectSetDefs.ScSplit i x => (i0 <= i)%nat /\ nth_error s (i - i0) = Some x
  end.

Lemma scan_post_cons x0 rest i0 t b l r res :
  scan_post rest (S i0) t b l r res -> scan_post (x0 :: rest) i0 t b l r res.
Proof.
  destruct res as [| |i t' b' l' r'|i x]; unfold scan_post.
  - tauto.
  - intros [x [Hin Hc]]. exists x. split; [right; exact Hin|exact Hc].
  - intros [x [Hle [Hn Hrest]]]. exists x. split; [lia|].
    split; [apply nth_shift; assumption|exact Hrest].
  - intros [Hle Hn]. split; [lia|apply nth_shift; assumption].
Qed.

Lemma rs_scan_spec : forall s i0 t b l r,
  all_nonempty s -> t < b -> l < r ->
  scan_post s i0 t b l r (RectSetDefs.rs_scan (init_bounded t l b r) t b l r s i0).
Proof.
  induction s as [|x rest IH]; intros i0 t b l r Hne Htb Hlr; cbn [RectSetDefs.rs_scan].
  - exact I.
  - inversion Hne as [|x' s' Hx Hrest]; subst.
    destruct (b <? top x) eqn:E1; [exact I|].
    destruct ((t >? bottom x) || (l >? right x) || (r <? left x)) eqn:E2.
    { apply scan_post_cons. apply IH; assumption. }
    destruct (r_contains x (init_bounded t l b r)) eqn:E3.
    { exists x. split; [left; reflexivity|exact E3]. }
    destruct ((t =? top x) && (b =? bottom x) || (l =? left x) && (r =? right x)) eqn:E4.
    { destruct (stretch_ok x t l b r Hx Htb Hlr E1 E2 E4) as [Ha [Hb Hc]].
      exists x. split; [lia|]. rewrite Nat.sub_diag.
      split; [reflexivity|]. split; [exact Ha|]. split; [exact Hb|exact Hc]. }
    destruct ((t =? bottom x) || (b =? top x)) eqn:E5.
    { apply scan_post_cons. apply IH; assumption. }
    split; [lia|]. rewrite Nat.sub_diag. reflexivity.
Qed.

Theorem rs_add_at_covered : forall fuel s rect t b l r s',
  all_nonempty s -> t < b -> l < r ->
  RectSetDefs.rs_add_at fuel false s rect t b l r = Some s' ->
  all_nonempty s' /\
  forall p, covered s' p <-> covered s p \/ cell_in (init_bounded t l b r) p.
Proof.
  induction fuel as [|f IH]; intros s rect t b l r s' Hne Htb Hlr H; [discriminate|].
  cbn [RectSetDefs.rs_add_at] in H.
  pose proof (rs_scan_spec s O t b l r Hne Htb Hlr) as Hscan.
  pose proof (init_bounded_nonempty t l b r Htb Hlr) as Hcur.
  destruct (RectSetDefs.rs_scan (init_bounded t l b r) t b l r s 0)
    as [| |i t' b' l' r'|i x] eqn:Escan; unfold scan_post in Hscan.
  - (* insert *)
    injection H as <-. split.
    + apply (rs_insert_nonempty s _ Hne Hcur).
    + intros p. rewrite (rs_insert_covered s _ p). tauto.
  - (* already covered *)
    injection H as <-. split; [exact Hne|].
    destruct Hscan as [x [Hin Hc]].
    intros p. split; [tauto|]. intros [Hp|Hp]; [exact Hp|].
    apply (covered_in s x p Hin). eapply contains_sound; eassumption.
  - (* stretch *)
    destruct Hscan as [x [_ [Hn [Htb' [Hlr' Hbox]]]]].
    rewrite Nat.sub_0_r in Hn.
    destruct (IH _ _ _ _ _ _ _ (rs_delete_nonempty s i Hne) Htb' Hlr' H) as [Hne' Hcov'].
    split; [exact Hne'|]. intros p.
    rewrite Hcov', Hbox, (rs_delete_covered_nth s i x Hn p). unfold rs_delete. tauto.
  - (* split *)
    destruct Hscan as [_ Hn]. rewrite Nat.sub_0_r in Hn.
    pose proof (all_nonempty_nth s i x Hne Hn) as Hx.
    destruct (add_ok x (init_bounded t l b r) Hx Hcur) as [_ [HneL [_ HcovL]]].
    assert (Hstep : forall s0 q s0', all_nonempty s0 -> nonempty q ->
              RectSetDefs.rs_add_at f false s0 q (top q) (bottom q) (left q) (right q) = Some s0' ->
              all_nonempty s0' /\ forall p, covered s0' p <-> covered s0 p \/ cell_in q p).
    { intros s0 q s0' Hs0 Hq Hadd.
      destruct (nonempty_bounds q Hq) as [Hq1 Hq2].
      destruct (IH _ _ _ _ _ _ _ Hs0 Hq1 Hq2 Hadd) as [Ha Hb].
      split; [exact Ha|]. intros p. rewrite Hb, init_bounded_self_cell. tauto. }
    destruct (fold_step_ok all_nonempty
      (fun acc p => match acc with
                    | None => None
                    | Some s' => RectSetDefs.rs_add_at f false s' p (top p) (bottom p) (left p) (right p)
                    end)
      (fun q p => cell_in q p) nonempty (fun _ => eq_refl) Hstep
      _ _ _ (rs_delete_nonempty s i Hne) HneL H) as [Hne' Hcov'].
    split; [exact Hne'|]. intros p.
    rewrite Hcov'. change (exists x0, In x0 (r_add x (init_bounded t l b r)) /\ cell_in x0 p)
      with (covered (r_add x (init_bounded t l b r)) p).
    rewrite HcovL, (rs_delete_covered_nth s i x Hn p). unfold rs_delete. tauto.
Qed.

Theorem rs_add_covered : forall fuel s q s',
  all_nonempty s -> nonempty q -> rs_add fuel s q = Some s' ->
  all_nonempty s' /\ forall p, covered s' p <-> covered s p \/ cell_in q p.
Proof.
  intros fuel s q s' Hne Hq H. unfold rs_add, RectSetDefs.rs_add in H.
  destruct (nonempty_bounds q Hq) as [Hq1 Hq2].
  destruct (rs_add_at_covered _ _ _ _ _ _ _ _ Hne Hq1 Hq2 H) as [Ha Hb].
  split; [exact Ha|]. intros p. rewrite Hb, init_bounded_self_cell. tauto.
Qed.

Theorem rs_add_list_covered : forall fuel l s s',
  all_nonempty s -> Forall nonempty l -> rs_add_list fuel s l = Some s' ->
  all_nonempty s' /\ forall p, covered s' p <-> covered s p \/ covered l p.
Proof.
  intros fuel l s s' Hne Hl H. unfold rs_add_list, RectSetDefs.rs_add_list in H.
  exact (fold_step_ok all_nonempty
    (fun acc p => match acc with None => None | Some s' => RectSetDefs.rs_add fuel false s' p end)
    (fun q p => cell_in q p) nonempty (fun _ => eq_refl)
    (fun s0 q s0' Hs0 Hq Hadd => rs_add_covered fuel s0 q s0' Hs0 Hq Hadd)
    l s s' Hne Hl H).
Qed.

(* ------------------------------------------------------------------------------------ *)
(* 3. rs_contains (soundness of the answer [true]; no invariant needed)                  *)

Lemma split_cell x q p :
  ((top q <? top x) || (left q <? left x)) = false ->
  cell_in q p ->
  cell_in (mkRect (top q) (left q) (bottom x - top q) (cols q)) p \/
  cell_in (init_bounded (bottom x) (left q) (bottom q) (right q)) p.
Proof.
  destruct x as [tx lx hx wx], q as [tq lq hq wq], p as [y c].
  unfold cell_in, init_bounded, bottom, right; cbn [top left lines cols fst snd]. lia.
Qed.

Lemma rs_contains_scan_sound (rec : rect -> option bool) (s : rectset) :
  (forall q', rec q' = Some true -> forall p, cell_in q' p -> covered s p) ->
  forall q l, incl l s -> RectSetDefs.rs_contains_scan rec l q = Some true ->
  forall p, cell_in q p -> covered s p.
Proof.
  intros Hrec q l.
  induction l as [|x rest IH]; intros Hincl H p Hp; cbn [RectSetDefs.rs_contains_scan] in H.
  - discriminate.
  - assert (Hx : In x s) by (apply Hincl; left; reflexivity).
    assert (Hrest : incl rest s) by (intros y Hy; apply Hincl; right; exact Hy).
    destruct (negb (r_intersects x q)) eqn:E1.
    { exact (IH Hrest H p Hp). }
    destruct ((top q <? top x) || (left q <? left x)) eqn:E2; [discriminate|].
    destruct ((top q <? bottom x) && (bottom x <? bottom q)) eqn:E3.
    + destruct (rec (init_bounded (bottom x) (left q) (bottom q) (right q)))
        as [[|]|] eqn:E4; try discriminate.
      injection H as H.
      destruct (split_cell x q p E2 Hp) as [Hup|Hlow].
      * apply (covered_in s x p Hx). eapply contains_sound; eassumption.
      * eapply Hrec; eassumption.
    + injection H as H.
      apply (covered_in s x p Hx). eapply contains_sound; eassumption.
Qed.

Theorem rs_contains_sound : forall fuel s q,
  rs_contains fuel s q = Some true -> forall p, cell_in q p -> covered s p.
Proof.
  unfold rs_contains.
  induction fuel as [|f IH]; intros s q H; [discriminate|].
  cbn [RectSetDefs.rs_contains] in H.
  eapply rs_contains_scan_sound; [|apply incl_refl|exact H].
  intros q' Hq'. exact (IH s q' Hq').
Qed.

(* ------------------------------------------------------------------------------------ *)
(* 4. rs_translate                                                                       *)

Lemma r_translate_cell x d r p :
  cell_in (r_translate x d r) p <-> cell_in x (fst p - d, snd p - r).
Proof.
  destruct x as [tx lx hx wx], p as [y c].
  unfold cell_in, r_translate, bottom, right; cbn [top left lines cols fst snd]. lia.
Qed.

Lemma rs_translate_covered s d r p :
  covered (rs_translate s d r) p <-> covered s (fst p - d, snd p - r).
Proof.
  unfold rs_translate, RectSetDefs.rs_translate.
  induction s as [|x s IH]; cbn [map].
  - rewrite !covered_nil. tauto.
  - rewrite !covered_cons, IH, r_translate_cell. tauto.
Qed.

Lemma r_translate_nonempty x d r : nonempty x -> nonempty (r_translate x d r).
Proof. unfold nonempty, r_translate; cbn [lines cols]. tauto. Qed.

Lemma rs_translate_nonempty s d r : all_nonempty s -> all_nonempty (rs_translate s d r).
Proof.
  unfold all_nonempty, rs_translate, RectSetDefs.rs_translate. intros Hs.
  induction Hs as [|x s Hx Hs IH]; cbn [map]; constructor.
  - apply r_translate_nonempty. exact Hx.
  - exact IH.
Qed.

(* ------------------------------------------------------------------------------------ *)
(* 5 + 7, generic part: rs_clip rfuel and shift_damage rfuel fold rs_add / rs_add_list from [], so    *)
(* whatever invariant [I] add keeps (all_nonempty, or Inv) holds of their results        *)

Definition shift_region (rc : rect) (d r : Z) (x : rect) (p : cell) : Prop :=
  (cell_in x p /\ ~ cell_in rc p) \/
  (cell_in rc p /\ cell_in rc (fst p + d, snd p + r) /\ cell_in x (fst p + d, snd p + r)).

Lemma far_disjoint x rc :
  ((bottom x <? top rc) || (top x >? bottom rc) || (right x <? left rc) || (left x >? right rc))
    = true ->
  forall p, ~ (cell_in x p /\ cell_in rc p).
Proof.
  destruct x as [tx lx hx wx], rc as [tc lc hc wc].
  unfold cell_in, bottom, right; cbn [top left lines cols].
  intros H [y c]; cbn [fst snd]. lia.
Qed.

Lemma r_translate_neg_cell x d r p :
  cell_in (r_translate x (- d) (- r)) p <-> cell_in x (fst p + d, snd p + r).
Proof.
  destruct x as [tx lx hx wx], p as [y c].
  unfold cell_in, r_translate, bottom, right; cbn [top left lines cols fst snd]. lia.
Qed.

Definition shift_step (rc : rect) (down rightw : Z) (acc : option rectset) (x : rect)
  : option rectset :=
  match acc with
  | None => None
  | Some s =>
    if (bottom x <? top rc) || (top x >? bottom rc) || (right x <? left rc) || (left x >? right rc)
    then rs_add rfuel s x
    else
      match rs_add_list rfuel s (r_subtract x rc) with
      | None => None
      | Some s1 =>
        match r_intersect x rc with
        | None => Some s1
        | Some ins =>
          match r_intersect (r_translate ins (- down) (- rightw)) rc with
          | None => Some s1
          | Some y => rs_add rfuel s1 y
          end
        end
      end
  end.

Lemma shift_damage_unfold dmg rc d r :
  shift_damage rfuel dmg rc d r = fold_left (shift_step rc d r) dmg (Some []).
Proof. reflexivity. Qed.

Section FoldsOfAdds.
  Variable I : rectset -> Prop.
  Hypothesis I_nil : I [].
  Hypothesis I_add : forall fuel s q s',
    I s -> nonempty q -> rs_add fuel s q = Some s' ->
    I s' /\ forall p, covered s' p <-> covered s p \/ cell_in q p.
  Hypothesis I_add_list : forall fuel l s s',
    I s -> Forall nonempty l -> rs_add_list fuel s l = Some s' ->
    I s' /\ forall p, covered s' p <-> covered s p \/ covered l p.

  Lemma rs_clip_gen : forall s bounds s',
    rs_clip rfuel s bounds = Some s' ->
    I s' /\ forall p, covered s' p <-> covered s p /\ cell_in bounds p.
  Proof.
    intros s bounds s' H. unfold rs_clip in H.
    assert (Hstep : forall s0 x s0', I s0 -> True ->
              match r_intersect x bounds with
              | Some y => rs_add rfuel s0 y
              | None => Some s0
              end = Some s0' ->
              I s0' /\ forall p, covered s0' p <-> covered s0 p \/ (cell_in x p /\ cell_in bounds p)).
    { intros s0 x s0' Hs0 _ Hst.
      destruct (r_intersect x bounds) as [y|] eqn:Ei.
      - destruct (intersect_some x bounds y Ei) as [Hy Hyc].
        destruct (I_add rfuel s0 y s0' Hs0 Hy Hst) as [Ha Hb].
        split; [exact Ha|]. intros p. rewrite Hb, Hyc. tauto.
      - injection Hst as <-. split; [exact Hs0|].
        intros p. pose proof (intersect_none x bounds Ei p). tauto. }
    destruct (fold_step_ok I
      (fun acc x => match acc with
                    | None => None
                    | Some s' => match r_intersect x bounds with
                                 | Some y => rs_add rfuel s' y
                                 | None => Some s'
                                 end
                    end)
      (fun x p => cell_in x p /\ cell_in bounds p) (fun _ => True)
      (fun _ => eq_refl) Hstep s [] s' I_nil (forall_true s) H) as [HI' Hcov'].
    split; [exact HI'|]. intros p. rewrite Hcov', covered_nil. unfold covered.
    split.
    - intros [[]|[x [Hin [Hc Hb]]]]. split; [exists x; auto|exact Hb].
    - intros [[x [Hin Hc]] Hb]. right. exists x. auto.
  Qed.

  Lemma shift_step_gen rc d r s x s' :
    nonempty rc -> I s -> nonempty x ->
    shift_step rc d r (Some s) x = Some s' ->
    I s' /\ forall p, covered s' p <-> covered s p \/ shift_region rc d r x p.
  Proof.
    intros Hrc Hs Hx H. unfold shift_step in H.
    destruct ((bottom x <? top rc) || (top x >? bottom rc) || (right x <? left rc)
              || (left x >? right rc)) eqn:Efar.
    - destruct (I_add rfuel s x s' Hs Hx H) as [Ha Hb].
      split; [exact Ha|]. intros p. rewrite Hb. unfold shift_region.
      pose proof (far_disjoint x rc Efar p) as D1.
      pose proof (far_disjoint x rc Efar (fst p + d, snd p + r)) as D2.
      tauto.
    - destruct (rs_add_list rfuel s (r_subtract x rc)) as [s1|] eqn:Ea; [|discriminate].
      destruct (subtract_ok x rc Hx Hrc) as [_ [HneL [_ HcovL]]].
      destruct (I_add_list rfuel _ _ _ Hs HneL Ea) as [Hne1 Hcov1].
      destruct (r_intersect x rc) as [ins|] eqn:Ei.
      + destruct (intersect_some x rc ins Ei) as [_ Hins].
        destruct (r_intersect (r_translate ins (- d) (- r)) rc) as [y|] eqn:Ej.
        * destruct (intersect_some _ rc y Ej) as [Hy Hyc].
          destruct (I_add rfuel s1 y s' Hne1 Hy H) as [Ha Hb].
          split; [exact Ha|]. intros p.
          rewrite Hb, Hcov1, HcovL, Hyc, r_translate_neg_cell, Hins.
          unfold shift_region. tauto.
        * injection H as <-. split; [exact Hne1|]. intros p.
          rewrite Hcov1, HcovL. unfold shift_region.
          pose proof (intersect_none _ rc Ej p) as D1.
          rewrite r_translate_neg_cell, Hins in D1. tauto.
      + injection H as <-. split; [exact Hne1|]. intros p.
        rewrite Hcov1, HcovL. unfold shift_region.
        pose proof (intersect_none x rc Ei (fst p + d, snd p + r)) as D1. tauto.
  Qed.

  Lemma shift_damage_gen : forall dmg rc d r dmg',
    all_nonempty dmg -> nonempty rc -> shift_damage rfuel dmg rc d r = Some dmg' ->
    I dmg' /\
    forall p, covered dmg' p <->
              (covered dmg p /\ ~ cell_in rc p) \/
              (cell_in rc p /\ cell_in rc (fst p + d, snd p + r) /\
               covered dmg (fst p + d, snd p + r)).
  Proof.
    intros dmg rc d r dmg' Hne Hrc H. rewrite shift_damage_unfold in H.
    destruct (fold_step_ok I (shift_step rc d r) (shift_region rc d r) nonempty
                (fun _ => eq_refl)
                (fun s x s' Hs Hx Hst => shift_step_gen rc d r s x s' Hrc Hs Hx Hst)
                dmg [] dmg' I_nil Hne H) as [HI' Hcov'].
    split; [exact HI'|]. intros p. rewrite Hcov', covered_nil.
    unfold covered, shift_region. split.
    - intros [[]|[x [Hin [[Hc Hn]|[H1 [H2 H3]]]]]].
      + left. split; [exists x; auto|exact Hn].
      + right. split; [exact H1|]. split; [exact H2|exists x; auto].
    - intros [[[x [Hin Hc]] Hn]|[H1 [H2 [x [Hin Hc]]]]]; right; exists x.
      + split; [exact Hin|left; auto].
      + split; [exact Hin|right; auto].
  Qed.
End FoldsOfAdds.

(* ------------------------------------------------------------------------------------ *)
(* 5. rs_clip rfuel                                                                            *)

Theorem rs_clip_covered : forall s bounds s',
  all_nonempty s -> rs_clip rfuel s bounds = Some s' ->
  all_nonempty s' /\ forall p, covered s' p <-> covered s p /\ cell_in bounds p.
Proof.
  intros s bounds s' _ H.
  exact (rs_clip_gen all_nonempty (Forall_nil _) rs_add_covered s bounds s' H).
Qed.

(* ------------------------------------------------------------------------------------ *)
(* 6. rs_subtract / rs_sub_vis rfuel without the invariant (partial; the exact statements      *)
(*    under Inv are rs_subtract_exact / rs_sub_vis_exact of section 8)                   *)

Lemma rs_subtract_loop_covered_partial : forall lfuel fuel s i hole s',
  all_nonempty s -> nonempty hole ->
  RectSetDefs.rs_subtract_loop lfuel fuel false s i hole = Some s' ->
  all_nonempty s' /\
  (forall p, covered s p -> ~ cell_in hole p -> covered s' p) /\
  (forall p, covered s' p -> covered s p).
Proof.
  induction lfuel as [|f IH]; intros fuel s i hole s' Hne Hh H; [discriminate|].
  cbn [RectSetDefs.rs_subtract_loop] in H.
  destruct (nth_error s i) as [x|] eqn:En.
  2:{ injection H as <-. split; [exact Hne|]. split; auto. }
  destruct (negb (r_intersects x hole)) eqn:Ei.
  - exact (IH _ _ _ _ _ Hne Hh H).
  - destruct (RectSetDefs.rs_add_list fuel false (RectSetDefs.rs_delete s i) (r_subtract x hole))
      as [s1|] eqn:Ea; [|discriminate].
    pose proof (all_nonempty_nth s i x Hne En) as Hx.
    destruct (subtract_ok x hole Hx Hh) as [_ [HneL [_ HcovL]]].
    destruct (rs_add_list_covered fuel _ _ _ (rs_delete_nonempty s i Hne) HneL Ea)
      as [Hne1 Hcov1].
    destruct (IH _ _ _ _ _ Hne1 Hh H) as [Hne' [Hsup Hsub]].
    split; [exact Hne'|]. split.
    + intros p Hp Hnh. apply Hsup; [|exact Hnh].
      rewrite Hcov1, HcovL. rewrite (rs_delete_covered_nth s i x En p) in Hp. tauto.
    + intros p Hp. apply Hsub in Hp. rewrite Hcov1, HcovL in Hp.
      rewrite (rs_delete_covered_nth s i x En p). tauto.
Qed.

(* Without Inv, only this much holds: the half [covered s' p -> ~ cell_in hole p] needs the
   index argument of RectSetSubtract.v, which rests on sortedness and separation. *)
Theorem rs_subtract_covered_partial : forall fuel s hole s',
  all_nonempty s -> nonempty hole -> rs_subtract fuel s hole = Some s' ->
  all_nonempty s' /\
  (forall p, covered s p -> ~ cell_in hole p -> covered s' p) /\
  (forall p, covered s' p -> covered s p).
Proof.
  intros fuel s hole s' Hne Hh H. unfold rs_subtract, RectSetDefs.rs_subtract in H.
  exact (rs_subtract_loop_covered_partial fuel fuel s O hole s' Hne Hh H).
Qed.

Lemma rs_sub_vis_none l : rs_sub_vis rfuel None l = None.
Proof. unfold rs_sub_vis. apply fold_left_none. intros x. reflexivity. Qed.

Lemma rs_sub_vis_cons s c l :
  rs_sub_vis rfuel (Some s) (c :: l) =
  rs_sub_vis rfuel (if w_vis (t_info c) then rs_subtract rfuel s (w_rect (t_info c)) else Some s) l.
Proof. reflexivity. Qed.

Theorem rs_sub_vis_covered_partial : forall l s s',
  all_nonempty s ->
  Forall (fun c => w_vis (t_info c) = true -> nonempty (w_rect (t_info c))) l ->
  rs_sub_vis rfuel (Some s) l = Some s' ->
  all_nonempty s' /\
  (forall p, covered s p ->
             (forall c, In c l -> w_vis (t_info c) = true -> ~ cell_in (w_rect (t_info c)) p) ->
             covered s' p) /\
  (forall p, covered s' p -> covered s p).
Proof.
  induction l as [|c l IH]; intros s s' Hne Hl H.
  - unfold rs_sub_vis in H; cbn [fold_left] in H. injection H as <-.
    split; [exact Hne|]. split; auto.
  - rewrite rs_sub_vis_cons in H.
    inversion Hl as [|c' l' Hc Hl']; subst.
    destruct (w_vis (t_info c)) eqn:Ev.
    + destruct (rs_subtract rfuel s (w_rect (t_info c))) as [s1|] eqn:Es.
      2:{ rewrite rs_sub_vis_none in H. discriminate. }
      destruct (rs_subtract_covered_partial rfuel s _ s1 Hne (Hc eq_refl) Es)
        as [Hne1 [Hsup1 Hsub1]].
      destruct (IH s1 s' Hne1 Hl' H) as [Hne' [Hsup Hsub]].
      split; [exact Hne'|]. split.
      * intros p Hp Hout. apply Hsup.
        -- apply Hsup1; [exact Hp|]. apply (Hout c); [left; reflexivity|exact Ev].
        -- intros c0 Hin Hv. apply (Hout c0); [right; exact Hin|exact Hv].
      * intros p Hp. apply Hsub1. apply Hsub. exact Hp.
    + destruct (IH s s' Hne Hl' H) as [Hne' [Hsup Hsub]].
      split; [exact Hne'|]. split.
      * intros p Hp Hout. apply Hsup; [exact Hp|].
        intros c0 Hin Hv. apply (Hout c0); [right; exact Hin|exact Hv].
      * exact Hsub.
Qed.

(* ------------------------------------------------------------------------------------ *)
(* 7. shift_damage rfuel                                                                       *)

Theorem shift_damage_covered : forall dmg rc d r dmg',
  all_nonempty dmg -> nonempty rc -> shift_damage rfuel dmg rc d r = Some dmg' ->
  all_nonempty dmg' /\
  forall p, covered dmg' p <->
            (covered dmg p /\ ~ cell_in rc p) \/
            (cell_in rc p /\ cell_in rc (fst p + d, snd p + r) /\
             covered dmg (fst p + d, snd p + r)).
Proof.
  exact (shift_damage_gen all_nonempty (Forall_nil _) rs_add_covered rs_add_list_covered).
Qed.

(* ------------------------------------------------------------------------------------ *)
(* 8. Exact facts under the C05 invariant Inv (members non-empty, pairwise separated and  *)
(*    not vertically mergeable, sorted by (top, left)), from the C05 theorems             *)

Lemma inv_nil : Inv [].
Proof. exact RectSetProofs.Inv_nil. Qed.

Lemma inv_disjoint s : Inv s -> pairwise_disjoint s /\ all_nonempty s.
Proof.
  intros H. destruct (RectSetHistory.inv_demands s H) as [H1 [H2 _]]. split; assumption.
Qed.

Lemma inv_all_nonempty s : Inv s -> all_nonempty s.
Proof. intros H. apply (inv_disjoint s H). Qed.

Theorem rs_add_inv : forall fuel s q s',
  Inv s -> nonempty q -> rs_add fuel s q = Some s' ->
  Inv s' /\ forall p, covered s' p <-> covered s p \/ cell_in q p.
Proof.
  intros fuel s q s' Hinv Hq H. exact (RectSetProofs.rs_add_ok fuel s q s' Hinv Hq H).
Qed.

Theorem rs_add_list_inv : forall fuel l s s',
  Inv s -> Forall nonempty l -> rs_add_list fuel s l = Some s' ->
  Inv s' /\ forall p, covered s' p <-> covered s p \/ covered l p.
Proof.
  intros fuel l s s' Hinv Hl H. exact (RectSetProofs.rs_add_list_ok fuel l s s' Hinv Hl H).
Qed.

Theorem rs_subtract_exact : forall fuel s hole s',
  Inv s -> nonempty hole -> rs_subtract fuel s hole = Some s' ->
  Inv s' /\ forall p, covered s' p <-> covered s p /\ ~ cell_in hole p.
Proof.
  intros fuel s hole s' Hinv Hh H.
  exact (RectSetSubtract.rs_subtract_ok fuel s hole s' Hinv Hh H).
Qed.

Lemma rs_translate_inv s d r : Inv s -> Inv (rs_translate s d r).
Proof. intros H. exact (proj1 (RectSetHistory.rs_translate_ok s d r H)). Qed.

(* exactness of contains under the invariant (both answers) *)
Theorem rs_contains_exact : forall fuel s q ans,
  Inv s -> nonempty q -> rs_contains fuel s q = Some ans ->
  (ans = true <-> forall p, cell_in q p -> covered s p).
Proof.
  intros fuel s q ans Hinv Hq H.
  exact (RectSetQueries.rs_contains_ok s Hinv fuel q ans Hq H).
Qed.

(* rs_clip rfuel folds adds from []: the result satisfies Inv whatever s is *)
Theorem rs_clip_inv_any : forall s bounds s',
  rs_clip rfuel s bounds = Some s' ->
  Inv s' /\ forall p, covered s' p <-> covered s p /\ cell_in bounds p.
Proof. exact (rs_clip_gen Inv inv_nil rs_add_inv). Qed.

Theorem rs_clip_inv : forall s bounds s',
  Inv s -> rs_clip rfuel s bounds = Some s' ->
  Inv s' /\ forall p, covered s' p <-> covered s p /\ cell_in bounds p.
Proof. intros s bounds s' _ H. exact (rs_clip_inv_any s bounds s' H). Qed.

Theorem rs_sub_vis_exact : forall l s s',
  Inv s ->
  Forall (fun c => w_vis (t_info c) = true -> nonempty (w_rect (t_info c))) l ->
  rs_sub_vis rfuel (Some s) l = Some s' ->
  Inv s' /\
  forall p, covered s' p <->
            covered s p /\
            forall c, In c l -> w_vis (t_info c) = true -> ~ cell_in (w_rect (t_info c)) p.
Proof.
  induction l as [|c l IH]; intros s s' Hinv Hl H.
  - unfold rs_sub_vis in H; cbn [fold_left] in H. injection H as <-.
    split; [exact Hinv|]. intros p. split.
    + intros Hp. split; [exact Hp|]. intros c [].
    + intros [Hp _]. exact Hp.
  - rewrite rs_sub_vis_cons in H.
    inversion Hl as [|c' l' Hc Hl']; subst.
    destruct (w_vis (t_info c)) eqn:Ev.
    + destruct (rs_subtract rfuel s (w_rect (t_info c))) as [s1|] eqn:Es.
      2:{ rewrite rs_sub_vis_none in H. discriminate. }
      destruct (rs_subtract_exact rfuel s _ s1 Hinv (Hc eq_refl) Es) as [Hinv1 Hcov1].
      destruct (IH s1 s' Hinv1 Hl' H) as [Hinv' Hcov'].
      split; [exact Hinv'|]. intros p. rewrite Hcov', Hcov1. split.
      * intros [[Hp Hn] Hout]. split; [exact Hp|].
        intros c0 [<-|Hin] Hv; [exact Hn|exact (Hout c0 Hin Hv)].
      * intros [Hp Hout]. split; [split|].
        -- exact Hp.
        -- apply (Hout c); [left; reflexivity|exact Ev].
        -- intros c0 Hin Hv. apply (Hout c0); [right; exact Hin|exact Hv].
    + destruct (IH s s' Hinv Hl' H) as [Hinv' Hcov'].
      split; [exact Hinv'|]. intros p. rewrite Hcov'. split.
      * intros [Hp Hout]. split; [exact Hp|].
        intros c0 [<-|Hin] Hv; [congruence|exact (Hout c0 Hin Hv)].
      * intros [Hp Hout]. split; [exact Hp|].
        intros c0 Hin Hv. apply (Hout c0); [right; exact Hin|exact Hv].
Qed.

(* shift_damage rfuel folds adds from []: the result satisfies Inv whatever the order/shape of dmg
   (its members only have to be non-empty) *)
Theorem shift_damage_inv : forall dmg rc d r dmg',
  all_nonempty dmg -> nonempty rc -> shift_damage rfuel dmg rc d r = Some dmg' ->
  Inv dmg' /\
  forall p, covered dmg' p <->
            (covered dmg p /\ ~ cell_in rc p) \/
            (cell_in rc p /\ cell_in rc (fst p + d, snd p + r) /\
             covered dmg (fst p + d, snd p + r)).
Proof. exact (shift_damage_gen Inv inv_nil rs_add_inv rs_add_list_inv). Qed.

End Fuel.
