(* LoopIo.v -- IO watches at the heap level: t->iowatches (the chain, as in LoopChain.v) and the
   default event loop's slot arrays (evloop-default.c: pollfds[] / pollwatches[], the index kept in
   the watch), the dispatch of ready descriptors after poll, cancellation (from the program, from
   inside callbacks: of the own watch, of one whose slot comes later in the same dispatch, of
   one already passed), registration from callbacks (reuses the first free slot -- possibly one
   that the running dispatch has not reached yet -- or appends), destruction.

   The instance is the BUILT one: tickit_build() has registered its own IO watch on the
   terminal's input descriptor (cell 0, slot 0; for the harness's mock terminal the descriptor
   is -1, so that slot 0 looks free to evloop_io and is reused by the first application watch,
   while the internal watch keeps index 0), without notification flags; it is freed by
   destroy_watchlist.  (The application has no handle on it; the model lets scripts cancel it all
   the same -- identity 0 -- which only widens what io_safe covers.)

   j_*: the specification -- identities only, a finite table, total.
   hi_*: the heap level -- nodes at addresses (LoopChain's cells, crd = checked read, cfree), the
   slot array holds addresses; None = a read of a freed node (Fault).
   LoopIoProofs.v: io_safe -- for every callback table and script the heap level does not fault,
   frees every node, and logs what the specification logs. *)
From Coq Require Import ZArith List Bool Lia.
From Tickit Require Import LoopDefs LoopSpec LoopChain.
Import ListNotations.
Local Open Scope Z_scope.

Record slot := mkSl { sl_fd : Z; sl_rev : bool; sl_w : Z }.

(* evloop_io: for(idx = 0; idx < nfds; idx++) if(pollfds[idx].fd == -1) goto reuse_idx; *)
Fixpoint first_free (l : list slot) : nat :=
  match l with [] => O | s :: t => if sl_fd s =? -1 then O else S (first_free t) end.

Definition put_slot (l : list slot) (i : nat) (v : slot) : list slot :=
  if Nat.ltb i (length l) then cupd l i v else l ++ [v].

(* evloop_cancel_io: pollfds[idx].fd = -1; pollwatches[idx] = NULL (revents is left alone) *)
Definition clear_slot (l : list slot) (i : Z) : list slot :=
  match nth_error l (Z.to_nat i) with
  | Some sl => cupd l (Z.to_nat i) (mkSl (-1) (sl_rev sl) (-1))
  | None => l
  end.

(* poll: revents of every slot; negative descriptors are ignored *)
Definition poll_slots (ready : list Z) (l : list slot) : list slot :=
  map (fun sl => mkSl (sl_fd sl) (if sl_fd sl <? 0 then false else zin (sl_fd sl) ready) (sl_w sl)) l.

Inductive iact := IReg (first : bool) (fd : Z) (ub ds : bool) (cb : Z) | ICancel (id : Z) | INop.
Inductive iop := JAct (a : iact) | JTick (ready : list Z).

(* an IO watch as a LoopChain cell: c_key = the descriptor, c_st = the slot index *)
Definition io_cell (id fd : Z) (idx : nat) (ub ds : bool) (cb : Z) : cw := mkCw id fd false (Z.of_nat idx) ub ds cb.

(* the terminal watch of tickit_build *)
Definition TERM_FD : Z := -1.
Definition TERM_CB : Z := -1.
Definition term_watch : cw := io_cell 0 TERM_FD 0 false false TERM_CB.

(* ------------------------------------------------------------------ the specification *)

Record jst := mkJ { j_tab : list cw; j_sl : list slot; j_next : Z; j_iter : Z; j_log : list obs }.
Definition jst_built : jst := mkJ [term_watch] [mkSl TERM_FD false 0] 1 0 [].

Definition jemit (s : jst) (w : cw) (flags x : Z) : jst :=
  mkJ (j_tab s) (j_sl s) (j_next s) (j_iter s) (OEv (mkE (c_id w) KIo flags (j_iter s) 0 x) :: j_log s).

Definition j_action (s : jst) (a : iact) : jst :=
  match a with
  | IReg first fd ub ds cb =>
      let i := first_free (j_sl s) in
      let w := io_cell (j_next s) fd i ub ds cb in
      mkJ (if first then w :: j_tab s else j_tab s ++ [w]) (put_slot (j_sl s) i (mkSl fd false (j_next s)))
          (j_next s + 1) (j_iter s) (j_log s)
  | ICancel id =>
      match cfind id (j_tab s) with
      | Some w =>
          let s1 := mkJ (cremove id (j_tab s)) (j_sl s) (j_next s) (j_iter s) (j_log s) in
          let s2 := if c_unbind w then jemit s1 w EV_UNBIND 0 else s1 in
          mkJ (j_tab s2) (clear_slot (j_sl s2) (c_st w)) (j_next s2) (j_iter s2) (j_log s2)
      | None => s
      end
  | INop => s
  end.
Definition j_actions (s : jst) (l : list iact) : jst := fold_left j_action l s.

Section WithEnv.
Variable env : Z -> list iact.

(* the dispatch loop: slot by slot; the slots appended while it runs carry revents = 0 and are
   passed over, so the walk is over the indices that existed when poll returned *)
Fixpoint j_walk (idxs : list nat) (s : jst) : jst :=
  match idxs with
  | [] => s
  | i :: r =>
      match nth_error (j_sl s) i with
      | None => j_walk r s
      | Some sl =>
          if (sl_fd sl =? -1) || negb (sl_rev sl) then j_walk r s
          else match cfind (sl_w sl) (j_tab s) with
               | None => j_walk r s
               | Some w => j_walk r (j_actions (jemit s w EV_FIRE 1) (env (c_cb w)))
               end
      end
  end.

Definition j_tick (ready : list Z) (s : jst) : jst :=
  let s1 := mkJ (j_tab s) (poll_slots ready (j_sl s)) (j_next s) (j_iter s + 1) (OPoll 0 :: j_log s) in
  j_walk (seq 0 (length (j_sl s1))) s1.

Definition j_op (s : jst) (o : iop) : jst :=
  match o with JAct a => j_action s a | JTick ready => j_tick ready s end.

Definition j_destroy (s : jst) : jst :=
  let s0 := mkJ (j_tab s) (j_sl s) (j_next s) (-1) (j_log s) in
  fold_left (fun s w =>
     let s1 := if c_unbind w || c_destroy w then jemit s w (EV_UNBIND + EV_DESTROY) 0 else s in
     mkJ (j_tab s1) (clear_slot (j_sl s1) (c_st w)) (j_next s1) (j_iter s1) (j_log s1)) (j_tab s0) s0.

Definition j_run (ops : list iop) : list obs := rev (j_log (j_destroy (fold_left j_op ops jst_built))).

Definition j_checkb (ops : list iop) (o : list obs) : bool :=
  let sp := j_run ops in
  list_eqb obs_eqb (filter (fun x => negb (in_destroy x)) sp) (filter (fun x => negb (in_destroy x)) o) &&
  list_eqb (fun a b => Bool.eqb (in_destroy a) (in_destroy b)) sp o &&
  bag_eqb (filter in_destroy sp) (filter in_destroy o).

(* ------------------------------------------------------------------ the heap level *)

Record his := mkHi { i_h : hcs; i_sl : list slot }.
Definition his_built : his :=
  mkHi (mkHc [CLive term_watch] [0] None [0] [] O 0 []) [mkSl TERM_FD false 0].

Definition set_h (h : his) (v : hcs) : his := mkHi v (i_sl h).

Definition hiemit (h : hcs) (w : cw) (flags x : Z) : hcs :=
  let lv := if Z.testbit flags 1 || Z.testbit flags 2 then zrem (c_id w) (c_live h) else c_live h in
  mkHc (c_hp h) (c_chain h) (c_cursor h) lv (c_exits h) (c_sched h) (c_iter h)
       (OEv (mkE (c_id w) KIo flags (c_iter h) 0 x) :: c_log h).

Definition hi_reg (h : his) (first : bool) (fd : Z) (ub ds : bool) (cb : Z) : option his :=
  let g := i_h h in
  let a := Z.of_nat (length (c_hp g)) in
  let i := first_free (i_sl h) in
  let w := io_cell a fd i ub ds cb in
  let sl' := put_slot (i_sl h) i (mkSl fd false a) in
  if first then Some (mkHi (mkHc (c_hp g ++ [CLive w]) (a :: c_chain g) None (a :: c_live g) [] O (c_iter g) (c_log g)) sl')
  else if call_live g (c_chain g)
       then Some (mkHi (mkHc (c_hp g ++ [CLive w]) (c_chain g ++ [a]) None (a :: c_live g) [] O (c_iter g) (c_log g)) sl')
       else None.

(* tickit_watch_cancel / cancel_watch_in: watch->type, unlink, this->flags, the UNBIND
   notification, the cancel_io hook (reads the index from the watch), free *)
Definition hi_cancel (h : his) (a : Z) : option his :=
  let g := i_h h in
  match crd g a with
  | None => None
  | Some w =>
      match c_unlink g a (c_chain g) with
      | None => None
      | Some None => Some h
      | Some (Some q) =>
          let g1 := mkHc (c_hp g) q None (c_live g) [] O (c_iter g) (c_log g) in
          let g2 := if c_unbind w then hiemit g1 w EV_UNBIND 0 else g1 in
          match crd g2 a with
          | None => None
          | Some w' =>
              match cfree g2 a with
              | None => None
              | Some g3 => Some (mkHi g3 (clear_slot (i_sl h) (c_st w')))
              end
          end
      end
  end.

Definition hi_action (h : his) (a : iact) : option his :=
  match a with
  | IReg first fd ub ds cb => hi_reg h first fd ub ds cb
  | ICancel id =>
      let g := i_h h in
      if zin id (c_live g)
      then hi_cancel (set_h h (mkHc (c_hp g) (c_chain g) None (zrem id (c_live g)) [] O (c_iter g) (c_log g))) id
      else Some h
  | INop => Some h
  end.
Definition hi_actions (h : his) (l : list iact) : option his :=
  fold_left (fun oh a => match oh with Some h => hi_action h a | None => None end) l (Some h).

(* for(idx = 0; idx < nfds; idx++) { if(fd == -1) continue; if(!revents) continue;
     tickit_evloop_invoke_iowatch(pollwatches[idx], ...) }  -- the watch is dereferenced *)
Fixpoint hi_walk (idxs : list nat) (h : his) : option his :=
  match idxs with
  | [] => Some h
  | i :: r =>
      match nth_error (i_sl h) i with
      | None => hi_walk r h
      | Some sl =>
          if (sl_fd sl =? -1) || negb (sl_rev sl) then hi_walk r h
          else match crd (i_h h) (sl_w sl) with
               | None => None
               | Some w =>
                   match hi_actions (set_h h (hiemit (i_h h) w EV_FIRE 1)) (env (c_cb w)) with
                   | None => None
                   | Some h' => hi_walk r h'
                   end
               end
      end
  end.

Definition hi_tick (ready : list Z) (h : his) : option his :=
  let g := i_h h in
  let h1 := mkHi (mkHc (c_hp g) (c_chain g) None (c_live g) [] O (c_iter g + 1) (OPoll 0 :: c_log g)) (poll_slots ready (i_sl h)) in
  hi_walk (seq 0 (length (i_sl h1))) h1.

Definition hi_op (oh : option his) (o : iop) : option his :=
  match oh with
  | None => None
  | Some h => match o with JAct a => hi_action h a | JTick ready => hi_tick ready h end
  end.

(* destroy_watchlist(t->iowatches, cancel_io): this->next, this->flags, the notification, the hook, free *)
Definition hi_destroy (h : his) : option his :=
  let g := i_h h in
  let h0 := mkHi (mkHc (c_hp g) (c_chain g) None (c_live g) [] O (-1) (c_log g)) (i_sl h) in
  match fold_left (fun oh a =>
          match oh with
          | None => None
          | Some h =>
              match crd (i_h h) a with
              | None => None
              | Some w =>
                  let g1 := if c_unbind w || c_destroy w then hiemit (i_h h) w (EV_UNBIND + EV_DESTROY) 0 else i_h h in
                  match cfree g1 a with
                  | None => None
                  | Some g2 => Some (mkHi g2 (clear_slot (i_sl h) (c_st w)))
                  end
              end
          end) (c_chain (i_h h0)) (Some h0) with
  | Some h' => Some h'
  | None => None
  end.

Definition hi_run (ops : list iop) : option (list obs * bool) :=
  match fold_left hi_op ops (Some his_built) with
  | None => None
  | Some h => match hi_destroy h with
              | None => None
              | Some h' => Some (rev (c_log (i_h h')), c_no_live (i_h h'))
              end
  end.

End WithEnv.
