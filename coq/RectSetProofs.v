(* RectSetProofs.v -- C05, part 1: list/invariant lemmas, insert_rect, delete_rect, the scan
   of tickit_rectset_add, and the theorem about tickit_rectset_add (repaired code,
   stale = false): the invariant is kept and the covered cells are exactly the old ones
   plus those of the added rectangle -- for every fuel for which the model returns. *)
From Coq Require Import ZArith List Bool Lia ZifyBool.
From Tickit Require Import RectDefs RectProofs RectSetDefs RectSetSpec.
Import ListNotations.
Local Open Scope Z_scope.

(* ------------------------------------------------------------------ *)
(* pairwise                                                            *)

Lemma pairwise_app {A} (P : A -> A -> Prop) a b :
  pairwise P (a ++ b) <->
  pairwise P a /\ pairwise P b /\ (forall x y, In x a -> In y b -> P x y).
Proof.
  induction a as [|h a IH]; cbn [app pairwise].
  - split; [intros H; repeat split; auto; intros x y []|tauto].
  - rewrite IH, Forall_app, !Forall_forall. split.
    + intros [[H1 H2] [H3 [H4 H5]]]. repeat split; auto.
      intros x y [<-|Hx] Hy; auto.
    + intros [[H1 H2] [H3 H4]]. repeat split; auto.
      * intros y Hy. apply H4; simpl; auto.
      * intros x y Hx Hy. apply H4; simpl; auto.
Qed.

Lemma pairwise_cons {A} (P : A -> A -> Prop) a s :
  pairwise P (a :: s) <-> Forall (P a) s /\ pairwise P s.
Proof. reflexivity. Qed.

Lemma pairwise_remove {A} (P : A -> A -> Prop) pre x post :
  pairwise P (pre ++ x :: post) -> pairwise P (pre ++ post).
Proof.
  rewrite !pairwise_app, pairwise_cons. intros [H1 [[H2 H3] H4]].
  repeat split; auto. intros a b Ha Hb. apply H4; simpl; auto.
Qed.

Lemma pairwise_In {A} (P : A -> A -> Prop) s :
  (forall a b, P a b -> P b a) -> pairwise P s ->
  forall a b, In a s -> In b s -> a = b \/ P a b.
Proof.
  intros Hsym. induction s as [|h s IH]; cbn [pairwise]; [intros _ a b []|].
  intros [Hh Hs] a b [<-|Ha] [<-|Hb]; auto.
  - right. rewrite Forall_forall in Hh. auto.
  - right. rewrite Forall_forall in Hh. auto.
Qed.

Lemma pairwise_mid {A} (P : A -> A -> Prop) pre x post :
  pairwise P (pre ++ x :: post) ->
  (forall y, In y pre -> P y x) /\ (forall y, In y post -> P x y).
Proof.
  rewrite pairwise_app, pairwise_cons, Forall_forall. intros [_ [[H2 _] H4]]. split.
  - intros y Hy. apply H4; simpl; auto.
  - exact H2.
Qed.

(* ------------------------------------------------------------------ *)
(* keys, sep                                                           *)

Lemma key_le_trans a b c : key_le a b -> key_le b c -> key_le a c.
Proof. unfold key_le; lia. Qed.

Lemma key_leb_iff a b : key_leb a b = true <-> key_le a b.
Proof. unfold key_leb, key_le; lia. Qed.

Lemma cmprect_gt a b : cmprect a b > 0 -> key_le b a /\ ~ key_le a b.
Proof. unfold cmprect, key_le. destruct (top a =? top b) eqn:E; cbn [negb]; lia. Qed.

Lemma cmprect_le a b : ~ cmprect a b > 0 -> key_le a b.
Proof. unfold cmprect, key_le. destruct (top a =? top b) eqn:E; cbn [negb]; lia. Qed.

Lemma sep_sym a b : sep a b -> sep b a.
Proof. unfold sep; lia. Qed.

Lemma sepx_sym a b : sepx a b -> sepx b a.
Proof. unfold sepx, sep, novm; lia. Qed.

Lemma sepx_sep a b : sepx a b -> sep a b.
Proof. unfold sepx; tauto. Qed.

Lemma sep_disjoint a b : sep a b -> disjoint2 a b.
Proof. unfold sep, disjoint2, cell_in. intros H [y x]; cbn [fst snd]. lia. Qed.

Lemma pairwise_sep_disjoint s : pairwise sepx s -> pairwise_disjoint s.
Proof.
  induction s as [|a s IH]; cbn [pairwise pairwise_disjoint]; [auto|].
  intros [H1 H2]. split; [|auto].
  eapply Forall_impl; [|exact H1]. intros b Hb; apply sep_disjoint, sepx_sep, Hb.
Qed.

Lemma sortedb_iff s : sortedb s = true <-> sorted s.
Proof.
  unfold sorted. induction s as [|a s IH]; cbn [sortedb pairwise]; [tauto|].
  destruct s as [|b s'].
  - cbn [sortedb pairwise]. split; auto.
  - rewrite andb_true_iff, IH, key_leb_iff. cbn [pairwise]. split.
    + intros [Hab [Hb Hs]]. repeat split; auto.
      constructor; [exact Hab|].
      eapply Forall_impl; [|exact Hb]. intros c; apply key_le_trans; exact Hab.
    + intros [Ha Hs]. split; [inversion Ha; assumption|exact Hs].
Qed.

(* ------------------------------------------------------------------ *)
(* the invariant under deletion and insertion                          *)

Lemma Inv_nil : Inv [].
Proof. unfold Inv, sorted; cbn [pairwise]; auto. Qed.

Lemma Inv_remove pre x post : Inv (pre ++ x :: post) -> Inv (pre ++ post).
Proof.
  unfold Inv, sorted. intros [Hn [Hs Ho]]. repeat split.
  - rewrite Forall_app in *. destruct Hn as [H1 H2]. inversion H2; auto.
  - eapply pairwise_remove; eauto.
  - eapply pairwise_remove; eauto.
Qed.

Lemma Inv_In_nonempty s x : Inv s -> In x s -> nonempty x.
Proof. intros [Hn _] Hx. rewrite Forall_forall in Hn. auto. Qed.

Lemma Inv_insert_mid pre post c :
  Inv (pre ++ post) -> nonempty c -> Forall (sepx c) (pre ++ post) ->
  Forall (fun y => key_le y c) pre -> Forall (key_le c) post ->
  Inv (pre ++ c :: post).
Proof.
  unfold Inv, sorted. intros [Hn [Hs Ho]] Hc Hsep Hpre Hpost.
  rewrite Forall_app in Hn, Hsep. destruct Hn as [Hn1 Hn2]. destruct Hsep as [Hs1 Hs2].
  rewrite pairwise_app in Hs, Ho.
  destruct Hs as [Hsa [Hsb Hsc]]. destruct Ho as [Hoa [Hob Hoc]].
  rewrite Forall_forall in Hs1, Hs2, Hpre, Hpost.
  split; [|split].
  - rewrite Forall_app. split; auto.
  - rewrite pairwise_app, pairwise_cons, Forall_forall.
    split; [exact Hsa|]. split; [split; [exact Hs2|exact Hsb]|].
    intros x y Hx [<-|Hy]; auto. apply sepx_sym; auto.
  - rewrite pairwise_app, pairwise_cons, Forall_forall.
    split; [exact Hoa|]. split; [split; [exact Hpost|exact Hob]|].
    intros x y Hx [<-|Hy]; auto.
Qed.

Lemma rs_insert_split s c : sorted s ->
  exists pre post, s = pre ++ post /\ rs_insert s c = pre ++ c :: post /\
                   Forall (fun y => key_le y c) pre /\ Forall (key_le c) post.
Proof.
  unfold sorted. induction s as [|x rest IH]; cbn [rs_insert pairwise].
  - intros _. exists [], []. repeat split; auto.
  - intros [Hx Hrest]. destruct (cmprect x c >? 0) eqn:E.
    + exists [], (x :: rest). repeat split; auto.
      assert (Hcx : key_le c x) by (apply cmprect_gt; lia).
      constructor; [exact Hcx|].
      eapply Forall_impl; [|exact Hx]. intros y; apply key_le_trans; exact Hcx.
    + destruct (IH Hrest) as [pre [post [E1 [E2 [H1 H2]]]]].
      exists (x :: pre), post. cbn [app]. rewrite E2, E1. repeat split; auto.
      constructor; [|exact H1]. apply cmprect_le; lia.
Qed.

Lemma rs_delete_mid pre x post : rs_delete (pre ++ x :: post) (length pre) = pre ++ post.
Proof. induction pre as [|h pre IH]; cbn [app length rs_delete]; [reflexivity|now rewrite IH]. Qed.

Lemma covered_remove_mid pre x post p :
  covered (pre ++ x :: post) p <-> cell_in x p \/ covered (pre ++ post) p.
Proof. rewrite !covered_app, covered_cons. tauto. Qed.

(* ------------------------------------------------------------------ *)
(* the scan of tickit_rectset_add                                      *)

Lemma init_bounded_edges t l b r :
  top (init_bounded t l b r) = t /\ left (init_bounded t l b r) = l /\
  bottom (init_bounded t l b r) = b /\ right (init_bounded t l b r) = r.
Proof. unfold init_bounded, bottom, right; cbn [top left lines cols]. lia. Qed.

Definition scan_post (cur : rect) (s : rectset) (i0 : nat) (res : scan_result) : Prop :=
  match res with
  | ScInsert => Forall (sepx cur) s
  | ScReturn => exists x, In x s /\ forall p, cell_in cur p -> cell_in x p
  | ScMerge i t' b' l' r' =>
      exists pre x post, s = pre ++ x :: post /\ i = (i0 + length pre)%nat /\
        t' < b' /\ l' < r' /\
        forall p, cell_in (init_bounded t' l' b' r') p <-> cell_in cur p \/ cell_in x p
  | ScSplit i x => exists pre post, s = pre ++ x :: post /\ i = (i0 + length pre)%nat
  end.

Lemma scan_post_shift cur x rest i0 res :
  scan_post cur rest (S i0) res -> sepx cur x -> scan_post cur (x :: rest) i0 res.
Proof.
  destruct res as [| |i t' b' l' r'|i y]; cbn [scan_post].
  - intros H Hx. constructor; auto.
  - intros [y [Hy Hc]] _. exists y. split; [right; exact Hy|exact Hc].
  - intros [pre [y [post [E [Ei H]]]]] _. exists (x :: pre), y, post.
    cbn [app length]. rewrite E. split; [reflexivity|]. split; [lia|exact H].
  - intros [pre [post [E Ei]]] _. exists (x :: pre), post.
    cbn [app length]. rewrite E. split; [reflexivity|lia].
Qed.

Lemma rs_scan_spec_gen cur t b l r :
  top cur = t -> left cur = l -> bottom cur = b -> right cur = r -> t < b -> l < r ->
  forall s i0, Forall nonempty s -> sorted s ->
  scan_post cur s i0 (rs_scan cur t b l r s i0).
Proof.
  intros Ect Ecl Ecb Ecr Ht Hl.
  unfold sorted.
  induction s as [|x rest IH]; intros i0 Hne Hso; cbn [rs_scan].
  - constructor.
  - apply Forall_cons_iff in Hne. destruct Hne as [Hx Hrest]. destruct Hso as [Hxle Hso].
    assert (Hx' := Hx). unfold nonempty in Hx'.
    destruct (b <? top x) eqn:Ebreak.
    { (* break: everything from here on starts below the bottom *)
      cbn [scan_post]. constructor.
      - unfold sepx, sep, novm, bottom, right in *. lia.
      - rewrite Forall_forall in Hxle, Hrest. apply Forall_forall. intros y Hy.
        pose proof (Hxle y Hy) as Hk. pose proof (Hrest y Hy) as Hyn.
        unfold key_le, nonempty in *. unfold sepx, sep, novm, bottom, right in *. lia. }
    destruct ((t >? bottom x) || (l >? right x) || (r <? left x)) eqn:Eskip.
    { apply scan_post_shift; [apply IH; assumption|]. unfold sepx, sep, novm, bottom, right in *. lia. }
    destruct (r_contains x cur) eqn:Econt.
    { cbn [scan_post]. exists x. split; [left; reflexivity|].
      apply contains_iff; [|exact Econt]. unfold nonempty, bottom, right in *. lia. }
    destruct (((t =? top x) && (b =? bottom x)) || ((l =? left x) && (r =? right x))) eqn:Emerge.
    { cbn [scan_post]. exists [], x, rest. cbn [app length].
      split; [reflexivity|]. split; [lia|].
      unfold bottom, right in *.
      destruct (top x <? t) eqn:E1; destruct (top x + lines x >? b) eqn:E2;
        destruct (left x <? l) eqn:E3; destruct (left x + cols x >? r) eqn:E4;
        (split; [lia|]); (split; [lia|]);
        intros [py px]; unfold cell_in, init_bounded, bottom, right;
        cbn [top left lines cols fst snd]; lia. }
    destruct ((t =? bottom x) || (b =? top x)) eqn:Etouch.
    { apply scan_post_shift; [apply IH; assumption|]. unfold sepx, sep, novm, bottom, right in *. lia. }
    cbn [scan_post]. exists [], rest. cbn [app length]. split; [reflexivity|lia].
Qed.

Lemma rs_scan_spec t b l r : t < b -> l < r ->
  forall s i0, Forall nonempty s -> sorted s ->
  scan_post (init_bounded t l b r) s i0 (rs_scan (init_bounded t l b r) t b l r s i0).
Proof.
  intros Ht Hl.
  destruct (init_bounded_edges t l b r) as [Ect [Ecl [Ecb Ecr]]].
  apply rs_scan_spec_gen; assumption.
Qed.

(* ------------------------------------------------------------------ *)
(* tickit_rectset_add                                                  *)

Definition add_post (s : rectset) (c : rect) (s' : rectset) : Prop :=
  Inv s' /\ forall p, covered s' p <-> covered s p \/ cell_in c p.

Lemma init_bounded_self c p :
  cell_in (init_bounded (top c) (left c) (bottom c) (right c)) p <-> cell_in c p.
Proof.
  unfold cell_in, init_bounded, bottom, right; cbn [top left lines cols]. lia.
Qed.

Lemma fold_add_none {A B} (f : B -> A -> option B) ps :
  fold_left (fun acc p => match acc with None => None | Some s' => f s' p end) ps None = None.
Proof. induction ps as [|p ps IH]; cbn [fold_left]; auto. Qed.

(* adding a list of rectangles one after the other, given that a single add is right *)
Lemma fold_add_ok (add1 : rectset -> rect -> option rectset) :
  (forall s c s', Inv s -> nonempty c -> add1 s c = Some s' -> add_post s c s') ->
  forall ps s0 s', Inv s0 -> Forall nonempty ps ->
    fold_left (fun acc p => match acc with None => None | Some s1 => add1 s1 p end) ps (Some s0) = Some s' ->
    Inv s' /\ forall p, covered s' p <-> covered s0 p \/ covered ps p.
Proof.
  intros Hadd. induction ps as [|c ps IH]; intros s0 s' Hinv Hne; cbn [fold_left].
  - intros [= <-]. split; [exact Hinv|]. intros p. rewrite covered_nil. tauto.
  - inversion Hne as [|? ? Hc Hps]; subst.
    destruct (add1 s0 c) as [s1|] eqn:E1; [|rewrite fold_add_none; discriminate].
    intros Hfold. destruct (Hadd _ _ _ Hinv Hc E1) as [Hinv1 Hcov1].
    destruct (IH _ _ Hinv1 Hps Hfold) as [Hinv' Hcov']. split; [exact Hinv'|].
    intros p. rewrite Hcov', Hcov1, covered_cons. tauto.
Qed.

Lemma rs_add_at_ok : forall fuel s rect t b l r s',
  Inv s -> t < b -> l < r ->
  rs_add_at fuel false s rect t b l r = Some s' ->
  add_post s (init_bounded t l b r) s'.
Proof.
  induction fuel as [|f IH]; intros s rect t b l r s' Hinv Ht Hl; cbn [rs_add_at]; [discriminate|].
  set (cur := init_bounded t l b r).
  assert (Hcur : nonempty cur) by (unfold nonempty, cur, init_bounded; cbn [lines cols]; lia).
  destruct Hinv as [Hne [Hsep Hso]].
  pose proof (rs_scan_spec t b l r Ht Hl s 0%nat Hne Hso) as Hscan. fold cur in Hscan.
  destruct (rs_scan cur t b l r s 0) as [| |i t' b' l' r'|i x] eqn:Escan; cbn [scan_post] in Hscan.
  - (* insert *)
    intros [= <-].
    destruct (rs_insert_split s cur Hso) as [pre [post [E1 [E2 [H1 H2]]]]].
    rewrite E2. unfold add_post. split.
    + apply Inv_insert_mid; auto; rewrite <- E1; [repeat split; assumption|exact Hscan].
    + intros p. rewrite E1, covered_remove_mid. tauto.
  - (* already covered *)
    intros [= <-]. split; [repeat split; assumption|].
    destruct Hscan as [x [Hx Hc]]. intros p. split; [tauto|].
    intros [H|H]; [exact H|]. exists x. split; [exact Hx|apply Hc; exact H].
  - (* stretch and restart *)
    destruct Hscan as [pre [x [post [E [Ei [Ht' [Hl' Hcells]]]]]]].
    cbn [Nat.add] in Ei. subst i. rewrite E, rs_delete_mid. intros Hrec.
    assert (Hinv0 : Inv (pre ++ x :: post)) by (rewrite <- E; repeat split; assumption).
    destruct (IH _ _ _ _ _ _ _ (Inv_remove _ _ _ Hinv0) Ht' Hl' Hrec) as [Hinv' Hcov'].
    split; [exact Hinv'|]. intros p. rewrite Hcov', Hcells, covered_remove_mid. tauto.
  - (* split and recurse *)
    destruct Hscan as [pre [post [E Ei]]]. cbn [Nat.add] in Ei. subst i.
    rewrite E, rs_delete_mid. intros Hfold.
    assert (Hinv0 : Inv (pre ++ x :: post)) by (rewrite <- E; repeat split; assumption).
    assert (Hx : nonempty x) by (eapply Inv_In_nonempty; [exact Hinv0|apply in_or_app; right; left; reflexivity]).
    destruct (add_ok x cur Hx Hcur) as [_ [Hpne [_ Hpcov]]].
    assert (Hone : forall s1 c s1', Inv s1 -> nonempty c ->
              rs_add_at f false s1 c (top c) (bottom c) (left c) (right c) = Some s1' -> add_post s1 c s1').
    { intros s1 c s1' Hi1 Hc1 Hr1. unfold nonempty, bottom, right in *.
      destruct (IH s1 c (top c) (top c + lines c) (left c) (left c + cols c) s1' Hi1) as [Ha Hb];
        [lia|lia|exact Hr1|].
      split; [exact Ha|]. intros p. rewrite Hb.
      pose proof (init_bounded_self c p) as Hs. unfold bottom, right in Hs. rewrite Hs. tauto. }
    destruct (fold_add_ok (fun s1 c => rs_add_at f false s1 c (top c) (bottom c) (left c) (right c))
                Hone (r_add x cur) (pre ++ post) s' (Inv_remove _ _ _ Hinv0) Hpne Hfold) as [Hinv' Hcov'].
    split; [exact Hinv'|]. intros p. rewrite Hcov', Hpcov, covered_remove_mid. tauto.
Qed.

Theorem rs_add_ok fuel s r s' :
  Inv s -> nonempty r -> rs_add fuel false s r = Some s' ->
  Inv s' /\ forall p, covered s' p <-> covered s p \/ cell_in r p.
Proof.
  unfold rs_add. intros Hinv Hr Hadd. unfold nonempty, bottom, right in *.
  destruct (rs_add_at_ok fuel s r (top r) (top r + lines r) (left r) (left r + cols r) s' Hinv) as [Ha Hb];
    [lia|lia|exact Hadd|].
  split; [exact Ha|]. intros p. rewrite Hb.
  pose proof (init_bounded_self r p) as Hs. unfold bottom, right in Hs. rewrite Hs. tauto.
Qed.

Lemma rs_add_list_ok fuel ps : forall s s',
  Inv s -> Forall nonempty ps -> rs_add_list fuel false s ps = Some s' ->
  Inv s' /\ forall p, covered s' p <-> covered s p \/ covered ps p.
Proof.
  intros s s' Hinv Hne H. unfold rs_add_list in H.
  eapply (fold_add_ok (rs_add fuel false)); eauto.
  intros s1 c s1' Hi Hc Ha. exact (rs_add_ok fuel s1 c s1' Hi Hc Ha).
Qed.
