(* TermApiProofs.v -- the C09 / C10 theorems at the level of the public API of term.c. *)
From Coq Require Import ZArith List Bool Lia ZifyBool.
From Tickit Require Import Csi VT TermPenDefs TermPenSpec TermPenProofs XtermDefs XtermSpec XtermProofs
  TermApiDefs TermApiSpec Gen_SgrOnOff.
Import ListNotations.
Local Open Scope Z_scope.

(* a call is the driver request it stands for *)
Lemma api_step_req : forall t a q, req_of_api a = Some q -> api_args_okb a = true ->
  api_step t a = match drv_req t q with
                 | Some (t', ret, ts) => Some (t', ts, result_of a ret)
                 | None => None
                 end.
Proof.
  intros t a q Hq Hargs.
  destruct a; cbn [req_of_api] in Hq; inversion Hq; subst; clear Hq; cbn [api_step drv_req result_of];
    try reflexivity.
  - (* print: strlen *)
    unfold drv_print, write_str_bytes, xt_print.
    destruct (Z.of_nat (length str) =? 0) eqn:E0; [reflexivity|].
    destruct ((0 <? Z.of_nat (length str)) && (Z.of_nat (length str) <=? Z.of_nat (length str))) eqn:E1; [|lia].
    rewrite Nat2Z.id, firstn_all. reflexivity.
  - (* printf: the length of the formatted result *)
    unfold drv_print, write_str_bytes, xt_print.
    destruct (Z.of_nat (length str) =? 0) eqn:E0; [reflexivity|].
    destruct ((0 <? Z.of_nat (length str)) && (Z.of_nat (length str) <=? Z.of_nat (length str))) eqn:E1; [|lia].
    rewrite Nat2Z.id, firstn_all. reflexivity.
  - (* printn *)
    cbn [api_args_okb] in Hargs.
    destruct (len =? 0) eqn:E0.
    + assert (len = 0) by lia. subst len. cbn [Z.to_nat firstn xt_print chars map]. reflexivity.
    + unfold drv_print, write_str_bytes, xt_print. rewrite E0. destruct ((0 <? len) && (len <=? Z.of_nat (length str))) eqn:E1; [reflexivity|lia].
  - (* scrollrect *)
    destruct (xt_scrollrect (cap_slrm (x_caps (t_drv t))) (t_cols t) r downward rightward) as [ok ts].
    reflexivity.
  - (* setpen *)
    destruct (do_setpen chpen_params_capacity (cap_colon (x_caps (t_drv t))) (cap_rgb8 (x_caps (t_drv t)))
                        (mkTp (t_pen t) xterm_colors) p) as [[s ts]|]; reflexivity.
  - destruct (do_chpen chpen_params_capacity (cap_colon (x_caps (t_drv t))) (cap_rgb8 (x_caps (t_drv t)))
                       (mkTp (t_pen t) xterm_colors) p) as [[s ts]|]; reflexivity.
Qed.

Lemma api_pen_req : forall a q, req_of_api a = Some q -> api_pen_ok a -> req_pen_ok q.
Proof.
  intros a q Hq Hp. destruct a; cbn [req_of_api] in Hq; inversion Hq; subst; cbn; try exact I; exact Hp.
Qed.

Lemma api_quiet_step : forall t a, quiet_api a = true -> exists res, api_step t a = Some (t, [], res).
Proof.
  intros t a H. destruct a; try discriminate H; cbn [api_step]; eexists; reflexivity.
Qed.

(* C09 for sequences of calls of the public API *)
Lemma api_sequence_partial : forall l t v, vt_ok v -> SInv t v -> Forall api_pen_ok l ->
  api_seq_ok t v l.
Proof.
  induction l as [|a l IH]; intros t v Hok Hs Hpens; [exact I|].
  inversion Hpens as [|a' l' Ha Hl]; subst.
  cbn [api_seq_ok]. destruct (req_of_api a) as [q|] eqn:Eq.
  - intros Hr Hargs Hrv. unfold api_excl in Hrv. rewrite Eq in Hrv.
    destruct (req_ok t v q Hok Hs (api_pen_req a q Eq Ha) Hr Hrv) as (t' & ret & ts & H1 & H2 & H3 & H4).
    exists t', ret, ts. split.
    + rewrite (api_step_req t a q Eq Hargs), H1. reflexivity.
    + split; [exact H2|]. split; [exact H3|]. apply IH; assumption.
  - destruct (quiet_api a) eqn:Equiet; [|exact I].
    destruct (api_quiet_step t a Equiet) as (res & Hres). exists res. split; [exact Hres|].
    apply IH; assumption.
Qed.

(* the PINNED tickit_term_printn (length forwarded unchanged): printn(str, 0) of a non-empty string wrote
   the whole string; repaired by fix C09-printn-zero-length *)
Lemma printn_zero_refuted :
  let v := vt_run xt_start (vt_init 2 5) in
  vt_ok v /\ in_range (RPrint []) v /\ printn_trigger (APrintn [65; 66] 0) = true /\
  exists ts, printn_pinned [65; 66] 0 = Some ts /\
             ~ effect_ok (RPrint []) true (match ts with [] => true | _ => false end) v (vt_run ts v).
Proof.
  cbv zeta. destruct (start_state_ok 2 5 xdrv_new ltac:(lia) ltac:(lia)) as [Hok Hs].
  split; [exact Hok|]. split; [vm_compute; reflexivity|]. split; [reflexivity|].
  eexists. split; [reflexivity|].
  intros (_ & H2 & _). vm_compute in H2. discriminate.
Qed.

(* ... and the repaired one writes nothing *)
Lemma printn_zero_fixed : forall t str, api_step t (APrintn str 0) = Some (t, [], None).
Proof. reflexivity. Qed.

(* C10 at the API: set-pen / change-pen are the two layers of TermPenDefs *)
Lemma api_setpen_is : forall t p,
  api_step t (ASetpen p) =
  match do_setpen chpen_params_capacity (cap_colon (x_caps (t_drv t))) (cap_rgb8 (x_caps (t_drv t)))
                  (mkTp (t_pen t) xterm_colors) p with
  | None => None
  | Some (s, ts) => Some (term_with_pen t (tp_pen s), ts, None)
  end.
Proof. reflexivity. Qed.
Lemma api_chpen_is : forall t p,
  api_step t (AChpen p) =
  match do_chpen chpen_params_capacity (cap_colon (x_caps (t_drv t))) (cap_rgb8 (x_caps (t_drv t)))
                 (mkTp (t_pen t) xterm_colors) p with
  | None => None
  | Some (s, ts) => Some (term_with_pen t (tp_pen s), ts, None)
  end.
Proof. reflexivity. Qed.

(* the invariant of C10 through the public calls, on a real xterm terminal object (256 colours) *)
Lemma api_pen_ok_step : forall (is_set : bool) l t v p,
  PenInv 256 (cap_colon (x_caps (t_drv t))) (cap_rgb8 (x_caps (t_drv t))) l (t_pen t) v ->
  pen_in_range p ->
  exists t' ts, api_step t (if is_set then ASetpen p else AChpen p) = Some (t', ts, None) /\
    t_drv t' = t_drv t /\
    PenInv 256 (cap_colon (x_caps (t_drv t))) (cap_rgb8 (x_caps (t_drv t)))
           (if is_set then logical_set l p else logical_ch l p) (t_pen t') (vt_run ts v) /\
    vt_run ts v = set_sgr v (v_sgr (vt_run ts v)) /\
    ((forall a, (if is_set then logical_set l p else logical_ch l p) a = l a) -> ts = []).
Proof.
  intros is_set l t v p Hinv Hp.
  destruct (op_ok 256 _ _ is_set l (t_pen t) v p ltac:(lia) Hinv Hp) as (tp' & ts & Hdo & Hinv' & Hset & Hno).
  exists (term_with_pen t tp'), ts.
  split.
  { destruct is_set; cbn [api_step]; unfold xterm_colors; rewrite Hdo; reflexivity. }
  split; [reflexivity|]. split; [exact Hinv'|]. split; [exact Hset|].
  intros Hsame. apply Hno. exact Hsame.
Qed.
