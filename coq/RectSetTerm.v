(* RectSetTerm.v -- C05, part 6: termination of tickit_rectset_add (existence of sufficient
   fuel) on every array that satisfies the invariant.

   Measure of a call add(s, cur):  M(s,cur) = sum over the rows y of cur of the number of
   members of s that span y and whose column interval touches or overlaps cur's, taken
   lexicographically with the length of s.
     - stretch (delete y, restart with the bounding box): M does not grow, s shrinks;
     - split with x (delete x, add the bands of x u cur one after the other): every band
       has a strictly smaller M, whatever the earlier bands have turned the set into --
       because under the invariant the members spanning a row are exactly the maximal runs
       of covered cells of that row, so their number is determined by the region, and the
       earlier bands do not touch the rows of the later ones. *)
From Coq Require Import ZArith List Bool Lia ZifyBool Arith.
From Tickit Require Import RectDefs RectProofs RectSetDefs RectSetSpec RectSetProofs RectSetBands.
Import ListNotations.
Local Open Scope Z_scope.

(* ------------------------------------------------------------------ *)
(* more fuel does not change a result                                  *)

Definition wrap (g : rectset -> rect -> option rectset) :=
  fun (acc : option rectset) (p : rect) => match acc with None => None | Some s' => g s' p end.

Lemma fold_wrap_mono (g g' : rectset -> rect -> option rectset) :
  (forall s p r, g s p = Some r -> g' s p = Some r) ->
  forall ps a r, fold_left (wrap g) ps a = Some r -> fold_left (wrap g') ps a = Some r.
Proof.
  intros H. induction ps as [|p ps IH]; intros a r; cbn [fold_left]; [auto|].
  destruct a as [s|]; cbn [wrap].
  - destruct (g s p) as [s1|] eqn:E.
    + rewrite (H _ _ _ E). apply IH.
    + intros Hf. exfalso. unfold wrap in Hf. rewrite fold_add_none in Hf. discriminate.
  - intros Hf. exfalso. unfold wrap in Hf. rewrite fold_add_none in Hf. discriminate.
Qed.

Lemma rs_add_at_mono stale : forall f s rect t b l r s',
  rs_add_at f stale s rect t b l r = Some s' ->
  forall f', (f <= f')%nat -> rs_add_at f' stale s rect t b l r = Some s'.
Proof.
  induction f as [|f IH]; intros s rect t b l r s'; cbn [rs_add_at]; [discriminate|].
  intros H f' Hle. destruct f' as [|f']; [lia|]. cbn [rs_add_at].
  destruct (rs_scan (if stale then rect else init_bounded t l b r) t b l r s 0) as [| |i t' b' l' r'|i x].
  - exact H.
  - exact H.
  - apply (IH _ _ _ _ _ _ _ H). lia.
  - revert H. apply (fold_wrap_mono
      (fun s1 p => rs_add_at f stale s1 p (top p) (bottom p) (left p) (right p))
      (fun s1 p => rs_add_at f' stale s1 p (top p) (bottom p) (left p) (right p))).
    intros s1 p r1 H1. apply (IH _ _ _ _ _ _ _ H1). lia.
Qed.

(* ------------------------------------------------------------------ *)
(* adding a list of rectangles one after the other terminates if each  *)
(* single add does, whatever the earlier ones produced                 *)

Definition Good (s : rectset) (p : rect) : Prop :=
  exists f s', rs_add_at f false s p (top p) (bottom p) (left p) (right p) = Some s'.

Fixpoint seq_good (s0 : rectset) (done ps : list rect) : Prop :=
  match ps with
  | [] => True
  | p :: rest =>
      (forall s1, Inv s1 -> (forall q, covered s1 q <-> covered s0 q \/ covered done q) -> Good s1 p) /\
      seq_good s0 (done ++ [p]) rest
  end.

Lemma fold_terminates s0 : forall ps done s1,
  Inv s1 -> Forall nonempty ps ->
  (forall q, covered s1 q <-> covered s0 q \/ covered done q) ->
  seq_good s0 done ps ->
  exists f s', fold_left (wrap (fun s2 p => rs_add_at f false s2 p (top p) (bottom p) (left p) (right p)))
                         ps (Some s1) = Some s'.
Proof.
  induction ps as [|p rest IH]; intros done s1 Hinv Hne Hcov Hgood; cbn [fold_left].
  - exists 0%nat, s1. reflexivity.
  - apply Forall_cons_iff in Hne. destruct Hne as [Hp Hrest]. destruct Hgood as [Hg Hgrest].
    destruct (Hg s1 Hinv Hcov) as [f1 [s2 E1]].
    assert (Hpost : add_post s1 p s2).
    { unfold nonempty, bottom, right in *.
      destruct (rs_add_at_ok f1 s1 p (top p) (top p + lines p) (left p) (left p + cols p) s2 Hinv) as [Ha Hb];
        [lia|lia|exact E1|].
      split; [exact Ha|]. intros q. rewrite Hb.
      pose proof (init_bounded_self p q) as Hs. unfold bottom, right in Hs. rewrite Hs. tauto. }
    destruct Hpost as [Hinv2 Hcov2].
    destruct (IH (done ++ [p]) s2 Hinv2 Hrest) as [f2 [s' E2]]; [|exact Hgrest|].
    { intros q. rewrite Hcov2, Hcov, covered_app, covered_cons, covered_nil. tauto. }
    exists (Nat.max f1 f2), s'. cbn [wrap].
    rewrite (rs_add_at_mono false f1 _ _ _ _ _ _ _ E1 (Nat.max f1 f2) (Nat.le_max_l _ _)).
    revert E2. apply fold_wrap_mono. intros s3 p3 r3 H3.
    apply (rs_add_at_mono false f2 _ _ _ _ _ _ _ H3). apply Nat.le_max_r.
Qed.

(* ------------------------------------------------------------------ *)
(* members spanning a row = maximal runs of covered cells of that row  *)

Definition spans (z : rect) (y : Z) : bool := (top z <=? y) && (y <? bottom z).
Definition touches (z : rect) (cl cr : Z) : bool := (left z <=? cr) && (cl <=? right z).
Definition sel (y cl cr : Z) (z : rect) : bool := spans z y && touches z cl cr.
Definition K (s : rectset) (y cl cr : Z) : nat := length (filter (sel y cl cr) s).

Lemma run_transfer s s' y : Inv s -> Inv s' ->
  (forall x, covered s (y, x) <-> covered s' (y, x)) ->
  forall z, In z s -> spans z y = true ->
  exists z', In z' s' /\ spans z' y = true /\ left z' = left z /\ right z' = right z.
Proof.
  intros Hinv Hinv' Hcov z Hz Hsp.
  pose proof (Inv_In_nonempty s z Hinv Hz) as Hzn.
  assert (Hc0 : covered s (y, left z)).
  { exists z. split; [exact Hz|]. unfold spans, nonempty, cell_in, bottom, right in *; cbn [fst snd]. lia. }
  apply Hcov in Hc0. destruct Hc0 as [z' [Hz' Hc']].
  pose proof (Inv_In_nonempty s' z' Hinv' Hz') as Hzn'.
  exists z'. split; [exact Hz'|].
  assert (Hsp' : spans z' y = true) by (unfold spans, cell_in in *; cbn [fst snd] in *; lia).
  split; [exact Hsp'|].
  destruct Hinv as [_ [Hsep _]]. destruct Hinv' as [_ [Hsep' _]].
  assert (Hl : left z' = left z).
  { destruct (Z_lt_ge_dec (left z') (left z)) as [Hlt|Hge].
    - exfalso.
      assert (Hc1 : covered s' (y, left z - 1)).
      { exists z'. split; [exact Hz'|]. unfold cell_in, bottom, right in *; cbn [fst snd] in *. lia. }
      apply Hcov in Hc1. destruct Hc1 as [w [Hw Hcw]].
      destruct (pairwise_In sepx s sepx_sym Hsep z w Hz Hw) as [->|[Hs _]].
      + unfold cell_in, bottom, right in Hcw; cbn [fst snd] in Hcw. lia.
      + unfold sep, spans, nonempty, cell_in, bottom, right in *; cbn [fst snd] in *. lia.
    - unfold cell_in in Hc'; cbn [fst snd] in Hc'. lia. }
  split; [exact Hl|].
  destruct (Z.lt_trichotomy (right z') (right z)) as [Hlt|[Heq|Hgt]]; [exfalso|exact Heq|exfalso].
  - assert (Hc1 : covered s (y, right z')).
    { exists z. split; [exact Hz|]. unfold spans, nonempty, cell_in, bottom, right in *; cbn [fst snd] in *. lia. }
    apply Hcov in Hc1. destruct Hc1 as [w [Hw Hcw]].
    destruct (pairwise_In sepx s' sepx_sym Hsep' z' w Hz' Hw) as [->|[Hs _]].
    + unfold cell_in, bottom, right in Hcw; cbn [fst snd] in Hcw. lia.
    + unfold sep, spans, nonempty, cell_in, bottom, right in *; cbn [fst snd] in *. lia.
  - assert (Hc1 : covered s' (y, right z)).
    { exists z'. split; [exact Hz'|]. unfold spans, nonempty, cell_in, bottom, right in *; cbn [fst snd] in *. lia. }
    apply Hcov in Hc1. destruct Hc1 as [w [Hw Hcw]].
    destruct (pairwise_In sepx s sepx_sym Hsep z w Hz Hw) as [->|[Hs _]].
    + unfold cell_in, bottom, right in Hcw; cbn [fst snd] in Hcw. lia.
    + unfold sep, spans, nonempty, cell_in, bottom, right in *; cbn [fst snd] in *. lia.
Qed.

Lemma lefts_nodup s y cl cr : Inv s -> NoDup (map left (filter (sel y cl cr) s)).
Proof.
  intros [Hne [Hsep _]]. induction s as [|a rest IH]; cbn [filter map]; [constructor|].
  apply Forall_cons_iff in Hne. destruct Hne as [Ha Hrest]. destruct Hsep as [Hsa Hsrest].
  destruct (sel y cl cr a) eqn:Ea; [|auto]. cbn [map]. constructor; [|auto].
  intros Hin. apply in_map_iff in Hin. destruct Hin as [z [Hl Hz]]. apply filter_In in Hz. destruct Hz as [Hz Hsz].
  rewrite Forall_forall in Hsa, Hrest. destruct (Hsa z Hz) as [Hs _]. specialize (Hrest z Hz).
  unfold sel, spans, sep, nonempty, bottom, right in *. lia.
Qed.

Lemma K_le s s' y cl cr : Inv s -> Inv s' ->
  (forall x, covered s (y, x) <-> covered s' (y, x)) -> (K s y cl cr <= K s' y cl cr)%nat.
Proof.
  intros Hinv Hinv' Hcov. unfold K.
  rewrite <- (map_length left (filter (sel y cl cr) s)), <- (map_length left (filter (sel y cl cr) s')).
  apply NoDup_incl_length; [apply lefts_nodup; exact Hinv|].
  intros x Hx. apply in_map_iff in Hx. destruct Hx as [z [Hl Hz]]. apply filter_In in Hz. destruct Hz as [Hz Hsz].
  unfold sel in Hsz. apply andb_true_iff in Hsz. destruct Hsz as [Hsp Hto].
  destruct (run_transfer s s' y Hinv Hinv' Hcov z Hz Hsp) as [z' [Hz' [Hsp' [Hl' Hr']]]].
  apply in_map_iff. exists z'. split; [lia|]. apply filter_In. split; [exact Hz'|].
  unfold sel. rewrite Hsp'. unfold touches in *. rewrite Hl', Hr'. exact Hto.
Qed.

Lemma K_transfer s s' y cl cr : Inv s -> Inv s' ->
  (forall x, covered s (y, x) <-> covered s' (y, x)) -> K s y cl cr = K s' y cl cr.
Proof.
  intros Hinv Hinv' Hcov. apply Nat.le_antisymm; apply K_le; auto.
  intros x. symmetry. apply Hcov.
Qed.

(* ------------------------------------------------------------------ *)
(* sums over row ranges                                                *)

Fixpoint sumrows (f : Z -> nat) (y0 : Z) (n : nat) : nat :=
  match n with O => 0%nat | S k => (f y0 + sumrows f (y0 + 1) k)%nat end.

Definition rsum (f : Z -> nat) (a b : Z) : nat := sumrows f a (Z.to_nat (b - a)).

Lemma sumrows_le f g : forall n a,
  (forall y, a <= y < a + Z.of_nat n -> (f y <= g y)%nat) -> (sumrows f a n <= sumrows g a n)%nat.
Proof.
  induction n as [|n IH]; intros a H; cbn [sumrows]; [lia|].
  pose proof (H a ltac:(lia)). pose proof (IH (a + 1) ltac:(intros y Hy; apply H; lia)). lia.
Qed.

Lemma sumrows_lt f g : forall n a,
  (forall y, a <= y < a + Z.of_nat n -> (f y <= g y)%nat) ->
  (exists y, a <= y < a + Z.of_nat n /\ (f y < g y)%nat) -> (sumrows f a n < sumrows g a n)%nat.
Proof.
  induction n as [|n IH]; intros a H [y0 [Hy0 Hlt]]; cbn [sumrows]; [lia|].
  pose proof (H a ltac:(lia)) as Ha.
  destruct (Z.eq_dec y0 a) as [->|Hne].
  - pose proof (sumrows_le f g n (a + 1) ltac:(intros y Hy; apply H; lia)). lia.
  - pose proof (IH (a + 1) ltac:(intros y Hy; apply H; lia) ltac:(exists y0; split; [lia|exact Hlt])). lia.
Qed.

Lemma sumrows_zero f : forall n a, (forall y, a <= y < a + Z.of_nat n -> f y = 0%nat) -> sumrows f a n = 0%nat.
Proof.
  induction n as [|n IH]; intros a H; cbn [sumrows]; [reflexivity|].
  rewrite (H a ltac:(lia)), (IH (a + 1) ltac:(intros y Hy; apply H; lia)). reflexivity.
Qed.

Lemma sumrows_app f : forall n m a,
  sumrows f a (n + m) = (sumrows f a n + sumrows f (a + Z.of_nat n) m)%nat.
Proof.
  induction n as [|n IH]; intros m a; cbn [sumrows Nat.add].
  - replace (a + Z.of_nat 0) with a by lia. reflexivity.
  - rewrite IH. replace (a + 1 + Z.of_nat n) with (a + Z.of_nat (S n)) by lia. lia.
Qed.

Lemma rsum_split f a m b : a <= m <= b -> rsum f a b = (rsum f a m + rsum f m b)%nat.
Proof.
  intros H. unfold rsum.
  replace (Z.to_nat (b - a)) with (Z.to_nat (m - a) + Z.to_nat (b - m))%nat by lia.
  rewrite sumrows_app. replace (a + Z.of_nat (Z.to_nat (m - a))) with m by lia. reflexivity.
Qed.

Lemma rsum_le f g a b : (forall y, a <= y < b -> (f y <= g y)%nat) -> (rsum f a b <= rsum g a b)%nat.
Proof. intros H. unfold rsum. apply sumrows_le. intros y Hy. apply H. lia. Qed.

Lemma rsum_lt f g a b : (forall y, a <= y < b -> (f y <= g y)%nat) ->
  (exists y, a <= y < b /\ (f y < g y)%nat) -> (rsum f a b < rsum g a b)%nat.
Proof.
  intros H [y0 [Hy0 Hlt]]. unfold rsum. apply sumrows_lt.
  - intros y Hy. apply H. lia.
  - exists y0. split; [lia|exact Hlt].
Qed.

Lemma rsum_zero f a b : (forall y, a <= y < b -> f y = 0%nat) -> rsum f a b = 0%nat.
Proof. intros H. unfold rsum. apply sumrows_zero. intros y Hy. apply H. lia. Qed.

(* the sum of g over [a',b') equals the sum over any larger range of g cut off outside *)
Definition cut (g : Z -> nat) (a' b' : Z) : Z -> nat :=
  fun y => if (a' <=? y) && (y <? b') then g y else 0%nat.

Lemma rsum_cut g a' b' A B : A <= a' -> a' <= b' -> b' <= B ->
  rsum (cut g a' b') A B = rsum g a' b'.
Proof.
  intros H1 H2 H3.
  rewrite (rsum_split _ A a' B) by lia. rewrite (rsum_split _ a' b' B) by lia.
  rewrite (rsum_zero (cut g a' b') A a'), (rsum_zero (cut g a' b') b' B).
  - assert (E : rsum (cut g a' b') a' b' = rsum g a' b').
    { apply Nat.le_antisymm; apply rsum_le; intros y Hy; unfold cut;
        destruct ((a' <=? y) && (y <? b')) eqn:E; lia. }
    lia.
  - intros y Hy. unfold cut. destruct ((a' <=? y) && (y <? b')) eqn:E; [lia|reflexivity].
  - intros y Hy. unfold cut. destruct ((a' <=? y) && (y <? b')) eqn:E; [lia|reflexivity].
Qed.

(* comparing sums over two different ranges *)
Lemma rsum_ranges_le f g a b a' b' : a <= b -> a' <= b' ->
  (forall y, a' <= y < b' -> (a <= y < b /\ (g y <= f y)%nat) \/ g y = 0%nat) ->
  (rsum g a' b' <= rsum f a b)%nat.
Proof.
  intros Hab Hab' H.
  rewrite <- (rsum_cut g a' b' (Z.min a a') (Z.max b b')) by lia.
  rewrite <- (rsum_cut f a b (Z.min a a') (Z.max b b')) by lia.
  apply rsum_le. intros y Hy. unfold cut.
  destruct ((a' <=? y) && (y <? b')) eqn:E1; destruct ((a <=? y) && (y <? b)) eqn:E2; try lia.
  - destruct (H y ltac:(lia)) as [[_ Hle]|Hz]; lia.
  - destruct (H y ltac:(lia)) as [[Hr _]|Hz]; lia.
Qed.

Lemma rsum_ranges_lt f g a b a' b' : a <= b -> a' <= b' ->
  (forall y, a' <= y < b' -> (a <= y < b /\ (g y <= f y)%nat) \/ g y = 0%nat) ->
  (exists y0, a <= y0 < b /\ (1 <= f y0)%nat /\ (~ (a' <= y0 < b') \/ (g y0 < f y0)%nat)) ->
  (rsum g a' b' < rsum f a b)%nat.
Proof.
  intros Hab Hab' H [y0 [Hy0 [Hf Hw]]].
  rewrite <- (rsum_cut g a' b' (Z.min a a') (Z.max b b')) by lia.
  rewrite <- (rsum_cut f a b (Z.min a a') (Z.max b b')) by lia.
  apply rsum_lt.
  - intros y Hy. unfold cut.
    destruct ((a' <=? y) && (y <? b')) eqn:E1; destruct ((a <=? y) && (y <? b)) eqn:E2; try lia.
    + destruct (H y ltac:(lia)) as [[_ Hle]|Hz]; lia.
    + destruct (H y ltac:(lia)) as [[Hr _]|Hz]; lia.
  - exists y0. split; [lia|]. unfold cut.
    destruct ((a' <=? y0) && (y0 <? b')) eqn:E1; destruct ((a <=? y0) && (y0 <? b)) eqn:E2; try lia.
Qed.

Definition M (s : rectset) (c : rect) : nat :=
  rsum (fun y => K s y (left c) (right c)) (top c) (bottom c).

Lemma rsum_ext f g a b : (forall y, a <= y < b -> f y = g y) -> rsum f a b = rsum g a b.
Proof.
  intros H. apply Nat.le_antisymm; apply rsum_le; intros y Hy; rewrite (H y Hy); lia.
Qed.

(* ------------------------------------------------------------------ *)
(* K under deletion of a member                                        *)

Lemma K_remove pre x post y cl cr :
  K (pre ++ x :: post) y cl cr = (K (pre ++ post) y cl cr + (if sel y cl cr x then 1 else 0))%nat.
Proof.
  unfold K. rewrite !filter_app, !app_length. cbn [filter].
  destruct (sel y cl cr x); cbn [length]; lia.
Qed.

Lemma others_sep pre x post : Inv (pre ++ x :: post) ->
  forall z, In z (pre ++ post) -> sep z x /\ nonempty z.
Proof.
  intros Hinv z Hz.
  assert (Hzin : In z (pre ++ x :: post)).
  { apply in_app_or in Hz. apply in_or_app. simpl. tauto. }
  split; [|eapply Inv_In_nonempty; eauto].
  destruct Hinv as [_ [Hsep _]]. apply pairwise_mid in Hsep. destruct Hsep as [H1 H2].
  apply in_app_or in Hz. destruct Hz as [Hz|Hz].
  - apply sepx_sep, H1, Hz.
  - apply sep_sym, sepx_sep, H2, Hz.
Qed.

(* in a row of x, the other members do not touch x's columns ... *)
Lemma K_row_of_x pre x post y : Inv (pre ++ x :: post) -> spans x y = true ->
  K (pre ++ post) y (left x) (right x) = 0%nat.
Proof.
  intros Hinv Hsp. unfold K.
  rewrite (filter_ext_in (sel y (left x) (right x)) (fun _ => false)); [induction (pre ++ post); auto|].
  intros z Hz. destruct (others_sep pre x post Hinv z Hz) as [Hs Hzn].
  assert (Hxn : nonempty x) by (eapply Inv_In_nonempty; [exact Hinv|apply in_or_app; right; left; reflexivity]).
  unfold sel, spans, touches, sep, nonempty, bottom, right in *. lia.
Qed.

(* ... so widening a window that touches x by x's columns selects the same others *)
Lemma K_widen pre x post y cl cr : Inv (pre ++ x :: post) -> spans x y = true ->
  touches x cl cr = true -> cl < cr ->
  (K (pre ++ post) y (Z.min cl (left x)) (Z.max cr (right x)) + 1)%nat = K (pre ++ x :: post) y cl cr.
Proof.
  intros Hinv Hsp Hto Hlt. rewrite K_remove.
  assert (Hsel : sel y cl cr x = true) by (unfold sel; rewrite Hsp, Hto; reflexivity).
  rewrite Hsel. f_equal. unfold K. f_equal. apply filter_ext_in.
  intros z Hz. destruct (others_sep pre x post Hinv z Hz) as [Hs Hzn].
  assert (Hxn : nonempty x) by (eapply Inv_In_nonempty; [exact Hinv|apply in_or_app; right; left; reflexivity]).
  unfold sel, spans, touches, sep, nonempty, bottom, right in *.
  destruct ((top z <=? y) && (y <? top z + lines z)) eqn:E; cbn [andb]; [|reflexivity]. lia.
Qed.

Lemma K_other_row pre x post y cl cr : spans x y = false ->
  K (pre ++ post) y cl cr = K (pre ++ x :: post) y cl cr.
Proof.
  intros Hsp. rewrite K_remove.
  assert (Hsel : sel y cl cr x = false) by (unfold sel; rewrite Hsp; reflexivity).
  rewrite Hsel. lia.
Qed.

Lemma K_remove_le pre x post y cl cr : (K (pre ++ post) y cl cr <= K (pre ++ x :: post) y cl cr)%nat.
Proof. rewrite K_remove. lia. Qed.

(* ------------------------------------------------------------------ *)
(* what the scan tells about a stretch and about a split               *)

Definition scan_term_post (t b l r : Z) (s : rectset) (i0 : nat) (res : scan_result) : Prop :=
  match res with
  | ScMerge i t' b' l' r' =>
      exists pre x post, s = pre ++ x :: post /\ i = (i0 + length pre)%nat /\
        left x <= r /\ l <= right x /\ top x <= b /\ t <= bottom x /\
        ((top x = t /\ bottom x = b) \/ (left x = l /\ right x = r)) /\
        t' = Z.min t (top x) /\ b' = Z.max b (bottom x) /\ l' = Z.min l (left x) /\ r' = Z.max r (right x)
  | ScSplit i x =>
      exists pre post, s = pre ++ x :: post /\ i = (i0 + length pre)%nat /\
        left x <= r /\ l <= right x /\ top x < b /\ t < bottom x
  | _ => True
  end.

Lemma scan_term_post_shift t b l r x rest i0 res :
  scan_term_post t b l r rest (S i0) res -> scan_term_post t b l r (x :: rest) i0 res.
Proof.
  destruct res as [| |i t' b' l' r'|i y]; cbn [scan_term_post]; auto.
  - intros [pre [y [post [E [Ei H]]]]]. exists (x :: pre), y, post.
    cbn [app length]. rewrite E. split; [reflexivity|]. split; [lia|exact H].
  - intros [pre [post [E [Ei H]]]]. exists (x :: pre), post.
    cbn [app length]. rewrite E. split; [reflexivity|]. split; [lia|exact H].
Qed.

Lemma rs_scan_term cur t b l r : forall s i0,
  scan_term_post t b l r s i0 (rs_scan cur t b l r s i0).
Proof.
  induction s as [|x rest IH]; intros i0; cbn [rs_scan]; [exact I|].
  destruct (b <? top x) eqn:Ebreak; [exact I|].
  destruct ((t >? bottom x) || (l >? right x) || (r <? left x)) eqn:Eskip.
  { apply scan_term_post_shift, IH. }
  destruct (r_contains x cur) eqn:Econt; [exact I|].
  destruct (((t =? top x) && (b =? bottom x)) || ((l =? left x) && (r =? right x))) eqn:Emerge.
  { cbn [scan_term_post]. exists [], x, rest. cbn [app length].
    split; [reflexivity|]. split; [lia|].
    destruct (top x <? t) eqn:E1; destruct (bottom x >? b) eqn:E2;
      destruct (left x <? l) eqn:E3; destruct (right x >? r) eqn:E4; lia. }
  destruct ((t =? bottom x) || (b =? top x)) eqn:Etouch.
  { apply scan_term_post_shift, IH. }
  cbn [scan_term_post]. exists [], rest. cbn [app length]. split; [reflexivity|]. split; [lia|]. lia.
Qed.

(* a stretch does not increase the measure *)
Lemma M_merge pre x post t b l r t' b' l' r' :
  Inv (pre ++ x :: post) -> t < b -> l < r ->
  left x <= r -> l <= right x -> top x <= b -> t <= bottom x ->
  ((top x = t /\ bottom x = b) \/ (left x = l /\ right x = r)) ->
  t' = Z.min t (top x) -> b' = Z.max b (bottom x) -> l' = Z.min l (left x) -> r' = Z.max r (right x) ->
  (M (pre ++ post) (init_bounded t' l' b' r') <= M (pre ++ x :: post) (init_bounded t l b r))%nat.
Proof.
  intros Hinv Ht Hl H1 H2 H3 H4 Hcase Et Eb El Er. unfold M.
  destruct (init_bounded_edges t l b r) as [A1 [A2 [A3 A4]]].
  destruct (init_bounded_edges t' l' b' r') as [B1 [B2 [B3 B4]]].
  rewrite A1, A2, A3, A4, B1, B2, B3, B4.
  assert (Hxn : nonempty x) by (eapply Inv_In_nonempty; [exact Hinv|apply in_or_app; right; left; reflexivity]).
  unfold nonempty, bottom, right in Hxn.
  destruct Hcase as [[Hc1 Hc2]|[Hc1 Hc2]].
  - (* same rows *)
    replace t' with t by lia. replace b' with b by lia. subst l' r'.
    apply rsum_le. intros y Hy.
    pose proof (K_widen pre x post y l r Hinv) as Hw.
    assert (spans x y = true) by (unfold spans; lia).
    assert (touches x l r = true) by (unfold touches; lia).
    specialize (Hw H H0 Hl). lia.
  - (* same columns *)
    replace l' with l by lia. replace r' with r by lia.
    apply rsum_ranges_le; [lia|unfold bottom in *; lia|].
    intros y Hy.
    destruct ((t <=? y) && (y <? b)) eqn:Ein.
    + left. split; [lia|]. apply K_remove_le.
    + right. rewrite <- Hc1, <- Hc2. apply K_row_of_x; [exact Hinv|].
      unfold spans, bottom in *. lia.
Qed.

(* ------------------------------------------------------------------ *)
(* every band of a split has a strictly smaller measure                *)

Lemma M_child pre x post cur p s1 :
  Inv (pre ++ x :: post) -> nonempty cur ->
  left x <= right cur -> left cur <= right x -> top x < bottom cur -> top cur < bottom x ->
  band_of x cur p -> Inv s1 ->
  (forall y col, top p <= y < bottom p -> (covered s1 (y, col) <-> covered (pre ++ post) (y, col))) ->
  (M s1 p < M (pre ++ x :: post) cur)%nat.
Proof.
  intros Hinv Hcur H1 H2 H3 H4 [Hpn Hband] Hinv1 Hcov. unfold M.
  assert (Hxn : nonempty x) by (eapply Inv_In_nonempty; [exact Hinv|apply in_or_app; right; left; reflexivity]).
  assert (Hcols : left cur < right cur) by (unfold nonempty, right in *; lia).
  rewrite (rsum_ext (fun y => K s1 y (left p) (right p)) (fun y => K (pre ++ post) y (left p) (right p))).
  2:{ intros y Hy. apply K_transfer; [exact Hinv1|eapply Inv_remove; exact Hinv|].
      intros col. apply Hcov. exact Hy. }
  assert (Hboth : forall y, top x <= y < bottom x -> top cur <= y < bottom cur ->
            (K (pre ++ post) y (Z.min (left cur) (left x)) (Z.max (right cur) (right x)) + 1)%nat =
            K (pre ++ x :: post) y (left cur) (right cur)).
  { intros y Hyx Hyc. apply K_widen; [exact Hinv| | |exact Hcols].
    - unfold spans. lia.
    - unfold touches. lia. }
  apply rsum_ranges_lt.
  - unfold nonempty, bottom in *. lia.
  - unfold nonempty, bottom in *. lia.
  - intros y Hy.
    destruct (Hband y Hy) as [[Hx [Hc [El Er]]]|[[Hx [Hc [El Er]]]|[Hx [Hc [El Er]]]]].
    + left. split; [exact Hc|]. rewrite El, Er. pose proof (Hboth y Hx Hc). lia.
    + right. rewrite El, Er. apply K_row_of_x; [exact Hinv|]. unfold spans. lia.
    + left. split; [exact Hc|]. rewrite El, Er.
      rewrite (K_other_row pre x post y (left cur) (right cur)); [lia|]. unfold spans. lia.
  - exists (Z.max (top cur) (top x)).
    assert (Hy0x : top x <= Z.max (top cur) (top x) < bottom x) by (unfold nonempty, bottom in *; lia).
    assert (Hy0c : top cur <= Z.max (top cur) (top x) < bottom cur) by (unfold nonempty, bottom in *; lia).
    pose proof (Hboth _ Hy0x Hy0c) as Hb.
    split; [exact Hy0c|]. split; [lia|].
    destruct (Z_le_gt_dec (top p) (Z.max (top cur) (top x))) as [Hle|Hgt]; [|left; lia].
    destruct (Z_lt_ge_dec (Z.max (top cur) (top x)) (bottom p)) as [Hlt|Hge]; [|left; lia].
    right.
    destruct (Hband _ (conj Hle Hlt)) as [[Hx [Hc [El Er]]]|[[Hx [Hc _]]|[Hx _]]]; [|tauto|tauto].
    rewrite El, Er. lia.
Qed.

Lemma seq_good_bands s0 : forall ps done,
  pairwise above ps ->
  (forall p, In p ps -> forall s1, Inv s1 ->
     (forall y col, top p <= y < bottom p -> (covered s1 (y, col) <-> covered s0 (y, col))) -> Good s1 p) ->
  (forall d p, In d done -> In p ps -> above d p) ->
  seq_good s0 done ps.
Proof.
  induction ps as [|p rest IH]; intros done Hpw Hgood Hdone; cbn [seq_good]; [exact I|].
  destruct Hpw as [Hp Hrest]. split.
  - intros s1 Hinv1 Hcov. apply (Hgood p (or_introl eq_refl) s1 Hinv1).
    intros y col Hy. rewrite Hcov. split; [|tauto].
    intros [H|[d [Hd Hc]]]; [exact H|exfalso].
    pose proof (Hdone d p Hd (or_introl eq_refl)) as Hab. unfold above in Hab.
    unfold cell_in in Hc; cbn [fst snd] in Hc. lia.
  - apply IH; [exact Hrest| |].
    + intros q Hq. apply Hgood. right. exact Hq.
    + intros d q Hd Hq. apply in_app_or in Hd. destruct Hd as [Hd|[<-|[]]].
      * apply Hdone; [exact Hd|right; exact Hq].
      * rewrite Forall_forall in Hp. apply Hp. exact Hq.
Qed.

(* ------------------------------------------------------------------ *)
(* termination                                                         *)

Lemma init_bounded_eta' c : init_bounded (top c) (left c) (bottom c) (right c) = c.
Proof.
  destruct c as [t l h w]. unfold init_bounded, bottom, right; cbn [top left lines cols]. f_equal; lia.
Qed.

Lemma add_terminates_aux : forall n m s cur rect,
  (M s cur <= n)%nat -> (length s <= m)%nat -> Inv s -> nonempty cur ->
  exists f s', rs_add_at f false s rect (top cur) (bottom cur) (left cur) (right cur) = Some s'.
Proof.
  induction n as [n IHn] using lt_wf_ind.
  induction m as [|m IHm]; intros s cur rect HM Hlen Hinv Hcur.
  - (* empty set: the scan falls through *)
    destruct s; [|cbn [length] in Hlen; lia].
    exists 1%nat. eexists. cbn [rs_add_at rs_scan]. reflexivity.
  - assert (Hcur' := Hcur). unfold nonempty in Hcur'.
    assert (Ht : top cur < bottom cur) by (unfold bottom; lia).
    assert (Hl : left cur < right cur) by (unfold right; lia).
    pose proof (rs_scan_term cur (top cur) (bottom cur) (left cur) (right cur) s 0%nat) as Hscan.
    destruct (rs_scan cur (top cur) (bottom cur) (left cur) (right cur) s 0)
      as [| |i t' b' l' r'|i x] eqn:Escan; cbn [scan_term_post] in Hscan.
    + exists 1%nat. eexists. cbn [rs_add_at]. rewrite init_bounded_eta', Escan. reflexivity.
    + exists 1%nat. eexists. cbn [rs_add_at]. rewrite init_bounded_eta', Escan. reflexivity.
    + (* stretch: the measure does not grow, the set shrinks *)
      destruct Hscan as [pre [x [post [E [Ei [H1 [H2 [H3 [H4 [Hcase [Et [Eb [El Er]]]]]]]]]]]]].
      cbn [Nat.add] in Ei. subst i s.
      pose proof (M_merge pre x post _ _ _ _ t' b' l' r' Hinv Ht Hl H1 H2 H3 H4 Hcase Et Eb El Er) as HMle.
      rewrite init_bounded_eta' in HMle.
      assert (Hxn : nonempty x) by (eapply Inv_In_nonempty; [exact Hinv|apply in_or_app; right; left; reflexivity]).
      destruct (init_bounded_edges t' l' b' r') as [B1 [B2 [B3 B4]]].
      destruct (IHm (pre ++ post) (init_bounded t' l' b' r') rect) as [f [s' Hf]].
      * lia.
      * rewrite app_length in *. cbn [length] in Hlen. lia.
      * eapply Inv_remove; exact Hinv.
      * unfold nonempty, init_bounded, bottom, right in *; cbn [lines cols]. lia.
      * rewrite B1, B2, B3, B4 in Hf. exists (S f), s'. cbn [rs_add_at].
        rewrite init_bounded_eta', Escan, rs_delete_mid. exact Hf.
    + (* split: every band has a strictly smaller measure *)
      destruct Hscan as [pre [post [E [Ei [H1 [H2 [H3 H4]]]]]]].
      cbn [Nat.add] in Ei. subst i s.
      assert (Hxn : nonempty x) by (eapply Inv_In_nonempty; [exact Hinv|apply in_or_app; right; left; reflexivity]).
      destruct (r_add_bands x cur Hxn Hcur H1 H2 H3 H4) as [Hbands Habove].
      destruct (add_ok x cur Hxn Hcur) as [_ [Hpne _]].
      assert (Hseq : seq_good (pre ++ post) [] (r_add x cur)).
      { apply seq_good_bands; [exact Habove| |intros d p []].
        intros p Hp s1 Hinv1 Hcov.
        rewrite Forall_forall in Hbands.
        pose proof (M_child pre x post cur p s1 Hinv Hcur H1 H2 H3 H4 (Hbands p Hp) Hinv1 Hcov) as Hlt.
        unfold Good.
        apply (IHn (M s1 p) ltac:(lia) (length s1) s1 p p (Nat.le_refl _) (Nat.le_refl _) Hinv1).
        unfold all_nonempty in Hpne. rewrite Forall_forall in Hpne. apply Hpne. exact Hp. }
      destruct (fold_terminates (pre ++ post) (r_add x cur) [] (pre ++ post)
                  (Inv_remove _ _ _ Hinv) Hpne) as [f [s' Hf]].
      * intros q. rewrite covered_nil. tauto.
      * exact Hseq.
      * exists (S f), s'. cbn [rs_add_at]. rewrite init_bounded_eta', Escan, rs_delete_mid. exact Hf.
Qed.

Theorem rs_add_terminates s r : Inv s -> nonempty r -> exists fuel s', rs_add fuel false s r = Some s'.
Proof.
  intros Hinv Hr. unfold rs_add.
  exact (add_terminates_aux (M s r) (length s) s r r (Nat.le_refl _) (Nat.le_refl _) Hinv Hr).
Qed.
