(* WinScrollInv.v -- the pending damage keeps the C05 invariant Inv (members non-empty,
   pairwise separated, sorted) under every step of WinHist.step (dinv_step): the damage
   changes only through root_damage (rs_add), set_damage [] at the flush, and shift_damage.
   Then the capstone over the whole alphabet but the flush (step_preserves3): screen
   invariant, unique ids and Inv of the damage together. *)
From Coq Require Import ZArith List Bool Lia ZifyBool.
From Tickit Require Import RectDefs RectProofs WinRectSet WinRectSetProofs WinDefs WinHist WinSpec
  WinExposeProofs WinFlushProofs WinLogDisjoint WinScreenInv WinLocality WinPreserve WinTermResize
  WinScrollDesc WinScrollRegion WinScrollFold WinScrollSpec WinScrollOps.
Import ListNotations.
Local Open Scope Z_scope.
Local Strategy 1000 [rsfuel].

(* ------------------------------------------------------------------------------------ *)
(* root_damage, win_expose                                                               *)

Lemma dinv_root_damage st d :
  Inv (r_damage st) -> nonempty d -> Inv (r_damage (root_damage st d)).
Proof.
  intros Hi Hd. unfold root_damage.
  destruct (rs_contains (r_fuel st) (r_damage st) d) as [[|]|]; [exact Hi| |exact Hi].
  destruct (rs_add (r_fuel st) (r_damage st) d) as [s|] eqn:Ea; [|exact Hi].
  cbn [r_damage set_flags set_damage]. apply (rs_add_inv _ _ _ _ Hi Hd Ea).
Qed.

Lemma dinv_expose st y ex :
  Inv (r_damage st) ->
  (ex = None -> forall w, t_chain y (r_tree st) = Some [w] -> nonempty (selfrect (t_info w))) ->
  Inv (r_damage (win_expose st y ex)).
Proof.
  intros Hi Hnone. unfold win_expose.
  destruct (t_chain y (r_tree st)) as [chain|] eqn:Ech; [|exact Hi].
  destruct (expose_up chain ex) as [dd|] eqn:Eup; [|exact Hi].
  apply dinv_root_damage; [exact Hi|].
  rewrite expose_up_geo in Eup. apply (expose_up_g_nonempty _ _ _ Eup).
  intros He g Hg. destruct chain as [|w [|p rest]]; try discriminate.
  cbn [map] in Hg. injection Hg as <-.
  specialize (Hnone He w eq_refl). unfold nonempty, g_self, geo, selfrect in *.
  cbn [fst lines cols] in *. exact Hnone.
Qed.

Lemma dinv_expose_some st y r : Inv (r_damage st) -> Inv (r_damage (win_expose st y (Some r))).
Proof. intros Hi. apply dinv_expose; [exact Hi|]. intros H; discriminate. Qed.

Lemma r_damage_cond (b : bool) s : r_damage (if b then request_restore s else s) = r_damage s.
Proof. destruct b; reflexivity. Qed.

(* ------------------------------------------------------------------------------------ *)
(* the tree operations                                                                   *)

Lemma dinv_hchange st k p w : Inv (r_damage st) -> Inv (r_damage (do_hchange st k p w)).
Proof.
  intros Hi. unfold do_hchange. destruct (t_find w (r_tree st)) as [wn|]; [|exact Hi].
  destruct (w_vis (t_info wn)); [apply dinv_expose_some|]; exact Hi.
Qed.

Lemma dinv_new st id pid r hidden lowest rootparent steal :
  Inv (r_damage st) -> Inv (r_damage (win_new st id pid r hidden lowest rootparent steal)).
Proof.
  intros Hi. unfold win_new. destruct (t_chain pid (r_tree st)) as [chain|]; [|exact Hi].
  destruct rootparent; cbv beta iota zeta;
    (destruct (negb hidden); [apply dinv_expose_some|]; exact Hi).
Qed.

Lemma dinv_close cfg st id : Inv (r_damage st) -> Inv (r_damage (win_close cfg st id)).
Proof.
  intros Hi. unfold win_close.
  destruct (t_chain id (r_tree st)) as [[|w [|p rest]]|]; try exact Hi. cbv zeta.
  assert (H : forall s, r_damage s = r_damage st ->
            Inv (r_damage (if w_vis (t_info w) then win_expose s (t_id p) (Some (w_rect (t_info w))) else s))).
  { intros s Hs. destruct (w_vis (t_info w)); [apply dinv_expose_some|]; rewrite Hs; exact Hi. }
  apply H. rewrite r_damage_cond. cbn [r_dsrc set_queue set_orphans set_tree].
  destruct (r_dsrc st) as [src|]; [destruct (negb (d_drag_stale cfg) && id_in src (sub_ids w))|];
    reflexivity.
Qed.

Lemma update_t_id (f : winfo -> winfo) (x : Z) (t : wtree) : keeps_id f -> t_id (t_update f x t) = t_id t.
Proof.
  intros Hf. unfold t_id. rewrite update_info. fold (t_id t).
  destruct (t_id t =? x); [apply Hf|reflexivity].
Qed.

Lemma dinv_show cfg st id :
  Inv (r_damage st) -> id <> t_id (r_tree st) -> Inv (r_damage (win_show cfg st id)).
Proof.
  intros Hi Hroot. unfold win_show.
  destruct (t_chain id (r_tree st)) as [chain|]; [|exact Hi].
  assert (H : forall tr2 (b : bool), t_id tr2 = t_id (r_tree st) ->
            Inv (r_damage (win_expose (if b then request_restore (set_tree st tr2) else set_tree st tr2) id None))).
  { intros tr2 b Hid. apply dinv_expose; [rewrite r_damage_cond; exact Hi|].
    intros _ w Hw. exfalso. apply Hroot. rewrite r_tree_cond in Hw. cbn [r_tree set_tree] in Hw.
    destruct (chain_single _ _ _ Hw) as [_ E]. rewrite <- E. exact Hid. }
  assert (K1 : keeps_id (fun j => set_vis j true)) by (intros i; reflexivity).
  destruct chain as [|w [|p rest]]; cbv beta iota zeta.
  - apply (H _ (false && negb (d_chain_norestore cfg))). apply update_t_id. exact K1.
  - apply (H _ (false && negb (d_chain_norestore cfg))). apply update_t_id. exact K1.
  - match goal with
    | |- context [if ?c then t_update ?g ?y ?t else ?t] => destruct c
    end.
    + apply H. rewrite !update_t_id; [reflexivity|exact K1|intros i; reflexivity].
    + apply H. apply update_t_id. exact K1.
Qed.

Lemma dinv_hide cfg st id : Inv (r_damage st) -> Inv (r_damage (win_hide cfg st id)).
Proof.
  intros Hi. unfold win_hide. destruct (t_chain id (r_tree st)) as [chain|]; [|exact Hi].
  destruct chain as [|w [|p rest]]; cbv zeta; try exact Hi.
  apply dinv_expose_some. rewrite r_damage_cond. exact Hi.
Qed.

Lemma dinv_restack st k id : Inv (r_damage st) -> Inv (r_damage (win_restack st k id)).
Proof.
  intros Hi. unfold win_restack. destruct (t_parent_id id (r_tree st)); [|exact Hi].
  destruct (r_queue st); exact Hi.
Qed.

Lemma dinv_geom st0 st1 id ex : Inv (r_damage st1) -> Inv (r_damage (geom_exposes st0 st1 id ex)).
Proof.
  intros Hi. unfold geom_exposes. destruct (negb ex); [exact Hi|].
  destruct (t_parent_id id (r_tree st0)); [|exact Hi].
  destruct (win_rect st0 id); [|exact Hi]. destruct (win_rect st1 id); [|exact Hi].
  apply dinv_expose_some. apply dinv_expose_some. exact Hi.
Qed.

Lemma dinv_reposition st id t l : r_damage (win_reposition st id t l) = r_damage st.
Proof.
  unfold win_reposition. destruct (t_find id (r_tree st)) as [w|]; [|reflexivity].
  destruct (w_focused (t_info w)); reflexivity.
Qed.

Lemma dinv_resize st id nl nc : r_damage (win_resize st id nl nc) = r_damage st.
Proof. unfold win_resize. destruct (t_find id (r_tree st)); reflexivity. Qed.

Lemma dinv_setctl st id f restore : r_damage (win_setctl st id f restore) = r_damage st.
Proof.
  unfold win_setctl. destruct (t_find id (r_tree st)) as [w|]; [|reflexivity].
  destruct (restore && w_focused (t_info w)); reflexivity.
Qed.

Lemma dinv_take_focus cfg st id : r_damage (fst (win_take_focus cfg st id)) = r_damage st.
Proof.
  unfold win_take_focus. destruct (t_chain id (r_tree st)) as [chain|]; [|reflexivity].
  destruct (focus_gained cfg (map t_id chain) None (r_tree st)) as [[tr ev] rs].
  destruct rs; reflexivity.
Qed.

Lemma dinv_term_resize st tm nl nc :
  Inv (r_damage st) -> Inv (r_damage (fst (win_term_resize st tm nl nc))).
Proof.
  intros Hi. unfold win_term_resize.
  destruct ((t_lines tm =? nl) && (t_cols tm =? nc)); [exact Hi|]. cbv zeta. cbn [fst].
  assert (H1 : Inv (r_damage (win_resize st (t_id (r_tree st)) nl nc))) by (rewrite dinv_resize; exact Hi).
  destruct (nc >? cols (root_selfrect st)); [apply dinv_expose_some|];
    (destruct (nl >? lines (root_selfrect st)); [apply dinv_expose_some|]; exact H1).
Qed.

(* ------------------------------------------------------------------------------------ *)
(* the flush                                                                             *)

Lemma dinv_queue : forall q s, Inv (r_damage s) -> Inv (r_damage (fold_left qstep q s)).
Proof.
  induction q as [|e q IH]; intros s Hi; [exact Hi|]. cbn [fold_left]. apply IH.
  destruct e as [[k p] w]. apply dinv_hchange. exact Hi.
Qed.

Lemma dinv_flush cfg hnd st tm :
  Inv (r_damage st) -> Inv (r_damage (fst (fst (win_flush cfg hnd st tm)))).
Proof.
  intros Hi. destruct (r_later st) eqn:Hl.
  2:{ unfold win_flush. rewrite Hl. cbn [negb fst]. exact Hi. }
  rewrite (win_flush_unfold cfg hnd st tm Hl). cbv zeta.
  assert (Ha : Inv (r_damage (after_queue st))).
  { rewrite after_queue_eq. apply dinv_queue. exact Hi. }
  destruct (r_nexp (after_queue st)); cbn [fst].
  - cbn [r_damage set_flags set_damage]. apply inv_nil.
  - destruct (r_nrest (after_queue st)); cbn [fst]; exact Ha.
Qed.

(* ------------------------------------------------------------------------------------ *)
(* the scrolls                                                                           *)

Lemma dinv_scroll_one id a b d r acc rc :
  nonempty rc -> Inv (r_damage (acc_st acc)) ->
  Inv (r_damage (acc_st (scroll_one id a b d r acc rc))).
Proof.
  intros Hrc. destruct acc as [[[s tm] ret] dp]. unfold scroll_one, acc_st. cbn [fst]. intros Hi.
  destruct ((Z.abs d >=? lines rc) || (Z.abs r >=? cols rc)).
  - cbn [fst]. apply dinv_expose_some. exact Hi.
  - destruct (shift_damage (r_fuel s) (r_damage s) rc d r) as [dmg|] eqn:Esh; [|cbn [fst]; exact Hi].
    destruct (shift_damage_inv _ _ _ _ _ (inv_all_nonempty _ Hi) Hrc Esh) as [Hid _].
    destruct (term_scroll (if dp then tm else term_set_cvis tm false) rc d r) as [tm2 acc'].
    assert (H1 : Inv (r_damage (set_damage s dmg))) by exact Hid.
    destruct acc'; cbn [fst]; [|apply dinv_expose_some; exact H1].
    destruct (r >? 0); [apply dinv_expose_some|destruct (r <? 0); [apply dinv_expose_some|]];
      (destruct (d >? 0); [apply dinv_expose_some|destruct (d <? 0); [apply dinv_expose_some|]]; exact H1).
Qed.

Lemma dinv_scroll_fold id a b d r : forall V acc,
  all_nonempty V -> Inv (r_damage (acc_st acc)) ->
  Inv (r_damage (acc_st (fold_left (scroll_one id a b d r) V acc))).
Proof.
  induction V as [|rc V IH]; intros acc Hne Hi; [exact Hi|]. cbn [fold_left].
  inversion Hne; subst. apply IH; [assumption|]. apply dinv_scroll_one; assumption.
Qed.

(* either win_scroll leaves the damage alone or it runs the loop over non-empty rectangles *)
Lemma win_scroll_cases st tm id orig d r mask :
  NoDup (t_ids (r_tree st)) -> vis_nonempty (r_tree st) ->
  r_damage (fst (fst (win_scroll no_defects st tm id orig d r mask))) = r_damage st \/
  exists V a b, all_nonempty V /\
    win_scroll no_defects st tm id orig d r mask =
    (let '(st1, tm1, ret, dp) := fold_left (scroll_one id a b d r) V (st, tm, true, false) in
     (if dp then request_restore st1 else st1, tm1, ret)).
Proof.
  intros Hu Hvn. unfold win_scroll. set (T := r_tree st).
  destruct (t_chain id T) as [[|w rest]|] eqn:Ech; try (left; reflexivity).
  destruct (chain_head id T w rest Hu Ech) as (Hfw & pth & Hpath & Hchain).
  destruct (t_find_sub _ _ _ Hfw) as [Hsw Hidw].
  destruct (match orig with
            | Some o => r_intersect (selfrect (t_info w)) o
            | None => r_intersect (selfrect (t_info w)) (selfrect (t_info w))
            end) as [rc|] eqn:Erc; [|left; reflexivity].
  assert (Hrcne : nonempty rc).
  { destruct orig as [o|]; apply intersect_some in Erc; tauto. }
  destruct (rs_add (r_fuel st) [] rc) as [v0|] eqn:Ev0; [|left; reflexivity].
  destruct (rs_add_inv _ _ _ _ inv_nil Hrcne Ev0) as [Hinv0 Hcov0].
  destruct (if mask then rs_sub_vis (r_fuel st) (Some v0) (t_kids w) else Some v0) as [v1|] eqn:Ev1;
    [|left; reflexivity].
  assert (Hv1 : Inv v1 /\ forall p, covered v1 p -> cell_in rc p).
  { destruct mask.
    - destruct (rs_sub_vis_exact (rfuel:=(r_fuel st)) (t_kids w) v0 v1 Hinv0) as [Hi Hcv]; [|exact Ev1|].
      + apply Forall_forall. intros c Hc0. apply Hvn.
        eapply subtree_trans; [apply subtree_kid; exact Hc0|exact Hsw].
      + split; [exact Hi|]. intros p Hp. apply Hcv in Hp. destruct Hp as [Hp _].
        apply Hcov0 in Hp. rewrite covered_nil in Hp. tauto.
    - injection Ev1 as <-. split; [exact Hinv0|]. intros p Hp. apply Hcov0 in Hp.
      rewrite covered_nil in Hp. tauto. }
  destruct Hv1 as [Hinv1 Hcov1].
  destruct (kc_refl id T w Hu Hfw) as [D Hkc].
  assert (Hvself : forall i, subtree (Node i (t_kids w)) T -> w_id i = id ->
                   forall p, covered v1 p -> cell_in (selfrect i) p).
  { intros i Hs Hi p Hp. pose proof (t_find_subtree _ _ Hs Hu) as Hfi.
    unfold t_id in Hfi; cbn [t_info] in Hfi. rewrite Hi, Hfw in Hfi. injection Hfi as Hw.
    apply Hcov1 in Hp.
    assert (Hps : cell_in (selfrect (t_info w)) p).
    { destruct orig as [o|]; apply intersect_some in Erc; destruct Erc as [_ Erc]; apply Erc in Hp; tauto. }
    rewrite Hw in Hps. exact Hps. }
  pose proof (scroll_region_spec (rfuel:=(r_fuel st)) id _ _ T T D Hkc Hu Hvn pth v1 Hpath Hinv1 Hvself) as Hreg.
  rewrite Hchain.
  destruct (scroll_region no_defects (r_fuel st) (rev (T :: pth)) v1 0 0) as [| |V a b]; try (left; reflexivity).
  right. destruct Hreg as (_ & HinvV & _). exists V, a, b. split; [apply inv_all_nonempty; exact HinvV|].
  reflexivity.
Qed.

Lemma dinv_scroll st tm id orig d r mask :
  NoDup (t_ids (r_tree st)) -> vis_nonempty (r_tree st) -> Inv (r_damage st) ->
  Inv (r_damage (fst (fst (win_scroll no_defects st tm id orig d r mask)))).
Proof.
  intros Hu Hvn Hi.
  destruct (win_scroll_cases st tm id orig d r mask Hu Hvn) as [E|(V & a & b & HneV & E)].
  - rewrite E. exact Hi.
  - rewrite E.
    pose proof (dinv_scroll_fold id a b d r V (st, tm, true, false) HneV Hi) as H.
    destruct (fold_left (scroll_one id a b d r) V (st, tm, true, false)) as [[[s1 tm1] ret1] dp1].
    cbn [fst acc_st] in *. rewrite r_damage_cond. exact H.
Qed.

Lemma move_fold_damage d r : forall l s, r_damage (fold_left (move_step d r) l s) = r_damage s.
Proof.
  induction l as [|c l IH]; intros s; [reflexivity|]. cbn [fold_left]. rewrite IH. reflexivity.
Qed.

(* ------------------------------------------------------------------------------------ *)
(* every step                                                                            *)

Definition op_side3 (st : root) (o : op) : Prop :=
  match o with
  | OScroll _ _ _ | OScrollRect _ _ _ _ | OScrollKids _ _ _ => vis_nonempty (r_tree st)
  | _ => op_side2 st o
  end.

(* OFlush needs no side condition *)
Definition step_side3 (st : root) (o : op) : Prop :=
  match o with OFlush => True | _ => op_side3 st o end.

Theorem dinv_step progs o m :
  ids_unique (r_tree (m_root m)) -> Inv (r_damage (m_root m)) -> step_side3 (m_root m) o ->
  Inv (r_damage (m_root (step no_defects progs o m))).
Proof.
  intros Hu Hi Hside. unfold ids_unique in Hu.
  destruct o; cbn [step step_side3 op_side3 op_side2 op_side] in *; unfold m_set_root;
    cbn [m_root].
  - apply dinv_new; exact Hi.
  - apply dinv_close; exact Hi.
  - apply dinv_show; assumption.
  - apply dinv_hide; exact Hi.
  - apply dinv_restack; exact Hi.
  - apply dinv_geom. exact Hi.
  - apply dinv_geom. rewrite dinv_reposition. exact Hi.
  - apply dinv_geom. rewrite dinv_resize. exact Hi.
  - apply dinv_expose; [exact Hi|]. intros He w Hw. destruct (chain_single _ _ _ Hw) as [-> Hid].
    specialize (Hside He (eq_sym Hid)). unfold nonempty, selfrect in *. cbn [lines cols]. exact Hside.
  - pose proof (dinv_flush no_defects (prog_handler (m_app m) progs) (m_root m) (m_term m) Hi) as H.
    destruct (win_flush no_defects (prog_handler (m_app m) progs) (m_root m) (m_term m)) as [[st' tm'] lg].
    exact H.
  - pose proof (dinv_scroll (m_root m) (m_term m) id None down rightw true Hu Hside Hi) as H.
    destruct (win_scroll no_defects (m_root m) (m_term m) id None down rightw true) as [[st' tm'] ret].
    unfold m_scrolled. destruct (win_rect (m_root m) id); exact H.
  - pose proof (dinv_scroll (m_root m) (m_term m) id (Some r) down rightw true Hu Hside Hi) as H.
    destruct (win_scroll no_defects (m_root m) (m_term m) id (Some r) down rightw true) as [[st' tm'] ret].
    unfold m_scrolled.
    destruct (match win_rect (m_root m) id with
              | Some wr => r_intersect (mkRect 0 0 (lines wr) (cols wr)) r
              | None => None
              end); exact H.
  - pose proof (dinv_scroll (m_root m) (m_term m) id None down rightw false Hu Hside Hi) as H.
    destruct (win_scroll no_defects (m_root m) (m_term m) id None down rightw false) as [[st' tm'] ret].
    cbn [fst] in H.
    assert (H2 : Inv (r_damage (match t_find id (r_tree st') with
                                | Some w => fold_left (move_step down rightw) (t_kids w) st'
                                | None => st'
                                end))).
    { destruct (t_find id (r_tree st')); [rewrite move_fold_damage|]; exact H. }
    unfold m_scrolled. destruct (win_rect (m_root m) id); exact H2.
  - pose proof (dinv_term_resize (m_root m) (m_term m) nl nc Hi) as H.
    destruct (win_term_resize (m_root m) (m_term m) nl nc) as [st' tm']. exact H.
  - pose proof (dinv_take_focus no_defects (m_root m) id) as H.
    destruct (win_take_focus no_defects (m_root m) id) as [st' ev]. cbn [fst m_root] in *.
    rewrite H. exact Hi.
  - rewrite dinv_setctl. exact Hi.
  - rewrite dinv_setctl. exact Hi.
  - rewrite dinv_setctl. exact Hi.
  - rewrite dinv_setctl. exact Hi.
  - rewrite dinv_setctl. exact Hi.
  - rewrite dinv_setctl. exact Hi.
Qed.

(* ------------------------------------------------------------------------------------ *)
(* the three scroll steps, with the damage invariant                                     *)

Definition MInv3 (m : mstate) : Prop :=
  ScreenInv (m_app m) (m_root m) (m_term m) /\ ids_unique (r_tree (m_root m)) /\
  Inv (r_damage (m_root m)).

Theorem scroll_preserves progs m id d r :
  MInv3 m -> vis_nonempty (r_tree (m_root m)) ->
  r_fault (m_root (step no_defects progs (OScroll id d r) m)) = false ->
  MInv3 (step no_defects progs (OScroll id d r) m).
Proof.
  intros (SI & Hu & Hi) Hvn Hf.
  destruct (scroll_screen progs m id d r SI Hu Hvn Hf) as [A B].
  split; [exact A|]. split; [unfold ids_unique; rewrite B; exact Hu|].
  apply dinv_step; assumption.
Qed.

Theorem scrollrect_preserves progs m id rc d r :
  MInv3 m -> vis_nonempty (r_tree (m_root m)) ->
  r_fault (m_root (step no_defects progs (OScrollRect id rc d r) m)) = false ->
  MInv3 (step no_defects progs (OScrollRect id rc d r) m).
Proof.
  intros (SI & Hu & Hi) Hvn Hf.
  destruct (scrollrect_screen progs m id rc d r SI Hu Hvn Hf) as [A B].
  split; [exact A|]. split; [unfold ids_unique; rewrite B; exact Hu|].
  apply dinv_step; assumption.
Qed.

Theorem scrollkids_preserves progs m id d r :
  MInv3 m -> vis_nonempty (r_tree (m_root m)) ->
  r_fault (m_root (step no_defects progs (OScrollKids id d r) m)) = false ->
  MInv3 (step no_defects progs (OScrollKids id d r) m).
Proof.
  intros (SI & Hu & Hi) Hvn Hf.
  destruct (scrollkids_screen progs m id d r SI Hu Hvn Hf) as (A & B & _).
  split; [exact A|]. split; [exact B|]. apply dinv_step; assumption.
Qed.

(* every step but the flush *)
Theorem step_preserves3 progs o m :
  MInv3 m -> op_side3 (m_root m) o -> r_fault (m_root (step no_defects progs o m)) = false ->
  MInv3 (step no_defects progs o m).
Proof.
  intros Hm Hside Hf.
  assert (Hd : Inv (r_damage (m_root (step no_defects progs o m)))).
  { destruct Hm as (_ & Hu & Hi). apply dinv_step; [exact Hu|exact Hi|].
    destruct o; try exact Hside. exact I. }
  destruct o;
    try (destruct Hm as (SI & Hu & Hi);
         destruct (step_preserves2 no_defects progs _ m SI Hu Hside Hf) as [A B];
         split; [exact A|split; [exact B|exact Hd]]).
  - apply scroll_preserves; assumption.
  - apply scrollrect_preserves; assumption.
  - apply scrollkids_preserves; assumption.
Qed.
