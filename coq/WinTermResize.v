(* WinTermResize.v -- on_term_resize (win_term_resize of WinDefs.v) preserves the screen
   invariant of property C01: the root takes the terminal's new size, the grown rows and the
   grown columns are exposed on the root, and the terminal keeps the cells inside old/\new and
   blanks the rest.  A cell of the new screen that was on the old one keeps its content and
   its old disjunct (the composition never reads the root's own rectangle); a cell that was
   not lies in one of the two exposed strips.  Then the history capstone of WinPreserve.v
   extended by OTermResize (step_preserves2). *)
From Coq Require Import ZArith List Bool Lia ZifyBool.
From Tickit Require Import RectDefs RectProofs WinRectSet WinRectSetProofs WinDefs WinHist WinSpec
  WinExposeProofs WinFlushProofs WinLogDisjoint WinScreenInv WinLocality WinPreserve.
Import ListNotations.
Local Open Scope Z_scope.
Local Strategy 1000 [rsfuel].

Lemma t_find_root t : t_find (t_id t) t = Some t.
Proof.
  destruct t as [i ch]. rewrite t_find_unfold. unfold t_id; cbn [t_info].
  rewrite Z.eqb_refl. reflexivity.
Qed.

(* with unique ids, an update at the root's id touches the root node only *)
Lemma update_root f t :
  NoDup (t_ids t) -> t_update f (t_id t) t = Node (f (t_info t)) (t_kids t).
Proof.
  destruct t as [i ch]. intros Hnd. apply nodup_node in Hnd. destruct Hnd as [Hni _].
  unfold t_id; cbn [t_info t_kids t_update]. rewrite Z.eqb_refl. f_equal.
  apply map_update_notin. exact Hni.
Qed.

(* the composition never reads the root's own rectangle *)
Lemma owner_rel_root j t q :
  w_id j = t_id t -> owner_rel (Node j (t_kids t)) q = owner_rel t q.
Proof.
  destruct t as [i ch]. unfold t_id; cbn [t_info t_kids]. intros Hj.
  rewrite !owner_rel_unfold, Hj. reflexivity.
Qed.

(* exposing (or not) a rectangle on the visible root T of state s *)
Lemma root_strip_expose s T rid (b : bool) r :
  r_tree s = T -> t_id T = rid -> w_vis (t_info T) = true -> all_nonempty (r_damage s) ->
  r_fault (if b then win_expose s rid (Some r) else s) = false ->
  dmg_ext s (if b then win_expose s rid (Some r) else s) /\
  (b = true -> forall q, cell_in (selfrect (t_info T)) q -> cell_in r q ->
     covered (r_damage (if b then win_expose s rid (Some r) else s)) q).
Proof.
  intros Ht Hid Hv Hne Hf. destruct b.
  - assert (Hp : t_path rid T = Some [T]) by (rewrite <- Hid; apply path_self).
    destruct (expose_covers_gen s rid (Some r) T [] Hp) as [Hde Hcov].
    + rewrite Ht. apply geq_refl.
    + exact Hv.
    + intros H; discriminate.
    + exact Hne.
    + exact Hf.
    + split; [exact Hde|]. intros _ q Hq Hr. apply (Hcov q q Hq); [reflexivity|exact Hr].
  - split; [apply dmg_ext_refl; assumption|]. intros H; discriminate.
Qed.

(* on_term_resize without the final restore request (C15-d) *)
Definition win_term_resize0 (st : root) (tm : term) (nl nc : Z) : root * term :=
  if (t_lines tm =? nl) && (t_cols tm =? nc) then (st, tm) else
  let tm1 := term_resize tm nl nc in
  let rs := root_selfrect st in
  let oldl := lines rs in
  let oldc := cols rs in
  let st1 := win_resize st (t_id (r_tree st)) nl nc in
  let st2 := if nl >? oldl then win_expose st1 (t_id (r_tree st)) (Some (mkRect oldl 0 (nl - oldl) nc)) else st1 in
  let st3 := if nc >? oldc then win_expose st2 (t_id (r_tree st)) (Some (mkRect 0 oldc oldl (nc - oldc))) else st2 in
  (st3, tm1).

Lemma win_term_resize_eq st tm nl nc :
  win_term_resize st tm nl nc =
  (if (t_lines tm =? nl) && (t_cols tm =? nc) then fst (win_term_resize0 st tm nl nc)
   else request_restore (fst (win_term_resize0 st tm nl nc)),
   snd (win_term_resize0 st tm nl nc)).
Proof.
  unfold win_term_resize, win_term_resize0.
  destruct ((t_lines tm =? nl) && (t_cols tm =? nc)); reflexivity.
Qed.

Lemma si_request_restore app st tm : ScreenInv app st tm -> ScreenInv app (request_restore st) tm.
Proof.
  intros [H1 H2 H3 H4 H5 [H6 H7]].
  constructor; try assumption.
  split; cbn; intros H.
  - split; [apply (H6 H)|reflexivity].
  - reflexivity.
Qed.

Lemma term_resize0_preserves app st tm nl nc :
  ScreenInv app st tm -> ids_unique (r_tree st) -> 0 < nl -> 0 < nc ->
  r_fault (fst (win_term_resize0 st tm nl nc)) = false ->
  ScreenInv app (fst (win_term_resize0 st tm nl nc)) (snd (win_term_resize0 st tm nl nc)) /\
  ids_unique (r_tree (fst (win_term_resize0 st tm nl nc))).
Proof.
  intros SI Hu Hnl Hnc Hf. unfold ids_unique in *. unfold win_term_resize0 in *.
  destruct ((t_lines tm =? nl) && (t_cols tm =? nc)) eqn:Esame.
  { cbn [fst snd] in *. split; assumption. }
  cbv zeta in *. cbn [fst snd] in *.
  pose proof SI as [[Ho1 Ho2] Hrv [Hs1 Hs2] Hne Hc [Hf1 Hf2]].
  unfold root_selfrect, selfrect in Hf, Hc |- *. cbn [lines cols] in Hf |- *.
  set (t := r_tree st) in *. set (rc := w_rect (t_info t)) in *.
  set (R' := mkRect (top rc) (left rc) nl nc).
  set (T' := Node (set_rect (t_info t) R') (t_kids t)).
  assert (Hst1 : win_resize st (t_id t) nl nc = set_tree st T').
  { unfold win_resize. fold t. rewrite t_find_root. unfold win_set_geometry. fold t.
    rewrite (update_root _ t Hu). reflexivity. }
  rewrite Hst1 in *.
  set (st1 := set_tree st T') in *.
  set (S1 := mkRect (lines rc) 0 (nl - lines rc) nc) in *.
  set (S2 := mkRect 0 (cols rc) (lines rc) (nc - cols rc)) in *.
  set (st2 := if nl >? lines rc then win_expose st1 (t_id t) (Some S1) else st1) in *.
  assert (Hf2' : r_fault st2 = false).
  { destruct (nc >? cols rc); [apply (win_expose_fault _ _ _ Hf)|exact Hf]. }
  assert (HidT : t_id T' = t_id t) by reflexivity.
  assert (HvT : w_vis (t_info T') = true) by exact Hrv.
  destruct (root_strip_expose st1 T' (t_id t) (nl >? lines rc) S1 eq_refl HidT HvT Hne Hf2') as [Hde1 Hcov1].
  fold st2 in Hde1, Hcov1.
  destruct (root_strip_expose st2 T' (t_id t) (nc >? cols rc) S2 (de_tree _ _ Hde1) HidT HvT
              (de_ne _ _ Hde1) Hf) as [Hde2 Hcov2].
  set (st3 := if nc >? cols rc then win_expose st2 (t_id t) (Some S2) else st2) in *.
  pose proof (dmg_ext_trans _ _ _ Hde1 Hde2) as Hde.
  assert (Ht3 : r_tree st3 = T') by (apply (de_tree _ _ Hde)).
  split.
  - constructor; rewrite ?Ht3.
    + cbn [T' t_info set_rect w_rect R' top left]. split; assumption.
    + exact HvT.
    + split; reflexivity.
    + apply (de_ne _ _ Hde).
    + intros q Hq. unfold root_selfrect in Hq. rewrite Ht3 in Hq.
      assert (Hq' : cell_in (mkRect 0 0 nl nc) q) by (apply cell_inb_iff; exact Hq).
      assert (Hsh : shows app T' q = shows app t q).
      { apply shows_owner. apply owner_rel_root. reflexivity. }
      rewrite Hsh. cbn [term_resize t_grid].
      destruct (cell_inb (mkRect 0 0 (lines rc) (cols rc)) q) eqn:Eold.
      * assert (Ein : term_inb tm q && (fst q <? nl) && (snd q <? nc) = true).
        { unfold term_inb. rewrite Hs1, Hs2. fold t rc.
          unfold cell_in, cell_inb, bottom, right in *; cbn [top left lines cols] in *. lia. }
        rewrite Ein. destruct (Hc q Eold) as [H|H]; [left; exact H|right].
        apply (de_cov _ _ Hde). exact H.
      * right.
        assert (Hcase : lines rc <= fst q \/ (fst q < lines rc /\ cols rc <= snd q)).
        { unfold cell_in, cell_inb, bottom, right in *; cbn [top left lines cols] in *. lia. }
        destruct Hcase as [H1|[H1 H2]].
        -- apply (de_cov _ _ Hde2). apply Hcov1.
           ++ unfold cell_in, bottom, right in Hq'; cbn [top left lines cols] in Hq'. lia.
           ++ exact Hq'.
           ++ unfold S1, cell_in, bottom, right in *; cbn [top left lines cols] in *. lia.
        -- apply Hcov2.
           ++ unfold cell_in, bottom, right in Hq'; cbn [top left lines cols] in Hq'. lia.
           ++ exact Hq'.
           ++ unfold S2, cell_in, bottom, right in *; cbn [top left lines cols] in *. lia.
    + split.
      * apply (de_flags _ _ Hde). exact Hf1.
      * rewrite (de_queue _ _ Hde). intros Hq. apply (de_later _ _ Hde). apply Hf2. exact Hq.
  - rewrite Ht3. replace (t_ids T') with (t_ids t); [exact Hu|].
    destruct t as [i ch]. reflexivity.
Qed.

(* ------------------------------------------------------------------------------------ *)
(* the history capstone, with OTermResize                                                *)


Theorem term_resize_preserves app st tm nl nc :
  ScreenInv app st tm -> ids_unique (r_tree st) -> 0 < nl -> 0 < nc ->
  r_fault (fst (win_term_resize st tm nl nc)) = false ->
  ScreenInv app (fst (win_term_resize st tm nl nc)) (snd (win_term_resize st tm nl nc)) /\
  ids_unique (r_tree (fst (win_term_resize st tm nl nc))).
Proof.
  intros SI Hu Hnl Hnc Hf. rewrite win_term_resize_eq in *. cbn [fst snd] in *.
  assert (Hf0 : r_fault (fst (win_term_resize0 st tm nl nc)) = false).
  { destruct ((t_lines tm =? nl) && (t_cols tm =? nc)); exact Hf. }
  destruct (term_resize0_preserves app st tm nl nc SI Hu Hnl Hnc Hf0) as [H1 H2].
  destruct ((t_lines tm =? nl) && (t_cols tm =? nc)).
  - split; assumption.
  - split; [apply si_request_restore; exact H1|exact H2].
Qed.

Definition op_side2 (st : root) (o : op) : Prop :=
  match o with
  | OTermResize nl nc => 0 < nl /\ 0 < nc
  | _ => op_side st o
  end.

Theorem step_preserves2 cfg progs o m :
  ScreenInv (m_app m) (m_root m) (m_term m) -> ids_unique (r_tree (m_root m)) ->
  op_side2 (m_root m) o -> r_fault (m_root (step cfg progs o m)) = false ->
  ScreenInv (m_app (step cfg progs o m)) (m_root (step cfg progs o m)) (m_term (step cfg progs o m)) /\
  ids_unique (r_tree (m_root (step cfg progs o m))).
Proof.
  intros SI Hu Hside Hf.
  destruct o; try (apply step_preserves; assumption).
  cbn [op_side2] in Hside. destruct Hside as [Hnl Hnc]. cbn [step] in *.
  pose proof (term_resize_preserves (m_app m) (m_root m) (m_term m) nl nc SI Hu Hnl Hnc) as H.
  destruct (win_term_resize (m_root m) (m_term m) nl nc) as [st' tm'].
  cbn [fst snd m_root m_app m_term] in *. apply H. exact Hf.
Qed.
