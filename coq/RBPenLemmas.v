(* RBPenLemmas.v -- elementary facts about the pen maps of RBDefs. *)
From Coq Require Import ZArith List Bool Lia.
From Tickit Require Gen_Colours PenDefs PenSpec PenProofs.
From Tickit Require Import RectDefs RBDefs.
Import ListNotations.
Local Open Scope Z_scope.

Lemma pget_build : forall f a, a <> PenDefs.AOther -> pget (pen_build f) a = f a.
Proof. intros f a H. destruct a; try reflexivity. contradiction. Qed.

Lemma pen_build_pget : forall p, pen_build (pget p) = p.
Proof. intros []. reflexivity. Qed.

Lemma pen_copy_empty : forall q, pen_copy pen_empty q true = q.
Proof.
  intros [a b c d e f g h i j].
  cbv [pen_copy pen_build pget pen_empty PenProofs.copy_entry p_fg p_bg p_bold p_under p_italic p_reverse p_strike p_altfont p_blink p_sizepos].
  destruct a, b, c, d, e, f, g, h, i, j; reflexivity.
Qed.

Lemma pen_equiv_refl : forall p, pen_equiv p p = true.
Proof. intros p. unfold pen_equiv. apply forallb_forall. intros a _. apply PenProofs.value_eqb_refl. Qed.

Lemma ovalue_eqb_refl : forall o, ovalue_eqb o o = true.
Proof. intros [v|]; [apply PenProofs.value_eqb_refl|reflexivity]. Qed.

Lemma pen_eqb_refl : forall p, pen_eqb p p = true.
Proof. intros p. unfold pen_eqb. apply forallb_forall. intros a _. apply ovalue_eqb_refl. Qed.

(* equivalence is equality of all defaulted reads *)
Lemma pen_equiv_reads : forall a b, pen_equiv a b = true -> forall at_, preads a at_ = preads b at_.
Proof.
  intros a b H at_. unfold pen_equiv in H. rewrite forallb_forall in H.
  destruct at_; try (apply PenProofs.value_eqb_eq; apply H; cbn; tauto).
  reflexivity.
Qed.
