(* LifeRelink.v -- updates described cell by cell ([cells_by]): a generic way to re-establish
   the invariant after the link fields of a few windows have been rewritten. *)
From Coq Require Import ZArith List Bool PArith FMapPositive Lia.
From Tickit Require Import LifeDefs LifeLemmas LifeChains LifeInv LifePure.
Import ListNotations.
Local Open Scope Z_scope.

(* [h'] is [h] with every window cell [c] at address [a] replaced by [F a c]; nothing else changes *)
Record cells_by (h h' : heap) (F : positive -> wcell -> wcell) : Prop := mk_cells_by {
  cb_wins : forall a, findw h' a = option_map (F a) (findw h a);
  cb_reqs : forall q, findq h' q = findq h q;
  cb_queue : r_queue (rx h') = r_queue (rx h);
  cb_drag : r_drag (rx h') = r_drag (rx h);
  cb_nextw : nextw h' = nextw h;
  cb_nextq : nextq h' = nextq h
}.

Lemma cells_by_some : forall h h' F a c, cells_by h h' F -> findw h a = Some c -> findw h' a = Some (F a c).
Proof. intros h h' F a c CB Hf. rewrite (cb_wins h h' F CB). rewrite Hf. reflexivity. Qed.
Lemma cells_by_inv : forall h h' F a c', cells_by h h' F -> findw h' a = Some c' ->
  exists c, findw h a = Some c /\ c' = F a c.
Proof.
  intros h h' F a c' CB Hf. rewrite (cb_wins h h' F CB) in Hf.
  destruct (findw h a) as [c|]; cbn in Hf; inversion Hf. eauto.
Qed.
Lemma cells_by_none : forall h h' F a, cells_by h h' F -> (findw h' a = None <-> findw h a = None).
Proof.
  intros h h' F a CB. rewrite (cb_wins h h' F CB). destruct (findw h a); cbn; split; congruence.
Qed.

Lemma cells_by_chain : forall h h' F v l, cells_by h h' F -> chain h v l ->
  (forall a c, In a l -> findw h a = Some c -> w_next (F a c) = w_next c) -> chain h' v l.
Proof.
  intros h h' F v l CB Hc Hn. eapply chain_ext; eauto. intros a Ha.
  pose proof (chain_live h v l Hc a Ha) as Hl. destruct (findw h a) as [c|] eqn:Hf; [|congruence].
  exists c, (F a c). split; auto. split; [eapply cells_by_some; eauto|]. apply Hn; auto.
Qed.

Lemma cells_by_qchain : forall h h' F p l, cells_by h h' F -> qchain h p l -> qchain h' p l.
Proof.
  intros h h' F p l CB Hc. induction Hc; econstructor; eauto. rewrite (cb_reqs h h' F CB). eassumption.
Qed.

(* a window none of whose children is touched in [next] or [parent], and which gains no child *)
Lemma kids_preserved : forall D h h' F a c,
  hinv D h -> cells_by h h' F -> findw h a = Some c -> w_first (F a c) = w_first c ->
  (forall k ck, findw h k = Some ck -> w_parent ck = Some a ->
     w_next (F k ck) = w_next ck /\ w_parent (F k ck) = Some a) ->
  (forall k ck, findw h k = Some ck -> w_parent (F k ck) = Some a -> w_parent ck = Some a) ->
  exists l, chain h' (w_first (F a c)) l /\
            forall k, In k l <-> (exists ck, findw h k = Some ck /\ w_parent (F k ck) = Some a).
Proof.
  intros D h h' F a c HI CB Hf Hfi Hold Hnew.
  destruct (hi_kids D h HI a c Hf) as [l [Hc Hl]]. exists l. split.
  - rewrite Hfi. eapply cells_by_chain; eauto. intros k ck Hin Hfk.
    apply Hl in Hin. destruct Hin as [ck0 [H1 H2]]. rewrite Hfk in H1. inversion H1; subst ck0.
    apply (Hold k ck Hfk H2).
  - intro k. rewrite (Hl k). split; intros [ck [H1 H2]]; exists ck; split; auto.
    + apply (Hold k ck H1 H2).
    + apply (Hnew k ck H1 H2).
Qed.

(* the builder: the domain is unchanged *)
Lemma hinv_cells_by_gen : forall D h h' F,
  hinv D h -> cells_by h h' F ->
  (* flags, counts, parents *)
  (forall a c, findw h a = Some c ->
     w_isroot (F a c) = w_isroot c /\
     (w_closed (F a c) = true -> w_parent (F a c) = None) /\
     (~ In a D -> 1 <= w_ref (F a c)) /\
     (forall p, w_parent (F a c) = Some p -> findw h p <> None /\ (p < a)%positive /\ a <> root)) ->
  (* children *)
  (forall a c, findw h a = Some c ->
     exists l, chain h' (w_first (F a c)) l /\
               forall k, In k l <-> (exists ck, findw h k = Some ck /\ w_parent (F k ck) = Some a)) ->
  (* windows outside every chain *)
  (forall a c, findw h a = Some c -> w_parent (F a c) = None -> w_next (F a c) = None) ->
  (* focus *)
  (forall a c f, findw h a = Some c -> ~ In a D -> w_focus (F a c) = Some f ->
     exists cf, findw h f = Some cf /\ w_parent (F f cf) = Some a) ->
  (* queue entries stay attached to the root *)
  (forall q cq, findq h q = Some cq ->
     exists x p cx, q_win cq = Some x /\ q_parent cq = Some p /\ findw h x = Some cx /\
                    w_parent (F x cx) = Some p /\ anc h' x root) ->
  (* the drag source stays attached to the root *)
  (forall d, r_drag (rx h) = Some (Some d) -> ~ In root D -> findw h root <> None -> anc h' d root) ->
  hinv D h'.
Proof.
  intros D h h' F HI CB Hflags Hkids Horph Hfocus Hqueue Hdrag.
  constructor.
  - intros a c' Hf'. destruct (cells_by_inv h h' F a c' CB Hf') as [c [Hf E]]. subst c'.
    destruct (Hkids a c Hf) as [l [Hc Hl]]. exists l. split; auto.
    intro k. rewrite (Hl k). split; intros [ck [H1 H2]].
    + exists (F k ck). split; auto. eapply cells_by_some; eauto.
    + destruct (cells_by_inv h h' F k ck CB H1) as [ck0 [H1' E]]. subst ck. eauto.
  - intros k ck' p Hf' Hp. destruct (cells_by_inv h h' F k ck' CB Hf') as [ck [Hf E]]. subst ck'.
    destruct (Hflags k ck Hf) as [_ [_ [_ Hpar]]]. destruct (Hpar p Hp) as [Hl _].
    intro Hn. apply (cells_by_none h h' F p CB) in Hn. contradiction.
  - intros k ck' p Hf' Hp. destruct (cells_by_inv h h' F k ck' CB Hf') as [ck [Hf E]]. subst ck'.
    destruct (Hflags k ck Hf) as [_ [_ [_ Hpar]]]. destruct (Hpar p Hp) as [_ [Hlt _]]. exact Hlt.
  - intros a c' Hf' Hp. destruct (cells_by_inv h h' F a c' CB Hf') as [c [Hf E]]. subst c'. eauto.
  - intros a c' f Hf' Hd Hfo. destruct (cells_by_inv h h' F a c' CB Hf') as [c [Hf E]]. subst c'.
    destruct (Hfocus a c f Hf Hd Hfo) as [cf [H1 H2]]. exists (F f cf). split; auto. eapply cells_by_some; eauto.
  - intros a c' Hf' Hd. destruct (cells_by_inv h h' F a c' CB Hf') as [c [Hf E]]. subst c'.
    destruct (Hflags a c Hf) as [_ [_ [Hr _]]]. auto.
  - intros a c' Hf' Hc. destruct (cells_by_inv h h' F a c' CB Hf') as [c [Hf E]]. subst c'.
    destruct (Hflags a c Hf) as [_ [Hcl _]]. auto.
  - intros a c' Hf'. destruct (cells_by_inv h h' F a c' CB Hf') as [c [Hf E]]. subst c'.
    destruct (Hflags a c Hf) as [Hr _]. rewrite Hr. exact (hi_isroot D h HI a c Hf).
  - intros c' Hf'. destruct (cells_by_inv h h' F root c' CB Hf') as [c [Hf E]]. subst c'.
    destruct (Hflags root c Hf) as [_ [_ [_ Hpar]]].
    destruct (w_parent (F root c)) as [p|] eqn:Hp; auto. destruct (Hpar p eq_refl) as [_ [_ Hne]]. congruence.
  - destruct (hi_queue D h HI) as [ql [Hq1 [Hq2 Hq3]]]. exists ql. rewrite (cb_queue h h' F CB).
    split; [eapply cells_by_qchain; eauto|]. split.
    + intro q. rewrite (cb_reqs h h' F CB). apply Hq2.
    + intros q cq Hfq. rewrite (cb_reqs h h' F CB) in Hfq.
      destruct (Hqueue q cq Hfq) as [x [p [cx [H1 [H2 [H3 [H4 H5]]]]]]].
      exists x, p, (F x cx). repeat split; auto. eapply cells_by_some; eauto.
  - intros q cq Hfq. rewrite (cb_reqs h h' F CB) in Hfq. exact (hi_qkind D h HI q cq Hfq).
  - rewrite (cb_drag h h' F CB). destruct (hi_drag D h HI) as [od [E Hd]]. exists od. split; [exact E|].
    intros d Ed Hn Hl. subst od. apply Hdrag; auto. intro Hnone. apply Hl. apply (cells_by_none h h' F root CB). exact Hnone.
  - intros a Ha. rewrite (cb_nextw h h' F CB). apply (hi_nextw D h HI).
    intro Hn. apply Ha. apply (cells_by_none h h' F a CB). exact Hn.
  - rewrite (cb_nextw h h' F CB). exact (hi_nextw_root D h HI).
  - intros q Hq'. rewrite (cb_nextq h h' F CB). apply (hi_nextq D h HI). rewrite <- (cb_reqs h h' F CB). exact Hq'.
Qed.

(* the common case: parents only change to NULL *)
Lemma hinv_cells_by : forall D h h' F,
  hinv D h -> cells_by h h' F ->
  (forall a c, findw h a = Some c ->
     w_isroot (F a c) = w_isroot c /\
     (w_closed (F a c) = true -> w_parent (F a c) = None) /\
     (~ In a D -> 1 <= w_ref (F a c)) /\
     (w_parent (F a c) = w_parent c \/ w_parent (F a c) = None)) ->
  (forall a c, findw h a = Some c ->
     exists l, chain h' (w_first (F a c)) l /\
               forall k, In k l <-> (exists ck, findw h k = Some ck /\ w_parent (F k ck) = Some a)) ->
  (forall a c, findw h a = Some c -> w_parent (F a c) = None -> w_next (F a c) = None) ->
  (forall a c f, findw h a = Some c -> ~ In a D -> w_focus (F a c) = Some f ->
     exists cf, findw h f = Some cf /\ w_parent (F f cf) = Some a) ->
  (forall q cq, findq h q = Some cq ->
     exists x p cx, q_win cq = Some x /\ q_parent cq = Some p /\ findw h x = Some cx /\
                    w_parent (F x cx) = Some p /\ anc h' x root) ->
  (forall d, r_drag (rx h) = Some (Some d) -> ~ In root D -> findw h root <> None -> anc h' d root) ->
  hinv D h'.
Proof.
  intros D h h' F HI CB Hflags Hkids Horph Hfocus Hqueue Hdrag.
  apply (hinv_cells_by_gen D h h' F HI CB); auto.
  intros a c Hf. destruct (Hflags a c Hf) as [H1 [H2 [H3 H4]]]. repeat split; auto.
  - destruct H4 as [E|E]; [|congruence]. rewrite E in H. exact (hi_parent D h HI a c p Hf H).
  - destruct H4 as [E|E]; [|congruence]. rewrite E in H. exact (hi_parent_lt D h HI a c p Hf H).
  - intro Ea. subst a. destruct H4 as [E|E]; [|congruence]. rewrite E in H.
    rewrite (hi_root_parent D h HI c Hf) in H. discriminate.
Qed.

(* ancestors survive when the parent pointers on the path survive *)
Lemma cells_by_anc : forall h h' F x b, cells_by h h' F -> anc h x b ->
  (forall a c, anc h x a -> findw h a = Some c -> a <> b -> w_parent (F a c) = w_parent c) ->
  anc h' x b.
Proof.
  intros h h' F x b CB Ha. induction Ha as [a c Hf | a c p b Hf Hp Ha IH]; intro Hkeep.
  - eapply anc_refl. eapply cells_by_some; eauto.
  - destruct (Pos.eq_dec a b) as [E|E].
    + subst b. eapply anc_refl. eapply cells_by_some; eauto.
    + eapply anc_step.
      * eapply cells_by_some; eauto.
      * rewrite (Hkeep a c (anc_refl h a c Hf) Hf E). exact Hp.
      * apply IH. intros a' c' Ha' Hf' Hne. apply Hkeep; auto. eapply anc_step; eauto.
Qed.

(* the drag source stays attached when no parent pointer on its way to the root changes *)
Lemma drag_kept_path : forall D h h' F, hinv D h -> cells_by h h' F ->
  forall d, r_drag (rx h) = Some (Some d) -> ~ In root D -> findw h root <> None ->
  (forall a c, anc h d a -> findw h a = Some c -> a <> root -> w_parent (F a c) = w_parent c) ->
  anc h' d root.
Proof.
  intros D h h' F HI CB d Hd Hn Hl Hkeep. destruct (hi_drag D h HI) as [od [E Ha]]. rewrite E in Hd. inversion Hd; subst od.
  eapply cells_by_anc; eauto.
Qed.
Lemma drag_kept : forall D h h' F, hinv D h -> cells_by h h' F ->
  (forall a c, findw h a = Some c -> w_parent (F a c) = w_parent c) ->
  forall d, r_drag (rx h) = Some (Some d) -> ~ In root D -> findw h root <> None -> anc h' d root.
Proof. intros D h h' F HI CB Hk d Hd Hn Hl. eapply drag_kept_path; eauto. Qed.

(* composition of two cell-wise descriptions *)
Lemma cells_by_upd_cell : forall h a f,
  cells_by h (upd_cell h a f) (fun b c => if Pos.eqb a b then f c else c).
Proof.
  intros h a f. constructor.
  - intro b. rewrite findw_upd_cell. destruct (Pos.eqb a b) eqn:E.
    + apply Pos.eqb_eq in E. subst b. destruct (findw h a); reflexivity.
    + destruct (findw h b); reflexivity.
  - intro q. apply findq_upd_cell.
  - rewrite rx_upd_cell. reflexivity.
  - rewrite rx_upd_cell. reflexivity.
  - apply nextw_upd_cell.
  - apply nextq_upd_cell.
Qed.

Lemma cells_by_trans : forall h1 h2 h3 F G, cells_by h1 h2 F -> cells_by h2 h3 G ->
  cells_by h1 h3 (fun a c => G a (F a c)).
Proof.
  intros h1 h2 h3 F G [W1 R1 Q1 D1 N1 M1] [W2 R2 Q2 D2 N2 M2]. constructor; try congruence.
  intro a. rewrite W2, W1. destruct (findw h1 a); reflexivity.
Qed.

Lemma cells_by_ext : forall h h' F G, cells_by h h' F ->
  (forall a c, findw h a = Some c -> F a c = G a c) -> cells_by h h' G.
Proof.
  intros h h' F G [W R Q Dg N M] HE. constructor; auto.
  intro a. rewrite W. destruct (findw h a) as [c|] eqn:Hf; cbn; auto. rewrite (HE a c Hf). reflexivity.
Qed.

Lemma cells_by_refl : forall h, cells_by h h (fun _ c => c).
Proof. intro h. constructor; auto. intro a. destruct (findw h a); reflexivity. Qed.
