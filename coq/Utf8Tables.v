(* Utf8Tables.v -- binary search over a sorted table of disjoint intervals is membership
   (for ANY such table), the tables regenerated from the library's sources ARE sorted and
   disjoint (vm_compute on Gen_Width), hence the model's width function equals the
   specification's membership-based width. *)
From Coq Require Import ZArith List Bool Lia.
From Tickit Require Import Gen_Width Utf8Defs Utf8Spec.
Import ListNotations.
Local Open Scope Z_scope.

(* ------------------------------------------------------------------ sortedness *)

Fixpoint sorted_from (prev_last : Z) (t : list (Z * Z)) : bool :=
  match t with
  | [] => true
  | iv :: r => (prev_last <? fst iv) && (fst iv <=? snd iv) && sorted_from (snd iv) r
  end.

(* every interval non-empty, each one entirely below the next *)
Definition sorted_disjoint (t : list (Z * Z)) : bool :=
  match t with
  | [] => true
  | iv :: r => (fst iv <=? snd iv) && sorted_from (snd iv) r
  end.

Definition tbl_sorted (t : list (Z * Z)) : Prop :=
  (forall i a, nth_error t i = Some a -> fst a <= snd a) /\
  (forall i j a b, (i < j)%nat -> nth_error t i = Some a -> nth_error t j = Some b -> snd a < fst b).

Lemma sorted_from_ok : forall t p, sorted_from p t = true ->
  (forall i a, nth_error t i = Some a -> p < fst a /\ fst a <= snd a) /\
  (forall i j a b, (i < j)%nat -> nth_error t i = Some a -> nth_error t j = Some b -> snd a < fst b).
Proof.
  induction t as [|iv r IH]; intros p H.
  - split; intros; destruct i; discriminate.
  - cbn [sorted_from] in H.
    apply andb_true_iff in H. destruct H as [H Hr].
    apply andb_true_iff in H. destruct H as [Hp Hwf].
    apply Z.ltb_lt in Hp. apply Z.leb_le in Hwf.
    destruct (IH _ Hr) as [IH1 IH2].
    split.
    + intros i a Hi. destruct i as [|i].
      * cbn in Hi. inversion Hi; subst. lia.
      * cbn in Hi. destruct (IH1 _ _ Hi). lia.
    + intros i j a b Hij Hi Hj.
      destruct j as [|j]; [lia|].
      cbn in Hj.
      destruct i as [|i].
      * cbn in Hi. inversion Hi; subst. destruct (IH1 _ _ Hj). lia.
      * cbn in Hi. apply (IH2 i j); auto. lia.
Qed.

Lemma sorted_disjoint_ok : forall t, sorted_disjoint t = true -> tbl_sorted t.
Proof.
  intros [|iv r] H.
  - split; intros; destruct i; discriminate.
  - cbn [sorted_disjoint] in H.
    apply andb_true_iff in H. destruct H as [Hwf Hr]. apply Z.leb_le in Hwf.
    destruct (sorted_from_ok _ _ Hr) as [R1 R2].
    split.
    + intros i a Hi. destruct i as [|i]; cbn in Hi.
      * inversion Hi; subst. exact Hwf.
      * destruct (R1 _ _ Hi). lia.
    + intros i j a b Hij Hi Hj.
      destruct j as [|j]; [lia|]. cbn in Hj.
      destruct i as [|i]; cbn in Hi.
      * inversion Hi; subst. destruct (R1 _ _ Hj). lia.
      * apply (R2 i j); auto. lia.
Qed.

(* ------------------------------------------------------------------ membership *)

Lemma in_table_true : forall c t, in_table c t = true <->
  exists iv, In iv t /\ fst iv <= c <= snd iv.
Proof.
  intros c t. unfold in_table. rewrite existsb_exists.
  split; intros [iv [Hin H]]; exists iv; split; auto.
  - unfold in_iv in H. apply andb_true_iff in H. destruct H as [A B].
    apply Z.leb_le in A. apply Z.leb_le in B. lia.
  - unfold in_iv. apply andb_true_iff. split; apply Z.leb_le; lia.
Qed.

Lemma in_table_false_nth : forall c t,
  (forall i iv, nth_error t i = Some iv -> in_iv c iv = false) -> in_table c t = false.
Proof.
  intros c t H. unfold in_table.
  destruct (existsb (in_iv c) t) eqn:E; [|reflexivity].
  apply existsb_exists in E. destruct E as [iv [Hin Hiv]].
  apply In_nth_error in Hin. destruct Hin as [i Hi].
  rewrite (H _ _ Hi) in Hiv. discriminate.
Qed.

Lemma in_table_nth_true : forall c t i iv,
  nth_error t i = Some iv -> in_iv c iv = true -> in_table c t = true.
Proof.
  intros c t i iv Hi Hiv. unfold in_table. apply existsb_exists.
  exists iv. split; auto. eapply nth_error_In; eauto.
Qed.

(* ------------------------------------------------------------------ bisearch *)

Lemma bisearch_loop_ok : forall fuel c t min max,
  tbl_sorted t -> 0 <= min -> max < Z.of_nat (length t) ->
  Z.of_nat fuel > Z.max 0 (max - min + 1) ->
  (forall i iv, nth_error t i = Some iv -> (Z.of_nat i < min \/ Z.of_nat i > max) -> in_iv c iv = false) ->
  bisearch_loop fuel c t min max = Some (in_table c t).
Proof.
  induction fuel as [|fuel IH]; intros c t min max Hs Hmin Hmax Hfuel Hout.
  - lia.
  - cbn [bisearch_loop].
    destruct (max >=? min) eqn:Hge.
    + apply Z.geb_le in Hge.
      assert (Hmid : min <= (min + max) / 2 <= max).
      { split; [apply Z.div_le_lower_bound | apply Z.div_le_upper_bound]; lia. }
      set (mid := (min + max) / 2) in *.
      destruct (nth_error t (Z.to_nat mid)) as [[first last]|] eqn:Hnth.
      2:{ apply nth_error_None in Hnth. lia. }
      destruct Hs as [Hwf Hpair].
      destruct (c >? last) eqn:Hgt.
      * (* min = mid + 1 *)
        assert (Hgt' : c > last) by (apply Z.gtb_lt in Hgt; lia).
        apply IH; try lia. { split; assumption. }
        intros i iv Hi Hcase.
        destruct (Z_lt_le_dec (Z.of_nat i) min) as [Hlt|Hle].
        { apply Hout with (i := i); auto. }
        destruct Hcase as [Hcase|Hcase]; [|apply Hout with (i := i); auto].
        (* min <= i <= mid: its last is <= last of mid < c *)
        unfold in_iv. apply andb_false_iff. right. apply Z.leb_gt.
        destruct (Nat.eq_dec i (Z.to_nat mid)) as [->|Hne].
        { rewrite Hnth in Hi. inversion Hi; subst. cbn. lia. }
        assert (Hlt2 : (i < Z.to_nat mid)%nat) by lia.
        pose proof (Hpair _ _ _ _ Hlt2 Hi Hnth) as P. cbn in P.
        pose proof (Hwf _ _ Hnth) as W. cbn in W. lia.
      * destruct (c <? first) eqn:Hlt.
        -- (* max = mid - 1 *)
           apply Z.ltb_lt in Hlt.
           apply IH; try lia. { split; assumption. }
           intros i iv Hi Hcase.
           destruct (Z_lt_le_dec max (Z.of_nat i)) as [Hgt2|Hle].
           { apply Hout with (i := i); auto. lia. }
           destruct Hcase as [Hcase|Hcase]; [apply Hout with (i := i); auto|].
           unfold in_iv. apply andb_false_iff. left. apply Z.leb_gt.
           destruct (Nat.eq_dec i (Z.to_nat mid)) as [->|Hne].
           { rewrite Hnth in Hi. inversion Hi; subst. cbn. lia. }
           assert (Hlt2 : (Z.to_nat mid < i)%nat) by lia.
           pose proof (Hpair _ _ _ _ Hlt2 Hnth Hi) as P. cbn in P.
           pose proof (Hwf _ _ Hi) as W. lia.
        -- (* found *)
           f_equal. symmetry.
           apply in_table_nth_true with (i := Z.to_nat mid) (iv := (first, last)); auto.
           unfold in_iv. cbn. apply andb_true_iff.
           apply Z.ltb_ge in Hlt.
           assert (~ c > last) by (intro X; apply Z.gt_lt in X; apply Z.gtb_lt in X; congruence).
           split; apply Z.leb_le; lia.
    + f_equal. symmetry. apply in_table_false_nth.
      intros i iv Hi. apply Hout with (i := i); auto.
      assert (max < min) by (destruct (Z.geb_spec max min); [discriminate|lia]).
      lia.
Qed.

Theorem bisearch_is_membership : forall c t,
  sorted_disjoint t = true -> t <> [] ->
  bisearch c t (tbl_max t) = Some (in_table c t).
Proof.
  intros c t Hsd Hne.
  pose proof (sorted_disjoint_ok _ Hsd) as Hs.
  unfold bisearch, tbl_max.
  destruct t as [|[f0 l0] r] eqn:Et; [congruence|]. rewrite <- Et in *.
  assert (Hlen : (0 < length t)%nat) by (subst t; cbn; lia).
  assert (H0 : nth_error t 0 = Some (f0, l0)) by (subst t; reflexivity).
  rewrite H0.
  destruct (nth_error t (Z.to_nat (Z.of_nat (length t) - 1))) as [[fm lm]|] eqn:Hm.
  2:{ apply nth_error_None in Hm. lia. }
  destruct Hs as [Hwf Hpair].
  destruct ((c <? f0) || (c >? lm)) eqn:Hout.
  - f_equal. symmetry. apply in_table_false_nth.
    intros i iv Hi. unfold in_iv.
    apply orb_true_iff in Hout. destruct Hout as [Hlo|Hhi].
    + apply Z.ltb_lt in Hlo. apply andb_false_iff. left. apply Z.leb_gt.
      destruct i as [|i].
      * rewrite H0 in Hi. inversion Hi; subst. cbn. lia.
      * assert (L : (0 < S i)%nat) by lia.
        pose proof (Hpair _ _ _ _ L H0 Hi) as P. pose proof (Hwf _ _ H0) as W. cbn in P, W. lia.
    + assert (Hhi' : lm < c) by (apply Z.gtb_lt in Hhi; lia).
      apply andb_false_iff. right. apply Z.leb_gt.
      assert (Hi' : (i < length t)%nat) by (apply nth_error_Some; congruence).
      destruct (Nat.eq_dec i (Z.to_nat (Z.of_nat (length t) - 1))) as [->|Hne2].
      * rewrite Hm in Hi. inversion Hi; subst. cbn. lia.
      * assert (L : (i < Z.to_nat (Z.of_nat (length t) - 1))%nat) by lia.
        pose proof (Hpair _ _ _ _ L Hi Hm) as P. pose proof (Hwf _ _ Hm) as W. cbn in P, W. lia.
  - apply bisearch_loop_ok; try lia.
    + split; assumption.
    + intros i iv Hi [Hc|Hc]; [lia|].
      assert (Hi' : (i < length t)%nat) by (apply nth_error_Some; congruence). lia.
Qed.

(* ------------------------------------------------------------------ the regenerated tables *)

Lemma combining_sorted : sorted_disjoint combining = true.
Proof. vm_compute. reflexivity. Qed.

Lemma fullwidth_sorted : sorted_disjoint fullwidth = true.
Proof. vm_compute. reflexivity. Qed.

Lemma combining_nonempty : combining <> [].
Proof. discriminate. Qed.

Lemma fullwidth_nonempty : fullwidth <> [].
Proof. discriminate. Qed.

(* no entry of either table reaches down into the control ranges (needed because the C looks
   a code point up in fullwidth[] BEFORE mk_wcwidth tests for DEL) *)
Lemma fullwidth_above_controls : forallb (fun iv => 0xa0 <=? fst iv) fullwidth = true.
Proof. vm_compute. reflexivity. Qed.

Lemma in_fullwidth_ge : forall c, in_table c fullwidth = true -> 0xa0 <= c.
Proof.
  intros c H. apply in_table_true in H. destruct H as [iv [Hin Hc]].
  pose proof fullwidth_above_controls as F. rewrite forallb_forall in F.
  specialize (F _ Hin). apply Z.leb_le in F. lia.
Qed.

(* ------------------------------------------------------------------ hard-coded ranges *)

Lemma mk_wide_ranges_spec : forall c, mk_wide_ranges c = in_table c wide_ranges.
Proof.
  intro c. unfold mk_wide_ranges, in_table, wide_ranges, in_iv, existsb, fst, snd.
  repeat match goal with
  | |- context [?a >=? ?b] => rewrite (Z.geb_leb a b)
  end.
  destruct (0x1100 <=? c) eqn:E0; destruct (c <=? 0x115f) eqn:E1;
  destruct (c =? 0x2329) eqn:E2; destruct (c =? 0x232a) eqn:E3;
  destruct (0x2e80 <=? c) eqn:E4; destruct (c <=? 0xa4cf) eqn:E5; destruct (c =? 0x303f) eqn:E6;
  repeat match goal with
  | H : (_ <=? _) = true |- _ => apply Z.leb_le in H
  | H : (_ <=? _) = false |- _ => apply Z.leb_gt in H
  | H : (_ =? _) = true |- _ => apply Z.eqb_eq in H
  | H : (_ =? _) = false |- _ => apply Z.eqb_neq in H
  end;
  repeat match goal with
  | |- context [?a <=? ?b] =>
      let E := fresh "E" in
      destruct (Z.leb_spec a b) as [E|E]; try lia
  end; reflexivity.
Qed.

(* ------------------------------------------------------------------ width function *)

Theorem wcwidth_spec : forall cp, bad_cp cp = false -> u8_wcwidth cp = Some (spec_width cp).
Proof.
  intros cp Hbad.
  unfold bad_cp in Hbad. apply orb_false_iff in Hbad. destruct Hbad as [H20 Hc1].
  apply Z.ltb_ge in H20.
  unfold u8_wcwidth, spec_width.
  rewrite (bisearch_is_membership cp fullwidth fullwidth_sorted fullwidth_nonempty).
  destruct (in_table cp fullwidth) eqn:Efw; [reflexivity|].
  unfold mk_wcwidth.
  destruct (cp =? 0) eqn:E0; [apply Z.eqb_eq in E0; lia|].
  replace ((cp <? 32) || (cp >=? 0x7f) && (cp <? 0xa0)) with false.
  2:{ symmetry. apply orb_false_iff. split; [apply Z.ltb_ge; lia|].
      rewrite Z.geb_leb. exact Hc1. }
  rewrite (bisearch_is_membership cp combining combining_sorted combining_nonempty).
  destruct (in_table cp combining); [reflexivity|].
  rewrite mk_wide_ranges_spec.
  destruct (in_table cp wide_ranges); reflexivity.
Qed.

(* DEL is rejected by mk_wcwidth, after the (negative) look-up in fullwidth[] *)
Lemma wcwidth_del : u8_wcwidth 0x7f = Some (-1).
Proof. vm_compute. reflexivity. Qed.

Lemma spec_width_range : forall cp, 0 <= spec_width cp <= 2.
Proof.
  intro cp. unfold spec_width.
  destruct (in_table cp fullwidth); [lia|].
  destruct (in_table cp combining); [lia|].
  destruct (in_table cp wide_ranges); lia.
Qed.

(* the widths the library documents hold of the tables as translated on this run *)
Lemma documented_widths_hold :
  forallb (fun e => spec_width (fst e) =? snd e) documented_widths = true.
Proof. vm_compute. reflexivity. Qed.

(* "+1160-11FF" of the rule that generated combining[] (comment in src/unicode.h) *)
Lemma jamo_medial_final_zero_width :
  forallb (fun k => spec_width (0x1160 + Z.of_nat k) =? 0) (seq 0 160) = true.
Proof. vm_compute. reflexivity. Qed.
