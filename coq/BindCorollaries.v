(* BindCorollaries.v -- the statements of Properties_C16.v, derived from run_sound
   (BindProofs.v) and from the monitor's own invariants (BindTrace.v); the witnesses for
   the pinned code and the non-vacuity example. *)
From Coq Require Import ZArith List Bool Lia.
From Tickit Require Import BindDefs BindSpec BindProofs BindTrace.
Import ListNotations.
Local Open Scope Z_scope.

Lemma no_fault : forall env, env_ok env -> forall ops, Forall top_ok ops ->
  forall fuel, run fixed env fuel ops <> Fault.
Proof.
  intros env He ops Ho fuel H. pose proof (run_sound env He ops Ho fuel) as R. rewrite H in R. exact R.
Qed.

Lemma trace_accepted : forall env, env_ok env -> forall ops, Forall top_ok ops ->
  forall fuel w r, run fixed env fuel ops = Ok (w, r) -> verdict (rev (wt w)) = None.
Proof.
  intros env He ops Ho fuel w r H. pose proof (run_sound env He ops Ho fuel) as R. rewrite H in R. tauto.
Qed.

Lemma clause_holds : forall c env, env_ok env -> forall ops, Forall top_ok ops ->
  forall fuel w r, run fixed env fuel ops = Ok (w, r) -> verdict (rev (wt w)) <> Some c.
Proof.
  intros c env He ops Ho fuel w r H. rewrite (trace_accepted env He ops Ho fuel w r H). discriminate.
Qed.

Lemma ids_unique : forall env, env_ok env -> forall ops, Forall top_ok ops ->
  forall fuel w r, run fixed env fuel ops = Ok (w, r) -> ids_ok (ws w) = true.
Proof.
  intros env He ops Ho fuel w r H. pose proof (run_sound env He ops Ho fuel) as R. rewrite H in R. tauto.
Qed.

Lemma sweep : forall env, env_ok env -> forall ops, Forall top_ok ops ->
  forall fuel w r, run fixed env fuel ops = Ok (w, r) -> swept (ws w) = true.
Proof.
  intros env He ops Ho fuel w r H. pose proof (run_sound env He ops Ho fuel) as R. rewrite H in R. tauto.
Qed.

Lemma unbind_is_last : forall env, env_ok env -> forall ops, Forall top_ok ops ->
  forall fuel w r, run fixed env fuel ops = Ok (w, r) ->
  forall t1 name flags t2, rev (wt w) = t1 ++ TCallB name flags :: t2 ->
  has flags EV_UNBIND = true -> forall flags', ~ In (TCallB name flags') t2.
Proof.
  intros env He ops Ho fuel w r H t1 name flags t2 Ht Hf flags'.
  eapply accepted_unbind_is_last; eauto. eapply trace_accepted; eauto.
Qed.

(* ------------------------------------------------------------ witnesses *)
(* handler 0 re-emits event 1 while the trace is short; everybody else does nothing *)
Definition env_reemit : env_t := fun tr hid name flags =>
  if (hid =? 0) && (Nat.ltb (length tr) 8) then ([AEmit 1], 0) else ([], 0).

Lemma env_reemit_ok : env_ok env_reemit.
Proof.
  intros tr hid name flags. unfold env_reemit. destruct ((hid =? 0) && Nat.ltb (length tr) 8); cbn [fst].
  - constructor; [|constructor]. split; [cbn; lia|discriminate].
  - constructor.
Qed.

Definition env_idle : env_t := fun _ _ _ _ => ([], 0).
Lemma env_idle_ok : env_ok env_idle.
Proof. intros tr hid name flags; constructor. Qed.

Lemma oneshot_reentrant_refuted : exists env ops fuel w r,
  env_ok env /\ Forall top_ok ops /\ run pinned env fuel ops = Ok (w, r) /\
  verdict (rev (wt w)) = Some ENotLive.
Proof.
  exists env_reemit, [ABind 1 BIND_ONESHOT 0; AEmit 1], 40%nat.
  eexists. eexists. split; [exact env_reemit_ok|]. split.
  - repeat constructor; cbn; lia.
  - split; [vm_compute; reflexivity|vm_compute; reflexivity].
Qed.

Lemma oneshot_whilefalse_refuted : exists env ops fuel w r,
  env_ok env /\ Forall top_ok ops /\ run pinned env fuel ops = Ok (w, r) /\
  verdict (rev (wt w)) = Some EUnbind.
Proof.
  exists env_idle, [ABind 2 BIND_ONESHOT 0; AEmitWF 2; AEmitWF 2], 40%nat.
  eexists. eexists. split; [exact env_idle_ok|]. split.
  - repeat constructor; cbn; lia.
  - split; [vm_compute; reflexivity|vm_compute; reflexivity].
Qed.

(* handler 0 (a one-shot) re-emits the event; handler 1 unbinds id 3 (a later binding that
   asked for UNBIND) and binds a new handler on the same event *)
Definition env_demo : env_t := fun tr hid name flags =>
  if flags =? EV_FIRE + EV_UNBIND then (if hid =? 0 then ([AEmit 1], 0) else ([], 0))
  else if (flags =? EV_FIRE) && (hid =? 1) && (Nat.ltb (length tr) 12) then ([AUnbind 3; ABind 1 0 2], 0)
  else ([], 0).

Lemma env_demo_ok : env_ok env_demo.
Proof.
  intros tr hid name flags. unfold env_demo.
  destruct (flags =? EV_FIRE + EV_UNBIND).
  - destruct (hid =? 0); cbn [fst]; [|constructor]. constructor; [|constructor]. split; [cbn; lia|discriminate].
  - destruct ((flags =? EV_FIRE) && (hid =? 1) && Nat.ltb (length tr) 12); cbn [fst]; [|constructor].
    repeat constructor; discriminate.
Qed.

Lemma nonvacuous : exists env ops fuel w r,
  env_ok env /\ Forall top_ok ops /\ run fixed env fuel ops = Ok (w, r) /\
  length (filter (fun e => match e with TCallB _ _ => true | _ => false end) (wt w)) = 7%nat.
Proof.
  exists env_demo,
    [ABind 1 BIND_ONESHOT 0; ABind 1 0 1; ABind 1 BIND_UNBIND 2; ABind 0 BIND_FIRST 2; AEmit 1; ADestroy], 60%nat.
  eexists. eexists. split; [exact env_demo_ok|]. split.
  - repeat constructor; cbn; lia.
  - split; [vm_compute; reflexivity|vm_compute; reflexivity].
Qed.
