(* BindDefs.v -- executable model of /repo/src/bindings.c (the binding list with
   tombstones, the iteration guard and the deferred sweep), written function by function
   after the C, plus the interpreter that runs histories of bind / unbind / emit /
   destroy in which the handlers are NOT modelled but quantified over.

   Nothing but definitions here, so that extraction still works when a proof breaks.

   Conventions
   * A list node is a [binding]; C's [next] pointers are the list order.  The identity of
     a node (its address) is its [b_data] field: the interpreter -- which plays the role
     of the harness/application -- passes a fresh *name* as the [data] pointer of every
     bind call: the k-th bind call of a history gets the name +k, or -k when it is bound
     with TICKIT_BIND_FIRST.  Names are therefore unique, and the C's pointer walks
     ([bind = bind->next] after a handler returned) are modelled literally as "find the
     node with this name in the list as it is NOW, take its successor"; a walk that does
     not find its node is a dangling pointer and yields [Fault].
   * [b_fn] is the function pointer: [Some hid] = the handler with number hid,
     [None] = NULL.  Calling NULL yields [Fault].
   * Handlers are an environment [env]: given the trace so far (newest event first; its
     head is the TCallB of this very invocation), the handler number, the binding's name
     (the data pointer) and the TickitEventFlags it is invoked with, it answers with a
     script of actions to perform and the handler's return value.
   * Fuel: every recursive call of [exec] consumes one unit; [OutOfFuel] is a separate
     result, never a normal-looking value.
   * [cfg]: the two one-shot deviations of the pinned code (DESIGN section 11, #15) can
     be switched on to obtain the behaviour of the unchanged library; [fixed] is the
     code with fixes/C16-*.patch applied and is what the theorems are about.          *)
From Coq Require Import ZArith List Bool.
Import ListNotations.
Local Open Scope Z_scope.

(* ---------------------------------------------------------------- constants *)
Definition BIND_FIRST   : Z := 1.
Definition BIND_UNBIND  : Z := 2.
Definition BIND_DESTROY : Z := 4.
Definition BIND_ONESHOT : Z := 8.
Definition EV_FIRE    : Z := 1.
Definition EV_UNBIND  : Z := 2.
Definition EV_DESTROY : Z := 4.
Definition TOMBSTONE_ID : Z := -1.           (* BINDING_ID_TOMBSTONE *)

(* C: (flags & bit) != 0 *)
Definition has (flags bit : Z) : bool := negb (Z.land flags bit =? 0).

(* ---------------------------------------------------------------- data *)
Record binding := mkB {
  b_id : Z; b_ev : Z; b_flags : Z; b_fn : option Z; b_data : Z }.

Record bstate := mkS { first : list binding; is_iter : bool; needs_del : bool }.

Definition empty_state : bstate := mkS [] false false.

Record cfg := mkCfg {
  oneshot_reentrant : bool;   (* #15a: run_event only sets id = TOMBSTONE on a one-shot *)
  oneshot_whilefalse : bool   (* #15b: run_event_whilefalse ignores TICKIT_BIND_ONESHOT *)
}.
Definition fixed : cfg := mkCfg false false.
Definition pinned : cfg := mkCfg true true.

(* bind->id = TOMBSTONE; bind->evindex = -1; bind->flags = 0; bind->fn = NULL *)
Definition tombstone (b : binding) : binding := mkB TOMBSTONE_ID (-1) 0 None (b_data b).
(* the pinned run_event: bind->id = TOMBSTONE only *)
Definition half_tombstone (b : binding) : binding :=
  mkB TOMBSTONE_ID (b_ev b) (b_flags b) (b_fn b) (b_data b).

(* write through a node pointer: the node named d is replaced by (f node) *)
Definition update_node (d : Z) (f : binding -> binding) (l : list binding) : list binding :=
  map (fun x => if b_data x =? d then f x else x) l.

(* read through a node pointer; None = dangling *)
Definition find_node (d : Z) (l : list binding) : option binding :=
  find (fun x => b_data x =? d) l.

(* bind->next of the node named d: None = dangling, Some None = NULL *)
Fixpoint next_of (d : Z) (l : list binding) : option (option Z) :=
  match l with
  | [] => None
  | b :: r => if b_data b =? d then Some (option_map b_data (hd_error r)) else next_of d r
  end.

Definition head_name (l : list binding) : option Z := option_map b_data (hd_error l).

(* ---------------------------------------------------------------- cleanup() *)
Definition cleanup (s : bstate) : bstate :=
  mkS (filter (fun b => negb (b_id b =? TOMBSTONE_ID)) (first s)) (is_iter s) false.

(* the common tail of run_event, run_event_whilefalse and unbind_event_id:
     bindings->is_iterating = was_iterating;
     if(!was_iterating && bindings->needs_delete) cleanup(bindings);                  *)
Definition end_iteration (was : bool) (s : bstate) : bstate :=
  let s1 := mkS (first s) was (needs_del s) in
  if negb was && needs_del s1 then cleanup s1 else s1.

Definition begin_iteration (s : bstate) : bstate := mkS (first s) true (needs_del s).

(* ---------------------------------------------------------------- bind_event *)
(* both branches compute the maximum id over the whole list, tombstones (-1) included *)
Definition max_id (l : list binding) : Z :=
  fold_left (fun m b => if b_id b >? m then b_id b else m) l 0.

Definition bind_event (s : bstate) (ev flags : Z) (fn : option Z) (data : Z) : bstate * Z :=
  let id := max_id (first s) + 1 in
  let nb := mkB id ev (Z.land flags (BIND_UNBIND + BIND_DESTROY + BIND_ONESHOT)) fn data in
  (mkS (if has flags BIND_FIRST then nb :: first s else first s ++ [nb])
       (is_iter s) (needs_del s), id).

(* ---------------------------------------------------------------- histories *)
Inductive action :=
| ABind (ev flags hid : Z)       (* tickit_bindings_bind_event(.., ev, flags, handler hid, fresh name) *)
| AUnbind (id : Z)               (* tickit_bindings_unbind_event_id *)
| AEmit (ev : Z)                 (* tickit_bindings_run_event *)
| AEmitWF (ev : Z)               (* tickit_bindings_run_event_whilefalse *)
| ADestroy.                      (* tickit_bindings_unbind_and_destroy *)

(* what is observed: the calls made by the application (with their results) and the
   invocations of handlers, properly bracketed *)
Inductive tev :=
| TBind (name ev flags hid id : Z)    (* a bind call returned id *)
| TUnbindB (id : Z) | TUnbindE
| TEmitB (wf : bool) (ev : Z) | TEmitE (ret : Z)
| TDestroyB | TDestroyE
| TCallB (name flags : Z)             (* handler invoked: data pointer, TickitEventFlags *)
| TCallE (ret : Z).

Record world := mkW { ws : bstate; wn : Z; wt : list tev (* newest first *) }.
Definition init_world : world := mkW empty_state 1 [].

Definition log (e : tev) (w : world) : world := mkW (ws w) (wn w) (e :: wt w).
Definition set_state (s : bstate) (w : world) : world := mkW s (wn w) (wt w).

Inductive res (A : Type) := Ok (a : A) | Fault | OutOfFuel.
Arguments Ok {A} a.
Arguments Fault {A}.
Arguments OutOfFuel {A}.

Definition rbind {A B} (r : res A) (k : A -> res B) : res B :=
  match r with Ok a => k a | Fault => Fault | OutOfFuel => OutOfFuel end.

Definition env_t := list tev -> Z -> Z -> Z -> list action * Z.

Inductive task :=
| KCall (fn : option Z) (name flags : Z)     (* the body of the call fn(owner, flags, info, data);
                                                the caller has logged TCallB name flags *)
| KActs (acts : list action)                 (* a handler body / the top-level history *)
| KAct (a : action)
| KLoop (wf : bool) (ev : Z) (cur : option Z)  (* the for loop of run_event[_whilefalse], at node cur *)
| KDestroy.                                  (* the while loop of unbind_and_destroy *)

Section Interp.
Variable c : cfg.
Variable env : env_t.

(* the body of the loop for a node whose evindex matched: which flags the handler gets
   and what happens to the node before the call *)
Definition visit (wf : bool) (b : binding) (s : bstate) : bstate * Z :=
  let ignore_oneshot := wf && oneshot_whilefalse c in
  if has (b_flags b) BIND_ONESHOT && negb ignore_oneshot then
    (mkS (update_node (b_data b)
            (if negb wf && oneshot_reentrant c then half_tombstone else tombstone) (first s))
         (is_iter s) true,
     EV_FIRE + EV_UNBIND)
  else (s, EV_FIRE).

Fixpoint exec (fuel : nat) (t : task) (w : world) : res (world * Z) :=
  match fuel with
  | O => OutOfFuel
  | S f =>
    match t with
    | KCall fn name flags =>
        match fn with
        | None => Fault
        | Some hid =>
            let '(acts, ret) := env (wt w) hid name flags in
            rbind (exec f (KActs acts) w)
                  (fun '(w1, _) => Ok (log (TCallE ret) w1, ret))
        end
    | KActs acts =>
        match acts with
        | [] => Ok (w, 0)
        | a :: rest => rbind (exec f (KAct a) w) (fun '(w1, _) => exec f (KActs rest) w1)
        end
    | KAct (ABind ev flags hid) =>
        let name := if has flags BIND_FIRST then - wn w else wn w in
        let '(s1, id) := bind_event (ws w) ev flags (Some hid) name in
        Ok (mkW s1 (wn w + 1) (TBind name ev flags hid id :: wt w), id)
    | KAct (AUnbind id) =>
        let w0 := log (TUnbindB id) w in
        match find (fun b => b_id b =? id) (first (ws w0)) with
        | None => Ok (log TUnbindE w0, 0)
        | Some b =>
            let notify := has (b_flags b) BIND_UNBIND in
            let s := ws w0 in
            let s1 := mkS (update_node (b_data b) tombstone (first s)) (is_iter s) true in
            let was := is_iter s1 in
            let w1 := set_state (begin_iteration s1) w0 in
            rbind (if notify
                   then exec f (KCall (b_fn b) (b_data b) EV_UNBIND) (log (TCallB (b_data b) EV_UNBIND) w1)
                   else Ok (w1, 0))
                  (fun '(w2, _) => Ok (log TUnbindE (set_state (end_iteration was (ws w2)) w2), 0))
        end
    | KAct (AEmit ev) =>
        let was := is_iter (ws w) in
        let w1 := log (TEmitB false ev) (set_state (begin_iteration (ws w)) w) in
        rbind (exec f (KLoop false ev (head_name (first (ws w1)))) w1)
              (fun '(w2, _) => Ok (log (TEmitE 0) (set_state (end_iteration was (ws w2)) w2), 0))
    | KAct (AEmitWF ev) =>
        let was := is_iter (ws w) in
        let w1 := log (TEmitB true ev) (set_state (begin_iteration (ws w)) w) in
        rbind (exec f (KLoop true ev (head_name (first (ws w1)))) w1)
              (fun '(w2, ret) => Ok (log (TEmitE ret) (set_state (end_iteration was (ws w2)) w2), ret))
    | KAct ADestroy =>
        rbind (exec f KDestroy (log TDestroyB w))
              (fun '(w1, _) => Ok (log TDestroyE w1, 0))
    | KLoop wf ev cur =>
        match cur with
        | None => Ok (w, 0)
        | Some d =>
            match find_node d (first (ws w)) with
            | None => Fault
            | Some b =>
                if b_ev b =? ev then
                  let '(s1, flags) := visit wf b (ws w) in
                  rbind (exec f (KCall (b_fn b) d flags) (log (TCallB d flags) (set_state s1 w)))
                        (fun '(w1, ret) =>
                           if wf && negb (ret =? 0) then Ok (w1, ret)
                           else match next_of d (first (ws w1)) with
                                | None => Fault
                                | Some nx => exec f (KLoop wf ev nx) w1
                                end)
                else match next_of d (first (ws w)) with
                     | None => Fault
                     | Some nx => exec f (KLoop wf ev nx) w
                     end
            end
        end
    | KDestroy =>
        match first (ws w) with
        | [] => Ok (w, 0)
        | _ :: _ =>
            let l := first (ws w) in
            let b := last l (mkB 0 0 0 None 0) in
            let w0 := set_state (mkS (removelast l) (is_iter (ws w)) (needs_del (ws w))) w in
            let notify := (b_ev b =? 0) || has (b_flags b) (BIND_UNBIND + BIND_DESTROY) in
            rbind (if notify
                   then exec f (KCall (b_fn b) (b_data b) (EV_UNBIND + EV_DESTROY))
                               (log (TCallB (b_data b) (EV_UNBIND + EV_DESTROY)) w0)
                   else Ok (w0, 0))
                  (fun '(w1, _) => exec f KDestroy w1)
        end
    end
  end.

Definition run (fuel : nat) (ops : list action) : res (world * Z) :=
  exec fuel (KActs ops) init_world.

End Interp.
