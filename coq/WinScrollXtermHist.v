(* WinScrollXtermHist.v -- WinScrollXterm.v over the history model of WinHist.v: every
   operation of the alphabet that does not draw (everything but the flush and the terminal
   resize: window creation, close, show / hide, restacks, geometry changes, expose, focus and
   control setters -- none of which touches the terminal -- and the three SCROLLS, which reach
   the terminal through the xterm driver) keeps the abstract terminal of the window layer
   tied to the VT screen that ran the driver's tokens, together with the C01 invariant
   MInv3; so do histories of such operations of any length. *)
From Coq Require Import ZArith List Bool Lia ZifyBool.
From Tickit Require Import Csi VT XtermDefs XtermSpec XtermProofs.
From Tickit Require Import RectDefs RectProofs WinRectSet WinRectSetProofs WinDefs WinHist WinSpec
  WinExposeProofs WinFlushProofs WinLogDisjoint WinScreenInv WinLocality WinPreserve WinTermResize
  WinScrollDesc WinScrollRegion WinScrollFold WinScrollSpec WinScrollOps WinScrollInv WinHistoryFull
  WinScrollXterm.
Import ListNotations.
Local Open Scope Z_scope.
Local Strategy 1000 [rsfuel].

(* what the driver writes during one step of the history *)
Definition step_tokens (slrm : bool) (o : op) (m : mstate) : list token :=
  match o with
  | OScroll id d r => win_scroll_tokens slrm no_defects (m_root m) (m_term m) id None d r true
  | OScrollRect id rc d r => win_scroll_tokens slrm no_defects (m_root m) (m_term m) id (Some rc) d r true
  | OScrollKids id d r => win_scroll_tokens slrm no_defects (m_root m) (m_term m) id None d r false
  | _ => []
  end.

Fixpoint run_tokens (slrm : bool) (progs : Z -> list dop) (ops : list op) (m : mstate) : list token :=
  match ops with
  | [] => []
  | o :: rest => step_tokens slrm o m ++ run_tokens slrm progs rest (step no_defects progs o m)
  end.

(* the operations that draw on the terminal other than by scrolling (outside this file) *)
Definition draws (o : op) : bool :=
  match o with OFlush | OTermResize _ _ => true | _ => false end.

(* the tie between the window layer's terminal and the VT screen behind the driver *)
Definition XT (slrm : bool) (tm : term) (v : vt) : Prop :=
  VR tm v /\ vt_ok v /\ t_oracle tm = xterm_oracle slrm /\ (slrm = true -> md_lrmm (v_md v) = true).

Lemma scroll_step_xterm slrm app st tm v id orig d r mask :
  ScreenInv app st tm -> NoDup (t_ids (r_tree st)) -> vis_nonempty (r_tree st) ->
  XT slrm tm v ->
  XT slrm (snd (fst (win_scroll no_defects st tm id orig d r mask)))
     (vt_run (win_scroll_tokens slrm no_defects st tm id orig d r mask) v).
Proof.
  intros SI Hu Hvn (HVR & Hok & Horc & Hlr).
  destruct (win_scroll no_defects st tm id orig d r mask) as [[st' tm'] ret] eqn:E. cbn [fst snd].
  destruct (win_scroll_xterm slrm app st tm v id orig d r mask st' tm' ret SI Hu Hvn HVR Hok Hlr Horc E)
    as (A & B & C & _ & D).
  unfold XT. tauto.
Qed.

Theorem step_xterm slrm progs o m v :
  draws o = false -> MInv3 m -> op_side3 (m_root m) o -> XT slrm (m_term m) v ->
  XT slrm (m_term (step no_defects progs o m)) (vt_run (step_tokens slrm o m) v).
Proof.
  intros Hdr (SI & Hu & _) Hside HX. unfold ids_unique in Hu.
  destruct o; try discriminate Hdr; cbn [step step_tokens op_side3] in *;
    try (unfold m_set_root; cbn [m_term vt_run fold_left]; exact HX).
  - pose proof (scroll_step_xterm slrm _ _ _ v id None down rightw true SI Hu Hside HX) as H.
    destruct (win_scroll no_defects (m_root m) (m_term m) id None down rightw true) as [[st' tm'] ret].
    cbn [fst snd] in H. unfold m_scrolled. destruct (win_rect (m_root m) id); exact H.
  - pose proof (scroll_step_xterm slrm _ _ _ v id (Some r) down rightw true SI Hu Hside HX) as H.
    destruct (win_scroll no_defects (m_root m) (m_term m) id (Some r) down rightw true) as [[st' tm'] ret].
    cbn [fst snd] in H. unfold m_scrolled.
    destruct (match win_rect (m_root m) id with
              | Some wr => r_intersect (mkRect 0 0 (lines wr) (cols wr)) r
              | None => None
              end); exact H.
  - pose proof (scroll_step_xterm slrm _ _ _ v id None down rightw false SI Hu Hside HX) as H.
    destruct (win_scroll no_defects (m_root m) (m_term m) id None down rightw false) as [[st' tm'] ret].
    cbn [fst snd] in H. unfold m_scrolled. destruct (win_rect (m_root m) id); exact H.
  - destruct (win_take_focus no_defects (m_root m) id) as [st' ev]. cbn [m_term vt_run fold_left]. exact HX.
Qed.

(* one step: the C01 invariant and the tie to the VT together *)
Theorem step_preserves_xterm slrm progs o m v :
  draws o = false -> MInv3 m -> op_side3 (m_root m) o ->
  r_fault (m_root (step no_defects progs o m)) = false -> XT slrm (m_term m) v ->
  MInv3 (step no_defects progs o m) /\
  XT slrm (m_term (step no_defects progs o m)) (vt_run (step_tokens slrm o m) v).
Proof.
  intros Hdr Hm Hside Hf HX. split; [apply step_preserves3; assumption|apply step_xterm; assumption].
Qed.

(* histories of any length of operations that do not draw *)
Theorem history_xterm slrm progs : forall ops m v,
  forallb (fun o => negb (draws o)) ops = true ->
  MInv3 m -> run_ok3 progs ops m -> XT slrm (m_term m) v ->
  MInv3 (run no_defects progs ops m) /\
  XT slrm (m_term (run no_defects progs ops m)) (vt_run (run_tokens slrm progs ops m) v).
Proof.
  induction ops as [|o rest IH]; intros m v Hnd Hm Hok HX.
  - cbn [run fold_left run_tokens vt_run]. split; assumption.
  - cbn [forallb] in Hnd. apply andb_true_iff in Hnd. destruct Hnd as [Ho Hrest].
    apply negb_true_iff in Ho. destruct Hok as (Hside & Hf & Hok').
    assert (Hside3 : op_side3 (m_root m) o) by (destruct o; try exact Hside; discriminate Ho).
    destruct (step_preserves_xterm slrm progs o m v Ho Hm Hside3 Hf HX) as [Hm1 HX1].
    cbn [run fold_left run_tokens]. fold (run no_defects progs rest (step no_defects progs o m)).
    rewrite vt_run_app. apply IH; assumption.
Qed.

Print Assumptions history_xterm.
