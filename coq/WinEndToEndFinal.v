(* WinEndToEndFinal.v -- the end-to-end theorems of WinEndToEnd.v with their section hypotheses
   (the per-operation simulation lemmas) discharged by WinRBSim.v, and a computed example. *)
From Coq Require Import ZArith List Bool Lia.
From Tickit Require Import RectDefs WinRectSet WinDefs WinSpec WinHist WinFlushProofs WinLogDisjoint WinScreenInv WinC02Extra WinC02Exact.
From Tickit Require Import RBDefs RBSpec RBAbsLemmas RBProps Gen_Linechars RBFlushDefs RBFlushSpec RBTermSim.
From Tickit Require Import WinRBView WinRBSim WinRBExpose WinEndToEnd.
Import ListNotations.
Local Open Scope Z_scope.

Definition cscreen_sim_f := cscreen_sim Rrb_new Rrb_save Rrb_clip Rrb_translate Rrb_mask Rrb_restore Rrb_prog c_prog_op_ok.
Definition cwin_flush_sim_f := cwin_flush_sim Rrb_new Rrb_save Rrb_clip Rrb_translate Rrb_mask Rrb_restore Rrb_prog c_prog_op_ok.
Definition cwin_flush_total_f := cwin_flush_total Rrb_new Rrb_save Rrb_clip Rrb_translate Rrb_mask Rrb_restore Rrb_prog c_prog_op_ok.
Definition end_to_end_c01_f := end_to_end_c01 Rrb_new Rrb_save Rrb_clip Rrb_translate Rrb_mask Rrb_restore Rrb_prog c_prog_op_ok.
Definition end_to_end_c01_total_f := end_to_end_c01_total Rrb_new Rrb_save Rrb_clip Rrb_translate Rrb_mask Rrb_restore Rrb_prog c_prog_op_ok.
Definition end_to_end_c02_f := end_to_end_c02 Rrb_new Rrb_save Rrb_clip Rrb_translate Rrb_mask Rrb_restore Rrb_prog c_prog_op_ok.
Definition end_to_end_c02_confined_f := end_to_end_c02_confined Rrb_new Rrb_save Rrb_clip Rrb_translate Rrb_mask Rrb_restore Rrb_prog c_prog_op_ok.
Definition Rrb_expose_f := Rrb_expose Rrb_save Rrb_clip Rrb_translate Rrb_mask Rrb_restore.
Definition Rrb_flush_rb_f := Rrb_flush_rb Rrb_save Rrb_clip Rrb_translate Rrb_mask Rrb_restore.
Definition hsim_prog_f := hsim_prog Rrb_prog.

Check cscreen_sim_f. Check cwin_flush_sim_f. Check end_to_end_c01_f. Check end_to_end_c02_f. Check end_to_end_c02_confined_f. Check cwin_flush_total_f.

(* ------------------------------------------------------------------------------------ *)
(* the harness's application content satisfies the content hypothesis: printable ASCII 48..122 *)
Lemma ascii_width_one : forall c, 48 <= c < 123 -> cpw c = 1.
Proof.
  assert (G : forallb (fun k => cpw (48 + Z.of_nat k) =? 1) (seq 0 75) = true) by (vm_compute; reflexivity).
  intros c Hc. rewrite forallb_forall in G.
  specialize (G (Z.to_nat (c - 48))). replace (48 + Z.of_nat (Z.to_nat (c - 48))) with c in G by lia.
  apply Z.eqb_eq. apply G. apply in_seq. lia.
Qed.

Lemma app_base_ok : app_ok app_base.
Proof.
  intros id y x. unfold app_base.
  assert (H : 0 <= app_mix id y x mod 75 < 75) by (apply Z.mod_pos_bound; lia).
  set (k := app_mix id y x mod 75) in *.
  split.
  - apply ascii_width_one. lia.
  - unfold is_line, LINEBASE. apply andb_false_iff. left. apply Z.ltb_ge. lia.
Qed.

(* a blank terminal *)
Definition blank_term (L C : Z) : term :=
  mkTerm L C (repeat (repeat (mkT [32] pen_empty) (Z.to_nat C)) (Z.to_nat L)) 0 0 pen_empty false.

(* a computed run: a 4x6 root with a 2x3 child at (1,1), everything damaged; the concrete
   flush (span grid, flush_to_term, terminal) leaves on every cell the character the
   composition puts there *)
Definition e2e_st : root :=
  m_root (WinHist.run no_defects (fun _ => [DPaint]) [ONew 1 0 (mkRect 1 1 2 3) false false false false] (m_init 4 6 pol_accept)).

Definition e2e_cells_ok (st' : root) (t1 : term) : bool :=
  forallb (fun y => forallb (fun x =>
     match t_text (tcellat t1 y x) with
     | [c] => c =? shows app_base (r_tree st') (y, x)
     | _ => false
     end) (map Z.of_nat (seq 0 6))) (map Z.of_nat (seq 0 4)).

Example e2e_nonvacuous :
  match cwin_flush no_defects (c_hp app_base (fun _ => [DPaint])) e2e_st (blank_term 4 6) with
  | Ok (st', t1, lg) =>
    e2e_cells_ok st' t1 = true /\ r_damage st' = [] /\ map fst lg = [1; 0] /\
    (* the child's cell (0,0) is screen cell (1,1); the root shows at (0,0) *)
    t_text (tcellat t1 1 1) = [app_base 1 0 0] /\ t_text (tcellat t1 0 0) = [app_base 0 0 0] /\
    app_base 1 0 0 <> app_base 0 1 1
  | _ => False
  end.
Proof. vm_compute. repeat split; try reflexivity. discriminate. Qed.
