(* OutBufSpec.v -- what property C11 demands, independent of how term.c buffers.

   The specification of a history of output operations is one byte string: the bytes
   each request asks for, concatenated in order ("the unbuffered stream").  The
   checker [check] walks a history together with the chunks an implementation delivered
   during each operation and decides the three clauses of the property:
     - what has been delivered so far is always a prefix of what has been asked so far,
       chunk by chunk in order (nothing lost, duplicated, reordered, invented);
     - no chunk is longer than the buffer size in force;
     - after a flush, and after every operation when there is no buffer, nothing asked
       for is still outstanding.
   The property fixes the buffer size "while output is pending"; a resize with bytes
   outstanding is outside it: the checker then forgets the outstanding bytes and
   raises [k_forfeit] (stream equality is claimed only for histories without forfeit). *)
From Coq Require Import ZArith List Bool.
From Tickit Require Import OutBufDefs.
Import ListNotations.
Local Open Scope Z_scope.

(* the bytes before the first NUL *)
Fixpoint until_nul (mem : list byte) : option (list byte) :=
  match mem with
  | [] => None
  | b :: r => if b =? 0 then Some [] else option_map (cons b) (until_nul r)
  end.

(* the bytes an operation asks to be output; None = not a well-formed request *)
Definition asked (o : op) : option (list byte) :=
  match o with
  | OWrite mem len =>
      if len =? 0 then until_nul mem          (* documented-by-code rule: 0 means "NUL-terminated" *)
      else if (0 <? len) && (len <=? zlen mem) then Some (firstn (Z.to_nat len) mem)
      else None
  | OWritef f => Some f
  | OSetBuf n => if n <? 0 then None else Some []
  | OFlush | OSetFunc | OSetFd => Some []
  end.

(* the unbuffered stream of a history *)
Fixpoint stream (ops : list op) : option (list byte) :=
  match ops with
  | [] => Some []
  | o :: r => match asked o, stream r with
              | Some a, Some b => Some (a ++ b)
              | _, _ => None
              end
  end.

(* the buffer is resized only while nothing is pending (semantic form, along the run) *)
Fixpoint sized_when_drained (s : obuf) (ops : list op) : Prop :=
  match ops with
  | [] => True
  | o :: r =>
    (match o with OSetBuf _ => pending s = [] | _ => True end) /\
    (match step s o with Ok (s', _) => sized_when_drained s' r | _ => True end)
  end.

(* syntactic sufficient condition: every resize comes first or right after a flush/resize *)
Fixpoint resize_after_flush (drained : bool) (ops : list op) : bool :=
  match ops with
  | [] => true
  | OSetBuf _ :: r => drained && resize_after_flush true r
  | OFlush :: r => resize_after_flush true r
  | (OSetFunc | OSetFd) :: r => resize_after_flush drained r
  | _ :: r => resize_after_flush false r
  end.

(* the same history with every buffer size replaced by "none" *)
Definition unbuffered (ops : list op) : list op :=
  map (fun o => match o with OSetBuf _ => OSetBuf 0 | _ => o end) ops.

(* ---------------- the checker used as the oracle ---------------- *)

Record ck := mkCk { k_cap : Z; k_outst : list byte; k_forfeit : bool }.

Fixpoint strip_prefix (p l : list byte) : option (list byte) :=
  match p, l with
  | [], _ => Some l
  | a :: p', b :: l' => if a =? b then strip_prefix p' l' else None
  | _ :: _, [] => None
  end.

(* consume the delivered chunks from the front of the outstanding bytes *)
Fixpoint take_chunks (cp : Z) (outst : list byte) (cs : list chunk) : option (list byte) :=
  match cs with
  | [] => Some outst
  | c :: r =>
    if (cp =? 0) || (zlen c <=? cp)
    then match strip_prefix c outst with
         | Some o' => take_chunks cp o' r
         | None => None
         end
    else None
  end.

Definition is_nil {A} (l : list A) : bool := match l with [] => true | _ :: _ => false end.

Definition must_drain (k : ck) (o : op) : bool :=
  match o with OFlush => true | _ => k_cap k =? 0 end.

Definition check_step (k : ck) (o : op) (d : list chunk) : option ck :=
  match o with
  | OSetBuf n =>
      if is_nil d && (0 <=? n)
      then Some (mkCk n [] (k_forfeit k || negb (is_nil (k_outst k))))
      else None
  | _ =>
      match asked o with
      | None => None
      | Some bs =>
        match take_chunks (k_cap k) (k_outst k ++ bs) d with
        | None => None
        | Some rest =>
          if must_drain k o && negb (is_nil rest) then None
          else Some (mkCk (k_cap k) rest (k_forfeit k))
        end
      end
  end.

Fixpoint check_from (k : ck) (ops : list op) (outs : list (list chunk)) : option ck :=
  match ops, outs with
  | [], [] => Some k
  | o :: r, d :: ds => match check_step k o d with
                       | Some k' => check_from k' r ds
                       | None => None
                       end
  | _, _ => None
  end.

(* a history run on a freshly built terminal (no buffer, nothing pending) that has an
   output function or descriptor; without either, nothing is claimed *)
Definition check (sink : bool) (ops : list op) (outs : list (list chunk)) : bool :=
  if sink then match check_from (mkCk 0 [] false) ops outs with Some _ => true | None => false end
  else true.
