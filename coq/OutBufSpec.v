(* OutBufSpec.v -- what property C11 demands, independent of how term.c buffers.

   A terminal may have an output function, a descriptor, both, or neither; output goes to the
   ACTIVE sink: the function if there is one, else the descriptor.  The specification of a
   history is, PER SINK, one byte string: the bytes of the requests made while that sink was
   active, concatenated in order ("the unbuffered stream" of that sink).  The checker
   [check] walks a history together with the tagged chunks an implementation delivered during
   each operation and decides the clauses of the property:
     - every chunk goes to the sink that is active, and what has been delivered so far is
       always a prefix of what has been asked so far, chunk by chunk in order (nothing lost,
       duplicated, reordered, invented, or sent to the other sink);
     - no chunk is longer than the buffer size in force;
     - after a flush, a teardown and the destruction of the terminal, and after every
       operation when there is no buffer (none set, or its allocation failed), nothing asked
       for is still outstanding.
   The property fixes the configuration "while output is pending".  A resize with bytes
   outstanding is outside it: the checker forgets the outstanding bytes and raises
   [k_forfeit].  A change of the active sink with bytes outstanding, or a request while no
   sink is active, is outside it too (what is pending would surface at another sink later):
   the checker raises [k_forfeit] and stops checking that history. *)
From Coq Require Import ZArith List Bool.
From Tickit Require Import OutBufDefs.
Import ListNotations.
Local Open Scope Z_scope.

(* the bytes before the first NUL *)
Fixpoint until_nul (mem : list byte) : option (list byte) :=
  match mem with
  | [] => None
  | b :: r => if b =? 0 then Some [] else option_map (cons b) (until_nul r)
  end.

(* the bytes an operation asks to be output; None = not a well-formed request *)
Definition asked (o : op) : option (list byte) :=
  match o with
  | OWrite mem len =>
      if len =? 0 then until_nul mem          (* documented-by-code rule: 0 means "NUL-terminated" *)
      else if (0 <? len) && (len <=? zlen mem) then Some (firstn (Z.to_nat len) mem)
      else None
  | OWritef f => Some f
  | OSetBuf n | OSetBufFail n => if n <? 0 then None else Some []
  | OFlush | OTeardown | ODestroy | OSetFunc _ | OSetFd _ => Some []
  end.

Definition sink_eqb (a b : sink) : bool :=
  match a, b with SFunc, SFunc | SFd, SFd => true | _, _ => false end.

Definition osink_eqb (a b : option sink) : bool :=
  match a, b with
  | None, None => true
  | Some x, Some y => sink_eqb x y
  | _, _ => false
  end.

(* the active sink of a configuration: the function wins *)
Definition active_of (func fd : bool) : option sink :=
  if func then Some SFunc else if fd then Some SFd else None.

Definition is_active (k : sink) (func fd : bool) : bool := osink_eqb (active_of func fd) (Some k).

(* the unbuffered stream of sink [k]: the requests made while k is the active sink *)
Fixpoint stream_to (k : sink) (func fd : bool) (ops : list op) : option (list byte) :=
  match ops with
  | [] => Some []
  | o :: r =>
    let '(func', fd') := match o with
                         | OSetFunc b => (b, fd)
                         | OSetFd b => (func, b)
                         | _ => (func, fd)
                         end in
    match asked o, stream_to k func' fd' r with
    | Some a, Some b => Some ((if is_active k func fd then a else []) ++ b)
    | _, _ => None
    end
  end.

(* what of a list of tagged chunks went to sink [k] *)
Definition to_sink (k : sink) (d : list tchunk) : list byte :=
  concat (map snd (filter (fun tc => sink_eqb (fst tc) k) d)).

(* the configuration (buffer size, active sink) changes only while nothing is pending *)
Fixpoint config_when_drained (s : obuf) (ops : list op) : Prop :=
  match ops with
  | [] => True
  | o :: r =>
    (match o with
     | OSetBuf _ | OSetBufFail _ => pending s = []
     | OSetFunc b => active (set_output_func s b) <> active s -> pending s = []
     | OSetFd b => active (set_output_fd s b) <> active s -> pending s = []
     | _ => True
     end) /\
    (match step s o with Ok (s', _) => config_when_drained s' r | _ => True end)
  end.

(* syntactic sufficient condition: every reconfiguration comes first or right after a
   flush or another reconfiguration *)
Fixpoint config_after_flush (drained : bool) (ops : list op) : bool :=
  match ops with
  | [] => true
  | (OSetBuf _ | OSetBufFail _ | OSetFunc _ | OSetFd _) :: r => drained && config_after_flush true r
  | (OFlush | OTeardown | ODestroy) :: r => config_after_flush true r
  | _ :: r => config_after_flush false r
  end.

(* the same history with every buffer size replaced by "none" *)
Definition unbuffered (ops : list op) : list op :=
  map (fun o => match o with OSetBuf _ | OSetBufFail _ => OSetBuf 0 | _ => o end) ops.

(* ---------------- the checker used as the oracle ---------------- *)

Record ck := mkCk { k_cap : Z; k_func : bool; k_fd : bool; k_outst : list byte; k_forfeit : bool }.

Definition k_active (k : ck) : option sink := active_of (k_func k) (k_fd k).

Fixpoint strip_prefix (p l : list byte) : option (list byte) :=
  match p, l with
  | [], _ => Some l
  | a :: p', b :: l' => if a =? b then strip_prefix p' l' else None
  | _ :: _, [] => None
  end.

(* consume the delivered chunks from the front of the outstanding bytes; each must have
   gone to the active sink [act] *)
Fixpoint take_chunks (cp : Z) (act : option sink) (outst : list byte) (cs : list tchunk)
  : option (list byte) :=
  match cs with
  | [] => Some outst
  | (t, c) :: r =>
    if osink_eqb act (Some t) && ((cp =? 0) || (zlen c <=? cp))
    then match strip_prefix c outst with
         | Some o' => take_chunks cp act o' r
         | None => None
         end
    else None
  end.

Definition is_nil {A} (l : list A) : bool := match l with [] => true | _ :: _ => false end.

Definition must_drain (k : ck) (o : op) : bool :=
  match o with OFlush | OTeardown | ODestroy => true | _ => k_cap k =? 0 end.

Definition with_outst (k : ck) (o : list byte) : ck := mkCk (k_cap k) (k_func k) (k_fd k) o (k_forfeit k).
Definition forfeited (k : ck) : ck := mkCk (k_cap k) (k_func k) (k_fd k) [] true.

(* result: the next state and whether checking stops here *)
Definition check_step (k : ck) (o : op) (d : list tchunk) : option (ck * bool) :=
  match o with
  | OSetBuf n | OSetBufFail n =>
      (* a buffer whose allocation fails is no buffer: size 0 in force *)
      let n' := match o with OSetBufFail _ => 0 | _ => n end in
      if is_nil d && (0 <=? n)
      then Some (mkCk n' (k_func k) (k_fd k) [] (k_forfeit k || negb (is_nil (k_outst k))), false)
      else None
  | OSetFunc _ | OSetFd _ =>
      (* chunks seen during a reconfiguration can only be a flush to the sink active before it *)
      match take_chunks (k_cap k) (k_active k) (k_outst k) d with
      | None => None
      | Some rest =>
        let '(f', d') := match o with OSetFunc b => (b, k_fd k) | OSetFd b => (k_func k, b) | _ => (k_func k, k_fd k) end in
        let k' := mkCk (k_cap k) f' d' rest (k_forfeit k) in
        if osink_eqb (k_active k) (k_active k') || is_nil rest then Some (k', false)
        else Some (forfeited k', true)
      end
  | _ =>
      match asked o with
      | None => None
      | Some bs =>
        match k_active k with
        | None =>
            if is_nil d then (if is_nil bs then Some (k, false) else Some (forfeited k, true)) else None
        | Some _ =>
          match take_chunks (k_cap k) (k_active k) (k_outst k ++ bs) d with
          | None => None
          | Some rest =>
            if must_drain k o && negb (is_nil rest) then None
            else Some (with_outst k rest, false)
          end
        end
      end
  end.

Fixpoint check_from (k : ck) (ops : list op) (outs : list (list tchunk)) : option ck :=
  match ops, outs with
  | [], [] => Some k
  | o :: r, d :: ds => match check_step k o d with
                       | Some (k', false) => check_from k' r ds
                       | Some (k', true) => Some k'
                       | None => None
                       end
  | _, _ => None
  end.

(* a history run on a freshly built terminal (no buffer, nothing pending) with the given sinks *)
Definition check (func fd : bool) (ops : list op) (outs : list (list tchunk)) : bool :=
  match check_from (mkCk 0 func fd [] false) ops outs with Some _ => true | None => false end.
