(* RectSetSubtract.v -- C05, part 4: tickit_rectset_subtract.

   The loop deletes each member x that meets the hole and re-adds the (up to four)
   remainders of x through tickit_rectset_add, continuing at the same index.  Region
   preservation is easy.  That NO SURVIVOR MEETS THE HOLE needs an index argument: the
   re-adds rearrange the array, and a member not yet inspected must never slide below the
   loop index.  The argument:
     - a remainder c of x is separated ([sep]) from every member, so its add only
       stretches vertically and inserts (RectSetIso.iso_add);
     - everything it absorbs is clean (does not meet the hole): a member stacked directly
       on a remainder and disjoint from x cannot meet the hole;
     - the number of members whose key sorts before key(x) stays equal to the loop index:
       an absorbed member above is replaced by the stretched rectangle with the same key,
       a member absorbed below sorts after x, and [novm] excludes two absorptions on the
       same side;
     - all members sorting before key(x) are clean; in a sorted array they are exactly
       the first [index] ones. *)
From Coq Require Import ZArith List Bool Lia ZifyBool.
From Tickit Require Import RectDefs RectProofs RectSetDefs RectSetSpec RectSetProofs RectSetIso.
Import ListNotations.
Local Open Scope Z_scope.

(* ------------------------------------------------------------------ *)
(* keys before x, counting                                             *)

(* key y < key x *)
Definition key_ltb (x y : rect) : bool :=
  (top y <? top x) || ((top y =? top x) && (left y <? left x)).

Definition count_lt (x : rect) (s : rectset) : nat := length (filter (key_ltb x) s).

Lemma count_lt_app x a b : count_lt x (a ++ b) = (count_lt x a + count_lt x b)%nat.
Proof. unfold count_lt. rewrite filter_app, app_length. reflexivity. Qed.

Lemma count_lt_cons x y s :
  count_lt x (y :: s) = ((if key_ltb x y then 1 else 0) + count_lt x s)%nat.
Proof. unfold count_lt. cbn [filter]. destruct (key_ltb x y); reflexivity. Qed.

Lemma count_lt_all_true x l : Forall (fun y => key_ltb x y = true) l -> count_lt x l = length l.
Proof.
  induction l as [|y l IH]; [reflexivity|]. intros H. apply Forall_cons_iff in H. destruct H as [Hy Hl].
  rewrite count_lt_cons, Hy, IH by exact Hl. reflexivity.
Qed.

Lemma count_lt_all_false x l : Forall (fun y => key_ltb x y = false) l -> count_lt x l = 0%nat.
Proof.
  induction l as [|y l IH]; [reflexivity|]. intros H. apply Forall_cons_iff in H. destruct H as [Hy Hl].
  rewrite count_lt_cons, Hy, IH by exact Hl. reflexivity.
Qed.

Lemma filter_all_false {A} (f : A -> bool) l : Forall (fun y => f y = false) l -> filter f l = [].
Proof.
  induction l as [|y l IH]; [reflexivity|]. intros H. apply Forall_cons_iff in H. destruct H as [Hy Hl].
  cbn [filter]. rewrite Hy. auto.
Qed.

(* in a sorted array the members sorting before x are a prefix *)
Lemma firstn_count_lt x s : sorted s -> firstn (count_lt x s) s = filter (key_ltb x) s.
Proof.
  unfold sorted. induction s as [|a rest IH]; [reflexivity|]. cbn [pairwise]. intros [Ha Hrest].
  rewrite count_lt_cons. cbn [filter]. destruct (key_ltb x a) eqn:E.
  - cbn [Nat.add firstn]. rewrite IH by exact Hrest. reflexivity.
  - cbn [Nat.add].
    assert (Hf : Forall (fun y => key_ltb x y = false) rest).
    { eapply Forall_impl; [|exact Ha]. intros y Hy. unfold key_le in Hy. unfold key_ltb in *. lia. }
    rewrite (count_lt_all_false x rest Hf), (filter_all_false _ rest Hf). reflexivity.
Qed.

Lemma in_rs_insert s c z : In z (rs_insert s c) <-> z = c \/ In z s.
Proof.
  induction s as [|x rest IH]; cbn [rs_insert].
  - simpl. intuition.
  - destruct (cmprect x c >? 0); simpl in *; [intuition|]. rewrite IH. intuition.
Qed.

Lemma count_lt_insert x s c : sorted s ->
  count_lt x (rs_insert s c) = (count_lt x s + (if key_ltb x c then 1 else 0))%nat.
Proof.
  intros Hso. destruct (rs_insert_split s c Hso) as [pre [post [E1 [E2 _]]]].
  rewrite E2, E1, !count_lt_app, count_lt_cons. lia.
Qed.

(* ------------------------------------------------------------------ *)
(* geometry                                                            *)

Definition clean (hole y : rect) : Prop := r_intersects y hole = false.

Lemma clean_iff hole y :
  clean hole y <-> (bottom hole <= top y \/ bottom y <= top hole \/ right hole <= left y \/ right y <= left hole).
Proof. unfold clean, r_intersects. lia. Qed.

Lemma clean_no_cell hole y p : clean hole y -> cell_in y p -> cell_in hole p -> False.
Proof.
  rewrite clean_iff. destruct p as [py px]. unfold cell_in, bottom, right; cbn [fst snd]. lia.
Qed.

Lemma vstack_edges y cur :
  top (vstack y cur) = Z.min (top y) (top cur) /\ bottom (vstack y cur) = Z.max (bottom y) (bottom cur) /\
  left (vstack y cur) = left cur /\ right (vstack y cur) = right cur.
Proof. unfold vstack. pose proof (init_bounded_edges (Z.min (top y) (top cur)) (left cur) (Z.max (bottom y) (bottom cur)) (right cur)). tauto. Qed.

(* a rectangle inside x is separated from whatever x is separated from *)
Lemma sep_sub z x c : sep z x ->
  top x <= top c -> bottom c <= bottom x -> left x <= left c -> right c <= right x -> sep c z.
Proof. unfold sep. lia. Qed.

Lemma sep_vstack c y cur : nonempty c -> nonempty y -> nonempty cur ->
  sep c cur -> sep c y -> left y = left cur -> right y = right cur ->
  (bottom y = top cur \/ top y = bottom cur) -> sep c (vstack y cur).
Proof.
  intros Hc Hy Hcur H1 H2 Hl Hr Hv.
  destruct (vstack_edges y cur) as [E1 [E2 [E3 E4]]].
  unfold sep. rewrite E1, E2, E3, E4. unfold sep, nonempty, bottom, right in *. lia.
Qed.

Lemma nonempty_vstack y cur : nonempty y -> nonempty cur -> right y = right cur -> left y = left cur ->
  nonempty (vstack y cur).
Proof.
  intros Hy Hcur Hr Hl. unfold nonempty, vstack, init_bounded, bottom, right in *; cbn [lines cols]. lia.
Qed.

Lemma clean_vstack hole y cur : nonempty hole -> nonempty y -> nonempty cur ->
  clean hole y -> clean hole cur -> left y = left cur -> right y = right cur ->
  (bottom y = top cur \/ top y = bottom cur) -> clean hole (vstack y cur).
Proof.
  intros Hh Hy Hcur. rewrite !clean_iff. intros H1 H2 Hl Hr Hv.
  destruct (vstack_edges y cur) as [E1 [E2 [E3 E4]]]. rewrite E1, E2, E3, E4.
  unfold nonempty, bottom, right in *. lia.
Qed.

(* a member stacked directly on a clean rectangle c0 inside x, with c0's columns, and
   disjoint from x, cannot meet the hole (the hole meets x) *)
Lemma clean_neighbor hole x c0 y :
  nonempty y -> nonempty c0 -> r_intersects x hole = true -> clean hole c0 ->
  top x <= top c0 -> bottom c0 <= bottom x -> left x <= left c0 -> right c0 <= right x ->
  sep y x -> left y = left c0 -> right y = right c0 ->
  (bottom y = top c0 \/ top y = bottom c0) -> clean hole y.
Proof.
  intros Hy Hc Hxh. rewrite !clean_iff. unfold r_intersects in Hxh.
  unfold sep, nonempty, bottom, right in *. lia.
Qed.

(* ------------------------------------------------------------------ *)
(* the remainders of x                                                 *)

Section Step.
  Variables (hole x : rect) (i : nat) (orig : rectset).
  Hypothesis Hhole : nonempty hole.
  Hypothesis Hx : nonempty x.
  Hypothesis Hxh : r_intersects x hole = true.

  Definition piece_ok (c : rect) : Prop :=
    nonempty c /\ top x <= top c /\ bottom c <= bottom x /\ left x <= left c /\ right c <= right x /\
    clean hole c /\ key_ltb x c = false.

  Lemma pieces_ok : Forall piece_ok (r_subtract x hole) /\ pairwise sep (r_subtract x hole).
  Proof.
    clear i orig. revert Hhole Hx Hxh. unfold piece_ok, clean.
    destruct x as [tx lx hx wx], hole as [th lh hh wh].
    unfold nonempty, key_ltb, sep, r_subtract, r_contains, r_intersects, bottom, right, init_bounded;
      cbn [top left lines cols].
    intros Hh Hxn Hi.
    repeat (destr_if; cbn [negb app top left lines cols]; try (exfalso; lia));
      (split; [repeat (constructor; cbn [top left lines cols]; try lia)
              |cbn [pairwise]; repeat split; repeat (constructor; cbn [top left lines cols]; try lia)]).
  Qed.

  (* ---------------------------------------------------------------- *)
  (* invariant between two re-adds; R = remainders still to be added   *)

  Definition B (R : list rect) (s : rectset) : Prop :=
    Inv s /\
    (forall c, In c R -> Forall (sep c) s) /\
    (forall y, In y s -> clean hole y \/ sep y x) /\
    count_lt x s = i /\
    (forall y, In y s -> key_ltb x y = true -> clean hole y) /\
    (forall y, In y s -> clean hole y \/ In y orig).

  (* invariant during the re-add of remainder c0 *)
  Definition P (c0 : rect) (R : list rect) (s : rectset) (cur : rect) : Prop :=
    Inv s /\ nonempty cur /\ Forall (sep cur) s /\
    (forall c, In c R -> nonempty c /\ sep c cur /\ Forall (sep c) s) /\
    (forall y, In y s -> clean hole y \/ sep y x) /\
    clean hole cur /\
    (left cur = left c0 /\ right cur = right c0 /\ top cur <= top c0 /\ bottom c0 <= bottom cur) /\
    (top cur < top c0 -> forall y, In y s ->
       ~ (left y = left cur /\ right y = right cur /\ bottom y = top cur)) /\
    (bottom c0 < bottom cur -> forall y, In y s ->
       ~ (left y = left cur /\ right y = right cur /\ top y = bottom cur)) /\
    (count_lt x s + (if key_ltb x cur then 1 else 0))%nat = i /\
    (forall y, In y s -> key_ltb x y = true -> clean hole y) /\
    (forall y, In y s -> clean hole y \/ In y orig).

  Lemma P_basic c0 R s cur : P c0 R s cur -> Inv s /\ nonempty cur /\ Forall (sep cur) s.
  Proof. unfold P. tauto. Qed.

  Lemma P_merge c0 R (Hc0 : piece_ok c0) pre y post cur :
    P c0 R (pre ++ y :: post) cur ->
    left y = left cur -> right y = right cur ->
    (bottom y = top cur \/ top y = bottom cur) ->
    P c0 R (pre ++ post) (vstack y cur).
  Proof.
    intros [Hinv [Hcur [Hiso [HR [Hcs [Hcl [Hshape [Hup [Hdn [Hcnt [Hlt Horig]]]]]]]]]]] Hl Hr Hv.
    destruct Hc0 as [Hc0n [Hc1 [Hc2 [Hc3 [Hc4 [Hc0cl Hc0k]]]]]].
    assert (Hyin : In y (pre ++ y :: post)) by (apply in_or_app; right; left; reflexivity).
    assert (Hy : nonempty y) by (eapply Inv_In_nonempty; eauto).
    assert (Hsub : forall z, In z (pre ++ post) -> In z (pre ++ y :: post)).
    { intros z Hz. apply in_app_or in Hz. apply in_or_app. simpl. tauto. }
    assert (Hzy : forall z, In z (pre ++ post) -> sepx z y).
    { intros z Hz. destruct Hinv as [_ [Hp _]]. apply pairwise_mid in Hp. destruct Hp as [Hp1 Hp2].
      apply in_app_or in Hz. destruct Hz as [Hz|Hz]; [apply Hp1; exact Hz|apply sepx_sym, Hp2; exact Hz]. }
    rewrite Forall_forall in Hiso.
    destruct (vstack_edges y cur) as [E1 [E2 [E3 E4]]].
    (* the absorbed member is on the c0 end of the stack, hence clean *)
    assert (Hends : (bottom y = top cur /\ top cur = top c0) \/ (top y = bottom cur /\ bottom cur = bottom c0)).
    { destruct Hshape as [_ [_ [Ht Hb]]]. destruct Hv as [Hv|Hv].
      - left. split; [exact Hv|]. destruct (Z.eq_dec (top cur) (top c0)) as [e|ne]; [exact e|exfalso].
        apply (Hup ltac:(lia) y Hyin). tauto.
      - right. split; [exact Hv|]. destruct (Z.eq_dec (bottom cur) (bottom c0)) as [e|ne]; [exact e|exfalso].
        apply (Hdn ltac:(lia) y Hyin). tauto. }
    assert (Hycl : clean hole y).
    { destruct (Hcs y Hyin) as [Hc|Hs]; [exact Hc|].
      apply (clean_neighbor hole x c0 y); auto; try lia. }
    unfold P. split; [eapply Inv_remove; exact Hinv|].
    split; [apply nonempty_vstack; auto|].
    split.
    { apply Forall_forall. intros z Hz. apply sep_sym.
      apply sep_vstack; auto.
      - eapply Inv_In_nonempty; [exact Hinv|apply Hsub; exact Hz].
      - apply sep_sym, Hiso, Hsub, Hz.
      - apply sepx_sep, Hzy, Hz. }
    split.
    { intros c Hc. destruct (HR c Hc) as [Hcn [Hs1 Hs2]]. rewrite Forall_forall in Hs2.
      split; [exact Hcn|]. split.
      - apply sep_vstack; auto.
      - apply Forall_forall. intros z Hz. apply Hs2, Hsub, Hz. }
    split; [intros z Hz; apply Hcs, Hsub, Hz|].
    split; [apply clean_vstack; auto|].
    split.
    { rewrite E1, E2, E3, E4. unfold nonempty, bottom in *. lia. }
    split.
    { rewrite E1, E3, E4. intros Hlt' z Hz [Hzl [Hzr Hzb]].
      destruct Hends as [[Ha Hb]|[Ha Hb]].
      - (* y above: a member above y with y's columns would be mergeable with y *)
        destruct (Hzy z Hz) as [_ Hnv]. apply Hnv. unfold nonempty, bottom in *. lia.
      - apply (Hup ltac:(unfold nonempty, bottom in *; lia) z (Hsub z Hz)).
        unfold nonempty, bottom in *. lia. }
    split.
    { rewrite E2, E3, E4. intros Hlt' z Hz [Hzl [Hzr Hzb]].
      destruct Hends as [[Ha Hb]|[Ha Hb]].
      - apply (Hdn ltac:(unfold nonempty, bottom in *; lia) z (Hsub z Hz)).
        unfold nonempty, bottom in *. lia.
      - destruct (Hzy z Hz) as [_ Hnv]. apply Hnv. unfold nonempty, bottom in *. lia. }
    split.
    { rewrite count_lt_app, count_lt_cons in Hcnt. rewrite count_lt_app.
      assert (Hk : ((if key_ltb x y then 1 else 0) + (if key_ltb x cur then 1 else 0) =
                    (if key_ltb x (vstack y cur) then 1 else 0))%nat).
      { unfold key_ltb in *. rewrite E1, E3.
        destruct Hshape as [Hs1 [Hs2 [Hs3 Hs4]]].
        unfold nonempty, bottom in *.
        destruct ((top y <? top x) || (top y =? top x) && (left y <? left x)) eqn:K1;
        destruct ((top cur <? top x) || (top cur =? top x) && (left cur <? left x)) eqn:K2;
        destruct ((Z.min (top y) (top cur) <? top x) || (Z.min (top y) (top cur) =? top x) && (left cur <? left x)) eqn:K3;
        lia. }
      lia. }
    split; [intros z Hz; apply Hlt, Hsub, Hz|].
    intros z Hz. apply Horig, Hsub, Hz.
  Qed.

  Lemma P_insert c0 R s cur : P c0 R s cur -> Forall (sepx cur) s -> B R (rs_insert s cur).
  Proof.
    intros [Hinv [Hcur [Hiso [HR [Hcs [Hcl [Hshape [Hup [Hdn [Hcnt [Hlt Horig]]]]]]]]]]] Hsx.
    unfold B. split.
    { destruct Hinv as [Hne [Hsep Hso]].
      destruct (rs_insert_split s cur Hso) as [pre [post [E1 [E2 [H1 H2]]]]].
      rewrite E2. apply Inv_insert_mid; auto; rewrite <- E1; [repeat split; assumption|exact Hsx]. }
    split.
    { intros c Hc. destruct (HR c Hc) as [_ [Hs1 Hs2]]. rewrite Forall_forall in Hs2.
      apply Forall_forall. intros z Hz. apply in_rs_insert in Hz. destruct Hz as [->|Hz]; auto. }
    split.
    { intros z Hz. apply in_rs_insert in Hz. destruct Hz as [->|Hz]; auto. }
    split.
    { rewrite count_lt_insert; [exact Hcnt|]. destruct Hinv as [_ [_ Hso]]. exact Hso. }
    split.
    { intros z Hz Hk. apply in_rs_insert in Hz. destruct Hz as [->|Hz]; auto. }
    intros z Hz. apply in_rs_insert in Hz. destruct Hz as [->|Hz]; auto.
  Qed.

  Lemma P_init c0 R s : piece_ok c0 -> Forall piece_ok R -> Forall (sep c0) R ->
    B (c0 :: R) s -> P c0 R s c0.
  Proof.
    intros Hc0 HRok Hsep [Hinv [HR [Hcs [Hcnt [Hlt Horig]]]]].
    destruct Hc0 as [Hc0n [Hc1 [Hc2 [Hc3 [Hc4 [Hc0cl Hc0k]]]]]].
    rewrite Forall_forall in HRok, Hsep.
    unfold P. split; [exact Hinv|]. split; [exact Hc0n|].
    split; [apply HR; left; reflexivity|].
    split.
    { intros c Hc. split; [apply (HRok c Hc)|]. split; [apply sep_sym, Hsep, Hc|apply HR; right; exact Hc]. }
    split; [exact Hcs|]. split; [exact Hc0cl|].
    split; [lia|]. split; [lia|]. split; [lia|].
    split; [rewrite Hc0k; lia|]. split; [exact Hlt|exact Horig].
  Qed.

  Lemma add_pieces fuel : forall ps s s',
    Forall piece_ok ps -> pairwise sep ps -> B ps s ->
    rs_add_list fuel false s ps = Some s' -> B [] s'.
  Proof.
    unfold rs_add_list.
    induction ps as [|c0 R IH]; intros s s' Hok Hpw HB; cbn [fold_left].
    - intros [= <-]. exact HB.
    - apply Forall_cons_iff in Hok. destruct Hok as [Hc0 HRok]. destruct Hpw as [Hc0R HpwR].
      destruct (rs_add fuel false s c0) as [s1|] eqn:E1; [|rewrite fold_add_none; discriminate].
      intros Hfold. apply (IH s1 s' HRok HpwR); [|exact Hfold].
      unfold rs_add in E1.
      apply (iso_add (P c0 R) (B R) (P_basic c0 R) (P_merge c0 R Hc0) (P_insert c0 R) fuel s c0 c0 s1);
        [|exact E1].
      apply P_init; assumption.
  Qed.
End Step.

(* ------------------------------------------------------------------ *)
(* one iteration that meets the hole                                   *)

Lemma key_before x y : nonempty x -> nonempty y -> key_le y x -> sep y x -> key_ltb x y = true.
Proof. unfold nonempty, key_le, sep, key_ltb, bottom, right. lia. Qed.

Lemma key_after x y : key_le x y -> key_ltb x y = false.
Proof. unfold key_le, key_ltb. lia. Qed.

Lemma subtract_step hole fuel pre x post s1 :
  nonempty hole -> Inv (pre ++ x :: post) -> Forall (clean hole) pre ->
  r_intersects x hole = true ->
  rs_add_list fuel false (pre ++ post) (r_subtract x hole) = Some s1 ->
  Forall (clean hole) (firstn (length pre) s1) /\
  (forall y, In y s1 -> clean hole y \/ In y (pre ++ post)).
Proof.
  intros Hhole Hinv Hpre Hxh Hadd.
  assert (Hxin : In x (pre ++ x :: post)) by (apply in_or_app; right; left; reflexivity).
  assert (Hx : nonempty x) by (eapply Inv_In_nonempty; eauto).
  destruct (pieces_ok hole x Hhole Hx Hxh) as [Hok Hpw].
  assert (Hne : forall y, In y (pre ++ x :: post) -> nonempty y) by (intros y; apply Inv_In_nonempty; exact Hinv).
  destruct Hinv as [Hn [Hsep Hso]].
  pose proof (pairwise_mid _ _ _ _ Hsep) as [Hsep1 Hsep2].
  pose proof (pairwise_mid _ _ _ _ Hso) as [Hso1 Hso2].
  assert (HB : B hole x (length pre) (pre ++ post) (r_subtract x hole) (pre ++ post)).
  { unfold B. split; [apply (Inv_remove pre x post); repeat split; assumption|].
    split.
    { intros c Hc. rewrite Forall_forall in Hok. destruct (Hok c Hc) as [_ [H1 [H2 [H3 [H4 _]]]]].
      apply Forall_forall. intros z Hz. apply (sep_sub z x c); auto.
      apply in_app_or in Hz. destruct Hz as [Hz|Hz].
      - apply sepx_sep, Hsep1, Hz.
      - apply sep_sym, sepx_sep, Hsep2, Hz. }
    split.
    { intros z Hz. right. apply in_app_or in Hz. destruct Hz as [Hz|Hz].
      - apply sepx_sep, Hsep1, Hz.
      - apply sep_sym, sepx_sep, Hsep2, Hz. }
    assert (Hpre_lt : Forall (fun y => key_ltb x y = true) pre).
    { apply Forall_forall. intros y Hy. apply key_before; auto.
      - apply Hne. apply in_or_app. left. exact Hy.
      - apply sepx_sep, Hsep1, Hy. }
    assert (Hpost_ge : Forall (fun y => key_ltb x y = false) post).
    { apply Forall_forall. intros y Hy. apply key_after, Hso2, Hy. }
    split.
    { rewrite count_lt_app, (count_lt_all_true _ _ Hpre_lt), (count_lt_all_false _ _ Hpost_ge). lia. }
    split.
    { intros y Hy Hk. apply in_app_or in Hy. destruct Hy as [Hy|Hy].
      - rewrite Forall_forall in Hpre. apply Hpre, Hy.
      - rewrite Forall_forall in Hpost_ge. rewrite (Hpost_ge y Hy) in Hk. discriminate. }
    intros y Hy. right. exact Hy. }
  pose proof (add_pieces hole x (length pre) (pre ++ post) Hhole Hxh fuel _ _ _ Hok Hpw HB Hadd)
    as [Hinv1 [_ [_ [Hcnt [Hlt Horig]]]]].
  split; [|exact Horig].
  destruct Hinv1 as [_ [_ Hso1']].
  rewrite <- Hcnt, (firstn_count_lt x s1 Hso1').
  apply Forall_forall. intros y Hy. apply filter_In in Hy. destruct Hy as [Hy Hk]. apply Hlt; assumption.
Qed.

(* ------------------------------------------------------------------ *)
(* the loop                                                            *)

Lemma pieces_cover hole x : nonempty hole -> nonempty x -> r_intersects x hole = true ->
  Forall nonempty (r_subtract x hole) /\
  forall p, covered (r_subtract x hole) p <-> cell_in x p /\ ~ cell_in hole p.
Proof.
  intros Hh Hx _. destruct (subtract_ok x hole Hx Hh) as [_ [H1 [_ H2]]]. split; assumption.
Qed.

Lemma rs_subtract_loop_ok hole fuel : nonempty hole -> forall lfuel s i s',
  Inv s -> Forall (clean hole) (firstn i s) ->
  rs_subtract_loop lfuel fuel false s i hole = Some s' ->
  Inv s' /\ Forall (clean hole) s' /\
  (forall p, covered s' p -> covered s p) /\
  (forall p, covered s p -> ~ cell_in hole p -> covered s' p).
Proof.
  intros Hhole. induction lfuel as [|lf IH]; intros s i s' Hinv Hcl; cbn [rs_subtract_loop]; [discriminate|].
  destruct (nth_error s i) as [x|] eqn:Enth.
  2:{ intros [= <-]. apply nth_error_None in Enth.
      rewrite firstn_all2 in Hcl by exact Enth.
      split; [exact Hinv|]. split; [exact Hcl|]. split; auto. }
  apply nth_error_split in Enth. destruct Enth as [pre [post [E Elen]]]. subst s i.
  assert (Hpre : Forall (clean hole) pre).
  { rewrite firstn_app, firstn_all, Nat.sub_diag in Hcl. cbn [firstn] in Hcl. rewrite app_nil_r in Hcl. exact Hcl. }
  destruct (r_intersects x hole) eqn:Eint; cbn [negb].
  - (* x meets the hole *)
    assert (Hxin : In x (pre ++ x :: post)) by (apply in_or_app; right; left; reflexivity).
    assert (Hx : nonempty x) by (eapply Inv_In_nonempty; eauto).
    rewrite rs_delete_mid.
    destruct (rs_add_list fuel false (pre ++ post) (r_subtract x hole)) as [s1|] eqn:Eadd; [|discriminate].
    intros Hloop.
    destruct (pieces_cover hole x Hhole Hx Eint) as [Hpne Hpcov].
    destruct (rs_add_list_ok fuel _ _ _ (Inv_remove _ _ _ Hinv) Hpne Eadd) as [Hinv1 Hcov1].
    pose proof (subtract_step hole fuel pre x post s1 Hhole Hinv Hpre Eint Eadd) as [Hcl1 _].
    destruct (IH s1 (length pre) s' Hinv1 Hcl1 Hloop) as [Hinv' [Hcl' [Hsub Hsup]]].
    split; [exact Hinv'|]. split; [exact Hcl'|]. split.
    + intros p Hp. apply Hsub in Hp. apply Hcov1 in Hp. rewrite covered_remove_mid.
      rewrite Hpcov in Hp. tauto.
    + intros p Hp Hnh. apply Hsup; [|exact Hnh]. apply Hcov1. rewrite Hpcov.
      rewrite covered_remove_mid in Hp. tauto.
  - (* x does not meet the hole *)
    intros Hloop. apply (IH _ (S (length pre)) s' Hinv); [|exact Hloop].
    replace (pre ++ x :: post) with ((pre ++ [x]) ++ post) by (rewrite <- app_assoc; reflexivity).
    replace (S (length pre)) with (length (pre ++ [x])) by (rewrite app_length; simpl; lia).
    rewrite firstn_app, firstn_all, Nat.sub_diag. cbn [firstn]. rewrite app_nil_r.
    apply Forall_app. split; [exact Hpre|]. constructor; [exact Eint|constructor].
Qed.

Theorem rs_subtract_ok fuel s hole s' :
  Inv s -> nonempty hole -> rs_subtract fuel false s hole = Some s' ->
  Inv s' /\ forall p, covered s' p <-> covered s p /\ ~ cell_in hole p.
Proof.
  unfold rs_subtract. intros Hinv Hhole Hloop.
  destruct (rs_subtract_loop_ok hole fuel Hhole fuel s 0%nat s' Hinv ltac:(constructor) Hloop)
    as [Hinv' [Hcl [Hsub Hsup]]].
  split; [exact Hinv'|]. intros p. split.
  - intros Hp. split; [apply Hsub; exact Hp|].
    destruct Hp as [y [Hy Hyp]]. rewrite Forall_forall in Hcl.
    intros Hhp. exact (clean_no_cell hole y p (Hcl y Hy) Hyp Hhp).
  - intros [Hp Hnh]. apply Hsup; assumption.
Qed.
