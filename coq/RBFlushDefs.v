(* RBFlushDefs.v -- executable model of tickit_renderbuffer_flush_to_term (src/renderbuffer.c)
   as a list of terminal operations, and of the terminal those operations act on: the mock
   terminal's grid (src/mockterm.c: mtd_goto_abs, mtd_print, mtd_erasech, mtd_chpen).
   Definitions only.

   The flush modelled here is the REPAIRED one (fixes/C04-flush-wide-cut.patch): a text span
   whose visible slice begins or ends inside a double-width character prints a blank for the
   orphaned half, never a zero-length string, and so always advances by exactly the span's
   columns. *)
From Coq Require Import ZArith List Bool.
From Tickit Require Import RectDefs RBDefs Gen_Linechars.
Import ListNotations.
Local Open Scope Z_scope.

Inductive termop :=
| TGoto (l c : Z)                     (* tickit_term_goto *)
| TSetPen (p : pen)                   (* tickit_term_setpen *)
| TPrint (s : list Z)                 (* tickit_term_printn, as code points *)
| TErase (n : Z) (moveend : bool).    (* tickit_term_erasech; true = TICKIT_YES, false = TICKIT_MAYBE *)

Definition linechar (mask : Z) : Z := nth (Z.to_nat mask) linemask_to_char 0.

(* the TEXT case of the flush loop for a span of [n] columns showing string [s] from column
   [offs] *)
Definition text_emit (p : pen) (s : list Z) (offs n : Z) : list termop :=
  let st0 := slice_start s offs in
  (* the span begins in the middle of a double-width character: step over it *)
  let st := if sp_col st0 <? offs then count_on s st0 (-1) (offs + 1) else st0 in
  let lead := sp_col st - offs in
  let en := count_on s st (-1) (offs + n) in
  let trail := offs + n - sp_col en in
  TSetPen p :: repeat (TPrint [32]) (Z.to_nat lead) ++
  (if sp_cp st <? sp_cp en then [TPrint (slice s st en)] else []) ++
  repeat (TPrint [32]) (Z.to_nat trail).

(* the do ... while of the LINE case: glyphs of the run of LINE cells from [col] on whose pens
   are equivalent to [p]; returns (glyphs, column after the run) *)
Fixpoint line_run (fuel : nat) (r : row) (col : Z) (p : pen) : list Z * Z :=
  match fuel with
  | O => ([], col)
  | S f =>
      if col <? len r then
        match ck (get r col) with
        | Start (CLine q m) _ =>
            if pen_equiv q p then
              let '(g, c') := line_run f r (col + 1) p in (linechar m :: g, c')
            else ([], col)
        | _ => ([], col)
        end
      else ([], col)
  end.

(* one line of the flush: for(col = 0; col < rb->cols; ) *)
Fixpoint flush_line (fuel : nat) (r : row) (line col phycol : Z) : res (list termop) :=
  match fuel with
  | O => if len r <=? col then Ok [] else NoFuel
  | S f =>
      if len r <=? col then Ok [] else
      do cell <- getr r col;
      match ck cell with
      | Cont _ => Fault                                   (* abort() *)
      | Start CSkip n => flush_line f r line (col + n) phycol
      | Start c n =>
          let g := if phycol <? col then [TGoto line col] else [] in
          match c with
          | CText p s offs =>
              do rest <- flush_line f r line (col + n) (col + n);
              Ok (g ++ text_emit p s offs n ++ rest)
          | CErase p =>
              do nx <- (if col + n <? len r then getr r (col + n) else Ok dcell);
              let moveend := (col + n <? len r) &&
                             match ck nx with Start CSkip _ => false | _ => true end in
              do rest <- flush_line f r line (col + n) (if moveend then col + n else -1);
              Ok (g ++ [TSetPen p; TErase n moveend] ++ rest)
          | CLine p m =>
              let '(gl, c') := line_run (S (Z.to_nat (len r))) r (col + 1) p in
              do rest <- flush_line f r line c' (col + n + (c' - (col + 1)));
              Ok (g ++ [TSetPen p; TPrint (linechar m :: gl)] ++ rest)
          | CChar p cp =>
              do rest <- flush_line f r line (col + n) (col + n);
              Ok (g ++ [TSetPen p; TPrint [cp]] ++ rest)
          | CSkip => Fault
          end
      end
  end.

Fixpoint flush_rows (rows : list row) (line : Z) : res (list termop) :=
  match rows with
  | [] => Ok []
  | r :: rest =>
      do a <- flush_line (S (length r)) r line 0 (-1);
      do b <- flush_rows rest (line + 1);
      Ok (a ++ b)
  end.

(* tickit_renderbuffer_flush_to_term: the operations sent to the terminal, and the buffer
   afterwards *)
Definition flush (s : rb) : res (list termop * rb) :=
  do ops <- flush_rows (cells s) 0;
  Ok (ops, reset s).

(* ---------------------------------------------------------------------------------- *)
(* the terminal: the mock terminal's grid *)

Record tcell := mkT { t_text : list Z; t_pen : pen }.
(* [t_maybe]: does erasech(..., TICKIT_MAYBE) move the cursor to the end of the erased range?
   Both behaviours are legal for a terminal driver (the mock terminal moves; xterm's ECH does
   not); the flush must be right under either. *)
Record term := mkTerm { t_lines : Z; t_cols : Z; tg : list (list tcell); t_line : Z; t_col : Z; t_cur : pen; t_maybe : bool }.

(* pens on the terminal are compared by their values (tickit_term_setpen leaves the terminal's
   pen equivalent to the one given); keep them in the all-attributes-present form *)
Definition canon_pen (p : pen) : pen := pen_build (fun a => Some (preads p a)).

Definition bound (v lo hi : Z) : Z := if v <? lo then lo else if v >? hi then hi else v.

Definition t_set_cells (t : term) (line : Z) (f : Z -> tcell -> tcell) : term :=
  mkTerm (t_lines t) (t_cols t)
         (mapi (fun y r => if y =? line then mapi f r else r) (tg t))
         (t_line t) (t_col t) (t_cur t) (t_maybe t).
Definition t_move (t : term) (l c : Z) : term := mkTerm (t_lines t) (t_cols t) (tg t) l c (t_cur t) (t_maybe t).

(* the grapheme loop of mtd_print (as repaired by fixes/C08-11 and C08-12: the continuation
   cells of a double-width character are emptied only where they exist -- t_set_cells cannot
   write outside the line anyway -- and a text that cannot make progress ends the loop; the
   model prints valid texts only).  [pos] is the position reached in [s] (columns counted
   from the cursor column at the start of the print), [lim] the column limit of the previous
   round.  A grapheme that starts at or beyond the right edge wraps to column 0 of the next
   line (of the same line on the last one), as the mock terminal does. *)
Fixpoint t_print_loop (fuel : nat) (t : term) (s : list Z) (pos : spos) (lim : Z) : res term :=
  match fuel with
  | O => if Z.of_nat (length s) <=? sp_cp pos then Ok (t_move t (t_line t) (sp_col pos)) else NoFuel
  | S f =>
      if Z.of_nat (length s) <=? sp_cp pos then Ok (t_move t (t_line t) (sp_col pos)) else
      let start := pos in
      let lim := lim + 1 in
      let pos := count_on s pos (-1) lim in
      if sp_col pos =? sp_col start then t_print_loop f t s pos lim
      else if sp_col start >=? t_cols t then
        let t0 := if t_line t <? t_lines t - 1 then t_move t (t_line t + 1) (t_col t) else t in
        let width := sp_col pos - sp_col start in
        let t' := t_set_cells t0 (t_line t0)
                    (fun x c => if x =? 0 then mkT (slice s start pos) (t_cur t)
                                else if (0 <? x) && (x <? width) then mkT [] (t_cur t)
                                else c) in
        t_print_loop f t' s pos lim
      else
        let t' := t_set_cells t (t_line t)
                    (fun x c => if x =? sp_col start then mkT (slice s start pos) (t_cur t)
                                else if (sp_col start <? x) && (x <? sp_col pos) then mkT [] (t_cur t)
                                else c) in
        t_print_loop f t' s pos lim
  end.

Definition t_apply (t : term) (o : termop) : res term :=
  match o with
  | TGoto l c => Ok (t_move t (bound l 0 (t_lines t - 1)) (bound c 0 (t_cols t - 1)))
  | TSetPen p => Ok (mkTerm (t_lines t) (t_cols t) (tg t) (t_line t) (t_col t) (canon_pen p) (t_maybe t))
  | TPrint s =>
      if (0 <=? t_line t) && (t_line t <? t_lines t) && (0 <=? t_col t) then
        t_print_loop (2 * length s + 2) t s (mkPos 0 0 (t_col t)) (t_col t)
      else Fault
  | TErase n moveend =>
      if (0 <=? t_line t) && (t_line t <? t_lines t) && (0 <=? t_col t) then
        let right := bound (t_col t + n) 0 (t_cols t) in
        Ok (t_move (t_set_cells t (t_line t)
                      (fun x c => if (t_col t <=? x) && (x <? right) then mkT [32] (t_cur t) else c))
                   (t_line t) (if moveend || t_maybe t then right else t_col t))
      else Fault
  end.

Fixpoint t_run (t : term) (ops : list termop) : res term :=
  match ops with
  | [] => Ok t
  | o :: rest => do t' <- t_apply t o; t_run t' rest
  end.

(* the sentinel pattern the harness draws before flushing, so that `untouched' is visible *)
Definition sentinel_cell (l c : Z) : tcell :=
  mkT [0x61 + (l * 7 + c * 3) mod 26] (canon_pen (pen_fg (16 + (l + 2 * c) mod 5))).

Definition t_init (lines cols gl gc : Z) (p : pen) (maybe_moves : bool) : term :=
  mkTerm lines cols
    (map (fun l => map (fun c => sentinel_cell l c) (map Z.of_nat (seq 0 (Z.to_nat cols))))
         (map Z.of_nat (seq 0 (Z.to_nat lines))))
    (bound gl 0 (lines - 1)) (bound gc 0 (cols - 1)) (canon_pen p) maybe_moves.
