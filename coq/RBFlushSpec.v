(* RBFlushSpec.v -- what property C04 demands of a flush, cell by cell, and the boolean
   checkers the oracle evaluates on the implementation's own observations.

   For the abstract buffer content [want] (RBSpec.ast) and the terminal before the flush:
     Skip  cell  -> the terminal cell is untouched
     Erase cell  -> a blank in that pen
     Line  cell  -> the glyph of the (regenerated) table for that mask, in that pen
     Char  cell  -> that code point, in that pen
     Text  cell  -> the grapheme of the string that covers that column, in that pen, provided
                    the whole grapheme is visible (all of its columns are cells of the same
                    string and pen, in place); its first column holds the grapheme, a second
                    column of a double-width grapheme is the empty continuation cell.
                    A column whose grapheme is only partly visible (the other half was
                    overwritten, clipped or masked) cannot show it; the property only demands
                    that it does not disturb anything else: such a cell is free in content,
                    and must carry the text's pen.
                    The two halves of a double-width grapheme may have been drawn by two
                    different operations that happened to draw the same string in the same pen
                    at the same place (the abstract cell does not record which operation drew
                    it); then each half is, to the buffer, a partly visible grapheme.  So for a
                    double-width grapheme that looks whole, two renderings are accepted: the
                    grapheme, or a blank in each half.
   Cells of the terminal outside the buffer are untouched. *)
From Coq Require Import ZArith List Bool.
From Tickit Require Import RectDefs RBDefs RBSpec Gen_Linechars RBFlushDefs.
Import ListNotations.
Local Open Scope Z_scope.

Inductive texp :=
| XKeep                             (* untouched *)
| XIs (s : list Z) (p : pen)        (* exactly this text (may be empty: continuation), this pen *)
| XOr (s1 s2 : list Z) (p : pen)    (* one of two texts, this pen *)
| XAny (p : pen).                   (* content free, this pen *)


Definition is_text_of (c : cellc) (p : pen) (s : list Z) (col : Z) : bool :=
  match c with AText q t k => pen_eqb p q && list_eqb Z.eqb s t && (k =? col) | _ => false end.

(* expectation for column [x] of a buffer row *)
Definition expect_cell (row : list acell) (x : Z) : texp :=
  match ac (nthz row x (mkA ASkip (-1))) with
  | ASkip => XKeep
  | AErase p => XIs [32] p
  | ALine p m => XIs [linechar m] p
  | AChar p cp => XIs [cp] p
  | AText p s col =>
      let a := slice_start s col in                     (* start of the grapheme covering col *)
      let b := count_on s a (sp_gr a + 1) (-1) in       (* its end *)
      let c0 := sp_col a in
      let w := sp_col b - c0 in
      let whole :=
        (c0 <=? col) && (col <? c0 + w) &&
        forallb (fun j => is_text_of (ac (nthz row (x - (col - c0) + j) (mkA ASkip (-1)))) p s (c0 + j))
                (zseq 0 (Z.to_nat w)) in
      if whole then
        (if w =? 1 then XIs (slice s a b) p
         else if col =? c0 then XOr (slice s a b) [32] p else XOr [] [32] p)
      else XAny p
  end.

Definition tcell_eqb (a b : tcell) : bool := list_eqb Z.eqb (t_text a) (t_text b) && pen_equiv (t_pen a) (t_pen b).

Definition cell_meets (e : texp) (before after : tcell) : bool :=
  match e with
  | XKeep => tcell_eqb before after
  | XIs s p => list_eqb Z.eqb (t_text after) s && pen_equiv (t_pen after) p
  | XOr s1 s2 p => (list_eqb Z.eqb (t_text after) s1 || list_eqb Z.eqb (t_text after) s2) && pen_equiv (t_pen after) p
  | XAny p => pen_equiv (t_pen after) p
  end.

(* the terminal grid after the flush against the expectation *)
Definition grid_meets (want : agrid) (before after : list (list tcell)) : bool :=
  (length before =? length after)%nat &&
  forallb (fun y =>
     let brow := nthz before y [] in
     let arow := nthz after y [] in
     let wrow := nthz want y [] in
     (length brow =? length arow)%nat &&
     forallb (fun x => cell_meets (expect_cell wrow x) (nthz brow x (mkT [] pen_empty)) (nthz arow x (mkT [] pen_empty)))
             (zseq 0 (length brow)))
    (zseq 0 (length before)).

(* "exactly once": the columns written by the emitted operations are as many as the buffer has
   pending cells *)
Definition op_cols (o : termop) : Z :=
  match o with TPrint s => text_width s | TErase n _ => n | _ => 0 end.
Definition log_cols (ops : list termop) : Z := fold_left (fun a o => a + op_cols o) ops 0.
Definition pending_cells (want : agrid) : Z :=
  fold_left (fun a row => a + Z.of_nat (length (filter (fun c => match ac c with ASkip => false | _ => true end) row))) want 0.

(* "each in its own place": the cells a list of operations covers.
   The positions written and the cursor afterwards, given the cursor before (None = unknown);
   None if something is written with the cursor unknown.  Printing advances by the library's
   own width; erasech(n, YES) moves to the end of the erased range, erasech(n, MAYBE) leaves
   the cursor in an unknown position. *)
Definition tpos := (Z * Z)%type.
Definition cells_from (l c n : Z) : list tpos := map (pair l) (zseq c (Z.to_nat n)).

Fixpoint track (cur : option tpos) (ops : list termop) : option (list tpos * option tpos) :=
  match ops with
  | [] => Some ([], cur)
  | TGoto l c :: r => track (Some (l, c)) r
  | TSetPen _ :: r => track cur r
  | TPrint s :: r =>
      match cur with
      | None => None
      | Some (l, c) =>
          match track (Some (l, c + text_width s)) r with
          | None => None
          | Some (w, e) => Some (cells_from l c (text_width s) ++ w, e)
          end
      end
  | TErase n mv :: r =>
      match cur with
      | None => None
      | Some (l, c) =>
          match track (if mv then Some (l, c + n) else None) r with
          | None => None
          | Some (w, e) => Some (cells_from l c n ++ w, e)
          end
      end
  end.

Definition is_skipc (c : cellc) : bool := match c with ASkip => true | _ => false end.

(* the pending (non-skip) cells of a grid in row-major order *)
Definition a_pending_row (y : Z) (row : list acell) : list tpos :=
  map (pair y) (filter (fun x => negb (is_skipc (ac (nthz row x (mkA ASkip (-1)))))) (zseq 0 (length row))).
Fixpoint a_pending_from (g : agrid) (y : Z) : list tpos :=
  match g with
  | [] => []
  | row :: rest => a_pending_row y row ++ a_pending_from rest (y + 1)
  end.
Definition a_pending (g : agrid) : list tpos := a_pending_from g 0.

Definition tpos_eqb (a b : tpos) : bool := (fst a =? fst b) && (snd a =? snd b).

Definition covers_checkb (want : agrid) (log : list termop) : bool :=
  match track None log with
  | Some (w, _) => list_eqb tpos_eqb w (a_pending want)
  | None => false
  end.

(* "what is shown": for buffers whose texts consist of width-one characters the terminal after
   the flush is exactly the overlay of the pending cells on the terminal before -- each pending
   cell shows its own content in its own pen, everything else is untouched (the statement of
   theorem C04_flush_grid). *)
Definition xcell (c : cellc) : option tcell :=
  match c with
  | ASkip => None
  | AErase p => Some (mkT [32] (canon_pen p))
  | ALine p m => Some (mkT [linechar m] (canon_pen p))
  | AChar p cp => Some (mkT [cp] (canon_pen p))
  | AText p u k => Some (mkT [nth (Z.to_nat k) u 0] (canon_pen p))
  end.
Definition over (c : cellc) (d : tcell) : tcell := match xcell c with Some tc => tc | None => d end.

Definition narrowb (u : list Z) : bool := forallb (fun c => cpw c =? 1) u.
Definition grid_narrowb (want : agrid) : bool :=
  forallb (forallb (fun c => match ac c with AText _ u _ => narrowb u | _ => true end)) want.

Definition dtc : tcell := mkT [] pen_empty.

Definition overlay_checkb (want : agrid) (before after : list (list tcell)) : bool :=
  negb (grid_narrowb want) ||
  ((length before =? length after)%nat &&
   forallb (fun y =>
      let brow := nthz before y [] in
      let arow := nthz after y [] in
      let wrow := nthz want y [] in
      (length brow =? length arow)%nat &&
      forallb (fun x => tcell_eqb (nthz arow x dtc) (over (ac (nthz wrow x (mkA ASkip (-1)))) (nthz brow x dtc)))
              (zseq 0 (length brow)))
     (zseq 0 (length before))).

Definition grids_eqb (a b : list (list tcell)) : bool := list_eqb (list_eqb tcell_eqb) a b.

(* the verdict on one flush: [before] the terminal before, [log] the operations the
   implementation sent, [after] the grid it left.
   (1) a terminal that advances by the library's own widths, fed [log], ends with [after];
   (2) [after] meets the cell-wise expectation for [want] over [before];
   (3) the log writes as many columns as there are pending cells;
   (4) with the cursor tracked from "unknown", the log covers exactly the pending cells, each
       once, in row-major order (the statement of theorem C04_flush_columns);
   (5) if all texts of [want] consist of width-one characters, [after] is exactly the overlay
       of the pending cells on [before] (the statement of theorem C04_flush_grid). *)
Definition flush_checkb (want : ast) (before : term) (log : list termop) (after : list (list tcell)) : bool :=
  match t_run before log with
  | Ok t1 => grids_eqb (tg t1) after
  | _ => false
  end &&
  grid_meets (ag want) (tg before) after &&
  (log_cols log =? pending_cells (ag want)) &&
  covers_checkb (ag want) log &&
  overlay_checkb (ag want) (tg before) after.

(* the payload check for a terminal driven through the xterm driver: the printable bytes it
   received (control sequences stripped), as code points, must be the expected cell texts in
   row-major order; a partly visible grapheme may contribute nothing or one blank *)
Fixpoint payload_match (fuel : nat) (exps : list texp) (payload : list Z) : bool :=
  match fuel with
  | O => false
  | S f =>
      match exps with
      | [] => match payload with [] => true | _ => false end
      | XKeep :: r => payload_match f r payload
      | XIs s _ :: r =>
          if list_eqb Z.eqb (firstn (length s) payload) s then payload_match f r (skipn (length s) payload) else false
      | XOr s1 s2 _ :: r =>
          (if list_eqb Z.eqb (firstn (length s1) payload) s1 then payload_match f r (skipn (length s1) payload) else false) ||
          (if list_eqb Z.eqb (firstn (length s2) payload) s2 then payload_match f r (skipn (length s2) payload) else false)
      | XAny _ :: r =>
          payload_match f r payload ||
          match payload with 32 :: p' => payload_match f r p' | _ => false end
      end
  end.

(* tickit_pen_get_bool_attr(pen, TICKIT_PEN_REVERSE) *)
Definition pen_reverse (p : pen) : bool :=
  match preads p PenDefs.REVERSE with PenSpec.VBool b => b | _ => false end.

(* the printable text the xterm driver (src/termdriver-xterm.c) sends for a list of operations:
   prints as they are; an erase as ECH -- no text -- unless the pen in force has reverse video,
   where the driver avoids ECH and writes blanks *)
Fixpoint xterm_payload (pn : pen) (ops : list termop) : list Z :=
  match ops with
  | [] => []
  | TGoto _ _ :: r => xterm_payload pn r
  | TSetPen p :: r => xterm_payload p r
  | TPrint u :: r => u ++ xterm_payload pn r
  | TErase n _ :: r => (if pen_reverse pn then repeat 32 (Z.to_nat n) else []) ++ xterm_payload pn r
  end.

Definition row_exps (wrow : list acell) : list texp :=
  (* erase is sent as ECH by the xterm driver, not as text -- except in reverse video *)
  map (fun x => match expect_cell wrow x with XIs (32 :: nil) p =>
                   (match ac (nthz wrow x (mkA ASkip (-1))) with
                    | AErase q => if pen_reverse q then XIs [32] p else XKeep
                    | _ => XIs [32] p end)
                | e => e end)
      (zseq 0 (length wrow)).

Definition payload_checkb (want : ast) (payload : list Z) : bool :=
  let exps := flat_map row_exps (ag want) in
  payload_match (S (2 * length exps + length payload)) exps payload.
