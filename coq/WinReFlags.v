(* WinReFlags.v -- re-entering expose handlers, part 2: the FLAG INVARIANT.

   FlagInv st: whenever damage is pending, needs_expose and needs_later_processing are set,
   and whenever a restack is queued needs_later_processing is set -- so the next flush does
   the work.  Every call a handler can make into the window layer -- expose, show, hide, restack,
   close, destroy -- keeps it (with no side condition at all; a close only adds damage through
   win_expose and removes queue entries), hence so does a whole flush with ARBITRARY scripted calls
   (flush_re_flaginv).

   DmgOK st: the root window's rectangle is non-empty, and unless a rectangle-set loop ran
   out of fuel every rectangle of the damage set is non-empty.  Kept by every call and by the
   flush (flush_re_flags_partial).

   The combined statement asked for,

     Theorem flush_re_flags : forall cfg hnd racts st tm st' tm' lg,
       FlagInv st -> all_nonempty (r_damage st) ->
       win_flush_re cfg (re_handler cfg hnd racts) st tm = (st', tm', lg) ->
       r_fault st' = false -> FlagInv st' /\ all_nonempty (r_damage st'),

   holds for every configuration whose flush clips the damage to the root window
   (d_flush_noclip = false, in particular no_defects): flush_re_flags.  With defect #27 switched
   on AND an empty root rectangle it is FALSE: the root's handler is still called, and when it
   calls tickit_window_expose(root, NULL) the empty rectangle goes into the damage set
   (flush_re_flags_counterexample).  For arbitrary cfg: flush_re_flags_partial (extra hypothesis:
   the root's rectangle is non-empty) and flush_re_flaginv (the FlagInv half, no hypothesis). *)
From Coq Require Import ZArith List Bool Lia ZifyBool.
From Tickit Require Import RectDefs RectProofs WinRectSet WinRectSetProofs WinDefs WinHist WinSpec
  WinExposeProofs WinFlushProofs WinLogDisjoint WinScreenInv WinLocality WinPreserve WinReDefs
  WinReProofs.
Import ListNotations.
Local Open Scope Z_scope.
Local Strategy 1000 [rsfuel].

Definition FlagInv (st : root) : Prop :=
  (r_damage st <> [] -> r_nexp st = true /\ r_later st = true) /\
  (r_queue st <> [] -> r_later st = true).

Definition RootNE (st : root) : Prop := nonempty (w_rect (t_info (r_tree st))).

Definition DmgOK (st : root) : Prop :=
  RootNE st /\ (r_fault st = false -> all_nonempty (r_damage st)).

(* ------------------------------------------------------------------------------------ *)
(* states that differ in the tree (but not in the root's rectangle) and in raised flags  *)

Definition same_dmg (st X : root) : Prop :=
  r_damage X = r_damage st /\ r_fault X = r_fault st /\ (r_queue X <> [] -> r_queue st <> []) /\
  r_nexp X = r_nexp st /\ (r_later st = true -> r_later X = true) /\
  w_rect (t_info (r_tree X)) = w_rect (t_info (r_tree st)).

Lemma same_dmg_flaginv st X : same_dmg st X -> FlagInv st -> FlagInv X.
Proof.
  intros (Hd & _ & Hq & Hn & Hl & _) [H1 H2]. unfold FlagInv. rewrite Hd, Hn. split.
  - intros H. destruct (H1 H) as [A B]. split; [exact A|apply Hl; exact B].
  - intros H. apply Hl. apply H2. apply Hq. exact H.
Qed.

Lemma same_dmg_dmgok st X : same_dmg st X -> DmgOK st -> DmgOK X.
Proof.
  intros (Hd & Hf & _ & _ & _ & Hr) [H1 H2]. unfold DmgOK, RootNE. rewrite Hd, Hf, Hr. split; assumption.
Qed.

Lemma same_dmg_set_tree st t :
  w_rect (t_info t) = w_rect (t_info (r_tree st)) -> same_dmg st (set_tree st t).
Proof. intros H. unfold same_dmg; cbn [r_damage r_fault r_queue r_nexp r_later r_tree set_tree]. tauto. Qed.

Lemma same_dmg_restore st X : same_dmg st X -> same_dmg st (request_restore X).
Proof.
  unfold same_dmg, request_restore; cbn [r_damage r_fault r_queue r_nexp r_later r_tree set_flags]. tauto.
Qed.

Lemma same_dmg_cond (b : bool) st X : same_dmg st X -> same_dmg st (if b then request_restore X else X).
Proof. intros H. destruct b; [apply same_dmg_restore|]; exact H. Qed.

Lemma update_root_rect f id t :
  (forall i, w_rect (f i) = w_rect i) -> w_rect (t_info (t_update f id t)) = w_rect (t_info t).
Proof. intros Hf. rewrite update_info. destruct (t_id t =? id); [apply Hf|reflexivity]. Qed.

Lemma upd_kids_root_info F id t : t_info (t_upd_kids F id t) = t_info t.
Proof. destruct t as [i ch]. reflexivity. Qed.

(* ------------------------------------------------------------------------------------ *)
(* FlagInv: kept by every operation, unconditionally                                     *)

Lemma root_damage_flaginv st d : FlagInv st -> FlagInv (root_damage st d).
Proof.
  intros [H1 H2]. unfold root_damage.
  destruct (rs_contains (r_fuel st) (r_damage st) d) as [[|]|].
  - split; assumption.
  - destruct (rs_add (r_fuel st) (r_damage st) d) as [s|].
    + unfold FlagInv; cbn [r_damage r_queue r_nexp r_later set_flags set_damage].
      split; intros _; [split|]; reflexivity.
    + unfold FlagInv; cbn [r_damage r_queue r_nexp r_later set_fault]. split; assumption.
  - unfold FlagInv; cbn [r_damage r_queue r_nexp r_later set_fault]. split; assumption.
Qed.

Lemma win_expose_flaginv st id ex : FlagInv st -> FlagInv (win_expose st id ex).
Proof.
  intros H. unfold win_expose. destruct (t_chain id (r_tree st)) as [chain|]; [|exact H].
  destruct (expose_up chain ex); [apply root_damage_flaginv|]; exact H.
Qed.

Lemma keeps_rect_vis b : forall i, w_rect (set_vis i b) = w_rect i.
Proof. reflexivity. Qed.
Lemma keeps_rect_link c : forall i, w_rect (set_fchild i c) = w_rect i.
Proof. reflexivity. Qed.
Lemma keeps_rect_unlink id :
  forall i, w_rect (if opt_eqb (w_fchild i) id then set_fchild i None else i) = w_rect i.
Proof. intros i. destruct (opt_eqb (w_fchild i) id); reflexivity. Qed.

(* win_show and win_hide: a tree change seen by same_dmg, then one expose *)
Lemma win_show_shape cfg st id :
  win_show cfg st id = st \/
  exists X y ex, same_dmg st X /\ win_show cfg st id = win_expose X y ex /\
                 (ex = None -> y = id).
Proof.
  unfold win_show. destruct (t_chain id (r_tree st)) as [chain|]; [|left; reflexivity]. right.
  set (tr1 := t_update (fun j => set_vis j true) id (r_tree st)).
  assert (H1 : w_rect (t_info tr1) = w_rect (t_info (r_tree st))).
  { apply update_root_rect. apply keeps_rect_vis. }
  destruct chain as [|w [|p rest]].
  - eexists _, id, None. split; [|split; [reflexivity|reflexivity]].
    cbn [andb]. apply same_dmg_set_tree. exact H1.
  - eexists _, id, None. split; [|split; [reflexivity|reflexivity]].
    cbn [andb]. apply same_dmg_set_tree. exact H1.
  - cbv zeta.
    set (link := match w_fchild (t_info p) with
                 | None => (match w_fchild (t_info w) with Some _ => true | None => false end) || w_focused (t_info w)
                 | Some _ => false
                 end).
    eexists _, id, None. split; [|split; [reflexivity|reflexivity]].
    apply same_dmg_cond. apply same_dmg_set_tree.
    destruct link; [|exact H1]. rewrite update_root_rect by apply keeps_rect_link. exact H1.
Qed.

Lemma win_hide_shape cfg st id :
  win_hide cfg st id = st \/
  (exists X, same_dmg st X /\ win_hide cfg st id = X) \/
  exists X y r, same_dmg st X /\ win_hide cfg st id = win_expose X y (Some r).
Proof.
  unfold win_hide. destruct (t_chain id (r_tree st)) as [chain|]; [|left; reflexivity]. right.
  set (tr1 := t_update (fun j => set_vis j false) id (r_tree st)).
  assert (H1 : w_rect (t_info tr1) = w_rect (t_info (r_tree st))).
  { apply update_root_rect. apply keeps_rect_vis. }
  destruct chain as [|w [|p rest]].
  - left. eexists. split; [|reflexivity]. apply same_dmg_set_tree. exact H1.
  - left. eexists. split; [|reflexivity]. apply same_dmg_set_tree. exact H1.
  - right. cbv zeta. eexists _, (t_id p), (w_rect (t_info w)). split; [|reflexivity].
    apply same_dmg_cond. apply same_dmg_set_tree.
    rewrite update_root_rect by apply keeps_rect_unlink. exact H1.
Qed.

(* win_close: a tree / orphans / queue change seen by same_dmg, then possibly one expose *)
Lemma win_close_shape cfg st id :
  win_close cfg st id = st \/
  exists X, same_dmg st X /\
    (win_close cfg st id = X \/ exists y r, win_close cfg st id = win_expose X y (Some r)).
Proof.
  unfold win_close. destruct (t_chain id (r_tree st)) as [[|w [|p rest]]|]; try (left; reflexivity).
  right. cbv zeta.
  set (tr2 := t_update (fun j => if opt_eqb (w_fchild j) id then set_fchild j None else j) (t_id p)
                       (t_upd_kids (kids_remove id) (t_id p) (r_tree st))).
  set (st00 := set_queue (set_orphans (set_tree st tr2) (w :: r_orphans st))
                         (filter (fun e => match e with (_, _, w') => negb (id_in w' (sub_ids w)) end) (r_queue st))).
  set (st0 := match r_dsrc st00 with
              | Some src => if negb (d_drag_stale cfg) && id_in src (sub_ids w)
                            then set_drag st00 (r_dragging st00) (r_lbtn st00) (r_lline st00) (r_lcol st00) None
                            else st00
              | None => st00
              end).
  set (st1 := if opt_eqb (w_fchild (t_info p)) id && negb (d_chain_norestore cfg)
              then request_restore st0 else st0).
  assert (H00 : same_dmg st st00).
  { unfold same_dmg, st00; cbn [r_damage r_fault r_queue r_nexp r_later r_tree set_queue set_orphans set_tree].
    split; [reflexivity|]. split; [reflexivity|]. split.
    - intros H E. apply H. rewrite E. reflexivity.
    - split; [reflexivity|]. split; [tauto|].
      unfold tr2. rewrite update_root_rect by apply keeps_rect_unlink. rewrite upd_kids_root_info. reflexivity. }
  assert (H0 : same_dmg st st0).
  { unfold st0. destruct (r_dsrc st00) as [src|]; [|exact H00].
    destruct (negb (d_drag_stale cfg) && id_in src (sub_ids w)); [|exact H00].
    unfold same_dmg in *; cbn [r_damage r_fault r_queue r_nexp r_later r_tree set_drag]. exact H00. }
  assert (H1 : same_dmg st st1) by (unfold st1; apply same_dmg_cond; exact H0).
  exists st1. split; [exact H1|].
  destruct (w_vis (t_info w)); [right; eexists _, _; reflexivity|left; reflexivity].
Qed.

Lemma win_restack_flaginv st k id : FlagInv st -> FlagInv (win_restack st k id).
Proof.
  intros [H1 H2]. unfold win_restack. destruct (t_parent_id id (r_tree st)) as [pid|]; [|split; assumption].
  destruct (r_queue st) as [|e q] eqn:Eq.
  - unfold FlagInv; cbn [r_damage r_queue r_nexp r_later set_flags set_queue]. split.
    + intros H. destruct (H1 H) as [A _]. split; [exact A|reflexivity].
    + intros _. reflexivity.
  - unfold FlagInv; cbn [r_damage r_queue r_nexp r_later set_queue]. split; [exact H1|].
    intros _. apply H2. discriminate.
Qed.

Theorem run_act_flaginv cfg st a : FlagInv st -> FlagInv (run_act cfg st a).
Proof.
  intros H.
  assert (Hclose : forall id, FlagInv (win_close cfg st id)).
  { intros id. destruct (win_close_shape cfg st id) as [E|(X & HX & [E|(y & r & E)])]; rewrite E.
    - exact H.
    - apply (same_dmg_flaginv st X HX H).
    - apply win_expose_flaginv. apply (same_dmg_flaginv st X HX H). }
  destruct a as [id r|id|id|k id|id|id]; cbn [run_act]; try apply Hclose.
  - apply win_expose_flaginv. exact H.
  - destruct (win_show_shape cfg st id) as [E|(X & y & ex & HX & E & _)]; rewrite E; [exact H|].
    apply win_expose_flaginv. apply (same_dmg_flaginv st X HX H).
  - destruct (win_hide_shape cfg st id) as [E|[(X & HX & E)|(X & y & r & HX & E)]]; rewrite E.
    + exact H.
    + apply (same_dmg_flaginv st X HX H).
    + apply win_expose_flaginv. apply (same_dmg_flaginv st X HX H).
  - apply win_restack_flaginv. exact H.
Qed.

Corollary run_acts_flaginv cfg acts st : FlagInv st -> FlagInv (run_acts cfg acts st).
Proof. apply (run_acts_keeps FlagInv). intros s a _. apply run_act_flaginv. Qed.

Corollary re_handler_flaginv cfg hnd racts : rh_keeps FlagInv (re_handler cfg hnd racts).
Proof. apply re_handler_keeps. intros s id. apply run_acts_flaginv. Qed.

Corollary do_expose_re_flaginv cfg hnd racts t r sb :
  FlagInv (fst sb) -> FlagInv (fst (do_expose_re (re_handler cfg hnd racts) t r sb)).
Proof. apply do_expose_re_fst_inv. apply re_handler_flaginv. Qed.

Corollary flush_rb_re_flaginv cfg hnd racts rects sb :
  FlagInv (fst sb) -> FlagInv (fst (flush_rb_re (re_handler cfg hnd racts) rects sb)).
Proof. apply flush_rb_re_fst_inv. apply re_handler_flaginv. Qed.

Lemma do_hchange_flaginv st k pid wid : FlagInv st -> FlagInv (do_hchange st k pid wid).
Proof.
  intros H. unfold do_hchange. destruct (t_find wid (r_tree st)) as [w|]; [|exact H].
  destruct (w_vis (t_info w)); [apply win_expose_flaginv|]; exact H.
Qed.

(* ------------------------------------------------------------------------------------ *)
(* the queue loop of the flush runs with needs_later_processing lowered: what survives   *)
(* is "damage only with needs_expose" and the empty queue                                *)

Definition QInv (s : root) : Prop := (r_damage s <> [] -> r_nexp s = true) /\ r_queue s = [].

Lemma root_damage_qinv s d : QInv s -> QInv (root_damage s d).
Proof.
  intros [H1 H2]. unfold root_damage.
  destruct (rs_contains (r_fuel s) (r_damage s) d) as [[|]|].
  - split; assumption.
  - destruct (rs_add (r_fuel s) (r_damage s) d) as [x|].
    + unfold QInv; cbn [r_damage r_queue r_nexp set_flags set_damage]. split; [reflexivity|exact H2].
    + unfold QInv; cbn [r_damage r_queue r_nexp set_fault]. split; assumption.
  - unfold QInv; cbn [r_damage r_queue r_nexp set_fault]. split; assumption.
Qed.

Lemma qstep_qinv s e : QInv s -> QInv (qstep s e).
Proof.
  intros H. destruct e as [[k p] w]. unfold qstep, do_hchange.
  destruct (t_find w (r_tree s)) as [wn|]; [|exact H].
  assert (H' : QInv (set_tree s (t_upd_kids (apply_hchange k w) p (r_tree s)))) by exact H.
  destruct (w_vis (t_info wn)); [|exact H'].
  unfold win_expose. destruct (t_chain p _) as [chain|]; [|exact H'].
  destruct (expose_up chain _); [apply root_damage_qinv|]; exact H'.
Qed.

Lemma fold_qinv : forall q s, QInv s -> QInv (fold_left qstep q s).
Proof. induction q as [|e q IH]; intros s H; [exact H|]. cbn [fold_left]. apply IH. apply qstep_qinv. exact H. Qed.

Lemma after_queue_qinv st : FlagInv st -> QInv (after_queue st).
Proof.
  intros [H1 _]. rewrite after_queue_eq. apply fold_qinv.
  unfold QInv; cbn [r_damage r_queue r_nexp set_flags set_queue]. split; [|reflexivity].
  intros H. apply (H1 H).
Qed.

(* ------------------------------------------------------------------------------------ *)
(* Target 2, first half: the flush keeps the flag invariant, whatever the handlers call  *)

Theorem flush_re_flaginv cfg hnd racts st tm st' tm' lg :
  FlagInv st ->
  win_flush_re cfg (re_handler cfg hnd racts) st tm = (st', tm', lg) ->
  FlagInv st'.
Proof.
  intros HF Hfl. destruct (r_later st) eqn:Hl.
  2:{ unfold win_flush_re in Hfl. rewrite Hl in Hfl. cbn [negb] in Hfl. injection Hfl as <- _ _. exact HF. }
  rewrite (win_flush_re_unfold cfg _ st tm Hl) in Hfl. cbn zeta in Hfl.
  destruct (after_queue_qinv st HF) as [Q1 Q2].
  destruct (r_nexp (after_queue st)) eqn:En.
  - injection Hfl as <- _ _.
    assert (H0 : FlagInv (loop_start (after_queue st))).
    { unfold FlagInv, loop_start; cbn [r_damage r_queue r_nexp r_later set_flags set_damage].
      rewrite Q2. split; intros H; exfalso; apply H; reflexivity. }
    pose proof (flush_rb_re_flaginv cfg hnd racts (flush_rects cfg (after_queue st))
                  (loop_start (after_queue st), rb_new (lines (root_selfrect (after_queue st)))
                                                       (cols (root_selfrect (after_queue st)))) H0) as H.
    fold (loop_result cfg (re_handler cfg hnd racts) (after_queue st)) in H. exact H.
  - assert (Ed : r_damage (after_queue st) = []).
    { assert (Hx : r_damage (after_queue st) <> [] -> False).
      { intros Hd. specialize (Q1 Hd). rewrite ?En in Q1. discriminate. }
      destruct (r_damage (after_queue st)) as [|x rest]; [reflexivity|].
      exfalso. apply Hx. discriminate. }
    assert (H : forall a b c, FlagInv (set_flags (after_queue st) a b c)).
    { intros a b c. unfold FlagInv; cbn [r_damage r_queue r_nexp r_later set_flags].
      rewrite Ed, Q2. split; intros H; exfalso; apply H; reflexivity. }
    destruct (r_nrest (after_queue st)); injection Hfl as <- _ _.
    + apply H.
    + unfold FlagInv. rewrite Ed, Q2. split; intros H'; exfalso; apply H'; reflexivity.
Qed.

(* ------------------------------------------------------------------------------------ *)
(* DmgOK: kept by every operation                                                        *)

Lemma win_expose_dmgok st id ex : DmgOK st -> DmgOK (win_expose st id ex).
Proof.
  intros [Hr Hne]. split.
  - unfold RootNE. rewrite win_expose_tree. exact Hr.
  - intros Hf. pose proof (win_expose_fault _ _ _ Hf) as Hf0.
    destruct (win_expose_spec st id ex (Hne Hf0)) as [Hde _]; [|exact Hf|apply (de_ne _ _ Hde)].
    intros _ w Hw. destruct (chain_single _ _ _ Hw) as [-> _].
    unfold nonempty, selfrect; cbn [lines cols]. exact Hr.
Qed.

Lemma win_restack_dmgok st k id : DmgOK st -> DmgOK (win_restack st k id).
Proof.
  intros H. unfold win_restack. destruct (t_parent_id id (r_tree st)); [|exact H].
  destruct (r_queue st); exact H.
Qed.

Theorem run_act_dmgok cfg st a : DmgOK st -> DmgOK (run_act cfg st a).
Proof.
  intros H.
  assert (Hclose : forall id, DmgOK (win_close cfg st id)).
  { intros id. destruct (win_close_shape cfg st id) as [E|(X & HX & [E|(y & r & E)])]; rewrite E.
    - exact H.
    - apply (same_dmg_dmgok st X HX H).
    - apply win_expose_dmgok. apply (same_dmg_dmgok st X HX H). }
  destruct a as [id r|id|id|k id|id|id]; cbn [run_act]; try apply Hclose.
  - apply win_expose_dmgok. exact H.
  - destruct (win_show_shape cfg st id) as [E|(X & y & ex & HX & E & _)]; rewrite E; [exact H|].
    apply win_expose_dmgok. apply (same_dmg_dmgok st X HX H).
  - destruct (win_hide_shape cfg st id) as [E|[(X & HX & E)|(X & y & r & HX & E)]]; rewrite E.
    + exact H.
    + apply (same_dmg_dmgok st X HX H).
    + apply win_expose_dmgok. apply (same_dmg_dmgok st X HX H).
  - apply win_restack_dmgok. exact H.
Qed.

Corollary run_acts_dmgok cfg acts st : DmgOK st -> DmgOK (run_acts cfg acts st).
Proof. apply (run_acts_keeps DmgOK). intros s a _. apply run_act_dmgok. Qed.

Corollary re_handler_dmgok cfg hnd racts : rh_keeps DmgOK (re_handler cfg hnd racts).
Proof. apply re_handler_keeps. intros s id. apply run_acts_dmgok. Qed.

Lemma qstep_dmgok s e : DmgOK s -> DmgOK (qstep s e).
Proof.
  intros H. destruct e as [[k p] w]. unfold qstep, do_hchange.
  destruct (t_find w (r_tree s)) as [wn|]; [|exact H].
  assert (H' : DmgOK (set_tree s (t_upd_kids (apply_hchange k w) p (r_tree s)))).
  { apply (same_dmg_dmgok s); [|exact H]. apply same_dmg_set_tree. rewrite upd_kids_root_info. reflexivity. }
  destruct (w_vis (t_info wn)); [apply win_expose_dmgok|]; exact H'.
Qed.

Lemma fold_dmgok : forall q s, DmgOK s -> DmgOK (fold_left qstep q s).
Proof. induction q as [|e q IH]; intros s H; [exact H|]. cbn [fold_left]. apply IH. apply qstep_dmgok. exact H. Qed.

Lemma after_queue_dmgok st : DmgOK st -> DmgOK (after_queue st).
Proof. intros H. rewrite after_queue_eq. apply fold_dmgok. exact H. Qed.

Theorem flush_re_dmgok cfg hnd racts st tm st' tm' lg :
  DmgOK st ->
  win_flush_re cfg (re_handler cfg hnd racts) st tm = (st', tm', lg) ->
  DmgOK st'.
Proof.
  intros HD Hfl. destruct (r_later st) eqn:Hl.
  2:{ unfold win_flush_re in Hfl. rewrite Hl in Hfl. cbn [negb] in Hfl. injection Hfl as <- _ _. exact HD. }
  rewrite (win_flush_re_unfold cfg _ st tm Hl) in Hfl. cbn zeta in Hfl.
  pose proof (after_queue_dmgok st HD) as H2.
  destruct (r_nexp (after_queue st)) eqn:En.
  - injection Hfl as <- _ _.
    assert (H0 : DmgOK (loop_start (after_queue st))).
    { destruct H2 as [A B]. split; [exact A|]. intros _. constructor. }
    pose proof (flush_rb_re_fst_inv DmgOK _ (re_handler_dmgok cfg hnd racts) (flush_rects cfg (after_queue st))
                  (loop_start (after_queue st), rb_new (lines (root_selfrect (after_queue st)))
                                                       (cols (root_selfrect (after_queue st)))) H0) as H.
    fold (loop_result cfg (re_handler cfg hnd racts) (after_queue st)) in H. exact H.
  - destruct (r_nrest (after_queue st)); injection Hfl as <- _ _; exact H2.
Qed.

(* Target 2: the statement asked for, with the one extra hypothesis that the root window's
   rectangle is not empty (see the head of the file and the counterexample below) *)
Theorem flush_re_flags_partial cfg hnd racts st tm st' tm' lg :
  nonempty (w_rect (t_info (r_tree st))) ->
  FlagInv st -> all_nonempty (r_damage st) ->
  win_flush_re cfg (re_handler cfg hnd racts) st tm = (st', tm', lg) ->
  r_fault st' = false ->
  FlagInv st' /\ all_nonempty (r_damage st').
Proof.
  intros Hr HF Hne Hfl Hf. split.
  - exact (flush_re_flaginv cfg hnd racts st tm st' tm' lg HF Hfl).
  - assert (HD : DmgOK st) by (split; [exact Hr|intros _; exact Hne]).
    destruct (flush_re_dmgok cfg hnd racts st tm st' tm' lg HD Hfl) as [_ H]. apply H. exact Hf.
Qed.

(* ------------------------------------------------------------------------------------ *)
(* the repaired flush (d_flush_noclip = false) clips the damage to the root window: with  *)
(* an empty root no handler runs at all, and the full statement holds                    *)

Definition NE (s : root) : Prop := r_fault s = false -> all_nonempty (r_damage s).

Lemma win_expose_ne_some st id r : NE st -> NE (win_expose st id (Some r)).
Proof.
  intros Hne Hf. pose proof (win_expose_fault _ _ _ Hf) as Hf0.
  destruct (win_expose_spec st id (Some r) (Hne Hf0)) as [Hde _]; [|exact Hf|apply (de_ne _ _ Hde)].
  intros H; discriminate.
Qed.

Lemma qstep_ne s e : NE s -> NE (qstep s e).
Proof.
  intros H. destruct e as [[k p] w]. unfold qstep, do_hchange.
  destruct (t_find w (r_tree s)) as [wn|]; [|exact H].
  assert (H' : NE (set_tree s (t_upd_kids (apply_hchange k w) p (r_tree s)))) by exact H.
  destruct (w_vis (t_info wn)); [apply win_expose_ne_some|]; exact H'.
Qed.

Lemma fold_ne : forall q s, NE s -> NE (fold_left qstep q s).
Proof. induction q as [|e q IH]; intros s H; [exact H|]. cbn [fold_left]. apply IH. apply qstep_ne. exact H. Qed.

Lemma flush_rects_empty_root cfg st :
  d_flush_noclip cfg = false -> ~ nonempty (w_rect (t_info (r_tree st))) -> flush_rects cfg st = [].
Proof.
  intros Hc Hr. unfold flush_rects. rewrite Hc.
  induction (r_damage st) as [|x rest IH]; [reflexivity|]. cbn [flat_map]. rewrite IH.
  destruct (r_intersect x (root_selfrect st)) as [k|] eqn:E; [|reflexivity].
  exfalso. apply Hr. apply intersect_some in E. destruct E as [Hk E].
  unfold nonempty in *. destruct k as [kt kl kn kc]; cbn [lines cols] in Hk.
  assert (H1 : cell_in (root_selfrect st) (kt, kl)).
  { apply E. unfold cell_in, bottom, right; cbn [top left lines cols fst snd]. lia. }
  unfold cell_in, root_selfrect, selfrect, bottom, right in H1; cbn [top left lines cols fst snd] in H1. lia.
Qed.

Lemma qstep_root_rect s e : w_rect (t_info (r_tree (qstep s e))) = w_rect (t_info (r_tree s)).
Proof.
  destruct e as [[k p] w]. unfold qstep. rewrite do_hchange_tree.
  destruct (t_find w (r_tree s)); [rewrite upd_kids_root_info|]; reflexivity.
Qed.

Lemma after_queue_root_rect st : w_rect (t_info (r_tree (after_queue st))) = w_rect (t_info (r_tree st)).
Proof.
  rewrite after_queue_eq.
  assert (H : forall q s, w_rect (t_info (r_tree (fold_left qstep q s))) = w_rect (t_info (r_tree s))).
  { induction q as [|e q IH]; intros s; [reflexivity|]. cbn [fold_left]. rewrite IH. apply qstep_root_rect. }
  rewrite H. reflexivity.
Qed.

(* Target 2, the FULL statement for every configuration in which the flush clips the damage
   to the root window (in particular for no_defects, the repaired library) *)
Theorem flush_re_flags cfg hnd racts st tm st' tm' lg :
  d_flush_noclip cfg = false ->
  FlagInv st -> all_nonempty (r_damage st) ->
  win_flush_re cfg (re_handler cfg hnd racts) st tm = (st', tm', lg) ->
  r_fault st' = false ->
  FlagInv st' /\ all_nonempty (r_damage st').
Proof.
  intros Hc HF Hne Hfl Hf.
  destruct (Z_lt_dec 0 (lines (w_rect (t_info (r_tree st))))) as [H1|H1];
    [destruct (Z_lt_dec 0 (cols (w_rect (t_info (r_tree st))))) as [H2|H2]|].
  - apply (flush_re_flags_partial cfg hnd racts st tm st' tm' lg); try assumption. split; assumption.
  - split; [exact (flush_re_flaginv cfg hnd racts st tm st' tm' lg HF Hfl)|].
    assert (Hr : ~ nonempty (w_rect (t_info (r_tree (after_queue st))))).
    { rewrite after_queue_root_rect. unfold nonempty. lia. }
    assert (N2 : NE (after_queue st)).
    { rewrite after_queue_eq. apply fold_ne. intros _. exact Hne. }
    destruct (r_later st) eqn:Hl.
    2:{ unfold win_flush_re in Hfl. rewrite Hl in Hfl. cbn [negb] in Hfl. injection Hfl as <- _ _. exact Hne. }
    rewrite (win_flush_re_unfold cfg _ st tm Hl) in Hfl. cbn zeta in Hfl.
    destruct (r_nexp (after_queue st)).
    + unfold loop_result in Hfl. rewrite (flush_rects_empty_root cfg _ Hc Hr) in Hfl.
      injection Hfl as <- _ _. constructor.
    + destruct (r_nrest (after_queue st)); injection Hfl as <- _ _; apply N2; exact Hf.
  - split; [exact (flush_re_flaginv cfg hnd racts st tm st' tm' lg HF Hfl)|].
    assert (Hr : ~ nonempty (w_rect (t_info (r_tree (after_queue st))))).
    { rewrite after_queue_root_rect. unfold nonempty. lia. }
    assert (N2 : NE (after_queue st)).
    { rewrite after_queue_eq. apply fold_ne. intros _. exact Hne. }
    destruct (r_later st) eqn:Hl.
    2:{ unfold win_flush_re in Hfl. rewrite Hl in Hfl. cbn [negb] in Hfl. injection Hfl as <- _ _. exact Hne. }
    rewrite (win_flush_re_unfold cfg _ st tm Hl) in Hfl. cbn zeta in Hfl.
    destruct (r_nexp (after_queue st)).
    + unfold loop_result in Hfl. rewrite (flush_rects_empty_root cfg _ Hc Hr) in Hfl.
      injection Hfl as <- _ _. constructor.
    + destruct (r_nrest (after_queue st)); injection Hfl as <- _ _; apply N2; exact Hf.
Qed.

(* With defect #27 switched on (the flush hands unclipped damage to the root) and an empty root
   rectangle the statement fails: the root's handler is called for a pending rectangle and
   exposes the whole (empty) root window, which puts the empty rectangle into the damage set.
   All hypotheses hold, no loop ran out of fuel, the second half of the conclusion fails. *)
Definition cfg27 := mkDefects false false false true false false false false.
Definition cx_state : root :=
  set_flags (set_damage (root_new 0 5) [mkRect 0 0 1 1]) true false true.
Definition cx_racts : Z -> list ract := fun _ => [RExpose 0 None].

Lemma flush_re_flags_counterexample :
  let '(st', _, _) := win_flush_re cfg27 (re_handler cfg27 (paint_handler app_base) cx_racts)
                                   cx_state (term_new 0 5 pol_accept) in
  (r_later cx_state = true /\ r_nexp cx_state = true /\ r_queue cx_state = [] /\
   r_damage cx_state = [mkRect 0 0 1 1]) /\
  r_fault st' = false /\ r_damage st' = [mkRect 0 0 0 5].
Proof. vm_compute. repeat split; reflexivity. Qed.
