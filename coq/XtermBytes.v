(* XtermBytes.v -- C09: the tokens the driver writes are well-formed, so the bytes it renders
   are read back by the lexer as exactly those tokens and the byte-level run of the VT equals
   the token-level run the theorems of XtermProofs.v are about. *)
From Coq Require Import ZArith List Bool Lia ZifyBool.
From Tickit Require Import Csi CsiProofs VT TermPenDefs TermPenSpec XtermDefs XtermSpec Gen_SgrOnOff.
Import ListNotations.
Local Open Scope Z_scope.

Lemma run_bytes_render : forall ts v, Forall wf_token ts -> vt_run_bytes (render ts) v = vt_run ts v.
Proof. intros ts v H. unfold vt_run_bytes. rewrite lex_render by exact H. reflexivity. Qed.

Lemma wf_csi_n : forall n fin, 0 <= n -> 64 <= fin <= 126 -> wf_token (csi_n n fin).
Proof.
  intros n fin Hn Hf. cbn. split; [exact I|]. split.
  - split; [|discriminate]. repeat constructor; try discriminate; exact Hn.
  - split; [constructor|exact Hf].
Qed.
Lemma wf_csi_0 : forall fin, 64 <= fin <= 126 -> wf_token (csi_0 fin).
Proof.
  intros fin Hf. cbn. split; [exact I|]. split.
  - split; [constructor|discriminate].
  - split; [constructor|exact Hf].
Qed.
Lemma wf_csi_2 : forall a b fin, 0 <= a -> 0 <= b -> 64 <= fin <= 126 -> wf_token (csi [[Some a]; [Some b]] fin).
Proof.
  intros a b fin Ha Hb Hf. cbn. split; [exact I|]. split.
  - split; [|discriminate]. repeat constructor; try discriminate; assumption.
  - split; [constructor|exact Hf].
Qed.
Lemma wf_csi_q : forall o i fin, match o with Some n => 0 <= n | None => True end ->
  32 <= i <= 47 -> 64 <= fin <= 126 -> wf_token (csi_q o i fin).
Proof.
  intros o i fin Ho Hi Hf. unfold csi_q. cbn. split; [exact I|]. split.
  - destruct o as [n|].
    + split; [|discriminate]. repeat constructor; try discriminate; exact Ho.
    + split; [constructor|discriminate].
  - split; [repeat constructor; lia|exact Hf].
Qed.

Lemma wf_goto : forall l c, -1 <= l -> -1 <= c -> Forall wf_token (xt_goto_abs l c).
Proof.
  intros l c Hl Hc. unfold xt_goto_abs.
  destruct (negb (l =? -1) && (0 <? c)) eqn:E1.
  { constructor; [|constructor]. apply wf_csi_2; lia. }
  destruct (negb (l =? -1) && (c =? 0)) eqn:E2.
  { constructor; [|constructor]. apply wf_csi_n; lia. }
  destruct (negb (l =? -1)) eqn:E3.
  { constructor; [|constructor]. apply wf_csi_n; lia. }
  destruct (0 <? c) eqn:E4.
  { constructor; [|constructor]. apply wf_csi_n; lia. }
  destruct (negb (c =? -1)) eqn:E5.
  { constructor; [|constructor]. apply wf_csi_0; lia. }
  constructor.
Qed.

Lemma wf_move : forall d r, Forall wf_token (xt_move_rel d r).
Proof.
  intros d r. unfold xt_move_rel. apply Forall_app. split.
  - destruct (1 <? d) eqn:E1; [constructor; [apply wf_csi_n; lia|constructor]|].
    destruct (d =? 1) eqn:E2; [constructor; [apply wf_csi_0; lia|constructor]|].
    destruct (d =? -1) eqn:E3; [constructor; [apply wf_csi_0; lia|constructor]|].
    destruct (d <? -1) eqn:E4; [constructor; [apply wf_csi_n; lia|constructor]|constructor].
  - destruct (1 <? r) eqn:E1; [constructor; [apply wf_csi_n; lia|constructor]|].
    destruct (r =? 1) eqn:E2; [constructor; [apply wf_csi_0; lia|constructor]|].
    destruct (r =? -1) eqn:E3; [constructor; [apply wf_csi_0; lia|constructor]|].
    destruct (r <? -1) eqn:E4; [constructor; [apply wf_csi_n; lia|constructor]|constructor].
Qed.

Lemma wf_chars : forall bs, Forall (fun b => 32 <= b) bs -> Forall wf_token (chars bs).
Proof.
  intros bs H. unfold chars. induction H as [|b bs Hb H IH]; [constructor|].
  cbn [map]. constructor; [exact Hb|exact IH].
Qed.
Lemma wf_print : forall bs, forallb printable bs = true -> Forall wf_token (xt_print bs).
Proof.
  intros bs H. apply wf_chars. rewrite forallb_forall in H. apply Forall_forall.
  intros b Hb. specialize (H b Hb). unfold printable in H. lia.
Qed.

Lemma wf_spaces : forall fuel count, Forall wf_token (spaces_chunks fuel count).
Proof.
  induction fuel as [|f IH]; intros count; [constructor|].
  cbn [spaces_chunks]. destruct (64 <? count).
  - apply Forall_app. split; [|apply IH]. apply wf_chars. apply Forall_forall.
    intros b Hb. apply repeat_spec in Hb. lia.
  - apply wf_chars. apply Forall_forall. intros b Hb. apply repeat_spec in Hb. lia.
Qed.
Lemma wf_erase : forall rv n me, Forall wf_token (xt_erasech rv n me).
Proof.
  intros rv n me. unfold xt_erasech. destruct (n <? 1) eqn:E; [constructor|].
  destruct (negb rv).
  - apply Forall_app. split.
    + destruct (n =? 1); (constructor; [|constructor]); [apply wf_csi_0|apply wf_csi_n]; lia.
    + destruct me; try constructor. apply wf_move.
  - apply Forall_app. split; [apply wf_spaces|]. destruct me; try constructor. apply wf_move.
Qed.
Lemma wf_clear : Forall wf_token xt_clear.
Proof. constructor; [apply wf_csi_n; lia|constructor]. Qed.

Lemma wf_insdel : forall r, Forall wf_token (insdel_chars r).
Proof.
  intros r. unfold insdel_chars.
  destruct (1 <? r) eqn:E1; [constructor; [apply wf_csi_n; lia|constructor]|].
  destruct (r =? 1) eqn:E2; [constructor; [apply wf_csi_0; lia|constructor]|].
  destruct (r =? -1) eqn:E3; [constructor; [apply wf_csi_0; lia|constructor]|].
  destruct (r <? -1) eqn:E4; [constructor; [apply wf_csi_n; lia|constructor]|constructor].
Qed.
Lemma wf_scroll_lines : forall n line left r, 0 <= line -> 0 <= left -> Forall wf_token (scroll_lines n line left r).
Proof.
  induction n as [|n IH]; intros line left r Hl Hc; [constructor|].
  cbn [scroll_lines]. apply Forall_app. split; [apply wf_goto; lia|].
  apply Forall_app. split; [apply wf_insdel|]. apply IH; lia.
Qed.

Lemma wf_scroll : forall slrm cols r d rt, 0 <= r_top r -> 0 <= r_left r -> 0 < r_lines r -> 0 < r_cols r ->
  Forall wf_token (snd (xt_scrollrect slrm cols r d rt)).
Proof.
  intros slrm cols r d rt Ht Hl Hh Hw. unfold xt_scrollrect, r_right, r_bottom.
  destruct ((d =? 0) && (rt =? 0)); [constructor|].
  destruct (((slrm && (r_lines r =? 1)) || (r_left r + r_cols r =? cols)) && (d =? 0)).
  { cbn [snd]. apply Forall_app. split.
    - destruct (r_left r + r_cols r <? cols); [|constructor].
      constructor; [|constructor]. cbn. split; [exact I|]. split.
      + split; [|discriminate]. repeat constructor; try discriminate. cbn. lia.
      + split; [constructor|lia].
    - apply Forall_app. split; [apply wf_scroll_lines; lia|].
      destruct (r_left r + r_cols r <? cols); [|constructor].
      constructor; [apply wf_csi_0; lia|constructor]. }
  destruct (slrm || ((r_left r =? 0) && (r_cols r =? cols) && (rt =? 0))); [|constructor].
  destruct (((0 <? r_left r) || (r_left r + r_cols r <? cols)) && (r_cols r <? 2)); [constructor|].
  cbn [snd].
  repeat (apply Forall_app; split).
  - constructor; [apply wf_csi_2; lia|constructor].
  - destruct ((0 <? r_left r) || (r_left r + r_cols r <? cols)); [|constructor].
    constructor; [apply wf_csi_2; lia|constructor].
  - apply wf_goto; lia.
  - destruct (1 <? d) eqn:E1; [constructor; [apply wf_csi_n; lia|constructor]|].
    destruct (d =? 1) eqn:E2; [constructor; [apply wf_csi_0; lia|constructor]|].
    destruct (d =? -1) eqn:E3; [constructor; [apply wf_csi_0; lia|constructor]|].
    destruct (d <? -1) eqn:E4; [constructor; [apply wf_csi_n; lia|constructor]|constructor].
  - destruct (1 <? rt) eqn:E1; [constructor; [apply wf_csi_q; lia|constructor]|].
    destruct (rt =? 1) eqn:E2; [constructor; [apply wf_csi_q; (exact I || lia)|constructor]|].
    destruct (rt =? -1) eqn:E3; [constructor; [apply wf_csi_q; (exact I || lia)|constructor]|constructor].
  - destruct (rt <? -1) eqn:E4; [constructor; [apply wf_csi_q; lia|constructor]|constructor].
  - constructor; [apply wf_csi_0; lia|constructor].
  - destruct ((0 <? r_left r) || (r_left r + r_cols r <? cols)); [|constructor].
    constructor; [apply wf_csi_0; lia|constructor].
Qed.

(* the drawing requests (pen changes aside): bytes and tokens agree *)
Lemma drawing_tokens_wf : forall t q v t' ret ts, in_range q v ->
  match q with RChpen _ | RSetpen _ => False | _ => True end ->
  drv_req t q = Some (t', ret, ts) -> Forall wf_token ts.
Proof.
  intros t q v t' ret ts Hr Hq Hd. unfold in_range, in_rangeb in Hr.
  destruct q as [l c|d r|bs|n me| |r d rt|p|p]; try contradiction; cbn [drv_req] in Hd.
  - inversion Hd; subst. apply wf_goto; lia.
  - inversion Hd; subst. apply wf_move.
  - inversion Hd; subst. apply wf_print. lia.
  - inversion Hd; subst. apply wf_erase.
  - inversion Hd; subst. apply wf_clear.
  - destruct (xt_scrollrect (cap_slrm (x_caps (t_drv t))) (t_cols t) r d rt) as [ok ts0] eqn:E.
    inversion Hd; subst.
    pose proof (wf_scroll (cap_slrm (x_caps (t_drv t'))) (t_cols t') r d rt) as H.
    rewrite E in H. cbn [snd] in H. apply H; lia.
Qed.

Lemma drawing_bytes : forall t q v t' ret ts, in_range q v ->
  match q with RChpen _ | RSetpen _ => False | _ => True end ->
  drv_req t q = Some (t', ret, ts) ->
  vt_run_bytes (render ts) v = vt_run ts v.
Proof.
  intros t q v t' ret ts Hr Hq Hd. apply run_bytes_render. eapply drawing_tokens_wf; eauto.
Qed.
