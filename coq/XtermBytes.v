(* XtermBytes.v -- C09: the tokens the driver writes are well-formed, so the bytes it renders
   are read back by the lexer as exactly those tokens and the byte-level run of the VT equals
   the token-level run the theorems of XtermProofs.v are about. *)
From Coq Require Import ZArith List Bool Lia ZifyBool.
From Tickit Require Import Csi CsiProofs VT TermPenDefs TermPenSpec TermPenProofs XtermDefs XtermSpec XtermProofs Gen_SgrOnOff.
Import ListNotations.
Local Open Scope Z_scope.

Lemma run_bytes_render : forall ts v, Forall wf_token ts -> vt_run_bytes (render ts) v = vt_run ts v.
Proof. intros ts v H. unfold vt_run_bytes. rewrite lex_render by exact H. reflexivity. Qed.

Lemma wf_csi_n : forall n fin, 0 <= n -> 64 <= fin <= 126 -> wf_token (csi_n n fin).
Proof.
  intros n fin Hn Hf. cbn. split; [exact I|]. split.
  - split; [|discriminate]. repeat constructor; try discriminate; exact Hn.
  - split; [constructor|exact Hf].
Qed.
Lemma wf_csi_0 : forall fin, 64 <= fin <= 126 -> wf_token (csi_0 fin).
Proof.
  intros fin Hf. cbn. split; [exact I|]. split.
  - split; [constructor|discriminate].
  - split; [constructor|exact Hf].
Qed.
Lemma wf_csi_2 : forall a b fin, 0 <= a -> 0 <= b -> 64 <= fin <= 126 -> wf_token (csi [[Some a]; [Some b]] fin).
Proof.
  intros a b fin Ha Hb Hf. cbn. split; [exact I|]. split.
  - split; [|discriminate]. repeat constructor; try discriminate; assumption.
  - split; [constructor|exact Hf].
Qed.
Lemma wf_csi_q : forall o i fin, match o with Some n => 0 <= n | None => True end ->
  32 <= i <= 47 -> 64 <= fin <= 126 -> wf_token (csi_q o i fin).
Proof.
  intros o i fin Ho Hi Hf. unfold csi_q. cbn. split; [exact I|]. split.
  - destruct o as [n|].
    + split; [|discriminate]. repeat constructor; try discriminate; exact Ho.
    + split; [constructor|discriminate].
  - split; [repeat constructor; lia|exact Hf].
Qed.

Lemma wf_goto : forall l c, -1 <= l -> -1 <= c -> Forall wf_token (xt_goto_abs l c).
Proof.
  intros l c Hl Hc. unfold xt_goto_abs.
  destruct (negb (l =? -1) && (0 <? c)) eqn:E1.
  { constructor; [|constructor]. apply wf_csi_2; lia. }
  destruct (negb (l =? -1) && (c =? 0)) eqn:E2.
  { constructor; [|constructor]. apply wf_csi_n; lia. }
  destruct (negb (l =? -1)) eqn:E3.
  { constructor; [|constructor]. apply wf_csi_n; lia. }
  destruct (0 <? c) eqn:E4.
  { constructor; [|constructor]. apply wf_csi_n; lia. }
  destruct (negb (c =? -1)) eqn:E5.
  { constructor; [|constructor]. apply wf_csi_0; lia. }
  constructor.
Qed.

Lemma wf_move : forall d r, Forall wf_token (xt_move_rel d r).
Proof.
  intros d r. unfold xt_move_rel. apply Forall_app. split.
  - destruct (1 <? d) eqn:E1; [constructor; [apply wf_csi_n; lia|constructor]|].
    destruct (d =? 1) eqn:E2; [constructor; [apply wf_csi_0; lia|constructor]|].
    destruct (d =? -1) eqn:E3; [constructor; [apply wf_csi_0; lia|constructor]|].
    destruct (d <? -1) eqn:E4; [constructor; [apply wf_csi_n; lia|constructor]|constructor].
  - destruct (1 <? r) eqn:E1; [constructor; [apply wf_csi_n; lia|constructor]|].
    destruct (r =? 1) eqn:E2; [constructor; [apply wf_csi_0; lia|constructor]|].
    destruct (r =? -1) eqn:E3; [constructor; [apply wf_csi_0; lia|constructor]|].
    destruct (r <? -1) eqn:E4; [constructor; [apply wf_csi_n; lia|constructor]|constructor].
Qed.

Lemma wf_chars : forall bs, Forall (fun b => 32 <= b) bs -> Forall wf_token (chars bs).
Proof.
  intros bs H. unfold chars. induction H as [|b bs Hb H IH]; [constructor|].
  cbn [map]. constructor; [exact Hb|exact IH].
Qed.
Lemma wf_print : forall bs, forallb printable bs = true -> Forall wf_token (xt_print bs).
Proof.
  intros bs H. apply wf_chars. rewrite forallb_forall in H. apply Forall_forall.
  intros b Hb. specialize (H b Hb). unfold printable in H. lia.
Qed.

Lemma wf_spaces : forall fuel count, Forall wf_token (spaces_chunks fuel count).
Proof.
  induction fuel as [|f IH]; intros count; [constructor|].
  cbn [spaces_chunks]. destruct (64 <? count).
  - apply Forall_app. split; [|apply IH]. apply wf_chars. apply Forall_forall.
    intros b Hb. apply repeat_spec in Hb. lia.
  - apply wf_chars. apply Forall_forall. intros b Hb. apply repeat_spec in Hb. lia.
Qed.
Lemma wf_erase : forall rv n me, Forall wf_token (xt_erasech rv n me).
Proof.
  intros rv n me. unfold xt_erasech. destruct (n <? 1) eqn:E; [constructor|].
  destruct (negb rv).
  - apply Forall_app. split.
    + destruct (n =? 1); (constructor; [|constructor]); [apply wf_csi_0|apply wf_csi_n]; lia.
    + destruct me; try constructor. apply wf_move.
  - apply Forall_app. split; [apply wf_spaces|]. destruct me; try constructor. apply wf_move.
Qed.
Lemma wf_clear : Forall wf_token xt_clear.
Proof. constructor; [apply wf_csi_n; lia|constructor]. Qed.

Lemma wf_insdel : forall r, Forall wf_token (insdel_chars r).
Proof.
  intros r. unfold insdel_chars.
  destruct (1 <? r) eqn:E1; [constructor; [apply wf_csi_n; lia|constructor]|].
  destruct (r =? 1) eqn:E2; [constructor; [apply wf_csi_0; lia|constructor]|].
  destruct (r =? -1) eqn:E3; [constructor; [apply wf_csi_0; lia|constructor]|].
  destruct (r <? -1) eqn:E4; [constructor; [apply wf_csi_n; lia|constructor]|constructor].
Qed.
Lemma wf_scroll_lines : forall n line left r, 0 <= line -> 0 <= left -> Forall wf_token (scroll_lines n line left r).
Proof.
  induction n as [|n IH]; intros line left r Hl Hc; [constructor|].
  cbn [scroll_lines]. apply Forall_app. split; [apply wf_goto; lia|].
  apply Forall_app. split; [apply wf_insdel|]. apply IH; lia.
Qed.

Lemma wf_scroll : forall slrm cols r d rt, 0 <= r_top r -> 0 <= r_left r -> 0 < r_lines r -> 0 < r_cols r ->
  Forall wf_token (snd (xt_scrollrect slrm cols r d rt)).
Proof.
  intros slrm cols r d rt Ht Hl Hh Hw. unfold xt_scrollrect, r_right, r_bottom.
  destruct ((d =? 0) && (rt =? 0)); [constructor|].
  destruct (((slrm && (r_lines r =? 1)) || (r_left r + r_cols r =? cols)) && (d =? 0)).
  { cbn [snd]. apply Forall_app. split.
    - destruct (r_left r + r_cols r <? cols); [|constructor].
      constructor; [|constructor]. cbn. split; [exact I|]. split.
      + split; [|discriminate]. repeat constructor; try discriminate. cbn. lia.
      + split; [constructor|lia].
    - apply Forall_app. split; [apply wf_scroll_lines; lia|].
      destruct (r_left r + r_cols r <? cols); [|constructor].
      constructor; [apply wf_csi_0; lia|constructor]. }
  destruct (slrm || ((r_left r =? 0) && (r_cols r =? cols) && (rt =? 0))); [|constructor].
  destruct (((0 <? r_left r) || (r_left r + r_cols r <? cols)) && (r_cols r <? 2)); [constructor|].
  cbn [snd].
  repeat (apply Forall_app; split).
  - constructor; [apply wf_csi_2; lia|constructor].
  - destruct ((0 <? r_left r) || (r_left r + r_cols r <? cols)); [|constructor].
    constructor; [apply wf_csi_2; lia|constructor].
  - apply wf_goto; lia.
  - destruct (1 <? d) eqn:E1; [constructor; [apply wf_csi_n; lia|constructor]|].
    destruct (d =? 1) eqn:E2; [constructor; [apply wf_csi_0; lia|constructor]|].
    destruct (d =? -1) eqn:E3; [constructor; [apply wf_csi_0; lia|constructor]|].
    destruct (d <? -1) eqn:E4; [constructor; [apply wf_csi_n; lia|constructor]|constructor].
  - destruct (1 <? rt) eqn:E1; [constructor; [apply wf_csi_q; lia|constructor]|].
    destruct (rt =? 1) eqn:E2; [constructor; [apply wf_csi_q; (exact I || lia)|constructor]|].
    destruct (rt =? -1) eqn:E3; [constructor; [apply wf_csi_q; (exact I || lia)|constructor]|constructor].
  - destruct (rt <? -1) eqn:E4; [constructor; [apply wf_csi_q; lia|constructor]|constructor].
  - constructor; [apply wf_csi_0; lia|constructor].
  - destruct ((0 <? r_left r) || (r_left r + r_cols r <? cols)); [|constructor].
    constructor; [apply wf_csi_0; lia|constructor].
Qed.

(* the drawing requests (pen changes aside): bytes and tokens agree *)
Lemma drawing_tokens_wf : forall t q v t' ret ts, in_range q v ->
  match q with RChpen _ | RSetpen _ => False | _ => True end ->
  drv_req t q = Some (t', ret, ts) -> Forall wf_token ts.
Proof.
  intros t q v t' ret ts Hr Hq Hd. unfold in_range, in_rangeb in Hr.
  destruct q as [l c|d r|bs|n me| |r d rt|p|p]; try contradiction; cbn [drv_req] in Hd.
  - inversion Hd; subst. apply wf_goto; lia.
  - inversion Hd; subst. apply wf_move.
  - inversion Hd; subst. apply wf_print. lia.
  - inversion Hd; subst. apply wf_erase.
  - inversion Hd; subst. apply wf_clear.
  - destruct (xt_scrollrect (cap_slrm (x_caps (t_drv t))) (t_cols t) r d rt) as [ok ts0] eqn:E.
    inversion Hd; subst.
    pose proof (wf_scroll (cap_slrm (x_caps (t_drv t'))) (t_cols t') r d rt) as H.
    rewrite E in H. cbn [snd] in H. apply H; lia.
Qed.

Lemma drawing_bytes : forall t q v t' ret ts, in_range q v ->
  match q with RChpen _ | RSetpen _ => False | _ => True end ->
  drv_req t q = Some (t', ret, ts) ->
  vt_run_bytes (render ts) v = vt_run ts v.
Proof.
  intros t q v t' ret ts Hr Hq Hd. apply run_bytes_render. eapply drawing_tokens_wf; eauto.
Qed.

(* ---- the SGR token of a pen change *)
Definition some_nonneg (o : option Z) : Prop := exists v, o = Some v /\ 0 <= v.
Definition good_group (g : list (option Z)) : Prop := g <> [] /\ Forall some_nonneg g.

Lemma group_params_good : forall colon ps cur,
  Forall (fun sp : sparam => 0 <= fst sp) ps -> Forall some_nonneg cur ->
  Forall good_group (group_params colon ps cur).
Proof.
  intros colon ps. induction ps as [|[v more] ps IH]; intros cur Hps Hcur.
  - cbn [group_params]. destruct cur as [|c cur']; [constructor|].
    constructor; [|constructor]. split.
    + intro H. apply (f_equal (@length _)) in H. rewrite rev_length in H. discriminate.
    + apply Forall_rev. exact Hcur.
  - inversion Hps as [|x xs Hv Hrest]; subst. cbn [fst] in Hv.
    assert (Hc' : Forall some_nonneg (Some v :: cur)) by (constructor; [exists v; split; [reflexivity|exact Hv]|exact Hcur]).
    cbn [group_params]. destruct (more && colon).
    + apply IH; assumption.
    + constructor.
      * split.
        -- intro H. apply (f_equal (@length _)) in H. rewrite rev_length in H. discriminate.
        -- apply Forall_rev. exact Hc'.
      * apply IH; [assumption|constructor].
Qed.

Lemma good_groups_wf : forall gs, Forall good_group gs -> wf_params gs.
Proof.
  intros gs H. split.
  - apply Forall_forall. intros g Hg. rewrite Forall_forall in H. destruct (H g Hg) as [Hne Hall].
    split; [exact Hne|]. apply Forall_forall. intros o Ho. rewrite Forall_forall in Hall.
    destruct (Hall o Ho) as (v & -> & Hv). exact Hv.
  - intro E. subst gs. inversion H as [|g gs' Hg _]; subst. destruct Hg as [_ Hall].
    inversion Hall as [|o os Ho _]; subst. destruct Ho as (v & Hv & _). discriminate.
Qed.

Ltac fa := repeat (first [apply Forall_nil | apply Forall_cons]); cbn [fst]; try lia.
Lemma attr_params_nonneg : forall colon rgb8 delta a, pen_in_range delta ->
  Forall (fun sp : sparam => 0 <= fst sp) (attr_params colon rgb8 delta a).
Proof.
  intros colon rgb8 delta a Hr.
  assert (Hcol : forall b, (b = AFg \/ b = ABg) ->
            -1 <= get_colour_attr delta b <= 255 /\
            0 <= rgb_r (get_colour_attr_rgb8 delta b) /\ 0 <= rgb_g (get_colour_attr_rgb8 delta b) /\
            0 <= rgb_b (get_colour_attr_rgb8 delta b)).
  { intros b Hb. unfold get_colour_attr, get_colour_attr_rgb8, COLOUR_DEFAULT.
    destruct (delta b) as [x|] eqn:E.
    - specialize (Hr b x E). unfold aval_in_range in Hr.
      destruct Hb as [-> | ->]; cbn [attr_type] in Hr; rewrite ?E;
        (destruct x as [bb|n|i sec]; try contradiction; destruct Hr as [Hi Hs];
         destruct sec as [c|]; cbn; lia).
    - destruct Hb as [-> | ->]; rewrite ?E; cbn; lia. }
  assert (Hint : forall b, (b = AUnder \/ b = AAltfont \/ b = ASizepos) -> -1 <= get_int_attr delta b <= 9).
  { intros b Hb. unfold get_int_attr. destruct (delta b) as [x|] eqn:E.
    - specialize (Hr b x E). unfold aval_in_range in Hr.
      destruct Hb as [-> | [-> | ->]]; cbn [attr_type] in Hr; rewrite ?E;
        (destruct x as [bb|n|i sec]; try contradiction; cbn; lia).
    - destruct Hb as [-> | [-> | ->]]; rewrite ?E; cbn; lia. }
  destruct a; unfold attr_params; cbn [onoff attr_index nth sgr_onoff fst snd].
  - destruct (Hcol AFg (or_introl eq_refl)) as (H1 & H2 & H3 & H4).
    destruct (get_colour_attr delta AFg <? 0); [fa|].
    destruct (rgb8 && has_colour_attr_rgb8 delta AFg); [fa|].
    destruct (get_colour_attr delta AFg <? 8) eqn:E8; [fa|].
    destruct (get_colour_attr delta AFg <? 16) eqn:E16; fa.
  - destruct (Hcol ABg (or_intror eq_refl)) as (H1 & H2 & H3 & H4).
    destruct (get_colour_attr delta ABg <? 0); [fa|].
    destruct (rgb8 && has_colour_attr_rgb8 delta ABg); [fa|].
    destruct (get_colour_attr delta ABg <? 8) eqn:E8; [fa|].
    destruct (get_colour_attr delta ABg <? 16) eqn:E16; fa.
  - destruct (get_bool_attr delta ABold); fa.
  - assert (H : 0 <= get_int_attr delta AUnder).
    { unfold get_int_attr. destruct (delta AUnder) as [x|] eqn:E; [|lia].
      specialize (Hr AUnder x E). unfold aval_in_range in Hr. cbn [attr_type] in Hr.
      destruct x as [bb|n|i sec]; try contradiction; lia. }
    destruct (get_int_attr delta AUnder =? 0) eqn:E0; [fa|].
    destruct (get_int_attr delta AUnder =? 1) eqn:E1; [fa|].
    destruct colon; [fa|].
    destruct (get_int_attr delta AUnder =? 2); fa.
  - destruct (get_bool_attr delta AItalic); fa.
  - destruct (get_bool_attr delta AReverse); fa.
  - destruct (get_bool_attr delta AStrike); fa.
  - pose proof (Hint AAltfont (or_intror (or_introl eq_refl))) as H.
    destruct ((get_int_attr delta AAltfont <? 0) || (10 <=? get_int_attr delta AAltfont)) eqn:E;
      fa.
  - destruct (get_bool_attr delta ABlink); fa.
  - destruct (get_int_attr delta ASizepos =? 0); [fa|].
    destruct (get_int_attr delta ASizepos =? 2); [fa|].
    destruct (get_int_attr delta ASizepos =? 3); fa.
Qed.

Lemma chpen_params_nonneg : forall colon rgb8 delta, pen_in_range delta ->
  Forall (fun sp : sparam => 0 <= fst sp) (chpen_params colon rgb8 delta).
Proof.
  intros colon rgb8 delta Hr. unfold chpen_params.
  induction all_attrs as [|a l IH]; [constructor|].
  cbn [flat_map]. apply Forall_app. split; [|exact IH].
  destruct (has_attr delta a); [apply attr_params_nonneg; exact Hr|constructor].
Qed.

Lemma chpen_tokens_wf : forall capacity colon rgb8 delta final ts, pen_in_range delta ->
  xterm_chpen capacity colon rgb8 delta final = Some ts -> Forall wf_token ts.
Proof.
  intros capacity colon rgb8 delta final ts Hr H. unfold xterm_chpen in H.
  pose proof (chpen_params_nonneg colon rgb8 delta Hr) as Hnn.
  destruct (capacity <? Z.of_nat (length (chpen_params colon rgb8 delta))); [discriminate|].
  destruct (chpen_params colon rgb8 delta) as [|sp ps] eqn:E.
  - inversion H. constructor.
  - destruct (negb (is_nondefault final)); inversion H; subst; (constructor; [|constructor]).
    + apply wf_csi_0. lia.
    + assert (Hg : wf_params (group_params colon (sp :: ps) []))
        by (apply good_groups_wf; apply group_params_good; [exact Hnn|constructor]).
      cbn [wf_token]. split; [exact I|]. split; [exact Hg|]. split; [constructor|lia].
Qed.

(* every request of the property, pen changes included: well-formed tokens, hence the VT fed
   with the rendered bytes is in the state the token-level theorems describe *)
(* keep the kernel from unfolding the ten-step folds when it re-checks these small case analyses *)
Local Strategy opaque [term_setpen term_chpen xterm_chpen do_setpen do_chpen].

Lemma do_pen_parts : forall (is_set : bool) cap colon rgb8 s p s' ts,
  (if is_set then do_setpen else do_chpen) cap colon rgb8 s p = Some (s', ts) ->
  exists tp' delta,
    (if is_set then term_setpen else term_chpen) (tp_colors s) (tp_pen s) p = Some (tp', delta) /\
    xterm_chpen cap colon rgb8 delta tp' = Some ts.
Proof.
  intros is_set cap colon rgb8 s p s' ts H.
  Local Strategy transparent [do_setpen do_chpen].
  destruct is_set; [unfold do_setpen in H | unfold do_chpen in H].
  - destruct (term_setpen (tp_colors s) (tp_pen s) p) as [[tp' delta]|] eqn:Et; [|discriminate H].
    destruct (xterm_chpen cap colon rgb8 delta tp') as [ts0|] eqn:Ex; [|discriminate H].
    inversion H; subst. exists tp', delta. split; [reflexivity|exact Ex].
  - destruct (term_chpen (tp_colors s) (tp_pen s) p) as [[tp' delta]|] eqn:Et; [|discriminate H].
    destruct (xterm_chpen cap colon rgb8 delta tp') as [ts0|] eqn:Ex; [|discriminate H].
    inversion H; subst. exists tp', delta. split; [reflexivity|exact Ex].
Qed.

Lemma drv_req_pen : forall (is_set : bool) t p t' ret ts,
  drv_req t (if is_set then RSetpen p else RChpen p) = Some (t', ret, ts) ->
  exists s', (if is_set then do_setpen else do_chpen) chpen_params_capacity (cap_colon (x_caps (t_drv t)))
               (cap_rgb8 (x_caps (t_drv t))) (mkTp (t_pen t) xterm_colors) p = Some (s', ts).
Proof.
  intros is_set t p t' ret ts H.
  destruct is_set; cbn [drv_req] in H.
  - destruct (do_setpen chpen_params_capacity (cap_colon (x_caps (t_drv t))) (cap_rgb8 (x_caps (t_drv t)))
                        (mkTp (t_pen t) xterm_colors) p) as [[s' ts0]|]; [|discriminate H].
    inversion H; subst. exists s'. reflexivity.
  - destruct (do_chpen chpen_params_capacity (cap_colon (x_caps (t_drv t))) (cap_rgb8 (x_caps (t_drv t)))
                       (mkTp (t_pen t) xterm_colors) p) as [[s' ts0]|]; [|discriminate H].
    inversion H; subst. exists s'. reflexivity.
Qed.

Lemma pen_tokens_wf : forall (is_set : bool) t p t' ret ts, pen_in_range (t_pen t) -> pen_in_range p ->
  drv_req t (if is_set then RSetpen p else RChpen p) = Some (t', ret, ts) -> Forall wf_token ts.
Proof.
  intros is_set t p t' ret ts Ht Hp Hd.
  destruct (drv_req_pen is_set t p t' ret ts Hd) as (s' & Hdo).
  destruct (do_pen_parts is_set _ _ _ _ p s' ts Hdo) as (tp' & delta & Hrun & Hx).
  cbn [tp_colors tp_pen] in Hrun.
  pose proof (term_pen xterm_colors is_set (t_pen t) (t_pen t) p ltac:(unfold xterm_colors; lia) Ht Hp
                       (fun a => eq_sym (cache_of_256 (t_pen t) a Ht))) as Hterm.
  cbv zeta in Hterm. destruct Hterm as (tp2 & delta2 & Hrun2 & _ & _ & Hdelta & _).
  rewrite Hrun in Hrun2. inversion Hrun2; subst.
  eapply chpen_tokens_wf; eauto.
Qed.

Lemma req_tokens_wf : forall t q v t' ret ts, in_range q v -> req_pen_ok q -> pen_in_range (t_pen t) ->
  drv_req t q = Some (t', ret, ts) -> Forall wf_token ts.
Proof.
  intros t q v t' ret ts Hr Hq Ht Hd.
  destruct q as [l c|d r|bs|n me| |r d rt|p|p];
    try (eapply drawing_tokens_wf; eauto; exact I).
  - apply (pen_tokens_wf false t p t' ret ts Ht Hq Hd).
  - apply (pen_tokens_wf true t p t' ret ts Ht Hq Hd).
Qed.

Lemma req_bytes : forall t q v t' ret ts, in_range q v -> req_pen_ok q -> pen_in_range (t_pen t) ->
  drv_req t q = Some (t', ret, ts) -> vt_run_bytes (render ts) v = vt_run ts v.
Proof.
  intros t q v t' ret ts Hr Hq Ht Hd. apply run_bytes_render. eapply req_tokens_wf; eauto.
Qed.

Lemma req_bytes_wf : forall t q v t' ret ts, in_range q v -> req_pen_ok q -> pen_in_range (t_pen t) ->
  drv_req t q = Some (t', ret, ts) ->
  Forall wf_token ts /\ vt_run_bytes (render ts) v = vt_run ts v.
Proof.
  intros t q v t' ret ts H1 H2 H3 H4.
  exact (conj (req_tokens_wf t q v t' ret ts H1 H2 H3 H4) (req_bytes t q v t' ret ts H1 H2 H3 H4)).
Qed.
