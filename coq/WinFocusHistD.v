(* WinFocusHistD.v -- C15 over histories, part D (C15_requested, second half): show, hide,
   close, new and the geometry changes (with the exposes of old and new area) preserve FInv.
   The change of [owner] is confined to the exposed region by the locality theorems of
   WinPreserve.v (through WinFocusHistA.owner_locality); here: the focus target. *)
From Coq Require Import ZArith List Bool Lia ZifyBool Permutation.
From Tickit Require Import RectDefs RectProofs WinRectSet WinDefs WinSpec WinHist WinScreenInv
  WinLogDisjoint WinLocTree WinLocality WinPreserve
  WinFocusProofs WinFocusHistA WinFocusHistB WinFocusHistC.
Import ListNotations.
Local Open Scope Z_scope.
Local Strategy 1000 [rsfuel].

Lemma chain_two : forall id T chain, NoDup (t_ids T) -> t_chain id T = Some chain -> id <> t_id T ->
  exists x p rest, chain = x :: p :: rest /\ t_id x = id /\ In x (t_kids p) /\ subtree p T.
Proof.
  intros id T chain Hnd Hc Hroot.
  destruct (t_chain_facts _ _ _ Hc) as [Hup [Hall [[x [rest [Hx Hxid]]] Hone]]]. subst chain.
  destruct rest as [|p rest'].
  - exfalso. apply Hroot. rewrite <- Hxid. f_equal. apply Hone. reflexivity.
  - exists x, p, rest'. split; [reflexivity|]. split; [exact Hxid|].
    cbn [uplinked] in Hup. destruct Hup as [Hin _]. split; [exact Hin|].
    inversion Hall as [|? ? _ Hall']; subst. inversion Hall'; subst. assumption.
Qed.

Lemma pending_through_expose : forall st id ex,
  r_nrest st = true -> r_later st = true ->
  r_nrest (win_expose st id ex) = true /\ r_later (win_expose st id ex) = true.
Proof.
  intros st id ex Hr Hl. destruct (fm_expose st id ex) as (A & _ & C). split; [apply C|apply A]; assumption.
Qed.

(* ------------------------------------------------------------------------------------ *)
(* show                                                                                  *)

Theorem show_FInv : forall st tm id,
  id <> t_id (r_tree st) -> r_fault (win_show no_defects st id) = false ->
  FInv st tm -> FInv (win_show no_defects st id) tm.
Proof.
  intros st tm id Hroot Hfault HF. pose proof HF as [HT Hok Hcur]. destruct HT as [Hu Hwf Hv Ht Hl].
  apply (finv_step st _ tm HF).
  - intro app.
    destruct (show_preserves no_defects app st (canon app st) id (screen_of_state app st Hok) Hu Hroot Hfault)
      as [SI _]. exact SI.
  - apply ids_unique_win_show. exact Hu.
  - apply wf_focus_win_show; assumption.
  - unfold win_show. destruct (t_chain id (r_tree st)) as [chain|] eqn:Echain; [|left; reflexivity].
    destruct (chain_two _ _ _ Hu Echain Hroot) as [x [p [rest [Hc _]]]]. subst chain. cbn zeta.
    match goal with |- context [if ?l then t_update _ _ _ else _] => destruct l eqn:Elink end.
    + right. cbn [andb negb d_chain_norestore no_defects]. apply pending_through_expose; reflexivity.
    + left. rewrite win_expose_tree. cbn [andb]. cbn [set_tree r_tree].
      apply update_keep_ckey. intro i. repeat split.
  - unfold win_show. destruct (t_chain id (r_tree st)) as [chain|]; [|apply fm_refl].
    destruct chain as [|x [|p rest]]; cbv beta iota zeta;
    match goal with |- flags_mono st (win_expose (if ?b then request_restore ?s else ?s) _ _) =>
      apply (fm_trans st s); [|eapply fm_trans; [apply (fm_cond_restore b)|apply fm_expose]]
    end; apply fm_same; unfold same_flags; cbn; tauto.
Qed.

(* ------------------------------------------------------------------------------------ *)
(* hide                                                                                  *)

Lemma ckey_hide_clear : forall pid id i, ckey (G_clear pid id (F_hide id i)) = ckey i.
Proof.
  intros pid id i. unfold G_clear, clear_link, F_hide.
  destruct (w_id i =? id); cbn [set_vis w_id w_fchild];
    destruct (w_id i =? pid); try reflexivity;
    destruct (opt_eqb (w_fchild i) id); reflexivity.
Qed.

Theorem hide_FInv : forall st tm id,
  id <> t_id (r_tree st) -> r_fault (win_hide no_defects st id) = false ->
  FInv st tm -> FInv (win_hide no_defects st id) tm.
Proof.
  intros st tm id Hroot Hfault HF. pose proof HF as [HT Hok Hcur]. destruct HT as [Hu Hwf Hv Ht Hl].
  apply (finv_step st _ tm HF).
  - intro app.
    destruct (hide_preserves no_defects app st (canon app st) id (screen_of_state app st Hok) Hu Hroot Hfault)
      as [SI _]. exact SI.
  - apply ids_unique_win_hide. exact Hu.
  - apply wf_focus_win_hide; assumption.
  - unfold win_hide. destruct (t_chain id (r_tree st)) as [chain|] eqn:Echain; [|left; reflexivity].
    destruct (chain_two _ _ _ Hu Echain Hroot) as [x [p [rest [Hc [Hxid [Hxp Hp]]]]]]. subst chain. cbn zeta.
    destruct (opt_eqb (w_fchild (t_info p)) id) eqn:Elink.
    + right. cbn [andb negb d_chain_norestore no_defects]. apply pending_through_expose; reflexivity.
    + left. rewrite win_expose_tree. cbn [andb]. cbn [set_tree r_tree].
      change (fun j : winfo => if opt_eqb (w_fchild j) id then set_fchild j None else j) with (clear_link id).
      replace (t_update (clear_link id) (t_id p) (t_update (fun j => set_vis j false) id (r_tree st)))
        with (t_map (fun i => G_clear (t_id p) id (F_hide id i)) (r_tree st))
        by (rewrite !t_update_map, t_map_comp; reflexivity).
      rewrite ftarget_map_on.
      * apply ckey_hide_clear.
      * intro i. rewrite G_clear_id. apply F_hide_id.
      * intros s Hs. cbn beta. unfold G_clear. rewrite F_hide_id.
        destruct (w_id (t_info s) =? t_id p) eqn:Epid; [|apply F_hide_fchild].
        assert (Hsp : s = p) by (eapply subtree_same_id; [exact Hu|exact Hs|exact Hp|unfold t_id at 1; lia]).
        subst s. unfold clear_link. rewrite F_hide_fchild, Elink. apply F_hide_fchild.
  - unfold win_hide. destruct (t_chain id (r_tree st)) as [chain|]; [|apply fm_refl].
    destruct chain as [|x [|p rest]]; try (apply fm_same; unfold same_flags; cbn; tauto).
    match goal with |- flags_mono st (win_expose (if ?b then request_restore ?s else ?s) _ _) =>
      apply (fm_trans st s); [|eapply fm_trans; [apply (fm_cond_restore b)|apply fm_expose]]
    end.
    apply fm_same. unfold same_flags. cbn. tauto.
Qed.

(* ------------------------------------------------------------------------------------ *)
(* close                                                                                 *)

Lemma win_close_shape : forall cfg st id w p rest,
  t_chain id (r_tree st) = Some (w :: p :: rest) ->
  exists st0, same_flags st st0 /\
    win_close cfg st id =
    (let st1 := if opt_eqb (w_fchild (t_info p)) id && negb (d_chain_norestore cfg)
                then request_restore st0 else st0 in
     if w_vis (t_info w) then win_expose st1 (t_id p) (Some (w_rect (t_info w))) else st1).
Proof.
  intros cfg st id w p rest Hc. unfold win_close. rewrite Hc. cbn zeta.
  eexists. split; [|reflexivity].
  match goal with |- same_flags st (match ?d with Some _ => _ | None => _ end) => destruct d as [src|] end.
  - match goal with |- same_flags st (if ?b then _ else _) => destruct b end;
      unfold same_flags; cbn; tauto.
  - unfold same_flags; cbn; tauto.
Qed.

Theorem close_FInv : forall st tm id,
  r_fault (win_close no_defects st id) = false ->
  FInv st tm -> FInv (win_close no_defects st id) tm.
Proof.
  intros st tm id Hfault HF. pose proof HF as [HT Hok Hcur]. destruct HT as [Hu Hwf Hv Ht Hl].
  apply (finv_step st _ tm HF).
  - intro app.
    destruct (close_preserves no_defects app st (canon app st) id (screen_of_state app st Hok) Hu Hfault)
      as [SI _]. exact SI.
  - apply ids_unique_win_close. exact Hu.
  - apply wf_focus_win_close. exact Hwf.
  - destruct (t_chain id (r_tree st)) as [[|w [|p rest]]|] eqn:Echain;
      try (left; rewrite win_close_tree, Echain; reflexivity).
    destruct (opt_eqb (w_fchild (t_info p)) id) eqn:Elink.
    + right. destruct (win_close_shape no_defects st id w p rest Echain) as [st0 [_ Heq]].
      rewrite Heq, Elink. cbn [andb negb d_chain_norestore no_defects]. cbn zeta.
      destruct (w_vis (t_info w)); [apply pending_through_expose; reflexivity|split; reflexivity].
    + left. rewrite win_close_tree, Echain. f_equal. apply ftarget_close.
      intros s Hs Hsid.
      assert (Hp : subtree p (r_tree st)).
      { destruct (t_chain_facts _ _ _ Echain) as [_ [Hall _]].
        inversion Hall as [|? ? _ Hall']; subst. inversion Hall'; subst. assumption. }
      assert (Hsp : s = p) by (eapply subtree_same_id; [exact Hu|exact Hs|exact Hp|exact Hsid]).
      subst s. intro Hk. rewrite Hk in Elink. cbn [opt_eqb] in Elink. lia.
  - destruct (t_chain id (r_tree st)) as [[|w [|p rest]]|] eqn:Echain;
      try (unfold win_close; rewrite Echain; apply fm_refl).
    destruct (win_close_shape no_defects st id w p rest Echain) as [st0 [Hsame Heq]].
    rewrite Heq. cbn zeta. eapply fm_trans; [apply fm_same; exact Hsame|].
    eapply fm_trans; [apply fm_cond_restore|apply fm_cond_expose].
Qed.

(* ------------------------------------------------------------------------------------ *)
(* new                                                                                   *)

Lemma win_new_shape : forall st id pid r hidden lowest rootparent steal chain,
  t_chain pid (r_tree st) = Some chain ->
  exists pid' r',
    win_new st id pid r hidden lowest rootparent steal =
    (let node := Node (new_info id r' hidden steal) [] in
     let st1 := set_tree st (t_upd_kids (fun ch => if lowest then ch ++ [node] else node :: ch) pid' (r_tree st)) in
     if negb hidden then win_expose st1 pid' (Some r') else st1).
Proof.
  intros st id pid r hidden lowest rootparent steal chain Hc. unfold win_new. rewrite Hc.
  destruct rootparent; eexists; eexists; reflexivity.
Qed.

Theorem new_FInv : forall st tm id pid r hidden lowest rootparent steal,
  ~ In id (t_ids (r_tree st)) ->
  r_fault (win_new st id pid r hidden lowest rootparent steal) = false ->
  FInv st tm -> FInv (win_new st id pid r hidden lowest rootparent steal) tm.
Proof.
  intros st tm id pid r hidden lowest rootparent steal Hfresh Hfault HF.
  pose proof HF as [HT Hok Hcur]. destruct HT as [Hu Hwf Hv Ht Hl].
  assert (Hshape : forall chain, t_chain pid (r_tree st) = Some chain -> exists pid' r',
            win_new st id pid r hidden lowest rootparent steal =
            (let node := Node (new_info id r' hidden steal) [] in
             let st1 := set_tree st (t_upd_kids (fun ch => if lowest then ch ++ [node] else node :: ch) pid' (r_tree st)) in
             if negb hidden then win_expose st1 pid' (Some r') else st1))
    by (intros chain Hc; eapply win_new_shape; exact Hc).
  apply (finv_step st _ tm HF).
  - intro app.
    destruct (new_preserves app st (canon app st) id pid r hidden lowest rootparent steal
                (screen_of_state app st Hok) Hu Hfresh Hfault) as [SI _]. exact SI.
  - destruct (new_preserves (fun _ _ _ => 0) st (canon (fun _ _ _ => 0) st) id pid r hidden lowest rootparent steal
                (screen_of_state _ st Hok) Hu Hfresh Hfault) as [_ Hu']. exact Hu'.
  - destruct (t_chain pid (r_tree st)) as [chain|] eqn:Echain;
      [|unfold win_new; rewrite Echain; exact Hwf].
    destruct (Hshape chain eq_refl) as [pid' [r' Heq]]. rewrite Heq. cbn zeta.
    assert (Htree : forall (b : bool) s y ex, r_tree (if b then win_expose s y ex else s) = r_tree s)
      by (intros [|] s y ex; [apply win_expose_tree|reflexivity]).
    rewrite Htree. cbn [set_tree r_tree].
    apply (upd_kids_wf_add _ pid' (Node (new_info id r' hidden steal) [])); [| |exact Hwf].
    + constructor; [intros k Hk; cbn in Hk; discriminate|constructor].
    + intros l x. destruct lowest.
      * rewrite in_app_iff. cbn [In]. intuition.
      * cbn [In]. intuition.
  - left. destruct (t_chain pid (r_tree st)) as [chain|] eqn:Echain;
      [|unfold win_new; rewrite Echain; reflexivity].
    destruct (Hshape chain eq_refl) as [pid' [r' Heq]]. rewrite Heq. cbn zeta.
    assert (Htree : forall (b : bool) s y ex, r_tree (if b then win_expose s y ex else s) = r_tree s)
      by (intros [|] s y ex; [apply win_expose_tree|reflexivity]).
    rewrite Htree. cbn [set_tree r_tree]. f_equal.
    apply (ftarget_upd_kids_simple _ pid' (fun k => k <> id)).
    + intros l k Hk. destruct lowest.
      * apply kids_find_snoc_other. unfold t_id. cbn [t_info new_info w_id]. congruence.
      * apply kids_find_cons_other. unfold t_id. cbn [t_info new_info w_id]. congruence.
    + intros i ch Hs _ k Hk Hkid. subst k.
      destruct (wf_focus_node _ _ _ _ Hwf Hs Hk) as [c [Hin [Hcid _]]].
      apply Hfresh. apply (subtree_ids _ _ Hs). cbn [t_ids]. right.
      apply in_flat_map. exists c. split; [exact Hin|]. rewrite <- Hcid. apply t_ids_head.
  - destruct (t_chain pid (r_tree st)) as [chain|] eqn:Echain;
      [|unfold win_new; rewrite Echain; apply fm_refl].
    destruct (Hshape chain eq_refl) as [pid' [r' Heq]]. rewrite Heq. cbn zeta.
    eapply fm_trans; [|apply fm_cond_expose]. apply fm_same. unfold same_flags. cbn. tauto.
Qed.

(* ------------------------------------------------------------------------------------ *)
(* geometry changes, followed by the exposes of the old and the new area                 *)

Lemma geom_exposes_tree : forall st0 st1 id b, r_tree (geom_exposes st0 st1 id b) = r_tree st1.
Proof.
  intros st0 st1 id b. unfold geom_exposes. destruct (negb b); [reflexivity|].
  destruct (t_parent_id id (r_tree st0)); [|reflexivity].
  destruct (win_rect st0 id); [|reflexivity]. destruct (win_rect st1 id); [|reflexivity].
  rewrite !win_expose_tree. reflexivity.
Qed.

Lemma fm_geom_exposes : forall st0 st1 id b, flags_mono st1 (geom_exposes st0 st1 id b).
Proof.
  intros st0 st1 id b. unfold geom_exposes. destruct (negb b); [apply fm_refl|].
  destruct (t_parent_id id (r_tree st0)); [|apply fm_refl].
  destruct (win_rect st0 id); [|apply fm_refl]. destruct (win_rect st1 id); [|apply fm_refl].
  eapply fm_trans; apply fm_expose.
Qed.

Lemma set_rect_keep : forall r i,
  w_id (set_rect i r) = w_id i /\ w_vis (set_rect i r) = w_vis i /\ w_fchild (set_rect i r) = w_fchild i.
Proof. intros r i. repeat split. Qed.

(* the common part: st1 carries the tree with one rectangle changed, and flags above st's *)
Lemma geom_FInv : forall st tm st1 id r,
  FInv st tm ->
  (forall app, ScreenInv app (geom_exposes st st1 id true) (canon app st)) ->
  ids_unique (r_tree (geom_exposes st st1 id true)) ->
  (r_tree st1 = t_update (fun j => set_rect j r) id (r_tree st) \/ r_tree st1 = r_tree st) ->
  flags_mono st st1 ->
  FInv (geom_exposes st st1 id true) tm.
Proof.
  intros st tm st1 id r HF HSI Hu' Htree Hfm.
  pose proof HF as [HT Hok Hcur]. destruct HT as [Hu Hwf Hv Ht Hl].
  apply (finv_step st _ tm HF HSI Hu').
  - rewrite geom_exposes_tree. destruct Htree as [E|E]; rewrite E; [|exact Hwf].
    apply wf_focus_update_keep; [|exact Hwf]. intro i. apply set_rect_keep.
  - left. rewrite geom_exposes_tree. destruct Htree as [E|E]; rewrite E; [|reflexivity].
    apply update_keep_ckey. intro i. repeat split.
  - eapply fm_trans; [exact Hfm|apply fm_geom_exposes].
Qed.

Theorem geometry_FInv : forall st tm id r,
  id <> t_id (r_tree st) ->
  r_fault (geom_exposes st (win_set_geometry st id r) id true) = false ->
  FInv st tm -> FInv (geom_exposes st (win_set_geometry st id r) id true) tm.
Proof.
  intros st tm id r Hroot Hfault HF. pose proof HF as [HT Hok Hcur]. destruct HT as [Hu Hwf Hv Ht Hl].
  apply (geom_FInv st tm _ id r HF).
  - intro app. destruct (geometry_preserves app st (canon app st) id r (screen_of_state app st Hok) Hu Hroot Hfault)
      as [SI _]. exact SI.
  - destruct (geometry_preserves (fun _ _ _ => 0) st (canon (fun _ _ _ => 0) st) id r
                (screen_of_state _ st Hok) Hu Hroot Hfault) as [_ Hu']. exact Hu'.
  - left. reflexivity.
  - apply fm_same. unfold same_flags. cbn. tauto.
Qed.

Theorem reposition_FInv : forall st tm id t l,
  id <> t_id (r_tree st) ->
  r_fault (geom_exposes st (win_reposition st id t l) id true) = false ->
  FInv st tm -> FInv (geom_exposes st (win_reposition st id t l) id true) tm.
Proof.
  intros st tm id t l Hroot Hfault HF. pose proof HF as [HT Hok Hcur]. destruct HT as [Hu Hwf Hv Ht Hl].
  assert (Hshape : (exists r, r_tree (win_reposition st id t l) = t_update (fun j => set_rect j r) id (r_tree st))
                   \/ r_tree (win_reposition st id t l) = r_tree st).
  { unfold win_reposition. destruct (t_find id (r_tree st)) as [w|]; [|right; reflexivity].
    left. eexists. destruct (w_focused (t_info w)); reflexivity. }
  assert (Hfm : flags_mono st (win_reposition st id t l)).
  { unfold win_reposition. destruct (t_find id (r_tree st)) as [w|]; [|apply fm_refl].
    eapply fm_trans; [|apply (fm_cond_restore (w_focused (t_info w)))].
    apply fm_same. unfold same_flags, win_set_geometry. cbn. tauto. }
  assert (HSI : forall app, ScreenInv app (geom_exposes st (win_reposition st id t l) id true) (canon app st)).
  { intro app. destruct (reposition_preserves app st (canon app st) id t l (screen_of_state app st Hok) Hu Hroot Hfault)
      as [SI _]. exact SI. }
  assert (Hu' : ids_unique (r_tree (geom_exposes st (win_reposition st id t l) id true))).
  { destruct (reposition_preserves (fun _ _ _ => 0) st (canon (fun _ _ _ => 0) st) id t l
                (screen_of_state _ st Hok) Hu Hroot Hfault) as [_ H]. exact H. }
  destruct Hshape as [[r Hr]|Hr].
  - apply (geom_FInv st tm _ id r HF HSI Hu'); [left; exact Hr|exact Hfm].
  - apply (geom_FInv st tm _ id (mkRect 0 0 0 0) HF HSI Hu'); [right; exact Hr|exact Hfm].
Qed.

Theorem resize_FInv : forall st tm id nl nc,
  id <> t_id (r_tree st) ->
  r_fault (geom_exposes st (win_resize st id nl nc) id true) = false ->
  FInv st tm -> FInv (geom_exposes st (win_resize st id nl nc) id true) tm.
Proof.
  intros st tm id nl nc Hroot Hfault HF. pose proof HF as [HT Hok Hcur]. destruct HT as [Hu Hwf Hv Ht Hl].
  assert (Hshape : (exists r, r_tree (win_resize st id nl nc) = t_update (fun j => set_rect j r) id (r_tree st))
                   \/ r_tree (win_resize st id nl nc) = r_tree st).
  { unfold win_resize. destruct (t_find id (r_tree st)) as [w|]; [|right; reflexivity].
    left. eexists. reflexivity. }
  assert (Hfm : flags_mono st (win_resize st id nl nc)).
  { unfold win_resize. destruct (t_find id (r_tree st)) as [w|]; [|apply fm_refl].
    apply fm_same. unfold same_flags, win_set_geometry. cbn. tauto. }
  assert (HSI : forall app, ScreenInv app (geom_exposes st (win_resize st id nl nc) id true) (canon app st)).
  { intro app. destruct (resize_preserves app st (canon app st) id nl nc (screen_of_state app st Hok) Hu Hroot Hfault)
      as [SI _]. exact SI. }
  assert (Hu' : ids_unique (r_tree (geom_exposes st (win_resize st id nl nc) id true))).
  { destruct (resize_preserves (fun _ _ _ => 0) st (canon (fun _ _ _ => 0) st) id nl nc
                (screen_of_state _ st Hok) Hu Hroot Hfault) as [_ H]. exact H. }
  destruct Hshape as [[r Hr]|Hr].
  - apply (geom_FInv st tm _ id r HF HSI Hu'); [left; exact Hr|exact Hfm].
  - apply (geom_FInv st tm _ id (mkRect 0 0 0 0) HF HSI Hu'); [right; exact Hr|exact Hfm].
Qed.
