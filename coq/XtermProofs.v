(* XtermProofs.v -- C09: the driver model against the VT specification, request by request
   and for sequences. *)
From Coq Require Import ZArith List Bool Lia ZifyBool.
From Tickit Require Import Csi VT TermPenDefs TermPenSpec TermPenProofs XtermDefs XtermSpec Gen_SgrOnOff.
Import ListNotations.
Local Open Scope Z_scope.

(* ------------------------------------------------------------------ basics *)
Lemma vt_run_app : forall a b v, vt_run (a ++ b) v = vt_run b (vt_run a v).
Proof. intros a b v. unfold vt_run. apply fold_left_app. Qed.
Lemma vt_run_nil : forall v, vt_run [] v = v.
Proof. reflexivity. Qed.
Lemma vt_run_cons : forall t ts v, vt_run (t :: ts) v = vt_run ts (vt_step v t).
Proof. reflexivity. Qed.

Lemma colour_eqb_refl : forall c, colour_eqb c c = true.
Proof. intros [|n|r g b]; cbn; lia. Qed.
Lemma attrs_eqb_refl : forall a, attrs_eqb a a = true.
Proof.
  intros a. unfold attrs_eqb. rewrite !colour_eqb_refl, !Z.eqb_refl, !eqb_reflx. reflexivity.
Qed.
Lemma cell_eqb_refl : forall c, cell_eqb c c = true.
Proof. intros c. unfold cell_eqb. rewrite Z.eqb_refl, attrs_eqb_refl. reflexivity. Qed.
Lemma margins_eqb_refl : forall m, margins_eqb m m = true.
Proof. intros m. unfold margins_eqb. rewrite !Z.eqb_refl. reflexivity. Qed.
Lemma modes_eqb_refl : forall m, modes_eqb m m = true.
Proof. intros m. unfold modes_eqb. rewrite !Z.eqb_refl, !eqb_reflx. reflexivity. Qed.
Lemma cursor_eqb_refl : forall c, cursor_eqb c c = true.
Proof. intros c. unfold cursor_eqb. rewrite !Z.eqb_refl, eqb_reflx. reflexivity. Qed.

Lemma clamp_id : forall lo hi x, lo <= x <= hi -> clamp lo hi x = x.
Proof. intros lo hi x H. unfold clamp. lia. Qed.

(* what [vt_ok] says *)
Lemma vt_ok_inv : forall v, vt_ok v ->
  0 < v_lines v /\ 0 < v_cols v /\
  mg_top (v_mg v) = 0 /\ mg_bot (v_mg v) = v_lines v - 1 /\
  mg_left (v_mg v) = 0 /\ mg_right (v_mg v) = v_cols v - 1 /\
  md_awm (v_md v) = true /\ 0 <= row v < v_lines v /\ 0 <= col v < v_cols v.
Proof.
  intros v H. unfold vt_ok, vt_okb, margins_eqb, full_margins in H. cbn [mg_top mg_bot mg_left mg_right] in H.
  destruct (md_awm (v_md v)); lia.
Qed.
Lemma vt_ok_intro : forall v,
  0 < v_lines v -> 0 < v_cols v ->
  v_mg v = full_margins (v_lines v) (v_cols v) ->
  md_awm (v_md v) = true -> 0 <= row v < v_lines v -> 0 <= col v < v_cols v -> vt_ok v.
Proof.
  intros v Hl Hc Hm Ha Hr Hcc. unfold vt_ok, vt_okb. rewrite Hm, margins_eqb_refl, Ha. lia.
Qed.
Lemma full_margins_of_ok : forall v, vt_ok v -> v_mg v = full_margins (v_lines v) (v_cols v).
Proof.
  intros v H. destruct (vt_ok_inv v H) as (_ & _ & Ht & Hb & Hl & Hr & _).
  unfold full_margins. destruct (v_mg v) as [t b l r]. cbn in *. congruence.
Qed.

(* bounded quantification *)
Lemma seqZ_In : forall n s z, In z (seqZ s n) <-> s <= z < s + Z.of_nat n.
Proof.
  induction n as [|n IH]; intros s z.
  - cbn. lia.
  - cbn [seqZ In]. rewrite IH. lia.
Qed.
Lemma forall_cells_spec : forall L C f,
  forall_cells L C f = true <-> (forall y x, 0 <= y < L -> 0 <= x < C -> f y x = true).
Proof.
  intros L C f. unfold forall_cells. rewrite forallb_forall. split.
  - intros H y x Hy Hx.
    assert (Hin : In y (seqZ 0 (Z.to_nat L))) by (apply seqZ_In; lia).
    specialize (H y Hin). rewrite forallb_forall in H. apply H. apply seqZ_In. lia.
  - intros H y Hy. apply seqZ_In in Hy. rewrite forallb_forall. intros x Hx. apply seqZ_In in Hx.
    apply H; lia.
Qed.

(* the boolean checker of the oracle decides the proposition the theorems are about *)
Lemma effect_okb_spec : forall q ret silent v v',
  effect_okb q ret silent v v' = true <-> effect_ok q ret silent v v'.
Proof.
  intros q ret silent v v'. unfold effect_okb, effect_ok.
  destruct q; destruct ret;
    rewrite ?andb_true_iff, ?forall_cells_spec; try tauto;
    (split; [intros [[[H1 H2] H3] H4] | intros (H1 & H2 & H3 & H4)]; repeat split; auto).
Qed.

(* ------------------------------------------------------------------ single tokens *)
Ltac vt_unfold :=
  unfold row, col, pend, goto_rc, clear_pend, set_cur, set_grid, set_mg, set_sgr, set_md in *;
  cbn [v_lines v_cols v_grid v_cur v_mg v_sgr v_md v_savedcur v_other cu_row cu_col cu_pend] in *.

Lemma run_cup2 : forall v a b, vt_run [csi [[Some a]; [Some b]] 72] v = vt_cup v (if a =? 0 then 1 else a) (if b =? 0 then 1 else b).
Proof. reflexivity. Qed.
Lemma run_cup1 : forall v a, vt_run [csi_n a 72] v = vt_cup v (if a =? 0 then 1 else a) 1.
Proof. reflexivity. Qed.
Lemma run_vpa : forall v a, vt_run [csi_n a 100] v = vt_vpa v (if a =? 0 then 1 else a).
Proof. reflexivity. Qed.
Lemma run_cha : forall v a, vt_run [csi_n a 71] v = vt_cha v (if a =? 0 then 1 else a).
Proof. reflexivity. Qed.
Lemma run_cha0 : forall v, vt_run [csi_0 71] v = vt_cha v 1.
Proof. reflexivity. Qed.
Lemma run_cuu : forall v a, vt_run [csi_n a 65] v = vt_cuu v (if a =? 0 then 1 else a).
Proof. reflexivity. Qed.
Lemma run_cuu0 : forall v, vt_run [csi_0 65] v = vt_cuu v 1.
Proof. reflexivity. Qed.
Lemma run_cud : forall v a, vt_run [csi_n a 66] v = vt_cud v (if a =? 0 then 1 else a).
Proof. reflexivity. Qed.
Lemma run_cud0 : forall v, vt_run [csi_0 66] v = vt_cud v 1.
Proof. reflexivity. Qed.
Lemma run_cuf : forall v a, vt_run [csi_n a 67] v = vt_cuf v (if a =? 0 then 1 else a).
Proof. reflexivity. Qed.
Lemma run_cuf0 : forall v, vt_run [csi_0 67] v = vt_cuf v 1.
Proof. reflexivity. Qed.
Lemma run_cub : forall v a, vt_run [csi_n a 68] v = vt_cub v (if a =? 0 then 1 else a).
Proof. reflexivity. Qed.
Lemma run_cub0 : forall v, vt_run [csi_0 68] v = vt_cub v 1.
Proof. reflexivity. Qed.

(* ------------------------------------------------------------------ goto_abs *)
(* the screen after a goto: only the cursor changes *)
Lemma goto_abs_run : forall v l c,
  0 < v_lines v -> 0 < v_cols v -> 0 <= row v < v_lines v -> 0 <= col v < v_cols v ->
  in_range (RGoto l c) v ->
  vt_run (xt_goto_abs l c) v =
  if (l =? -1) && (c =? -1) then v
  else set_cur v (mkCursor (if l =? -1 then row v else l) (if c =? -1 then col v else c) false).
Proof.
  intros v l c HL HC Hrow Hcol Hr.
  unfold in_range, in_rangeb in Hr. unfold xt_goto_abs.
  destruct (l =? -1) eqn:El; destruct (0 <? c) eqn:Ec; cbn [negb andb].
  - (* CHA n *) rewrite run_cha. assert (Hc1 : (c =? -1) = false) by lia; rewrite Hc1. cbn [andb].
    unfold vt_cha, goto_rc. destruct (c + 1 =? 0) eqn:E; [lia|].
    rewrite clamp_id by lia. f_equal. f_equal. lia.
  - destruct (c =? -1) eqn:Ec1; cbn [negb andb].
    + reflexivity.
    + rewrite run_cha0. unfold vt_cha, goto_rc. rewrite clamp_id by lia. f_equal. f_equal. lia.
  - (* CUP l;c *) rewrite run_cup2. assert (Hc1 : (c =? -1) = false) by lia; rewrite Hc1.
    unfold vt_cup, goto_rc. destruct (l + 1 =? 0) eqn:E1; [lia|]. destruct (c + 1 =? 0) eqn:E2; [lia|].
    rewrite !clamp_id by lia. f_equal. f_equal; lia.
  - destruct (c =? 0) eqn:Ec0; cbn [negb andb].
    + (* CUP l *) rewrite run_cup1. assert (Hc1 : (c =? -1) = false) by lia; rewrite Hc1.
      unfold vt_cup, goto_rc. destruct (l + 1 =? 0) eqn:E1; [lia|].
      rewrite !clamp_id by lia. f_equal. f_equal; lia.
    + (* VPA *) rewrite run_vpa. assert (Hc1 : (c =? -1) = true) by lia; rewrite Hc1.
      unfold vt_vpa, goto_rc. destruct (l + 1 =? 0) eqn:E1; [lia|].
      rewrite !clamp_id by lia. f_equal. f_equal; lia.
Qed.

Lemma goto_ok : forall v l c, vt_ok v -> in_range (RGoto l c) v ->
  effect_ok (RGoto l c) true (match xt_goto_abs l c with [] => true | _ => false end) v
            (vt_run (xt_goto_abs l c) v) /\
  vt_ok (vt_run (xt_goto_abs l c) v).
Proof.
  intros v l c Hok Hr.
  pose proof (full_margins_of_ok v Hok) as Hm.
  destruct (vt_ok_inv v Hok) as (HL & HC & _ & _ & _ & _ & Hawm & Hrow & Hcol).
  rewrite (goto_abs_run v l c HL HC Hrow Hcol Hr).
  unfold in_range, in_rangeb in Hr.
  destruct ((l =? -1) && (c =? -1)) eqn:E.
  - split; [|exact Hok]. unfold effect_ok. refine (conj _ (conj _ (conj _ _))).
    + unfold frame_okb. rewrite Hm, margins_eqb_refl, modes_eqb_refl. lia.
    + unfold effect_cursorb. rewrite E. apply andb_true_iff in E as [El Ec]. rewrite El, Ec.
      destruct (pend v); lia.
    + apply attrs_eqb_refl.
    + intros y x _ _. unfold effect_cellb. apply cell_eqb_refl.
  - split.
    + unfold effect_ok. refine (conj _ (conj _ (conj _ _))).
      * unfold frame_okb. vt_unfold. rewrite Hm, margins_eqb_refl, modes_eqb_refl. lia.
      * unfold effect_cursorb. rewrite E. vt_unfold. destruct (l =? -1); destruct (c =? -1); lia.
      * vt_unfold. apply attrs_eqb_refl.
      * intros y x _ _. unfold effect_cellb. vt_unfold. apply cell_eqb_refl.
    + apply vt_ok_intro; vt_unfold; try assumption; try lia.
      * destruct (l =? -1); lia.
      * destruct (c =? -1); lia.
Qed.

(* a goto to a position on the screen, whatever the margins and the cursor *)
Lemma goto_abs_pos : forall v l c, 0 <= l < v_lines v -> 0 <= c < v_cols v ->
  vt_run (xt_goto_abs l c) v = set_cur v (mkCursor l c false).
Proof.
  intros v l c Hl Hc. unfold xt_goto_abs.
  assert (El : (l =? -1) = false) by lia. rewrite El. cbn [negb andb].
  destruct (0 <? c) eqn:Ec.
  - rewrite run_cup2. unfold vt_cup, goto_rc.
    destruct (l + 1 =? 0) eqn:E1; [lia|]. destruct (c + 1 =? 0) eqn:E2; [lia|].
    rewrite !clamp_id by lia. f_equal. f_equal; lia.
  - assert (Ec0 : (c =? 0) = true) by lia. rewrite Ec0.
    rewrite run_cup1. unfold vt_cup, goto_rc. destruct (l + 1 =? 0) eqn:E1; [lia|].
    rewrite !clamp_id by lia. f_equal. f_equal; lia.
Qed.

(* ------------------------------------------------------------------ move_rel *)
Definition mg_full (v : vt) : Prop := v_mg v = full_margins (v_lines v) (v_cols v).

Lemma cud_run : forall v n, mg_full v -> 0 < n -> 0 <= row v -> row v + n < v_lines v ->
  vt_cud v n = set_cur v (mkCursor (row v + n) (col v) false).
Proof.
  intros v n Hm Hn Hr Hb. unfold vt_cud, goto_rc. rewrite Hm. cbn [mg_bot full_margins].
  destruct (row v <=? v_lines v - 1) eqn:E; [|lia]. f_equal. f_equal. lia.
Qed.
Lemma cuu_run : forall v n, mg_full v -> 0 < n -> 0 <= row v - n -> 
  vt_cuu v n = set_cur v (mkCursor (row v - n) (col v) false).
Proof.
  intros v n Hm Hn Hr. unfold vt_cuu, goto_rc. rewrite Hm. cbn [mg_top full_margins].
  destruct (0 <=? row v) eqn:E; [|lia]. f_equal. f_equal. lia.
Qed.
Lemma cuf_run : forall v n, mg_full v -> 0 < n -> 0 <= col v -> col v + n < v_cols v ->
  vt_cuf v n = set_cur v (mkCursor (row v) (col v + n) false).
Proof.
  intros v n Hm Hn Hr Hb. unfold vt_cuf, goto_rc. rewrite Hm. cbn [mg_right full_margins].
  destruct (col v <=? v_cols v - 1) eqn:E; [|lia]. f_equal. f_equal. lia.
Qed.
Lemma cub_run : forall v n, mg_full v -> 0 < n -> 0 <= col v - n ->
  vt_cub v n = set_cur v (mkCursor (row v) (col v - n) false).
Proof.
  intros v n Hm Hn Hr. unfold vt_cub, goto_rc. rewrite Hm. cbn [mg_left full_margins].
  destruct (0 <=? col v) eqn:E; [|lia]. f_equal. f_equal. lia.
Qed.

Definition move_v (d : Z) : list token :=
  if 1 <? d then [csi_n d 66] else if d =? 1 then [csi_0 66]
  else if d =? -1 then [csi_0 65] else if d <? -1 then [csi_n (- d) 65] else [].
Definition move_h (r : Z) : list token :=
  if 1 <? r then [csi_n r 67] else if r =? 1 then [csi_0 67]
  else if r =? -1 then [csi_0 68] else if r <? -1 then [csi_n (- r) 68] else [].
Lemma move_rel_split : forall d r, xt_move_rel d r = move_v d ++ move_h r.
Proof. reflexivity. Qed.

Lemma move_v_run : forall v d, mg_full v -> 0 <= row v + d < v_lines v -> 0 <= row v < v_lines v ->
  vt_run (move_v d) v = if d =? 0 then v else set_cur v (mkCursor (row v + d) (col v) false).
Proof.
  intros v d Hm Hd Hr. unfold move_v.
  destruct (1 <? d) eqn:E1.
  - rewrite run_cud. destruct (d =? 0) eqn:E0; [lia|]. rewrite cud_run by (assumption || lia). reflexivity.
  - destruct (d =? 1) eqn:E2.
    + rewrite run_cud0. destruct (d =? 0) eqn:E0; [lia|]. rewrite cud_run by (assumption || lia).
      f_equal. f_equal. lia.
    + destruct (d =? -1) eqn:E3.
      * rewrite run_cuu0. destruct (d =? 0) eqn:E0; [lia|]. rewrite cuu_run by (assumption || lia).
        f_equal. f_equal. lia.
      * destruct (d <? -1) eqn:E4.
        -- rewrite run_cuu. destruct (- d =? 0) eqn:E5; [lia|]. destruct (d =? 0) eqn:E0; [lia|].
           rewrite cuu_run by (assumption || lia). f_equal. f_equal. lia.
        -- assert (E0 : (d =? 0) = true) by lia. rewrite E0. reflexivity.
Qed.
Lemma move_h_run : forall v r, mg_full v -> 0 <= col v + r < v_cols v -> 0 <= col v < v_cols v ->
  vt_run (move_h r) v = if r =? 0 then v else set_cur v (mkCursor (row v) (col v + r) false).
Proof.
  intros v r Hm Hd Hr. unfold move_h.
  destruct (1 <? r) eqn:E1.
  - rewrite run_cuf. destruct (r =? 0) eqn:E0; [lia|]. rewrite cuf_run by (assumption || lia). reflexivity.
  - destruct (r =? 1) eqn:E2.
    + rewrite run_cuf0. destruct (r =? 0) eqn:E0; [lia|]. rewrite cuf_run by (assumption || lia).
      f_equal. f_equal. lia.
    + destruct (r =? -1) eqn:E3.
      * rewrite run_cub0. destruct (r =? 0) eqn:E0; [lia|]. rewrite cub_run by (assumption || lia).
        f_equal. f_equal. lia.
      * destruct (r <? -1) eqn:E4.
        -- rewrite run_cub. destruct (- r =? 0) eqn:E5; [lia|]. destruct (r =? 0) eqn:E0; [lia|].
           rewrite cub_run by (assumption || lia). f_equal. f_equal. lia.
        -- assert (E0 : (r =? 0) = true) by lia. rewrite E0. reflexivity.
Qed.

Lemma move_rel_run : forall v d r, mg_full v ->
  0 <= row v < v_lines v -> 0 <= col v < v_cols v ->
  0 <= row v + d < v_lines v -> 0 <= col v + r < v_cols v ->
  vt_run (xt_move_rel d r) v =
  if (d =? 0) && (r =? 0) then v else set_cur v (mkCursor (row v + d) (col v + r) false).
Proof.
  intros v d r Hm Hr Hc Hd Hrr. rewrite move_rel_split, vt_run_app.
  rewrite move_v_run by assumption.
  destruct (d =? 0) eqn:Ed.
  - rewrite move_h_run by assumption. cbn [andb]. destruct (r =? 0); [reflexivity|].
    f_equal. f_equal. lia.
  - cbn [andb]. rewrite move_h_run; vt_unfold; try assumption; try lia.
    destruct (r =? 0) eqn:Er; f_equal; f_equal; lia.
Qed.

Lemma move_ok : forall v d r, vt_ok v -> in_range (RMove d r) v ->
  effect_ok (RMove d r) true (match xt_move_rel d r with [] => true | _ => false end) v
            (vt_run (xt_move_rel d r) v) /\
  vt_ok (vt_run (xt_move_rel d r) v).
Proof.
  intros v d r Hok Hr.
  pose proof (full_margins_of_ok v Hok) as Hm.
  destruct (vt_ok_inv v Hok) as (HL & HC & _ & _ & _ & _ & Hawm & Hrow & Hcol).
  unfold in_range, in_rangeb in Hr.
  assert (Hp : pend v = false) by (destruct (pend v); [cbn in Hr; discriminate | reflexivity]).
  rewrite move_rel_run by (assumption || lia).
  destruct ((d =? 0) && (r =? 0)) eqn:E.
  - split; [|exact Hok]. unfold effect_ok. refine (conj _ (conj _ (conj _ _))).
    + unfold frame_okb. rewrite Hm, margins_eqb_refl, modes_eqb_refl. lia.
    + unfold effect_cursorb. rewrite Hp. lia.
    + apply attrs_eqb_refl.
    + intros y x _ _. unfold effect_cellb. apply cell_eqb_refl.
  - split.
    + unfold effect_ok. refine (conj _ (conj _ (conj _ _))).
      * unfold frame_okb. vt_unfold. rewrite Hm, margins_eqb_refl, modes_eqb_refl. lia.
      * unfold effect_cursorb. vt_unfold. lia.
      * vt_unfold. apply attrs_eqb_refl.
      * intros y x _ _. unfold effect_cellb. vt_unfold. apply cell_eqb_refl.
    + apply vt_ok_intro; vt_unfold; try assumption; lia.
Qed.

(* ------------------------------------------------------------------ print *)
Definition same_frame (v v' : vt) : Prop :=
  v_lines v' = v_lines v /\ v_cols v' = v_cols v /\ v_mg v' = v_mg v /\ v_sgr v' = v_sgr v /\
  v_md v' = v_md v.
Lemma same_frame_refl : forall v, same_frame v v.
Proof. intros v. repeat split. Qed.
Lemma same_frame_trans : forall a b c, same_frame a b -> same_frame b c -> same_frame a c.
Proof.
  intros a b c (H1 & H2 & H3 & H4 & H5) (K1 & K2 & K3 & K4 & K5). repeat split; congruence.
Qed.

Lemma putc_run : forall b v, mg_full v -> md_awm (v_md v) = true -> pend v = false ->
  0 <= col v < v_cols v ->
  same_frame v (vt_putc b v) /\ row (vt_putc b v) = row v /\
  (if col v <? v_cols v - 1 then col (vt_putc b v) = col v + 1 /\ pend (vt_putc b v) = false
   else col (vt_putc b v) = col v /\ pend (vt_putc b v) = true) /\
  forall y x, v_grid (vt_putc b v) y x =
              if (y =? row v) && (x =? col v) then mkCell b (v_sgr v) else v_grid v y x.
Proof.
  intros b v Hm Hawm Hp Hc. unfold vt_putc. rewrite Hp. cbn [andb].
  vt_unfold.
  assert (Hmr : mg_right (v_mg v) = v_cols v - 1) by (rewrite Hm; reflexivity). rewrite Hmr.
  destruct (cu_col (v_cur v) <=? v_cols v - 1) eqn:E1; [|lia].
  destruct (cu_col (v_cur v) <? v_cols v - 1) eqn:E2; vt_unfold.
  - repeat split; try reflexivity.
  - repeat split; try reflexivity; try assumption.
Qed.

(* any glyph other than DEL occupies one cell (the code points a UTF-8 front end delivers included) *)
Lemma chars_run_g : forall bs v, mg_full v -> md_awm (v_md v) = true ->
  forallb (fun b => negb (b =? 127)) bs = true ->
  (pend v = false \/ bs = []) -> 0 <= col v -> col v + Z.of_nat (length bs) <= v_cols v ->
  same_frame v (vt_run (chars bs) v) /\ row (vt_run (chars bs) v) = row v /\
  (match bs with
   | [] => v_cur (vt_run (chars bs) v) = v_cur v
   | _ :: _ => if col v + Z.of_nat (length bs) <? v_cols v
               then col (vt_run (chars bs) v) = col v + Z.of_nat (length bs) /\ pend (vt_run (chars bs) v) = false
               else col (vt_run (chars bs) v) = v_cols v - 1 /\ pend (vt_run (chars bs) v) = true
   end) /\
  forall y x, v_grid (vt_run (chars bs) v) y x =
              if (y =? row v) && (col v <=? x) && (x <? col v + Z.of_nat (length bs))
              then mkCell (nth (Z.to_nat (x - col v)) bs 0) (v_sgr v) else v_grid v y x.
Proof.
  induction bs as [|b bs IH]; intros v Hm Hawm Hpr Hp Hc0 Hlen.
  - cbn [chars map vt_run fold_left length Z.of_nat]. repeat split.
    intros y x. destruct ((y =? row v) && (col v <=? x) && (x <? col v + 0)) eqn:E; [lia|reflexivity].
  - destruct Hp as [Hp|Hp]; [|discriminate].
    cbn [forallb] in Hpr. apply andb_true_iff in Hpr as [Hb Hpr].
    cbn [length] in Hlen. rewrite Nat2Z.inj_succ in Hlen.
    unfold chars. cbn [map]. rewrite vt_run_cons. fold (chars bs).
    assert (Hst : vt_step v (TChar b) = vt_putc b v).
    { cbn [vt_step]. destruct (b =? 127) eqn:E; [discriminate Hb|reflexivity]. }
    rewrite Hst.
    destruct (putc_run b v Hm Hawm Hp ltac:(lia)) as (Hf & Hrow & Hcol & Hg).
    set (v1 := vt_putc b v) in *.
    destruct Hf as (F1 & F2 & F3 & F4 & F5).
    assert (Hm1 : mg_full v1) by (unfold mg_full; rewrite F3, F1, F2; exact Hm).
    assert (Hawm1 : md_awm (v_md v1) = true) by (rewrite F5; exact Hawm).
    destruct (col v <? v_cols v - 1) eqn:Elt.
    + destruct Hcol as [Hcol Hpend].
      destruct (IH v1 Hm1 Hawm1 Hpr (or_introl Hpend) ltac:(lia) ltac:(rewrite Hcol, F2; lia))
        as (Gf & Grow & Gcur & Gg).
      split; [|split; [|split]].
      * eapply same_frame_trans; [|exact Gf]. repeat split; assumption.
      * congruence.
      * cbn [length]. rewrite Nat2Z.inj_succ.
        destruct bs as [|b' bs'].
        -- cbn [chars map vt_run fold_left] in *. cbn [length Z.of_nat].
           destruct (col v + Z.succ 0 <? v_cols v) eqn:E; [|lia]. split; [lia|assumption].
        -- rewrite F2 in Gcur. rewrite Hcol in Gcur.
           destruct (col v + 1 + Z.of_nat (length (b' :: bs')) <? v_cols v) eqn:E.
           ++ destruct (col v + Z.succ (Z.of_nat (length (b' :: bs'))) <? v_cols v) eqn:E'; [|lia].
              destruct Gcur as [G1 G2]. split; [lia|assumption].
           ++ destruct (col v + Z.succ (Z.of_nat (length (b' :: bs'))) <? v_cols v) eqn:E'; [lia|].
              exact Gcur.
      * intros y x. rewrite Gg, Hg, Hrow, Hcol, F4. cbn [length]. rewrite Nat2Z.inj_succ.
        destruct ((y =? row v) && (col v + 1 <=? x) && (x <? col v + 1 + Z.of_nat (length bs))) eqn:E1.
        -- destruct ((y =? row v) && (col v <=? x) && (x <? col v + Z.succ (Z.of_nat (length bs)))) eqn:E2; [|lia].
           f_equal. replace (Z.to_nat (x - col v)) with (S (Z.to_nat (x - (col v + 1)))) by lia.
           reflexivity.
        -- destruct ((y =? row v) && (x =? col v)) eqn:E3.
           ++ destruct ((y =? row v) && (col v <=? x) && (x <? col v + Z.succ (Z.of_nat (length bs)))) eqn:E2; [|lia].
              replace (x - col v) with 0 by lia. reflexivity.
           ++ destruct ((y =? row v) && (col v <=? x) && (x <? col v + Z.succ (Z.of_nat (length bs)))) eqn:E2; [lia|].
              reflexivity.
    + destruct Hcol as [Hcol Hpend].
      assert (Hbs : bs = []) by (destruct bs; [reflexivity | cbn [length] in Hlen; lia]).
      subst bs. cbn [chars map vt_run fold_left length]. change (Z.of_nat 1) with 1.
      split; [|split; [|split]].
      * repeat split; assumption.
      * assumption.
      * destruct (col v + 1 <? v_cols v) eqn:E; [lia|]. split; [lia|assumption].
      * intros y x. rewrite Hg.
        destruct ((y =? row v) && (x =? col v)) eqn:E3.
        -- destruct ((y =? row v) && (col v <=? x) && (x <? col v + 1)) eqn:E2; [|lia].
           replace (x - col v) with 0 by lia. reflexivity.
        -- destruct ((y =? row v) && (col v <=? x) && (x <? col v + 1)) eqn:E2; [lia|]. reflexivity.
Qed.

Lemma chars_run : forall bs v, mg_full v -> md_awm (v_md v) = true ->
  forallb printable bs = true ->
  (pend v = false \/ bs = []) -> 0 <= col v -> col v + Z.of_nat (length bs) <= v_cols v ->
  same_frame v (vt_run (chars bs) v) /\ row (vt_run (chars bs) v) = row v /\
  (match bs with
   | [] => v_cur (vt_run (chars bs) v) = v_cur v
   | _ :: _ => if col v + Z.of_nat (length bs) <? v_cols v
               then col (vt_run (chars bs) v) = col v + Z.of_nat (length bs) /\ pend (vt_run (chars bs) v) = false
               else col (vt_run (chars bs) v) = v_cols v - 1 /\ pend (vt_run (chars bs) v) = true
   end) /\
  forall y x, v_grid (vt_run (chars bs) v) y x =
              if (y =? row v) && (col v <=? x) && (x <? col v + Z.of_nat (length bs))
              then mkCell (nth (Z.to_nat (x - col v)) bs 0) (v_sgr v) else v_grid v y x.
Proof.
  intros bs v Hm Hawm Hpr. apply chars_run_g; try assumption.
  rewrite forallb_forall in *. intros b Hb. specialize (Hpr b Hb). unfold printable in Hpr. lia.
Qed.

Lemma cursor_eqb_intro : forall a r c p,
  cu_row a = r -> cu_col a = c -> cu_pend a = p -> cursor_eqb a (mkCursor r c p) = true.
Proof.
  intros a r c p H1 H2 H3. unfold cursor_eqb. cbn [cu_row cu_col cu_pend].
  rewrite H1, H2, H3, !Z.eqb_refl, eqb_reflx. reflexivity.
Qed.
Lemma frame_okb_intro : forall v v', vt_ok v -> same_frame v v' -> frame_okb v v' = true.
Proof.
  intros v v' Hok (F1 & F2 & F3 & F4 & F5). unfold frame_okb.
  rewrite F1, F2, F3, F5, (full_margins_of_ok v Hok), margins_eqb_refl, modes_eqb_refl. lia.
Qed.
Lemma vt_ok_frame : forall v v', vt_ok v -> same_frame v v' ->
  0 <= row v' < v_lines v -> 0 <= col v' < v_cols v -> vt_ok v'.
Proof.
  intros v v' Hok (F1 & F2 & F3 & F4 & F5) Hr Hc.
  destruct (vt_ok_inv v Hok) as (HL & HC & _ & _ & _ & _ & Hawm & _ & _).
  apply vt_ok_intro; rewrite ?F1, ?F2, ?F3, ?F5; try assumption; try lia.
  apply (full_margins_of_ok v Hok).
Qed.

Lemma print_ok : forall v bs, vt_ok v -> in_range (RPrint bs) v ->
  effect_ok (RPrint bs) true (match xt_print bs with [] => true | _ => false end) v
            (vt_run (xt_print bs) v) /\
  vt_ok (vt_run (xt_print bs) v).
Proof.
  intros v bs Hok Hr.
  pose proof (full_margins_of_ok v Hok) as Hm.
  destruct (vt_ok_inv v Hok) as (HL & HC & _ & _ & _ & _ & Hawm & Hrow & Hcol).
  unfold in_range, in_rangeb in Hr.
  apply andb_true_iff in Hr as [Hr Hlen]. apply andb_true_iff in Hr as [Hpr Hp].
  assert (Hp' : pend v = false \/ bs = []).
  { destruct (pend v); [right|left; reflexivity]. cbn in Hp. destruct bs; [reflexivity|discriminate]. }
  unfold xt_print.
  destruct (chars_run bs v Hm Hawm Hpr Hp' ltac:(lia) ltac:(lia)) as (Gf & Grow & Gcur & Gg).
  set (v' := vt_run (chars bs) v) in *. clearbody v'.
  assert (Hcur : effect_cursorb (RPrint bs) v v' = true /\ 0 <= col v' < v_cols v).
  { unfold effect_cursorb. destruct bs as [|b bs].
    - cbn [length Z.of_nat]. rewrite Gcur. cbn. rewrite cursor_eqb_refl. split; [reflexivity|].
      unfold col in *. rewrite Gcur. exact Hcol.
    - destruct (Z.of_nat (length (b :: bs)) =? 0) eqn:E0; [cbn [length] in E0; lia|].
      destruct (col v + Z.of_nat (length (b :: bs)) <? v_cols v) eqn:E1.
      + destruct Gcur as [G1 G2]. split; [apply cursor_eqb_intro; assumption | lia].
      + destruct Gcur as [G1 G2]. split; [apply cursor_eqb_intro; assumption | lia]. }
  destruct Hcur as [Hcur Hcol'].
  split.
  - unfold effect_ok. refine (conj _ (conj _ (conj _ _))).
    + apply frame_okb_intro; assumption.
    + exact Hcur.
    + destruct Gf as (_ & _ & _ & F4 & _). rewrite F4. apply attrs_eqb_refl.
    + intros y x _ _. unfold effect_cellb. rewrite Gg.
      destruct ((y =? row v) && (col v <=? x) && (x <? col v + Z.of_nat (length bs))); apply cell_eqb_refl.
  - apply (vt_ok_frame v v' Hok Gf); [rewrite Grow; exact Hrow | exact Hcol'].
Qed.

(* ------------------------------------------------------------------ clear *)
Lemma clear_ok : forall v, vt_ok v ->
  effect_ok RClear true false v (vt_run xt_clear v) /\ vt_ok (vt_run xt_clear v).
Proof.
  intros v Hok.
  assert (Hrun : vt_run xt_clear v = vt_ed v 2) by reflexivity.
  rewrite Hrun. unfold vt_ed.
  assert (Hf : same_frame v (set_grid v (fun y x =>
     if (if 2 =? 0 then (row v <? y) || ((y =? row v) && (col v <=? x))
         else if 2 =? 1 then (y <? row v) || ((y =? row v) && (x <=? col v)) else 2 =? 2)
     then blank v else v_grid v y x))) by (repeat split).
  destruct (vt_ok_inv v Hok) as (HL & HC & _ & _ & _ & _ & Hawm & Hrow & Hcol).
  split.
  - unfold effect_ok. refine (conj _ (conj _ (conj _ _))).
    + apply frame_okb_intro; assumption.
    + unfold effect_cursorb. vt_unfold. lia.
    + vt_unfold. apply attrs_eqb_refl.
    + intros y x _ _. unfold effect_cellb. vt_unfold. reflexivity.
  - apply (vt_ok_frame v _ Hok Hf); vt_unfold; assumption.
Qed.

(* ------------------------------------------------------------------ erasech *)
Lemma run_ech : forall v a, vt_run [csi_n a 88] v = vt_ech v (if a =? 0 then 1 else a).
Proof. reflexivity. Qed.
Lemma run_ech0 : forall v, vt_run [csi_0 88] v = vt_ech v 1.
Proof. reflexivity. Qed.

Lemma vcol_eqb_refl : forall c, vcol_eqb c c = true.
Proof. intros [| |n|r g b]; cbn; lia. Qed.

Lemma chars_app : forall a b, chars (a ++ b) = chars a ++ chars b.
Proof. intros a b. unfold chars. apply map_app. Qed.

(* the 64-space chunks are just [count] spaces *)
Lemma spaces_chunks_eq : forall fuel count, 0 <= count -> (Z.to_nat (count / 64) < fuel)%nat ->
  spaces_chunks fuel count = chars (repeat 32 (Z.to_nat count)).
Proof.
  induction fuel as [|f IH]; intros count H0 Hf; [lia|].
  cbn [spaces_chunks]. destruct (64 <? count) eqn:E; [|reflexivity].
  rewrite IH.
  - rewrite <- chars_app, <- repeat_app. f_equal. f_equal. lia.
  - lia.
  - assert (Hd : (count - 64) / 64 = count / 64 - 1).
    { replace (count - 64) with (count + (-1) * 64) by lia. rewrite Z.div_add by lia. lia. }
    assert (1 <= count / 64) by (apply Z.div_le_lower_bound; lia).
    rewrite Hd. lia.
Qed.

Lemma nth_repeat_lt : forall (A : Type) (a d : A) n k, (k < n)%nat -> nth k (repeat a n) d = a.
Proof.
  intros A a d n. induction n as [|n IH]; intros k Hk; [lia|].
  destruct k as [|k]; [reflexivity|]. cbn [repeat nth]. apply IH. lia.
Qed.
Lemma forallb_repeat : forall (A : Type) (f : A -> bool) a n, f a = true -> forallb f (repeat a n) = true.
Proof. intros A f a n H. induction n as [|n IH]; [reflexivity|]. cbn. rewrite H, IH. reflexivity. Qed.

(* the one situation in which the requested final position is missed (recorded finding):
   spaces written up to the right edge leave the cursor in the pending-wrap state on the
   last column, and the move back starts from there *)

Lemma erase_ok : forall v rv n me, vt_ok v -> in_range (RErase n me) v ->
  rv = a_reverse (v_sgr v) -> erase_trigger rv n me v = false ->
  effect_ok (RErase n me) true (match xt_erasech rv n me with [] => true | _ => false end) v
            (vt_run (xt_erasech rv n me) v) /\
  vt_ok (vt_run (xt_erasech rv n me) v).
Proof.
  intros v rv n me Hok Hr Hrv Htr.
  pose proof (full_margins_of_ok v Hok) as Hm.
  destruct (vt_ok_inv v Hok) as (HL & HC & _ & _ & _ & _ & Hawm & Hrow & Hcol).
  unfold in_range, in_rangeb in Hr. unfold xt_erasech.
  destruct (n <? 1) eqn:En.
  - (* nothing to do *)
    rewrite vt_run_nil. split; [|exact Hok].
    unfold effect_ok. refine (conj _ (conj _ (conj _ _))).
    + apply frame_okb_intro; [assumption | apply same_frame_refl].
    + unfold effect_cursorb. rewrite En. apply cursor_eqb_refl.
    + apply attrs_eqb_refl.
    + intros y x _ _. unfold effect_cellb.
      destruct ((y =? row v) && (col v <=? x) && (x <? col v + n)) eqn:E; [lia|apply cell_eqb_refl].
  - cbn [orb] in Hr.
    assert (Hp : pend v = false) by (destruct (pend v); [cbn in Hr; discriminate | reflexivity]).
    rewrite Hp in Hr. cbn [negb andb] in Hr.
    destruct rv; cbn [negb].
    + (* reverse video: spaces *)
      rewrite spaces_chunks_eq by lia. rewrite vt_run_app.
      assert (Hlen : Z.of_nat (length (repeat 32 (Z.to_nat n))) = n) by (rewrite repeat_length; lia).
      assert (Hpr : forallb printable (repeat 32 (Z.to_nat n)) = true) by (apply forallb_repeat; reflexivity).
      destruct (chars_run (repeat 32 (Z.to_nat n)) v Hm Hawm Hpr (or_introl Hp) ltac:(lia)
                          ltac:(rewrite Hlen; lia)) as (Gf & Grow & Gcur & Gg).
      rewrite Hlen in Gcur, Gg.
      destruct (repeat 32 (Z.to_nat n)) as [|b0 bs0] eqn:Erep.
      { cbn [length Z.of_nat] in Hlen. lia. }
      rewrite <- Erep in *. clear Erep b0 bs0.
      set (v1 := vt_run (chars (repeat 32 (Z.to_nat n))) v) in *. clearbody v1.
      assert (Hcells : forall v', same_frame v v' -> (forall y x, v_grid v' y x = v_grid v1 y x) ->
                forall y x, effect_cellb (RErase n me) v v' y x = true).
      { intros v' Hf' Hg' y x. unfold effect_cellb. rewrite Hg', Gg.
        destruct ((y =? row v) && (col v <=? x) && (x <? col v + n)) eqn:E; [|apply cell_eqb_refl].
        cbn [c_glyph c_attrs]. rewrite nth_repeat_lt by lia. rewrite vcol_eqb_refl. reflexivity. }
      assert (Hsgr1 : v_sgr v1 = v_sgr v) by (destruct Gf as (_ & _ & _ & F4 & _); exact F4).
      destruct me.
      * (* MNo: move back *)
        unfold erase_trigger in Htr. cbn [andb] in Htr.
        assert (Hm1 : mg_full v1).
        { destruct Gf as (F1 & F2 & F3 & _). unfold mg_full. rewrite F1, F2, F3. exact Hm. }
        assert (Hmv : vt_run (xt_move_rel 0 (- n)) v1 = set_cur v1 (mkCursor (row v) (col v) false)).
        { destruct Gf as (F1 & F2 & F3 & _).
          destruct (col v + n <? v_cols v) eqn:E1.
          - destruct Gcur as [G1 G2].
            rewrite move_rel_run by (rewrite ?F1, ?F2, ?Grow, ?G1; assumption || lia).
            assert (E0 : ((0 =? 0) && (- n =? 0)) = false) by lia. rewrite E0.
            f_equal. f_equal; lia.
          - (* at the right edge, only harmless when the erase began in column 0 *)
            destruct Gcur as [G1 G2].
            assert (Hc0 : col v = 0) by lia.
            rewrite move_rel_split. unfold move_v. cbn [Z.ltb Z.eqb Z.compare app].
            unfold move_h.
            assert (Hcub : forall k, 0 < k -> v_cols v - 1 - k <= 0 ->
                      vt_cub v1 k = set_cur v1 (mkCursor (row v) (col v) false)).
            { intros k Hk Hle. unfold vt_cub, goto_rc. rewrite Hm1. cbn [mg_left full_margins].
              rewrite G1, Grow. destruct (0 <=? v_cols v - 1) eqn:E2; [|lia].
              f_equal. f_equal. lia. }
            destruct (1 <? - n) eqn:A1; [lia|].
            destruct (- n =? 1) eqn:A2; [lia|].
            destruct (- n =? -1) eqn:A3.
            + rewrite run_cub0. apply Hcub; lia.
            + destruct (- n <? -1) eqn:A4; [|lia].
              rewrite run_cub. destruct (- - n =? 0) eqn:A5; [lia|]. apply Hcub; lia. }
        rewrite Hmv.
        assert (Hf2 : same_frame v (set_cur v1 (mkCursor (row v) (col v) false))).
        { destruct Gf as (F1 & F2 & F3 & F4 & F5). repeat split; assumption. }
        split.
        -- unfold effect_ok. refine (conj _ (conj _ (conj _ _))).
           ++ apply frame_okb_intro; assumption.
           ++ unfold effect_cursorb. rewrite En. vt_unfold. apply cursor_eqb_refl.
           ++ vt_unfold. rewrite Hsgr1. apply attrs_eqb_refl.
           ++ intros y x _ _. apply Hcells; [exact Hf2 | reflexivity].
        -- apply (vt_ok_frame v _ Hok Hf2); vt_unfold; assumption.
      * (* MYes: the cursor is already after the cells *)
        rewrite vt_run_nil.
        assert (E1 : (col v + n <? v_cols v) = true) by lia. rewrite E1 in Gcur. destruct Gcur as [G1 G2].
        split.
        -- unfold effect_ok. refine (conj _ (conj _ (conj _ _))).
           ++ apply frame_okb_intro; assumption.
           ++ unfold effect_cursorb. rewrite En. apply cursor_eqb_intro; assumption.
           ++ rewrite Hsgr1. apply attrs_eqb_refl.
           ++ intros y x _ _. apply Hcells; [exact Gf | reflexivity].
        -- apply (vt_ok_frame v _ Hok Gf); lia.
      * (* MMaybe *)
        rewrite vt_run_nil.
        assert (Hc1 : col v <= col v1 <= col v + n /\ col v1 < v_cols v).
        { destruct (col v + n <? v_cols v) eqn:E1; destruct Gcur as [G1 G2]; lia. }
        split.
        -- unfold effect_ok. refine (conj _ (conj _ (conj _ _))).
           ++ apply frame_okb_intro; assumption.
           ++ unfold effect_cursorb. rewrite En. lia.
           ++ rewrite Hsgr1. apply attrs_eqb_refl.
           ++ intros y x _ _. apply Hcells; [exact Gf | reflexivity].
        -- apply (vt_ok_frame v _ Hok Gf); lia.
    + (* normal video: ECH, then CUF when the cursor must end after the cells *)
      set (n' := if n =? 1 then 1 else if n =? 0 then 1 else n).
      assert (Hn' : n' = n) by (unfold n'; destruct (n =? 1) eqn:A; [lia|]; destruct (n =? 0) eqn:B; lia).
      assert (Hech : vt_run (if n =? 1 then [csi_0 88] else [csi_n n 88]) v = vt_ech v n).
      { destruct (n =? 1) eqn:A.
        - rewrite run_ech0. f_equal. lia.
        - rewrite run_ech. destruct (n =? 0) eqn:B; [lia|reflexivity]. }
      rewrite vt_run_app, Hech. clear n' Hn'.
      set (v1 := vt_ech v n).
      assert (Gf : same_frame v v1) by (repeat split).
      assert (Hcells : forall v', (forall y x, v_grid v' y x = v_grid v1 y x) ->
                forall y x, effect_cellb (RErase n me) v v' y x = true).
      { intros v' Hg' y x. unfold effect_cellb. rewrite Hg'. unfold v1, vt_ech. vt_unfold.
        destruct ((y =? cu_row (v_cur v)) && (cu_col (v_cur v) <=? x) && (x <? cu_col (v_cur v) + n)) eqn:E;
          [|apply cell_eqb_refl].
        unfold blank, blank_cell, erased, visbg. cbn [c_glyph c_attrs a_reverse a_bg].
        rewrite <- Hrv. rewrite vcol_eqb_refl. reflexivity. }
      destruct me.
      * rewrite vt_run_nil. split.
        -- unfold effect_ok. refine (conj _ (conj _ (conj _ _))).
           ++ apply frame_okb_intro; assumption.
           ++ unfold effect_cursorb. rewrite En. unfold v1, vt_ech. vt_unfold.
              apply cursor_eqb_intro; try reflexivity. exact Hp.
           ++ apply attrs_eqb_refl.
           ++ intros y x _ _. apply Hcells. reflexivity.
        -- apply (vt_ok_frame v _ Hok Gf); assumption.
      * assert (Hmv : vt_run (xt_move_rel 0 n) v1 = set_cur v1 (mkCursor (row v) (col v + n) false)).
        { rewrite move_rel_run; unfold v1, vt_ech; vt_unfold; try assumption; try lia.
          assert (E0 : ((0 =? 0) && (n =? 0)) = false) by lia. rewrite E0. f_equal. f_equal. lia. }
        rewrite Hmv.
        assert (Hf2 : same_frame v (set_cur v1 (mkCursor (row v) (col v + n) false))) by (repeat split).
        split.
        -- unfold effect_ok. refine (conj _ (conj _ (conj _ _))).
           ++ apply frame_okb_intro; assumption.
           ++ unfold effect_cursorb. rewrite En. vt_unfold. apply cursor_eqb_refl.
           ++ apply attrs_eqb_refl.
           ++ intros y x _ _. apply Hcells. reflexivity.
        -- apply (vt_ok_frame v _ Hok Hf2); vt_unfold; lia.
      * rewrite vt_run_nil. split.
        -- unfold effect_ok. refine (conj _ (conj _ (conj _ _))).
           ++ apply frame_okb_intro; assumption.
           ++ unfold effect_cursorb. rewrite En. unfold v1, vt_ech. vt_unfold. lia.
           ++ apply attrs_eqb_refl.
           ++ intros y x _ _. apply Hcells. reflexivity.
        -- apply (vt_ok_frame v _ Hok Gf); assumption.
Qed.

(* the recorded finding, on the model: reverse video, erase three cells up to the right edge
   of a 2x5 screen from column 2, cursor to stay: it ends in column 1 *)
Definition rv_edge_witness : vt :=
  set_sgr (goto_rc (vt_init 2 5) 0 2) (set_reverse default_attrs true).
Lemma erase_rv_edge_refuted :
  vt_ok rv_edge_witness /\ in_range (RErase 3 MNo) rv_edge_witness /\
  a_reverse (v_sgr rv_edge_witness) = true /\
  erase_trigger true 3 MNo rv_edge_witness = true /\
  ~ effect_ok (RErase 3 MNo) true false rv_edge_witness (vt_run (xt_erasech true 3 MNo) rv_edge_witness).
Proof.
  split; [vm_compute; reflexivity|]. split; [vm_compute; reflexivity|].
  split; [reflexivity|]. split; [vm_compute; reflexivity|].
  intros (_ & H2 & _). vm_compute in H2. discriminate.
Qed.

(* ------------------------------------------------------------------ scrollrect *)
(* margins *)
Lemma run_decstbm : forall v t b, 1 <= t -> t < b -> b <= v_lines v ->
  vt_run [csi [[Some t]; [Some b]] 114] v =
  goto_rc (set_mg v (mkMargins (t - 1) (b - 1) (mg_left (v_mg v)) (mg_right (v_mg v)))) 0 0.
Proof.
  intros v t b H1 H2 H3.
  change (vt_run [csi [[Some t]; [Some b]] 114] v) with (vt_decstbm v [[Some t]; [Some b]]).
  unfold vt_decstbm, arg1, pnth. cbn [nth pfirst].
  destruct (t =? 0) eqn:E1; [lia|]. destruct (b =? 0) eqn:E2; [lia|].
  destruct ((t <? b) && (b <=? v_lines v)) eqn:E3; [reflexivity|lia].
Qed.
Lemma run_decstbm_reset : forall v, 1 < v_lines v ->
  vt_run [csi_0 114] v =
  goto_rc (set_mg v (mkMargins 0 (v_lines v - 1) (mg_left (v_mg v)) (mg_right (v_mg v)))) 0 0.
Proof.
  intros v H.
  change (vt_run [csi_0 114] v) with (vt_decstbm v []).
  unfold vt_decstbm, arg1, pnth. cbn [nth pfirst].
  destruct ((1 <? v_lines v) && (v_lines v <=? v_lines v)) eqn:E3; [reflexivity|lia].
Qed.
Lemma run_decslrm : forall v l r, md_lrmm (v_md v) = true -> 1 <= l -> l < r -> r <= v_cols v ->
  vt_run [csi [[Some l]; [Some r]] 115] v =
  goto_rc (set_mg v (mkMargins (mg_top (v_mg v)) (mg_bot (v_mg v)) (l - 1) (r - 1))) 0 0.
Proof.
  intros v l r Hm H1 H2 H3.
  change (vt_run [csi [[Some l]; [Some r]] 115] v)
    with (if md_lrmm (v_md v) then vt_decslrm v [[Some l]; [Some r]] else set_savedcur v (v_cur v)).
  rewrite Hm. unfold vt_decslrm, arg1, pnth. cbn [nth pfirst].
  destruct (l =? 0) eqn:E1; [lia|]. destruct (r =? 0) eqn:E2; [lia|].
  destruct ((l <? r) && (r <=? v_cols v)) eqn:E3; [reflexivity|lia].
Qed.
Lemma run_decslrm_right : forall v r, md_lrmm (v_md v) = true -> 1 < r -> r <= v_cols v ->
  vt_run [csi [[None]; [Some r]] 115] v =
  goto_rc (set_mg v (mkMargins (mg_top (v_mg v)) (mg_bot (v_mg v)) 0 (r - 1))) 0 0.
Proof.
  intros v r Hm H2 H3.
  change (vt_run [csi [[None]; [Some r]] 115] v)
    with (if md_lrmm (v_md v) then vt_decslrm v [[None]; [Some r]] else set_savedcur v (v_cur v)).
  rewrite Hm. unfold vt_decslrm, arg1, pnth. cbn [nth pfirst].
  destruct (r =? 0) eqn:E2; [lia|].
  destruct ((1 <? r) && (r <=? v_cols v)) eqn:E3; [reflexivity|lia].
Qed.
Lemma run_decslrm_reset : forall v, md_lrmm (v_md v) = true -> 1 < v_cols v ->
  vt_run [csi_0 115] v =
  goto_rc (set_mg v (mkMargins (mg_top (v_mg v)) (mg_bot (v_mg v)) 0 (v_cols v - 1))) 0 0.
Proof.
  intros v Hm H.
  change (vt_run [csi_0 115] v)
    with (if md_lrmm (v_md v) then vt_decslrm v [] else set_savedcur v (v_cur v)).
  rewrite Hm. unfold vt_decslrm, arg1, pnth. cbn [nth pfirst].
  destruct ((1 <? v_cols v) && (v_cols v <=? v_cols v)) eqn:E3; [reflexivity|lia].
Qed.

(* insert / delete *)
Lemma run_dch : forall v a, vt_run [csi_n a 80] v = vt_dch v (if a =? 0 then 1 else a).
Proof. reflexivity. Qed.
Lemma run_dch0 : forall v, vt_run [csi_0 80] v = vt_dch v 1.
Proof. reflexivity. Qed.
Lemma run_ich : forall v a, vt_run [csi_n a 64] v = vt_ich v (if a =? 0 then 1 else a).
Proof. reflexivity. Qed.
Lemma run_ich0 : forall v, vt_run [csi_0 64] v = vt_ich v 1.
Proof. reflexivity. Qed.
Lemma run_dl : forall v a, vt_run [csi_n a 77] v = vt_dl v (if a =? 0 then 1 else a).
Proof. reflexivity. Qed.
Lemma run_dl0 : forall v, vt_run [csi_0 77] v = vt_dl v 1.
Proof. reflexivity. Qed.
Lemma run_il : forall v a, vt_run [csi_n a 76] v = vt_il v (if a =? 0 then 1 else a).
Proof. reflexivity. Qed.
Lemma run_il0 : forall v, vt_run [csi_0 76] v = vt_il v 1.
Proof. reflexivity. Qed.
Lemma run_decdc : forall v a, vt_run [csi_q (Some a) 39 126] v = vt_decdc v (if a =? 0 then 1 else a).
Proof. reflexivity. Qed.
Lemma run_decdc0 : forall v, vt_run [csi_q None 39 126] v = vt_decdc v 1.
Proof. reflexivity. Qed.
Lemma run_decic : forall v a, vt_run [csi_q (Some a) 39 125] v = vt_decic v (if a =? 0 then 1 else a).
Proof. reflexivity. Qed.
Lemma run_decic0 : forall v, vt_run [csi_q None 39 125] v = vt_decic v 1.
Proof. reflexivity. Qed.

(* the vertical and the horizontal part inside margins T..B x L..R, cursor on (T, L) *)
Definition vert_tokens (d : Z) : list token :=
  if 1 <? d then [csi_n d 77] else if d =? 1 then [csi_0 77]
  else if d =? -1 then [csi_0 76] else if d <? -1 then [csi_n (- d) 76] else [].
Definition horiz_tokens (r : Z) : list token :=
  (if 1 <? r then [csi_q (Some r) 39 126] else if r =? 1 then [csi_q None 39 126]
   else if r =? -1 then [csi_q None 39 125] else []) ++
  (if r <? -1 then [csi_q (Some (- r)) 39 125] else []).

Definition in_region (T B L R y x : Z) : bool := (T <=? y) && (y <=? B) && (L <=? x) && (x <=? R).

Lemma vert_run : forall w d T B L R,
  v_mg w = mkMargins T B L R -> row w = T -> L <= col w <= R -> T <= B -> Z.abs d <= B - T ->
  same_frame w (vt_run (vert_tokens d) w) /\
  row (vt_run (vert_tokens d) w) = row w /\ col (vt_run (vert_tokens d) w) = col w /\
  forall y x, v_grid (vt_run (vert_tokens d) w) y x =
              if in_region T B L R y x
              then (if (T <=? y + d) && (y + d <=? B) then v_grid w (y + d) x else blank w)
              else v_grid w y x.
Proof.
  intros w d T B L R Hm Hrow Hcol HTB Hd.
  assert (Htb : in_tb w (row w) = true) by (unfold in_tb; rewrite Hm, Hrow; cbn [mg_top mg_bot]; lia).
  assert (Hlr : in_lr w (col w) = true) by (unfold in_lr; rewrite Hm; cbn [mg_left mg_right]; lia).
  assert (Hup : forall n, 0 < n -> n = d ->
     same_frame w (vt_dl w n) /\ row (vt_dl w n) = row w /\ col (vt_dl w n) = col w /\
     forall y x, v_grid (vt_dl w n) y x =
        if in_region T B L R y x
        then (if (T <=? y + d) && (y + d <=? B) then v_grid w (y + d) x else blank w) else v_grid w y x).
  { intros n Hn Hnd. unfold vt_dl. rewrite Htb, Hlr. cbn [andb]. vt_unfold.
    split; [repeat split|]. split; [reflexivity|]. split; [reflexivity|].
    intros y x. unfold scroll_up_from, in_region, in_lr. rewrite Hm. cbn [mg_bot mg_left mg_right].
    unfold row in Hrow. rewrite Hrow.
    destruct ((T <=? y) && (y <=? B) && ((L <=? x) && (x <=? R))) eqn:E1.
    - destruct ((T <=? y) && (y <=? B) && (L <=? x) && (x <=? R)) eqn:E2; [|lia].
      destruct (y + n <=? B) eqn:E3.
      + destruct ((T <=? y + d) && (y + d <=? B)) eqn:E4; [|lia]. subst n. reflexivity.
      + destruct ((T <=? y + d) && (y + d <=? B)) eqn:E4; [lia|]. reflexivity.
    - destruct ((T <=? y) && (y <=? B) && (L <=? x) && (x <=? R)) eqn:E2; [lia|]. reflexivity. }
  assert (Hdn : forall n, 0 < n -> n = - d ->
     same_frame w (vt_il w n) /\ row (vt_il w n) = row w /\ col (vt_il w n) = col w /\
     forall y x, v_grid (vt_il w n) y x =
        if in_region T B L R y x
        then (if (T <=? y + d) && (y + d <=? B) then v_grid w (y + d) x else blank w) else v_grid w y x).
  { intros n Hn Hnd. unfold vt_il. rewrite Htb, Hlr. cbn [andb]. vt_unfold.
    split; [repeat split|]. split; [reflexivity|]. split; [reflexivity|].
    intros y x. unfold scroll_down_from, in_region, in_lr. rewrite Hm. cbn [mg_bot mg_left mg_right].
    unfold row in Hrow. rewrite Hrow.
    destruct ((T <=? y) && (y <=? B) && ((L <=? x) && (x <=? R))) eqn:E1.
    - destruct ((T <=? y) && (y <=? B) && (L <=? x) && (x <=? R)) eqn:E2; [|lia].
      destruct (y <? T + n) eqn:E3.
      + destruct ((T <=? y + d) && (y + d <=? B)) eqn:E4; [lia|]. reflexivity.
      + destruct ((T <=? y + d) && (y + d <=? B)) eqn:E4; [|lia].
        replace (y - n) with (y + d) by lia. reflexivity.
    - destruct ((T <=? y) && (y <=? B) && (L <=? x) && (x <=? R)) eqn:E2; [lia|]. reflexivity. }
  unfold vert_tokens.
  destruct (1 <? d) eqn:E1.
  - rewrite run_dl. destruct (d =? 0) eqn:E0; [lia|]. apply Hup; lia.
  - destruct (d =? 1) eqn:E2.
    + rewrite run_dl0. apply Hup; lia.
    + destruct (d =? -1) eqn:E3.
      * rewrite run_il0. apply Hdn; lia.
      * destruct (d <? -1) eqn:E4.
        -- rewrite run_il. destruct (- d =? 0) eqn:E0; [lia|]. apply Hdn; lia.
        -- rewrite vt_run_nil. split; [apply same_frame_refl|]. split; [reflexivity|]. split; [reflexivity|].
           intros y x. assert (d = 0) by lia. subst d. rewrite Z.add_0_r.
           unfold in_region.
           destruct ((T <=? y) && (y <=? B) && (L <=? x) && (x <=? R)) eqn:E5; [|reflexivity].
           destruct ((T <=? y) && (y <=? B)) eqn:E6; [reflexivity|lia].
Qed.

Lemma horiz_run : forall w r T B L R,
  v_mg w = mkMargins T B L R -> T <= row w <= B -> col w = L -> L <= R -> Z.abs r <= R - L ->
  same_frame w (vt_run (horiz_tokens r) w) /\
  row (vt_run (horiz_tokens r) w) = row w /\ col (vt_run (horiz_tokens r) w) = col w /\
  forall y x, v_grid (vt_run (horiz_tokens r) w) y x =
              if in_region T B L R y x
              then (if (L <=? x + r) && (x + r <=? R) then v_grid w y (x + r) else blank w)
              else v_grid w y x.
Proof.
  intros w r T B L R Hm Hrow Hcol HLR Hr.
  assert (Htb : in_tb w (row w) = true) by (unfold in_tb; rewrite Hm; cbn [mg_top mg_bot]; lia).
  assert (Hlr : in_lr w (col w) = true) by (unfold in_lr; rewrite Hm, Hcol; cbn [mg_left mg_right]; lia).
  assert (Hdel : forall n, 0 < n -> n = r ->
     same_frame w (vt_decdc w n) /\ row (vt_decdc w n) = row w /\ col (vt_decdc w n) = col w /\
     forall y x, v_grid (vt_decdc w n) y x =
        if in_region T B L R y x
        then (if (L <=? x + r) && (x + r <=? R) then v_grid w y (x + r) else blank w) else v_grid w y x).
  { intros n Hn Hnd. unfold vt_decdc. rewrite Htb, Hlr. cbn [andb]. vt_unfold.
    split; [repeat split|]. split; [reflexivity|]. split; [reflexivity|].
    intros y x. unfold in_region, in_tb. rewrite Hm. cbn [mg_top mg_bot mg_left mg_right].
    unfold col in Hcol. rewrite Hcol.
    destruct ((T <=? y) && (y <=? B) && (L <=? x) && (x <=? R)) eqn:E1.
    - destruct (x + n <=? R) eqn:E3.
      + destruct ((L <=? x + r) && (x + r <=? R)) eqn:E4; [|lia]. subst n. reflexivity.
      + destruct ((L <=? x + r) && (x + r <=? R)) eqn:E4; [lia|]. reflexivity.
    - reflexivity. }
  assert (Hins : forall n, 0 < n -> n = - r ->
     same_frame w (vt_decic w n) /\ row (vt_decic w n) = row w /\ col (vt_decic w n) = col w /\
     forall y x, v_grid (vt_decic w n) y x =
        if in_region T B L R y x
        then (if (L <=? x + r) && (x + r <=? R) then v_grid w y (x + r) else blank w) else v_grid w y x).
  { intros n Hn Hnd. unfold vt_decic. rewrite Htb, Hlr. cbn [andb]. vt_unfold.
    split; [repeat split|]. split; [reflexivity|]. split; [reflexivity|].
    intros y x. unfold in_region, in_tb. rewrite Hm. cbn [mg_top mg_bot mg_left mg_right].
    unfold col in Hcol. rewrite Hcol.
    destruct ((T <=? y) && (y <=? B) && (L <=? x) && (x <=? R)) eqn:E1.
    - destruct (x <? L + n) eqn:E3.
      + destruct ((L <=? x + r) && (x + r <=? R)) eqn:E4; [lia|]. reflexivity.
      + destruct ((L <=? x + r) && (x + r <=? R)) eqn:E4; [|lia].
        replace (x - n) with (x + r) by lia. reflexivity.
    - reflexivity. }
  unfold horiz_tokens.
  destruct (1 <? r) eqn:E1.
  - destruct (r <? -1) eqn:E5; [lia|]. rewrite app_nil_r.
    rewrite run_decdc. destruct (r =? 0) eqn:E0; [lia|]. apply Hdel; lia.
  - destruct (r =? 1) eqn:E2.
    + destruct (r <? -1) eqn:E5; [lia|]. rewrite app_nil_r. rewrite run_decdc0. apply Hdel; lia.
    + destruct (r =? -1) eqn:E3.
      * destruct (r <? -1) eqn:E5; [lia|]. rewrite app_nil_r. rewrite run_decic0. apply Hins; lia.
      * destruct (r <? -1) eqn:E4.
        -- cbn [app]. rewrite run_decic. destruct (- r =? 0) eqn:E0; [lia|]. apply Hins; lia.
        -- cbn [app]. rewrite vt_run_nil. split; [apply same_frame_refl|]. split; [reflexivity|]. split; [reflexivity|].
           intros y x. assert (r = 0) by lia. subst r. rewrite Z.add_0_r.
           unfold in_region.
           destruct ((T <=? y) && (y <=? B) && (L <=? x) && (x <=? R)) eqn:E5; [|reflexivity].
           destruct ((L <=? x) && (x <=? R)) eqn:E6; [reflexivity|lia].
Qed.

(* strategy 1: insert / delete characters line by line *)
Lemma insdel_run : forall w r L R,
  mg_right (v_mg w) = R -> mg_left (v_mg w) <= L -> col w = L -> L <= R -> Z.abs r <= R - L ->
  same_frame w (vt_run (insdel_chars r) w) /\
  row (vt_run (insdel_chars r) w) = row w /\ col (vt_run (insdel_chars r) w) = col w /\
  forall y x, v_grid (vt_run (insdel_chars r) w) y x =
              if (y =? row w) && (L <=? x) && (x <=? R)
              then (if (L <=? x + r) && (x + r <=? R) then v_grid w y (x + r) else blank w)
              else v_grid w y x.
Proof.
  intros w r L R HR HL Hcol HLR Hr.
  assert (Hlr : in_lr w (col w) = true) by (unfold in_lr; rewrite HR, Hcol; lia).
  assert (Hdel : forall n, 0 < n -> n = r ->
     same_frame w (vt_dch w n) /\ row (vt_dch w n) = row w /\ col (vt_dch w n) = col w /\
     forall y x, v_grid (vt_dch w n) y x =
        if (y =? row w) && (L <=? x) && (x <=? R)
        then (if (L <=? x + r) && (x + r <=? R) then v_grid w y (x + r) else blank w) else v_grid w y x).
  { intros n Hn Hnd. unfold vt_dch. rewrite Hlr. vt_unfold.
    split; [repeat split|]. split; [reflexivity|]. split; [reflexivity|].
    intros y x. rewrite HR. unfold col in Hcol. rewrite Hcol.
    destruct ((y =? cu_row (v_cur w)) && (L <=? x) && (x <=? R)) eqn:E1; [|reflexivity].
    destruct (x + n <=? R) eqn:E3.
    - destruct ((L <=? x + r) && (x + r <=? R)) eqn:E4; [|lia]. subst n. reflexivity.
    - destruct ((L <=? x + r) && (x + r <=? R)) eqn:E4; [lia|]. reflexivity. }
  assert (Hins : forall n, 0 < n -> n = - r ->
     same_frame w (vt_ich w n) /\ row (vt_ich w n) = row w /\ col (vt_ich w n) = col w /\
     forall y x, v_grid (vt_ich w n) y x =
        if (y =? row w) && (L <=? x) && (x <=? R)
        then (if (L <=? x + r) && (x + r <=? R) then v_grid w y (x + r) else blank w) else v_grid w y x).
  { intros n Hn Hnd. unfold vt_ich. rewrite Hlr. vt_unfold.
    split; [repeat split|]. split; [reflexivity|]. split; [reflexivity|].
    intros y x. rewrite HR. unfold col in Hcol. rewrite Hcol.
    destruct ((y =? cu_row (v_cur w)) && (L <=? x) && (x <=? R)) eqn:E1; [|reflexivity].
    destruct (x <? L + n) eqn:E3.
    - destruct ((L <=? x + r) && (x + r <=? R)) eqn:E4; [lia|]. reflexivity.
    - destruct ((L <=? x + r) && (x + r <=? R)) eqn:E4; [|lia].
      replace (x - n) with (x + r) by lia. reflexivity. }
  unfold insdel_chars.
  destruct (1 <? r) eqn:E1.
  - rewrite run_dch. destruct (r =? 0) eqn:E0; [lia|]. apply Hdel; lia.
  - destruct (r =? 1) eqn:E2.
    + rewrite run_dch0. apply Hdel; lia.
    + destruct (r =? -1) eqn:E3.
      * rewrite run_ich0. apply Hins; lia.
      * destruct (r <? -1) eqn:E4.
        -- rewrite run_ich. destruct (- r =? 0) eqn:E0; [lia|]. apply Hins; lia.
        -- rewrite vt_run_nil. split; [apply same_frame_refl|]. split; [reflexivity|]. split; [reflexivity|].
           intros y x. assert (r = 0) by lia. subst r. rewrite Z.add_0_r.
           destruct ((y =? row w) && (L <=? x) && (x <=? R)) eqn:E5; [|reflexivity].
           destruct ((L <=? x) && (x <=? R)) eqn:E6; [reflexivity|lia].
Qed.

Lemma blank_frame : forall w w', same_frame w w' -> blank w' = blank w.
Proof. intros w w' (_ & _ & _ & F4 & _). unfold blank. rewrite F4. reflexivity. Qed.

Lemma scroll_lines_run : forall n line w r L R,
  mg_right (v_mg w) = R -> mg_left (v_mg w) <= L -> 0 <= L -> L <= R -> R < v_cols w ->
  Z.abs r <= R - L -> 0 <= line -> line + Z.of_nat n <= v_lines w ->
  0 <= row w < v_lines w -> 0 <= col w < v_cols w ->
  same_frame w (vt_run (scroll_lines n line L r) w) /\
  0 <= row (vt_run (scroll_lines n line L r) w) < v_lines w /\
  0 <= col (vt_run (scroll_lines n line L r) w) < v_cols w /\
  forall y x, v_grid (vt_run (scroll_lines n line L r) w) y x =
              if (line <=? y) && (y <? line + Z.of_nat n) && (L <=? x) && (x <=? R)
              then (if (L <=? x + r) && (x + r <=? R) then v_grid w y (x + r) else blank w)
              else v_grid w y x.
Proof.
  induction n as [|n IH]; intros line w r L R HR HL HL0 HLR HRc Hr Hline Hn Hrow Hcol.
  - cbn [scroll_lines]. rewrite vt_run_nil. split; [apply same_frame_refl|]. split; [assumption|].
    split; [assumption|]. intros y x.
    destruct ((line <=? y) && (y <? line + Z.of_nat 0) && (L <=? x) && (x <=? R)) eqn:E; [lia|reflexivity].
  - rewrite Nat2Z.inj_succ in *. cbn [scroll_lines]. rewrite !vt_run_app.
    rewrite goto_abs_pos by lia.
    set (w1 := set_cur w (mkCursor line L false)).
    assert (F1 : same_frame w w1) by (repeat split).
    destruct (insdel_run w1 r L R) as (F2 & Hrow2 & Hcol2 & Hg2);
      try (unfold w1; vt_unfold; assumption || lia).
    set (w2 := vt_run (insdel_chars r) w1) in *. clearbody w2.
    destruct F2 as (A1 & A2 & A3 & A4 & A5).
    unfold w1 in A1, A2, A3, A4, A5, Hrow2, Hcol2, Hg2. vt_unfold.
    destruct (IH (line + 1) w2 r L R) as (F3 & Hrow3 & Hcol3 & Hg3);
      try (rewrite ?A1, ?A2, ?A3; assumption || lia).
    set (w3 := vt_run (scroll_lines n (line + 1) L r) w2) in *. clearbody w3.
    split.
    { eapply same_frame_trans; [|exact F3]. repeat split; assumption. }
    split; [rewrite A1 in Hrow3; exact Hrow3|]. split; [rewrite A2 in Hcol3; exact Hcol3|].
    intros y x. rewrite Hg3.
    assert (Hb : blank w2 = blank w) by (unfold blank; rewrite A4; reflexivity).
    rewrite Hb.
    destruct ((line + 1 <=? y) && (y <? line + 1 + Z.of_nat n) && (L <=? x) && (x <=? R)) eqn:E1.
    + destruct ((line <=? y) && (y <? line + Z.succ (Z.of_nat n)) && (L <=? x) && (x <=? R)) eqn:E2; [|lia].
      destruct ((L <=? x + r) && (x + r <=? R)) eqn:E3; [|reflexivity].
      rewrite Hg2. destruct ((y =? line) && (L <=? x + r) && (x + r <=? R)) eqn:E4; [lia|reflexivity].
    + rewrite Hg2.
      destruct ((y =? line) && (L <=? x) && (x <=? R)) eqn:E4.
      * destruct ((line <=? y) && (y <? line + Z.succ (Z.of_nat n)) && (L <=? x) && (x <=? R)) eqn:E2; [|lia].
        unfold blank at 1. reflexivity.
      * destruct ((line <=? y) && (y <? line + Z.succ (Z.of_nat n)) && (L <=? x) && (x <=? R)) eqn:E2; [lia|].
        reflexivity.
Qed.

(* from the cell-wise description of the screen after a scroll to the request's meaning *)
Lemma scroll_effect : forall v v' r d rt silent, vt_ok v ->
  same_frame v v' -> 0 <= row v' < v_lines v -> 0 <= col v' < v_cols v ->
  (forall y x, v_grid v' y x =
               if in_rect r y x
               then (if in_rect r (y + d) (x + rt) then v_grid v (y + d) (x + rt) else blank v)
               else v_grid v y x) ->
  effect_ok (RScroll r d rt) true silent v v' /\ vt_ok v'.
Proof.
  intros v v' r d rt silent Hok Hf Hrow Hcol Hg. split.
  - unfold effect_ok. refine (conj _ (conj _ (conj _ _))).
    + apply frame_okb_intro; assumption.
    + unfold effect_cursorb. lia.
    + destruct Hf as (_ & _ & _ & F4 & _). rewrite F4. apply attrs_eqb_refl.
    + intros y x _ _. unfold effect_cellb. rewrite Hg.
      destruct (in_rect r y x); [|apply cell_eqb_refl].
      destruct (in_rect r (y + d) (x + rt)); [apply cell_eqb_refl|reflexivity].
  - apply (vt_ok_frame v v' Hok Hf); assumption.
Qed.

(* the exact cell-wise description: the rectangle's cells are shifted by (d, rt), the vacated ones are
   blank in the current rendition's background, nothing else changes *)
Definition scroll_shift (v v' : vt) (r : rect) (d rt : Z) : Prop :=
  same_frame v v' /\ 0 <= row v' < v_lines v /\ 0 <= col v' < v_cols v /\
  (forall y x, v_grid v' y x =
               if in_rect r y x
               then (if in_rect r (y + d) (x + rt) then v_grid v (y + d) (x + rt) else blank v)
               else v_grid v y x).

Definition scroll_res (ret : bool) (ts : list token) (v : vt) (r : rect) (d rt : Z) : Prop :=
  if ret then scroll_shift v (vt_run ts v) r d rt else ts = [].

Lemma scroll_shift_intro : forall v v' r d rt, vt_ok v ->
  same_frame v v' -> 0 <= row v' < v_lines v -> 0 <= col v' < v_cols v ->
  (forall y x, v_grid v' y x =
               if in_rect r y x
               then (if in_rect r (y + d) (x + rt) then v_grid v (y + d) (x + rt) else blank v)
               else v_grid v y x) ->
  scroll_shift v v' r d rt.
Proof. intros v v' r d rt _ H1 H2 H3 H4. exact (conj H1 (conj H2 (conj H3 H4))). Qed.

Lemma scroll_exact : forall v slrm r d rt, vt_ok v -> in_range (RScroll r d rt) v ->
  (slrm = true -> md_lrmm (v_md v) = true) ->
  scroll_res (fst (xt_scrollrect slrm (v_cols v) r d rt)) (snd (xt_scrollrect slrm (v_cols v) r d rt)) v r d rt.
Proof.
  intros v slrm r d rt Hok Hr Hlrmm.
  pose proof (full_margins_of_ok v Hok) as Hm.
  destruct (vt_ok_inv v Hok) as (HL & HC & Mt & Mb & Ml & Mr & Hawm & Hrow & Hcol).
  unfold in_range, in_rangeb in Hr. unfold r_bottom, r_right in Hr.
  destruct r as [top left lines cols]. cbn [r_top r_left r_lines r_cols] in Hr.
  unfold xt_scrollrect. cbn [r_top r_left r_lines r_cols r_right r_bottom].
  unfold r_right, r_bottom. cbn [r_top r_left r_lines r_cols].
  destruct ((d =? 0) && (rt =? 0)) eqn:E0.
  { (* nothing to move *)
    cbn [fst snd scroll_res]. rewrite vt_run_nil.
    apply scroll_shift_intro; try assumption; [apply same_frame_refl|].
    intros y x. assert (d = 0) by lia. assert (rt = 0) by lia. subst d rt. rewrite !Z.add_0_r.
    destruct (in_rect (mkRect top left lines cols) y x); reflexivity. }
  destruct (((slrm && (lines =? 1)) || (left + cols =? v_cols v)) && (d =? 0)) eqn:E1.
  { (* strategy 1 *)
    cbn [fst snd scroll_res]. assert (d = 0) by lia. subst d.
    destruct (left + cols <? v_cols v) eqn:E2.
    - (* with a right margin *)
      assert (Hs : slrm = true) by (destruct slrm; [reflexivity|lia]).
      specialize (Hlrmm Hs).
      rewrite !vt_run_app.
      rewrite run_decslrm_right by (assumption || lia).
      set (w1 := goto_rc (set_mg v (mkMargins (mg_top (v_mg v)) (mg_bot (v_mg v)) 0 (left + cols - 1))) 0 0).
      assert (F1 : same_frame v w1 -> True) by trivial.
      destruct (scroll_lines_run (Z.to_nat lines) top w1 rt left (left + cols - 1))
        as (F2 & Hrow2 & Hcol2 & Hg2); try (unfold w1; vt_unfold; cbn [mg_left mg_right]; lia).
      set (w2 := vt_run (scroll_lines (Z.to_nat lines) top left rt) w1) in *. clearbody w2.
      destruct F2 as (A1 & A2 & A3 & A4 & A5). unfold w1 in A1, A2, A3, A4, A5, Hrow2, Hcol2, Hg2. vt_unfold.
      rewrite run_decslrm_reset by (rewrite ?A5, ?A2; assumption || lia).
      apply scroll_shift_intro; try assumption.
      + unfold same_frame. vt_unfold. cbn [mg_top mg_bot mg_left mg_right].
        refine (conj _ (conj _ (conj _ (conj _ _)))); try congruence.
        rewrite A3. cbn [mg_top mg_bot]. rewrite Hm. unfold full_margins. cbn [mg_top mg_bot].
        f_equal; congruence.
      + vt_unfold. lia.
      + vt_unfold. lia.
      + intros y x. vt_unfold. rewrite Hg2. unfold in_rect, r_bottom, r_right. cbn [r_top r_left r_lines r_cols].
        rewrite Z.add_0_r.
        destruct ((top <=? y) && (y <? top + Z.of_nat (Z.to_nat lines)) && (left <=? x) && (x <=? left + cols - 1)) eqn:B1.
        * destruct ((top <=? y) && (y <? top + lines) && (left <=? x) && (x <? left + cols)) eqn:B2; [|lia].
          destruct ((left <=? x + rt) && (x + rt <=? left + cols - 1)) eqn:B3.
          -- destruct ((top <=? y) && (y <? top + lines) && (left <=? x + rt) && (x + rt <? left + cols)) eqn:B4; [|lia].
             reflexivity.
          -- destruct ((top <=? y) && (y <? top + lines) && (left <=? x + rt) && (x + rt <? left + cols)) eqn:B4; [lia|].
             reflexivity.
        * destruct ((top <=? y) && (y <? top + lines) && (left <=? x) && (x <? left + cols)) eqn:B2; [lia|].
          reflexivity.
    - (* up to the right edge of the screen *)
      cbn [app]. rewrite app_nil_r.
      destruct (scroll_lines_run (Z.to_nat lines) top v rt left (v_cols v - 1))
        as (F2 & Hrow2 & Hcol2 & Hg2); try (assumption || lia).
      apply scroll_shift_intro; try assumption.
      intros y x. rewrite Hg2. unfold in_rect, r_bottom, r_right. cbn [r_top r_left r_lines r_cols].
      rewrite Z.add_0_r.
      destruct ((top <=? y) && (y <? top + Z.of_nat (Z.to_nat lines)) && (left <=? x) && (x <=? v_cols v - 1)) eqn:B1.
      * destruct ((top <=? y) && (y <? top + lines) && (left <=? x) && (x <? left + cols)) eqn:B2; [|lia].
        destruct ((left <=? x + rt) && (x + rt <=? v_cols v - 1)) eqn:B3.
        -- destruct ((top <=? y) && (y <? top + lines) && (left <=? x + rt) && (x + rt <? left + cols)) eqn:B4; [|lia].
           reflexivity.
        -- destruct ((top <=? y) && (y <? top + lines) && (left <=? x + rt) && (x + rt <? left + cols)) eqn:B4; [lia|].
           reflexivity.
      * destruct ((top <=? y) && (y <? top + lines) && (left <=? x) && (x <? left + cols)) eqn:B2; [lia|].
        reflexivity. }
  destruct (slrm || ((left =? 0) && (cols =? v_cols v) && (rt =? 0))) eqn:E3.
  2:{ (* cannot be done: nothing written *)
      cbn [fst snd scroll_res]. reflexivity. }
  destruct (((0 <? left) || (left + cols <? v_cols v)) && (cols <? 2)) eqn:E4.
  { cbn [fst snd scroll_res]. reflexivity. }
  (* strategy 2: both pairs of margins *)
  cbn [fst snd scroll_res].
  assert (Hlines2 : 2 <= lines) by lia.
  change (if 1 <? d then [csi_n d 77] else if d =? 1 then [csi_0 77]
          else if d =? -1 then [csi_0 76] else if d <? -1 then [csi_n (- d) 76] else [])
    with (vert_tokens d).
  match goal with
  | |- context [?h1 ++ (?h2 ++ [csi_0 114] ++ ?s)] =>
      replace (h1 ++ (h2 ++ [csi_0 114] ++ s)) with (horiz_tokens rt ++ [csi_0 114] ++ s)
        by (unfold horiz_tokens; rewrite <- app_assoc; reflexivity)
  end.
  rewrite !vt_run_app.
  rewrite run_decstbm by lia.
  set (w1 := goto_rc (set_mg v (mkMargins (top + 1 - 1) (top + lines - 1) (mg_left (v_mg v)) (mg_right (v_mg v)))) 0 0).
  destruct ((0 <? left) || (left + cols <? v_cols v)) eqn:Elr.
  - (* left/right margins needed *)
    assert (Hs : slrm = true) by (destruct slrm; [reflexivity|lia]).
    specialize (Hlrmm Hs).
    rewrite run_decslrm by (unfold w1; vt_unfold; assumption || lia).
    set (w2 := goto_rc (set_mg w1 (mkMargins (mg_top (v_mg w1)) (mg_bot (v_mg w1)) (left + 1 - 1) (left + cols - 1))) 0 0).
    rewrite goto_abs_pos by (unfold w2, w1; vt_unfold; lia).
    set (w3 := set_cur w2 (mkCursor top left false)).
    destruct (vert_run w3 d top (top + lines - 1) left (left + cols - 1))
      as (F4 & Hrow4 & Hcol4 & Hg4);
      try (unfold w3, w2, w1; vt_unfold; cbn [mg_top mg_bot]; (reflexivity || lia)).
    { unfold w3, w2, w1. vt_unfold. cbn [mg_top mg_bot]. f_equal; lia. }
    set (w4 := vt_run (vert_tokens d) w3) in *. clearbody w4.
    destruct F4 as (A1 & A2 & A3 & A4 & A5).
    unfold w3, w2, w1 in A1, A2, A3, A4, A5, Hrow4, Hcol4, Hg4. vt_unfold. cbn [mg_top mg_bot] in A3.
    destruct (horiz_run w4 rt top (top + lines - 1) left (left + cols - 1))
      as (F5 & Hrow5 & Hcol5 & Hg5); try (unfold row, col; rewrite ?Hrow4, ?Hcol4; lia).
    { rewrite A3. f_equal; lia. }
    set (w5 := vt_run (horiz_tokens rt) w4) in *. clearbody w5.
    destruct F5 as (B1 & B2 & B3 & B4 & B5).
    rewrite run_decstbm_reset by (rewrite B1, A1; lia).
    rewrite run_decslrm_reset by (vt_unfold; rewrite ?B5, ?A5, ?B2, ?A2; assumption || lia).
    apply scroll_shift_intro; try assumption.
    + unfold same_frame. vt_unfold. cbn [mg_top mg_bot mg_left mg_right].
      refine (conj _ (conj _ (conj _ (conj _ _)))); try congruence.
      rewrite Hm. unfold full_margins. f_equal; congruence.
    + vt_unfold. lia.
    + vt_unfold. lia.
    + intros y x. vt_unfold. rewrite Hg5, !Hg4.
      assert (Hb : blank w4 = blank v) by (unfold blank; rewrite A4; reflexivity).
      rewrite Hb. unfold blank at 1 2 3.
      unfold in_region, in_rect, r_bottom, r_right. cbn [r_top r_left r_lines r_cols].
      destruct ((top <=? y) && (y <=? top + lines - 1) && (left <=? x) && (x <=? left + cols - 1)) eqn:C1.
      * destruct ((top <=? y) && (y <? top + lines) && (left <=? x) && (x <? left + cols)) eqn:C2; [|lia].
        destruct ((left <=? x + rt) && (x + rt <=? left + cols - 1)) eqn:C3.
        -- destruct ((top <=? y) && (y <=? top + lines - 1) && (left <=? x + rt) && (x + rt <=? left + cols - 1)) eqn:C4; [|lia].
           destruct ((top <=? y + d) && (y + d <=? top + lines - 1)) eqn:C5.
           ++ destruct ((top <=? y + d) && (y + d <? top + lines) && (left <=? x + rt) && (x + rt <? left + cols)) eqn:C6; [|lia].
              reflexivity.
           ++ destruct ((top <=? y + d) && (y + d <? top + lines) && (left <=? x + rt) && (x + rt <? left + cols)) eqn:C6; [lia|].
              reflexivity.
        -- destruct ((top <=? y + d) && (y + d <? top + lines) && (left <=? x + rt) && (x + rt <? left + cols)) eqn:C6; [lia|].
           reflexivity.
      * destruct ((top <=? y) && (y <? top + lines) && (left <=? x) && (x <? left + cols)) eqn:C2; [lia|].
        reflexivity.
  - (* full width: only top/bottom margins *)
    cbn [app]. rewrite !vt_run_nil.
    assert (Hl0 : left = 0) by lia. assert (Hcw : cols = v_cols v) by lia.
    rewrite goto_abs_pos by (unfold w1; vt_unfold; lia).
    set (w3 := set_cur w1 (mkCursor top left false)).
    destruct (vert_run w3 d top (top + lines - 1) left (left + cols - 1))
      as (F4 & Hrow4 & Hcol4 & Hg4);
      try (unfold w3, w1; vt_unfold; cbn [mg_top mg_bot]; (reflexivity || lia)).
    { unfold w3, w1. vt_unfold. cbn [mg_top mg_bot]. rewrite Ml, Mr. f_equal; lia. }
    set (w4 := vt_run (vert_tokens d) w3) in *. clearbody w4.
    destruct F4 as (A1 & A2 & A3 & A4 & A5).
    unfold w3, w1 in A1, A2, A3, A4, A5, Hrow4, Hcol4, Hg4. vt_unfold. cbn [mg_top mg_bot] in A3.
    destruct (horiz_run w4 rt top (top + lines - 1) left (left + cols - 1))
      as (F5 & Hrow5 & Hcol5 & Hg5); try (unfold row, col; rewrite ?Hrow4, ?Hcol4; lia).
    { rewrite A3, Ml, Mr. f_equal; lia. }
    set (w5 := vt_run (horiz_tokens rt) w4) in *. clearbody w5.
    destruct F5 as (B1 & B2 & B3 & B4 & B5).
    rewrite run_decstbm_reset by (rewrite B1, A1; lia).
    apply scroll_shift_intro; try assumption.
    + unfold same_frame. vt_unfold. cbn [mg_top mg_bot mg_left mg_right].
      refine (conj _ (conj _ (conj _ (conj _ _)))); try congruence.
      rewrite B3, A3. cbn [mg_left mg_right]. rewrite Hm. unfold full_margins. cbn [mg_left mg_right].
      f_equal; congruence.
    + vt_unfold. lia.
    + vt_unfold. lia.
    + intros y x. vt_unfold. rewrite Hg5, !Hg4.
      assert (Hb : blank w4 = blank v) by (unfold blank; rewrite A4; reflexivity).
      rewrite Hb. unfold blank at 1 2 3.
      unfold in_region, in_rect, r_bottom, r_right. cbn [r_top r_left r_lines r_cols].
      destruct ((top <=? y) && (y <=? top + lines - 1) && (left <=? x) && (x <=? left + cols - 1)) eqn:C1.
      * destruct ((top <=? y) && (y <? top + lines) && (left <=? x) && (x <? left + cols)) eqn:C2; [|lia].
        destruct ((left <=? x + rt) && (x + rt <=? left + cols - 1)) eqn:C3.
        -- destruct ((top <=? y) && (y <=? top + lines - 1) && (left <=? x + rt) && (x + rt <=? left + cols - 1)) eqn:C4; [|lia].
           destruct ((top <=? y + d) && (y + d <=? top + lines - 1)) eqn:C5.
           ++ destruct ((top <=? y + d) && (y + d <? top + lines) && (left <=? x + rt) && (x + rt <? left + cols)) eqn:C6; [|lia].
              reflexivity.
           ++ destruct ((top <=? y + d) && (y + d <? top + lines) && (left <=? x + rt) && (x + rt <? left + cols)) eqn:C6; [lia|].
              reflexivity.
        -- destruct ((top <=? y + d) && (y + d <? top + lines) && (left <=? x + rt) && (x + rt <? left + cols)) eqn:C6; [lia|].
           reflexivity.
      * destruct ((top <=? y) && (y <? top + lines) && (left <=? x) && (x <? left + cols)) eqn:C2; [lia|].
        reflexivity.
Qed.

Lemma scroll_ok : forall v slrm r d rt, vt_ok v -> in_range (RScroll r d rt) v ->
  (slrm = true -> md_lrmm (v_md v) = true) ->
  effect_ok (RScroll r d rt) (fst (xt_scrollrect slrm (v_cols v) r d rt))
            (match snd (xt_scrollrect slrm (v_cols v) r d rt) with [] => true | _ => false end) v
            (vt_run (snd (xt_scrollrect slrm (v_cols v) r d rt)) v) /\
  vt_ok (vt_run (snd (xt_scrollrect slrm (v_cols v) r d rt)) v).
Proof.
  intros v slrm r d rt Hok Hr Hlrmm.
  pose proof (scroll_exact v slrm r d rt Hok Hr Hlrmm) as H.
  destruct (xt_scrollrect slrm (v_cols v) r d rt) as [ret ts]. cbn [fst snd] in *.
  destruct ret; cbn [scroll_res] in H.
  - destruct H as (H1 & H2 & H3 & H4). apply scroll_effect; assumption.
  - subst ts. rewrite vt_run_nil. split; [reflexivity|exact Hok].
Qed.

(* a scroll that reports failure writes nothing *)
Lemma scrollrect_fail_silent : forall slrm term_cols r d rt ts,
  xt_scrollrect slrm term_cols r d rt = (false, ts) -> ts = [].
Proof.
  intros slrm term_cols r d rt ts H. unfold xt_scrollrect in H.
  destruct ((d =? 0) && (rt =? 0)); [discriminate|].
  destruct (((slrm && (r_lines r =? 1)) || (r_right r =? term_cols)) && (d =? 0)); [discriminate|].
  destruct (slrm || ((r_left r =? 0) && (r_cols r =? term_cols) && (rt =? 0))).
  - destruct (((0 <? r_left r) || (r_right r <? term_cols)) && (r_cols r <? 2)); [|discriminate].
    now inversion H.
  - now inversion H.
Qed.

(* ------------------------------------------------------------------ sequences *)
Lemma colour_eqb_eq : forall a b, colour_eqb a b = true -> a = b.
Proof.
  intros [|n|r g b] [|m|r2 g2 b2] H; cbn in H; try discriminate; try reflexivity.
  - f_equal. lia.
  - f_equal; lia.
Qed.
Lemma attrs_eqb_eq : forall a b, attrs_eqb a b = true -> a = b.
Proof.
  intros a b H. unfold attrs_eqb in H.
  destruct a as [a1 a2 a3 a4 a5 a6 a7 a8 a9 a10 a11], b as [b1 b2 b3 b4 b5 b6 b7 b8 b9 b10 b11].
  cbn [a_fg a_bg a_bold a_faint a_under a_italic a_reverse a_strike a_font a_blink a_sizepos] in H.
  repeat (apply andb_true_iff in H; destruct H as [H ?]).
  repeat match goal with
         | K : colour_eqb _ _ = true |- _ => apply colour_eqb_eq in K
         | K : Bool.eqb _ _ = true |- _ => apply eqb_prop in K
         | K : (_ =? _) = true |- _ => apply Z.eqb_eq in K
         end.
  subst. reflexivity.
Qed.

(* a request that leaves the pen alone keeps the tie between terminal object and screen *)
Lemma SInv_frame : forall t v v' q ret silent,
  SInv t v -> vt_ok v -> effect_ok q ret silent v v' ->
  match q with RChpen _ | RSetpen _ => False | RScroll _ _ _ => ret = true | _ => True end ->
  SInv t v'.
Proof.
  intros t v v' q ret silent (S1 & S2 & S3 & S4 & S5) Hok He Hq.
  assert (Hparts : frame_okb v v' = true /\ attrs_eqb (v_sgr v') (v_sgr v) = true).
  { unfold effect_ok in He. destruct q; try contradiction;
      try (destruct He as (H1 & _ & H3 & _); split; assumption).
    subst ret. destruct He as (H1 & _ & H3 & _). split; assumption. }
  destruct Hparts as [Hf Ha]. apply attrs_eqb_eq in Ha.
  unfold frame_okb in Hf.
  apply andb_true_iff in Hf as [Hf Hmd]. apply andb_true_iff in Hf as [Hf _].
  apply andb_true_iff in Hf as [Hl Hc]. apply Z.eqb_eq in Hl. apply Z.eqb_eq in Hc.
  assert (Hm : md_lrmm (v_md v') = md_lrmm (v_md v)).
  { unfold modes_eqb in Hmd.
    repeat (apply andb_true_iff in Hmd; destruct Hmd as [Hmd ?]).
    match goal with K : Bool.eqb (md_lrmm _) (md_lrmm _) = true |- _ => apply eqb_prop in K; exact K end. }
  unfold SInv. rewrite Hl, Hc, Hm, Ha. exact (conj S1 (conj S2 (conj S3 (conj S4 S5)))).
Qed.

(* an in-range pen at 256 colours is its own converted form *)
Lemma cache_of_256 : forall p a, pen_in_range p -> cache_of 256 p a = p a.
Proof.
  intros p a Hp. unfold cache_of. destruct (p a) as [x|] eqn:E; [|reflexivity].
  cbn [option_map]. f_equal. specialize (Hp a x E). unfold aval_in_range in Hp.
  destruct x as [b|n|i sec]; try reflexivity.
  unfold conv_val. destruct (attr_type a); try contradiction.
  destruct (256 <=? i) eqn:E1; [lia|reflexivity].
Qed.

Lemma pen_req_ok : forall (is_set : bool) t v p, vt_ok v -> SInv t v -> pen_in_range p ->
  exists t' ts,
    drv_req t (if is_set then RSetpen p else RChpen p) = Some (t', true, ts) /\
    effect_ok (if is_set then RSetpen p else RChpen p) true (match ts with [] => true | _ => false end) v (vt_run ts v) /\
    vt_ok (vt_run ts v) /\ SInv t' (vt_run ts v).
Proof.
  intros is_set t v p Hok (S1 & S2 & S3 & S4 & S5) Hp.
  set (colon := cap_colon (x_caps (t_drv t))) in *. set (rgb8 := cap_rgb8 (x_caps (t_drv t))) in *.
  assert (Hinv : PenInv 256 colon rgb8 (t_pen t) (t_pen t) v).
  { split; [exact S4|]. split; [|exact S5]. intros a. symmetry. apply cache_of_256. exact S4. }
  destruct (op_ok 256 colon rgb8 is_set (t_pen t) (t_pen t) v p ltac:(lia) Hinv Hp)
    as (tp' & ts & Hdo & Hinv' & Hset & _).
  exists (term_with_pen t tp'), ts.
  destruct Hinv' as (L1 & L2 & L3).
  assert (Hr' : pen_in_range tp').
  { intros a x E. rewrite L2, cache_of_256 in E by exact L1. exact (L1 a x E). }
  assert (Hl : v_lines (vt_run ts v) = v_lines v) by (rewrite Hset; reflexivity).
  assert (Hc : v_cols (vt_run ts v) = v_cols v) by (rewrite Hset; reflexivity).
  assert (Hmg : v_mg (vt_run ts v) = v_mg v) by (rewrite Hset; reflexivity).
  assert (Hmd : v_md (vt_run ts v) = v_md v) by (rewrite Hset; reflexivity).
  assert (Hcur : v_cur (vt_run ts v) = v_cur v) by (rewrite Hset; reflexivity).
  assert (Hg : forall y x, v_grid (vt_run ts v) y x = v_grid v y x) by (intros y x; rewrite Hset; reflexivity).
  destruct (vt_ok_inv v Hok) as (HL & HC & _ & _ & _ & _ & Hawm & Hrow & Hcol).
  split.
  { destruct is_set; cbn [drv_req]; fold colon rgb8; unfold xterm_colors; rewrite Hdo; reflexivity. }
  split.
  { unfold effect_ok.
    assert (Hgoal : frame_okb v (vt_run ts v) = true /\
                    cursor_eqb (v_cur (vt_run ts v)) (v_cur v) = true /\ True /\
                    forall y x, 0 <= y < v_lines v -> 0 <= x < v_cols v ->
                                cell_eqb (v_grid (vt_run ts v) y x) (v_grid v y x) = true).
    { split.
      - unfold frame_okb. rewrite Hl, Hc, Hmg, Hmd, (full_margins_of_ok v Hok), margins_eqb_refl, modes_eqb_refl. lia.
      - split; [rewrite Hcur; apply cursor_eqb_refl|].
        split; [exact I|]. intros y x _ _. rewrite Hg. apply cell_eqb_refl. }
    destruct is_set; exact Hgoal. }
  split.
  { apply vt_ok_intro; rewrite ?Hl, ?Hc, ?Hmg, ?Hmd; unfold row, col; rewrite ?Hcur; try assumption.
    apply (full_margins_of_ok v Hok). }
  unfold SInv, term_with_pen. cbn [t_lines t_cols t_drv t_pen]. fold colon rgb8.
  rewrite Hl, Hc, Hmd. exact (conj S1 (conj S2 (conj S3 (conj Hr' L3)))).
Qed.

(* one request *)
Lemma req_ok : forall t v q, vt_ok v -> SInv t v -> req_pen_ok q ->
  in_range q v -> rv_edge_excl t v q = false ->
  exists t' ret ts,
    drv_req t q = Some (t', ret, ts) /\
    effect_ok q ret (match ts with [] => true | _ => false end) v (vt_run ts v) /\
    vt_ok (vt_run ts v) /\ SInv t' (vt_run ts v).
Proof.
  intros t v q Hok Hs Hpen Hr Hex.
  destruct q as [l c|d r|bs|n me| |r d rt|p|p].
  - destruct (goto_ok v l c Hok Hr) as [He Hok'].
    exists t, true, (xt_goto_abs l c). split; [reflexivity|]. split; [exact He|]. split; [exact Hok'|].
    eapply SInv_frame; eauto; try exact I.
  - destruct (move_ok v d r Hok Hr) as [He Hok'].
    exists t, true, (xt_move_rel d r). split; [reflexivity|]. split; [exact He|]. split; [exact Hok'|].
    eapply SInv_frame; eauto; try exact I.
  - destruct (print_ok v bs Hok Hr) as [He Hok'].
    exists t, true, (xt_print bs). split; [reflexivity|]. split; [exact He|]. split; [exact Hok'|].
    eapply SInv_frame; eauto; try exact I.
  - assert (Hrv : get_bool_attr (t_pen t) AReverse = a_reverse (v_sgr v)).
    { destruct Hs as (_ & _ & _ & S4 & (S5 & _)). specialize (S5 AReverse). cbn [vt_attr] in S5.
      unfold get_bool_attr. destruct (t_pen t AReverse) as [x|] eqn:E.
      - specialize (S4 AReverse x E). unfold aval_in_range in S4. cbn [attr_type] in S4.
        destruct x as [b|k|i sec]; try contradiction. cbn [enc] in S5. congruence.
      - cbn in S5. congruence. }
    cbn [rv_edge_excl] in Hex.
    destruct (erase_ok v _ n me Hok Hr Hrv Hex) as [He Hok'].
    exists t, true, (xt_erasech (get_bool_attr (t_pen t) AReverse) n me).
    split; [reflexivity|]. split; [exact He|]. split; [exact Hok'|].
    eapply SInv_frame; eauto; try exact I.
  - destruct (clear_ok v Hok) as [He Hok'].
    exists t, true, xt_clear. split; [reflexivity|]. split; [exact He|]. split; [exact Hok'|].
    eapply SInv_frame; eauto; try exact I.
  - destruct Hs as (S1 & S2 & S3 & S4 & S5).
    destruct (scroll_ok v (cap_slrm (x_caps (t_drv t))) r d rt Hok Hr S3) as [He Hok'].
    cbn [drv_req]. rewrite S2.
    destruct (xt_scrollrect (cap_slrm (x_caps (t_drv t))) (v_cols v) r d rt) as [ret ts] eqn:Ex.
    cbn [fst snd] in He, Hok'.
    exists t, ret, ts. split; [reflexivity|]. split; [exact He|]. split; [exact Hok'|].
    destruct ret.
    + eapply SInv_frame; [exact (conj S1 (conj S2 (conj S3 (conj S4 S5)))) | exact Hok | exact He | reflexivity].
    + pose proof (scrollrect_fail_silent _ _ _ _ _ _ Ex) as Hts. subst ts. rewrite vt_run_nil.
      exact (conj S1 (conj S2 (conj S3 (conj S4 S5)))).
  - destruct (pen_req_ok false t v p Hok Hs Hpen) as (t' & ts & H1 & H2 & H3 & H4).
    exists t', true, ts. exact (conj H1 (conj H2 (conj H3 H4))).
  - destruct (pen_req_ok true t v p Hok Hs Hpen) as (t' & ts & H1 & H2 & H3 & H4).
    exists t', true, ts. exact (conj H1 (conj H2 (conj H3 H4))).
Qed.

(* any sequence of requests, each in range in the state it is issued in (and outside the
   recorded trigger class), has its direct effect on the screen *)
Lemma sequence_partial : forall qs t v, vt_ok v -> SInv t v -> Forall req_pen_ok qs ->
  seq_ok_excl rv_edge_excl t v qs.
Proof.
  induction qs as [|q qs IH]; intros t v Hok Hs Hpens; [exact I|].
  cbn [seq_ok_excl]. intros Hr Hex.
  inversion Hpens as [|q' qs' Hq Hqs]; subst.
  destruct (req_ok t v q Hok Hs Hq Hr Hex) as (t' & ret & ts & H1 & H2 & H3 & H4).
  exists t', ret, ts. split; [exact H1|]. split; [exact H2|]. split; [exact H3|].
  apply IH; assumption.
Qed.

(* without the exclusion the statement is false: the witness of the recorded finding *)
Definition rv_edge_term : term :=
  mkTerm xdrv_new true (pset empty_pen AReverse (Some (VBool true))) 2 5.
Lemma sequence_refuted :
  vt_ok rv_edge_witness /\ SInv rv_edge_term rv_edge_witness /\
  ~ seq_ok rv_edge_term rv_edge_witness [RErase 3 MNo].
Proof.
  split; [vm_compute; reflexivity|]. split.
  - unfold SInv. split; [reflexivity|]. split; [reflexivity|]. split; [discriminate|]. split.
    + intros a x E. destruct a; cbn in E; try discriminate. inversion E. exact I.
    + split; [|reflexivity]. intros a. destruct a; reflexivity.
  - cbn [seq_ok]. intros H.
    destruct (H ltac:(vm_compute; reflexivity)) as (t' & ret & ts & Hd & He & _).
    cbn in Hd. inversion Hd; subst. clear Hd.
    destruct He as (_ & H2 & _). vm_compute in H2. discriminate.
Qed.

(* the state after start(): DECLRMM on, default rendition, no margins, cursor at the origin *)
Lemma start_state_ok : forall lines cols d, 0 < lines -> 0 < cols ->
  vt_ok (vt_run xt_start (vt_init lines cols)) /\
  SInv (mkTerm d true empty_pen lines cols) (vt_run xt_start (vt_init lines cols)).
Proof.
  intros lines cols d HL HC.
  set (v := vt_run xt_start (vt_init lines cols)).
  assert (E1 : v_lines v = lines) by reflexivity.
  assert (E2 : v_cols v = cols) by reflexivity.
  assert (E3 : v_mg v = full_margins lines cols) by reflexivity.
  assert (E4 : v_md v = md_set_lrmm default_modes true) by reflexivity.
  assert (E5 : v_sgr v = default_attrs) by reflexivity.
  assert (E6 : row v = 0) by reflexivity.
  assert (E7 : col v = clamp 0 (cols - 1) (1 - 1)) by reflexivity.
  assert (E7' : col v = 0) by (rewrite E7; unfold clamp; lia).
  clearbody v. split.
  - apply vt_ok_intro; rewrite ?E1, ?E2, ?E3, ?E4, ?E6, ?E7'; try reflexivity; lia.
  - unfold SInv. cbn [t_lines t_cols t_drv t_pen]. rewrite E1, E2, E4, E5.
    split; [reflexivity|]. split; [reflexivity|]. split; [reflexivity|].
    split; [intros a x E; discriminate|]. split; [intros a; destruct a; reflexivity | reflexivity].
Qed.
