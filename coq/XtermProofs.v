(* XtermProofs.v -- C09: lemmas about the driver model against the VT specification. *)
From Coq Require Import ZArith List Bool Lia.
From Tickit Require Import Csi VT TermPenDefs XtermDefs XtermSpec.
Import ListNotations.
Local Open Scope Z_scope.

(* a scroll that reports failure writes nothing *)
Lemma scrollrect_fail_silent : forall slrm term_cols r d rt ts,
  xt_scrollrect slrm term_cols r d rt = (false, ts) -> ts = [].
Proof.
  intros slrm term_cols r d rt ts H. unfold xt_scrollrect in H.
  destruct ((d =? 0) && (rt =? 0)); [discriminate|].
  destruct (((slrm && (r_lines r =? 1)) || (r_right r =? term_cols)) && (d =? 0)); [discriminate|].
  destruct (slrm || ((r_left r =? 0) && (r_cols r =? term_cols) && (rt =? 0))).
  - destruct (((0 <? r_left r) || (r_right r <? term_cols)) && (r_cols r <? 2)); [|discriminate].
    now inversion H.
  - now inversion H.
Qed.
