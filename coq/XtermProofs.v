(* XtermProofs.v -- C09: the driver model against the VT specification, request by request
   and for sequences. *)
From Coq Require Import ZArith List Bool Lia ZifyBool.
From Tickit Require Import Csi VT TermPenDefs TermPenSpec XtermDefs XtermSpec.
Import ListNotations.
Local Open Scope Z_scope.

(* ------------------------------------------------------------------ basics *)
Lemma vt_run_app : forall a b v, vt_run (a ++ b) v = vt_run b (vt_run a v).
Proof. intros a b v. unfold vt_run. apply fold_left_app. Qed.
Lemma vt_run_nil : forall v, vt_run [] v = v.
Proof. reflexivity. Qed.
Lemma vt_run_cons : forall t ts v, vt_run (t :: ts) v = vt_run ts (vt_step v t).
Proof. reflexivity. Qed.

Lemma colour_eqb_refl : forall c, colour_eqb c c = true.
Proof. intros [|n|r g b]; cbn; lia. Qed.
Lemma attrs_eqb_refl : forall a, attrs_eqb a a = true.
Proof.
  intros a. unfold attrs_eqb. rewrite !colour_eqb_refl, !Z.eqb_refl, !eqb_reflx. reflexivity.
Qed.
Lemma cell_eqb_refl : forall c, cell_eqb c c = true.
Proof. intros c. unfold cell_eqb. rewrite Z.eqb_refl, attrs_eqb_refl. reflexivity. Qed.
Lemma margins_eqb_refl : forall m, margins_eqb m m = true.
Proof. intros m. unfold margins_eqb. rewrite !Z.eqb_refl. reflexivity. Qed.
Lemma modes_eqb_refl : forall m, modes_eqb m m = true.
Proof. intros m. unfold modes_eqb. rewrite !Z.eqb_refl, !eqb_reflx. reflexivity. Qed.
Lemma cursor_eqb_refl : forall c, cursor_eqb c c = true.
Proof. intros c. unfold cursor_eqb. rewrite !Z.eqb_refl, eqb_reflx. reflexivity. Qed.

Lemma clamp_id : forall lo hi x, lo <= x <= hi -> clamp lo hi x = x.
Proof. intros lo hi x H. unfold clamp. lia. Qed.

(* what [vt_ok] says *)
Lemma vt_ok_inv : forall v, vt_ok v ->
  0 < v_lines v /\ 0 < v_cols v /\
  mg_top (v_mg v) = 0 /\ mg_bot (v_mg v) = v_lines v - 1 /\
  mg_left (v_mg v) = 0 /\ mg_right (v_mg v) = v_cols v - 1 /\
  md_awm (v_md v) = true /\ 0 <= row v < v_lines v /\ 0 <= col v < v_cols v.
Proof.
  intros v H. unfold vt_ok, vt_okb, margins_eqb, full_margins in H. cbn [mg_top mg_bot mg_left mg_right] in H.
  destruct (md_awm (v_md v)); lia.
Qed.
Lemma vt_ok_intro : forall v,
  0 < v_lines v -> 0 < v_cols v ->
  v_mg v = full_margins (v_lines v) (v_cols v) ->
  md_awm (v_md v) = true -> 0 <= row v < v_lines v -> 0 <= col v < v_cols v -> vt_ok v.
Proof.
  intros v Hl Hc Hm Ha Hr Hcc. unfold vt_ok, vt_okb. rewrite Hm, margins_eqb_refl, Ha. lia.
Qed.
Lemma full_margins_of_ok : forall v, vt_ok v -> v_mg v = full_margins (v_lines v) (v_cols v).
Proof.
  intros v H. destruct (vt_ok_inv v H) as (_ & _ & Ht & Hb & Hl & Hr & _).
  unfold full_margins. destruct (v_mg v) as [t b l r]. cbn in *. congruence.
Qed.

(* bounded quantification *)
Lemma seqZ_In : forall n s z, In z (seqZ s n) <-> s <= z < s + Z.of_nat n.
Proof.
  induction n as [|n IH]; intros s z.
  - cbn. lia.
  - cbn [seqZ In]. rewrite IH. lia.
Qed.
Lemma forall_cells_spec : forall L C f,
  forall_cells L C f = true <-> (forall y x, 0 <= y < L -> 0 <= x < C -> f y x = true).
Proof.
  intros L C f. unfold forall_cells. rewrite forallb_forall. split.
  - intros H y x Hy Hx.
    assert (Hin : In y (seqZ 0 (Z.to_nat L))) by (apply seqZ_In; lia).
    specialize (H y Hin). rewrite forallb_forall in H. apply H. apply seqZ_In. lia.
  - intros H y Hy. apply seqZ_In in Hy. rewrite forallb_forall. intros x Hx. apply seqZ_In in Hx.
    apply H; lia.
Qed.

(* the boolean checker of the oracle decides the proposition the theorems are about *)
Lemma effect_okb_spec : forall q ret silent v v',
  effect_okb q ret silent v v' = true <-> effect_ok q ret silent v v'.
Proof.
  intros q ret silent v v'. unfold effect_okb, effect_ok.
  destruct q; destruct ret;
    rewrite ?andb_true_iff, ?forall_cells_spec; try tauto;
    (split; [intros [[[H1 H2] H3] H4] | intros (H1 & H2 & H3 & H4)]; repeat split; auto).
Qed.

(* ------------------------------------------------------------------ single tokens *)
Ltac vt_unfold :=
  unfold row, col, pend, goto_rc, clear_pend, set_cur, set_grid, set_mg, set_sgr, set_md in *;
  cbn [v_lines v_cols v_grid v_cur v_mg v_sgr v_md v_savedcur v_other cu_row cu_col cu_pend] in *.

Lemma run_cup2 : forall v a b, vt_run [csi [[Some a]; [Some b]] 72] v = vt_cup v (if a =? 0 then 1 else a) (if b =? 0 then 1 else b).
Proof. reflexivity. Qed.
Lemma run_cup1 : forall v a, vt_run [csi_n a 72] v = vt_cup v (if a =? 0 then 1 else a) 1.
Proof. reflexivity. Qed.
Lemma run_vpa : forall v a, vt_run [csi_n a 100] v = vt_vpa v (if a =? 0 then 1 else a).
Proof. reflexivity. Qed.
Lemma run_cha : forall v a, vt_run [csi_n a 71] v = vt_cha v (if a =? 0 then 1 else a).
Proof. reflexivity. Qed.
Lemma run_cha0 : forall v, vt_run [csi_0 71] v = vt_cha v 1.
Proof. reflexivity. Qed.
Lemma run_cuu : forall v a, vt_run [csi_n a 65] v = vt_cuu v (if a =? 0 then 1 else a).
Proof. reflexivity. Qed.
Lemma run_cuu0 : forall v, vt_run [csi_0 65] v = vt_cuu v 1.
Proof. reflexivity. Qed.
Lemma run_cud : forall v a, vt_run [csi_n a 66] v = vt_cud v (if a =? 0 then 1 else a).
Proof. reflexivity. Qed.
Lemma run_cud0 : forall v, vt_run [csi_0 66] v = vt_cud v 1.
Proof. reflexivity. Qed.
Lemma run_cuf : forall v a, vt_run [csi_n a 67] v = vt_cuf v (if a =? 0 then 1 else a).
Proof. reflexivity. Qed.
Lemma run_cuf0 : forall v, vt_run [csi_0 67] v = vt_cuf v 1.
Proof. reflexivity. Qed.
Lemma run_cub : forall v a, vt_run [csi_n a 68] v = vt_cub v (if a =? 0 then 1 else a).
Proof. reflexivity. Qed.
Lemma run_cub0 : forall v, vt_run [csi_0 68] v = vt_cub v 1.
Proof. reflexivity. Qed.

(* ------------------------------------------------------------------ goto_abs *)
(* the screen after a goto: only the cursor changes *)
Lemma goto_abs_run : forall v l c, vt_ok v -> in_range (RGoto l c) v ->
  vt_run (xt_goto_abs l c) v =
  if (l =? -1) && (c =? -1) then v
  else set_cur v (mkCursor (if l =? -1 then row v else l) (if c =? -1 then col v else c) false).
Proof.
  intros v l c Hok Hr.
  destruct (vt_ok_inv v Hok) as (HL & HC & _ & _ & _ & _ & _ & Hrow & Hcol).
  unfold in_range, in_rangeb in Hr. unfold xt_goto_abs.
  destruct (l =? -1) eqn:El; destruct (0 <? c) eqn:Ec; cbn [negb andb].
  - (* CHA n *) rewrite run_cha. assert (Hc1 : (c =? -1) = false) by lia; rewrite Hc1. cbn [andb].
    unfold vt_cha, goto_rc. destruct (c + 1 =? 0) eqn:E; [lia|].
    rewrite clamp_id by lia. f_equal. f_equal. lia.
  - destruct (c =? -1) eqn:Ec1; cbn [negb andb].
    + reflexivity.
    + rewrite run_cha0. unfold vt_cha, goto_rc. rewrite clamp_id by lia. f_equal. f_equal. lia.
  - (* CUP l;c *) rewrite run_cup2. assert (Hc1 : (c =? -1) = false) by lia; rewrite Hc1.
    unfold vt_cup, goto_rc. destruct (l + 1 =? 0) eqn:E1; [lia|]. destruct (c + 1 =? 0) eqn:E2; [lia|].
    rewrite !clamp_id by lia. f_equal. f_equal; lia.
  - destruct (c =? 0) eqn:Ec0; cbn [negb andb].
    + (* CUP l *) rewrite run_cup1. assert (Hc1 : (c =? -1) = false) by lia; rewrite Hc1.
      unfold vt_cup, goto_rc. destruct (l + 1 =? 0) eqn:E1; [lia|].
      rewrite !clamp_id by lia. f_equal. f_equal; lia.
    + (* VPA *) rewrite run_vpa. assert (Hc1 : (c =? -1) = true) by lia; rewrite Hc1.
      unfold vt_vpa, goto_rc. destruct (l + 1 =? 0) eqn:E1; [lia|].
      rewrite !clamp_id by lia. f_equal. f_equal; lia.
Qed.

Lemma goto_ok : forall v l c, vt_ok v -> in_range (RGoto l c) v ->
  effect_ok (RGoto l c) true (match xt_goto_abs l c with [] => true | _ => false end) v
            (vt_run (xt_goto_abs l c) v) /\
  vt_ok (vt_run (xt_goto_abs l c) v).
Proof.
  intros v l c Hok Hr. rewrite (goto_abs_run v l c Hok Hr).
  pose proof (full_margins_of_ok v Hok) as Hm.
  destruct (vt_ok_inv v Hok) as (HL & HC & _ & _ & _ & _ & Hawm & Hrow & Hcol).
  unfold in_range, in_rangeb in Hr.
  destruct ((l =? -1) && (c =? -1)) eqn:E.
  - split; [|exact Hok]. unfold effect_ok. refine (conj _ (conj _ (conj _ _))).
    + unfold frame_okb. rewrite Hm, margins_eqb_refl, modes_eqb_refl. lia.
    + unfold effect_cursorb. rewrite E. apply andb_true_iff in E as [El Ec]. rewrite El, Ec.
      destruct (pend v); lia.
    + apply attrs_eqb_refl.
    + intros y x _ _. unfold effect_cellb. apply cell_eqb_refl.
  - split.
    + unfold effect_ok. refine (conj _ (conj _ (conj _ _))).
      * unfold frame_okb. vt_unfold. rewrite Hm, margins_eqb_refl, modes_eqb_refl. lia.
      * unfold effect_cursorb. rewrite E. vt_unfold. destruct (l =? -1); destruct (c =? -1); lia.
      * vt_unfold. apply attrs_eqb_refl.
      * intros y x _ _. unfold effect_cellb. vt_unfold. apply cell_eqb_refl.
    + apply vt_ok_intro; vt_unfold; try assumption; try lia.
      * destruct (l =? -1); lia.
      * destruct (c =? -1); lia.
Qed.
