(* WinHideSpec.v -- the oracle clause for tickit_window_hide (WinSpec.c15_hide_checkb, run by the
   test oracle on the implementation's window trees right before / right after the call) holds
   of the MODEL of hide (WinDefs.win_hide), in every defect configuration: the only switch
   win_hide reads (d_chain_norestore) decides whether a cursor restore is requested, never what
   happens to the tree.

     hide_meets_spec            on a tree with unique ids the model's result passes the checker
                                (a window that is not in the tree: win_hide is the identity, and
                                the checker accepts the unchanged tree)
     hide_refutes_stays_linked  the checker rejects "the hidden window is still its parent's
                                focused child" (the model's own result is accepted) *)
From Coq Require Import ZArith List Bool Lia ZifyBool.
From Tickit Require Import RectDefs RectProofs WinRectSet WinDefs WinSpec WinExposeProofs
  WinFlushProofs WinLogDisjoint WinLocA WinLocTree WinReProofs WinReLive WinShowSpec.
Import ListNotations.
Local Open Scope Z_scope.

(* ------------------------------------------------------------------------------------ *)
(* the tree of the model's result                                                        *)

Definition hide_unlink (id : Z) (j : winfo) : winfo :=
  if opt_eqb (w_fchild j) id then set_fchild j None else j.

Lemma keeps_id_unlink id : keeps_id (hide_unlink id).
Proof. intros i. unfold hide_unlink. destruct (opt_eqb (w_fchild i) id); reflexivity. Qed.

Definition hide_tree (id : Z) (t : wtree) : wtree :=
  match t_chain id t with
  | None => t
  | Some chain =>
    let tr1 := t_update (fun j => set_vis j false) id t in
    match chain with
    | w :: p :: _ => t_update (hide_unlink id) (t_id p) tr1
    | _ => tr1
    end
  end.

Lemma win_hide_tree cfg st id : r_tree (win_hide cfg st id) = hide_tree id (r_tree st).
Proof.
  unfold win_hide, hide_tree.
  destruct (t_chain id (r_tree st)) as [chain|]; [|reflexivity].
  destruct chain as [|w [|p rest]]; try reflexivity.
  rewrite win_expose_tree.
  destruct (opt_eqb (w_fchild (t_info p)) id && negb (d_chain_norestore cfg)); reflexivity.
Qed.

(* the clause's condition on a link is the model's *)
Lemma unlink_fchild id j :
  w_fchild (hide_unlink id j) = if fchild_eqb (w_fchild j) (Some id) then None else w_fchild j.
Proof.
  unfold hide_unlink, opt_eqb, fchild_eqb. destruct (w_fchild j) as [k|] eqn:E; [|exact E].
  destruct (k =? id); [reflexivity|exact E].
Qed.

Lemma unlink_focused id j : w_focused (hide_unlink id j) = w_focused j.
Proof. unfold hide_unlink. destruct (opt_eqb (w_fchild j) id); reflexivity. Qed.

Lemma unlink_vis id j : w_vis (hide_unlink id j) = w_vis j.
Proof. unfold hide_unlink. destruct (opt_eqb (w_fchild j) id); reflexivity. Qed.

(* ------------------------------------------------------------------------------------ *)
(* the model meets the clause                                                            *)

Lemma hide_tree_meets_spec id t : NoDup (t_ids t) -> c15_hide_checkb id t (hide_tree id t) = true.
Proof.
  intros Hnd. unfold c15_hide_checkb. apply andb_true_iff. split.
  - (* the shape: same ids in the same order *)
    assert (E : sub_ids (hide_tree id t) = sub_ids t).
    { unfold hide_tree. destruct (t_chain id t) as [chain|]; [|reflexivity].
      rewrite !sub_ids_t_ids.
      destruct chain as [|w [|p rest]]; try (apply update_ids, keeps_id_vis).
      rewrite (update_ids _ _ (keeps_id_unlink id)). apply update_ids, keeps_id_vis. }
    rewrite E. apply zlist_eqb_refl.
  - apply forallb_forall. intros x Hx. rewrite sub_ids_t_ids in Hx.
    destruct (t_find_some x t Hnd Hx) as [a Ea]. rewrite Ea.
    unfold hide_tree.
    destruct (t_chain id t) as [chain|] eqn:Ec.
    + destruct chain as [|w [|p rest]].
      * exfalso. exact (chain_nonempty id t Ec).
      * (* the root: no parent, only the visibility changes *)
        assert (Hp : t_parent_id id t = None) by (unfold t_parent_id; rewrite Ec; reflexivity).
        rewrite Hp. cbn [fchild_eqb andb].
        destruct (find_update_info (fun j => set_vis j false) id x t a (keeps_id_vis false) Ea)
          as (b & Eb & Ib).
        rewrite Eb, Ib. destruct (x =? id); cbn [set_vis w_focused w_fchild w_vis];
          rewrite ?eqb_reflx, ?fchild_eqb_refl; reflexivity.
      * assert (Hp : t_parent_id id t = Some (t_id p)) by (unfold t_parent_id; rewrite Ec; reflexivity).
        rewrite Hp. cbn [fchild_eqb].
        destruct (find_update_info (fun j => set_vis j false) id x t a (keeps_id_vis false) Ea)
          as (b & Eb & Ib).
        destruct (find_update_info (hide_unlink id) (t_id p) x _ b (keeps_id_unlink id) Eb)
          as (b2 & Eb2 & Ib2).
        rewrite Eb2, Ib2, Ib. rewrite (Z.eqb_sym (t_id p) x).
        destruct (x =? t_id p); destruct (x =? id);
          rewrite ?unlink_fchild, ?unlink_focused, ?unlink_vis;
          cbn [andb set_vis w_focused w_fchild w_vis];
          rewrite ?eqb_reflx, ?fchild_eqb_refl; reflexivity.
    + (* not a window of the tree: nothing happens *)
      rewrite Ea, (parent_id_none id t Ec). cbn [fchild_eqb andb].
      assert (Hxi : (x =? id) = false).
      { apply Z.eqb_neq. intros ->. exact (chain_none_notin id t Ec Hx). }
      rewrite Hxi, !eqb_reflx, fchild_eqb_refl. reflexivity.
Qed.

Theorem hide_meets_spec : forall cfg st id,
  ids_unique (r_tree st) ->
  c15_hide_checkb id (r_tree st) (r_tree (win_hide cfg st id)) = true.
Proof.
  intros cfg st id Hu. rewrite win_hide_tree. apply hide_tree_meets_spec. exact Hu.
Qed.

(* a window that is not in the tree: the model does nothing and the clause accepts that *)
Corollary hide_absent_identity : forall cfg st id,
  ~ In id (t_ids (r_tree st)) -> win_hide cfg st id = st.
Proof.
  intros cfg st id Hn. unfold win_hide.
  destruct (t_chain id (r_tree st)) as [chain|] eqn:Ec; [|reflexivity].
  exfalso. apply Hn. unfold t_chain in Ec. destruct (t_path id (r_tree st)) as [p|] eqn:Ep; [|discriminate].
  exact (path_in _ _ _ Ep).
Qed.

(* ------------------------------------------------------------------------------------ *)
(* the clause rejects the seeded behaviour                                               *)

(* the root's link names window 1 (visible, not focused itself, no focused child of its own):
   hiding 1 must drop the link whatever the window holds *)
Definition stays_before : wtree :=
  Node (mk 0 true false (Some 1)) [Node (mk 1 true false None) []].
Definition stays_seeded : wtree :=
  Node (mk 0 true false (Some 1)) [Node (mk 1 false false None) []].

Example hide_refutes_stays_linked :
  ids_unique stays_before /\
  c15_hide_checkb 1 stays_before stays_seeded = false /\
  c15_hide_checkb 1 stays_before (r_tree (win_hide no_defects (st_of stays_before) 1)) = true /\
  w_fchild (t_info (r_tree (win_hide no_defects (st_of stays_before) 1))) = None.
Proof.
  split; [|vm_compute; repeat split; reflexivity].
  unfold ids_unique. cbn. repeat constructor; cbn; intuition discriminate.
Qed.

(* the same verdict in every defect configuration (the tree does not depend on it) *)
Corollary hide_refutation_all_cfg : forall cfg,
  c15_hide_checkb 1 stays_before (r_tree (win_hide cfg (st_of stays_before) 1)) = true.
Proof.
  intros cfg. exact (hide_meets_spec cfg (st_of stays_before) 1 (proj1 hide_refutes_stays_linked)).
Qed.
