(* WinReFlushProofs.v -- expose handlers that flush the root or change geometry during a flush
   (WinReFlush.v), part 1: the live traversal do_expose2 unfolded, the principle that a
   predicate on the threaded state kept by every handler call is kept by the whole traversal
   (do_expose2_fst_inv, flush_rb2_fst_inv), and with it, for ARBITRARY scripted calls including
   RFlush and RGeom:
     flush2_flaginv   the flag invariant FlagInv survives win_flush2;
     flush2_unique    so does the uniqueness of ids over the forest (step2_unique for step2). *)
From Coq Require Import ZArith List Bool Lia ZifyBool.
From Tickit Require Import RectDefs RectProofs WinRectSet WinRectSetProofs WinDefs WinHist WinSpec
  WinExposeProofs WinFlushProofs WinLogDisjoint WinScreenInv WinLocality WinPreserve WinInput
  WinReDefs WinReProofs WinReFlags WinReStatic WinReLive WinReTrav WinReLocal WinReEstablish
  WinReForest WinReFlush.
From Tickit Require WinInputProofs.
Import ListNotations.
Local Open Scope Z_scope.
Local Strategy 1000 [rsfuel efuel].

(* ------------------------------------------------------------------------------------ *)
(* the traversal, unfolded                                                               *)

(* one entry of the copied child list *)
Definition kid_body2 (f : nat) (rh : rhandler2) (w : Z) (r : rect) (sb : fstate * rbuf) (c : Z) : fstate * rbuf :=
  let st := fs_root (fst sb) in
  if negb (child_now st w c) then sb else
  match f_find st c with
  | None => sb
  | Some cn =>
    let cr := w_rect (t_info cn) in
    if negb (w_vis (t_info cn)) then sb else
    let sb' :=
      match r_intersect r cr with
      | Some ex =>
        let b1 := rb_translate (rb_clip_to (rb_save (snd sb)) ex) (top cr) (left cr) in
        let sb2 := do_expose2 f rh c (r_translate ex (- top cr) (- left cr)) (fst sb, b1) in
        (fst sb2, rb_restore (snd sb2))
      | None => sb
      end in
    let st' := fs_root (fst sb') in
    (fst sb',
     if child_now st' w c
     then match f_find st' c with
          | Some cn' => rb_mask_rect (snd sb') (w_rect (t_info cn'))
          | None => snd sb'
          end
     else snd sb')
  end.

Definition kids_now (st : root) (w : Z) : list Z :=
  match f_find st w with Some n => map t_id (t_kids n) | None => [] end.

Lemma do_expose2_S f rh w r sb :
  do_expose2 (S f) rh w r sb =
  rh w r (fold_left (kid_body2 f rh w r) (kids_now (fs_root (fst sb)) w) sb).
Proof. reflexivity. Qed.

(* ------------------------------------------------------------------------------------ *)
(* a predicate on the threaded state that every handler call keeps                       *)

Definition rh2_keeps (P : fstate -> Prop) (rh : rhandler2) : Prop :=
  forall id r sb, P (fst sb) -> P (fst (rh id r sb)).

Lemma do_expose2_fst_inv (P : fstate -> Prop) rh :
  rh2_keeps P rh -> forall f w r sb, P (fst sb) -> P (fst (do_expose2 f rh w r sb)).
Proof.
  intros Hk. induction f as [|f IH]; intros w r sb HP; [exact HP|].
  rewrite do_expose2_S. apply Hk.
  generalize (kids_now (fs_root (fst sb)) w). intros l. revert sb HP.
  induction l as [|c l IHl]; intros sb HP; [exact HP|].
  cbn [fold_left]. apply IHl. unfold kid_body2.
  destruct (negb (child_now (fs_root (fst sb)) w c)); [exact HP|].
  destruct (f_find (fs_root (fst sb)) c) as [cn|]; [|exact HP].
  destruct (negb (w_vis (t_info cn))); [exact HP|].
  cbn [fst].
  destruct (r_intersect r (w_rect (t_info cn))) as [ex|]; [|exact HP].
  cbn [fst]. apply IH. exact HP.
Qed.

Lemma flush_rb2_fst_inv (P : fstate -> Prop) rh :
  rh2_keeps P rh -> forall rects sb, P (fst sb) -> P (fst (flush_rb2 rh rects sb)).
Proof.
  intros Hk. unfold flush_rb2. generalize efuel. intros fu.
  induction rects as [|R rest IH]; intros sb HP; [exact HP|].
  cbn [fold_left]. apply IH. cbn [fst]. apply (do_expose2_fst_inv P rh Hk). exact HP.
Qed.

Lemma run_acts2_keeps (P : fstate -> Prop) cfg hnd acts :
  (forall s a, In a acts -> P s -> P (run_act2 cfg hnd s a)) -> forall s, P s -> P (run_acts2 cfg hnd acts s).
Proof.
  unfold run_acts2. induction acts as [|a rest IH]; intros H s HP; [exact HP|].
  cbn [fold_left]. apply IH.
  - intros s' a' Hin. apply H. right; exact Hin.
  - apply H; [left; reflexivity|exact HP].
Qed.

(* a predicate on the ROOT state kept by every call is kept by the handlers *)
Lemma re_handler2_keeps (Q : root -> Prop) cfg hnd racts :
  (forall s a, Q (fs_root s) -> Q (fs_root (run_act2 cfg hnd s a))) ->
  rh2_keeps (fun s => Q (fs_root s)) (re_handler2 cfg hnd racts).
Proof.
  intros H id r sb HQ. unfold re_handler2. cbn [fst].
  apply (run_acts2_keeps (fun s => Q (fs_root s))); [|exact HQ].
  intros s a _. apply H.
Qed.

(* ------------------------------------------------------------------------------------ *)
(* the plain flush and the geometry change keep the invariants                           *)

Lemma win_flush_flaginv cfg hnd st tm : FlagInv st -> FlagInv (fst (fst (win_flush cfg hnd st tm))).
Proof.
  intros HF. destruct (r_later st) eqn:Hl.
  2:{ unfold win_flush. rewrite Hl. exact HF. }
  rewrite (win_flush_unfold cfg hnd st tm Hl). cbn zeta.
  destruct (after_queue_qinv st HF) as [Q1 Q2].
  destruct (r_nexp (after_queue st)) eqn:En.
  - cbn [fst]. unfold FlagInv; cbn [r_damage r_queue r_nexp r_later set_flags set_damage].
    rewrite Q2. split; intros H; exfalso; apply H; reflexivity.
  - assert (Ed : r_damage (after_queue st) = []).
    { assert (Hx : r_damage (after_queue st) <> [] -> False).
      { intros Hd. specialize (Q1 Hd). rewrite ?En in Q1. discriminate. }
      destruct (r_damage (after_queue st)) as [|x rest]; [reflexivity|].
      exfalso. apply Hx. discriminate. }
    destruct (r_nrest (after_queue st)); cbn [fst]; unfold FlagInv;
      cbn [r_damage r_queue r_nexp r_later set_flags]; rewrite Ed, Q2;
      split; intros H; exfalso; apply H; reflexivity.
Qed.

Lemma win_flush_dmgok cfg hnd st tm : DmgOK st -> DmgOK (fst (fst (win_flush cfg hnd st tm))).
Proof.
  intros HD. destruct (r_later st) eqn:Hl.
  2:{ unfold win_flush. rewrite Hl. exact HD. }
  rewrite (win_flush_unfold cfg hnd st tm Hl). cbn zeta.
  pose proof (after_queue_dmgok st HD) as H2.
  destruct (r_nexp (after_queue st)); [|destruct (r_nrest (after_queue st)); exact H2].
  cbn [fst]. destruct H2 as [A B]. split; [exact A|]. intros _. constructor.
Qed.

Lemma geom_flaginv st id r ex :
  FlagInv st -> FlagInv (geom_exposes st (win_set_geometry st id r) id ex).
Proof.
  intros HF.
  assert (H1 : FlagInv (win_set_geometry st id r)) by exact HF.
  unfold geom_exposes. destruct (negb ex); [exact H1|].
  destruct (t_parent_id id (r_tree st)); [|exact H1].
  destruct (win_rect st id); [|exact H1].
  destruct (win_rect (win_set_geometry st id r) id); [|exact H1].
  apply win_expose_flaginv. apply win_expose_flaginv. exact H1.
Qed.

Theorem run_act2_flaginv cfg hnd s a : FlagInv (fs_root s) -> FlagInv (fs_root (run_act2 cfg hnd s a)).
Proof.
  intros HF. destruct a as [a'| |id r ex]; cbn [run_act2].
  - cbn [fs_set_root fs_root]. apply run_act_flaginv. exact HF.
  - pose proof (win_flush_flaginv cfg hnd (fs_root s) (fs_term s) HF) as H.
    destruct (win_flush cfg hnd (fs_root s) (fs_term s)) as [[st' tm'] lg]. cbn [fst fs_root] in *. exact H.
  - cbn [fs_set_root fs_root]. apply geom_flaginv. exact HF.
Qed.

(* ------------------------------------------------------------------------------------ *)
(* win_flush2 in terms of after_queue                                                    *)

Definition loop_result2 (cfg : defects) (rh : rhandler2) (st2 : root) (tm : term) : fstate * rbuf :=
  flush_rb2 rh (flush_rects cfg st2)
            (mkFS (loop_start st2) tm [], rb_new (lines (root_selfrect st2)) (cols (root_selfrect st2))).

Lemma win_flush2_unfold cfg rh st tm :
  r_later st = true ->
  let st2 := after_queue st in
  win_flush2 cfg rh st tm =
  if r_nexp st2 then
    let sb := loop_result2 cfg rh st2 tm in
    let s := fs_root (fst sb) in
    (set_flags (set_flags s (r_nexp s) true (r_later s)) (r_nexp s) false (r_later s),
     do_restore (r_tree s) (term_flush_rb (term_set_cvis (fs_term (fst sb)) false) (snd sb)),
     fs_log (fst sb))
  else if r_nrest st2 then
    (set_flags st2 (r_nexp st2) false (r_later st2), do_restore (r_tree st2) tm, [])
  else (st2, tm, []).
Proof.
  intros Hl. unfold win_flush2. rewrite Hl. cbn [negb]. fold (after_queue st). cbn zeta.
  destruct (r_nexp (after_queue st)) eqn:E; [reflexivity|].
  destruct (r_nrest (after_queue st)) eqn:E2; rewrite ?E; reflexivity.
Qed.

(* ------------------------------------------------------------------------------------ *)
(* 3. the flag invariant, for arbitrary calls                                            *)

Theorem flush2_flaginv cfg hnd racts st tm st' tm' lg :
  FlagInv st ->
  win_flush2 cfg (re_handler2 cfg hnd racts) st tm = (st', tm', lg) ->
  FlagInv st'.
Proof.
  intros HF Hfl. destruct (r_later st) eqn:Hl.
  2:{ unfold win_flush2 in Hfl. rewrite Hl in Hfl. cbn [negb] in Hfl. injection Hfl as <- _ _. exact HF. }
  rewrite (win_flush2_unfold cfg _ st tm Hl) in Hfl. cbn zeta in Hfl.
  destruct (after_queue_qinv st HF) as [Q1 Q2].
  destruct (r_nexp (after_queue st)) eqn:En.
  - injection Hfl as <- _ _.
    assert (H0 : FlagInv (loop_start (after_queue st))).
    { unfold FlagInv, loop_start; cbn [r_damage r_queue r_nexp r_later set_flags set_damage].
      rewrite Q2. split; intros H; exfalso; apply H; reflexivity. }
    assert (H : FlagInv (fs_root (fst (loop_result2 cfg (re_handler2 cfg hnd racts) (after_queue st) tm)))).
    { unfold loop_result2. apply (flush_rb2_fst_inv (fun s => FlagInv (fs_root s))).
      - apply re_handler2_keeps. intros s a. apply run_act2_flaginv.
      - exact H0. }
    exact H.
  - assert (Ed : r_damage (after_queue st) = []).
    { assert (Hx : r_damage (after_queue st) <> [] -> False).
      { intros Hd. specialize (Q1 Hd). rewrite ?En in Q1. discriminate. }
      destruct (r_damage (after_queue st)) as [|x rest]; [reflexivity|].
      exfalso. apply Hx. discriminate. }
    destruct (r_nrest (after_queue st)); injection Hfl as <- _ _; unfold FlagInv;
      cbn [r_damage r_queue r_nexp r_later set_flags]; rewrite Ed, Q2;
      split; intros H; exfalso; apply H; reflexivity.
Qed.

(* ------------------------------------------------------------------------------------ *)
(* 4. uniqueness of the ids of the forest, for arbitrary calls                            *)

Theorem run_act2_unique cfg hnd s a :
  IP.ids_unique (fs_root s) -> IP.ids_unique (fs_root (run_act2 cfg hnd s a)).
Proof.
  intros Hfu. destruct a as [a'| |id r ex]; cbn [run_act2].
  - cbn [fs_set_root fs_root]. apply run_act_unique. exact Hfu.
  - pose proof (win_flush_unique cfg hnd (fs_root s) (fs_term s) Hfu) as H.
    destruct (win_flush cfg hnd (fs_root s) (fs_term s)) as [[st' tm'] lg]. cbn [fst fs_root] in *. exact H.
  - cbn [fs_set_root fs_root]. apply (same_ids_unique (fs_root s)); [|exact Hfu].
    eapply same_ids_trans; [apply win_set_geometry_ids|apply geom_exposes_ids].
Qed.

Theorem flush2_unique cfg hnd racts st tm :
  IP.ids_unique st -> IP.ids_unique (fst (fst (win_flush2 cfg (re_handler2 cfg hnd racts) st tm))).
Proof.
  intros Hfu. destruct (r_later st) eqn:Hl.
  2:{ unfold win_flush2. rewrite Hl. exact Hfu. }
  rewrite (win_flush2_unfold cfg _ st tm Hl). cbn zeta.
  pose proof (after_queue_forest st Hfu) as H2.
  destruct (r_nexp (after_queue st)); [|destruct (r_nrest (after_queue st)); exact H2].
  cbn [fst].
  assert (H : IP.ids_unique (fs_root (fst (loop_result2 cfg (re_handler2 cfg hnd racts) (after_queue st) tm)))).
  { unfold loop_result2. apply (flush_rb2_fst_inv (fun s => IP.ids_unique (fs_root s))).
    - apply re_handler2_keeps. intros s a. apply run_act2_unique.
    - exact H2. }
  exact H.
Qed.

Corollary step2_unique cfg progs racts o m :
  IP.ids_unique (m_root m) -> new_fresh o (m_root m) ->
  IP.ids_unique (m_root (step2 cfg progs racts o m)).
Proof.
  intros Hfu Hnew.
  destruct o; try (apply (forest_unique_step cfg progs _ m Hfu Hnew)).
  cbn [step2].
  pose proof (flush2_unique cfg (prog_handler (m_app m) progs) racts (m_root m) (m_term m) Hfu) as H.
  destruct (win_flush2 cfg (re_handler2 cfg (prog_handler (m_app m) progs) racts) (m_root m) (m_term m))
    as [[st' tm'] lg].
  cbn [fst m_root] in *. exact H.
Qed.
