(* WinReLive.v -- re-entering expose handlers, part 3(b), tools: the painter's model with the
   visibility flags read from a FUNCTION on window ids instead of from the tree (this is what
   do_expose_re does: it follows the child lists of the tree it was started on and asks the
   current root state for each child's visibility).

   own V t p        owner_rel with V (w_id c) in place of w_vis c
   rel_ids V t p    the windows whose flag MATTERS at position p: every child whose rectangle
                    contains p, and recursively below those that V says are visible
   skel t           the tree with everything but ids and rectangles forgotten

   own and rel_ids depend on the skeleton only (own_skel, rel_ids_skel); own V t p reads V on
   rel_ids V t p only (live_agree); on a tree with unique ids the live reading of the tree's own
   flags is owner_rel (own_self).  rel_reach ties rel_ids to the descent [reach] of WinLocA.v:
   a child of window pid that matters at q is reached by the descent to pid at a position
   inside the child's rectangle.

   The forest (the tree and the detached subtrees of closed windows): vis_now / f_parent read it
   tree first; f_parent depends on ids and shapes only (f_parent_skel); the root of a detached
   subtree has no parent (orphan_root_noparent).  Cutting a window w out of the tree
   (WinInputProofs.cut, what win_close does) changes neither own nor -- up to w itself --
   rel_ids at positions where w does not matter or is invisible (live_cut); [evolves T t D]: t
   comes from T by flag changes and by cutting the windows D (live_evolves). *)
From Coq Require Import ZArith List Bool Lia ZifyBool.
From Tickit Require Import RectDefs RectProofs WinRectSet WinDefs WinSpec WinExposeProofs
  WinFlushProofs WinLogDisjoint WinLocA WinLocTree WinLocality WinLocFocus WinInput WinReDefs WinReProofs.
From Tickit Require WinInputProofs.
Import ListNotations.
Local Open Scope Z_scope.

(* ------------------------------------------------------------------------------------ *)
(* the live painter's model                                                              *)

Fixpoint own (V : Z -> bool) (t : wtree) (p : cell) : Z * cell :=
  match t with
  | Node i ch =>
    match (fix first (l : list wtree) : option (Z * cell) :=
             match l with
             | [] => None
             | c :: r =>
               let ci := t_info c in
               if V (w_id ci) && cell_inb (w_rect ci) p
               then Some (own V c (fst p - top (w_rect ci), snd p - left (w_rect ci)))
               else first r
             end) ch with
    | Some x => x
    | None => (w_id i, p)
    end
  end.

Fixpoint first_own (V : Z -> bool) (l : list wtree) (p : cell) : option (Z * cell) :=
  match l with
  | [] => None
  | c :: r =>
    let ci := t_info c in
    if V (w_id ci) && cell_inb (w_rect ci) p
    then Some (own V c (fst p - top (w_rect ci), snd p - left (w_rect ci)))
    else first_own V r p
  end.

Lemma own_unfold V i ch p :
  own V (Node i ch) p = match first_own V ch p with Some x => x | None => (w_id i, p) end.
Proof.
  cbn [own].
  assert (H : forall l, (fix first (l : list wtree) : option (Z * cell) :=
             match l with
             | [] => None
             | c :: r =>
               let ci := t_info c in
               if V (w_id ci) && cell_inb (w_rect ci) p
               then Some (own V c (fst p - top (w_rect ci), snd p - left (w_rect ci)))
               else first r
             end) l = first_own V l p).
  { induction l as [|c r IH]; [reflexivity|]. cbn [first_own].
    destruct (V (w_id (t_info c)) && cell_inb (w_rect (t_info c)) p); [reflexivity|exact IH]. }
  rewrite H. reflexivity.
Qed.

Fixpoint rel_ids (V : Z -> bool) (t : wtree) (p : cell) : list Z :=
  match t with
  | Node i ch =>
    (fix go (l : list wtree) : list Z :=
       match l with
       | [] => []
       | c :: r =>
         let ci := t_info c in
         (if cell_inb (w_rect ci) p
          then w_id ci :: (if V (w_id ci)
                           then rel_ids V c (fst p - top (w_rect ci), snd p - left (w_rect ci))
                           else [])
          else []) ++ go r
       end) ch
  end.

Fixpoint rel_kids (V : Z -> bool) (l : list wtree) (p : cell) : list Z :=
  match l with
  | [] => []
  | c :: r =>
    let ci := t_info c in
    (if cell_inb (w_rect ci) p
     then w_id ci :: (if V (w_id ci)
                      then rel_ids V c (fst p - top (w_rect ci), snd p - left (w_rect ci))
                      else [])
     else []) ++ rel_kids V r p
  end.

Lemma rel_ids_unfold V i ch p : rel_ids V (Node i ch) p = rel_kids V ch p.
Proof.
  cbn [rel_ids]. induction ch as [|c r IH]; [reflexivity|]. cbn [rel_kids]. rewrite IH. reflexivity.
Qed.

(* the child c of the list matters at p *)
Lemma rel_kids_in V l c p :
  In c l -> cell_inb (w_rect (t_info c)) p = true ->
  In (t_id c) (rel_kids V l p) /\
  (V (t_id c) = true ->
   forall x, In x (rel_ids V c (fst p - top (w_rect (t_info c)), snd p - left (w_rect (t_info c)))) ->
             In x (rel_kids V l p)).
Proof.
  induction l as [|a r IH]; intros Hin Hp; [contradiction|]. cbn [rel_kids].
  destruct Hin as [->|Hin].
  - rewrite Hp. split.
    + apply in_or_app. left. left. reflexivity.
    + intros Hv x Hx. apply in_or_app. left. right. unfold t_id in Hv. rewrite Hv. exact Hx.
  - destruct (IH Hin Hp) as [H1 H2]. split.
    + apply in_or_app. right. exact H1.
    + intros Hv x Hx. apply in_or_app. right. apply H2; assumption.
Qed.

Lemma rel_kids_tail V c r p x : In x (rel_kids V r p) -> In x (rel_kids V (c :: r) p).
Proof. intros H. cbn [rel_kids]. apply in_or_app. right. exact H. Qed.

(* ------------------------------------------------------------------------------------ *)
(* own reads V on rel_ids only                                                           *)

Lemma live_agree V V' : forall t p,
  (forall x, In x (rel_ids V t p) -> V' x = V x) ->
  own V' t p = own V t p /\ rel_ids V' t p = rel_ids V t p.
Proof.
  apply (wtree_ind2 (fun t => forall p,
    (forall x, In x (rel_ids V t p) -> V' x = V x) ->
    own V' t p = own V t p /\ rel_ids V' t p = rel_ids V t p)).
  intros i ch IH p H. rewrite !own_unfold, !rel_ids_unfold. rewrite rel_ids_unfold in H.
  assert (Hk : first_own V' ch p = first_own V ch p /\ rel_kids V' ch p = rel_kids V ch p).
  { induction IH as [|c r Hc _ IHr]; [split; reflexivity|].
    cbn [first_own rel_kids] in *.
    assert (Hr : forall x, In x (rel_kids V r p) -> V' x = V x).
    { intros x Hx. apply H. apply in_or_app. right. exact Hx. }
    destruct (IHr Hr) as [E1 E2]. rewrite E1, E2.
    destruct (cell_inb (w_rect (t_info c)) p) eqn:Hin.
    - assert (Ev : V' (w_id (t_info c)) = V (w_id (t_info c))).
      { apply H. apply in_or_app. left. left. reflexivity. }
      rewrite Ev. destruct (V (w_id (t_info c))) eqn:Hv; cbn [andb].
      + destruct (Hc (fst p - top (w_rect (t_info c)), snd p - left (w_rect (t_info c)))) as [E3 E4].
        { intros x Hx. apply H. apply in_or_app. left. right. exact Hx. }
        rewrite E3, E4. split; reflexivity.
      + split; reflexivity.
    - rewrite !andb_false_r. split; reflexivity. }
  destruct Hk as [E1 E2]. rewrite E1, E2. split; reflexivity.
Qed.

(* ------------------------------------------------------------------------------------ *)
(* the skeleton                                                                          *)

Definition skel_i (i : winfo) : winfo :=
  mkW (w_id i) (w_rect i) false false false false None 0 0 0 false 0.
Definition skel (t : wtree) : wtree := t_map skel_i t.

Lemma skel_node i ch : skel (Node i ch) = Node (skel_i i) (map skel ch).
Proof. reflexivity. Qed.

Lemma skel_info t : t_info (skel t) = skel_i (t_info t).
Proof. apply tmap_info. Qed.

Lemma live_skel V : forall t p, own V (skel t) p = own V t p /\ rel_ids V (skel t) p = rel_ids V t p.
Proof.
  apply (wtree_ind2 (fun t => forall p, own V (skel t) p = own V t p /\ rel_ids V (skel t) p = rel_ids V t p)).
  intros i ch IH p. rewrite skel_node, !own_unfold, !rel_ids_unfold.
  assert (Hk : first_own V (map skel ch) p = first_own V ch p /\ rel_kids V (map skel ch) p = rel_kids V ch p).
  { induction IH as [|c r Hc _ IHr]; [split; reflexivity|]. cbn [map first_own rel_kids].
    destruct IHr as [E1 E2]. rewrite E1, E2, skel_info. cbn [skel_i w_id w_rect].
    destruct (Hc (fst p - top (w_rect (t_info c)), snd p - left (w_rect (t_info c)))) as [E3 E4].
    rewrite E3, E4. split; reflexivity. }
  destruct Hk as [E1 E2]. rewrite E1, E2. split; reflexivity.
Qed.

Lemma own_skel V t t' p : skel t' = skel t -> own V t' p = own V t p.
Proof.
  intros E. rewrite <- (proj1 (live_skel V t p)), <- (proj1 (live_skel V t' p)), E. reflexivity.
Qed.

Lemma rel_ids_skel V t t' p : skel t' = skel t -> rel_ids V t' p = rel_ids V t p.
Proof.
  intros E. rewrite <- (proj2 (live_skel V t p)), <- (proj2 (live_skel V t' p)), E. reflexivity.
Qed.

Lemma skel_ids t : t_ids (skel t) = t_ids t.
Proof. apply tmap_ids. intros i. reflexivity. Qed.

Lemma skel_eq_ids t t' : skel t' = skel t -> t_ids t' = t_ids t.
Proof. intros E. rewrite <- (skel_ids t), <- (skel_ids t'), E. reflexivity. Qed.

Lemma skel_eq_root t t' : skel t' = skel t -> w_id (t_info t') = w_id (t_info t) /\ w_rect (t_info t') = w_rect (t_info t).
Proof.
  intros E. apply (f_equal t_info) in E. rewrite !skel_info in E. unfold skel_i in E.
  injection E as E1 E2. split; assumption.
Qed.

Definition keeps_shape (f : winfo -> winfo) : Prop :=
  (forall i, w_id (f i) = w_id i) /\ (forall i, w_rect (f i) = w_rect i).

Lemma skel_update f id : keeps_shape f -> forall t, skel (t_update f id t) = skel t.
Proof.
  intros (Hid & Hrect).
  apply (wtree_ind2 (fun t => skel (t_update f id t) = skel t)).
  intros i ch IH. cbn [t_update]. rewrite !skel_node. f_equal.
  - destruct (w_id i =? id); [|reflexivity]. unfold skel_i. rewrite Hid, Hrect. reflexivity.
  - rewrite map_map. apply map_ext_in. intros c Hc. rewrite Forall_forall in IH. apply IH. exact Hc.
Qed.

(* ------------------------------------------------------------------------------------ *)
(* the flags of the tree itself                                                          *)

Definition vis_in (t : wtree) (id : Z) : bool :=
  match t_find id t with Some n => w_vis (t_info n) | None => false end.

(* a window of the tree is read in the tree, whatever the orphans *)
Lemma vis_now_tree st x n : t_find x (r_tree st) = Some n -> vis_now st x = w_vis (t_info n).
Proof. intros H. unfold vis_now, node_now, f_find, forest. cbn [first_some]. rewrite H. reflexivity. Qed.

Lemma vis_now_in st x :
  NoDup (t_ids (r_tree st)) -> In x (t_ids (r_tree st)) -> vis_now st x = vis_in (r_tree st) x.
Proof.
  intros Hnd Hin. destruct (t_find_some x _ Hnd Hin) as [n Hn].
  rewrite (vis_now_tree st x n Hn). unfold vis_in. rewrite Hn. reflexivity.
Qed.

(* V tells the truth about the flags of t *)
Definition Vok (V : Z -> bool) (t : wtree) : Prop :=
  forall c, subtree c t -> V (t_id c) = w_vis (t_info c).

Lemma Vok_self T : NoDup (t_ids T) -> Vok (vis_in T) T.
Proof. intros Hnd c Hc. unfold vis_in. rewrite (t_find_subtree c T Hc Hnd). reflexivity. Qed.

Lemma Vok_sub V t n : Vok V t -> subtree n t -> Vok V n.
Proof. intros H Hn c Hc. apply H. eapply subtree_trans; eassumption. Qed.

Lemma own_self V : forall t, Vok V t -> forall p, own V t p = owner_rel t p.
Proof.
  apply (wtree_ind2 (fun t => Vok V t -> forall p, own V t p = owner_rel t p)).
  intros i ch IH Hok p. rewrite own_unfold, owner_rel_unfold.
  assert (Hk : first_own V ch p = first_owner ch p).
  { assert (Hokk : forall c, In c ch -> Vok V c).
    { intros c Hc. apply (Vok_sub V (Node i ch)); [exact Hok|]. apply (subtree_kid c (Node i ch)). exact Hc. }
    clear Hok. induction IH as [|c r Hc _ IHr]; [reflexivity|]. cbn [first_own first_owner].
    assert (Ev : V (w_id (t_info c)) = w_vis (t_info c)).
    { apply (Hokk c (or_introl eq_refl) c). constructor. }
    rewrite Ev, (Hc (Hokk c (or_introl eq_refl))), IHr; [reflexivity|].
    intros c0 Hc0. apply Hokk. right; exact Hc0. }
  rewrite Hk. reflexivity.
Qed.

(* what matters lies strictly below *)
Lemma rel_ids_below V : forall t p x, In x (rel_ids V t p) -> In x (flat_map t_ids (t_kids t)).
Proof.
  apply (wtree_ind2 (fun t => forall p x, In x (rel_ids V t p) -> In x (flat_map t_ids (t_kids t)))).
  intros i ch IH p x. rewrite rel_ids_unfold. cbn [t_kids].
  induction IH as [|c r Hc _ IHr]; intros Hx; [contradiction|].
  cbn [rel_kids flat_map] in *. apply in_app_or in Hx. apply in_or_app. destruct Hx as [Hx|Hx].
  - left. destruct (cell_inb (w_rect (t_info c)) p); [|contradiction].
    destruct Hx as [<-|Hx]; [apply t_id_in|].
    destruct (V (w_id (t_info c))); [|contradiction].
    destruct c as [ic kc]. cbn [t_ids]. right. apply (Hc _ _ Hx).
  - right. apply IHr. exact Hx.
Qed.

(* ------------------------------------------------------------------------------------ *)
(* rel_ids and the descent                                                               *)

Lemma rel_kids_inv V l p x :
  In x (rel_kids V l p) ->
  exists c, In c l /\ cell_inb (w_rect (t_info c)) p = true /\
    (x = t_id c \/
     (V (t_id c) = true /\
      In x (rel_ids V c (fst p - top (w_rect (t_info c)), snd p - left (w_rect (t_info c)))))).
Proof.
  induction l as [|c r IH]; intros Hx; [contradiction|]. cbn [rel_kids] in Hx.
  apply in_app_or in Hx. destruct Hx as [Hx|Hx].
  - exists c. split; [left; reflexivity|].
    destruct (cell_inb (w_rect (t_info c)) p); [|contradiction]. split; [reflexivity|].
    destruct Hx as [<-|Hx]; [left; reflexivity|]. right. unfold t_id.
    destruct (V (w_id (t_info c))); [|contradiction]. split; [reflexivity|exact Hx].
  - destruct (IH Hx) as (c0 & Hin & H). exists c0. split; [right; exact Hin|exact H].
Qed.

Theorem rel_reach V pid ch ch' t t' D :
  kids_changed pid ch ch' t t' D -> NoDup (t_ids t) -> Vok V t ->
  forall w q, In w ch -> In (t_id w) (rel_ids V t q) ->
  exists q', reach (map geo D) q = Some q' /\ cell_inb (w_rect (t_info w)) q' = true.
Proof.
  induction 1 as [i Hi|i l1 c c' l2 D Hi Hl1 Hkc IH]; intros Hnd Hok w q Hw Hrel.
  - (* pid is here: w is one of the children *)
    rewrite rel_ids_unfold in Hrel. apply rel_kids_inv in Hrel.
    destruct Hrel as (c & Hc & Hp & [E|[_ Hx]]).
    + apply nodup_node in Hnd. destruct Hnd as [_ Hndk].
      assert (c = w) by (apply (kids_same_id ch c w Hndk Hc Hw); symmetry; exact E). subst c.
      exists q. split; [reflexivity|exact Hp].
    + exfalso. apply nodup_node in Hnd. destruct Hnd as [_ Hndk].
      apply rel_ids_below in Hx.
      assert (Hxc : In (t_id w) (t_ids c)).
      { destruct c as [ic kc]. cbn [t_ids t_kids] in *. right. exact Hx. }
      assert (c = w) by (apply (kids_share ch c w (t_id w) Hndk Hc Hw Hxc); apply t_id_in). subst c.
      pose proof (nodup_kid _ _ Hndk Hw) as Nw. destruct w as [iw kw]. cbn [t_ids t_kids t_id t_info] in *.
      inversion Nw; subst. contradiction.
  - (* pid is below the child c *)
    pose proof (nodup_node _ _ Hnd) as [Hni Hndk].
    pose proof (nodup_split _ _ _ Hndk) as (_ & Nc & _ & Xc & _).
    destruct (kc_nodes _ _ _ _ _ _ Hkc) as (j & Hj & Hsub & _).
    assert (Hwc : subtree w c).
    { eapply subtree_trans; [|exact Hsub]. apply (subtree_kid w (Node j ch)). exact Hw. }
    assert (Hidc : In (t_id w) (t_ids c)) by (eapply subtree_ids; [exact Hwc|apply t_id_in]).
    assert (Hne : t_id w <> t_id c).
    { intros E.
      (* w is a strict descendant of c: its id is among the ids of c's children *)
      assert (Hstrict : In (t_id w) (flat_map t_ids (t_kids c))).
      { clear -Hsub Hw. remember (Node j ch) as n eqn:En. revert En.
        induction Hsub as [|i0 ch0 k Hk Hs IHs]; intros En.
        - subst n. cbn [t_kids]. eapply in_kid_ids; [exact Hw|apply t_id_in].
        - cbn [t_kids]. eapply in_kid_ids; [exact Hk|].
          eapply subtree_ids; [exact Hs|]. subst n. cbn [t_ids]. right.
          eapply in_kid_ids; [exact Hw|apply t_id_in]. }
      destruct c as [ic kc]. cbn [t_ids t_kids t_id t_info] in *. rewrite E in Hstrict.
      inversion Nc; subst. contradiction. }
    rewrite rel_ids_unfold in Hrel. apply rel_kids_inv in Hrel.
    destruct Hrel as (c0 & Hc0 & Hp & Hcase).
    assert (Hin0 : In (t_id w) (t_ids c0)).
    { destruct Hcase as [E|[_ Hx]]; [rewrite E; apply t_id_in|].
      apply rel_ids_below in Hx. destruct c0 as [i0 k0]. cbn [t_ids t_kids] in *. right. exact Hx. }
    assert (c0 = c).
    { apply (kids_share (l1 ++ c :: l2) c0 c (t_id w) Hndk Hc0 (in_elt c l1 l2) Hin0 Hidc). }
    subst c0. destruct Hcase as [E|[Hv Hx]]; [contradiction|].
    assert (Hokc : Vok V c).
    { apply (Vok_sub V _ c Hok). apply (subtree_kid c (Node i (l1 ++ c :: l2))). apply in_elt. }
    destruct (IH Nc Hokc w _ Hw Hx) as (q' & Hr & Hq').
    exists q'. split; [|exact Hq']. cbn [map reach]. unfold geo at 1 2 3 4. cbn [fst snd].
    assert (Ev : w_vis (t_info c) = true) by (rewrite <- (Hokc c (sub_here c)); exact Hv).
    rewrite Ev, Hp. cbn [andb]. exact Hr.
Qed.

(* ------------------------------------------------------------------------------------ *)
(* t_find and vis_in after an info update                                                *)

Lemma find_update f y x : keeps_id f -> forall t,
  t_find x (t_update f y t) = option_map (t_update f y) (t_find x t).
Proof.
  intros Hf.
  apply (wtree_ind2 (fun t => t_find x (t_update f y t) = option_map (t_update f y) (t_find x t))).
  intros i ch IH.
  assert (Hg : find_go x (map (t_update f y) ch) = option_map (t_update f y) (find_go x ch)).
  { induction IH as [|c r Hc _ IHr]; [reflexivity|]. cbn [map]. rewrite !find_go_cons, Hc.
    destruct (t_find x c); cbn [option_map]; [reflexivity|exact IHr]. }
  rewrite (t_find_unfold x i ch).
  change (t_update f y (Node i ch)) with (Node (if w_id i =? y then f i else i) (map (t_update f y) ch)).
  rewrite t_find_unfold.
  assert (Hid : w_id (if w_id i =? y then f i else i) = w_id i).
  { destruct (w_id i =? y); [apply Hf|reflexivity]. }
  rewrite Hid, Hg. destruct (w_id i =? x); reflexivity.
Qed.

Lemma vis_in_update f y x t : keeps_id f ->
  vis_in (t_update f y t) x =
  match t_find x t with
  | Some n => if x =? y then w_vis (f (t_info n)) else w_vis (t_info n)
  | None => false
  end.
Proof.
  intros Hf. unfold vis_in. rewrite (find_update f y x Hf).
  destruct (t_find x t) as [n|] eqn:E; cbn [option_map]; [|reflexivity].
  rewrite update_info. destruct (t_find_sub _ _ _ E) as [_ Hid]. rewrite Hid.
  destruct (x =? y); reflexivity.
Qed.

Lemma vis_in_update_other f y x t : keeps_id f -> x <> y -> vis_in (t_update f y t) x = vis_in t x.
Proof.
  intros Hf Hne. rewrite (vis_in_update f y x t Hf). unfold vis_in.
  destruct (t_find x t); [|reflexivity]. replace (x =? y) with false by lia. reflexivity.
Qed.

Lemma vis_in_update_keeps f y x t :
  keeps_id f -> (forall i, w_vis (f i) = w_vis i) -> vis_in (t_update f y t) x = vis_in t x.
Proof.
  intros Hf Hv. rewrite (vis_in_update f y x t Hf). unfold vis_in.
  destruct (t_find x t); [|reflexivity]. rewrite Hv. destruct (x =? y); reflexivity.
Qed.

(* ------------------------------------------------------------------------------------ *)
(* the forest: the tree and the detached subtrees                                        *)

Module IP := WinInputProofs.

Lemma Vok_now st : NoDup (t_ids (r_tree st)) -> Vok (vis_now st) (r_tree st).
Proof.
  intros Hnd c Hc. apply vis_now_tree. apply (t_find_subtree c _ Hc Hnd).
Qed.

Lemma tree_subl st n : subtree n (r_tree st) -> IP.subl n (forest st).
Proof. intros H. exists (r_tree st). split; [left; reflexivity|apply subtree_sub; exact H]. Qed.

Lemma forest_tree_nodup st : IP.ids_unique st -> NoDup (t_ids (r_tree st)).
Proof.
  unfold IP.ids_unique, IP.forest_ids, forest. cbn [flat_map]. intros H.
  apply IP.NoDup_app_inv in H. destruct H as (H & _). exact H.
Qed.

(* the parent found by f_parent *)
Lemma t_parent_node_spec id : forall t p,
  t_parent_node id t = Some p -> IP.sub p t /\ exists c, In c (t_kids p) /\ t_id c = id.
Proof.
  induction t as [i ch IH] using IP.wtree_ind'. intros p H. rewrite IP.t_parent_node_eq in H.
  destruct (existsb (fun c => t_id c =? id) ch) eqn:E.
  - injection H as <-. split; [apply IP.sub_refl|]. apply existsb_exists in E.
    destruct E as (c & Hc & Hid). exists c. split; [exact Hc|lia].
  - apply IP.first_some_some in H. destruct H as (c & Hc & Hp).
    rewrite Forall_forall in IH. destruct (IH c Hc p Hp) as [Hs Hk].
    split; [|exact Hk]. eapply IP.sub_kid; [|exact Hs]. exact Hc.
Qed.

Lemma f_parent_inv st c a :
  f_parent st c = Some a ->
  exists p c', IP.subl p (forest st) /\ t_id p = a /\ In c' (t_kids p) /\ t_id c' = c.
Proof.
  unfold f_parent. destruct (first_some (t_parent_node c) (forest st)) as [p|] eqn:E; [|discriminate].
  intros H. injection H as <-. apply IP.first_some_some in E. destruct E as (t & Ht & Hp).
  destruct (t_parent_node_spec c t p Hp) as [Hs (c' & Hc' & Hid)].
  exists p, c'. split; [exists t; split; assumption|]. split; [reflexivity|]. split; assumption.
Qed.

(* the root of a detached subtree has no parent *)
Lemma orphan_root_noparent st n :
  IP.ids_unique st -> In n (r_orphans st) -> f_parent st (t_id n) = None.
Proof.
  intros Hu Hn. destruct (f_parent st (t_id n)) as [a|] eqn:E; [|reflexivity]. exfalso.
  destruct (f_parent_inv st _ a E) as (p & c' & (t & Ht & Hs) & _ & Hc' & Hid).
  (* the id of n occurs in t as the id of a non-root window, and in n as the id of the root *)
  assert (Hin_t : In (t_id n) (flat_map IP.t_ids (t_kids t))).
  { rewrite <- Hid. eapply IP.kid_in_ids; eassumption. }
  assert (Hn' : In n (forest st)) by (right; exact Hn).
  assert (Hint : In (t_id n) (IP.t_ids t)) by (rewrite IP.t_ids_eq; right; exact Hin_t).
  assert (Etn : t = n).
  { apply (IP.NoDup_flat_sep (forest st) t n (t_id n) Hu Ht Hn' Hint (IP.t_id_in n)). }
  subst t. pose proof (IP.NoDup_flat_in _ _ Hu Hn') as Nn. apply IP.NoDup_kids in Nn.
  destruct Nn as [_ Nn]. exact (Nn Hin_t).
Qed.

(* f_parent reads ids and shapes only *)
Lemma tpn_skel x : forall t,
  option_map t_id (t_parent_node x (skel t)) = option_map t_id (t_parent_node x t).
Proof.
  induction t as [i ch IH] using IP.wtree_ind'. rewrite skel_node, !IP.t_parent_node_eq.
  assert (He : existsb (fun c => t_id c =? x) (map skel ch) = existsb (fun c => t_id c =? x) ch).
  { clear IH. induction ch as [|c r IHr]; [reflexivity|]. cbn [map existsb]. rewrite IHr.
    unfold t_id at 1. rewrite skel_info. reflexivity. }
  rewrite He. destruct (existsb (fun c => t_id c =? x) ch); [reflexivity|]. clear He.
  induction IH as [|c r Hc _ IHr]; [reflexivity|]. cbn [map first_some].
  destruct (t_parent_node x (skel c)) as [a|] eqn:E1; destruct (t_parent_node x c) as [b|] eqn:E2;
    cbn [option_map] in *; try discriminate; [exact Hc|exact IHr].
Qed.

Lemma first_some_skel x (l : list wtree) :
  option_map t_id (first_some (t_parent_node x) (map skel l)) = option_map t_id (first_some (t_parent_node x) l).
Proof.
  induction l as [|c r IH]; [reflexivity|]. cbn [map first_some]. pose proof (tpn_skel x c) as Hc.
  destruct (t_parent_node x (skel c)) as [a|]; destruct (t_parent_node x c) as [b|];
    cbn [option_map] in *; try discriminate; [exact Hc|exact IH].
Qed.

Lemma f_parent_opt st x : f_parent st x = option_map t_id (first_some (t_parent_node x) (forest st)).
Proof. unfold f_parent. destruct (first_some (t_parent_node x) (forest st)); reflexivity. Qed.

Lemma f_parent_skel st st' x :
  map skel (forest st') = map skel (forest st) -> f_parent st' x = f_parent st x.
Proof.
  intros E. rewrite !f_parent_opt, <- (first_some_skel x (forest st')), E. apply first_some_skel.
Qed.

(* ------------------------------------------------------------------------------------ *)
(* cutting a window out of the tree                                                      *)

Lemma cut_node w i ch :
  exists i', IP.cut w (Node i ch) = Node i' (kids_remove w (map (IP.cut w) ch)) /\
             w_id i' = w_id i /\ w_rect i' = w_rect i.
Proof.
  cbn [IP.cut]. destruct (existsb (fun c => t_id c =? w) ch && opt_eqb (w_fchild i) w);
    eexists; (split; [reflexivity|split; reflexivity]).
Qed.

Lemma cut_info w n :
  w_id (t_info (IP.cut w n)) = w_id (t_info n) /\ w_rect (t_info (IP.cut w n)) = w_rect (t_info n).
Proof.
  destruct n as [i ch]. destruct (cut_node w i ch) as (i' & -> & H1 & H2). cbn [t_info]. split; assumption.
Qed.

Lemma live_cut V w : forall t p,
  (In w (rel_ids V t p) -> V w = false) ->
  own V (IP.cut w t) p = own V t p /\
  incl (rel_ids V (IP.cut w t) p) (rel_ids V t p) /\
  (forall x, In x (rel_ids V t p) -> x = w \/ In x (rel_ids V (IP.cut w t) p)).
Proof.
  apply (wtree_ind2 (fun t => forall p,
    (In w (rel_ids V t p) -> V w = false) ->
    own V (IP.cut w t) p = own V t p /\
    incl (rel_ids V (IP.cut w t) p) (rel_ids V t p) /\
    (forall x, In x (rel_ids V t p) -> x = w \/ In x (rel_ids V (IP.cut w t) p)))).
  intros i ch IH p Hw. destruct (cut_node w i ch) as (i' & -> & Hid & _).
  rewrite !own_unfold, !rel_ids_unfold, Hid. rewrite rel_ids_unfold in Hw.
  assert (Hk : first_own V (kids_remove w (map (IP.cut w) ch)) p = first_own V ch p /\
               incl (rel_kids V (kids_remove w (map (IP.cut w) ch)) p) (rel_kids V ch p) /\
               (forall x, In x (rel_kids V ch p) -> x = w \/ In x (rel_kids V (kids_remove w (map (IP.cut w) ch)) p))).
  { induction IH as [|c r Hc _ IHr].
    - unfold kids_remove. cbn [map filter first_own rel_kids]. split; [reflexivity|]. split; [apply incl_refl|]. intros x [].
    - cbn [map]. rewrite kids_remove_cons. rewrite IP.cut_id_eq.
      cbn [rel_kids first_own] in Hw |- *.
      assert (Hwr : In w (rel_kids V r p) -> V w = false).
      { intros H. apply Hw. apply in_or_app. right. exact H. }
      destruct (IHr Hwr) as (E1 & E2 & E3).
      destruct (t_id c =? w) eqn:Ecw.
      + (* the child is w itself *)
        assert (Ew : w_id (t_info c) = w) by (unfold t_id in Ecw; lia).
        destruct (cell_inb (w_rect (t_info c)) p) eqn:Hin.
        * assert (Hvw : V w = false).
          { apply Hw. apply in_or_app. left. left. exact Ew. }
          rewrite Ew, Hvw. cbn [andb]. split; [exact E1|]. split.
          -- intros x Hx. apply in_or_app. right. apply E2. exact Hx.
          -- intros x Hx. apply in_app_or in Hx. destruct Hx as [[Hx|[]]|Hx]; [left; symmetry; exact Hx|apply E3; exact Hx].
        * rewrite andb_false_r. split; [exact E1|]. split.
          -- intros x Hx. apply in_or_app. right. apply E2. exact Hx.
          -- intros x Hx. apply in_app_or in Hx. destruct Hx as [[]|Hx]. apply E3. exact Hx.
      + cbn [rel_kids first_own]. destruct (cut_info w c) as [Ei Er]. rewrite Ei, Er.
        destruct (cell_inb (w_rect (t_info c)) p) eqn:Hin.
        * destruct (V (w_id (t_info c))) eqn:Hv; cbn [andb].
          -- destruct (Hc (fst p - top (w_rect (t_info c)), snd p - left (w_rect (t_info c)))) as (F1 & F2 & F3).
             { intros H. apply Hw. apply in_or_app. left. right. exact H. }
             rewrite F1. split; [reflexivity|]. split.
             ++ intros x Hx. apply in_app_or in Hx. apply in_or_app. destruct Hx as [[Hx|Hx]|Hx].
                ** left. left. exact Hx.
                ** left. right. apply F2. exact Hx.
                ** right. apply E2. exact Hx.
             ++ intros x Hx. apply in_app_or in Hx. destruct Hx as [[Hx|Hx]|Hx].
                ** right. apply in_or_app. left. left. exact Hx.
                ** destruct (F3 x Hx) as [H|H]; [left; exact H|right; apply in_or_app; left; right; exact H].
                ** destruct (E3 x Hx) as [H|H]; [left; exact H|right; apply in_or_app; right; exact H].
          -- rewrite E1. split; [reflexivity|]. split.
             ++ intros x Hx. apply in_app_or in Hx. apply in_or_app. destruct Hx as [Hx|Hx]; [left; exact Hx|right; apply E2; exact Hx].
             ++ intros x Hx. apply in_app_or in Hx. destruct Hx as [Hx|Hx].
                ** right. apply in_or_app. left. exact Hx.
                ** destruct (E3 x Hx) as [H|H]; [left; exact H|right; apply in_or_app; right; exact H].
        * rewrite !andb_false_r. cbn [app]. split; [exact E1|]. split; [exact E2|exact E3]. }
  destruct Hk as (E1 & E2 & E3). rewrite E1. split; [reflexivity|]. split; assumption.
Qed.

(* the tree t comes from T by info changes that keep ids and rectangles, and by cutting out the
   windows listed in D *)
Inductive evolves (T : wtree) : wtree -> list Z -> Prop :=
| ev_refl : evolves T T []
| ev_upd t D f y : keeps_shape f -> evolves T t D -> evolves T (t_update f y t) D
| ev_cut t D w : evolves T t D -> evolves T (IP.cut w t) (w :: D).

Lemma evolves_root T t D :
  evolves T t D -> w_id (t_info t) = w_id (t_info T) /\ w_rect (t_info t) = w_rect (t_info T).
Proof.
  induction 1 as [|t D f y Hf _ IH|t D w _ IH]; [split; reflexivity| |].
  - destruct (skel_eq_root _ _ (skel_update f y Hf t)) as [H1 H2]. destruct IH as [I1 I2]. split; congruence.
  - destruct (cut_info w t) as [H1 H2]. destruct IH as [I1 I2]. split; congruence.
Qed.

Theorem live_evolves V T t D p :
  evolves T t D ->
  (forall x, In x D -> In x (rel_ids V T p) -> V x = false) ->
  own V t p = own V T p /\
  incl (rel_ids V t p) (rel_ids V T p) /\
  (forall x, In x (rel_ids V T p) -> In x D \/ In x (rel_ids V t p)).
Proof.
  induction 1 as [|t D f y Hf _ IH|t D w _ IH]; intros HD.
  - split; [reflexivity|]. split; [apply incl_refl|]. intros x Hx. right. exact Hx.
  - destruct (IH HD) as (E1 & E2 & E3).
    rewrite (own_skel V t (t_update f y t) p (skel_update f y Hf t)).
    rewrite (rel_ids_skel V t (t_update f y t) p (skel_update f y Hf t)).
    split; [exact E1|]. split; assumption.
  - destruct (IH (fun x Hx => HD x (or_intror Hx))) as (E1 & E2 & E3).
    destruct (live_cut V w t p) as (F1 & F2 & F3).
    { intros Hw. apply (HD w (or_introl eq_refl)). apply E2. exact Hw. }
    split; [rewrite F1; exact E1|]. split.
    + intros x Hx. apply E2. apply F2. exact Hx.
    + intros x Hx. destruct (E3 x Hx) as [H|H]; [left; right; exact H|].
      destruct (F3 x H) as [->|H']; [left; left; reflexivity|right; exact H'].
Qed.

(* every window that matters is a child of some window of the tree *)
Lemma rel_ids_kid V : forall t p x, In x (rel_ids V t p) ->
  exists n c, subtree n t /\ In c (t_kids n) /\ t_id c = x.
Proof.
  apply (wtree_ind2 (fun t => forall p x, In x (rel_ids V t p) ->
    exists n c, subtree n t /\ In c (t_kids n) /\ t_id c = x)).
  intros i ch IH p x Hx. rewrite rel_ids_unfold in Hx. apply rel_kids_inv in Hx.
  destruct Hx as (c & Hc & _ & [E|[_ Hx]]).
  - exists (Node i ch), c. split; [constructor|]. split; [exact Hc|symmetry; exact E].
  - rewrite Forall_forall in IH. destruct (IH c Hc _ _ Hx) as (n & c' & Hn & Hc' & Hid).
    exists n, c'. split; [eapply sub_kid; eassumption|]. split; assumption.
Qed.
