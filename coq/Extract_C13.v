From Coq Require Extraction.
From Coq Require Import ExtrOcamlBasic.
From Tickit Require Import RectDefs RBDefs RBSpec RBCopyDefs RBCopySpec.
From Tickit Require PenDefs.
Extraction "mC13.ml" rb_new pget pen_build pen_empty PenDefs.attr_type step a_new astep dump_checkb api_of abs_rb wf_rbb ast_eqb aux_eqb
  grapheme_at cpw text_valid text_width
  copyrect_op moverect_op blit a_copyrect a_moverect a_blit dump_disp_checkb ast_disp_eqb.
