(* LoopPipeProofs.v -- C18 for the self-pipe fallback: a signal recorded at any point --
   before an iteration, from a deferred callback, between the wakeup read and the snapshot, or
   from inside a signal callback of the running dispatch -- keeps an unread wakeup byte until it
   has been handed to the watchers, so the next iteration dispatches it without a further
   signal. *)
From Coq Require Import ZArith List Bool Lia.
From Tickit Require Import LoopDefs LoopSigDefs LoopSigProofs LoopPipeDefs.
Import ListNotations.
Local Open Scope Z_scope.

(* every recorded, not yet snapshotted signal has a wakeup byte waiting in the pipe *)
Definition Woken (s : fst) : Prop := f_pend s = [] \/ (0 < f_pipe s)%nat.

Lemma arrive_woken : forall s sig, Woken s -> Woken (f_arrive s sig) /\ (f_pipe s <= f_pipe (f_arrive s sig))%nat.
Proof.
  intros s sig H. unfold f_arrive. destruct (f_watched s sig); [|split; [exact H|lia]].
  split; [right; cbn; lia|cbn; lia].
Qed.

Lemma arrive_pend_incl : forall s sig x, In x (f_pend s) -> In x (f_pend (f_arrive s sig)).
Proof.
  intros s sig x H. unfold f_arrive. destruct (f_watched s sig); [|exact H].
  cbn [f_pend fu_pipe fu_pend]. unfold addz. destruct (memz sig (f_pend s)); [exact H|apply in_or_app; left; exact H].
Qed.

Section Fallback.
Variable env : Z -> list saction.

Lemma cancel_fields : forall s id, f_pend (f_cancel s id) = f_pend s /\ f_pipe (f_cancel s id) = f_pipe s.
Proof.
  intros s id. unfold f_cancel.
  destruct (find_sgw id (f_sgws s)) as [w|].
  { cbn [f_cursor fu_sgws]. destruct (f_cursor s) as [cu|]; [destruct (cu =? id)|]; destruct (g_unbind w); split; reflexivity. }
  destruct (find_ltr id (f_dl s)) as [w|]; [destruct (l_unbind w); split; reflexivity|].
  destruct (find_ltr id (f_dr s)) as [w|]; [destruct (l_unbind w); split; reflexivity|].
  split; reflexivity.
Qed.

Lemma action_woken : forall s a, Woken s ->
  Woken (f_action s a) /\ (f_pipe s <= f_pipe (f_action s a))%nat /\ (forall x, In x (f_pend s) -> In x (f_pend (f_action s a))).
Proof.
  intros s a H. destruct a as [ub cb|fd cond ub cb|sig ub cb|id|e|sig| |]; cbn [f_action];
    try (split; [exact H|split; [apply le_n|intros x Hx; exact Hx]]).
  - destruct (cancel_fields s id) as [E1 E2]. unfold Woken. rewrite E1, E2. split; [exact H|split; [lia|auto]].
  - destruct (arrive_woken s sig H) as [A1 A2]. split; [exact A1|split; [exact A2|apply arrive_pend_incl]].
Qed.

Lemma actions_woken : forall l s, Woken s ->
  Woken (f_actions s l) /\ (f_pipe s <= f_pipe (f_actions s l))%nat /\ (forall x, In x (f_pend s) -> In x (f_pend (f_actions s l))).
Proof.
  induction l as [|a l IH]; intros s H; [split; [exact H|split; [cbn; lia|auto]]|].
  unfold f_actions in *. cbn [fold_left]. destruct (action_woken s a H) as [A1 [A2 A3]].
  destruct (IH _ A1) as [B1 [B2 B3]]. split; [exact B1|split; [lia|auto]].
Qed.

Lemma drun_woken : forall n s, Woken s ->
  Woken (f_drun_loop env n s) /\ (f_pipe s <= f_pipe (f_drun_loop env n s))%nat /\
  (forall x, In x (f_pend s) -> In x (f_pend (f_drun_loop env n s))).
Proof.
  induction n as [|n IH]; intros s H; [split; [exact H|split; [cbn; lia|auto]]|].
  cbn [f_drun_loop]. destruct (f_dr s) as [|w r]; [split; [exact H|split; [lia|auto]]|].
  set (s1 := femit (fu_dr s r) (l_id w) KLater (EV_FIRE + EV_UNBIND) 0).
  assert (H1 : Woken s1) by exact H.
  destruct (actions_woken (env (l_cb w)) s1 H1) as [A1 [A2 A3]].
  destruct (IH _ A1) as [B1 [B2 B3]]. split; [exact B1|split; [|]].
  - eapply Nat.le_trans; [|exact B2]. exact A2.
  - intros x Hx. apply B3. apply A3. exact Hx.
Qed.

Lemma laters_woken : forall s, Woken s ->
  Woken (f_invoke_laters env s) /\ (f_pipe s <= f_pipe (f_invoke_laters env s))%nat /\
  (forall x, In x (f_pend s) -> In x (f_pend (f_invoke_laters env s))).
Proof.
  intros s H. unfold f_invoke_laters.
  exact (drun_woken (length (f_dr (fu_dl (fu_dr s (f_dr s ++ f_dl s)) []))) (fu_dl (fu_dr s (f_dr s ++ f_dl s)) []) H).
Qed.

Lemma walk_woken : forall fuel bound this snap s s', Woken s -> f_walk env fuel bound this snap s = Some s' -> Woken s'.
Proof.
  induction fuel as [|f IH]; intros bound this snap s s' H Hw; [discriminate|].
  cbn [f_walk] in Hw. destruct this as [id|]; [|inversion Hw; subst; exact H].
  destruct (find_sgw id (f_sgws s)) as [w|]; [|discriminate].
  eapply IH; [|exact Hw]. destruct (memz (g_sig w) snap && (g_id w <? bound)); [|exact H].
  apply actions_woken. exact H.
Qed.

Lemma arrivals_woken : forall s, Woken s -> Woken (f_arrivals s).
Proof.
  intros s H. unfold f_arrivals.
  assert (G : forall l s0, Woken s0 -> Woken (fold_left f_arrive l s0)).
  { induction l as [|a l IH]; intros s0 H0; [exact H0|]. cbn [fold_left]. apply IH. apply arrive_woken. exact H0. }
  exact (G (f_between s) s H).
Qed.

(* the repaired on_sigpipe_readable: whatever was recorded when the snapshot is taken is in
   the snapshot; whatever is recorded afterwards has its own unread byte *)
Lemma sigpipe_woken : forall fuel s s', f_sigpipe false env fuel s = Some s' -> Woken s'.
Proof.
  intros fuel s s' H. unfold f_sigpipe in H.
  eapply walk_woken; [|exact H]. left. reflexivity.
Qed.

Lemma tick_woken : forall fuel s s', Woken s -> f_tick false env fuel s = Some s' -> Woken s'.
Proof.
  intros fuel s s' H Ht. unfold f_tick in Ht.
  destruct (Nat.ltb 0 (f_pipe (fu_log (fu_iter s (f_iter s + 1)) (OPoll 0 :: f_log (fu_iter s (f_iter s + 1)))))).
  - eapply sigpipe_woken. exact Ht.
  - inversion Ht; subst. apply laters_woken. exact H.
Qed.

Lemma f_op_none : forall dl fuel ops, fold_left (f_op dl env fuel) ops None = None.
Proof. induction ops as [|o r IH]; [reflexivity|exact IH]. Qed.

(* C18 (fallback): after every step of every script, a recorded signal that has not been handed
   to the watchers yet has a wakeup byte waiting ... *)
Theorem fallback_woken : forall fuel ops s, f_run_ops false env fuel ops = Some s -> Woken s.
Proof.
  intros fuel ops. unfold f_run_ops.
  assert (G : forall ops s0 s, Woken s0 -> fold_left (f_op false env fuel) ops (Some s0) = Some s -> Woken s).
  { induction ops0 as [|o r IH]; intros s0 s H Hf; [inversion Hf; subst; exact H|].
    cbn [fold_left] in Hf. destruct (f_op false env fuel (Some s0) o) as [s1|] eqn:E; [|rewrite f_op_none in Hf; discriminate].
    eapply IH; [|exact Hf]. destruct o as [a|sg|sg]; cbn [f_op] in E.
    - inversion E; subst. apply action_woken. exact H.
    - eapply tick_woken; eassumption.
    - inversion E; subst. exact H. }
  intros s Hf. eapply G; [|exact Hf]. left. reflexivity.
Qed.

(* ... so the next iteration finds the pipe readable and runs on_sigpipe_readable, whose
   snapshot contains everything recorded up to that moment (the signals the deferred callbacks
   of that iteration raise included) *)
Theorem fallback_next_iteration_dispatches : forall fuel s, Woken s -> f_pend s <> [] ->
  exists s2, f_tick false env fuel s = f_sigpipe false env fuel s2 /\
             (forall x, In x (f_pend s) -> In x (f_pend s2)) /\ (0 < f_pipe s2)%nat.
Proof.
  intros fuel s H Hp. destruct H as [H|H]; [contradiction|].
  unfold f_tick. set (s1 := fu_log (fu_iter s (f_iter s + 1)) (OPoll 0 :: f_log (fu_iter s (f_iter s + 1)))).
  assert (E : Nat.ltb 0 (f_pipe s1) = true) by (apply Nat.ltb_lt; exact H). rewrite E.
  exists (f_invoke_laters env s1). split; [reflexivity|].
  destruct (laters_woken s1 (or_intror H)) as [_ [A2 A3]]. split; [exact A3|].
  eapply Nat.lt_le_trans; [exact H|exact A2].
Qed.

(* the snapshot of the repaired dispatch = the pending set after the wakeup read (and the
   arrivals right after it); the pending set is emptied *)
Theorem fallback_snapshot : forall fuel s,
  f_sigpipe false env fuel s =
  let s0 := f_arrivals (fu_pipe s (f_pipe s - 1)%nat) in
  f_walk env fuel (f_next s0) (match f_sgws s0 with [] => None | h :: _ => Some (g_id h) end) (f_pend s0) (fu_pend s0 []).
Proof. reflexivity. Qed.

End Fallback.

(* the seeded variant (no read before the snapshot, up to 32 bytes drained after the dispatch):
   a signal raised by a signal callback of the running dispatch loses its wakeup byte; it stays
   recorded, the pipe is empty, its watcher is not called in the following iterations *)
Definition wfb_env (cb : Z) : list saction := if cb =? 1 then [SRaise 12] else [].
Definition wfb_ops : list fop :=
  [FAct (SSig 10 false 1); FAct (SSig 12 false 0); FAct (SRaise 10); FTick; FTick; FTick].

Lemma fallback_refuted_drain_late :
  exists s, f_run_ops true wfb_env 100 wfb_ops = Some s /\ f_pend s = [12] /\ f_pipe s = O /\
            f_run true wfb_env 100 wfb_ops = Some [OPoll 0; OEv (mkE 0 KSig 1 1 0 10); OPoll 0; OPoll 0].
Proof. eexists. split; [vm_compute; reflexivity|]. repeat split; vm_compute; reflexivity. Qed.

Lemma fallback_witness_fixed :
  f_run false wfb_env 100 wfb_ops =
  Some [OPoll 0; OEv (mkE 0 KSig 1 1 0 10); OPoll 0; OEv (mkE 1 KSig 1 2 0 12); OPoll 0].
Proof. vm_compute. reflexivity. Qed.
