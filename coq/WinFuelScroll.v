(* WinFuelScroll.v -- the three scroll operations commute with [with_fuel] when they do not
   fault (extension of WinFuelTotal.v's step_wf to the whole alphabet). *)
From Coq Require Import ZArith List Bool Lia ZifyBool.
From Tickit Require Import RectDefs RectProofs WinRectSet WinRectSetProofs WinDefs WinSpec WinHist
  WinFlushProofs WinPreserve WinScrollFold WinScrollOps WinFuelMono WinFuelTotal.
Import ListNotations.
Local Open Scope Z_scope.

Definition wf_acc (f' : nat) (acc : root * term * bool * bool) : root * term * bool * bool :=
  let '(s, tm, ret, dp) := acc in (with_fuel f' s, tm, ret, dp).

Lemma scroll_one_wf id a b d r acc rc f' :
  r_fault (acc_st (scroll_one id a b d r acc rc)) = false -> (r_fuel (acc_st acc) <= f')%nat ->
  scroll_one id a b d r (wf_acc f' acc) rc = wf_acc f' (scroll_one id a b d r acc rc).
Proof.
  destruct acc as [[[s tm] ret] dp]. unfold scroll_one, wf_acc, acc_st. cbn [fst r_fuel r_damage with_fuel].
  intros Hf Hle.
  destruct ((Z.abs d >=? lines rc) || (Z.abs r >=? cols rc)).
  - cbn [fst] in Hf. rewrite (win_expose_wf s _ _ _ Hf Hle). reflexivity.
  - destruct (shift_damage (r_fuel s) (r_damage s) rc d r) as [dmg|] eqn:Esh;
      [|cbn [fst r_fault set_fault] in Hf; discriminate].
    rewrite (shift_damage_mono _ _ _ _ _ _ _ Hle Esh).
    change (set_damage (with_fuel f' s) dmg) with (with_fuel f' (set_damage s dmg)).
    destruct (term_scroll (if dp then tm else term_set_cvis tm false) rc d r) as [tm2 acc'].
    assert (Hle1 : (r_fuel (set_damage s dmg) <= f')%nat) by exact Hle.
    destruct acc'; cbn [fst] in Hf.
    + destruct (d >? 0); [|destruct (d <? 0)]; (destruct (r >? 0); [|destruct (r <? 0)]);
        first [ reflexivity
              | rewrite (two_exposes_wf (set_damage s dmg) _ _ _ _ _ Hf Hle1); reflexivity
              | rewrite (win_expose_wf (set_damage s dmg) _ _ _ Hf Hle1); reflexivity ].
    + rewrite (win_expose_wf (set_damage s dmg) _ _ _ Hf Hle1). reflexivity.
Qed.

Lemma scroll_one_fuel id a b d r acc rc :
  r_fuel (acc_st (scroll_one id a b d r acc rc)) = r_fuel (acc_st acc).
Proof.
  destruct acc as [[[s tm] ret] dp]. unfold scroll_one, acc_st. cbn [fst].
  destruct ((Z.abs d >=? lines rc) || (Z.abs r >=? cols rc)).
  - cbn [fst]. apply win_expose_fuel.
  - destruct (shift_damage (r_fuel s) (r_damage s) rc d r) as [dmg|]; [|reflexivity].
    destruct (term_scroll (if dp then tm else term_set_cvis tm false) rc d r) as [tm2 acc'].
    destruct acc'; cbn [fst].
    + destruct (d >? 0); [|destruct (d <? 0)]; (destruct (r >? 0); [|destruct (r <? 0)]);
        rewrite ?win_expose_fuel; reflexivity.
    + rewrite win_expose_fuel. reflexivity.
Qed.

Lemma scroll_fold_wf id a b d r f' : forall V acc,
  r_fault (acc_st (fold_left (scroll_one id a b d r) V acc)) = false -> (r_fuel (acc_st acc) <= f')%nat ->
  fold_left (scroll_one id a b d r) V (wf_acc f' acc) = wf_acc f' (fold_left (scroll_one id a b d r) V acc).
Proof.
  induction V as [|rc V IH]; intros acc Hf Hle; [reflexivity|]. cbn [fold_left] in *.
  pose proof (scroll_fold_fault _ _ _ _ _ _ _ Hf) as Hf1.
  rewrite (scroll_one_wf _ _ _ _ _ _ _ _ Hf1 Hle). apply IH; [exact Hf|].
  rewrite scroll_one_fuel. exact Hle.
Qed.

Definition wf3 (f' : nat) (x : root * term * bool) : root * term * bool :=
  let '(s, tm, b) := x in (with_fuel f' s, tm, b).

Lemma win_scroll_wf cfg st tm id orig d r mask f' :
  r_fault (fst (fst (win_scroll cfg st tm id orig d r mask))) = false -> (r_fuel st <= f')%nat ->
  win_scroll cfg (with_fuel f' st) tm id orig d r mask = wf3 f' (win_scroll cfg st tm id orig d r mask).
Proof.
  intros Hf Hle. unfold win_scroll in *. cbn [r_tree r_fuel with_fuel].
  destruct (t_chain id (r_tree st)) as [[|w rest]|]; try reflexivity.
  destruct (match orig with
            | Some o => r_intersect (selfrect (t_info w)) o
            | None => r_intersect (selfrect (t_info w)) (selfrect (t_info w))
            end) as [rc|]; [|reflexivity].
  destruct (rs_add (r_fuel st) [] rc) as [v0|] eqn:Ev0; [|cbn in Hf; discriminate].
  rewrite (rs_add_mono _ _ _ _ _ Ev0 Hle).
  assert (E1 : (if mask then rs_sub_vis f' (Some v0) (t_kids w) else Some v0) =
               (if mask then rs_sub_vis (r_fuel st) (Some v0) (t_kids w) else Some v0)).
  { destruct mask; [|reflexivity].
    destruct (rs_sub_vis (r_fuel st) (Some v0) (t_kids w)) as [v1|] eqn:E; [|cbn in Hf; discriminate].
    apply (rs_sub_vis_mono _ _ Hle _ _ _ E). }
  rewrite E1.
  destruct (if mask then rs_sub_vis (r_fuel st) (Some v0) (t_kids w) else Some v0) as [v1|];
    [|cbn in Hf; discriminate].
  rewrite (scroll_region_mono cfg _ _ Hle).
  2:{ intros E. rewrite E in Hf. cbn in Hf. discriminate. }
  destruct (scroll_region cfg (r_fuel st) (w :: rest) v1 0 0) as [| |V a b]; try reflexivity.
  change (with_fuel f' st, tm, true, false) with (wf_acc f' (st, tm, true, false)).
  assert (Hff : r_fault (acc_st (fold_left (scroll_one id a b d r) V (st, tm, true, false))) = false).
  { destruct (fold_left (scroll_one id a b d r) V (st, tm, true, false)) as [[[s1 tm1] ret1] dp1].
    unfold acc_st. cbn [fst] in *. destruct dp1; exact Hf. }
  rewrite (scroll_fold_wf id a b d r f' V (st, tm, true, false) Hff Hle).
  destruct (fold_left (scroll_one id a b d r) V (st, tm, true, false)) as [[[s1 tm1] ret1] dp1].
  unfold wf_acc, wf3. destruct dp1; reflexivity.
Qed.

Lemma move_fold_wf d r f' : forall l s,
  fold_left (move_step d r) l (with_fuel f' s) = with_fuel f' (fold_left (move_step d r) l s).
Proof. induction l as [|c l IH]; intros s; [reflexivity|]. cbn [fold_left]. exact (IH (move_step d r s c)). Qed.

Lemma m_scrolled_root m s t id srec d r : m_root (m_scrolled m s t id srec d r) = s.
Proof. unfold m_scrolled. destruct srec; reflexivity. Qed.

Lemma m_scrolled_wf m s t id srec d r f' :
  m_scrolled (m_with_fuel f' m) (with_fuel f' s) t id srec d r = m_with_fuel f' (m_scrolled m s t id srec d r).
Proof. destruct m. unfold m_scrolled, m_with_fuel. destruct srec; reflexivity. Qed.

(* every operation of the alphabet *)
Lemma step_wf_all cfg progs o m f' :
  r_fault (m_root (step cfg progs o m)) = false -> (r_fuel (m_root m) <= f')%nat ->
  step cfg progs o (m_with_fuel f' m) = m_with_fuel f' (step cfg progs o m).
Proof.
  intros Hf Hle. destruct (fuel_alpha o) eqn:Ha; [apply step_wf; assumption|].
  destruct m as [st tm app gen xl fe sr].
  destruct o; try discriminate Ha; unfold m_with_fuel at 1;
    cbn [step m_root m_term m_app m_gen m_xlog m_fevs m_srecs m_set_root] in *.
  - assert (Hf' : r_fault (fst (fst (win_scroll cfg st tm id None down rightw true))) = false).
    { destruct (win_scroll cfg st tm id None down rightw true) as [[a b] c].
      rewrite m_scrolled_root in Hf. exact Hf. }
    rewrite (win_scroll_wf _ _ _ _ _ _ _ _ _ Hf' Hle).
    destruct (win_scroll cfg st tm id None down rightw true) as [[a b] c]. unfold wf3.
    exact (m_scrolled_wf (mkM st tm app gen xl fe sr) a b id _ down rightw f').
  - assert (Hf' : r_fault (fst (fst (win_scroll cfg st tm id (Some r) down rightw true))) = false).
    { destruct (win_scroll cfg st tm id (Some r) down rightw true) as [[a b] c].
      rewrite m_scrolled_root in Hf. exact Hf. }
    rewrite (win_scroll_wf _ _ _ _ _ _ _ _ _ Hf' Hle).
    destruct (win_scroll cfg st tm id (Some r) down rightw true) as [[a b] c]. unfold wf3.
    exact (m_scrolled_wf (mkM st tm app gen xl fe sr) a b id _ down rightw f').
  - assert (Hf' : r_fault (fst (fst (win_scroll cfg st tm id None down rightw false))) = false).
    { destruct (win_scroll cfg st tm id None down rightw false) as [[a b] c].
      rewrite m_scrolled_root in Hf. cbn [fst]. fold (move_step down rightw) in Hf.
      destruct (t_find id (r_tree a)); [apply move_fold_fault in Hf|]; exact Hf. }
    rewrite (win_scroll_wf _ _ _ _ _ _ _ _ _ Hf' Hle).
    destruct (win_scroll cfg st tm id None down rightw false) as [[a b] c]. unfold wf3.
    cbn [r_tree with_fuel]. fold (move_step down rightw).
    assert (E : match t_find id (r_tree a) with
                | Some w => fold_left (move_step down rightw) (t_kids w) (with_fuel f' a)
                | None => with_fuel f' a end =
                with_fuel f' (match t_find id (r_tree a) with
                              | Some w => fold_left (move_step down rightw) (t_kids w) a
                              | None => a end))
      by (destruct (t_find id (r_tree a)); [apply move_fold_wf|reflexivity]).
    rewrite E.
    exact (m_scrolled_wf (mkM st tm app gen xl fe sr) _ b id _ down rightw f').
Qed.

(* a step that does not fault keeps the fuel *)
Lemma m_with_fuel_id m : m_with_fuel (r_fuel (m_root m)) m = m.
Proof. destruct m as [st tm app gen xl fe sr]. unfold m_with_fuel, m_set_root. cbn [m_root m_term m_app m_gen m_xlog m_fevs m_srecs]. rewrite with_fuel_id. reflexivity. Qed.

Lemma step_fuel cfg progs o m :
  r_fault (m_root (step cfg progs o m)) = false ->
  r_fuel (m_root (step cfg progs o m)) = r_fuel (m_root m).
Proof.
  intros Hf. pose proof (step_wf_all cfg progs o m (r_fuel (m_root m)) Hf (le_n _)) as E.
  rewrite m_with_fuel_id in E. apply (f_equal (fun x => r_fuel (m_root x))) in E. exact E.
Qed.

(* no fault after any step of the run *)
Fixpoint run_nf (cfg : defects) (progs : Z -> list dop) (ops : list op) (m : mstate) : Prop :=
  match ops with
  | [] => True
  | o :: rest => r_fault (m_root (step cfg progs o m)) = false /\ run_nf cfg progs rest (step cfg progs o m)
  end.

(* the whole alphabet: a run without faults is the same run with more fuel *)
Theorem run_fuel_mono_nf cfg progs : forall ops m f',
  run_nf cfg progs ops m -> (r_fuel (m_root m) <= f')%nat ->
  run cfg progs ops (m_with_fuel f' m) = m_with_fuel f' (run cfg progs ops m).
Proof.
  induction ops as [|o rest IH]; intros m f' Hnf Hle; [reflexivity|].
  destruct Hnf as [Hf Hrest]. cbn [run fold_left].
  fold (run cfg progs rest (step cfg progs o (m_with_fuel f' m))).
  fold (run cfg progs rest (step cfg progs o m)).
  rewrite (step_wf_all cfg progs o m f' Hf Hle). apply IH; [exact Hrest|].
  rewrite (step_fuel cfg progs o m Hf). exact Hle.
Qed.

Lemma run_ok3_nf progs : forall ops m, WinHistoryFull.run_ok3 progs ops m -> run_nf no_defects progs ops m.
Proof.
  induction ops as [|o rest IH]; intros m H; [exact I|]. cbn [WinHistoryFull.run_ok3 run_nf] in *.
  destruct H as (_ & Hf & Hr). split; [exact Hf|apply IH; exact Hr].
Qed.
