(* RBCopyLoop.v -- the column loop, the line loop, and the theorems: copyrect / blit refine the
   cell-wise copy. *)
From Coq Require Import ZArith List Bool Lia.
From Tickit Require Import RectDefs RBDefs RBSpec RBLemmas RBSpanProofs RBAbsLemmas RBInv RBOpProofs RBProofs RBProps RBRestore
                           RBTheorems RBCopyDefs RBCopySpec RBCopyProofs RBFrame RBCopyRefine.
Import ListNotations.
Local Open Scope Z_scope.

Section Loop2.
  Variables (samerb : bool) (src : rb) (G0 : ast) (srcg : agrid) (sr : rect) (lo co : Z) (sk : bool).
  Hypothesis HG0 : ainv G0.
  Hypothesis Hxl : xl (a_aux G0) = 0.
  Hypothesis Hxc : xc (a_aux G0) = 0.
  Hypothesis Isrc : Inv src.
  Hypothesis Hsr : 0 <= top sr /\ 0 <= left sr /\ 0 <= cols sr.
  Hypothesis Hsame : samerb = true -> srcg = ag G0 /\ top sr + lines sr <= a_lines G0 /\ right sr <= a_cols G0.
  Hypothesis Hblit : samerb = false -> srcg = ag (abs_rb src) /\ top sr + lines sr <= rb_lines src /\ right sr <= rb_cols src.
  Hypothesis Hchar : forall y x p cp, top sr <= y < top sr + lines sr -> left sr <= x < right sr ->
    acell_at srcg y x = AChar p cp -> text_valid [cp] = true /\ cpw cp = 1.

  Let cur := cur_is G0 srcg lo co sk.
  Let pr := procr sr.

  (* all of row [line] processed, on top of the rows [pl] *)
  Definition row_done (pl : Z -> bool) (line : Z) (sy sx : Z) : bool :=
    in_cols sr sx && (pl sy || (sy =? line)).

  Lemma copy_cols_refines : forall fuel dst pl line lw col,
    cur dst (pr pl line lw col) ->
    top sr <= line < top sr + lines sr ->
    (if lw then left sr - 1 <= col < right sr else left sr <= col) ->
    pl line = false ->
    (samerb = true -> pl (line - lo) = false /\ (lo = 0 -> if lw then 0 < co else co < 0)) ->
    (lw = true -> samerb = true /\ lo = 0) ->
    (lw = true -> left sr <= col -> col + 1 = right sr \/ is_start (row_at dst line) (col + 1) = true) ->
    (if lw then col - left sr + 1 else right sr - col) <= Z.of_nat fuel ->
    exists dst', copy_cols fuel samerb src dst line col sr lo co lw sk = Ok dst' /\ cur dst' (row_done pl line).
  Proof.
    induction fuel as [|f IH]; intros dst pl line lw col Hcur Hl Hc Hpl Hord Hlw Hstruct Hf.
    - (* out of fuel only when the loop is over *)
      cbn [copy_cols].
      assert (Hdone : (if lw then col <? left sr else col >=? right sr) = true).
      { destruct lw; [destruct (Z.ltb_spec col (left sr))|destruct (Z.geb_spec col (right sr))]; try reflexivity; lia. }
      rewrite Hdone. exists dst. split; [reflexivity|].
      destruct Hcur as (I & Ab). split; [assumption|]. rewrite Ab. apply pcopy_ext.
      intros sy sx. unfold pr, procr, row_done, in_cols.
      destruct (Z.leb_spec (left sr) sx); destruct (Z.ltb_spec sx (right sr)); cbn [andb]; try reflexivity.
      destruct (pl sy); cbn [orb]; [reflexivity|]. destruct (sy =? line); cbn [andb]; [|reflexivity].
      destruct lw; [destruct (Z.ltb_spec col sx)|destruct (Z.ltb_spec sx col)]; try reflexivity; lia.
    - cbn [copy_cols].
      destruct (if lw then col <? left sr else col >=? right sr) eqn:Hdone.
      + exists dst. split; [reflexivity|].
        destruct Hcur as (I & Ab). split; [assumption|]. rewrite Ab. apply pcopy_ext.
        intros sy sx. unfold pr, procr, row_done, in_cols.
        destruct (Z.leb_spec (left sr) sx); destruct (Z.ltb_spec sx (right sr)); cbn [andb]; try reflexivity.
        destruct (pl sy); cbn [orb]; [reflexivity|]. destruct (sy =? line); cbn [andb]; [|reflexivity].
        destruct lw; [destruct (Z.ltb_spec col (left sr)); [|discriminate]; destruct (Z.ltb_spec col sx)
                     |destruct (Z.geb_spec col (right sr)); [|discriminate]; destruct (Z.ltb_spec sx col)]; try reflexivity; lia.
      + assert (Hin : left sr <= col < right sr).
        { destruct lw; [destruct (Z.ltb_spec col (left sr)); [discriminate|lia]
                       |destruct (Z.geb_spec col (right sr)); [discriminate|lia]]. }
        destruct (copy_span_refines samerb src G0 srcg sr lo co sk HG0 Hxl Hxc Isrc Hsr Hsame Hblit Hchar
                    dst pl line lw col Hcur Hl Hin Hpl Hord Hlw) as (d1 & c1 & E1 & Hcur1 & P1 & S1).
        { intros Elw. apply Hstruct; [assumption|lia]. }
        rewrite E1. cbn [bind].
        assert (B1 : if lw then left sr - 1 <= c1 < right sr else left sr <= c1) by (destruct lw; lia).
        assert (B2 : lw = true -> left sr <= c1 -> c1 + 1 = right sr \/ is_start (row_at d1 line) (c1 + 1) = true)
          by (intros Elw Hge; right; apply S1; assumption).
        assert (B3 : (if lw then c1 - left sr + 1 else right sr - c1) <= Z.of_nat f) by (destruct lw; lia).
        exact (IH d1 pl line lw c1 Hcur1 Hl B1 Hpl Hord Hlw B2 B3).
  Qed.

  (* rows: [done] = the lines already processed *)
  Definition lines_done (done : list Z) (sy sx : Z) : bool :=
    in_cols sr sx && existsb (Z.eqb sy) done.

  Lemma copy_lines_refines : forall (lw : bool) rest done dst,
    cur dst (lines_done done) ->
    (forall l, In l rest -> top sr <= l < top sr + lines sr) ->
    (* a line is never processed twice, and (within one buffer) never after a line it is copied onto *)
    (forall pre l post, rest = pre ++ l :: post ->
        existsb (Z.eqb l) (done ++ pre) = false /\
        (samerb = true -> existsb (Z.eqb (l - lo)) (done ++ pre) = false)) ->
    (samerb = true -> lo = 0 -> if lw then 0 < co else co < 0) ->
    (lw = true -> samerb = true /\ lo = 0) ->
    exists dst',
      fold_res (fun d line => copy_cols (S (Z.to_nat (cols sr))) samerb src d line
                                (if lw then right sr - 1 else left sr) sr lo co lw sk) rest dst = Ok dst' /\
      cur dst' (lines_done (done ++ rest)).
  Proof.
    intros lw rest. induction rest as [|l rest IH]; intros done dst Hcur Hin Hord Hco Hlw.
    - exists dst. cbn [fold_res]. rewrite app_nil_r. auto.
    - cbn [fold_res].
      destruct (Hord [] l rest eq_refl) as (O1 & O2). rewrite app_nil_r in O1, O2.
      assert (Hl := Hin l (or_introl eq_refl)).
      destruct Hsr as (T0 & L0 & C0).
      set (pl := fun sy => existsb (Z.eqb sy) done).
      set (col0 := if lw then right sr - 1 else left sr).
      assert (Hcur0 : cur dst (pr pl l lw col0)).
      { destruct Hcur as (I & Ab). split; [assumption|]. rewrite Ab. apply pcopy_ext.
        intros sy sx. unfold pr, procr, lines_done, pl, in_cols, col0.
        destruct (Z.leb_spec (left sr) sx); destruct (Z.ltb_spec sx (right sr)); cbn [andb]; try reflexivity.
        destruct (existsb (Z.eqb sy) done); cbn [orb]; [reflexivity|].
        destruct (sy =? l); cbn [andb]; [|reflexivity].
        destruct lw; [destruct (Z.ltb_spec (right sr - 1) sx)|destruct (Z.ltb_spec sx (left sr))]; try reflexivity; lia. }
      destruct (copy_cols_refines (S (Z.to_nat (cols sr))) dst pl l lw col0 Hcur0 Hl) as (d1 & E1 & Hcur1).
      + unfold col0, right. destruct lw; lia.
      + exact O1.
      + intros Esb. split; [apply O2; assumption|]. intros Elo. apply Hco; assumption.
      + exact Hlw.
      + intros Elw Hge. left. unfold col0. rewrite Elw. lia.
      + unfold col0, right. destruct lw; lia.
      + rewrite E1. cbn [bind].
        destruct (IH (done ++ [l]) d1) as (d2 & E2 & Hcur2).
        * destruct Hcur1 as (I1 & Ab1). split; [assumption|]. rewrite Ab1. apply pcopy_ext.
          intros sy sx. unfold row_done, lines_done, pl. rewrite existsb_app. cbn [existsb]. rewrite orb_false_r. reflexivity.
        * intros l' Hl'. apply Hin. right. assumption.
        * intros pre l' post Hr. destruct (Hord (l :: pre) l' post) as (Q1 & Q2); [rewrite Hr; reflexivity|].
          rewrite <- app_assoc. cbn [app]. auto.
        * exact Hco.
        * exact Hlw.
        * exists d2. split; [exact E2|]. rewrite <- app_assoc in Hcur2. exact Hcur2.
  Qed.
End Loop2.

(* ---------------------------------------------------------------------------------- *)
(* the order in which the outer loop visits the lines *)

Lemma seq_split_lt : forall pre l post (f : nat -> Z) n,
  (forall a b, (a < b)%nat -> f a < f b) ->
  map f (seq 0 n) = pre ++ l :: post -> forall z, In z pre -> z < l.
Proof.
  intros pre l post f n Hmono. generalize 0%nat. revert pre l post.
  induction n as [|n IH]; intros pre l post s E z Hz; cbn [seq map] in E.
  - destruct pre; discriminate.
  - destruct pre as [|p pre]; [contradiction|]. cbn [app] in E. inversion E; subst p.
    destruct Hz as [<-|Hz].
    + (* l is f of some later index *)
      assert (Hl : In l (map f (seq (S s) n))) by (rewrite H1; apply in_or_app; right; left; reflexivity).
      apply in_map_iff in Hl. destruct Hl as (k & <- & Hk). apply in_seq in Hk. apply Hmono. lia.
    + eapply IH; eauto.
Qed.

Lemma copy_lines_order : forall sr (up : bool) pre l post,
  copy_lines sr up = pre ++ l :: post -> forall z, In z pre -> if up then l < z else z < l.
Proof.
  intros sr up pre l post E z Hz. unfold copy_lines in E.
  set (f := fun k : nat => top sr + Z.of_nat k) in *.
  assert (Hmono : forall a b, (a < b)%nat -> f a < f b) by (intros; unfold f; lia).
  destruct up.
  - (* reversed: z comes before l in the reversed list = after l in the increasing one *)
    assert (E' : map f (seq 0 (Z.to_nat (lines sr))) = rev post ++ l :: rev pre).
    { rewrite <- (rev_involutive (map f _)). rewrite E. rewrite rev_app_distr. cbn [rev]. rewrite <- app_assoc. reflexivity. }
    (* l precedes every element of rev pre *)
    assert (G : forall pre' l' post' n s, map f (seq s n) = pre' ++ l' :: post' -> forall z', In z' post' -> l' < z').
    { clear. intros pre' l' post' n. revert pre' l' post'.
      induction n as [|n IH]; intros pre' l' post' s E z' Hz'; cbn [seq map] in E.
      - destruct pre'; discriminate.
      - destruct pre' as [|p pre'].
        + cbn [app] in E. inversion E; subst.
          apply in_map_iff in Hz'. destruct Hz' as (k & <- & Hk). apply in_seq in Hk. unfold f. lia.
        + cbn [app] in E. inversion E; subst. eapply IH; eauto. }
    apply (G (rev post) l (rev pre) _ 0%nat E'). apply in_rev. rewrite rev_involutive. exact Hz.
  - eapply seq_split_lt; eauto.
Qed.

(* all lines visited = the rectangle's rows *)
Lemma copy_lines_all : forall sr up sy,
  existsb (Z.eqb sy) (copy_lines sr up) = (top sr <=? sy) && (sy <? top sr + lines sr).
Proof.
  intros sr up sy. apply bool_eq_iff. rewrite existsb_exists, andb_true_iff, Z.leb_le, Z.ltb_lt. split.
  - intros (l & Hl & El). apply Z.eqb_eq in El. subst l. apply copy_lines_in in Hl. lia.
  - intros H. exists sy. split; [|apply Z.eqb_refl].
    unfold copy_lines.
    assert (G : In sy (map (fun k => top sr + Z.of_nat k) (seq 0 (Z.to_nat (lines sr))))).
    { apply in_map_iff. exists (Z.to_nat (sy - top sr)). split; [lia|]. apply in_seq. lia. }
    destruct up; [apply -> in_rev|]; exact G.
Qed.

(* ---------------------------------------------------------------------------------- *)
(* copyrect within one buffer *)

Theorem copyrect_refines : forall s dr sr,
  Inv s -> ainv (abs_rb s) -> achar_ok (abs_rb s) -> xl (aux s) = 0 -> xc (aux s) = 0 -> rect_in s sr ->
  exists s', copyrect_op s dr sr = Ok s' /\ Inv s' /\ abs_rb s' = a_copyrect (abs_rb s) dr sr.
Proof.
  intros s dr sr I A Hch Hxl Hxc Hin.
  destruct Hin as (R1 & R2 & R3 & R4 & R5).
  unfold copyrect_op, copyrect, a_copyrect.
  set (lo := top dr - top sr). set (co := left dr - left sr).
  destruct ((lines sr =? 0) || (cols sr =? 0)) eqn:Ez.
  { exists s. split; [reflexivity|]. split; [assumption|].
    destruct ((top dr =? top sr) && (left dr =? left sr)); [reflexivity|].
    unfold a_copy. apply orb_true_iff in Ez.
    destruct (Z.leb_spec (lines sr) 0); cbn [orb]; [reflexivity|].
    destruct (Z.leb_spec (cols sr) 0); [reflexivity|].
    destruct Ez as [Ez|Ez]; apply Z.eqb_eq in Ez; lia. }
  apply orb_false_iff in Ez. destruct Ez as (Ez1 & Ez2). apply Z.eqb_neq in Ez1. apply Z.eqb_neq in Ez2.
  cbn [andb].
  destruct ((lo =? 0) && (co =? 0)) eqn:Eoff.
  { exists s. split; [reflexivity|]. split; [assumption|].
    apply andb_true_iff in Eoff. destruct Eoff as (E1 & E2). apply Z.eqb_eq in E1. apply Z.eqb_eq in E2.
    destruct (Z.eqb_spec (top dr) (top sr)); [|unfold lo in *; lia].
    destruct (Z.eqb_spec (left dr) (left sr)); [|unfold co in *; lia]. reflexivity. }
  assert (Hne : (top dr =? top sr) && (left dr =? left sr) = false).
  { apply andb_false_iff in Eoff. apply andb_false_iff.
    destruct Eoff as [E|E]; apply Z.eqb_neq in E; [left|right]; apply Z.eqb_neq; unfold lo, co in *; lia. }
  rewrite Hne.
  destruct (Z_le_gt_dec (lines sr) 0) as [Hneg|Hpos].
  { (* a negative number of lines: nothing is visited, and the specification copies nothing *)
    assert (En : forall b, copy_lines sr b = []).
    { intros b. unfold copy_lines. replace (Z.to_nat (lines sr)) with 0%nat by lia. destruct b; reflexivity. }
    rewrite En. cbn [fold_res]. exists s. split; [reflexivity|]. split; [assumption|].
    unfold a_copy. destruct (Z.leb_spec (lines sr) 0); [reflexivity|lia]. }
  set (up := lo >? 0). set (lw := (lo =? 0) && (co >? 0)).
  destruct (copy_lines_refines true s (abs_rb s) (ag (abs_rb s)) sr lo co true A Hxl Hxc I ltac:(lia)
              ltac:(intros _; split; [reflexivity|unfold right; cbn [abs_rb a_lines a_cols]; lia])
              ltac:(intros; discriminate))
    with (lw := lw) (rest := copy_lines sr up) (done := @nil Z) (dst := s) as (s' & E & Hcur).
  - (* Char cells *)
    intros y x p cp Hy Hx Hc.
    rewrite acell_at_gcell in Hc by (unfold right in *; lia).
    apply (Hch y x p cp); [|exact Hc].
    split; cbn [abs_rb a_lines a_cols]; unfold right in *; lia.
  - split; [assumption|]. symmetry.
    rewrite (pcopy_ext (abs_rb s) (ag (abs_rb s)) (lines_done sr []) (fun _ _ => false)).
    + apply pcopy_none.
    + intros sy sx. unfold lines_done. cbn [existsb]. apply andb_false_r.
  - intros l Hl. apply copy_lines_in in Hl. exact Hl.
  - intros pre l post Hsplit. cbn [app].
    assert (Ho := copy_lines_order sr up pre l post Hsplit).
    assert (N : forall v, (if up then v <= l else l <= v) -> existsb (Z.eqb v) pre = false).
    { intros v Hv. destruct (existsb (Z.eqb v) pre) eqn:Ex; [|reflexivity]. exfalso.
      apply existsb_exists in Ex. destruct Ex as (z & Hz & Ezv). apply Z.eqb_eq in Ezv. subst z.
      specialize (Ho v Hz). destruct up; lia. }
    split; [apply N; destruct up; lia|]. intros _. apply N.
    unfold up in *. destruct (Z.gtb_spec lo 0); lia.
  - (* same line: the column direction matches the offset *)
    intros _ Elo. unfold lw. rewrite Elo. cbn [Z.eqb andb].
    destruct (Z.gtb_spec co 0); [assumption|].
    apply andb_false_iff in Eoff. destruct Eoff as [E0|E0]; apply Z.eqb_neq in E0; lia.
  - intros Elw. unfold lw in Elw. apply andb_true_iff in Elw. destruct Elw as (E1 & _). apply Z.eqb_eq in E1. auto.
  - exists s'. split; [exact E|]. destruct Hcur as (I' & Ab). split; [assumption|].
    rewrite Ab. cbn [app].
    rewrite (pcopy_all (abs_rb s) (ag (abs_rb s)) (top dr) (left dr) sr true) by lia.
    apply pcopy_ext. intros sy sx. unfold lines_done, in_cols. rewrite copy_lines_all.
    unfold cell_inb, bottom, right. cbn [fst snd].
    destruct (top sr <=? sy); destruct (sy <? top sr + lines sr); destruct (left sr <=? sx); destruct (sx <? left sr + cols sr); reflexivity.
Qed.

(* blit: another buffer as the source *)
Theorem blit_refines : forall dst src,
  Inv dst -> Inv src -> ainv (abs_rb dst) -> achar_ok (abs_rb src) -> xl (aux dst) = 0 -> xc (aux dst) = 0 ->
  exists dst', blit dst src = Ok dst' /\ Inv dst' /\ abs_rb dst' = a_blit (abs_rb dst) (abs_rb src).
Proof.
  intros dst src Id Is A Hch Hxl Hxc.
  unfold blit, copyrect, a_blit.
  set (sr := mkRect 0 0 (rb_lines src) (rb_cols src)).
  assert (HL : 0 <= rb_lines src) by (rewrite <- (inv_lines src Is); apply zlen_nonneg).
  assert (HC := inv_cols src Is).
  change (a_lines (abs_rb src)) with (rb_lines src). change (a_cols (abs_rb src)) with (rb_cols src). fold sr.
  destruct ((lines sr =? 0) || (cols sr =? 0)) eqn:Ez.
  { exists dst. split; [reflexivity|]. split; [assumption|].
    unfold a_copy. apply orb_true_iff in Ez.
    destruct (Z.leb_spec (lines sr) 0); cbn [orb]; [reflexivity|].
    destruct (Z.leb_spec (cols sr) 0); [reflexivity|].
    destruct Ez as [Ez|Ez]; apply Z.eqb_eq in Ez; lia. }
  apply orb_false_iff in Ez. destruct Ez as (Ez1 & Ez2). apply Z.eqb_neq in Ez1. apply Z.eqb_neq in Ez2.
  cbn [andb top left]. rewrite Z.sub_diag.
  assert (Hpos : 0 < lines sr /\ 0 < cols sr) by (unfold sr in *; cbn [lines cols] in *; lia).
  destruct (copy_lines_refines false src (abs_rb dst) (ag (abs_rb src)) sr 0 0 false A Hxl Hxc Is
              ltac:(unfold sr; cbn [top left cols]; lia)
              ltac:(intros; discriminate)
              ltac:(intros _; split; [reflexivity|unfold right, sr; cbn [top left lines cols]; lia]))
    with (lw := false) (rest := copy_lines sr false) (done := @nil Z) (dst := dst) as (dst' & E & Hcur).
  - intros y x p cp Hy Hx Hc.
    unfold sr, right in Hy, Hx. cbn [top left lines cols] in Hy, Hx.
    rewrite acell_at_gcell in Hc by lia.
    apply (Hch y x p cp); [|exact Hc]. split; cbn [abs_rb a_lines a_cols]; lia.
  - split; [assumption|]. symmetry.
    rewrite (pcopy_ext (abs_rb dst) (ag (abs_rb src)) (lines_done sr []) (fun _ _ => false)).
    + apply pcopy_none.
    + intros sy sx. unfold lines_done. cbn [existsb]. apply andb_false_r.
  - intros l Hl. apply copy_lines_in in Hl. exact Hl.
  - intros pre l post Hsplit. cbn [app].
    assert (Ho := copy_lines_order sr false pre l post Hsplit).
    split; [|intros; discriminate].
    destruct (existsb (Z.eqb l) pre) eqn:Ex; [|reflexivity]. exfalso.
    apply existsb_exists in Ex. destruct Ex as (z & Hz & Ezv). apply Z.eqb_eq in Ezv. subst z.
    specialize (Ho l Hz). cbn in Ho. lia.
  - intros; discriminate.
  - intros; discriminate.
  - exists dst'. split; [exact E|]. destruct Hcur as (I' & Ab). split; [assumption|].
    rewrite Ab. cbn [app].
    rewrite (pcopy_all (abs_rb dst) (ag (abs_rb src)) 0 0 sr false) by lia.
    replace (0 - top sr) with 0 by (unfold sr; cbn; lia). replace (0 - left sr) with 0 by (unfold sr; cbn; lia).
    apply pcopy_ext. intros sy sx. unfold lines_done, in_cols. rewrite copy_lines_all.
    unfold cell_inb, bottom, right. cbn [fst snd].
    destruct (top sr <=? sy); destruct (sy <? top sr + lines sr); destruct (left sr <=? sx); destruct (sx <? left sr + cols sr); reflexivity.
Qed.

(* ---------------------------------------------------------------------------------- *)
(* the two hypotheses on the abstract state hold in every state a program reaches *)

Lemma achar_paint : forall A r F,
  ashape A -> achar_ok A ->
  (forall y x old p cp, F y x old = AChar p cp -> (text_valid [cp] = true /\ cpw cp = 1) \/ old = AChar p cp) ->
  achar_ok (a_paint A r F).
Proof.
  intros A r F (H1 & H2) Hc HF y x p cp (Hy & Hx) E. cbn [a_paint set_ag a_lines a_cols] in Hy, Hx.
  rewrite gcell_a_paint in E by (try rewrite H2 by assumption; lia). cbv zeta in E.
  destruct (_ && _); cbn [ac] in E.
  - destruct (HF _ _ _ _ _ E) as [K|K]; [exact K|]. apply (Hc y x p cp); [split; assumption|exact K].
  - apply (Hc y x p cp); [split; assumption|exact E].
Qed.

Lemma achar_linecell_fold : forall (pos : Z * Z -> Z * Z) l A,
  ashape A -> achar_ok A ->
  achar_ok (fold_left (fun acc cb => a_linecell acc (fst (pos cb)) (snd (pos cb)) (snd cb)) l A).
Proof.
  intros pos l. induction l as [|cb l IH]; intros A Hs Hc; cbn [fold_left]; [assumption|].
  apply IH; [unfold a_linecell; apply ashape_paint; assumption|].
  unfold a_linecell. apply achar_paint; auto. intros y x old p cp E. destruct old; discriminate.
Qed.

Theorem astep_achar : forall A o, ashape A -> achar_ok A -> achar_ok (fst (astep A o)).
Proof.
  intros A o Hs Hc.
  assert (Pn : forall r (c : cellc), (forall p cp, c <> AChar p cp) -> achar_ok (a_paint A r (fun _ _ _ => c))).
  { intros r c Hn. apply achar_paint; auto. intros y x old p cp E. exfalso. eapply Hn; eauto. }
  assert (Ptext : forall l c t, achar_ok (a_text A l c t)).
  { intros. unfold a_text. apply achar_paint; auto. intros y x old p cp E. discriminate. }
  assert (Pchar : forall l c cp, achar_ok (a_char A l c cp)).
  { intros l c cp. unfold a_char. destruct (text_valid [cp]) eqn:Ev; cbn [negb]; [|assumption].
    destruct (Z.eqb_spec (cpw cp) 1); [|apply Ptext].
    apply achar_paint; auto. intros y x old p cp' E. inversion E; subst. left. auto. }
  destruct o; cbn [astep fst]; try assumption;
    try (unfold a_skip; apply Pn; intros; discriminate);
    try (unfold a_erase; apply Pn; intros; discriminate);
    try (destruct (vc_set (a_aux A)); cbn [negb fst]; [|assumption];
         first [unfold a_skip; apply Pn; intros; discriminate | unfold a_erase; apply Pn; intros; discriminate]).
  - (* mask *) intros y x p cp (Hy & Hx) E. destruct Hs as (H1 & H2). cbn [a_mask set_ag a_lines a_cols ag] in *.
    rewrite gcell_mapi2 in E by (try rewrite H2 by assumption; lia).
    apply (Hc y x p cp); [split; assumption|]. destruct (_ && _); exact E.
  - (* restore *) unfold a_restore. destruct (stack (a_aux A)); [assumption|].
    intros y x p cp (Hy & Hx) E. destruct Hs as (H1 & H2). cbn [a_lines a_cols ag] in *.
    rewrite gcell_map2 in E by (try rewrite H2 by assumption; lia).
    apply (Hc y x p cp); [split; assumption|]. destruct (_ >? _); exact E.
  - (* reset *) intros y x p cp (Hy & Hx) E. cbn [a_reset a_lines a_cols ag] in *. unfold gcell in E.
    rewrite zn_repeat in E by lia. rewrite zn_repeat in E by lia. discriminate.
  - destruct (text_valid t); cbn [negb fst]; [apply Ptext|assumption].
  - destruct (vc_set (a_aux A)); cbn [negb fst]; [|assumption].
    destruct (text_valid t); cbn [negb fst]; [apply Ptext|assumption].
  - apply Pchar.
  - destruct (vc_set (a_aux A)); cbn [negb fst]; [|assumption].
    destruct (text_valid [cp] && (0 <? cpw cp)); cbn [fst]; [apply Pchar|assumption].
  - apply (achar_linecell_fold (fun cb => (l, fst cb))); assumption.
  - apply (achar_linecell_fold (fun lb => (fst lb, c))); assumption.
Qed.

Theorem reach_ok : forall L C ops, 0 <= L -> 0 <= C ->
  ainv (fst (arun (a_new L C) ops)) /\ achar_ok (fst (arun (a_new L C) ops)).
Proof.
  intros L C ops HL HC. split; [apply arun_ainv; apply ainv_new; assumption|].
  assert (G : forall ops A, ashape A -> achar_ok A -> achar_ok (fst (arun A ops))).
  { clear. induction ops as [|o ops IH]; intros A Hs Hc; cbn [arun]; [assumption|].
    pose proof (astep_achar A o Hs Hc) as H1. destruct (astep_shape A o Hs) as (H2 & _).
    destruct (astep A o) as [A1 v1]. cbn [fst] in *. specialize (IH A1 H2 H1).
    destruct (arun A1 ops) as [A2 v2]. exact IH. }
  apply G; [apply ashape_new; assumption|].
  intros y x p cp (Hy & Hx) E. cbn [a_new a_lines a_cols ag] in *. unfold gcell in E.
  rewrite zn_repeat in E by lia. rewrite zn_repeat in E by lia. discriminate.
Qed.

(* for every buffer content reachable by a drawing program *)
Theorem copyrect_reachable : forall L C pre s v dr sr,
  0 <= L -> 0 <= C -> run (rb_new L C) pre = Ok (s, v) ->
  xl (aux s) = 0 -> xc (aux s) = 0 -> rect_in s sr ->
  exists s', copyrect_op s dr sr = Ok s' /\ Inv s' /\ aux s' = aux s /\ abs_rb s' = a_copyrect (abs_rb s) dr sr.
Proof.
  intros L C pre s v dr sr HL HC E Hxl Hxc Hin.
  destruct (RBTheorems.program_refines L C pre HL HC) as (t & w & F & I & Ab & _). rewrite E in F. inversion F; subst t w.
  destruct (reach_ok L C pre HL HC) as (A1 & A2). rewrite <- Ab in A1, A2.
  destruct (copyrect_refines s dr sr I A1 A2 Hxl Hxc Hin) as (s' & E' & I' & Ab').
  exists s'. split; [exact E'|]. split; [exact I'|]. split; [|exact Ab'].
  destruct (copyrect_op_ok s dr sr I Hin) as (s2 & E2 & K). rewrite E' in E2. inversion E2; subst s2. apply K.
Qed.

Theorem blit_reachable : forall L C pre dst v L' C' pre' src v',
  0 <= L -> 0 <= C -> run (rb_new L C) pre = Ok (dst, v) ->
  0 <= L' -> 0 <= C' -> run (rb_new L' C') pre' = Ok (src, v') ->
  xl (aux dst) = 0 -> xc (aux dst) = 0 ->
  exists dst', blit dst src = Ok dst' /\ Inv dst' /\ aux dst' = aux dst /\ abs_rb dst' = a_blit (abs_rb dst) (abs_rb src).
Proof.
  intros L C pre dst v L' C' pre' src v' HL HC E HL' HC' E' Hxl Hxc.
  destruct (RBTheorems.program_refines L C pre HL HC) as (t & w & F & I & Ab & _). rewrite E in F. inversion F; subst t w.
  destruct (RBTheorems.program_refines L' C' pre' HL' HC') as (t & w & F' & Is & Abs & _). rewrite E' in F'. inversion F'; subst t w.
  destruct (reach_ok L C pre HL HC) as (A1 & _). rewrite <- Ab in A1.
  destruct (reach_ok L' C' pre' HL' HC') as (_ & A2). rewrite <- Abs in A2.
  destruct (blit_refines dst src I Is A1 A2 Hxl Hxc) as (d' & Eb & I' & Ab').
  exists d'. split; [exact Eb|]. split; [exact I'|]. split; [|exact Ab'].
  destruct (blit_ok dst src I Is) as (d2 & E2 & K). rewrite Eb in E2. inversion E2; subst d2. apply K.
Qed.
