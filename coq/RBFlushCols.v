(* RBFlushCols.v -- everything lands in its own column, exactly once.

   The cursor of the terminal is tracked through the operations a flush emits, assuming only
   that printing advances by the library's own width function (the property's stated
   assumption) and that erasech(n, YES) moves to the end of the erased range while
   erasech(n, MAYBE) leaves the cursor in an UNKNOWN position (so the result holds for every
   legal terminal).  Theorem: every writing operation is issued with the cursor in a known
   position, and the columns written, in order, are exactly the columns of the row's pending
   (non-skip) cells, each once, in increasing order. *)
From Coq Require Import ZArith List Bool Lia.
From Tickit Require Import RectDefs RBDefs RBSpec RBLemmas RBSpanProofs RBAbsLemmas RBInv RBOpProofs RBProofs
                           Gen_Linechars RBGlyphs RBGlyphProofs RBFlushDefs RBFlushSpec RBFlushProofs RBWidth.
Import ListNotations.
Local Open Scope Z_scope.

Lemma track_app : forall a b cur,
  track cur (a ++ b) =
  match track cur a with
  | None => None
  | Some (w1, c1) => match track c1 b with None => None | Some (w2, c2) => Some (w1 ++ w2, c2) end
  end.
Proof.
  induction a as [|o a IH]; intros b cur; cbn [app track].
  - destruct (track cur b) as [[w2 c2]|]; reflexivity.
  - destruct o; try apply IH.
    + destruct cur as [[l c]|]; [|reflexivity]. rewrite IH.
      destruct (track (Some (l, c + text_width s)) a) as [[w1 c1]|]; [|reflexivity].
      destruct (track c1 b) as [[w2 c2]|]; [|reflexivity]. now rewrite app_assoc.
    + destruct cur as [[l c]|]; [|reflexivity]. rewrite IH.
      destruct (track (if moveend then Some (l, c + n) else None) a) as [[w1 c1]|]; [|reflexivity].
      destruct (track c1 b) as [[w2 c2]|]; [|reflexivity]. now rewrite app_assoc.
Qed.

(* the columns >= col of the row's pending cells *)
Definition pending_cols (r : row) (col : Z) : list Z :=
  filter (fun x => negb (is_skipc (abs_cell r x))) (zseq col (Z.to_nat (len r - col))).

(* what the cells of a reachable buffer satisfy: text spans lie within their (valid) string,
   Char cells hold width-one code points, line masks have a width-one glyph *)
Definition span_ok (r : row) (i : Z) : Prop :=
  match ck (get r i) with
  | Start (CText p s offs) n => text_valid s = true /\ 0 <= offs /\ offs + n <= text_width s
  | Start (CChar p cp) n => cpw cp = 1
  | Start (CLine p m) n => cpw (linechar m) = 1
  | _ => True
  end.
Definition row_content_ok (r : row) : Prop := forall i, 0 <= i < len r -> span_ok r i.

(* ---------------------------------------------------------------------------------- *)
Lemma zseq_app : forall a n m, zseq a (n + m) = zseq a n ++ zseq (a + Z.of_nat n) m.
Proof.
  intros a n m. unfold zseq. rewrite seq_app, map_app. f_equal.
  cbn [plus]. revert n. induction m as [|m IH]; intros n; cbn [seq map]; [reflexivity|].
  f_equal; [lia|].
  rewrite (IH (S n)). rewrite <- (seq_shift m 0), map_map.
  apply map_ext. intros i. lia.
Qed.

Lemma pending_split : forall r col n,
  0 <= col -> 0 <= n -> col + n <= len r ->
  pending_cols r col =
  filter (fun x => negb (is_skipc (abs_cell r x))) (zseq col (Z.to_nat n)) ++ pending_cols r (col + n).
Proof.
  intros r col n Hc Hn Hl. unfold pending_cols.
  replace (Z.to_nat (len r - col)) with (Z.to_nat n + Z.to_nat (len r - (col + n)))%nat by lia.
  rewrite zseq_app, filter_app. f_equal. f_equal. f_equal. lia.
Qed.

Lemma filter_all : forall {A} (f : A -> bool) l, (forall x, In x l -> f x = true) -> filter f l = l.
Proof.
  induction l as [|x l IH]; intros H; cbn [filter]; [reflexivity|].
  rewrite (H x (or_introl eq_refl)). f_equal. apply IH. intros y Hy. apply H. right. exact Hy.
Qed.

Lemma filter_none : forall {A} (f : A -> bool) l, (forall x, In x l -> f x = false) -> filter f l = [].
Proof.
  induction l as [|x l IH]; intros H; cbn [filter]; [reflexivity|].
  rewrite (H x (or_introl eq_refl)). apply IH. intros y Hy. apply H. right. exact Hy.
Qed.

Lemma in_zseq : forall a n x, In x (zseq a n) <-> a <= x < a + Z.of_nat n.
Proof.
  intros a n x. unfold zseq. rewrite in_map_iff. split.
  - intros (k & <- & Hk). apply in_seq in Hk. lia.
  - intros H. exists (Z.to_nat (x - a)). split; [lia|]. apply in_seq. lia.
Qed.

(* the abstract content of the cells of a span *)
Lemma span_cells : forall r i c n x,
  WF r -> 0 <= i < len r -> ck (get r i) = Start c n -> i <= x < i + n ->
  abs_cell r x = content_at c (x - i).
Proof.
  intros r i c n x W Hi Ei Hx. assert (Wi := W i Hi). unfold wf_cellf in Wi. rewrite Ei in Wi.
  destruct Wi as (K1 & K2 & K3 & K4). unfold abs_cell.
  destruct (Z.eq_dec x i) as [->|Hne]; [rewrite Ei, Z.sub_diag; reflexivity|].
  rewrite (K4 x ltac:(lia)). rewrite Ei. reflexivity.
Qed.

Lemma pending_span : forall r i c n,
  WF r -> 0 <= i < len r -> ck (get r i) = Start c n ->
  pending_cols r i = (if match c with CSkip => true | _ => false end then [] else zseq i (Z.to_nat n)) ++ pending_cols r (i + n).
Proof.
  intros r i c n W Hi Ei. assert (Wi := W i Hi). unfold wf_cellf in Wi. rewrite Ei in Wi. destruct Wi as (K1 & K2 & _).
  rewrite (pending_split r i n) by lia. f_equal.
  destruct c.
  - apply filter_none. intros x Hx. apply in_zseq in Hx. rewrite (span_cells r i CSkip n x W Hi Ei) by lia. reflexivity.
  - apply filter_all. intros x Hx. apply in_zseq in Hx. rewrite (span_cells r i _ n x W Hi Ei) by lia. reflexivity.
  - apply filter_all. intros x Hx. apply in_zseq in Hx. rewrite (span_cells r i _ n x W Hi Ei) by lia. reflexivity.
  - apply filter_all. intros x Hx. apply in_zseq in Hx. rewrite (span_cells r i _ n x W Hi Ei) by lia. reflexivity.
  - apply filter_all. intros x Hx. apply in_zseq in Hx. rewrite (span_cells r i _ n x W Hi Ei) by lia. reflexivity.
Qed.

Lemma pending_end : forall r, pending_cols r (len r) = [].
Proof. intros r. unfold pending_cols. replace (Z.to_nat (len r - len r)) with 0%nat by lia. reflexivity. Qed.

(* ---------------------------------------------------------------------------------- *)
(* tracking through the operations of one text span *)

(* a block of prints starting at a known column c: it writes [c, c + width) and ends at c + width *)
Fixpoint prints_only (ops : list termop) : bool :=
  match ops with
  | [] => true
  | TPrint _ :: r | TSetPen _ :: r => prints_only r
  | _ => false
  end.

Lemma log_cols_nonneg : forall ops, (forall o, In o ops -> 0 <= op_cols o) -> 0 <= log_cols ops.
Proof.
  induction ops as [|x l IH]; intros Hn; [unfold log_cols; cbn; lia|].
  change (x :: l) with ([x] ++ l). rewrite log_cols_app.
  assert (0 <= op_cols x) by (apply Hn; left; reflexivity).
  assert (0 <= log_cols l) by (apply IH; intros y Hy; apply Hn; right; exact Hy).
  unfold log_cols at 1. cbn [fold_left]. lia.
Qed.

Lemma cells_from_app : forall l c n m, 0 <= n -> 0 <= m ->
  cells_from l c (n + m) = cells_from l c n ++ cells_from l (c + n) m.
Proof.
  intros l c n m Hn Hm. unfold cells_from. rewrite Z2Nat.inj_add by lia. rewrite zseq_app, map_app.
  rewrite Z2Nat.id by lia. reflexivity.
Qed.

Lemma track_prints : forall ops l c,
  prints_only ops = true -> (forall o, In o ops -> 0 <= op_cols o) ->
  track (Some (l, c)) ops = Some (cells_from l c (log_cols ops), Some (l, c + log_cols ops)).
Proof.
  induction ops as [|o ops IH]; intros l c Hp Hn.
  - cbn [track]. unfold log_cols, cells_from. cbn [fold_left Z.to_nat zseq seq map]. rewrite Z.add_0_r. reflexivity.
  - assert (Hn' : forall o', In o' ops -> 0 <= op_cols o') by (intros o' Ho'; apply Hn; right; exact Ho').
    assert (Ho : 0 <= op_cols o) by (apply Hn; left; reflexivity).
    assert (H0' := log_cols_nonneg ops Hn').
    change (o :: ops) with ([o] ++ ops). rewrite log_cols_app.
    assert (E1 : log_cols [o] = op_cols o) by (unfold log_cols; cbn [fold_left]; lia).
    rewrite E1. cbn [app].
    destruct o; cbn [prints_only] in Hp; try discriminate; cbn [track op_cols] in *.
    + rewrite (IH l c Hp Hn'). rewrite !Z.add_0_l. reflexivity.
    + rewrite (IH l (c + text_width s) Hp Hn').
      rewrite cells_from_app by lia. rewrite Z.add_assoc. reflexivity.
Qed.

Lemma text_emit_prints : forall p s offs n, prints_only (text_emit p s offs n) = true.
Proof.
  intros. unfold text_emit. cbn [prints_only].
  assert (G : forall k l, prints_only l = true -> prints_only (repeat (TPrint [32]) k ++ l) = true).
  { induction k as [|k IH]; intros l Hl; cbn [repeat app prints_only]; auto. }
  assert (G0 : forall k, prints_only (repeat (TPrint [32]) k) = true).
  { intros k. rewrite <- (app_nil_r (repeat _ k)). apply G. reflexivity. }
  apply G. destruct (sp_cp _ <? sp_cp _); cbn [app prints_only]; apply G0.
Qed.

Lemma op_cols_nonneg_prints : forall ops, prints_only ops = true ->
  (forall s, In (TPrint s) ops -> 0 <= text_width s) -> forall o, In o ops -> 0 <= op_cols o.
Proof.
  intros ops Hp Hs o Ho. destruct o as [l c|p|u|n mv]; cbn [op_cols]; [lia|lia| |].
  - apply Hs. exact Ho.
  - exfalso. clear Hs. induction ops as [|x l IH]; [contradiction|].
    destruct x; cbn [prints_only] in Hp; try discriminate;
      (destruct Ho as [Ho|Ho]; [discriminate|apply IH; assumption]).
Qed.

Lemma text_emit_nonneg : forall p s offs n, text_valid s = true ->
  forall o, In o (text_emit p s offs n) -> 0 <= op_cols o.
Proof.
  intros p s offs n Hv. apply op_cols_nonneg_prints; [apply text_emit_prints|].
  intros t Ht. unfold text_emit in Ht.
  destruct Ht as [Ht|Ht]; [discriminate|].
  assert (B : forall k, In (TPrint t) (repeat (TPrint [32]) k) -> 0 <= text_width t).
  { intros k Hk. apply repeat_spec in Hk. inversion Hk. cbv. discriminate. }
  apply in_app_or in Ht. destruct Ht as [Ht|Ht]; [eapply B; eassumption|].
  apply in_app_or in Ht. destruct Ht as [Ht|Ht]; [|eapply B; eassumption].
  destruct (sp_cp _ <? sp_cp _); [|contradiction].
  destruct Ht as [Ht|[]]. inversion Ht. rewrite text_width_tw. apply tw_nonneg.
  unfold slice, firstz, skipz. apply valid_firstn, valid_skipn, text_valid_valid, Hv.
Qed.

(* the glyphs of a line run: all of width one, as many as the run has cells, and the cells of
   the run are single LINE cells *)
Lemma line_run_cols : forall fuel r col p,
  WF r -> row_content_ok r -> at_boundary r col ->
  let '(g, c') := line_run fuel r col p in
  col <= c' /\ at_boundary r c' /\ tw g = c' - col /\
  pending_cols r col = zseq col (Z.to_nat (c' - col)) ++ pending_cols r c'.
Proof.
  induction fuel as [|f IH]; intros r col p W RC Hb; cbn [line_run].
  - split; [lia|]. split; [assumption|]. split; [cbn [tw]; lia|]. rewrite Z.sub_diag. reflexivity.
  - assert (Triv : col <= col /\ at_boundary r col /\ tw [] = col - col /\
                   pending_cols r col = zseq col (Z.to_nat (col - col)) ++ pending_cols r col).
    { split; [lia|]. split; [assumption|]. split; [cbn [tw]; lia|]. rewrite Z.sub_diag. reflexivity. }
    destruct (Z.ltb_spec col (len r)) as [Hlt|Hge]; [|exact Triv].
    destruct Hb as [Hb|(Hc & c & n & Ec)]; [lia|]. rewrite Ec.
    destruct c; try exact Triv.
    destruct (pen_equiv p0 p); [|exact Triv].
    assert (n = 1).
    { assert (Wc := W col Hc). unfold wf_cellf in Wc. rewrite Ec in Wc. destruct Wc as (_ & _ & K3 & _). now apply K3. }
    subst n.
    assert (Hn := next_boundary r col _ _ W Hc Ec).
    assert (Gw := RC col Hc). unfold span_ok in Gw. rewrite Ec in Gw.
    specialize (IH r (col + 1) p W RC Hn). destruct (line_run f r (col + 1) p) as [g c'].
    destruct IH as (I1 & I2 & I3 & I4). split; [lia|]. split; [assumption|]. split; [cbn [tw]; lia|].
    rewrite (pending_span r col _ 1 W Hc Ec). rewrite I4.
    replace (Z.to_nat (c' - col)) with (Z.to_nat 1 + Z.to_nat (c' - (col + 1)))%nat by lia.
    rewrite zseq_app. rewrite <- app_assoc. replace (col + Z.of_nat (Z.to_nat 1)) with (col + 1) by lia. reflexivity.
Qed.

Definition cur_ok (line phycol col : Z) (cur : option tpos) : Prop :=
  phycol <= col /\ (phycol = col -> cur = Some (line, col)).

(* one line: the operations write exactly the pending cells of the row from [col] on, in order *)
Theorem flush_line_columns : forall fuel r line col phycol cur ops,
  WF r -> row_content_ok r -> at_boundary r col -> cur_ok line phycol col cur ->
  flush_line fuel r line col phycol = Ok ops ->
  exists cur', track cur ops = Some (map (pair line) (pending_cols r col), cur').
Proof.
  induction fuel as [|f IH]; intros r line col phycol cur ops W RC Hb Hcur E.
  - cbn [flush_line] in E. destruct (Z.leb_spec (len r) col) as [Hge|Hlt]; [|discriminate].
    inversion E; subst. destruct Hb as [->|(Hc & _)]; [|lia]. rewrite pending_end. cbn [track map]. eauto.
  - cbn [flush_line] in E. destruct (Z.leb_spec (len r) col) as [Hge|Hlt].
    { inversion E; subst. destruct Hb as [->|(Hc & _)]; [|lia]. rewrite pending_end. cbn [track map]. eauto. }
    destruct Hb as [Hb|(Hc & c & n & Ec)]; [lia|].
    rewrite getr_ok in E by assumption. cbn [bind] in E. rewrite Ec in E.
    assert (Wc := W col Hc). unfold wf_cellf in Wc. rewrite Ec in Wc. destruct Wc as (K1 & K2 & K3 & K4).
    assert (Hn := next_boundary r col c n W Hc Ec).
    assert (Gw := RC col Hc). unfold span_ok in Gw. rewrite Ec in Gw.
    rewrite (pending_span r col c n W Hc Ec). rewrite map_app.
    destruct Hcur as (C1 & C2).
    (* after the optional goto the cursor is known to be at col *)
    assert (Goto : forall tail, track cur ((if phycol <? col then [TGoto line col] else []) ++ tail) = track (Some (line, col)) tail).
    { intros tail. destruct (Z.ltb_spec phycol col); cbn [app track]; [reflexivity|]. rewrite C2 by lia. reflexivity. }
    destruct c as [|p s offs|p|p m|p cp].
    + (* skip *)
      cbn [app map]. apply (IH r line (col + n) phycol cur ops W RC Hn); [|exact E].
      split; [lia|intros; lia].
    + (* text *)
      destruct (flush_line f r line (col + n) (col + n)) as [rest| |] eqn:Er; cbn [bind] in E; try discriminate.
      assert (Eo : ops = (if phycol <? col then [TGoto line col] else []) ++ text_emit p s offs n ++ rest)
        by (inversion E; reflexivity).
      subst ops. clear E.
      destruct Gw as (G1 & G2 & G3).
      rewrite Goto, track_app.
      rewrite track_prints; [|apply text_emit_prints|apply text_emit_nonneg; assumption].
      rewrite text_emit_cols by (assumption || lia).
      destruct (IH r line (col + n) (col + n) (Some (line, col + n)) rest W RC Hn) as (cur' & ->); [|exact Er|eauto].
      split; [lia|reflexivity].
    + (* erase *)
      destruct (if col + n <? len r then getr r (col + n) else Ok dcell) as [nx| |]; cbn [bind] in E; try discriminate.
      cbv zeta in E.
      set (mv0 := (col + n <? len r) && match ck nx with Start CSkip _ => false | _ => true end) in E.
      destruct (flush_line f r line (col + n) (if mv0 then col + n else -1)) as [rest| |] eqn:Er; cbn [bind] in E; try discriminate.
      assert (Eo : ops = (if phycol <? col then [TGoto line col] else []) ++ [TSetPen p; TErase n mv0] ++ rest)
        by (inversion E; reflexivity).
      subst ops. clear E.
      rewrite Goto. cbn [app track].
      destruct (IH r line (col + n) (if mv0 then col + n else -1) (if mv0 then Some (line, col + n) else None) rest W RC Hn)
        as (cur' & ->); [|exact Er|eauto].
      destruct mv0; split; try lia; try reflexivity.
    + (* line run *)
      specialize (K3 eq_refl). subst n.
      assert (R := line_run_cols (S (Z.to_nat (len r))) r (col + 1) p W RC Hn).
      destruct (line_run (S (Z.to_nat (len r))) r (col + 1) p) as [gl c'].
      destruct R as (R1 & R2 & R3 & R4).
      match type of E with context [flush_line f r line c' ?ph] =>
        destruct (flush_line f r line c' ph) as [rest| |] eqn:Er end; cbn [bind] in E; try discriminate.
      inversion E; subst ops. clear E.
      rewrite Goto. cbn [app track].
      assert (Ew : text_width (linechar m :: gl) = c' - col).
      { rewrite text_width_tw. cbn [tw]. lia. }
      rewrite Ew.
      destruct (IH r line c' (col + 1 + (c' - (col + 1))) (Some (line, col + (c' - col))) rest W RC R2) as (cur' & ->); [|exact Er|].
      * split; [lia|]. intros _. do 2 f_equal. lia.
      * exists cur'. do 2 f_equal. rewrite R4. rewrite map_app, app_assoc. f_equal. rewrite <- map_app. unfold cells_from. f_equal.
        replace (Z.to_nat (c' - col)) with (Z.to_nat 1 + Z.to_nat (c' - (col + 1)))%nat by lia.
        rewrite zseq_app. replace (col + Z.of_nat (Z.to_nat 1)) with (col + 1) by lia. reflexivity.
    + (* char *)
      destruct (flush_line f r line (col + n) (col + n)) as [rest| |] eqn:Er; cbn [bind] in E; try discriminate.
      inversion E; subst ops. clear E.
      specialize (K3 eq_refl). subst n.
      rewrite Goto. cbn [app track].
      assert (Ew : text_width [cp] = 1) by (rewrite text_width_tw; cbn [tw]; lia).
      rewrite Ew.
      destruct (IH r line (col + 1) (col + 1) (Some (line, col + 1)) rest W RC Hn) as (cur' & ->); [|exact Er|eauto].
      split; [lia|reflexivity].
Qed.

(* all lines *)
Fixpoint pending_rows (rows : list row) (line : Z) : list tpos :=
  match rows with
  | [] => []
  | r :: rest => map (pair line) (pending_cols r 0) ++ pending_rows rest (line + 1)
  end.

Theorem flush_rows_columns : forall rows line cur ops,
  (forall r, In r rows -> WF r /\ row_content_ok r) ->
  flush_rows rows line = Ok ops ->
  exists cur', track cur ops = Some (pending_rows rows line, cur').
Proof.
  induction rows as [|r rows IH]; intros line cur ops H E; cbn [flush_rows] in E.
  - inversion E; subst. cbn [track pending_rows]. eauto.
  - destruct (flush_line (S (length r)) r line 0 (-1)) as [a| |] eqn:Ea; cbn [bind] in E; try discriminate.
    destruct (flush_rows rows (line + 1)) as [b| |] eqn:Eb; cbn [bind] in E; try discriminate.
    inversion E; subst ops. clear E.
    destruct (H r (or_introl eq_refl)) as (W & RC).
    destruct (flush_line_columns (S (length r)) r line 0 (-1) cur a W RC (row_start_boundary r W)) as (c1 & E1); [|exact Ea|].
    { split; [lia|intros; lia]. }
    destruct (IH (line + 1) c1 b (fun r' Hr' => H r' (or_intror Hr')) Eb) as (c2 & E2).
    rewrite track_app, E1, E2. cbn [pending_rows]. eauto.
Qed.
