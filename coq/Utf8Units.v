(* Utf8Units.v -- second half of the refinement proof for C07: the item-level walk
   (commit-on-next-grapheme) takes exactly the longest prefix of UNITS that respects every
   limit, and facts about decode / units / take_units used for the consistency and
   resumption theorems. *)
From Coq Require Import ZArith List Bool Lia.
From Tickit Require Import Gen_Width Utf8Defs Utf8Spec Utf8Tables Utf8Bits Utf8Walk.
Import ListNotations.
Local Open Scope Z_scope.

(* ------------------------------------------------------------------ order on positions *)

Definition item_nonneg (i : item) : Prop := 0 <= it_nb i /\ 0 <= it_w i.
Definition items_nonneg (its : list item) : Prop := Forall item_nonneg its.

Definition pos_le (a b : spos) : Prop :=
  p_bytes a <= p_bytes b /\ p_cps a <= p_cps b /\ p_graphs a <= p_graphs b /\ p_cols a <= p_cols b.

Lemma pos_le_refl : forall a, pos_le a a.
Proof. intro a. unfold pos_le. lia. Qed.

Lemma pos_le_trans : forall a b c, pos_le a b -> pos_le b c -> pos_le a c.
Proof. unfold pos_le. intros. lia. Qed.

Lemma pos_add_item_le : forall p i, item_nonneg i -> pos_le p (pos_add_item p i).
Proof.
  intros p i [H1 H2]. unfold pos_le, pos_add_item. cbn.
  destruct (spacing i); lia.
Qed.

Lemma pos_add_unit_le : forall u p, items_nonneg u -> pos_le p (pos_add_unit p u).
Proof.
  induction u as [|i u IH]; intros p H.
  - apply pos_le_refl.
  - inversion H; subst. unfold pos_add_unit. cbn [fold_left].
    eapply pos_le_trans; [apply pos_add_item_le; eassumption|]. apply IH. assumption.
Qed.

Lemma pos_add_unit_app : forall a b p,
  pos_add_unit p (a ++ b) = pos_add_unit (pos_add_unit p a) b.
Proof. intros. unfold pos_add_unit. apply fold_left_app. Qed.

Lemma fld_ok_antitone : forall l v v', v' <= v -> fld_ok l v = true -> fld_ok l v' = true.
Proof.
  unfold fld_ok. intros l v v' Hle H.
  apply orb_true_iff in H. apply orb_true_iff.
  destruct H as [H|H]; [left; exact H|right].
  apply Z.leb_le in H. apply Z.leb_le. lia.
Qed.

Lemma within_antitone : forall a b limit, pos_le a b -> within b limit = true -> within a limit = true.
Proof.
  intros a b [l|] [H1 [H2 [H3 H4]]] H; [|reflexivity].
  unfold within in *.
  apply andb_true_iff in H. destruct H as [H H4'].
  apply andb_true_iff in H. destruct H as [H H3'].
  apply andb_true_iff in H. destruct H as [H1' H2'].
  rewrite (fld_ok_antitone _ _ _ H1 H1'), (fld_ok_antitone _ _ _ H2 H2'),
          (fld_ok_antitone _ _ _ H3 H3'), (fld_ok_antitone _ _ _ H4 H4').
  reflexivity.
Qed.

(* ------------------------------------------------------------------ group *)

Lemma group_first : forall rest cur, cur <> [] ->
  exists zs r rest', rest = zs ++ r /\ group cur rest = (cur ++ zs) :: rest'.
Proof.
  induction rest as [|i rest IH]; intros cur Hne.
  - exists [], [], []. split; [reflexivity|].
    cbn. rewrite app_nil_r. destruct cur; [congruence|reflexivity].
  - cbn [group]. destruct (spacing i).
    + exists [], (i :: rest), (group [i] rest). split; [reflexivity|].
      rewrite app_nil_r. destruct cur; [congruence|reflexivity].
    + destruct (IH (cur ++ [i])) as [zs [r [rest' [E1 E2]]]].
      { destruct cur; discriminate. }
      exists (i :: zs), r, rest'. split; [cbn; rewrite E1; reflexivity|].
      rewrite E2, <- app_assoc. reflexivity.
Qed.

Lemma concat_group : forall its cur, concat (group cur its) = cur ++ its.
Proof.
  induction its as [|i its IH]; intro cur.
  - cbn. rewrite app_nil_r. destruct cur; cbn; [reflexivity|rewrite app_nil_r; reflexivity].
  - cbn [group]. destruct (spacing i).
    + rewrite concat_app, IH. destruct cur; cbn; [reflexivity|rewrite app_nil_r; reflexivity].
    + rewrite IH, <- app_assoc. reflexivity.
Qed.

Lemma concat_units : forall its, concat (units its) = its.
Proof. intro its. unfold units. rewrite concat_group. reflexivity. Qed.

(* ------------------------------------------------------------------ the walk takes whole units *)

Definition wabs (w : wres) : option spos :=
  match w with WErr _ => None | WOk p => Some p end.

(* outcome of the specification on a list of units: None = error *)
Definition spec_grp (us : list (list item)) (bad : bool) (pos : spos) (limit : option spos) : option spos :=
  let '(p, all) := take_units us pos limit in
  if all && bad then None else Some p.

Lemma spec_grp_emit : forall cur G bad pos limit,
  (cur <> [] -> within (pos_add_unit pos cur) limit = true) ->
  spec_grp (emit cur ++ G) bad pos limit = spec_grp G bad (pos_add_unit pos cur) limit.
Proof.
  intros cur G bad pos limit H. unfold spec_grp.
  destruct cur as [|c cs]; [reflexivity|].
  cbn [emit app take_units]. rewrite H by discriminate. reflexivity.
Qed.

Lemma spec_grp_nofit : forall u rest bad pos limit,
  within (pos_add_unit pos u) limit = false -> spec_grp (u :: rest) bad pos limit = Some pos.
Proof.
  intros u rest bad pos limit H. unfold spec_grp. cbn [take_units]. rewrite H. reflexivity.
Qed.

Lemma walk_group : forall its cur pos here bad limit,
  items_nonneg its ->
  here = pos_add_unit pos cur ->
  (cur <> [] -> within here limit = true) ->
  wabs (walk its bad limit pos here) = spec_grp (group cur its) bad pos limit.
Proof.
  induction its as [|i rest IH]; intros cur pos here bad limit Hnn Hhere Hfit.
  - cbn [walk group].
    rewrite <- (app_nil_r (emit cur)), spec_grp_emit by (subst here; exact Hfit).
    rewrite <- Hhere. unfold spec_grp. cbn [take_units andb].
    destruct bad; reflexivity.
  - inversion Hnn as [|i' rest' Hi Hrest]; subst i' rest'.
    cbn [walk group]. cbv zeta.
    destruct (spacing i) eqn:Esp.
    + (* a spacing item: the unit collected so far is complete *)
      rewrite spec_grp_emit by (subst here; exact Hfit).
      rewrite <- Hhere.
      destruct (within (pos_add_item here i) limit) eqn:Ew.
      * apply IH; auto.
      * cbn [wabs]. symmetry.
        destruct (group_first rest [i]) as [zs [r [rest' [E1 E2]]]]; [discriminate|].
        rewrite E2. apply spec_grp_nofit.
        destruct (within (pos_add_unit here ([i] ++ zs)) limit) eqn:Ew2; [|reflexivity].
        rewrite pos_add_unit_app in Ew2.
        assert (Hz : items_nonneg zs).
        { rewrite E1 in Hrest. apply Forall_app in Hrest. tauto. }
        pose proof (within_antitone _ _ limit (pos_add_unit_le zs _ Hz) Ew2) as C.
        unfold pos_add_unit in C at 1. cbn [fold_left] in C. congruence.
    + (* a zero-width item joins the current unit *)
      destruct (within (pos_add_item here i) limit) eqn:Ew.
      * apply IH; auto.
        -- subst here. rewrite pos_add_unit_app. reflexivity.
      * cbn [wabs]. symmetry.
        destruct (group_first rest (cur ++ [i])) as [zs [r [rest' [E1 E2]]]].
        { destruct cur; discriminate. }
        rewrite E2. apply spec_grp_nofit.
        destruct (within (pos_add_unit pos ((cur ++ [i]) ++ zs)) limit) eqn:Ew2; [|reflexivity].
        rewrite !pos_add_unit_app in Ew2. rewrite <- Hhere in Ew2.
        assert (Hz : items_nonneg zs).
        { rewrite E1 in Hrest. apply Forall_app in Hrest. tauto. }
        pose proof (within_antitone _ _ limit (pos_add_unit_le zs _ Hz) Ew2) as C.
        unfold pos_add_unit in C at 1. cbn [fold_left] in C. congruence.
Qed.

Theorem walk_is_spec : forall its bad pos limit, items_nonneg its ->
  wabs (walk its bad limit pos pos) = spec_grp (units its) bad pos limit.
Proof.
  intros. unfold units. apply walk_group; auto; try congruence.
Qed.

(* ------------------------------------------------------------------ induction over decode *)

Lemma decode_ind : forall (P : list Z -> Prop),
  P [] ->
  (forall s, s <> [] -> raw1 s = None -> P s) ->
  (forall s cp nb pre t, raw1 s = Some (cp, nb, t) -> s = pre ++ t ->
     Z.of_nat (length pre) = nb -> 1 <= nb <= 4 -> P t -> P s) ->
  forall s, P s.
Proof.
  intros P H0 Hbad Hstep s.
  remember (length s) as n eqn:Hn.
  assert (Hle : (length s <= n)%nat) by lia. clear Hn.
  revert s Hle. induction n as [|n IH]; intros s Hle.
  - destruct s; [exact H0|cbn in Hle; lia].
  - destruct s as [|b0 t0] eqn:Es; [exact H0|]. rewrite <- Es in *.
    assert (Hne : s <> []) by (subst s; discriminate).
    destruct (raw1 s) as [[[cp nb] t]|] eqn:Er.
    + destruct (raw1_split _ _ _ _ Er) as [pre [E1 [E2 E3]]].
      apply (Hstep s cp nb pre t Er E1 E2 E3).
      apply IH. rewrite E1, app_length in Hle. lia.
    + apply Hbad; assumption.
Qed.

Lemma decode_nonneg : forall s, items_nonneg (fst (decode s)).
Proof.
  apply decode_ind.
  - constructor.
  - intros s Hne Er. rewrite (decode_raw1 s Hne), Er. constructor.
  - intros s cp nb pre t Er Es Hpre Hnb IH.
    assert (Hne : s <> []) by (destruct s; [discriminate|discriminate]).
    rewrite (decode_raw1 s Hne), Er. unfold mk_item.
    destruct (bad_cp cp); [constructor|].
    cbn [fst]. constructor; [|exact IH].
    split; cbn; [lia|apply spec_width_range].
Qed.

Lemma pos_add_unit_sums : forall its p,
  pos_add_unit p its =
  mkPos (p_bytes p + bytes_of its) (p_cps p + Z.of_nat (length its))
        (p_graphs p + graphs_of its) (p_cols p + cols_of its).
Proof.
  induction its as [|i its IH]; intro p.
  - cbn. destruct p; cbn. f_equal; lia.
  - change (pos_add_unit p (i :: its)) with (pos_add_unit (pos_add_item p i) its).
    rewrite IH.
    change (bytes_of (i :: its)) with (it_nb i + bytes_of its).
    change (cols_of (i :: its)) with (it_w i + cols_of its).
    change (graphs_of (i :: its)) with ((if spacing i then 1 else 0) + graphs_of its).
    change (length (i :: its)) with (S (length its)). rewrite Nat2Z.inj_succ.
    unfold pos_add_item. cbn [p_bytes p_cps p_graphs p_cols].
    f_equal; lia.
Qed.

Lemma bytes_of_app : forall a b, bytes_of (a ++ b) = bytes_of a + bytes_of b.
Proof.
  induction a as [|i a IH]; intro b; [reflexivity|].
  change (bytes_of ((i :: a) ++ b)) with (it_nb i + bytes_of (a ++ b)).
  change (bytes_of (i :: a)) with (it_nb i + bytes_of a). rewrite IH. lia.
Qed.

(* the items are consecutive pieces of the string: dropping the bytes of the first items
   leaves a string that decodes to the remaining items *)
Lemma decode_skip : forall its1 s its2 bad, decode s = (its1 ++ its2, bad) ->
  exists pre s', s = pre ++ s' /\ Z.of_nat (length pre) = bytes_of its1 /\ decode s' = (its2, bad).
Proof.
  induction its1 as [|i its1 IH]; intros s its2 bad H.
  - exists [], s. repeat split; auto.
  - assert (Hne : s <> []).
    { intro E. subst s. cbn in H. discriminate. }
    rewrite (decode_raw1 s Hne) in H.
    destruct (raw1 s) as [[[cp nb] t]|] eqn:Er; [|discriminate].
    unfold mk_item in H. destruct (bad_cp cp); [discriminate|].
    cbn [app] in H. injection H as Hi Hrest Hbad.
    destruct (raw1_split _ _ _ _ Er) as [pre [E1 [E2 E3]]].
    destruct (IH t its2 bad) as [pre' [s' [F1 [F2 F3]]]].
    { rewrite (surjective_pairing (decode t)). rewrite Hrest, Hbad. reflexivity. }
    exists (pre ++ pre'), s'. split; [|split].
    + rewrite E1, F1, app_assoc. reflexivity.
    + rewrite app_length, Nat2Z.inj_add, E2, F2.
      change (bytes_of (i :: its1)) with (it_nb i + bytes_of its1). subst i. cbn [it_nb]. lia.
    + exact F3.
Qed.

(* ------------------------------------------------------------------ shape of take_units *)

Fixpoint all_fit (us : list (list item)) (p : spos) (limit : option spos) : Prop :=
  match us with
  | [] => True
  | u :: r => within (pos_add_unit p u) limit = true /\ all_fit r (pos_add_unit p u) limit
  end.

Lemma take_units_split : forall us p limit p' all, take_units us p limit = (p', all) ->
  exists us1 us2, us = us1 ++ us2 /\ p' = pos_add_unit p (concat us1) /\ all_fit us1 p limit /\
                  (all = true -> us2 = []) /\
                  (all = false -> exists u r, us2 = u :: r /\ within (pos_add_unit p' u) limit = false).
Proof.
  induction us as [|u us IH]; intros p limit p' all H.
  - cbn in H. injection H as <- <-. exists [], []. repeat split; auto. discriminate.
  - cbn [take_units] in H.
    destruct (within (pos_add_unit p u) limit) eqn:Ew.
    + destruct (IH _ _ _ _ H) as [us1 [us2 [E1 [E2 [E3 [E4 E5]]]]]].
      exists (u :: us1), us2. split; [cbn; rewrite E1; reflexivity|].
      split; [cbn [concat]; rewrite pos_add_unit_app; exact E2|].
      split; [cbn; split; assumption|]. split; assumption.
    + injection H as <- <-. exists [], (u :: us). repeat split; auto; [discriminate|].
      intros _. exists u, us. split; [reflexivity|exact Ew].
Qed.

Lemma take_units_app_fit : forall us1 us2 p limit, all_fit us1 p limit ->
  take_units (us1 ++ us2) p limit = take_units us2 (pos_add_unit p (concat us1)) limit.
Proof.
  induction us1 as [|u us1 IH]; intros us2 p limit H.
  - reflexivity.
  - cbn in H. destruct H as [H1 H2].
    cbn [app take_units concat]. rewrite H1, pos_add_unit_app. apply IH. exact H2.
Qed.

Lemma fld_le_ok : forall a b v, fld_le a b = true -> fld_ok a v = true -> fld_ok b v = true.
Proof.
  unfold fld_le, fld_ok. intros a b v H1 H2.
  apply orb_true_iff in H1. apply orb_true_iff.
  destruct H1 as [H1|H1]; [left; exact H1|right].
  apply andb_true_iff in H1. destruct H1 as [Ha Hab].
  apply negb_true_iff in Ha. rewrite Ha in H2. cbn in H2.
  apply Z.leb_le in H2. apply Z.leb_le in Hab. apply Z.leb_le. lia.
Qed.

Lemma within_limit_le : forall l1 l2 p, limit_le l1 l2 = true -> within p l1 = true -> within p l2 = true.
Proof.
  intros l1 [b|] p H1 H2; [|reflexivity].
  destruct l1 as [a|]; [|discriminate].
  cbn [limit_le] in H1. unfold within in *.
  apply andb_true_iff in H1. destruct H1 as [H1 D1].
  apply andb_true_iff in H1. destruct H1 as [H1 C1].
  apply andb_true_iff in H1. destruct H1 as [A1 B1].
  apply andb_true_iff in H2. destruct H2 as [H2 D2].
  apply andb_true_iff in H2. destruct H2 as [H2 C2].
  apply andb_true_iff in H2. destruct H2 as [A2 B2].
  rewrite (fld_le_ok _ _ _ A1 A2), (fld_le_ok _ _ _ B1 B2), (fld_le_ok _ _ _ C1 C2), (fld_le_ok _ _ _ D1 D2).
  reflexivity.
Qed.

Lemma all_fit_limit_le : forall us p l1 l2, limit_le l1 l2 = true -> all_fit us p l1 -> all_fit us p l2.
Proof.
  induction us as [|u us IH]; intros p l1 l2 H H1; [exact I|].
  cbn in *. destruct H1 as [A B]. split.
  - eapply within_limit_le; eassumption.
  - eapply IH; eassumption.
Qed.

(* ------------------------------------------------------------------ units are well formed *)

Definition zw (i : item) : Prop := spacing i = false.

(* a grapheme: one spacing item, then zero-width ones *)
Definition unit_ok (u : list item) : Prop :=
  match u with
  | [] => False
  | i :: zs => spacing i = true /\ Forall zw zs
  end.

Lemma group_ok : forall its cur, unit_ok cur -> Forall unit_ok (group cur its).
Proof.
  induction its as [|i its IH]; intros cur Hc.
  - destruct cur; [contradiction|]. cbn. constructor; [exact Hc|constructor].
  - cbn [group]. destruct (spacing i) eqn:E.
    + destruct cur; [contradiction|]. cbn [emit app]. constructor; [exact Hc|].
      apply IH. cbn. split; [exact E|constructor].
    + apply IH. destruct cur as [|c cs]; [contradiction|].
      cbn in *. destruct Hc as [H1 H2]. split; [exact H1|].
      apply Forall_app. split; [exact H2|]. constructor; [exact E|constructor].
Qed.

(* every unit but the first is a grapheme *)
Lemma group_tail_ok : forall its cur, Forall unit_ok (tl (group cur its)).
Proof.
  induction its as [|i its IH]; intro cur.
  - destruct cur; cbn; constructor.
  - cbn [group]. destruct (spacing i) eqn:E.
    + assert (G : Forall unit_ok (group [i] its)).
      { apply group_ok. cbn. split; [exact E|constructor]. }
      destruct cur; cbn [emit app tl]; [|exact G].
      destruct (group [i] its); [constructor|]. inversion G; assumption.
    + apply IH.
Qed.

Lemma group_zw : forall zs cur r, Forall zw zs -> group cur (zs ++ r) = group (cur ++ zs) r.
Proof.
  induction zs as [|z zs IH]; intros cur r H.
  - rewrite app_nil_r. reflexivity.
  - inversion H as [|z' zs' Hz Hzs]; subst. cbn [app group]. unfold zw in Hz. rewrite Hz.
    rewrite IH by assumption. rewrite <- app_assoc. reflexivity.
Qed.

Lemma regroup : forall us cur, Forall unit_ok us -> group cur (concat us) = emit cur ++ us.
Proof.
  induction us as [|u us IH]; intros cur H.
  - cbn. rewrite app_nil_r. reflexivity.
  - inversion H as [|u' us' Hu Hus]; subst.
    destruct u as [|i zs]; [contradiction|]. destruct Hu as [Hi Hzs].
    cbn [concat app group]. rewrite Hi. f_equal.
    rewrite group_zw by assumption. rewrite IH by assumption. reflexivity.
Qed.

(* a suffix of the units of [its] (not the whole, or the whole) is the units of its items *)
Lemma units_suffix : forall its us1 us2, units its = us1 ++ us2 -> us1 <> [] ->
  units (concat us2) = us2.
Proof.
  intros its us1 us2 H Hne. unfold units in *.
  pose proof (group_tail_ok its []) as T. rewrite H in T.
  destruct us1 as [|u1 us1]; [congruence|]. cbn [app tl] in T.
  apply Forall_app in T. destruct T as [_ T].
  rewrite regroup by assumption. reflexivity.
Qed.
