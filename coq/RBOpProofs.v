(* RBOpProofs.v -- refinement of the primitive drawing operations: the run operations
   (put_substr, skip, erase), put_char, linecell. *)
From Coq Require Import ZArith List Bool Lia.
From Tickit Require Import RectDefs RBDefs RBSpec RBLemmas RBSpanProofs RBAbsLemmas RBInv.
Import ListNotations.
Local Open Scope Z_scope.

(* conjunctions whose members are closed by reflexivity or an assumption -- but never split an
   [Inv] record *)
Ltac conj_auto :=
  repeat match goal with
         | |- Inv _ => assumption
         | |- _ /\ _ => split
         | |- _ => first [reflexivity | assumption]
         end.

Lemma paint_row_ext : forall l c k f f' g,
  (forall x old, f x old = f' x old) -> paint_row l c k f g = paint_row l c k f' g.
Proof.
  intros l c k f f' g H. unfold paint_row. apply agrid_ext.
  - now rewrite !zlen_mapi.
  - intros y Hy. rewrite zlen_mapi in Hy.
    rewrite (zn_mapi _ g y [] []), (zn_mapi _ g y [] []) by assumption. now rewrite !zlen_mapi.
  - intros y x Hy Hx. rewrite zlen_mapi in Hy. unfold gcell in *.
    rewrite (zn_mapi _ g y [] []) in * by assumption. rewrite zlen_mapi in Hx.
    rewrite (zn_mapi _ g y [] []) by assumption.
    rewrite (zn_mapi _ _ x dacell dacell), (zn_mapi _ _ x dacell dacell) by assumption.
    now rewrite H.
Qed.

Lemma a_paint_ext : forall s r F G,
  (forall y x old, F y x old = G y x old) -> a_paint s r F = a_paint s r G.
Proof.
  intros s r F G H. unfold a_paint. f_equal. apply agrid_ext.
  - now rewrite !zlen_mapi.
  - intros y Hy. rewrite zlen_mapi in Hy.
    rewrite (zn_mapi _ (ag s) y [] []), (zn_mapi _ (ag s) y [] []) by assumption. now rewrite !zlen_mapi.
  - intros y x Hy Hx. rewrite zlen_mapi in Hy. unfold gcell in *.
    rewrite (zn_mapi _ (ag s) y [] []) in * by assumption. rewrite zlen_mapi in Hx.
    rewrite (zn_mapi _ (ag s) y [] []) by assumption.
    rewrite (zn_mapi _ _ x dacell dacell), (zn_mapi _ _ x dacell dacell) by assumption.
    now rewrite H.
Qed.

(* what the invariant says about an accepted xlate_and_clip *)
Lemma xlate_in_buffer : forall s line col n l c k sc,
  Inv s -> xlate_and_clip (aux s) line col n = Some (l, c, k, sc) ->
  0 <= cols (clip (aux s)) /\ 0 <= l < rb_lines s /\ 0 <= c /\ 0 <= k /\ c + k <= rb_cols s /\
  sc = c - (col + xc (aux s)).
Proof.
  intros s line col n l c k sc I H.
  assert (Hc := inv_clip s I). unfold clip_in in Hc.
  destruct Hc as [Hz|Hc].
  - unfold xlate_and_clip in H. rewrite Hz in H. cbn [Z.eqb] in H. discriminate.
  - destruct Hc as (C1 & C2 & C3 & C4 & C5).
    destruct (xlate_some _ _ _ _ _ _ _ _ C4 H) as (_ & K1 & K2 & K3 & K4 & K5 & K6). clear H. lia.
Qed.

Lemma abs_rb_eq : forall s' s g,
  rb_lines s' = rb_lines s -> rb_cols s' = rb_cols s -> aux s' = aux s ->
  ag (abs_rb s') = g -> abs_rb s' = set_ag (abs_rb s) g.
Proof.
  intros s' s g H1 H2 H3 H4. unfold abs_rb, set_ag in *. cbn [a_lines a_cols ag a_aux] in *.
  now rewrite H1, H2, H3, H4.
Qed.

(* ---------------------------------------------------------------------------------- *)
(* the run operations *)

Definition run_op (s : rb) (line col n : Z) (mk : Z -> content) (stf : Z -> Z) : res rb :=
  match xlate_and_clip (aux s) line col n with
  | None => Ok s
  | Some (l, c, k, sc) => on_row s l (fun r => put_row mk r c k (stf sc))
  end.

Theorem run_op_ok : forall s line col n mk stf F,
  Inv s -> shift_inv mk -> never_single mk ->
  (forall c x, content_at (mk (stf (c - (col + xc (aux s))) + (x - c))) 0 = F x) ->
  exists s', run_op s line col n mk stf = Ok s' /\ Inv s' /\
    aux s' = aux s /\ rb_lines s' = rb_lines s /\ rb_cols s' = rb_cols s /\
    abs_rb s' = a_paint (abs_rb s) (row_rect line col n) (fun _ x _ => F x).
Proof.
  intros s line col n mk stf F I Hsh Hns HF. unfold run_op.
  destruct (xlate_and_clip (aux s) line col n) as [[[[l c] k] sc]|] eqn:EX.
  - destruct (xlate_in_buffer _ _ _ _ _ _ _ _ I EX) as (Hcc & Hl & Hc & Hk & Hck & Esc).
    assert (Hr := inv_rows s I l Hl). destruct Hr as (RL & RW & RM).
    set (r := zn (cells s) l []) in *.
    destruct (put_row_ok mk r c k (stf sc) RW RM Hc Hk ltac:(lia) Hsh Hns) as (r' & E & L' & W' & M' & Ab & Mk).
    assert (Hl' : 0 <= l < zlen (cells s)) by (rewrite (inv_lines s I); assumption).
    rewrite (on_row_ok s l _ r' Hl' E).
    exists (set_row s l r'). split; [reflexivity|].
    split; [apply set_row_inv; auto; split; [lia|auto]|].
    split; [reflexivity|]. split; [reflexivity|]. split; [reflexivity|].
    unfold a_paint. apply abs_rb_eq; try reflexivity.
    rewrite (set_row_abs s l r' c k (fun x _ => content_at (mk (stf sc + (x - c))) 0) I Hl L').
    + assert (P := a_paint_as_row (abs_rb s) line col n l c k sc (fun x _ => F x) Hcc EX).
      unfold a_paint in P. cbn [ag set_ag] in P. rewrite P.
      apply paint_row_ext. intros x old. subst sc. apply HF.
    + intros x Hx. apply Ab; assumption.
    + intros x Hx. apply Mk; assumption.
  - exists s. split; [reflexivity|]. split; [assumption|].
    split; [reflexivity|]. split; [reflexivity|]. split; [reflexivity|].
    symmetry. apply a_paint_none. exact EX.
Qed.

Lemma shift_inv_const : forall c, (match c with CText _ _ _ => False | _ => True end) -> shift_inv (fun _ => c).
Proof. intros c H k j. destruct c; cbn; try reflexivity. contradiction. Qed.

Lemma shift_inv_text : forall p t, shift_inv (fun k => CText p t k).
Proof. intros p t k j. cbn. f_equal. lia. Qed.

Theorem skip_ok : forall s line col n,
  Inv s -> exists s', skip s line col n = Ok s' /\ Inv s' /\
    aux s' = aux s /\ rb_lines s' = rb_lines s /\ rb_cols s' = rb_cols s /\
    abs_rb s' = a_skip (abs_rb s) (row_rect line col n).
Proof.
  intros s line col n I.
  apply (run_op_ok s line col n (fun _ => CSkip) (fun _ => 0) (fun _ => ASkip) I).
  - apply shift_inv_const. exact Logic.I.
  - intros k. reflexivity.
  - reflexivity.
Qed.

Theorem erase_ok : forall s line col n,
  Inv s -> exists s', erase s line col n = Ok s' /\ Inv s' /\
    aux s' = aux s /\ rb_lines s' = rb_lines s /\ rb_cols s' = rb_cols s /\
    abs_rb s' = a_erase (abs_rb s) (row_rect line col n).
Proof.
  intros s line col n I.
  apply (run_op_ok s line col n (fun _ => CErase (cur_pen (aux s))) (fun _ => 0) (fun _ => AErase (cur_pen (aux s))) I).
  - apply shift_inv_const. exact Logic.I.
  - intros k. reflexivity.
  - reflexivity.
Qed.

(* columns [offs, offs+n) of string t; put_string is offs = 0, n = width *)
Theorem put_substr_ok : forall s line col t offs n,
  Inv s -> exists s', put_substr s line col t offs n = Ok s' /\ Inv s' /\
    aux s' = aux s /\ rb_lines s' = rb_lines s /\ rb_cols s' = rb_cols s /\
    abs_rb s' = a_paint (abs_rb s) (row_rect line col n)
                  (fun _ x _ => AText (cur_pen (aux s)) t (offs + (x - (col + xc (aux s))))).
Proof.
  intros s line col t offs n I.
  apply (run_op_ok s line col n (fun k => CText (cur_pen (aux s)) t k) (fun sc => sc + offs)
           (fun x => AText (cur_pen (aux s)) t (offs + (x - (col + xc (aux s))))) I).
  - apply shift_inv_text.
  - intros k. reflexivity.
  - intros c x. cbn. f_equal. lia.
Qed.

Theorem put_string_ok : forall s line col t,
  Inv s -> exists s' v, put_string s line col t = Ok (s', v) /\ Inv s' /\
    aux s' = aux s /\ rb_lines s' = rb_lines s /\ rb_cols s' = rb_cols s /\
    v = (if text_valid t then text_width t else -1) /\
    abs_rb s' = (if text_valid t then a_text (abs_rb s) line col t else abs_rb s).
Proof.
  intros s line col t I. unfold put_string.
  destruct (text_valid t); cbn [negb].
  - destruct (put_substr_ok s line col t 0 (text_width t) I) as (s' & E & I' & A1 & A2 & A3 & Ab).
    rewrite E. cbn [bind]. exists s', (text_width t). conj_auto.
  - exists s, (-1). conj_auto.
Qed.

(* ---------------------------------------------------------------------------------- *)
(* single-cell operations *)

Lemma xlate_one : forall a line col l c k sc,
  0 <= cols (clip a) -> xlate_and_clip a line col 1 = Some (l, c, k, sc) -> k = 1.
Proof.
  intros a line col l c k sc Hcc H.
  unfold xlate_and_clip, bottom, right in H.
  destruct (Z.eqb_spec (lines (clip a)) 0); [discriminate|].
  destruct (Z.ltb_spec (line + xl a) (top (clip a))); cbn [orb] in H; [discriminate|].
  destruct (Z.geb_spec (line + xl a) (top (clip a) + lines (clip a))); cbn [orb] in H; [discriminate|].
  destruct (Z.geb_spec (col + xc a) (left (clip a) + cols (clip a))); cbn [orb] in H; [discriminate|].
  destruct (Z.ltb_spec (col + xc a) (left (clip a))).
  - destruct (Z.leb_spec (1 - (left (clip a) - (col + xc a))) 0); [discriminate|lia].
  - destruct (Z.leb_spec 1 0); [lia|].
    destruct (Z.gtb_spec 1 (left (clip a) + cols (clip a) - (col + xc a))); inversion H; subst; clear H; lia.
Qed.

(* replacing the payload of a single-cell start *)
Lemma upd_single_ok : forall r c X X' m,
  WF r -> 0 <= c < len r -> get r c = mkCell (Start X 1) m -> single_cell X' = true \/ True ->
  let r' := upd r c (mkCell (Start X' 1) m) in
  len r' = len r /\ WF r' /\
  (forall x, 0 <= x < len r -> abs_cell r' x = if x =? c then content_at X' 0 else abs_cell r x) /\
  (forall x, 0 <= x < len r -> cmask (get r' x) = cmask (get r x)).
Proof.
  intros r c X X' m W Hc Ec _ r'.
  assert (L' : len r' = len r) by apply len_upd.
  assert (G : forall x, 0 <= x < len r -> get r' x = if x =? c then mkCell (Start X' 1) m else get r x)
    by (intros; apply get_upd; assumption).
  (* no continuation points at c *)
  assert (NC : forall x sc, 0 <= x < len r -> ck (get r x) = Cont sc -> sc <> c).
  { intros x sc Hx Ex Heq. subst sc. assert (Wx := W x Hx). unfold wf_cellf in Wx. rewrite Ex in Wx.
    destruct Wx as (K1 & c0 & n0 & Hs & K2). rewrite Ec in Hs. cbn [ck] in Hs. inversion Hs; subst. lia. }
  split; [assumption|]. split.
  - unfold WF. rewrite L'. intros i Hi. unfold wf_cellf. rewrite G by assumption.
    destruct (Z.eqb_spec i c) as [->|Hne].
    + cbn [ck]. repeat split; try lia.
    + assert (Wi := W i Hi). unfold wf_cellf in Wi.
      destruct (ck (get r i)) as [c0 k|sc] eqn:Ei.
      * destruct Wi as (K1 & K2 & K3 & K4). repeat split; auto.
        intros j Hj. rewrite G by lia. destruct (Z.eqb_spec j c) as [->|]; [|apply K4; assumption].
        exfalso. specialize (K4 c Hj). rewrite Ec in K4. discriminate.
      * destruct Wi as (K1 & c0 & k & Hs & K2). split; [assumption|].
        rewrite G by lia. destruct (Z.eqb_spec sc c) as [->|]; [exfalso; eapply NC; eauto|]. eauto.
  - split.
    + intros x Hx. unfold abs_cell. rewrite G by assumption.
      destruct (Z.eqb_spec x c) as [->|Hne]; [reflexivity|].
      destruct (ck (get r x)) as [c0 k|sc] eqn:Ex; [reflexivity|].
      assert (Wx := W x Hx). unfold wf_cellf in Wx. rewrite Ex in Wx. destruct Wx as (K1 & _).
      rewrite G by lia. destruct (Z.eqb_spec sc c) as [->|]; [exfalso; eapply NC; eauto|reflexivity].
    + intros x Hx. rewrite G by assumption. destruct (Z.eqb_spec x c) as [->|]; [now rewrite Ec|reflexivity].
Qed.

(* the common shape of put_char / linecell on the selected row: the cell at c, if unmasked,
   takes f (old content) *)
Definition cell_step (f : cellc -> cellc) (r r' : row) (c : Z) : Prop :=
  len r' = len r /\ WF r' /\ masks_ok r' /\
  (forall x, 0 <= x < len r ->
     abs_cell r' x = if (c <=? x) && (x <? c + 1) && (cmask (get r x) =? -1) then f (abs_cell r x) else abs_cell r x) /\
  (forall x, 0 <= x < len r -> cmask (get r' x) = cmask (get r x)).

Lemma cell_step_same : forall f r c, WF r -> masks_ok r -> 0 <= c < len r -> -1 < cmask (get r c) -> cell_step f r r c.
Proof.
  intros f r c W M Hc Hm. repeat split; auto.
  intros x Hx. destruct (Z.leb_spec c x); destruct (Z.ltb_spec x (c + 1)); cbn [andb]; try reflexivity.
  assert (x = c) by lia. subst. destruct (Z.eqb_spec (cmask (get r c)) (-1)); [lia|reflexivity].
Qed.

Lemma cell_step_span : forall f r c X,
  WF r -> masks_ok r -> 0 <= c < len r -> cmask (get r c) = -1 ->
  (content_at X 0 = f (abs_cell r c)) ->
  exists r', make_span r c 1 X = Ok r' /\ cell_step f r r' c.
Proof.
  intros f r c X W M Hc Hm HX.
  destruct (make_span_ok r c 1 X W ltac:(lia) ltac:(lia) ltac:(lia) ltac:(auto)) as (r' & E & L' & W' & Ab & Mk).
  exists r'. split; [assumption|]. split; [assumption|]. split; [assumption|].
  assert (Mk' : forall x, 0 <= x < len r -> cmask (get r' x) = cmask (get r x)).
  { intros x Hx. rewrite Mk by assumption.
    destruct (Z.leb_spec c x); destruct (Z.ltb_spec x (c + 1)); cbn [andb]; try reflexivity.
    assert (x = c) by lia. subst. now rewrite Hm. }
  split; [|split; [|assumption]].
  - intros x Hx. rewrite L' in Hx. rewrite Mk' by assumption. apply M; assumption.
  - intros x Hx. rewrite Ab by assumption.
    destruct (Z.leb_spec c x); destruct (Z.ltb_spec x (c + 1)); cbn [andb]; try reflexivity.
    assert (x = c) by lia. subst. rewrite Hm. cbn [Z.eqb Pos.eqb]. rewrite Z.sub_diag. assumption.
Qed.

(* lifting a cell step on row l to the buffer *)
Lemma cell_op_ok : forall s line col f (op : row -> Z -> res row),
  Inv s ->
  (forall r c, WF r -> masks_ok r -> 0 <= c < len r -> exists r', op r c = Ok r' /\ cell_step f r r' c) ->
  exists s',
    (match xlate_and_clip (aux s) line col 1 with
     | None => Ok s
     | Some (l, c, k, _) => on_row s l (fun r => op r c)
     end) = Ok s' /\ Inv s' /\
    aux s' = aux s /\ rb_lines s' = rb_lines s /\ rb_cols s' = rb_cols s /\
    abs_rb s' = a_paint (abs_rb s) (row_rect line col 1) (fun _ _ old => f old).
Proof.
  intros s line col f op I Hop.
  destruct (xlate_and_clip (aux s) line col 1) as [[[[l c] k] sc]|] eqn:EX.
  - destruct (xlate_in_buffer _ _ _ _ _ _ _ _ I EX) as (Hcc & Hl & Hc & Hk & Hck & Esc).
    assert (k = 1) by (eapply xlate_one; eauto). subst k.
    assert (Hr := inv_rows s I l Hl). destruct Hr as (RL & RW & RM).
    set (r := zn (cells s) l []) in *.
    destruct (Hop r c RW RM ltac:(lia)) as (r' & E & L' & W' & M' & Ab & Mk).
    assert (Hl' : 0 <= l < zlen (cells s)) by (rewrite (inv_lines s I); assumption).
    rewrite (on_row_ok s l _ r' Hl' E).
    exists (set_row s l r'). split; [reflexivity|].
    split; [apply set_row_inv; auto; split; [lia|auto]|].
    split; [reflexivity|]. split; [reflexivity|]. split; [reflexivity|].
    unfold a_paint. apply abs_rb_eq; try reflexivity.
    rewrite (set_row_abs s l r' c 1 (fun _ old => f old) I Hl L' Ab Mk).
    assert (P := a_paint_as_row (abs_rb s) line col 1 l c 1 sc (fun _ old => f old) Hcc EX).
    unfold a_paint in P. cbn [ag set_ag] in P. now rewrite P.
  - exists s. split; [reflexivity|]. split; [assumption|].
    split; [reflexivity|]. split; [reflexivity|]. split; [reflexivity|].
    symmetry. apply a_paint_none. exact EX.
Qed.

Theorem put_char_ok : forall s line col cp,
  Inv s -> exists s' v, put_char s line col cp = Ok (s', v) /\ Inv s' /\
    aux s' = aux s /\ rb_lines s' = rb_lines s /\ rb_cols s' = rb_cols s /\
    v = (if text_valid [cp] then cpw cp else -1) /\
    abs_rb s' = a_char (abs_rb s) line col cp.
Proof.
  intros s line col cp I. unfold put_char, a_char.
  destruct (text_valid [cp]) eqn:EV; cbn [negb].
  2:{ exists s, (-1). conj_auto. }
  destruct (Z.eqb_spec (cpw cp) 1) as [E1|N1]; cbn [negb].
  - set (op := fun (r : row) (c : Z) =>
                 do cell <- getr r c;
                 if -1 <? cmask cell then Ok r else make_span r c 1 (CChar (cur_pen (aux s)) cp)).
    destruct (cell_op_ok s line col (fun _ => AChar (cur_pen (aux s)) cp) op I) as (s' & E & I' & A1 & A2 & A3 & Ab).
    { intros r c W M Hc. unfold op. rewrite getr_ok by assumption. cbn [bind].
      destruct (Z.ltb_spec (-1) (cmask (get r c))).
      - exists r. split; [reflexivity|apply cell_step_same; auto].
      - apply cell_step_span; auto; try reflexivity. specialize (M c Hc). lia. }
    assert (E' : match xlate_and_clip (aux s) line col 1 with
                 | Some (l, c, n, _) =>
                     do s'0 <- on_row s l (fun r => do cell <- getr r c;
                                  if -1 <? cmask cell then Ok r else make_span r c n (CChar (cur_pen (aux s)) cp));
                     Ok (s'0, 1)
                 | None => Ok (s, 1)
                 end = Ok (s', 1)).
    { destruct (xlate_and_clip (aux s) line col 1) as [[[[l c] k] sc]|] eqn:EX.
      - destruct (xlate_in_buffer _ _ _ _ _ _ _ _ I EX) as (Hcc & _).
        assert (k = 1) by (eapply xlate_one; eauto). subst k. unfold op in E. rewrite E. reflexivity.
      - inversion E; subst. reflexivity. }
    rewrite E'. exists s', 1. conj_auto. symmetry; assumption.
  - destruct (put_string_ok s line col [cp] I) as (s' & v & E & I' & A1 & A2 & A3 & Ev & Ab).
    rewrite EV in *. rewrite E. exists s', v. conj_auto.
Qed.

Theorem linecell_ok : forall s line col bits,
  Inv s -> exists s', linecell s line col bits = Ok s' /\ Inv s' /\
    aux s' = aux s /\ rb_lines s' = rb_lines s /\ rb_cols s' = rb_cols s /\
    abs_rb s' = a_linecell (abs_rb s) line col bits.
Proof.
  intros s line col bits I. unfold linecell, a_linecell.
  set (p := cur_pen (aux s)).
  set (f := fun old => match old with
                       | ALine q m => ALine (if pen_equiv q p then q else p) (Z.lor m bits)
                       | _ => ALine p (Z.lor 0 bits)
                       end).
  set (op := fun (r : row) (c : Z) =>
               do cell <- getr r c;
               if -1 <? cmask cell then Ok r
               else match ck cell with
                    | Start (CLine q m) k =>
                        let p' := if negb (pen_equiv q p) then p else q in
                        Ok (upd r c (mkCell (Start (CLine p' (Z.lor m bits)) k) (cmask cell)))
                    | _ => make_span r c 1 (CLine p (Z.lor 0 bits))
                    end).
  destruct (cell_op_ok s line col f op I) as (s' & E & I' & A1 & A2 & A3 & Ab).
  { intros r c W M Hc. unfold op. rewrite getr_ok by assumption. cbn [bind].
    destruct (Z.ltb_spec (-1) (cmask (get r c))) as [Hm|Hm].
    - exists r. split; [reflexivity|apply cell_step_same; auto].
    - assert (Hm1 : cmask (get r c) = -1) by (specialize (M c Hc); lia).
      destruct (ck (get r c)) as [X k|sc] eqn:Ec.
      + destruct X as [|q t o|q|q m|q cp0];
          try (apply cell_step_span; auto; unfold abs_cell; rewrite Ec; reflexivity).
        (* an existing line cell: merge *)
        assert (Wc := W c Hc). unfold wf_cellf in Wc. rewrite Ec in Wc. destruct Wc as (K1 & K2 & K3 & K4).
        specialize (K3 eq_refl). subst k.
        eexists. split; [reflexivity|].
        assert (Eg : get r c = mkCell (Start (CLine q m) 1) (cmask (get r c))).
        { destruct (get r c) as [kk mm]. cbn [ck cmask] in *. now rewrite Ec. }
        destruct (upd_single_ok r c (CLine q m) (CLine (if negb (pen_equiv q p) then p else q) (Z.lor m bits))
                    (cmask (get r c)) W Hc Eg (or_intror Logic.I)) as (L' & W' & Ab' & Mk').
        split; [assumption|]. split; [assumption|]. split.
        * intros x Hx. rewrite L' in Hx. rewrite Mk' by assumption. apply M; assumption.
        * split; [|assumption].
          intros x Hx. rewrite Ab' by assumption.
          destruct (Z.eqb_spec x c) as [->|Hne].
          -- destruct (Z.leb_spec c c); destruct (Z.ltb_spec c (c + 1)); cbn [andb]; try lia.
             rewrite Hm1. cbn [Z.eqb Pos.eqb]. unfold abs_cell. rewrite Ec. cbn [content_at f].
             destruct (pen_equiv q p); reflexivity.
          -- destruct (Z.leb_spec c x); destruct (Z.ltb_spec x (c + 1)); cbn [andb]; try reflexivity. lia.
      + apply cell_step_span; auto. unfold abs_cell. rewrite Ec.
        assert (Wc := W c Hc). unfold wf_cellf in Wc. rewrite Ec in Wc.
        destruct Wc as (K1 & c0 & n0 & Hs & K2). rewrite Hs.
        (* the start of a continuation is never a line cell *)
        destruct c0; cbn [content_at f]; try reflexivity.
        exfalso. assert (Ws := W sc ltac:(lia)). unfold wf_cellf in Ws. rewrite Hs in Ws.
        destruct Ws as (_ & _ & K3 & _). specialize (K3 eq_refl). lia. }
  exists s'. split; [|conj_auto].
  destruct (xlate_and_clip (aux s) line col 1) as [[[[l c] k] sc]|] eqn:EX; [|assumption].
  destruct (xlate_in_buffer _ _ _ _ _ _ _ _ I EX) as (Hcc & _).
  assert (k = 1) by (eapply xlate_one; eauto). subst k. exact E.
Qed.
