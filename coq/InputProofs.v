(* InputProofs.v -- proofs for C20 over InputDefs / InputSpec. *)
From Coq Require Import ZArith List Bool Lia.
From Tickit Require Import InputDefs InputSpec.
Import ListNotations.
Local Open Scope Z_scope.

(* ------------------------------------------------------------------ bit masks *)

Definition buttons_ok (l : list Z) : Prop := Forall (fun b => 1 <= b <= 30) l.

Inductive ssorted : list Z -> Prop :=
| ss_nil : ssorted []
| ss_one : forall a, ssorted [a]
| ss_cons : forall a b l, a < b -> ssorted (b :: l) -> ssorted (a :: b :: l).

Lemma ssorted_tail : forall a l, ssorted (a :: l) -> ssorted l.
Proof. intros a l H. inversion H; subst; auto using ss_nil. Qed.

Lemma ssorted_lt : forall a l, ssorted (a :: l) -> Forall (fun x => a < x) l.
Proof.
  intros a l. revert a. induction l as [|b l IH]; intros a H; constructor.
  - inversion H; subst; assumption.
  - inversion H as [| |a' b' l' Hab Hs]; subst.
    specialize (IH b Hs). eapply Forall_impl; [|exact IH]. cbn. intros; lia.
Qed.

Lemma testbit_mask : forall l i, 0 <= i -> Forall (fun b => 0 <= b) l ->
  Z.testbit (mask_of l) i = existsb (fun b => b =? i) l.
Proof.
  induction l as [|a l IH]; intros i Hi Hl; cbn [mask_of fold_right existsb].
  - apply Z.bits_0.
  - inversion Hl as [|? ? Ha Hl']; subst.
    change (fold_right (fun b m => Z.setbit m b) 0 l) with (mask_of l).
    rewrite Z.setbit_eqb by assumption. rewrite IH by assumption. reflexivity.
Qed.

Lemma ok_nonneg : forall l, buttons_ok l -> Forall (fun b => 0 <= b) l.
Proof. intros l H. eapply Forall_impl; [|exact H]. cbn; intros; lia. Qed.

Lemma mask_nonzero : forall a l, buttons_ok (a :: l) -> mask_of (a :: l) <> 0.
Proof.
  intros a l Hok Hz.
  assert (Ht : Z.testbit (mask_of (a :: l)) a = true).
  { rewrite testbit_mask; [|inversion Hok; subst; lia|apply ok_nonneg; assumption].
    cbn [existsb]. rewrite Z.eqb_refl. reflexivity. }
  rewrite Hz, Z.bits_0 in Ht. discriminate.
Qed.

Lemma existsb_notin : forall l i, Forall (fun x => i < x) l -> existsb (fun b => b =? i) l = false.
Proof.
  induction l as [|a l IH]; intros i H; cbn [existsb]; [reflexivity|].
  inversion H as [|? ? Ha Hl]; subst. rewrite IH by assumption.
  destruct (a =? i) eqn:E; [apply Z.eqb_eq in E; lia|reflexivity].
Qed.

Lemma clearbit_head : forall a l, buttons_ok (a :: l) -> ssorted (a :: l) ->
  Z.clearbit (mask_of (a :: l)) a = mask_of l.
Proof.
  intros a l Hok Hs. apply Z.bits_inj'. intros i Hi.
  assert (Ha : 0 <= a) by (inversion Hok; subst; lia).
  rewrite Z.clearbit_eqb by assumption.
  rewrite !testbit_mask; try assumption; try (apply ok_nonneg; assumption).
  2:{ apply ok_nonneg. inversion Hok; assumption. }
  cbn [existsb].
  destruct (a =? i) eqn:E.
  - apply Z.eqb_eq in E. subst i. cbn.
    symmetry. rewrite existsb_notin; [reflexivity|]. apply ssorted_lt. assumption.
  - cbn. rewrite andb_true_r. reflexivity.
Qed.

(* the fan-out of a button-less release: one event per held button, increasing, mask emptied *)
Lemma fanout_spec : forall fuel b l mk,
  buttons_ok l -> ssorted l -> Forall (fun x => b <= x) l -> 0 <= b ->
  Forall (fun x => x < b + Z.of_nat fuel) l ->
  fanout fuel b (mask_of l) mk = Some (map mk l, 0).
Proof.
  induction fuel as [|f IH]; intros b l mk Hok Hs Hge Hb Hlt.
  - destruct l as [|a l].
    + reflexivity.
    + exfalso. inversion Hge; subst. inversion Hlt; subst. lia.
  - destruct l as [|a l].
    + reflexivity.
    + cbn [fanout].
      destruct (mask_of (a :: l) =? 0) eqn:Ez.
      { apply Z.eqb_eq in Ez. exfalso. eapply mask_nonzero; eassumption. }
      rewrite testbit_mask; [|assumption|apply ok_nonneg; assumption].
      cbn [existsb].
      inversion Hge as [|? ? Hab Hge']; subst. inversion Hlt as [|? ? Hal Hlt']; subst.
      destruct (a =? b) eqn:E.
      * apply Z.eqb_eq in E. subst a. cbn [orb].
        rewrite clearbit_head by assumption.
        rewrite (IH (b + 1) l mk).
        -- reflexivity.
        -- inversion Hok; assumption.
        -- eapply ssorted_tail; eassumption.
        -- eapply Forall_impl; [|apply ssorted_lt; eassumption]. cbn; intros; lia.
        -- lia.
        -- eapply Forall_impl; [|exact Hlt']. cbn; intros; lia.
      * apply Z.eqb_neq in E. cbn [orb].
        rewrite existsb_notin.
        2:{ eapply Forall_impl; [|apply ssorted_lt; eassumption]. cbn; intros; lia. }
        rewrite (IH (b + 1) (a :: l) mk); try assumption.
        -- reflexivity.
        -- constructor; [lia|]. eapply Forall_impl; [|apply ssorted_lt; eassumption]. cbn; intros; lia.
        -- lia.
        -- constructor; [lia|]. eapply Forall_impl; [|exact Hlt']. cbn; intros; lia.
Qed.

(* insert / remove on the sorted list are setbit / clearbit on the mask *)
Lemma insert_ok : forall b l, 1 <= b <= 30 -> buttons_ok l -> buttons_ok (insert_button b l).
Proof.
  intros b l Hb. induction l as [|a l IH]; intros Hl; cbn [insert_button].
  - constructor; [assumption|constructor].
  - inversion Hl; subst. destruct (b <? a); [constructor; assumption|].
    destruct (b =? a); [assumption|]. constructor; [assumption|]. apply IH. assumption.
Qed.

Lemma insert_head_ge : forall b l x, Forall (fun y => x < y) l -> x < b -> Forall (fun y => x < y) (insert_button b l).
Proof.
  intros b l x. induction l as [|a l IH]; intros Hl Hx; cbn [insert_button].
  - constructor; [assumption|constructor].
  - inversion Hl; subst. destruct (b <? a); [constructor; assumption|].
    destruct (b =? a); [assumption|]. constructor; [assumption|]. apply IH; assumption.
Qed.

Lemma ssorted_intro : forall a l, Forall (fun y => a < y) l -> ssorted l -> ssorted (a :: l).
Proof.
  intros a l Hl Hs. destruct l as [|b l]; [apply ss_one|].
  inversion Hl; subst. apply ss_cons; assumption.
Qed.

Lemma insert_sorted : forall b l, ssorted l -> ssorted (insert_button b l).
Proof.
  intros b l. induction l as [|a l IH]; intros Hs; cbn [insert_button].
  - apply ss_one.
  - destruct (b <? a) eqn:E1.
    + apply Z.ltb_lt in E1. apply ss_cons; assumption.
    + destruct (b =? a) eqn:E2; [assumption|].
      apply Z.ltb_ge in E1. apply Z.eqb_neq in E2.
      apply ssorted_intro.
      * apply insert_head_ge; [apply ssorted_lt; assumption|lia].
      * apply IH. eapply ssorted_tail; eassumption.
Qed.

Lemma existsb_insert : forall b l i, existsb (fun x => x =? i) (insert_button b l) = (b =? i) || existsb (fun x => x =? i) l.
Proof.
  intros b l i. induction l as [|a l IH]; cbn [insert_button existsb].
  - reflexivity.
  - destruct (b <? a); [reflexivity|]. destruct (b =? a) eqn:E.
    + apply Z.eqb_eq in E. subst a. cbn [existsb]. destruct (b =? i); reflexivity.
    + cbn [existsb]. rewrite IH. destruct (a =? i); destruct (b =? i); reflexivity.
Qed.

Lemma setbit_insert : forall b l, 1 <= b <= 30 -> buttons_ok l ->
  Z.setbit (mask_of l) b = mask_of (insert_button b l).
Proof.
  intros b l Hb Hl. apply Z.bits_inj'. intros i Hi.
  rewrite Z.setbit_eqb by lia.
  rewrite !testbit_mask; try assumption.
  - rewrite existsb_insert. reflexivity.
  - apply ok_nonneg. apply insert_ok; assumption.
  - apply ok_nonneg; assumption.
Qed.

Lemma remove_ok : forall b l, buttons_ok l -> buttons_ok (remove_button b l).
Proof.
  intros b l H. unfold remove_button, buttons_ok. apply Forall_forall. intros x Hx.
  apply filter_In in Hx. destruct Hx as [Hx _]. unfold buttons_ok in H. rewrite Forall_forall in H. auto.
Qed.

Lemma remove_lt : forall b l x, Forall (fun y => x < y) l -> Forall (fun y => x < y) (remove_button b l).
Proof.
  intros b l x H. apply Forall_forall. intros y Hy. apply filter_In in Hy. destruct Hy as [Hy _].
  rewrite Forall_forall in H. auto.
Qed.

Lemma remove_sorted : forall b l, ssorted l -> ssorted (remove_button b l).
Proof.
  intros b l. induction l as [|a l IH]; intros Hs; cbn [remove_button filter].
  - apply ss_nil.
  - assert (Hl := ssorted_lt _ _ Hs). assert (Ht := ssorted_tail _ _ Hs).
    destruct (negb (a =? b)).
    + apply ssorted_intro; [apply remove_lt; assumption|apply IH; assumption].
    + apply IH; assumption.
Qed.

Lemma existsb_remove : forall b l i, existsb (fun x => x =? i) (remove_button b l) = existsb (fun x => x =? i) l && negb (b =? i).
Proof.
  intros b l i. induction l as [|a l IH]; cbn [remove_button filter existsb]; [reflexivity|].
  destruct (a =? b) eqn:E; cbn [negb].
  - fold (remove_button b l). rewrite IH. apply Z.eqb_eq in E. subst a.
    destruct (b =? i); cbn; [rewrite andb_false_r; reflexivity|rewrite andb_true_r; reflexivity].
  - cbn [existsb]. fold (remove_button b l). rewrite IH. apply Z.eqb_neq in E.
    destruct (a =? i) eqn:E2; cbn; [|reflexivity].
    apply Z.eqb_eq in E2. subst i. destruct (b =? a) eqn:E3; [apply Z.eqb_eq in E3; lia|reflexivity].
Qed.

Lemma clearbit_remove : forall b l, 0 <= b -> buttons_ok l ->
  Z.clearbit (mask_of l) b = mask_of (remove_button b l).
Proof.
  intros b l Hb Hl. apply Z.bits_inj'. intros i Hi.
  rewrite Z.clearbit_eqb by assumption.
  rewrite !testbit_mask; try assumption.
  - rewrite existsb_remove. reflexivity.
  - apply ok_nonneg. apply remove_ok. assumption.
  - apply ok_nonneg. assumption.
Qed.

(* ------------------------------------------------------------------ got_key against the spec *)

(* what libtermkey is assumed to hand over: press / drag name a button 1..30 (it reports 1..3),
   a release names a button 0..30 *)
Definition key_ok (k : key) : Prop :=
  k_type k = TMouse ->
  ((k_ev k = TK_MOUSE_PRESS \/ k_ev k = TK_MOUSE_DRAG) -> 1 <= k_button k <= 30 \/ (k_ev k = TK_MOUSE_PRESS /\ 4 <= k_button k)) /\
  (k_ev k = TK_MOUSE_RELEASE -> 0 <= k_button k <= 30) /\
  (k_ev k = TK_MOUSE_DRAG -> 1 <= k_button k <= 30).

Definition held_inv (l : list Z) : Prop := buttons_ok l /\ ssorted l.

Local Opaque fanout Z.setbit Z.clearbit Z.testbit mask_of.

Lemma got_key_spec : forall l k, held_inv l -> key_ok k ->
  got_key (mask_of l) k = Some (fst (spec_key l k), mask_of (snd (spec_key l k))) /\
  held_inv (snd (spec_key l k)).
Proof.
  intros l k [Hok Hs] Hk. unfold got_key, spec_key, key_ok in *.
  destruct (k_type k) eqn:Et; try (split; [reflexivity|split; assumption]).
  - (* unicode *) destruct (k_mod k =? 0) eqn:Em; cbn [fst snd].
    + apply Z.eqb_eq in Em. rewrite Em. split; [reflexivity|split; assumption].
    + split; [reflexivity|split; assumption].
  - (* mouse *)
    specialize (Hk eq_refl). destruct Hk as [Hpd [Hrel Hdrag]].
    unfold TK_MOUSE_PRESS, TK_MOUSE_DRAG, TK_MOUSE_RELEASE, MOUSEEV_PRESS, MOUSEEV_DRAG, MOUSEEV_RELEASE, MOUSEEV_WHEEL in *.
    destruct (k_ev k =? 1) eqn:E1.
    + apply Z.eqb_eq in E1. destruct (4 <=? k_button k) eqn:E4; cbn [andb].
      * (* wheel *) cbn. split; [reflexivity|split; assumption].
      * apply Z.leb_gt in E4. cbn.
        assert (Hb : 1 <= k_button k <= 30) by (destruct (Hpd (or_introl E1)) as [H|[_ H]]; lia).
        rewrite setbit_insert by assumption. cbn [fst snd].
        split; [reflexivity|]. split; [apply insert_ok; assumption|apply insert_sorted; assumption].
    + cbn [andb]. destruct (k_ev k =? 2) eqn:E2.
      * apply Z.eqb_eq in E2. cbn. assert (Hb : 1 <= k_button k <= 30) by auto.
        rewrite setbit_insert by assumption. cbn [fst snd].
        split; [reflexivity|]. split; [apply insert_ok; assumption|apply insert_sorted; assumption].
      * destruct (k_ev k =? 3) eqn:E3.
        -- apply Z.eqb_eq in E3. specialize (Hrel E3). cbn.
           destruct (k_button k =? 0) eqn:E0; cbn.
           ++ rewrite (fanout_spec FANOUT_FUEL 1 l); try assumption; try lia.
              ** cbn [fst snd]. split; [reflexivity|]. split; [constructor|apply ss_nil].
              ** eapply Forall_impl; [|exact Hok]. cbn; intros; lia.
              ** eapply Forall_impl; [|exact Hok]. unfold FANOUT_FUEL. cbn; intros; lia.
           ++ rewrite clearbit_remove by (assumption || lia). cbn [fst snd].
              split; [reflexivity|]. split; [apply remove_ok; assumption|apply remove_sorted; assumption].
        -- cbn. split; [reflexivity|split; assumption].
Qed.

(* a whole key sequence through got_key *)
Fixpoint run_keys (held : Z) (ks : list key) : option (list event * Z) :=
  match ks with
  | [] => Some ([], held)
  | k :: r =>
      match got_key held k with
      | None => None
      | Some (e1, h1) =>
          match run_keys h1 r with
          | Some (e2, h2) => Some (e1 ++ e2, h2)
          | None => None
          end
      end
  end.

Local Transparent fanout Z.setbit Z.clearbit Z.testbit mask_of.

Lemma run_keys_spec : forall ks l, held_inv l -> Forall key_ok ks ->
  run_keys (mask_of l) ks = Some (fst (spec_keys l ks), mask_of (snd (spec_keys l ks))) /\
  held_inv (snd (spec_keys l ks)).
Proof.
  induction ks as [|k r IH]; intros l Hl Hks.
  - cbn. split; [reflexivity|assumption].
  - inversion Hks as [|? ? Hk Hr]; subst.
    destruct (got_key_spec l k Hl Hk) as [Hg Hi].
    cbn [run_keys spec_keys]. rewrite Hg.
    destruct (spec_key l k) as [e1 h1] eqn:Es. cbn [fst snd] in *.
    destruct (IH h1 Hi Hr) as [Hr1 Hi2]. rewrite Hr1.
    destruct (spec_keys h1 r) as [e2 h2]. cbn [fst snd] in *. split; [reflexivity|assumption].
Qed.

(* ------------------------------------------------------------------ the drain loop *)

(* ---- the wait path (tickit_term_input_wait_msec with nothing arriving) *)
Definition zsum (l : list Z) : Z := fold_right Z.add 0 l.

(* the clause: a wait that returns because the CALLER's time-out expired leaves the pending
   sequence and its deadline alone while that deadline has not passed *)
Lemma twait_caller : forall m now ts d, t_deadline ts = Some d -> 0 <= m -> now + m * 1000 < d ->
  twait false m now ts = Some (ts, now + m * 1000).
Proof.
  intros m now ts d Hd Hm Hlt. unfold twait, wait_left. rewrite Hd.
  assert (E1 : (now <? d) = true) by (apply Z.ltb_lt; lia). rewrite E1.
  assert (Hl : m + 1 <= (d - now + 999) / 1000) by (apply Z.div_le_lower_bound; lia).
  assert (E2 : (-1 <? (d - now + 999) / 1000) = true) by (apply Z.ltb_lt; lia).
  assert (E3 : (m =? -1) = false) by (apply Z.eqb_neq; lia).
  assert (E4 : ((d - now + 999) / 1000 <? m) = false) by (apply Z.ltb_ge; lia).
  rewrite E2, E3, E4. cbn [orb andb].
  assert (E5 : (m <? 0) = false) by (apply Z.ltb_ge; lia). rewrite E5.
  assert (E6 : (d <=? now + m * 1000) = false) by (apply Z.leb_gt; lia). rewrite E6. reflexivity.
Qed.

Lemma twait_idle : forall m now ts, t_deadline ts = None -> 0 <= m -> twait false m now ts = Some (ts, now + m * 1000).
Proof.
  intros m now ts Hd Hm. unfold twait, wait_left. rewrite Hd. cbn [andb].
  assert (E5 : (m <? 0) = false) by (apply Z.ltb_ge; lia). change (-1 <? -1) with false. cbn [andb]. rewrite E5. reflexivity.
Qed.

(* when the sequence's own deadline is reached during the wait the time-out is forced (outside the model) *)
Lemma twait_deadline : forall m now ts d, t_deadline ts = Some d -> now < d -> (m = -1 \/ d <= now + m * 1000) ->
  twait false m now ts = None.
Proof.
  intros m now ts d Hd Hn Hm. unfold twait, wait_left. rewrite Hd.
  assert (E1 : (now <? d) = true) by (apply Z.ltb_lt; lia). rewrite E1.
  set (lf := (d - now + 999) / 1000).
  assert (Hc : d - now <= lf * 1000).
  { unfold lf. pose proof (Z.div_mod (d - now + 999) 1000 ltac:(lia)) as Hdm. pose proof (Z.mod_pos_bound (d - now + 999) 1000 ltac:(lia)). lia. }
  assert (Hp : 0 < lf) by lia.
  assert (E2 : (-1 <? lf) = true) by (apply Z.ltb_lt; lia). rewrite E2. cbn [andb].
  destruct ((m =? -1) || (lf <? m)) eqn:Eo.
  - assert (E5 : (lf <? 0) = false) by (apply Z.ltb_ge; lia). rewrite E5.
    assert (E6 : (d <=? now + lf * 1000) = true) by (apply Z.leb_le; lia). rewrite E6. reflexivity.
  - apply orb_false_iff in Eo. destruct Eo as [Em El]. apply Z.eqb_neq in Em. apply Z.ltb_ge in El.
    destruct Hm as [Hm|Hm]; [contradiction|]. destruct (m <? 0); [reflexivity|].
    assert (E6 : (d <=? now + m * 1000) = true) by (apply Z.leb_le; lia). rewrite E6. reflexivity.
Qed.

(* the pinned code forces a pending sequence at every wait that times out *)
Lemma twait_pinned_forces : forall m now ts d, t_deadline ts = Some d -> twait true m now ts = None.
Proof. intros m now ts d Hd. unfold twait. rewrite Hd. destruct (_ <? 0); reflexivity. Qed.

Lemma twaits_ok : forall ws now ts, Forall (fun m => 0 <= m) ws ->
  (forall d, t_deadline ts = Some d -> now + zsum ws * 1000 < d) ->
  twaits false ws now ts = Some (ts, now + zsum ws * 1000).
Proof.
  induction ws as [|m r IH]; intros now ts Hp Hd; [cbn; f_equal; f_equal; lia|].
  inversion Hp as [|? ? Hm Hr]; subst. cbn [twaits zsum fold_right] in *.
  assert (Hs : 0 <= zsum r) by (clear - Hr; induction Hr; cbn [zsum fold_right]; [lia|unfold zsum in *; lia]).
  assert (E : twait false m now ts = Some (ts, now + m * 1000)).
  { destruct (t_deadline ts) as [d|] eqn:Ed; [apply (twait_caller m now ts d Ed Hm); specialize (Hd d eq_refl); unfold zsum in *; lia|apply twait_idle; assumption]. }
  rewrite E. rewrite IH; [f_equal; f_equal; unfold zsum; lia|exact Hr|].
  intros d Ed. specialize (Hd d Ed). unfold zsum in *. lia.
Qed.


Section Chunking.
Variable tok : list Z -> tokres.

(* the two assumptions about libtermkey *)
Hypothesis tok_stable : forall b m k n, tok b = TKey k n -> tok (b ++ m) = TKey k n.
Hypothesis tok_len : forall b k n, tok b = TKey k n -> (0 < n <= length b)%nat.

Lemma skipn_length_lt : forall (n : nat) (b : list Z), (0 < n <= length b)%nat -> (length (skipn n b) < length b)%nat.
Proof. intros n b H. rewrite skipn_length. lia. Qed.

Lemma get_keys_fuel : forall f f' b h, (length b < f)%nat -> (length b < f')%nat ->
  get_keys tok f b h = get_keys tok f' b h.
Proof.
  induction f as [|f IH]; intros f' b h Hf Hf'; [lia|].
  destruct f' as [|f']; [lia|]. cbn [get_keys].
  destruct (tok b) as [k n| |] eqn:Et; try reflexivity.
  destruct (got_key h k) as [[evs h1]|]; [|reflexivity].
  pose proof (tok_len _ _ _ Et) as Hn.
  pose proof (skipn_length_lt n b Hn) as Hl.
  rewrite (IH f' (skipn n b) h1) by lia. reflexivity.
Qed.

Definition bind2 (a : option (list event * ist)) (f : ist -> option (list event * ist)) : option (list event * ist) :=
  match a with
  | None => None
  | Some (e1, s1) => match f s1 with Some (e2, s2) => Some (e1 ++ e2, s2) | None => None end
  end.

(* draining b ++ m = draining b, then draining (what is left) ++ m *)
Lemma drain_app : forall f b h m, (length b < f)%nat ->
  drain tok (b ++ m) h = bind2 (get_keys tok f b h) (fun s1 => drain tok (i_buf s1 ++ m) (i_held s1)).
Proof.
  induction f as [|f IH]; intros b h m Hf; [lia|].
  destruct (tok b) as [k n| |] eqn:Et.
  - unfold drain at 1. cbn [get_keys]. rewrite Et.
    rewrite (tok_stable _ m _ _ Et).
    pose proof (tok_len _ _ _ Et) as Hn.
    destruct (got_key h k) as [[evs h1]|]; [|reflexivity].
    rewrite skipn_app. replace (n - length b)%nat with O by lia. cbn [skipn].
    pose proof (skipn_length_lt n b Hn) as Hl.
    assert (Hd : get_keys tok (length (b ++ m)) (skipn n b ++ m) h1 = drain tok (skipn n b ++ m) h1).
    { unfold drain. apply get_keys_fuel.
      - rewrite !app_length. rewrite skipn_length. lia.
      - lia. }
    rewrite Hd. rewrite (IH (skipn n b) h1 m) by lia.
    unfold bind2. destruct (get_keys tok f (skipn n b) h1) as [[e1 s1]|]; [|reflexivity].
    destruct (drain tok (i_buf s1 ++ m) (i_held s1)) as [[e2 s2]|]; [|reflexivity].
    rewrite app_assoc. reflexivity.
  - cbn [get_keys]. rewrite Et. cbn [bind2 i_buf i_held].
    destruct (drain tok (b ++ m) h) as [[e2 s2]|]; reflexivity.
  - cbn [get_keys]. rewrite Et. cbn [bind2 i_buf i_held].
    destruct (drain tok (b ++ m) h) as [[e2 s2]|]; reflexivity.
Qed.

(* pushing into a buffer that always has room: append, drain *)
Definition upush (s : ist) (bytes : list Z) : option (list event * ist) :=
  drain tok (i_buf s ++ bytes) (i_held s).

Fixpoint upush_chunks (s : ist) (chunks : list (list Z)) : option (list event * ist) :=
  match chunks with
  | [] => Some ([], s)
  | c :: r => bind2 (upush s c) (fun s1 => upush_chunks s1 r)
  end.

Lemma upush_app : forall s c1 c2,
  upush s (c1 ++ c2) = bind2 (upush s c1) (fun s1 => upush s1 c2).
Proof.
  intros s c1 c2. unfold upush. rewrite app_assoc.
  rewrite (drain_app (S (length (i_buf s ++ c1))) (i_buf s ++ c1) (i_held s) c2) by lia.
  reflexivity.
Qed.

Lemma bind2_assoc : forall a f g,
  bind2 (bind2 a f) g = bind2 a (fun s => bind2 (f s) g).
Proof.
  intros a f g. destruct a as [[e1 s1]|]; [|reflexivity]. cbn [bind2].
  destruct (f s1) as [[e2 s2]|]; [|reflexivity]. cbn [bind2].
  destruct (g s2) as [[e3 s3]|]; [|reflexivity]. rewrite app_assoc. reflexivity.
Qed.

Lemma bind2_ext : forall a f g, (forall s, f s = g s) -> bind2 a f = bind2 a g.
Proof. intros a f g H. destruct a as [[e s]|]; [|reflexivity]. cbn [bind2]. rewrite H. reflexivity. Qed.

(* C20_chunking, for a buffer with room: however the stream is cut into (one or more)
   chunks, the events and the final state are those of the whole stream *)
Theorem chunking : forall chunks c s,
  upush_chunks s (c :: chunks) = upush s (concat (c :: chunks)).
Proof.
  induction chunks as [|c2 r IH]; intros c s.
  - cbn [upush_chunks concat]. rewrite app_nil_r.
    destruct (upush s c) as [[e1 s1]|]; [|reflexivity]. cbn [bind2]. rewrite app_nil_r. reflexivity.
  - cbn [concat]. rewrite upush_app.
    change (upush_chunks s (c :: c2 :: r)) with (bind2 (upush s c) (fun s1 => upush_chunks s1 (c2 :: r))).
    apply bind2_ext. intros s1. rewrite IH. reflexivity.
Qed.

(* ---- the events of a drain are those of the keys the tokenizer finds, in order *)
Fixpoint tokenize (f : nat) (b : list Z) : list key :=
  match f with
  | O => []
  | S f' => match tok b with TKey k n => k :: tokenize f' (skipn n b) | _ => [] end
  end.

Lemma get_keys_run_keys : forall f b h,
  (length b < f)%nat ->
  match get_keys tok f b h, run_keys h (tokenize f b) with
  | Some (e, s), Some (e', h') => e = e' /\ i_held s = h'
  | None, None => True
  | _, _ => False
  end.
Proof.
  induction f as [|f IH]; intros b h Hf; [lia|].
  cbn [get_keys tokenize]. destruct (tok b) as [k n| |] eqn:Et.
  - cbn [run_keys]. destruct (got_key h k) as [[evs h1]|]; [|exact I].
    pose proof (tok_len _ _ _ Et) as Hn. pose proof (skipn_length_lt n b Hn) as Hl.
    specialize (IH (skipn n b) h1 ltac:(lia)).
    destruct (get_keys tok f (skipn n b) h1) as [[e2 s2]|]; destruct (run_keys h1 (tokenize f (skipn n b))) as [[e2' h2']|];
      try contradiction; try exact I.
    destruct IH as [-> ->]. split; reflexivity.
  - cbn [run_keys i_held]. split; reflexivity.
  - cbn [run_keys i_held]. split; reflexivity.
Qed.

(* ---- the bounded buffer: tickit_term_input_push_bytes as repaired (feed and drain) *)

Variable cap : nat.
Hypothesis cap_pos : (0 < cap)%nat.
(* no single unfinished sequence fills libtermkey's buffer; an empty answer means an empty buffer *)
Hypothesis tok_again_short : forall b, tok b = TAgain -> (length b < cap)%nat.
Hypothesis tok_none_empty : forall b, tok b = TNone -> b = [].

Lemma get_keys_residue : forall f b h e s, get_keys tok f b h = Some (e, s) -> (length (i_buf s) < cap)%nat.
Proof.
  induction f as [|f IH]; intros b h e s H; [discriminate|].
  cbn [get_keys] in H. destruct (tok b) as [k n| |] eqn:Et.
  - destruct (got_key h k) as [[evs h1]|]; [|discriminate].
    destruct (get_keys tok f (skipn n b) h1) as [[e2 s2]|] eqn:Eg; [|discriminate].
    inversion H; subst. eapply IH. eassumption.
  - inversion H; subst. cbn [i_buf]. apply tok_again_short. assumption.
  - inversion H; subst. cbn [i_buf]. rewrite (tok_none_empty _ Et). cbn. assumption.
Qed.

Lemma push_loop_upush : forall f s bytes, (length bytes < f)%nat -> (length (i_buf s) < cap)%nat ->
  push_loop tok cap f s bytes = upush s bytes.
Proof.
  induction f as [|f IH]; intros s bytes Hf Hs; [lia|].
  cbn [push_loop].
  set (space := (cap - length (i_buf s))%nat).
  set (pushed := Nat.min (length bytes) space).
  assert (Hsp : (0 < space)%nat) by (unfold space; lia).
  destruct (skipn pushed bytes) as [|r0 rest] eqn:Er.
  - (* everything fitted *)
    assert (Hp : (length bytes <= pushed)%nat).
    { assert (Hl := skipn_length pushed bytes). rewrite Er in Hl. cbn in Hl. lia. }
    rewrite firstn_all2 by assumption.
    unfold upush. destruct (drain tok (i_buf s ++ bytes) (i_held s)) as [[evs s2]|]; reflexivity.
  - assert (Hp : (pushed < length bytes)%nat).
    { assert (Hl := skipn_length pushed bytes). rewrite Er in Hl. cbn [length] in Hl. lia. }
    assert (Hp0 : Nat.eqb pushed 0 = false) by (apply Nat.eqb_neq; unfold pushed; lia).
    rewrite Hp0. cbn [andb].
    unfold upush at 1.
    rewrite <- (firstn_skipn pushed bytes) at 2. rewrite app_assoc.
    rewrite (drain_app (S (length (i_buf s ++ firstn pushed bytes))) (i_buf s ++ firstn pushed bytes) (i_held s)
                       (skipn pushed bytes)) by lia.
    fold (drain tok (i_buf s ++ firstn pushed bytes) (i_held s)).
    destruct (drain tok (i_buf s ++ firstn pushed bytes) (i_held s)) as [[evs s2]|] eqn:Ed; [|reflexivity].
    cbn [bind2]. rewrite Er.
    rewrite IH.
    + reflexivity.
    + assert (Hl := skipn_length pushed bytes). rewrite Er in Hl. lia.
    + eapply get_keys_residue. exact Ed.
Qed.

Lemma push_bytes_upush : forall s bytes, (length (i_buf s) < cap)%nat ->
  push_bytes tok cap s bytes = upush s bytes.
Proof. intros s bytes Hs. unfold push_bytes. apply push_loop_upush; [lia|assumption]. Qed.

Lemma upush_residue : forall s bytes e s1, upush s bytes = Some (e, s1) -> (length (i_buf s1) < cap)%nat.
Proof. intros s bytes e s1 H. eapply get_keys_residue. exact H. Qed.

Lemma push_chunks_upush : forall chunks s, (length (i_buf s) < cap)%nat ->
  push_chunks tok cap s chunks = upush_chunks s chunks.
Proof.
  induction chunks as [|c r IH]; intros s Hs; [reflexivity|].
  cbn [push_chunks upush_chunks]. rewrite push_bytes_upush by assumption.
  destruct (upush s c) as [[e1 s1]|] eqn:Eu; [|reflexivity].
  cbn [bind2]. rewrite IH; [reflexivity|]. eapply upush_residue. exact Eu.
Qed.

(* C20_chunking for the model of the repaired code, bounded buffer included *)
Theorem chunking_bounded : forall chunks c s, (length (i_buf s) < cap)%nat ->
  push_chunks tok cap s (c :: chunks) = push_bytes tok cap s (concat (c :: chunks)).
Proof.
  intros chunks c s Hs. rewrite push_chunks_upush by assumption.
  rewrite push_bytes_upush by assumption. apply chunking.
Qed.

(* ---- timed delivery: a gap after every chunk, the time-out polled after every gap *)
Variable wait : Z.
Hypothesis wait_pos : 0 < wait.

Lemma timed_run_chunks : forall ht steps now ts,
  (forall c gap, In (c, gap) steps -> 0 <= gap < wait) ->
  (length (i_buf (t_in ts)) < cap)%nat ->
  match push_chunks tok cap (t_in ts) (map fst steps) with
  | Some (evs, s') => exists ms d, timed_run tok cap wait false false ht now ts steps = Some (evs, ms, mkT s' d)
  | None => timed_run tok cap wait false false ht now ts steps = None
  end.
Proof.
  intros ht. induction steps as [|[c gap] r IH]; intros now ts Hg Hb.
  - cbn [map push_chunks timed_run]. exists [], (t_deadline ts). destruct ts; reflexivity.
  - cbn [map fst push_chunks timed_run]. unfold tpush.
    destruct (push_bytes tok cap (t_in ts) c) as [[evs s1]|] eqn:Ep; [|reflexivity].
    assert (Hgap : 0 <= gap < wait) by (apply (Hg c gap); left; reflexivity).
    assert (Hb1 : (length (i_buf s1) < cap)%nat).
    { rewrite push_bytes_upush in Ep by exact Hb. eapply upush_residue. exact Ep. }
    set (now1 := now + ht * Z.of_nat (length evs)).
    set (d1 := if i_armed s1 then Some (now1 + wait) else None).
    assert (Hpoll : exists m, tpoll (now1 + gap) (mkT s1 d1) = Some m).
    { unfold tpoll, d1. cbn [t_deadline]. destruct (i_armed s1); [|eexists; reflexivity].
      assert (E : (now1 + gap <? now1 + wait) = true) by (apply Z.ltb_lt; lia). rewrite E. eexists; reflexivity. }
    destruct Hpoll as [m Hm]. rewrite Hm.
    specialize (IH (now1 + gap) (mkT s1 d1)). cbn [t_in] in IH.
    assert (Hg' : forall c0 gap0, In (c0, gap0) r -> 0 <= gap0 < wait) by (intros c0 g0 Hin; apply (Hg c0 g0); right; exact Hin).
    specialize (IH Hg' Hb1).
    destruct (push_chunks tok cap s1 (map fst r)) as [[evs2 s2]|].
    + destruct IH as [ms [d E]]. rewrite E. exists (m :: ms), d. reflexivity.
    + rewrite IH. reflexivity.
Qed.

(* C20_timed_chunking: as long as every gap between fragments stays below the wait time -- however
   long the fragments take together, and however long the application's handlers take (ht) --
   no time-out is forced and the events are those of the whole stream pushed at once *)
Theorem timed_chunking : forall ht steps c g now ts,
  (forall c0 gap, In (c0, gap) ((c, g) :: steps) -> 0 <= gap < wait) ->
  (length (i_buf (t_in ts)) < cap)%nat ->
  match push_bytes tok cap (t_in ts) (concat (map fst ((c, g) :: steps))) with
  | Some (evs, s') => exists ms d, timed_run tok cap wait false false ht now ts ((c, g) :: steps) = Some (evs, ms, mkT s' d)
  | None => timed_run tok cap wait false false ht now ts ((c, g) :: steps) = None
  end.
Proof.
  intros ht steps c g now ts Hg Hb.
  pose proof (timed_run_chunks ht ((c, g) :: steps) now ts Hg Hb) as H.
  cbn [map fst] in *. rewrite (chunking_bounded (map fst steps) c (t_in ts) Hb) in H. exact H.
Qed.

(* ---- the wait path: chunks with waits of the caller that time out *)
Lemma wtimed_run_chunks : forall ht steps now ts,
  (forall c ws, In (c, ws) steps -> Forall (fun m => 0 <= m) ws /\ zsum ws * 1000 < wait) ->
  (length (i_buf (t_in ts)) < cap)%nat -> 0 <= ht ->
  match push_chunks tok cap (t_in ts) (map fst steps) with
  | Some (evs, s') => exists d, wtimed_run tok cap wait false ht now ts steps = Some (evs, mkT s' d)
  | None => wtimed_run tok cap wait false ht now ts steps = None
  end.
Proof.
  intros ht. induction steps as [|[c ws] r IH]; intros now ts Hg Hb Hht.
  - cbn [map push_chunks wtimed_run]. exists (t_deadline ts). destruct ts; reflexivity.
  - cbn [map fst push_chunks wtimed_run]. unfold tpush.
    destruct (push_bytes tok cap (t_in ts) c) as [[evs s1]|] eqn:Ep; [|reflexivity].
    destruct (Hg c ws (or_introl eq_refl)) as [Hp Hs].
    assert (Hb1 : (length (i_buf s1) < cap)%nat).
    { rewrite push_bytes_upush in Ep by exact Hb. eapply upush_residue. exact Ep. }
    set (now1 := now + ht * Z.of_nat (length evs)).
    set (d1 := if i_armed s1 then Some (now1 + wait) else None).
    rewrite (twaits_ok ws now1 (mkT s1 d1) Hp).
    2:{ intros d Ed. cbn [t_deadline] in Ed. unfold d1 in Ed. destruct (i_armed s1); [|discriminate]. inversion Ed; subst. lia. }
    specialize (IH (now1 + zsum ws * 1000) (mkT s1 d1)). cbn [t_in] in IH.
    assert (Hg' : forall c0 ws0, In (c0, ws0) r -> Forall (fun m => 0 <= m) ws0 /\ zsum ws0 * 1000 < wait) by (intros c0 w0 Hin; apply (Hg c0 w0); right; exact Hin).
    specialize (IH Hg' Hb1 Hht).
    destruct (push_chunks tok cap s1 (map fst r)) as [[evs2 s2]|].
    + destruct IH as [d E]. rewrite E. exists d. reflexivity.
    + rewrite IH. reflexivity.
Qed.

(* C20_wait_chunking: fragments pushed with waits of the caller in between that time out -- each
   group of waits shorter, together, than the wait time -- give the events of the whole stream *)
Theorem wait_chunking : forall ht steps c ws now ts,
  (forall c0 ws0, In (c0, ws0) ((c, ws) :: steps) -> Forall (fun m => 0 <= m) ws0 /\ zsum ws0 * 1000 < wait) ->
  (length (i_buf (t_in ts)) < cap)%nat -> 0 <= ht ->
  match push_bytes tok cap (t_in ts) (concat (map fst ((c, ws) :: steps))) with
  | Some (evs, s') => exists d, wtimed_run tok cap wait false ht now ts ((c, ws) :: steps) = Some (evs, mkT s' d)
  | None => wtimed_run tok cap wait false ht now ts ((c, ws) :: steps) = None
  end.
Proof.
  intros ht steps c ws now ts Hg Hb Hht.
  pose proof (wtimed_run_chunks ht ((c, ws) :: steps) now ts Hg Hb Hht) as H.
  cbn [map fst] in *. rewrite (chunking_bounded (map fst steps) c (t_in ts) Hb) in H. exact H.
Qed.

End Chunking.


(* every event of a mouse key carries the key's position minus one *)
Lemma fanout_events : forall f b held mk evs h, fanout f b held mk = Some (evs, h) ->
  Forall (fun e => exists b', e = mk b') evs.
Proof.
  induction f as [|f IH]; intros b held mk evs h H; cbn [fanout] in H.
  - destruct (held =? 0); [inversion H; constructor|discriminate].
  - destruct (held =? 0); [inversion H; constructor|].
    destruct (Z.testbit held b).
    + destruct (fanout f (b + 1) (Z.clearbit held b) mk) as [[e2 h2]|] eqn:E; [|discriminate].
      inversion H; subst. constructor; [eexists; reflexivity|]. eapply IH; eassumption.
    + eapply IH; eassumption.
Qed.

Lemma positions_zero_based : forall held k evs h, k_type k = TMouse -> got_key held k = Some (evs, h) ->
  Forall (fun e => exists t b, e = EvMouse t b (k_line k - 1) (k_col k - 1) (k_mod k)) evs.
Proof.
  intros held k evs h Et H. unfold got_key in H. rewrite Et in H.
  repeat match type of H with
  | (if ?c then _ else _) = _ => destruct c
  end;
  match type of H with
  | Some _ = Some _ => inversion H; subst; constructor; [do 2 eexists; reflexivity|constructor]
  | _ => idtac
  end.
  apply fanout_events in H. eapply Forall_impl; [|exact H].
  cbn beta. intros e [b' ->]. do 2 eexists; reflexivity.
Qed.

Lemma wheel_from_press : forall held k, k_type k = TMouse -> k_ev k = TK_MOUSE_PRESS -> 4 <= k_button k ->
  got_key held k = Some ([EvMouse MOUSEEV_WHEEL (k_button k - 3) (k_line k - 1) (k_col k - 1) (k_mod k)], held).
Proof.
  intros held k Et Ev Hb. unfold got_key. rewrite Et, Ev.
  unfold TK_MOUSE_PRESS, MOUSEEV_WHEEL, MOUSEEV_PRESS, MOUSEEV_DRAG, MOUSEEV_RELEASE.
  change (1 =? 1) with true. cbn [andb].
  destruct (4 <=? k_button k) eqn:E; [|apply Z.leb_gt in E; lia].
  reflexivity.
Qed.

Lemma text_and_keys : forall held k,
  (k_type k = TUnicode -> k_mod k = 0 -> got_key held k = Some ([EvKey KEYEV_TEXT 0 (k_utf8 k)], held)) /\
  (k_type k = TUnicode -> k_mod k <> 0 -> got_key held k = Some ([EvKey KEYEV_KEY (k_mod k) (k_name k)], held)) /\
  (k_type k = TFunction \/ k_type k = TKeysym -> got_key held k = Some ([EvKey KEYEV_KEY (k_mod k) (k_name k)], held)).
Proof.
  intros held k. unfold got_key. repeat split.
  - intros -> Hm. rewrite Hm. reflexivity.
  - intros -> Hm. destruct (k_mod k =? 0) eqn:E; [apply Z.eqb_eq in E; contradiction|reflexivity].
  - intros [-> | ->]; reflexivity.
Qed.

(* a release that names no button: one release per held button, increasing, none left *)
Lemma release_all : forall l k, held_inv l -> k_type k = TMouse -> k_ev k = TK_MOUSE_RELEASE -> k_button k = 0 ->
  got_key (mask_of l) k =
  Some (map (fun b => EvMouse MOUSEEV_RELEASE b (k_line k - 1) (k_col k - 1) (k_mod k)) l, 0).
Proof.
  intros l k Hl Et Ev Hb.
  assert (Hk : key_ok k).
  { unfold key_ok. intros _. rewrite Ev, Hb. unfold TK_MOUSE_RELEASE, TK_MOUSE_PRESS, TK_MOUSE_DRAG.
    repeat split; intros; try lia; try discriminate; try (destruct H; discriminate). }
  destruct (got_key_spec l k Hl Hk) as [H _]. rewrite H.
  unfold spec_key. rewrite Et, Ev, Hb. unfold TK_MOUSE_RELEASE, TK_MOUSE_PRESS, TK_MOUSE_DRAG.
  change (3 =? 1) with false. change (3 =? 2) with false. change (3 =? 3) with true. change (0 =? 0) with true.
  cbn [fst snd]. reflexivity.
Qed.

(* the pinned push loses what does not fit: two chunks differ from their concatenation *)
Definition demo_tok (b : list Z) : tokres :=
  match b with
  | [] => TNone
  | x :: _ => TKey (mkKey TUnicode 0 [x] [x] 0 0 0 0) 1
  end.

Lemma pinned_push_refuted :
  exists chunks whole, whole = concat chunks /\
    fold_left (fun acc c => match acc with
                            | Some (e, s) => match push_bytes_pinned demo_tok 2 s c with
                                             | Some (e2, s2) => Some (e ++ e2, s2) | None => None end
                            | None => None end) chunks (Some ([], ist0))
    <> push_bytes_pinned demo_tok 2 ist0 whole.
Proof.
  exists [[97; 98]; [99]], [97; 98; 99]. split; [reflexivity|]. vm_compute. discriminate.
Qed.

Lemma nonvacuous :
  (forall b m k n, demo_tok b = TKey k n -> demo_tok (b ++ m) = TKey k n) /\
  (forall b k n, demo_tok b = TKey k n -> (0 < n <= length b)%nat) /\
  held_inv [1; 3] /\ mask_of [1; 3] = 10 /\
  push_chunks demo_tok 2 ist0 [[97; 98; 99]; [100]] = push_bytes demo_tok 2 ist0 [97; 98; 99; 100].
Proof.
  split; [|split; [|split; [|split]]].
  - intros b m k n H. destruct b as [|x b]; [discriminate|]. exact H.
  - intros b k n H. destruct b as [|x b]; [discriminate|]. cbn in H. inversion H; subst. cbn. lia.
  - split.
    + repeat constructor; lia.
    + apply ss_cons; [lia|apply ss_one].
  - reflexivity.
  - vm_compute. reflexivity.
Qed.

(* the seeded variant that keeps a running deadline: three fragments 30 ms apart (wait 50 ms)
   force a time-out although no gap reaches the wait time *)
Definition esc_tok (b : list Z) : tokres :=
  match b with
  | [] => TNone
  | 27 :: _ :: _ :: _ => TKey (mkKey TKeysym 0 [] [85; 112] 0 0 0 0) 3
  | 27 :: _ => TAgain
  | x :: _ => TKey (mkKey TUnicode 0 [x] [x] 0 0 0 0) 1
  end.

Lemma stale_deadline_refuted :
  timed_run esc_tok 256 50000 true false 0 0 tst0 [([27], 30000); ([91], 30000); ([65], 0)] = None /\
  timed_run esc_tok 256 50000 false false 0 0 tst0 [([27], 30000); ([91], 30000); ([65], 0)] =
    Some ([EvKey KEYEV_KEY 0 [85; 112]], [20; 20; -1], mkT (mkI [] 0 false) None).
Proof. split; vm_compute; reflexivity. Qed.

(* the seeded variant that reads the clock at the top of get_keys: a chunk holding a complete key
   whose handler takes 70 ms (wait 50 ms) and then the start of a sequence; the poll that follows
   at once forces the time-out, although the rest arrives immediately *)
Lemma early_timestamp_refuted :
  timed_run esc_tok 256 50000 false true 70000 0 tst0 [([97; 27], 0); ([91; 65], 0)] = None /\
  timed_run esc_tok 256 50000 false false 70000 0 tst0 [([97; 27], 0); ([91; 65], 0)] =
    Some ([EvKey KEYEV_TEXT 0 [97]; EvKey KEYEV_KEY 0 [85; 112]], [50; -1], mkT (mkI [] 0 false) None).
Proof. split; vm_compute; reflexivity. Qed.

(* the pinned wait path: a lone ESC, then three waits of 10 ms each that time out (the caller's
   time-outs; 30 ms < the 50 ms wait time), then the rest of the sequence: the pinned code forces
   the ESC at the first wait (None: outside the model), the repaired code decodes the key *)
Lemma wait_forces_refuted :
  wtimed_run esc_tok 256 50000 true 0 0 tst0 [([27], [10; 10; 10]); ([91; 65], [])] = None /\
  wtimed_run esc_tok 256 50000 false 0 0 tst0 [([27], [10; 10; 10]); ([91; 65], [])] =
    Some ([EvKey KEYEV_KEY 0 [85; 112]], mkT (mkI [] 0 false) None).
Proof. split; vm_compute; reflexivity. Qed.

(* tickit_term_input_wait_tv: the milliseconds handed on are those of the timeval (rounded down);
   the pinned conversion turns 2 s into 2 ms *)
Lemma wait_tv_exact : forall sec usec, 0 <= usec < 1000000 ->
  wait_tv_msec false sec usec * 1000 <= sec * 1000000 + usec < (wait_tv_msec false sec usec + 1) * 1000.
Proof.
  intros sec usec H. unfold wait_tv_msec. pose proof (Z.div_mod usec 1000 ltac:(lia)). pose proof (Z.mod_pos_bound usec 1000 ltac:(lia)). lia.
Qed.
Lemma wait_tv_refuted : wait_tv_msec true 2 0 = 2 /\ wait_tv_msec false 2 0 = 2000.
Proof. split; reflexivity. Qed.

