(* XtermSpec.v -- C09: what a drawing request MEANS on the screen (the grid-level, "direct"
   meaning), as a relation between the screen before and after, its boolean checker (the
   oracle), the precondition "in range", and the request interpreter of the model. *)
From Coq Require Import ZArith List Bool Lia.
From Tickit Require Import Csi VT TermPenDefs TermPenSpec XtermDefs Gen_SgrOnOff.
Import ListNotations.
Local Open Scope Z_scope.

Inductive req :=
| RGoto (line col : Z)
| RMove (downward rightward : Z)
| RPrint (bs : list Z)
| RErase (count : Z) (moveend : maybe)
| RClear
| RScroll (r : rect) (downward rightward : Z)
| RChpen (p : pen)
| RSetpen (p : pen).

(* ---- the model: one request through term.c + driver *)
Definition drv_req (t : term) (q : req) : option (term * bool * list token) :=
  let caps := x_caps (t_drv t) in
  match q with
  | RGoto l c => Some (t, true, xt_goto_abs l c)
  | RMove d r => Some (t, true, xt_move_rel d r)
  | RPrint bs => Some (t, true, xt_print bs)
  | RErase n me => Some (t, true, xt_erasech (get_bool_attr (t_pen t) AReverse) n me)
  | RClear => Some (t, true, xt_clear)
  | RScroll r d rt => let '(ok, ts) := xt_scrollrect (cap_slrm caps) (t_cols t) r d rt in Some (t, ok, ts)
  | RChpen p =>
      match do_chpen chpen_params_capacity (cap_colon caps) (cap_rgb8 caps) (mkTp (t_pen t) xterm_colors) p with
      | None => None
      | Some (s, ts) => Some (term_with_pen t (tp_pen s), true, ts)
      end
  | RSetpen p =>
      match do_setpen chpen_params_capacity (cap_colon caps) (cap_rgb8 caps) (mkTp (t_pen t) xterm_colors) p with
      | None => None
      | Some (s, ts) => Some (term_with_pen t (tp_pen s), true, ts)
      end
  end.

(* ---- what a cell looks like behind its glyph *)
Inductive vcol := VDefFg | VDefBg | VIdx (n : Z) | VRgb (r g b : Z).
Definition vcol_of (is_fg : bool) (c : colour) : vcol :=
  match c with
  | CDefault => if is_fg then VDefFg else VDefBg
  | CIdx n => VIdx n
  | CRgb r g b => VRgb r g b
  end.
Definition visbg (a : attrs) : vcol := if a_reverse a then vcol_of true (a_fg a) else vcol_of false (a_bg a).
Definition vcol_eqb (a b : vcol) : bool :=
  match a, b with
  | VDefFg, VDefFg => true
  | VDefBg, VDefBg => true
  | VIdx n, VIdx m => n =? m
  | VRgb r g b', VRgb r2 g2 b2 => (r =? r2) && (g =? g2) && (b' =? b2)
  | _, _ => false
  end.

(* ---- state the requests are issued in *)
Definition vt_okb (v : vt) : bool :=
  (0 <? v_lines v) && (0 <? v_cols v) &&
  margins_eqb (v_mg v) (full_margins (v_lines v) (v_cols v)) &&
  md_awm (v_md v) &&
  (0 <=? row v) && (row v <? v_lines v) && (0 <=? col v) && (col v <? v_cols v).
Definition vt_ok (v : vt) : Prop := vt_okb v = true.

Definition printable (b : Z) : bool := (32 <=? b) && (b <=? 126).

(* "arbitrary in-range arguments" *)
Definition in_rangeb (q : req) (v : vt) : bool :=
  match q with
  | RGoto l c =>
      ((l =? -1) || ((0 <=? l) && (l <? v_lines v))) && ((c =? -1) || ((0 <=? c) && (c <? v_cols v)))
  | RMove d r =>
      negb (pend v) && (0 <=? row v + d) && (row v + d <? v_lines v) && (0 <=? col v + r) && (col v + r <? v_cols v)
  | RPrint bs =>
      forallb printable bs && (negb (pend v) || (Nat.eqb (length bs) 0)) &&
      (col v + Z.of_nat (length bs) <=? v_cols v)
  | RErase n me =>
      (n <? 1) ||
      (negb (pend v) && (col v + n <=? v_cols v) &&
       match me with MYes => col v + n <? v_cols v | _ => true end)
  | RClear => true
  | RScroll r d rt =>
      (0 <=? r_top r) && (0 <=? r_left r) && (0 <? r_lines r) && (0 <? r_cols r) &&
      (r_bottom r <=? v_lines v) && (r_right r <=? v_cols v) &&
      (Z.abs d <? r_lines r) && (Z.abs rt <? r_cols r)
  | RChpen _ | RSetpen _ => true
  end.
Definition in_range (q : req) (v : vt) : Prop := in_rangeb q v = true.

(* ---- bounded quantification over the screen *)
Definition forall_cells (lines cols : Z) (f : Z -> Z -> bool) : bool :=
  forallb (fun y => forallb (fun x => f y x) (seqZ 0 (Z.to_nat cols))) (seqZ 0 (Z.to_nat lines)).

Definition in_rect (r : rect) (y x : Z) : bool :=
  (r_top r <=? y) && (y <? r_bottom r) && (r_left r <=? x) && (x <? r_right r).

(* everything but the grid and the cursor is as before, margins are (still) reset *)
Definition frame_okb (v v' : vt) : bool :=
  (v_lines v' =? v_lines v) && (v_cols v' =? v_cols v) &&
  margins_eqb (v_mg v') (full_margins (v_lines v) (v_cols v)) &&
  modes_eqb (v_md v') (v_md v).

Definition grid_sameb (v v' : vt) : bool :=
  forall_cells (v_lines v) (v_cols v) (fun y x => cell_eqb (v_grid v' y x) (v_grid v y x)).

(* the cell-level meaning of each request *)
Definition effect_cellb (q : req) (v v' : vt) (y x : Z) : bool :=
  let old := v_grid v y x in let new := v_grid v' y x in
  match q with
  | RGoto _ _ | RMove _ _ | RChpen _ | RSetpen _ => cell_eqb new old
  | RPrint bs =>
      if (y =? row v) && (col v <=? x) && (x <? col v + Z.of_nat (length bs))
      then cell_eqb new (mkCell (nth (Z.to_nat (x - col v)) bs 0) (v_sgr v))
      else cell_eqb new old
  | RErase n _ =>
      if (y =? row v) && (col v <=? x) && (x <? col v + n)
      then (c_glyph new =? 32) && vcol_eqb (visbg (c_attrs new)) (visbg (v_sgr v))
      else cell_eqb new old
  | RClear => c_glyph new =? 32
  | RScroll r d rt =>
      if in_rect r y x then
        (if in_rect r (y + d) (x + rt) then cell_eqb new (v_grid v (y + d) (x + rt))
         else c_glyph new =? 32)
      else cell_eqb new old
  end.

Definition effect_cursorb (q : req) (v v' : vt) : bool :=
  match q with
  | RGoto l c =>
      (row v' =? (if l =? -1 then row v else l)) && (col v' =? (if c =? -1 then col v else c)) &&
      Bool.eqb (pend v') (if (l =? -1) && (c =? -1) then pend v else false)
  | RMove d r => (row v' =? row v + d) && (col v' =? col v + r) && negb (pend v')
  | RPrint bs =>
      let n := Z.of_nat (length bs) in
      if n =? 0 then cursor_eqb (v_cur v') (v_cur v)
      else if col v + n <? v_cols v then cursor_eqb (v_cur v') (mkCursor (row v) (col v + n) false)
      else cursor_eqb (v_cur v') (mkCursor (row v) (v_cols v - 1) true)
  | RErase n me =>
      if n <? 1 then cursor_eqb (v_cur v') (v_cur v)
      else match me with
           | MNo => cursor_eqb (v_cur v') (mkCursor (row v) (col v) false)
           | MYes => cursor_eqb (v_cur v') (mkCursor (row v) (col v + n) false)
           | MMaybe => (row v' =? row v) && (col v <=? col v') && (col v' <=? col v + n) && (col v' <? v_cols v)
           end
  | RClear => (row v' =? row v) && (col v' =? col v)
  | RScroll _ _ _ => (0 <=? row v') && (row v' <? v_lines v) && (0 <=? col v') && (col v' <? v_cols v)
  | RChpen _ | RSetpen _ => cursor_eqb (v_cur v') (v_cur v)
  end.

(* [ret] is what the request returned, [silent] whether it wrote no bytes at all *)
Definition effect_okb (q : req) (ret silent : bool) (v v' : vt) : bool :=
  match q, ret with
  | RScroll _ _ _, false => silent
  | _, _ =>
      frame_okb v v' && effect_cursorb q v v' &&
      (match q with RChpen _ | RSetpen _ => true | _ => attrs_eqb (v_sgr v') (v_sgr v) end) &&
      forall_cells (v_lines v) (v_cols v) (effect_cellb q v v')
  end.

(* the same as propositions *)
Definition effect_ok (q : req) (ret silent : bool) (v v' : vt) : Prop :=
  match q, ret with
  | RScroll _ _ _, false => silent = true
  | _, _ =>
      frame_okb v v' = true /\ effect_cursorb q v v' = true /\
      (match q with RChpen _ | RSetpen _ => True | _ => attrs_eqb (v_sgr v') (v_sgr v) = true end) /\
      forall y x, 0 <= y < v_lines v -> 0 <= x < v_cols v -> effect_cellb q v v' y x = true
  end.

(* ---- the oracle's walk over a request sequence.  [obs] pairs each request with what the
   implementation returned and the bytes it wrote.  Stops checking (returns the number of
   requests checked so far) at the first request that is not in range in the state the
   screen is in -- that and everything after it is outside the property's quantifier. *)
Inductive verdict := VOk (checked : nat) | VBadAt (index : nat) | VOutOfRange (index : nat).

Fixpoint oracle_walk (i : nat) (v : vt) (obs : list (req * bool * list Z)) : verdict :=
  match obs with
  | [] => VOk i
  | (q, ret, bytes) :: rest =>
      if negb (vt_okb v && in_rangeb q v) then VOutOfRange i
      else
        let v' := vt_freeze (vt_run_bytes bytes v) in
        if effect_okb q ret (match bytes with [] => true | _ => false end) v v'
        then oracle_walk (S i) v' rest
        else VBadAt i
  end.

(* the test pattern: every cell a different glyph *)
Definition with_pattern (v : vt) : vt :=
  set_grid v (fun y x => mkCell (1000 + y * v_cols v + x) default_attrs).

(* ---- the same walk with the MODEL producing the output (token level): every request that
   is in range in the state it is issued in has its direct effect, and the next request finds
   the screen in a good state again *)
Fixpoint seq_ok (t : term) (v : vt) (qs : list req) : Prop :=
  match qs with
  | [] => True
  | q :: rest =>
      in_range q v ->
      exists t' ret ts,
        drv_req t q = Some (t', ret, ts) /\
        effect_ok q ret (match ts with [] => true | _ => false end) v (vt_run ts v) /\
        vt_ok (vt_run ts v) /\
        seq_ok t' (vt_run ts v) rest
  end.

(* what ties the model's terminal object to the screen it draws on *)
Definition SInv (t : term) (v : vt) : Prop :=
  t_lines t = v_lines v /\ t_cols t = v_cols v /\
  (cap_slrm (x_caps (t_drv t)) = true -> md_lrmm (v_md v) = true) /\
  pen_in_range (t_pen t) /\
  TermPenSpec.sgr_matches (cap_colon (x_caps (t_drv t))) (cap_rgb8 (x_caps (t_drv t))) (t_pen t) (v_sgr v).
Definition req_pen_ok (q : req) : Prop :=
  match q with RChpen p | RSetpen p => pen_in_range p | _ => True end.

(* ---- the recorded finding C09-erasech-rv-right-edge as a trigger class: under reverse
   video, an erase (count >= 1) with the cursor to stay, ending exactly at the right edge and
   not starting in column 0.  [seq_ok_excl excl] is [seq_ok] for the requests outside [excl]. *)
Definition erase_trigger (rv : bool) (n : Z) (me : maybe) (v : vt) : bool :=
  rv && (match me with MNo => true | _ => false end) && (1 <=? n) && (col v + n =? v_cols v) && (0 <? col v).
Definition rv_edge_excl (t : term) (v : vt) (q : req) : bool :=
  match q with
  | RErase n me => erase_trigger (get_bool_attr (t_pen t) AReverse) n me v
  | _ => false
  end.
Fixpoint seq_ok_excl (excl : term -> vt -> req -> bool) (t : term) (v : vt) (qs : list req) : Prop :=
  match qs with
  | [] => True
  | q :: rest =>
      in_range q v -> excl t v q = false ->
      exists t' ret ts,
        drv_req t q = Some (t', ret, ts) /\
        effect_ok q ret (match ts with [] => true | _ => false end) v (vt_run ts v) /\
        vt_ok (vt_run ts v) /\
        seq_ok_excl excl t' (vt_run ts v) rest
  end.

(* the oracle's walk with the recorded trigger class treated like an out-of-range request:
   used to attribute a failing case to the finding only if nothing else is wrong with it *)
Fixpoint oracle_walk_excl (i : nat) (v : vt) (obs : list (req * bool * list Z)) : verdict :=
  match obs with
  | [] => VOk i
  | (q, ret, bytes) :: rest =>
      if negb (vt_okb v && in_rangeb q v) then VOutOfRange i
      else if match q with RErase n me => erase_trigger (a_reverse (v_sgr v)) n me v | _ => false end
      then VOutOfRange i
      else
        let v' := vt_freeze (vt_run_bytes bytes v) in
        if effect_okb q ret (match bytes with [] => true | _ => false end) v v'
        then oracle_walk_excl (S i) v' rest
        else VBadAt i
  end.
