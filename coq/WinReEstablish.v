(* WinReEstablish.v -- re-entering expose handlers, part 3(b): the screen invariant after a
   flush whose handlers repaint what they are asked and make ARBITRARY scripted calls into the
   window layer (expose, show, hide, restack, close, destroy -- of ANY window, the handler's own
   included; show and hide not aimed at the root window; closing the root is a no-op):

     after the flush every screen cell shows the composition of the FINAL tree, or lies in the
     damage the handlers registered (which the next flush renders); the flags that make the
     next flush run are set; the window ids are still unique.          (flush_re_establishes)

   New hypothesis with respect to the version without close: the ids of the whole FOREST (the
   tree and the detached subtrees r_orphans) are unique -- WinInputProofs.ids_unique st.

   Proof: fix a cell q not covered by the final damage.  During the render loop damage is only
   added, so q was never covered; by locality (WinReLocal.run_act_local) no call changed the
   visibility flag or the parent of a window that matters at q (a close of such a window
   exposes its area); hence the traversal, although it reads flags and child lists live,
   descended at q exactly as the composition does (WinReTrav.flush_re_q0), and the owner of q
   is the same in every tree of the loop (St0). *)
From Coq Require Import ZArith List Bool Lia ZifyBool.
From Tickit Require Import RectDefs RectProofs WinRectSet WinRectSetProofs WinDefs WinHist WinSpec
  WinExposeProofs WinFlushProofs WinLogDisjoint WinScreenInv WinLocality WinLocFocus WinPreserve
  WinInput WinReDefs WinReProofs WinReFlags WinReStatic WinReLive WinReTrav WinReLocal.
From Tickit Require WinInputProofs.
Import ListNotations.
Local Open Scope Z_scope.
Local Strategy 1000 [rsfuel].

Lemma qstep_root_info s e : t_info (r_tree (qstep s e)) = t_info (r_tree s).
Proof.
  destruct e as [[k p] w]. unfold qstep. rewrite do_hchange_tree.
  destruct (t_find w (r_tree s)); [rewrite upd_kids_root_info|]; reflexivity.
Qed.

Lemma after_queue_root_info st : t_info (r_tree (after_queue st)) = t_info (r_tree st).
Proof.
  rewrite after_queue_eq.
  assert (H : forall q s, t_info (r_tree (fold_left qstep q s)) = t_info (r_tree s)).
  { induction q as [|e q IH]; intros s; [reflexivity|]. cbn [fold_left]. rewrite IH. apply qstep_root_info. }
  rewrite H. reflexivity.
Qed.

(* with nothing to render the handlers are never called *)
Lemma win_flush_re_norects cfg rh hnd st tm :
  flush_rects cfg (after_queue st) = [] -> win_flush_re cfg rh st tm = win_flush cfg hnd st tm.
Proof.
  intros Er. destruct (r_later st) eqn:Hl.
  2:{ unfold win_flush_re, win_flush. rewrite Hl. reflexivity. }
  rewrite (win_flush_re_unfold cfg rh st tm Hl), (win_flush_unfold cfg hnd st tm Hl). cbn zeta.
  unfold loop_result, flush_buffer. rewrite Er. reflexivity.
Qed.

Lemma rb_full_root st q :
  cell_inb (root_selfrect st) q = true ->
  rb_full (lines (root_selfrect st)) (cols (root_selfrect st)) q = true.
Proof.
  unfold rb_full, cell_inb, root_selfrect, selfrect, bottom, right. cbn [top left lines cols]. lia.
Qed.

(* the queue loop keeps the forest's ids unique *)
Lemma qstep_forest s e : IP.ids_unique s -> IP.ids_unique (qstep s e).
Proof.
  intros Hfu. pose proof (forest_tree_nodup s Hfu) as Hu.
  destruct e as [[k p] w]. unfold qstep.
  assert (Ho : r_orphans (do_hchange s k p w) = r_orphans s).
  { unfold do_hchange. destruct (t_find w (r_tree s)) as [wn|]; [|reflexivity].
    destruct (w_vis (t_info wn)); [rewrite win_expose_orphans|]; reflexivity. }
  pose proof (do_hchange_ids s k p w Hu) as Hu'.
  assert (Hincl : forall x, In x (t_ids (r_tree (do_hchange s k p w))) -> In x (t_ids (r_tree s))).
  { rewrite do_hchange_tree. destruct (t_find w (r_tree s)) as [wn|]; [|tauto].
    destruct (in_dec Z.eq_dec p (t_ids (r_tree s))) as [Hin|Hnin].
    2:{ rewrite (upd_kids_notin _ _ _ Hnin). tauto. }
    destruct (t_find_some p _ Hu Hin) as [n Hn].
    destruct (upd_kids_kc (apply_hchange k w) p _ n Hu Hn) as [D Hkc].
    destruct (kc_kids_nodup _ _ _ _ _ _ Hkc Hu) as [Hndk _].
    pose proof (hchange_perm k w (t_kids n) Hndk) as Hperm.
    destruct (kc_ids (fun _ => False) _ _ _ _ _ _ Hkc Hu) as [_ H].
    - intros x [].
    - apply (Permutation.Permutation_NoDup (l := flat_map t_ids (t_kids n))); [|exact Hndk].
      apply Permutation.Permutation_sym. apply perm_ids. exact Hperm.
    - intros x Hx. left. apply (Permutation.Permutation_in _ (perm_ids _ _ Hperm)). exact Hx.
    - intros x Hx. destruct (H x Hx) as [H'|[]]. exact H'. }
  unfold IP.ids_unique, IP.forest_ids, forest in *. cbn [flat_map] in *. rewrite Ho.
  change (IP.t_ids (r_tree (do_hchange s k p w))) with (t_ids (r_tree (do_hchange s k p w))).
  change (IP.t_ids (r_tree s)) with (t_ids (r_tree s)) in Hfu.
  apply nodup_app_inv in Hfu. destruct Hfu as (_ & H2 & H3).
  apply nodup_app_intro; [exact Hu'|exact H2|]. intros x Hx1 Hx2. apply (H3 x (Hincl x Hx1) Hx2).
Qed.

Lemma after_queue_forest st : IP.ids_unique st -> IP.ids_unique (after_queue st).
Proof.
  intros Hfu. rewrite after_queue_eq.
  assert (H : forall q s, IP.ids_unique s -> IP.ids_unique (fold_left qstep q s)).
  { induction q as [|e q IH]; intros s Hs; [exact Hs|]. cbn [fold_left]. apply IH. apply qstep_forest. exact Hs. }
  apply H. exact Hfu.
Qed.

Theorem flush_re_establishes app progs racts st tm st' tm' lg :
  ScreenInv app st tm -> ids_unique (r_tree st) -> IP.ids_unique st ->
  (forall id, progs id = [DPaint]) ->
  (forall id a, In a (racts id) ->
     match a with RShow w | RHide w => w <> t_id (r_tree st) | _ => True end) ->
  win_flush_re no_defects (re_handler no_defects (prog_handler app progs) racts) st tm = (st', tm', lg) ->
  r_fault st' = false ->
  ScreenInv app st' tm' /\ ids_unique (r_tree st') /\ IP.ids_unique st'.
Proof.
  intros SI Hu Hfu Hprogs Hacts Hfl Hf.
  set (hnd := prog_handler app progs) in *.
  set (rh := re_handler no_defects hnd racts) in *.
  assert (Hsnd : forall id r sb, snd (rh id r sb) = paint_handler app id r (snd sb)).
  { intros id r sb. unfold rh, re_handler, hnd, paint_handler, prog_handler. cbn [snd].
    rewrite Hprogs. reflexivity. }
  destruct (r_later st) eqn:Hl.
  2:{ unfold win_flush_re in Hfl. rewrite Hl in Hfl. cbn [negb] in Hfl. injection Hfl as <- <- _.
      split; [assumption|split; assumption]. }
  set (st2 := after_queue st).
  set (T0 := r_tree st2).
  assert (Hfu2 : IP.ids_unique st2) by (apply after_queue_forest; exact Hfu).
  (* no rectangle to render (in particular: an empty root window): the plain flush *)
  assert (Hplain : flush_rects no_defects st2 = [] \/ r_nexp st2 = false ->
                   ScreenInv app st' tm' /\ ids_unique (r_tree st') /\ IP.ids_unique st').
  { intros Hcase.
    assert (E : win_flush_re no_defects rh st tm = win_flush no_defects hnd st tm).
    { destruct Hcase as [Er|En]; [apply win_flush_re_norects; exact Er|].
      rewrite (win_flush_re_unfold no_defects rh st tm Hl), (win_flush_unfold no_defects hnd st tm Hl).
      cbn zeta. fold st2. rewrite En. reflexivity. }
    rewrite E in Hfl.
    destruct (flush_establishes_any_queue app progs st tm st' tm' lg SI Hu Hprogs Hfl Hf) as (_ & _ & A & B).
    split; [exact A|]. split; [exact B|].
    (* the forest of the plain flush's result is that of st2 *)
    rewrite (win_flush_unfold no_defects hnd st tm Hl) in Hfl. cbn zeta in Hfl. fold st2 in Hfl.
    destruct (r_nexp st2); [|destruct (r_nrest st2)]; injection Hfl as <- _ _; exact Hfu2. }
  destruct (r_nexp st2) eqn:En; [|apply Hplain; right; reflexivity].
  destruct (Z_lt_dec 0 (lines (w_rect (t_info T0)))) as [HL|HL];
    [destruct (Z_lt_dec 0 (cols (w_rect (t_info T0)))) as [HC|HC]|].
  2:{ apply Hplain. left. apply flush_rects_empty_root; [reflexivity|]. fold T0. unfold nonempty. lia. }
  2:{ apply Hplain. left. apply flush_rects_empty_root; [reflexivity|]. fold T0. unfold nonempty. lia. }
  clear Hplain.
  rewrite (win_flush_re_unfold no_defects rh st tm Hl) in Hfl. cbn zeta in Hfl. fold st2 in Hfl.
  rewrite En in Hfl.
  set (L := lines (root_selfrect st2)) in *. set (C := cols (root_selfrect st2)) in *.
  set (rects := flush_rects no_defects st2) in *.
  set (s0 := loop_start st2) in *.
  unfold loop_result in Hfl. fold L C rects s0 in Hfl.
  set (sbL := flush_rb_re rh rects (s0, rb_new L C)) in *.
  injection Hfl as Est' Etm' _.
  assert (HfL : r_fault (fst sbL) = false) by (rewrite <- Est' in Hf; exact Hf).
  set (rid := t_id T0). set (R := w_rect (t_info T0)).
  assert (Hok : forall id a, In a (racts id) -> act_ok rid a).
  { intros id a Hin. specialize (Hacts id a Hin). unfold rid, T0, st2, t_id. rewrite after_queue_root_info.
    destruct a; try exact I; exact Hacts. }
  assert (Hfa : r_fault st2 = false).
  { assert (H0 : r_fault s0 = false).
    { apply (flush_rb_re_fst_inv (fun x => r_fault x = false -> r_fault s0 = false) rh) with (rects := rects) (sb := (s0, rb_new L C)).
      - intros id r sb H Hx. apply H. unfold rh, re_handler in Hx. cbn [fst] in Hx.
        apply (run_acts_fault _ _ _ Hx).
      - cbn [fst]. tauto.
      - exact HfL. }
    exact H0. }
  destruct (queue_preserves app st tm SI Hu Hl Hfa) as (Hleq & SIq & Huq & Hqq & Hlq & Hq2).
  fold st2 in Hleq, Hq2. destruct Hleq as (LT & LD & _).
  pose proof SIq as [Ho Hrv Hs Hne Hc Hfg]. rewrite <- LT in Ho, Hrv, Hs. rewrite <- LD in Hc.
  unfold root_selfrect in Hc. rewrite <- LT in Hc. fold (root_selfrect st2) in Hc.
  fold T0 in Ho, Hrv, Hs, Hc.
  assert (HG0 : G1 rid R s0).
  { split; [|reflexivity]. split; [exact Hfu2|]. split; [reflexivity|]. split; [exact Hrv|].
    split; [split; assumption|]. intros _. constructor. }
  (* a cell of the root window: (0,0) *)
  assert (Hq00 : cell_in (mkRect 0 0 (lines R) (cols R)) (0, 0)).
  { unfold cell_in, bottom, right; cbn [top left lines cols fst snd]. unfold R. lia. }
  destruct (flush_step0 rh (0, 0) (G1 rid R)
              (re_handler_step0 no_defects rid R (0, 0) hnd racts Hq00 Hok) rects (s0, rb_new L C) HG0)
    as [HGL _].
  fold sbL in HGL. destruct HGL as ((HfuL & HridL & HrvL & HDL) & HrectL).
  pose proof (forest_tree_nodup _ HfuL) as HuL.
  assert (HFL : FlagInv (fst sbL)).
  { apply flush_rb_re_flaginv. cbn [fst].
    unfold FlagInv, s0, loop_start; cbn [r_damage r_queue r_nexp r_later set_flags set_damage].
    rewrite Hq2. split; intros H; exfalso; apply H; reflexivity. }
  assert (Hsr : root_selfrect (fst sbL) = root_selfrect st2).
  { unfold root_selfrect, selfrect. rewrite HrectL. reflexivity. }
  rewrite <- Est', <- Etm'. split; [|split; [cbn [r_tree set_flags]; exact HuL|exact HfuL]].
  constructor; cbn [r_tree r_damage r_queue r_nexp r_later set_flags].
  - rewrite HrectL. exact Ho.
  - exact HrvL.
  - match goal with |- t_lines (do_restore ?a ?b) = _ /\ _ => destruct (do_restore_size a b) as [E1 E2]; rewrite E1, E2 end.
    cbn [t_lines t_cols term_flush_rb term_set_grid term_set_cvis]. rewrite HrectL. exact Hs.
  - destruct HDL as [_ H]. apply H. exact HfL.
  - intros q Hq. change (root_selfrect (set_flags _ _ _ _)) with (root_selfrect (fst sbL)) in Hq.
    rewrite Hsr in Hq.
    destruct (coveredb (r_damage (fst sbL)) q) eqn:Ecov; [right; apply coveredb_iff; exact Ecov|].
    left.
    assert (Hnc : ~ cov0 q (fst sbL)).
    { intros H. apply coveredb_iff in H. congruence. }
    assert (Hq0 : cell_in (mkRect 0 0 (lines R) (cols R)) q) by (apply cell_inb_iff; exact Hq).
    pose proof (flush_re_q0 app rh Hsnd q (G1 rid R)
                  (fun T P s => Gd rid T P s /\ w_rect (t_info T) = R)
                  (rect_start rid R q)
                  (fun T P V id r sb HG =>
                     match HG with
                     | conj HGd HR =>
                       match re_handler_step no_defects rid R q hnd racts Hq0 Hok T P V id r sb HR HGd with
                       | conj A B => conj (conj A HR) B
                       end
                     end)
                  (re_handler_step0 no_defects rid R q hnd racts Hq0 Hok)
                  L C rects s0 (rb_new L C) (flush_state_new L C) HG0) as Hcell.
    cbv zeta in Hcell. fold sbL in Hcell. specialize (Hcell HfL Hnc).
    destruct (flush_step0 rh q (G1 rid R) (re_handler_step0 no_defects rid R q hnd racts Hq0 Hok)
                rects (s0, rb_new L C) HG0) as [_ HSt].
    fold sbL in HSt. cbn [fst] in HSt.
    destruct (HSt HfL Hnc) as (_ & _ & Hown). change (r_tree s0) with T0 in Hown.
    assert (Efull : rb_full L C q = true).
    { apply rb_full_root. exact Hq. }
    rewrite do_restore_grid. unfold term_flush_rb, term_set_grid, term_set_cvis; cbn [t_grid].
    rewrite Hcell, Efull. cbn [andb].
    destruct (in_any rects q) eqn:Eany.
    + unfold paint_val, shows. destruct (owner_rel (r_tree (fst sbL)) q) as [w pw]. reflexivity.
    + unfold rb_new; cbn [rb_cells].
      destruct (Hc q Hq) as [H|H].
      * rewrite H. unfold shows. rewrite Hown. reflexivity.
      * exfalso. assert (Ht : in_any rects q = true).
        { apply flush_rects_covered. split; [exact H|apply cell_inb_iff; exact Hq]. }
        congruence.
  - exact HFL.
Qed.

(* ------------------------------------------------------------------------------------ *)
(* the history step, and the oracle's clause                                             *)

Corollary step_re_flush_preserves progs racts m :
  ScreenInv (m_app m) (m_root m) (m_term m) -> ids_unique (r_tree (m_root m)) ->
  IP.ids_unique (m_root m) ->
  (forall id, progs id = [DPaint]) ->
  (forall id a, In a (racts id) ->
     match a with RShow w | RHide w => w <> t_id (r_tree (m_root m)) | _ => True end) ->
  let m' := step_re no_defects progs racts OFlush m in
  r_fault (m_root m') = false ->
  ScreenInv (m_app m') (m_root m') (m_term m') /\ ids_unique (r_tree (m_root m')) /\
  IP.ids_unique (m_root m').
Proof.
  intros SI Hu Hfu Hprogs Hacts. cbv zeta. cbn [step_re].
  destruct (win_flush_re no_defects (re_handler no_defects (prog_handler (m_app m) progs) racts)
                         (m_root m) (m_term m)) as [[st' tm'] lg] eqn:Hfl.
  cbn [m_root m_app m_term]. intros Hf.
  exact (flush_re_establishes (m_app m) progs racts (m_root m) (m_term m) st' tm' lg SI Hu Hfu Hprogs Hacts Hfl Hf).
Qed.

Lemma zrange_in lo n k : In k (zrange lo n) -> lo <= k < lo + n.
Proof.
  unfold zrange. intros H. apply in_map_iff in H. destruct H as (j & <- & Hj).
  apply in_seq in Hj. lia.
Qed.

Lemma grid_cells_in nl nc p : In p (grid_cells nl nc) -> 0 <= fst p < nl /\ 0 <= snd p < nc.
Proof.
  unfold grid_cells. intros H. apply in_flat_map in H. destruct H as (y & Hy & H).
  apply in_map_iff in H. destruct H as (x & <- & Hx).
  apply zrange_in in Hy. apply zrange_in in Hx. cbn [fst snd]. lia.
Qed.

(* ScreenInv is what the oracle's clause c01_pending_checkb tests on the implementation's
   observations after every flush *)
Theorem screeninv_pending_check app st tm :
  ScreenInv app st tm ->
  c01_pending_checkb app (r_tree st) (t_lines tm) (t_cols tm) (t_grid tm)
                     (r_damage st) (r_nexp st) (r_later st) = true.
Proof.
  intros [Ho Hrv Hs Hne Hc [Hf1 Hf2]]. unfold c01_pending_checkb. apply andb_true_iff. split.
  - apply forallb_forall. intros p Hp. apply grid_cells_in in Hp.
    assert (Hin : cell_inb (root_selfrect st) p = true).
    { unfold cell_inb, root_selfrect, selfrect, bottom, right. cbn [top left lines cols].
      destruct Hs as [<- <-]. lia. }
    destruct (Hc p Hin) as [H|H].
    + rewrite (compose_shows app (r_tree st) p Hrv Hin), H, Z.eqb_refl. apply orb_true_r.
    + apply in_any_iff in H. rewrite H. reflexivity.
  - destruct (r_damage st) as [|x rest]; [reflexivity|].
    destruct Hf1 as [-> ->]; [discriminate|reflexivity].
Qed.
