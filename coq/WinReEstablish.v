(* WinReEstablish.v -- re-entering expose handlers, part 3(b): the screen invariant after a
   flush whose handlers repaint what they are asked and make ARBITRARY scripted calls into the
   window layer (expose, show, hide, restack; show and hide not aimed at the root window):

     after the flush every screen cell shows the composition of the FINAL tree, or lies in the
     damage the handlers registered (which the next flush renders); the flags that make the
     next flush run are set; the window ids are still unique.          (flush_re_establishes)

   Proof: fix a cell q not covered by the final damage.  During the render loop damage is only
   added, so q was never covered; by locality (WinReLocal.run_act_local) no call changed the
   visibility flag of a window that matters at q; hence the traversal, although it reads the
   flags live, descended at q exactly as the composition of the final tree does
   (WinReTrav.flush_re_q0), and the owner of q is the same in every tree of the loop. *)
From Coq Require Import ZArith List Bool Lia ZifyBool.
From Tickit Require Import RectDefs RectProofs WinRectSet WinRectSetProofs WinDefs WinHist WinSpec
  WinExposeProofs WinFlushProofs WinLogDisjoint WinScreenInv WinLocality WinLocFocus WinPreserve
  WinReDefs WinReProofs WinReFlags WinReStatic WinReLive WinReTrav WinReLocal.
Import ListNotations.
Local Open Scope Z_scope.
Local Strategy 1000 [rsfuel].

Lemma qstep_root_info s e : t_info (r_tree (qstep s e)) = t_info (r_tree s).
Proof.
  destruct e as [[k p] w]. unfold qstep. rewrite do_hchange_tree.
  destruct (t_find w (r_tree s)); [rewrite upd_kids_root_info|]; reflexivity.
Qed.

Lemma after_queue_root_info st : t_info (r_tree (after_queue st)) = t_info (r_tree st).
Proof.
  rewrite after_queue_eq.
  assert (H : forall q s, t_info (r_tree (fold_left qstep q s)) = t_info (r_tree s)).
  { induction q as [|e q IH]; intros s; [reflexivity|]. cbn [fold_left]. rewrite IH. apply qstep_root_info. }
  rewrite H. reflexivity.
Qed.

(* with nothing to render the handlers are never called *)
Lemma win_flush_re_norects cfg rh hnd st tm :
  flush_rects cfg (after_queue st) = [] -> win_flush_re cfg rh st tm = win_flush cfg hnd st tm.
Proof.
  intros Er. destruct (r_later st) eqn:Hl.
  2:{ unfold win_flush_re, win_flush. rewrite Hl. reflexivity. }
  rewrite (win_flush_re_unfold cfg rh st tm Hl), (win_flush_unfold cfg hnd st tm Hl). cbn zeta.
  unfold loop_result, flush_buffer. rewrite Er. reflexivity.
Qed.

Lemma rb_full_root st q :
  cell_inb (root_selfrect st) q = true ->
  rb_full (lines (root_selfrect st)) (cols (root_selfrect st)) q = true.
Proof.
  unfold rb_full, cell_inb, root_selfrect, selfrect, bottom, right. cbn [top left lines cols]. lia.
Qed.

Lemma gd_keeps cfg T0 hnd racts :
  (forall id a, In a (racts id) -> act_ok (t_id T0) a) -> rh_keeps (Gd T0) (re_handler cfg hnd racts).
Proof.
  intros Hok. apply re_handler_keeps. intros s id.
  apply (run_acts_keeps (Gd T0)). intros s' a Hin HG. apply run_act_gd; [exact HG|]. apply (Hok id a Hin).
Qed.

Theorem flush_re_establishes app progs racts st tm st' tm' lg :
  ScreenInv app st tm -> ids_unique (r_tree st) ->
  (forall id, progs id = [DPaint]) ->
  (forall id a, In a (racts id) ->
     match a with RShow w | RHide w => w <> t_id (r_tree st) | _ => True end) ->
  win_flush_re no_defects (re_handler no_defects (prog_handler app progs) racts) st tm = (st', tm', lg) ->
  r_fault st' = false ->
  ScreenInv app st' tm' /\ ids_unique (r_tree st').
Proof.
  intros SI Hu Hprogs Hacts Hfl Hf.
  set (hnd := prog_handler app progs) in *.
  set (rh := re_handler no_defects hnd racts) in *.
  assert (Hsnd : forall id r sb, snd (rh id r sb) = paint_handler app id r (snd sb)).
  { intros id r sb. unfold rh, re_handler, hnd, paint_handler, prog_handler. cbn [snd].
    rewrite Hprogs. reflexivity. }
  destruct (r_later st) eqn:Hl.
  2:{ unfold win_flush_re in Hfl. rewrite Hl in Hfl. cbn [negb] in Hfl. injection Hfl as <- <- _.
      split; assumption. }
  set (st2 := after_queue st).
  set (T0 := r_tree st2).
  (* no rectangle to render (in particular: an empty root window): the plain flush *)
  assert (Hplain : flush_rects no_defects st2 = [] \/ r_nexp st2 = false ->
                   ScreenInv app st' tm' /\ ids_unique (r_tree st')).
  { intros Hcase.
    assert (E : win_flush_re no_defects rh st tm = win_flush no_defects hnd st tm).
    { destruct Hcase as [Er|En]; [apply win_flush_re_norects; exact Er|].
      rewrite (win_flush_re_unfold no_defects rh st tm Hl), (win_flush_unfold no_defects hnd st tm Hl).
      cbn zeta. fold st2. rewrite En. reflexivity. }
    rewrite E in Hfl.
    destruct (flush_establishes_any_queue app progs st tm st' tm' lg SI Hu Hprogs Hfl Hf) as (_ & _ & A & B).
    split; assumption. }
  destruct (r_nexp st2) eqn:En; [|apply Hplain; right; reflexivity].
  destruct (Z_lt_dec 0 (lines (w_rect (t_info T0)))) as [HL|HL];
    [destruct (Z_lt_dec 0 (cols (w_rect (t_info T0)))) as [HC|HC]|].
  2:{ apply Hplain. left. apply flush_rects_empty_root; [reflexivity|]. fold T0. unfold nonempty. lia. }
  2:{ apply Hplain. left. apply flush_rects_empty_root; [reflexivity|]. fold T0. unfold nonempty. lia. }
  clear Hplain.
  rewrite (win_flush_re_unfold no_defects rh st tm Hl) in Hfl. cbn zeta in Hfl. fold st2 in Hfl.
  rewrite En in Hfl.
  set (L := lines (root_selfrect st2)) in *. set (C := cols (root_selfrect st2)) in *.
  set (rects := flush_rects no_defects st2) in *.
  set (s0 := loop_start st2) in *.
  unfold loop_result in Hfl. fold L C rects s0 in Hfl.
  set (sbL := flush_rb_re rh rects (s0, rb_new L C)) in *.
  injection Hfl as Est' Etm' _.
  assert (HfL : r_fault (fst sbL) = false) by (rewrite <- Est' in Hf; exact Hf).
  (* the state after the queue *)
  assert (Hok : forall id a, In a (racts id) -> act_ok (t_id T0) a).
  { intros id a Hin. specialize (Hacts id a Hin). unfold T0, st2, t_id. rewrite after_queue_root_info.
    destruct a; exact Hacts. }
  assert (HG0' : rh_keeps (Gd T0) rh) by (apply gd_keeps; exact Hok).
  assert (Hfa : r_fault st2 = false).
  { assert (H0 : r_fault s0 = false).
    { apply (flush_rb_re_fst_inv (fun x => r_fault x = false -> r_fault s0 = false) rh) with (rects := rects) (sb := (s0, rb_new L C)).
      - intros id r sb H Hx. apply H. unfold rh, re_handler in Hx. cbn [fst] in Hx.
        apply (run_acts_fault _ _ _ Hx).
      - cbn [fst]. tauto.
      - exact HfL. }
    exact H0. }
  destruct (queue_preserves app st tm SI Hu Hl Hfa) as (Hleq & SIq & Huq & Hqq & Hlq & Hq2).
  fold st2 in Hleq, Hq2. destruct Hleq as (LT & LD & _).
  pose proof SIq as [Ho Hrv Hs Hne Hc Hfg]. rewrite <- LT in Ho, Hrv, Hs. rewrite <- LD in Hc.
  unfold root_selfrect in Hc. rewrite <- LT in Hc. fold (root_selfrect st2) in Hc.
  fold T0 in Ho, Hrv, Hs, Hc.
  assert (HuT : NoDup (t_ids T0)) by (unfold T0; rewrite LT; exact Huq).
  assert (HG0 : Gd T0 s0).
  { split; [exact HuT|]. split; [reflexivity|]. split; [exact Hrv|].
    split; [split; assumption|]. intros _. constructor. }
  assert (HGL : Gd T0 (fst sbL)).
  { apply (flush_rb_re_fst_inv (Gd T0) rh HG0'). exact HG0. }
  destruct HGL as (HuL & HskL & HrvL & HDL).
  destruct (skel_eq_root _ _ HskL) as [HidL HrectL].
  assert (HFL : FlagInv (fst sbL)).
  { apply flush_rb_re_flaginv. cbn [fst].
    unfold FlagInv, s0, loop_start; cbn [r_damage r_queue r_nexp r_later set_flags set_damage].
    rewrite Hq2. split; intros H; exfalso; apply H; reflexivity. }
  assert (Hsr : root_selfrect (fst sbL) = root_selfrect st2).
  { unfold root_selfrect, selfrect. rewrite HrectL. reflexivity. }
  rewrite <- Est', <- Etm'. split; [|cbn [r_tree set_flags]; exact HuL].
  constructor; cbn [r_tree r_damage r_queue r_nexp r_later set_flags].
  - rewrite HrectL. exact Ho.
  - exact HrvL.
  - match goal with |- t_lines (do_restore ?a ?b) = _ /\ _ => destruct (do_restore_size a b) as [E1 E2]; rewrite E1, E2 end.
    cbn [t_lines t_cols term_flush_rb term_set_grid term_set_cvis]. rewrite HrectL. exact Hs.
  - destruct HDL as [_ H]. apply H. exact HfL.
  - intros q Hq. change (root_selfrect (set_flags _ _ _ _)) with (root_selfrect (fst sbL)) in Hq.
    rewrite Hsr in Hq.
    destruct (coveredb (r_damage (fst sbL)) q) eqn:Ecov; [right; apply coveredb_iff; exact Ecov|].
    left.
    assert (Hnc : ~ cov0 q (fst sbL)).
    { intros H. apply coveredb_iff in H. congruence. }
    assert (Hq0 : cell_in (selfrect (t_info T0)) q) by (apply cell_inb_iff; exact Hq).
    set (V := vis_now s0).
    assert (Hstep : forall id r sb, Gd T0 (fst sb) -> Gd T0 (fst (rh id r sb)) /\ St q V T0 (fst sb) (fst (rh id r sb))).
    { apply (re_handler_step no_defects T0 q V Hq0 hnd racts Hok). }
    assert (Hgsk : forall s, Gd T0 s -> skel (r_tree s) = skel T0) by (intros s (_ & H & _); exact H).
    assert (HO0 : OKs q V T0 s0) by (intros x _; reflexivity).
    pose proof (flush_re_q0 app rh Hsnd q V T0 (Gd T0) Hgsk Hstep L C rects s0 (rb_new L C)
                  (flush_state_new L C) HG0 HO0) as Hcell.
    cbv zeta in Hcell. fold sbL in Hcell. specialize (Hcell HfL Hnc).
    destruct (flush_step rh q V T0 (Gd T0) Hstep rects (s0, rb_new L C) HG0) as [_ HSt].
    fold sbL in HSt. cbn [fst] in HSt.
    destruct (HSt HfL Hnc) as (_ & _ & HOL). specialize (HOL HO0).
    (* the owner of q is the same in the final tree *)
    assert (Hown : owner_rel (r_tree (fst sbL)) q = own V T0 q).
    { rewrite <- (own_self (vis_now (fst sbL)) (r_tree (fst sbL)) (Vok_self _ HuL) q).
      rewrite (own_skel (vis_now (fst sbL)) T0 (r_tree (fst sbL)) q HskL).
      apply (live_agree V (vis_now (fst sbL)) T0 q). exact HOL. }
    assert (Hown0 : owner_rel T0 q = own V T0 q).
    { symmetry. apply own_self. apply (Vok_self T0 HuT). }
    assert (Efull : rb_full L C q = true).
    { apply rb_full_root. exact Hq. }
    rewrite do_restore_grid. unfold term_flush_rb, term_set_grid, term_set_cvis; cbn [t_grid].
    rewrite Hcell, Efull. cbn [andb].
    destruct (in_any rects q) eqn:Eany.
    + unfold paint_val, shows. rewrite Hown. destruct (own V T0 q) as [w pw]. reflexivity.
    + unfold rb_new; cbn [rb_cells].
      destruct (Hc q Hq) as [H|H].
      * rewrite H. unfold shows. rewrite Hown, Hown0. reflexivity.
      * exfalso. assert (Ht : in_any rects q = true).
        { apply flush_rects_covered. split; [exact H|apply cell_inb_iff; exact Hq]. }
        congruence.
  - exact HFL.
Qed.

(* ------------------------------------------------------------------------------------ *)
(* the history step, and the oracle's clause                                             *)

Corollary step_re_flush_preserves progs racts m :
  ScreenInv (m_app m) (m_root m) (m_term m) -> ids_unique (r_tree (m_root m)) ->
  (forall id, progs id = [DPaint]) ->
  (forall id a, In a (racts id) ->
     match a with RShow w | RHide w => w <> t_id (r_tree (m_root m)) | _ => True end) ->
  let m' := step_re no_defects progs racts OFlush m in
  r_fault (m_root m') = false ->
  ScreenInv (m_app m') (m_root m') (m_term m') /\ ids_unique (r_tree (m_root m')).
Proof.
  intros SI Hu Hprogs Hacts. cbv zeta. cbn [step_re].
  destruct (win_flush_re no_defects (re_handler no_defects (prog_handler (m_app m) progs) racts)
                         (m_root m) (m_term m)) as [[st' tm'] lg] eqn:Hfl.
  cbn [m_root m_app m_term]. intros Hf.
  exact (flush_re_establishes (m_app m) progs racts (m_root m) (m_term m) st' tm' lg SI Hu Hprogs Hacts Hfl Hf).
Qed.

Lemma zrange_in lo n k : In k (zrange lo n) -> lo <= k < lo + n.
Proof.
  unfold zrange. intros H. apply in_map_iff in H. destruct H as (j & <- & Hj).
  apply in_seq in Hj. lia.
Qed.

Lemma grid_cells_in nl nc p : In p (grid_cells nl nc) -> 0 <= fst p < nl /\ 0 <= snd p < nc.
Proof.
  unfold grid_cells. intros H. apply in_flat_map in H. destruct H as (y & Hy & H).
  apply in_map_iff in H. destruct H as (x & <- & Hx).
  apply zrange_in in Hy. apply zrange_in in Hx. cbn [fst snd]. lia.
Qed.

(* ScreenInv is what the oracle's clause c01_pending_checkb tests on the implementation's
   observations after every flush *)
Theorem screeninv_pending_check app st tm :
  ScreenInv app st tm ->
  c01_pending_checkb app (r_tree st) (t_lines tm) (t_cols tm) (t_grid tm)
                     (r_damage st) (r_nexp st) (r_later st) = true.
Proof.
  intros [Ho Hrv Hs Hne Hc [Hf1 Hf2]]. unfold c01_pending_checkb. apply andb_true_iff. split.
  - apply forallb_forall. intros p Hp. apply grid_cells_in in Hp.
    assert (Hin : cell_inb (root_selfrect st) p = true).
    { unfold cell_inb, root_selfrect, selfrect, bottom, right. cbn [top left lines cols].
      destruct Hs as [<- <-]. lia. }
    destruct (Hc p Hin) as [H|H].
    + rewrite (compose_shows app (r_tree st) p Hrv Hin), H, Z.eqb_refl. apply orb_true_r.
    + apply in_any_iff in H. rewrite H. reflexivity.
  - destruct (r_damage st) as [|x rest]; [reflexivity|].
    destruct Hf1 as [-> ->]; [discriminate|reflexivity].
Qed.
