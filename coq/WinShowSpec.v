(* WinShowSpec.v -- the oracle clause for tickit_window_show (WinSpec.c15_show_checkb, run by
   the test oracle on the implementation's window trees right before / right after the call)
   holds of the MODEL of show (WinDefs.win_show), in every defect configuration: the switches
   only decide whether a cursor restore is requested, never what happens to the tree.

     show_meets_spec        on a tree with unique ids the model's result passes the checker
                            (a window that is not in the tree: win_show is the identity, and
                            the checker accepts the unchanged tree)
     show_refutes_relink    the checker rejects "the parent's focus link is switched to the
                            shown window although the parent already has a focused child"
     show_refutes_one_level the checker rejects "a shown container whose own focused-child
                            link leads to the focused window is not linked into its parent"
   (the two behaviours seeded into the implementation; in both examples the model's own
   result is accepted). *)
From Coq Require Import ZArith List Bool Lia ZifyBool.
From Tickit Require Import RectDefs RectProofs WinRectSet WinDefs WinSpec WinExposeProofs
  WinFlushProofs WinLogDisjoint WinLocA WinLocTree WinReProofs WinReLive.
Import ListNotations.
Local Open Scope Z_scope.

(* ------------------------------------------------------------------------------------ *)
(* small tools                                                                           *)

Lemma sub_ids_t_ids t : sub_ids t = t_ids t.
Proof. destruct t; reflexivity. Qed.

Lemma zlist_eqb_refl l : zlist_eqb l l = true.
Proof. induction l as [|x r IH]; [reflexivity|]. cbn [zlist_eqb]. rewrite Z.eqb_refl, IH. reflexivity. Qed.

Lemma fchild_eqb_refl a : fchild_eqb a a = true.
Proof. destruct a as [x|]; [apply Z.eqb_refl|reflexivity]. Qed.

(* the info of window x after an id-keeping update of window y *)
Lemma find_update_info f y x t a : keeps_id f -> t_find x t = Some a ->
  exists b, t_find x (t_update f y t) = Some b /\
            t_info b = if x =? y then f (t_info a) else t_info a.
Proof.
  intros Hf E. exists (t_update f y a). split.
  - rewrite (find_update f y x Hf), E. reflexivity.
  - rewrite update_info. destruct (t_find_sub _ _ _ E) as [_ Hid]. rewrite Hid. reflexivity.
Qed.

Lemma keeps_id_vis v : keeps_id (fun j => set_vis j v).
Proof. intros i. reflexivity. Qed.
Lemma keeps_id_fchild c : keeps_id (fun j => set_fchild j c).
Proof. intros i. reflexivity. Qed.

Lemma parent_id_none id t : t_chain id t = None -> t_parent_id id t = None.
Proof. unfold t_parent_id. intros ->. reflexivity. Qed.

(* ------------------------------------------------------------------------------------ *)
(* the tree of the model's result                                                        *)

Definition show_link (w p : wtree) : bool :=
  match w_fchild (t_info p) with
  | None => (match w_fchild (t_info w) with Some _ => true | None => false end) || w_focused (t_info w)
  | Some _ => false
  end.

Definition show_tree (id : Z) (t : wtree) : wtree :=
  match t_chain id t with
  | None => t
  | Some chain =>
    let tr1 := t_update (fun j => set_vis j true) id t in
    match chain with
    | w :: p :: _ =>
      if show_link w p then t_update (fun j => set_fchild j (Some id)) (t_id p) tr1 else tr1
    | _ => tr1
    end
  end.

Lemma win_show_tree cfg st id : r_tree (win_show cfg st id) = show_tree id (r_tree st).
Proof.
  unfold win_show, show_tree.
  destruct (t_chain id (r_tree st)) as [chain|]; [|reflexivity].
  destruct chain as [|w [|p rest]]; try (rewrite win_expose_tree; reflexivity).
  fold (show_link w p). rewrite win_expose_tree.
  destruct (show_link w p); destruct (d_chain_norestore cfg); reflexivity.
Qed.

(* ------------------------------------------------------------------------------------ *)
(* the model meets the clause                                                            *)

Lemma show_tree_meets_spec id t : NoDup (t_ids t) -> c15_show_checkb id t (show_tree id t) = true.
Proof.
  intros Hnd. unfold c15_show_checkb. apply andb_true_iff. split.
  - (* the shape: same ids in the same order *)
    assert (E : sub_ids (show_tree id t) = sub_ids t).
    { unfold show_tree. destruct (t_chain id t) as [chain|]; [|reflexivity].
      rewrite !sub_ids_t_ids.
      destruct chain as [|w [|p rest]]; try (apply update_ids, keeps_id_vis).
      destruct (show_link w p); [|apply update_ids, keeps_id_vis].
      rewrite (update_ids _ _ (keeps_id_fchild (Some id))). apply update_ids, keeps_id_vis. }
    rewrite E. apply zlist_eqb_refl.
  - apply forallb_forall. intros x Hx. rewrite sub_ids_t_ids in Hx.
    destruct (t_find_some x t Hnd Hx) as [a Ea]. rewrite Ea.
    unfold show_tree, show_fchild_spec.
    destruct (t_chain id t) as [chain|] eqn:Ec.
    + destruct chain as [|w [|p rest]].
      * exfalso. exact (chain_nonempty id t Ec).
      * (* the root: no parent, only the visibility changes *)
        assert (Hp : t_parent_id id t = None) by (unfold t_parent_id; rewrite Ec; reflexivity).
        rewrite Hp.
        destruct (find_update_info (fun j => set_vis j true) id x t a (keeps_id_vis true) Ea)
          as (b & Eb & Ib).
        rewrite Eb, Ib. destruct (x =? id); cbn [set_vis w_focused w_fchild w_vis];
          rewrite ?eqb_reflx, ?fchild_eqb_refl; reflexivity.
      * destruct (chain_parent id t w p rest Hnd Ec) as (Hw & _ & Fp & Fw & Hne & _).
        assert (Hp : t_parent_id id t = Some (t_id p)) by (unfold t_parent_id; rewrite Ec; reflexivity).
        rewrite Hp, Fw.
        destruct (find_update_info (fun j => set_vis j true) id x t a (keeps_id_vis true) Ea)
          as (b & Eb & Ib).
        (* the clause's condition is the model's [link] at the parent *)
        assert (Hspec :
          (if (x =? t_id p) && match w_fchild (t_info a) with None => true | Some _ => false end &&
              ((match w_fchild (t_info w) with Some _ => true | None => false end) || w_focused (t_info w))
           then Some id else w_fchild (t_info a)) =
          if (x =? t_id p) && show_link w p then Some id else w_fchild (t_info a)).
        { destruct (x =? t_id p) eqn:Exp; [|reflexivity].
          apply Z.eqb_eq in Exp. subst x. rewrite Fp in Ea. injection Ea as <-.
          unfold show_link. destruct (w_fchild (t_info p)); reflexivity. }
        rewrite Hspec. clear Hspec.
        destruct (show_link w p).
        -- destruct (find_update_info (fun j => set_fchild j (Some id)) (t_id p) x _ b
                       (keeps_id_fchild (Some id)) Eb) as (b2 & Eb2 & Ib2).
           rewrite Eb2, Ib2, Ib.
           destruct (x =? t_id p); destruct (x =? id);
             cbn [andb set_vis set_fchild w_focused w_fchild w_vis];
             rewrite ?eqb_reflx, ?fchild_eqb_refl; cbn [fchild_eqb]; rewrite ?Z.eqb_refl; reflexivity.
        -- rewrite Eb, Ib, andb_false_r.
           destruct (x =? id); cbn [set_vis w_focused w_fchild w_vis];
             rewrite ?eqb_reflx, ?fchild_eqb_refl; reflexivity.
    + (* not a window of the tree: nothing happens *)
      rewrite Ea, (parent_id_none id t Ec).
      assert (Hxi : (x =? id) = false).
      { apply Z.eqb_neq. intros ->. exact (chain_none_notin id t Ec Hx). }
      rewrite Hxi, !eqb_reflx, fchild_eqb_refl. reflexivity.
Qed.

Theorem show_meets_spec : forall cfg st id,
  ids_unique (r_tree st) ->
  c15_show_checkb id (r_tree st) (r_tree (win_show cfg st id)) = true.
Proof.
  intros cfg st id Hu. rewrite win_show_tree. apply show_tree_meets_spec. exact Hu.
Qed.

(* a window that is not in the tree: the model does nothing and the clause accepts that *)
Corollary show_absent_identity : forall cfg st id,
  ~ In id (t_ids (r_tree st)) -> win_show cfg st id = st.
Proof.
  intros cfg st id Hn. unfold win_show.
  destruct (t_chain id (r_tree st)) as [chain|] eqn:Ec; [|reflexivity].
  exfalso. apply Hn. unfold t_chain in Ec. destruct (t_path id (r_tree st)) as [p|] eqn:Ep; [|discriminate].
  exact (path_in _ _ _ Ep).
Qed.

(* ------------------------------------------------------------------------------------ *)
(* the clause rejects the two seeded behaviours                                          *)

Definition mk (id : Z) (vis focused : bool) (fchild : option Z) : winfo :=
  set_fchild (set_focused (new_info id (mkRect 0 0 4 4) (negb vis) false) focused) fchild.

Definition st_of (t : wtree) : root := set_tree (root_new 10 10) t.

(* 1. the parent (0) already has a focused child (1); the hidden window 2 still carries its
   focused flag (window 1 took the focus while 2 was hidden, which detaches 2 from the chain
   without clearing a flag nobody follows).  Showing 2 must leave the parent's link alone. *)
Definition relink_before : wtree :=
  Node (mk 0 true false (Some 1)) [Node (mk 1 true true None) []; Node (mk 2 false true None) []].
Definition relink_seeded : wtree :=
  Node (mk 0 true false (Some 2)) [Node (mk 1 true true None) []; Node (mk 2 true true None) []].

Example show_refutes_relink :
  ids_unique relink_before /\
  c15_show_checkb 2 relink_before relink_seeded = false /\
  c15_show_checkb 2 relink_before (r_tree (win_show no_defects (st_of relink_before) 2)) = true /\
  w_fchild (t_info (r_tree (win_show no_defects (st_of relink_before) 2))) = Some 1.
Proof.
  split; [|vm_compute; repeat split; reflexivity].
  unfold ids_unique. cbn. repeat constructor; cbn; intuition discriminate.
Qed.

(* 2. container 1 -> intermediate 2 -> focused window 3: the container is not focused itself
   but its link leads to the focused window; it was hidden, so the root's link is None.
   Showing the container must link it into the root again (any non-empty link of the shown
   window counts, not only its own focused flag). *)
Definition one_level_before : wtree :=
  Node (mk 0 true false None)
    [Node (mk 1 false false (Some 2)) [Node (mk 2 true false (Some 3)) [Node (mk 3 true true None) []]]].
Definition one_level_seeded : wtree :=
  Node (mk 0 true false None)
    [Node (mk 1 true false (Some 2)) [Node (mk 2 true false (Some 3)) [Node (mk 3 true true None) []]]].

Example show_refutes_one_level :
  ids_unique one_level_before /\
  c15_show_checkb 1 one_level_before one_level_seeded = false /\
  c15_show_checkb 1 one_level_before (r_tree (win_show no_defects (st_of one_level_before) 1)) = true /\
  w_fchild (t_info (r_tree (win_show no_defects (st_of one_level_before) 1))) = Some 1.
Proof.
  split; [|vm_compute; repeat split; reflexivity].
  unfold ids_unique. cbn. repeat constructor; cbn; intuition discriminate.
Qed.

(* the same two verdicts in every defect configuration (the tree does not depend on it) *)
Corollary show_refutations_all_cfg : forall cfg,
  c15_show_checkb 2 relink_before (r_tree (win_show cfg (st_of relink_before) 2)) = true /\
  c15_show_checkb 1 one_level_before (r_tree (win_show cfg (st_of one_level_before) 1)) = true.
Proof.
  intros cfg. split.
  - exact (show_meets_spec cfg (st_of relink_before) 2 (proj1 show_refutes_relink)).
  - exact (show_meets_spec cfg (st_of one_level_before) 1 (proj1 show_refutes_one_level)).
Qed.
