(* RBTheorems.v -- the statements of property C03 about the MODEL OF THE C (RBDefs), obtained
   from the refinement (RBProofs) and the facts about the specification (RBProps, RBRestore). *)
From Coq Require Import ZArith List Bool Lia.
From Tickit Require Import RectDefs RBDefs RBSpec RBLemmas RBAbsLemmas RBInv RBOpProofs RBProofs RBProps RBRestore.
Import ListNotations.
Local Open Scope Z_scope.

Lemma ashape_abs : forall s, Inv s -> ashape (abs_rb s).
Proof.
  intros s I. split; cbn [abs_rb a_lines a_cols ag].
  - rewrite zlen_map. apply (inv_lines s I).
  - intros y Hy. rewrite (zn_map abs_row (cells s) y [] []) by (rewrite (inv_lines s I); assumption).
    rewrite zlen_abs_row. apply (inv_rows s I y Hy).
Qed.

Lemma arun_sizes : forall ops s, ashape s ->
  ashape (fst (arun s ops)) /\ a_lines (fst (arun s ops)) = a_lines s /\ a_cols (fst (arun s ops)) = a_cols s.
Proof.
  induction ops as [|o ops IH]; intros s H; cbn [arun fst]; [auto|].
  destruct (astep_shape s o H) as (H1 & H2 & H3).
  destruct (astep s o) as [s1 v1]. cbn [fst] in *.
  destruct (IH s1 H1) as (K1 & K2 & K3). destruct (arun s1 ops) as [s2 v2]. cbn [fst] in *.
  split; [assumption|]. split; congruence.
Qed.

(* a program started on a new buffer *)
Theorem program_refines : forall L C ops,
  0 <= L -> 0 <= C ->
  exists s' v, run (rb_new L C) ops = Ok (s', v) /\ Inv s' /\
    abs_rb s' = fst (arun (a_new L C) ops) /\ v = snd (arun (a_new L C) ops).
Proof.
  intros L C ops HL HC. destruct (new_ok L C HL HC) as (I0 & A0).
  destruct (run_refines ops (rb_new L C) I0) as (s' & v & E & I' & Ab & Ev).
  exists s', v. rewrite A0 in *. auto.
Qed.

(* the invariant says in particular that every row is a well-formed tiling by spans *)
Theorem inv_rows_wf : forall s y, Inv s -> 0 <= y < rb_lines s ->
  len (zn (cells s) y []) = rb_cols s /\ WF (zn (cells s) y []).
Proof. intros s y I Hy. destruct (inv_rows s I y Hy) as (H1 & H2 & _). auto. Qed.

Theorem confined : forall s o s' v y x,
  Inv s -> step s o = Ok (s', v) -> is_reset o = false ->
  0 <= y < rb_lines s -> 0 <= x < rb_cols s ->
  cell_inb (clip (aux s)) (y, x) = false \/ am (gcell (ag (abs_rb s)) y x) <> -1 ->
  ac (gcell (ag (abs_rb s')) y x) = ac (gcell (ag (abs_rb s)) y x).
Proof.
  intros s o s' v y x I E Hr Hy Hx Hc.
  destruct (step_refines s o I) as (s1 & v1 & E1 & I1 & Ab & Ev). rewrite E in E1. inversion E1; subst s1 v1.
  rewrite Ab. apply astep_confined; auto.
  - apply ashape_abs; assumption.
  - split; assumption.
Qed.

Theorem step_clip_shrinks : forall s o s' v p,
  Inv s -> step s o = Ok (s', v) -> widens o = false ->
  cell_inb (clip (aux s')) p = true -> cell_inb (clip (aux s)) p = true.
Proof.
  intros s o s' v p I E Hw H.
  destruct (step_refines s o I) as (s1 & v1 & E1 & I1 & Ab & Ev). rewrite E in E1. inversion E1; subst s1 v1.
  apply (astep_clip_shrinks (abs_rb s) o p Hw). rewrite <- Ab. exact H.
Qed.

Theorem run_clip_shrinks : forall s ops s' v p,
  Inv s -> run s ops = Ok (s', v) -> forallb (fun o => negb (widens o)) ops = true ->
  cell_inb (clip (aux s')) p = true -> cell_inb (clip (aux s)) p = true.
Proof.
  intros s ops s' v p I E Hw H.
  destruct (run_refines ops s I) as (s1 & v1 & E1 & I1 & Ab & Ev). rewrite E in E1. inversion E1; subst s1 v1.
  apply (arun_clip_shrinks ops (abs_rb s) p Hw). rewrite <- Ab. exact H.
Qed.

Theorem restore_after_save : forall L C pre ops s0 v0 s2 v2 s3 v3,
  0 <= L -> 0 <= C -> balanced 0 ops = true ->
  run (rb_new L C) pre = Ok (s0, v0) ->
  run s0 (OSave :: ops) = Ok (s2, v2) ->
  step s2 ORestore = Ok (s3, v3) ->
  aux s3 = aux s0 /\
  forall y x, 0 <= y < L -> 0 <= x < C ->
    ac (gcell (ag (abs_rb s3)) y x) = ac (gcell (ag (abs_rb s2)) y x) /\
    am (gcell (ag (abs_rb s3)) y x) = am (gcell (ag (abs_rb s0)) y x).
Proof.
  intros L C pre ops s0 v0 s2 v2 s3 v3 HL HC Hb E0 E2 E3.
  destruct (program_refines L C pre HL HC) as (t0 & w0 & F0 & I0 & Ab0 & _). rewrite E0 in F0. inversion F0; subst t0 w0.
  destruct (run_refines (OSave :: ops) s0 I0) as (t2 & w2 & F2 & I2 & Ab2 & _). rewrite E2 in F2. inversion F2; subst t2 w2.
  destruct (step_refines s2 ORestore I2) as (t3 & w3 & F3 & I3 & Ab3 & _). rewrite E3 in F3. inversion F3; subst t3 w3.
  assert (A0 : ainv (abs_rb s0)).
  { rewrite Ab0. apply arun_ainv. apply ainv_new; assumption. }
  assert (Ab2' : abs_rb s2 = fst (arun (fst (astep (abs_rb s0) OSave)) ops)).
  { rewrite Ab2. cbn [arun]. destruct (astep (abs_rb s0) OSave) as [a1 u1]. cbn [fst].
    destruct (arun a1 ops) as [a2 u2]. reflexivity. }
  destruct (save_restore (abs_rb s0) A0 ops Hb) as (K1 & K2).
  rewrite <- Ab2' in K1, K2. rewrite <- Ab3 in K1, K2.
  split; [exact K1|].
  intros y x Hy Hx. apply K2.
  assert (HL0 : a_lines (abs_rb s0) = L /\ a_cols (abs_rb s0) = C).
  { rewrite Ab0. destruct (arun_sizes pre (a_new L C) (ashape_new L C HL HC)) as (_ & K3 & K4). auto. }
  destruct HL0 as (K3 & K4). split; [rewrite K3|rewrite K4]; assumption.
Qed.

(* cursor-relative operations *)
Theorem cursor_moves : forall s o s' v,
  Inv s -> step s o = Ok (s', v) ->
  let a := aux s in
  let a' := aux s' in
  match o with
  | OSkip n | OErase n => vc_set a = true -> vc_set a' = true /\ vc_line a' = vc_line a /\ vc_col a' = vc_col a + n
  | OSkipTo c | OEraseTo c => vc_set a = true -> vc_set a' = true /\ vc_line a' = vc_line a /\ vc_col a' = c
  | OText t =>
      (vc_set a = true -> text_valid t = true ->
         v = [text_width t] /\ vc_set a' = true /\ vc_line a' = vc_line a /\ vc_col a' = vc_col a + text_width t) /\
      (vc_set a = false \/ text_valid t = false -> v = [-1] /\ abs_rb s' = abs_rb s)
  | OChar cp =>
      (vc_set a = true -> text_valid [cp] = true -> vc_set a' = true /\ vc_line a' = vc_line a /\ vc_col a' = vc_col a + cpw cp)
  | OTextAt _ _ t => (text_valid t = true -> v = [text_width t] /\ a' = a) /\ (text_valid t = false -> v = [-1] /\ abs_rb s' = abs_rb s)
  | _ => True
  end.
Proof.
  intros s o s' v I E.
  destruct (step_refines s o I) as (s1 & v1 & E1 & I1 & Ab & Ev). rewrite E in E1.
  pose proof (cursor_advances (abs_rb s) o) as K. cbv zeta in K.
  rewrite <- Ab, <- Ev in K. injection E1 as Es Ev1. rewrite <- Es, <- Ev1 in K. exact K.
Qed.

(* a non-trivial reachable state: a text span cut by a character next to a masked cell, inside
   a save bracket; it meets the invariant, and balanced inner programs exist *)
Definition nonvac_prog : list rbop :=
  [OTextAt 0 0 [65; 66; 67; 68]; OMask (mkRect 0 1 1 1); OSave; OSetPen (Some (pen_fg 1)); OCharAt 0 2 120].

Example nonvacuous :
  exists s v, run (rb_new 2 6) nonvac_prog = Ok (s, v) /\ Inv s /\ wf_rbb s = true /\
    depth (aux s) = 1 /\ v = [4] /\
    ac (gcell (ag (abs_rb s)) 0 3) = AText pen_empty [65; 66; 67; 68] 3 /\
    balanced 0 [OSavePen; OSetPen None; OEraseAt 0 0 3; ORestore] = true.
Proof.
  destruct (program_refines 2 6 nonvac_prog ltac:(lia) ltac:(lia)) as (s & v & E & I & _).
  exists s, v. split; [exact E|]. split; [exact I|].
  revert E. vm_compute. intros E. inversion E; subst. repeat split; reflexivity.
Qed.
