From Coq Require Extraction.
From Coq Require Import ExtrOcamlBasic.
From Tickit Require Import PenDefs PenSpec.
Extraction "mC19.ml" pen_new c_step observe nondefault_attr is_nonempty is_nondefault
  equiv equiv_attr check_case spec_desc parse_desc.
