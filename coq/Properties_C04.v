(* placeholder until the proofs are in *)
From Tickit Require Import RBDefs RBSpec RBFlushDefs RBFlushSpec.
Example C04_nonvacuous : True.
Proof. exact I. Qed.
