(* Property C04: flushing a render buffer reproduces its content on the terminal exactly once.

   Vocabulary: flush = the model of the (repaired) tickit_renderbuffer_flush_to_term in
   RBFlushDefs.v, producing the list of terminal operations and the buffer afterwards;
   t_run = the terminal those operations act on (after src/mockterm.c); linemask_to_char =
   the glyph table re-translated from src/linechars.inc on every run (Gen_Linechars.v);
   arms_of_boxchar = the arms of the Unicode box-drawing characters (RBGlyphs.v, hand-written
   specification); grid_meets / flush_checkb = the cell-wise expectation of RBFlushSpec.v;
   track = the cursor tracker of RBFlushCols.v (which cells a list of terminal operations
   covers, given that printing advances by text_width, erasech(n, YES) moves to the end of the
   erased range and erasech(n, MAYBE) leaves the cursor at an unknown position); pending = the
   non-skip cells of the buffer in row-major order (RBFlushReach.v).
   This file contains nothing but the property theorems, each closed by [exact <lemma>]. *)
From Coq Require Import ZArith List Bool.
From Tickit Require Import RectDefs RBDefs RBSpec RBAbsLemmas RBInv RBProofs Gen_Linechars RBGlyphs RBGlyphProofs
                           RBFlushDefs RBFlushSpec RBFlushProofs RBProps RBWidth RBFlushCols RBFlushReach.
Import ListNotations.
Local Open Scope Z_scope.

(* Merged line segments appear as the box-drawing character having those arms: for EVERY mask
   1..255 the table's glyph is a box character whose arms point in exactly the directions of
   the mask, and whenever Unicode has a character with exactly the mask's arms and styles, the
   table has that character.  (A complete enumeration of a finite domain, by vm_compute, over
   the table as src/linechars.inc has it NOW.) *)
Theorem C04_glyphs : forall m, 1 <= m <= 255 -> glyph_ok linemask_to_char m.
Proof. exact glyphs_ok. Qed.
Print Assumptions C04_glyphs.

(* Flushing any well-formed buffer never faults (no abort(), no array index outside a row, no
   unbounded loop), and afterwards the buffer is empty -- every cell Skip and unmasked -- with
   all auxiliary state reset (no cursor, no translation, full clip, empty pen, empty stack). *)
Theorem C04_flush_total_and_resets : forall s,
  Inv s -> exists ops, flush s = Ok (ops, reset s) /\ Inv (reset s) /\ abs_rb (reset s) = a_reset (abs_rb s).
Proof. exact flush_total_and_resets. Qed.
Print Assumptions C04_flush_total_and_resets.

(* Column bookkeeping with wide and zero-width characters: a text span of n columns showing a
   valid string from column offs on is flushed as operations that advance the terminal by
   exactly n columns -- whatever mix of width-0, width-1 and width-2 characters the string
   has, and whether or not the span begins or ends in the middle of a double-width character
   (the orphaned half is printed as a blank). *)
Theorem C04_text_columns : forall p s offs n,
  text_valid s = true -> 0 <= offs -> 1 <= n -> offs + n <= text_width s ->
  log_cols (text_emit p s offs n) = n.
Proof. exact text_emit_cols. Qed.
Print Assumptions C04_text_columns.

(* [pending s] is the list of the non-skip cells of the specification's grid, without
   duplicates. *)
Theorem C04_pending : forall s, Inv s ->
  NoDup (pending s) /\
  forall l c, In (l, c) (pending s) <->
              in_grid (abs_rb s) l c /\ ac (gcell (ag (abs_rb s)) l c) <> ASkip.
Proof. exact pending_spec. Qed.
Print Assumptions C04_pending.

(* "Exactly once, each in its own place": wherever the terminal's cursor is before the flush
   (known or unknown), every print and erase the flush issues happens at a known cursor
   position, and the cells these operations cover, in order, are precisely the pending cells
   of the buffer -- each once, each at its own line and column, nothing else (skip cells and
   everything outside the buffer are never written).  Hypothesis acells_ok: every Text cell
   lies within its valid string, every Char cell has width one, every Line mask is in 1..255
   (discharged for reachable buffers in the next theorem). *)
Theorem C04_flush_columns : forall s ops s' cur,
  Inv s -> acells_ok (abs_rb s) -> flush s = Ok (ops, s') ->
  exists cur', track cur ops = Some (pending s, cur').
Proof. exact flush_columns. Qed.
Print Assumptions C04_flush_columns.

(* The oracle's checker for "each in its own place, exactly once" (clause 4 of flush_checkb,
   evaluated on the operations the C implementation sent) is this theorem's statement: on the
   model's own operations it always answers true. *)
Theorem C04_flush_covers : forall s ops s',
  Inv s -> acells_ok (abs_rb s) -> flush s = Ok (ops, s') -> covers_checkb (ag (abs_rb s)) ops = true.
Proof. exact flush_covers. Qed.
Print Assumptions C04_flush_covers.

(* ... for every buffer a drawing program reaches (line styles 1..3). *)
Theorem C04_flush_columns_reachable : forall L C prog s v cur,
  0 <= L -> 0 <= C -> Forall op_ok prog -> run (rb_new L C) prog = Ok (s, v) ->
  exists ops cur', flush s = Ok (ops, reset s) /\ track cur ops = Some (pending s, cur').
Proof. exact flush_columns_reachable. Qed.
Print Assumptions C04_flush_columns_reachable.

(* the content invariant is preserved by every step of the specification *)
Theorem C04_content_invariant : forall A o, op_ok o -> ashape A -> acells_ok A -> acells_ok (fst (astep A o)).
Proof. exact astep_aok. Qed.
Print Assumptions C04_content_invariant.

(* NOT PROVED (full statement; carried by the correspondence check as testing: the exact
   operation log and final grid of the C against this model, and the C's own observations
   against flush_checkb, over all programs of <= 3 ops on 2x6, all 255 masks, every text of a
   width-mix family cut at every column, and random programs):

   C04_flush_full : forall s t0 ops s',
     Inv s -> acells_ok (abs_rb s) ->
     t_lines t0 >= rb_lines s -> t_cols t0 >= rb_cols s -> (cursor of t0 anywhere, pen anything) ->
     flush s = Ok (ops, s') ->
     exists t1, t_run t0 ops = Ok t1 /\
       grid_meets (ag (abs_rb s)) (tg t0) (tg t1) = true.       (* every cell shows its own text
                                                                    with its own pen *)

   What is proved of it above: WHERE everything is written (C04_flush_columns) and that the
   flush is total (C04_flush_total_and_resets).  What is missing is WHAT is written there: the
   simulation of the operations against the mock terminal's grapheme loop (t_print_loop), i.e.
   that printing the slice of a string puts each character's text into the cell of its column
   and that the pen in force is the span's. *)

Example C04_nonvacuous :
  exists s v ops, run (rb_new 1 6) [OTextAt 0 0 [0xff21; 98; 99]; OCharAt 0 0 120; OHLine 0 4 5 2 3] = Ok (s, v) /\
    Inv s /\ flush s = Ok (ops, reset s) /\
    ops = [TGoto 0 0; TSetPen pen_empty; TPrint [120]; TSetPen pen_empty; TPrint [32]; TPrint [98; 99];
           TSetPen pen_empty; TPrint [0x2550; 0x2550]].
Proof. exact RBFlushProofs.nonvacuous. Qed.

Example C04_columns_nonvacuous :
  exists s v ops, run (rb_new 2 6) [OTextAt 0 0 [0xff21; 98; 99]; OCharAt 0 0 120; OEraseAt 1 1 2; OHLine 0 4 5 2 3] = Ok (s, v) /\
    flush s = Ok (ops, reset s) /\
    track None ops = Some ([(0, 0); (0, 1); (0, 2); (0, 3); (0, 4); (0, 5); (1, 1); (1, 2)], None).
Proof. exact columns_nonvacuous. Qed.
