(* Property C04: flushing a render buffer reproduces its content on the terminal exactly once.

   Vocabulary: flush = the model of the (repaired) tickit_renderbuffer_flush_to_term in
   RBFlushDefs.v, producing the list of terminal operations and the buffer afterwards;
   t_run = the terminal those operations act on (after src/mockterm.c); linemask_to_char =
   the glyph table re-translated from src/linechars.inc on every run (Gen_Linechars.v);
   arms_of_boxchar = the arms of the Unicode box-drawing characters (RBGlyphs.v, hand-written
   specification); grid_meets / flush_checkb = the cell-wise expectation of RBFlushSpec.v.
   This file contains nothing but the property theorems, each closed by [exact <lemma>]. *)
From Coq Require Import ZArith List Bool.
From Tickit Require Import RectDefs RBDefs RBSpec RBInv RBProofs Gen_Linechars RBGlyphs RBGlyphProofs
                           RBFlushDefs RBFlushSpec RBFlushProofs.
Import ListNotations.
Local Open Scope Z_scope.

(* Merged line segments appear as the box-drawing character having those arms: for EVERY mask
   1..255 the table's glyph is a box character whose arms point in exactly the directions of
   the mask, and whenever Unicode has a character with exactly the mask's arms and styles, the
   table has that character.  (A complete enumeration of a finite domain, by vm_compute, over
   the table as src/linechars.inc has it NOW.) *)
Theorem C04_glyphs : forall m, 1 <= m <= 255 -> glyph_ok linemask_to_char m.
Proof. exact glyphs_ok. Qed.
Print Assumptions C04_glyphs.

(* Flushing any well-formed buffer never faults (no abort(), no array index outside a row, no
   unbounded loop), and afterwards the buffer is empty -- every cell Skip and unmasked -- with
   all auxiliary state reset (no cursor, no translation, full clip, empty pen, empty stack). *)
Theorem C04_flush_total_and_resets : forall s,
  Inv s -> exists ops, flush s = Ok (ops, reset s) /\ Inv (reset s) /\ abs_rb (reset s) = a_reset (abs_rb s).
Proof. exact flush_total_and_resets. Qed.
Print Assumptions C04_flush_total_and_resets.

(* NOT PROVED (full statement; carried by the correspondence check as testing: the exact
   operation log and final grid of the C against this model, and the C's own observations
   against flush_checkb, over all programs of <= 3 ops on 2x6, all 255 masks, every text of a
   width-mix family cut at every column, and random programs):

   C04_flush_full : forall s t0 ops s',
     Inv s -> (every CChar code point has width 1, every CLine mask is in 1..255, every CText
               span lies within its string's width: invariants of reachable states) ->
     t_lines t0 >= rb_lines s -> t_cols t0 >= rb_cols s -> (cursor of t0 anywhere, pen anything) ->
     flush s = Ok (ops, s') ->
     exists t1, t_run t0 ops = Ok t1 /\
       grid_meets (ag (abs_rb s)) (tg t0) (tg t1) = true /\      (* every cell at its own line and
                                                                    column with its own pen; Skip
                                                                    cells and cells outside the
                                                                    buffer untouched *)
       log_cols ops = pending_cells (ag (abs_rb s)).             (* exactly once *)

   What is missing: (1) the lemma that text_emit prints exactly the span's columns for every
   width mix (lead + width of the slice + trail = n), which needs a characterisation of where
   tickit_utf8_countmore stops; (2) the simulation of flush_line against t_apply with the
   invariant "phycol = the terminal's column, or -1"; (3) the three content invariants above
   carried through the C03 operations. *)

Example C04_nonvacuous :
  exists s v ops, run (rb_new 1 6) [OTextAt 0 0 [0xff21; 98; 99]; OCharAt 0 0 120; OHLine 0 4 5 2 3] = Ok (s, v) /\
    Inv s /\ flush s = Ok (ops, reset s) /\
    ops = [TGoto 0 0; TSetPen pen_empty; TPrint [120]; TSetPen pen_empty; TPrint [32]; TPrint [98; 99];
           TSetPen pen_empty; TPrint [0x2550; 0x2550]].
Proof. exact RBFlushProofs.nonvacuous. Qed.
