(* Property C04: flushing a render buffer reproduces its content on the terminal exactly once.

   Vocabulary: flush = the model of the (repaired) tickit_renderbuffer_flush_to_term in
   RBFlushDefs.v, producing the list of terminal operations and the buffer afterwards;
   t_run = the terminal those operations act on (after src/mockterm.c); linemask_to_char =
   the glyph table re-translated from src/linechars.inc on every run (Gen_Linechars.v);
   arms_of_boxchar = the arms of the Unicode box-drawing characters (RBGlyphs.v, hand-written
   specification); grid_meets / flush_checkb = the cell-wise expectation of RBFlushSpec.v;
   track = the cursor tracker of RBFlushCols.v (which cells a list of terminal operations
   covers, given that printing advances by text_width, erasech(n, YES) moves to the end of the
   erased range and erasech(n, MAYBE) leaves the cursor at an unknown position); pending = the
   non-skip cells of the buffer in row-major order (RBFlushReach.v); tcellat t y x = the cell
   of terminal t at line y, column x; term_ok = the terminal's grid has t_lines rows of t_cols
   cells; over c d = what a terminal cell shows when buffer cell c is flushed over it (d itself
   for a Skip cell); narrow u = every code point of u has width one; lay u = the layout of a
   string by the terminal's grapheme rule (RBTermSim.v: a base character with the zero-width
   characters following it in the cell of its first column, an empty continuation cell for the
   second column of a double-width character); shows c old new = what the terminal cell must be
   under buffer cell c (RBFlushShown.v).
   This file contains nothing but the property theorems, each closed by [exact <lemma>]. *)
From Coq Require Import ZArith List Bool.
From Tickit Require Import RectDefs RBDefs RBSpec RBAbsLemmas RBInv RBProofs Gen_Linechars RBGlyphs RBGlyphProofs
                           RBFlushDefs RBFlushSpec RBFlushProofs RBProps RBWidth RBFlushCols RBFlushReach RBTermSim RBFlushShown RBFlushGrid RBFlushFull RBFlushPayload RBCopySpec RBCopyContent.
Import ListNotations.
Local Open Scope Z_scope.

(* Merged line segments appear as the box-drawing character having those arms: for EVERY mask
   1..255 the table's glyph is a box character whose arms point in exactly the directions of
   the mask, and whenever Unicode has a character with exactly the mask's arms and styles, the
   table has that character.  (A complete enumeration of a finite domain, by vm_compute, over
   the table as src/linechars.inc has it NOW.) *)
Theorem C04_glyphs : forall m, 1 <= m <= 255 -> glyph_ok linemask_to_char m.
Proof. exact glyphs_ok. Qed.
Print Assumptions C04_glyphs.

(* Flushing any well-formed buffer never faults (no abort(), no array index outside a row, no
   unbounded loop), and afterwards the buffer is empty -- every cell Skip and unmasked -- with
   all auxiliary state reset (no cursor, no translation, full clip, empty pen, empty stack). *)
Theorem C04_flush_total_and_resets : forall s,
  Inv s -> exists ops, flush s = Ok (ops, reset s) /\ Inv (reset s) /\ abs_rb (reset s) = a_reset (abs_rb s).
Proof. exact flush_total_and_resets. Qed.
Print Assumptions C04_flush_total_and_resets.

(* Column bookkeeping with wide and zero-width characters: a text span of n columns showing a
   valid string from column offs on is flushed as operations that advance the terminal by
   exactly n columns -- whatever mix of width-0, width-1 and width-2 characters the string
   has, and whether or not the span begins or ends in the middle of a double-width character
   (the orphaned half is printed as a blank). *)
Theorem C04_text_columns : forall p s offs n,
  text_valid s = true -> 0 <= offs -> 1 <= n -> offs + n <= text_width s ->
  log_cols (text_emit p s offs n) = n.
Proof. exact text_emit_cols. Qed.
Print Assumptions C04_text_columns.

(* [pending s] is the list of the non-skip cells of the specification's grid, without
   duplicates. *)
Theorem C04_pending : forall s, Inv s ->
  NoDup (pending s) /\
  forall l c, In (l, c) (pending s) <->
              in_grid (abs_rb s) l c /\ ac (gcell (ag (abs_rb s)) l c) <> ASkip.
Proof. exact pending_spec. Qed.
Print Assumptions C04_pending.

(* "Exactly once, each in its own place": wherever the terminal's cursor is before the flush
   (known or unknown), every print and erase the flush issues happens at a known cursor
   position, and the cells these operations cover, in order, are precisely the pending cells
   of the buffer -- each once, each at its own line and column, nothing else (skip cells and
   everything outside the buffer are never written).  Hypothesis acells_ok: every Text cell
   lies within its valid string, every Char cell has width one, every Line mask is in 1..255
   (discharged for reachable buffers in the next theorem). *)
Theorem C04_flush_columns : forall s ops s' cur,
  Inv s -> acells_ok (abs_rb s) -> flush s = Ok (ops, s') ->
  exists cur', track cur ops = Some (pending s, cur').
Proof. exact flush_columns. Qed.
Print Assumptions C04_flush_columns.

(* The oracle's checker for "each in its own place, exactly once" (clause 4 of flush_checkb,
   evaluated on the operations the C implementation sent) is this theorem's statement: on the
   model's own operations it always answers true. *)
Theorem C04_flush_covers : forall s ops s',
  Inv s -> acells_ok (abs_rb s) -> flush s = Ok (ops, s') -> covers_checkb (ag (abs_rb s)) ops = true.
Proof. exact flush_covers. Qed.
Print Assumptions C04_flush_covers.

(* ... for every buffer a drawing program reaches (line styles 1..3). *)
Theorem C04_flush_columns_reachable : forall L C prog s v cur,
  0 <= L -> 0 <= C -> Forall op_ok prog -> run (rb_new L C) prog = Ok (s, v) ->
  exists ops cur', flush s = Ok (ops, reset s) /\ track cur ops = Some (pending s, cur').
Proof. exact flush_columns_reachable. Qed.
Print Assumptions C04_flush_columns_reachable.

(* the content invariant is preserved by every step of the specification *)
Theorem C04_content_invariant : forall A o, op_ok o -> ashape A -> acells_ok A -> acells_ok (fst (astep A o)).
Proof. exact astep_aok. Qed.
Print Assumptions C04_content_invariant.

(* ... and by the specification of copyrect / moverect / blit (property C13), so the flush
   theorems below apply to buffers built with them as well. *)
Theorem C04_content_invariant_copyrect : forall s dr sr, ashape s -> acells_ok s -> acells_ok (a_copyrect s dr sr).
Proof. exact a_copyrect_aok. Qed.
Print Assumptions C04_content_invariant_copyrect.
Theorem C04_content_invariant_moverect : forall s dr sr, ashape s -> acells_ok s -> acells_ok (a_moverect s dr sr).
Proof. exact a_moverect_aok. Qed.
Print Assumptions C04_content_invariant_moverect.
Theorem C04_content_invariant_blit : forall dst src,
  ashape dst -> acells_ok dst -> ashape src -> acells_ok src -> acells_ok (a_blit dst src).
Proof. exact a_blit_aok. Qed.
Print Assumptions C04_content_invariant_blit.

(* The terminal model executes any list of operations exactly as the grid-free description
   [paint] says (goto within the terminal; prints of valid strings beginning with a base
   character that fit, laid out by [lay]; erases that fit): no fault, and every cell is the last
   thing written to it, or what it was. *)
Theorem C04_terminal_executes : forall ops t cur w cur' pen',
  term_ok t -> cur_match t cur ->
  paint (t_lines t) (t_cols t) cur (t_cur t) ops = Some (w, cur', pen') ->
  exists t', t_run t ops = Ok t' /\ term_ok t' /\ same_frame t t' /\ t_cur t' = pen' /\ cur_match t' cur' /\
    forall y x, 0 <= y < t_lines t -> 0 <= x < t_cols t -> tcellat t' y x = look w (y, x) (tcellat t y x).
Proof. exact t_run_paint. Qed.
Print Assumptions C04_terminal_executes.

(* The mock terminal's grapheme loop (mtd_print) lays a valid string that begins with a base
   character out as [lay] says, advancing by exactly the string's width. *)
Theorem C04_print_layout : forall u t,
  valid u -> starts_base u -> term_ok t -> 0 <= t_line t < t_lines t -> 0 <= t_col t -> t_col t + tw u <= t_cols t ->
  exists t', t_apply t (TPrint u) = Ok t' /\
    term_ok t' /\ same_frame t t' /\ t_cur t' = t_cur t /\ t_line t' = t_line t /\ t_col t' = t_col t + tw u /\
    forall y x, 0 <= y < t_lines t -> 0 <= x < t_cols t ->
      tcellat t' y x = if (y =? t_line t) && (t_col t <=? x) && (x <? t_col t + tw u)
                       then mkT (nth (Z.to_nat (x - t_col t)) (lay u) []) (t_cur t) else tcellat t y x.
Proof. exact print_lay. Qed.
Print Assumptions C04_print_layout.

(* THE PROPERTY, for EVERY buffer (any mix of character widths): flushing onto ANY terminal at
   least as large as the buffer -- whatever its content, cursor and pen, and whether or not its
   erasech(MAYBE) moves the cursor -- the terminal executes the emitted operations without
   fault, and afterwards
     - every terminal cell outside the buffer or under a Skip cell is what it was;
     - under an Erase / Line / Char cell it shows a blank / the table's glyph / the code point,
       in that cell's pen;
     - under a Text cell it carries the text's pen, and, if the text consists of width-one
       characters, shows the text's own character for that column.
   (What a Text cell of a string with double-width or zero-width characters shows is determined
   exactly by C04_flush_shown below, in terms of the span, and shown to be what the
   specification's expect_cell accepts in C04_flush_full.) *)
Theorem C04_flush_grid_all : forall s t0 ops s',
  Inv s -> acells_ok (abs_rb s) ->
  term_ok t0 -> rb_lines s <= t_lines t0 -> rb_cols s <= t_cols t0 ->
  flush s = Ok (ops, s') ->
  exists t1, t_run t0 ops = Ok t1 /\ term_ok t1 /\ same_frame t0 t1 /\
    forall y x, 0 <= y < t_lines t0 -> 0 <= x < t_cols t0 ->
      if (y <? rb_lines s) && (x <? rb_cols s)
      then shows (ac (gcell (ag (abs_rb s)) y x)) (tcellat t0 y x) (tcellat t1 y x)
      else tcellat t1 y x = tcellat t0 y x.
Proof. exact flush_grid_shows. Qed.
Print Assumptions C04_flush_grid_all.

(* ... exactly, span by span: the cells under a text span show the layout (by the terminal's
   grapheme rule) of the visible slice of the string, with a blank for each orphaned half of a
   double-width character ([shown], [span_out]). *)
Theorem C04_flush_shown : forall s t0 ops s',
  Inv s -> acells_ok (abs_rb s) ->
  term_ok t0 -> rb_lines s <= t_lines t0 -> rb_cols s <= t_cols t0 ->
  flush s = Ok (ops, s') ->
  exists t1, t_run t0 ops = Ok t1 /\ term_ok t1 /\ same_frame t0 t1 /\
    forall y x, 0 <= y < t_lines t0 -> 0 <= x < t_cols t0 ->
      tcellat t1 y x =
      if (y <? rb_lines s) && (x <? rb_cols s)
      then shown (zn (cells s) y []) x (tcellat t0 y x)
      else tcellat t0 y x.
Proof. exact flush_grid_shown. Qed.
Print Assumptions C04_flush_shown.

(* ... for every buffer a drawing program reaches (line styles 1..3), against the specification's
   grid of C03. *)
Theorem C04_flush_grid_all_reachable : forall L C prog s v t0,
  0 <= L -> 0 <= C -> Forall op_ok prog -> run (rb_new L C) prog = Ok (s, v) ->
  term_ok t0 -> L <= t_lines t0 -> C <= t_cols t0 ->
  exists ops t1, flush s = Ok (ops, reset s) /\ t_run t0 ops = Ok t1 /\ term_ok t1 /\ same_frame t0 t1 /\
    forall y x, 0 <= y < t_lines t0 -> 0 <= x < t_cols t0 ->
      if (y <? L) && (x <? C)
      then shows (ac (gcell (ag (fst (arun (a_new L C) prog))) y x)) (tcellat t0 y x) (tcellat t1 y x)
      else tcellat t1 y x = tcellat t0 y x.
Proof. exact flush_grid_reachable. Qed.
Print Assumptions C04_flush_grid_all_reachable.

(* As one equation, for buffers whose texts consist of width-one characters (ASCII, Latin-1, box
   drawing ...): flushing onto ANY terminal at least as large as the buffer -- whatever its
   content, cursor and pen, and whether or not its erasech(MAYBE) moves the cursor -- the
   terminal executes the emitted operations without fault, and afterwards every terminal cell
   under a pending buffer cell shows that cell's content (the text's own character for that
   column, a blank for Erase, the code point for Char, the table's glyph for Line) in that
   cell's pen, and EVERY other cell of the terminal is what it was. *)
Theorem C04_flush_grid : forall s t0 ops s',
  Inv s -> acells_ok (abs_rb s) -> anarrow (abs_rb s) ->
  term_ok t0 -> rb_lines s <= t_lines t0 -> rb_cols s <= t_cols t0 ->
  flush s = Ok (ops, s') ->
  exists t1, t_run t0 ops = Ok t1 /\ term_ok t1 /\ same_frame t0 t1 /\
    forall y x, 0 <= y < t_lines t0 -> 0 <= x < t_cols t0 ->
      tcellat t1 y x =
      if (y <? rb_lines s) && (x <? rb_cols s)
      then over (ac (gcell (ag (abs_rb s)) y x)) (tcellat t0 y x)
      else tcellat t0 y x.
Proof. exact flush_grid_narrow. Qed.
Print Assumptions C04_flush_grid.

(* ... for every buffer reached by a drawing program (line styles 1..3, texts and characters of
   width one), stated against the specification's grid of C03. *)
Theorem C04_flush_grid_reachable : forall L C prog s v t0,
  0 <= L -> 0 <= C -> Forall op_ok prog -> Forall op_narrow prog -> run (rb_new L C) prog = Ok (s, v) ->
  term_ok t0 -> L <= t_lines t0 -> C <= t_cols t0 ->
  exists ops t1, flush s = Ok (ops, reset s) /\ t_run t0 ops = Ok t1 /\ term_ok t1 /\ same_frame t0 t1 /\
    forall y x, 0 <= y < t_lines t0 -> 0 <= x < t_cols t0 ->
      tcellat t1 y x =
      if (y <? L) && (x <? C)
      then over (ac (gcell (ag (fst (arun (a_new L C) prog))) y x)) (tcellat t0 y x)
      else tcellat t0 y x.
Proof. exact flush_grid_narrow_reachable. Qed.
Print Assumptions C04_flush_grid_reachable.

(* Clause 5 of the oracle's flush_checkb (overlay_checkb, evaluated on the grid the C
   implementation left) is the statement of C04_flush_grid. *)
Theorem C04_flush_overlay : forall s t0 ops s',
  Inv s -> acells_ok (abs_rb s) -> anarrow (abs_rb s) ->
  term_ok t0 -> rb_lines s <= t_lines t0 -> rb_cols s <= t_cols t0 ->
  flush s = Ok (ops, s') ->
  exists t1, t_run t0 ops = Ok t1 /\ overlay_checkb (ag (abs_rb s)) (tg t0) (tg t1) = true.
Proof. exact flush_overlay. Qed.
Print Assumptions C04_flush_overlay.

(* A text cell against the specification's grapheme arithmetic, for any mix of widths: with a =
   the start of the grapheme covering the cell's string column, b = its end, w = its width, the
   cell shows the whole grapheme if w = 1; for a double-width grapheme its first column shows the
   grapheme or a blank, its second column nothing or a blank (a blank exactly when the other half
   lies outside the span; the grapheme itself only when it lies wholly inside the span). *)
Theorem C04_text_cell : forall p s offs n d j,
  text_valid s = true -> 0 <= offs -> 1 <= n -> offs + n <= text_width s -> 0 <= j < n ->
  let col := offs + j in
  let T := t_text (nth (Z.to_nat j) (span_out (CText p s offs) n) d) in
  let a := slice_start s col in
  let b := count_on s a (sp_gr a + 1) (-1) in
  let c0 := sp_col a in
  let w := sp_col b - c0 in
  c0 <= col < c0 + w /\
  (w = 1 -> T = slice s a b) /\
  (w <> 1 -> col = c0 -> (T = slice s a b /\ offs <= c0 /\ c0 + w <= offs + n) \/ T = [32]) /\
  (w <> 1 -> col <> c0 -> (T = [] /\ offs <= c0 /\ c0 + w <= offs + n) \/ T = [32]).
Proof. exact text_cell_ok. Qed.
Print Assumptions C04_text_cell.

(* THE PROPERTY IN FULL: flushing any buffer onto any terminal at least as large -- whatever the
   terminal's content, cursor and pen, whether or not its erasech(MAYBE) moves the cursor, and
   whatever mix of zero-width, single-width and double-width characters the texts have -- the
   terminal executes the emitted operations without fault and the grid it ends with meets the
   specification's cell-wise expectation (grid_meets, RBFlushSpec.v: Skip cells and everything
   outside the buffer untouched; Erase a blank, Line the table's glyph, Char the code point, Text
   the grapheme covering the column -- each in its own cell, in its own pen).  grid_meets is
   clause 2 of the oracle's flush_checkb, evaluated there on the grid the C implementation left. *)
Theorem C04_flush_full : forall s t0 ops s',
  Inv s -> acells_ok (abs_rb s) ->
  term_ok t0 -> rb_lines s <= t_lines t0 -> rb_cols s <= t_cols t0 ->
  flush s = Ok (ops, s') ->
  exists t1, t_run t0 ops = Ok t1 /\ grid_meets (ag (abs_rb s)) (tg t0) (tg t1) = true.
Proof. exact flush_full. Qed.
Print Assumptions C04_flush_full.

(* ... for every buffer a drawing program reaches (line styles 1..3), against the specification's
   grid of C03: drawing, then flushing, shows on the terminal what the specification says was
   drawn. *)
Theorem C04_flush_full_reachable : forall L C prog s v t0,
  0 <= L -> 0 <= C -> Forall op_ok prog -> run (rb_new L C) prog = Ok (s, v) ->
  term_ok t0 -> L <= t_lines t0 -> C <= t_cols t0 ->
  exists ops t1, flush s = Ok (ops, reset s) /\ t_run t0 ops = Ok t1 /\
    grid_meets (ag (fst (arun (a_new L C) prog))) (tg t0) (tg t1) = true.
Proof. exact flush_full_reachable. Qed.
Print Assumptions C04_flush_full_reachable.

(* The byte-stream side (a terminal driven through the xterm driver): the printable text a flush
   sends (xterm_payload, after erasech of src/termdriver-xterm.c: the code points of all prints in
   order, and blanks instead of ECH for an erase under a reverse-video pen; pn = the pen the
   terminal had before) is the sequence of the expected cell texts of the buffer in row-major
   order: every visible grapheme once, nothing for Skip cells and for Erase cells sent as ECH, a
   blank per Erase cell in reverse video, a blank or nothing for a half-visible double-width
   character.  In particular the hidden part of a string is never sent.
   payload_checkb is the checker the oracle evaluates on the bytes the C sent through the xterm
   driver (`flx`). *)
Theorem C04_flush_payload : forall s ops s' pn,
  Inv s -> acells_ok (abs_rb s) -> flush s = Ok (ops, s') ->
  payload_checkb (abs_rb s) (xterm_payload pn ops) = true.
Proof. exact flush_payload. Qed.
Print Assumptions C04_flush_payload.

Theorem C04_flush_payload_reachable : forall L C prog s v pn,
  0 <= L -> 0 <= C -> Forall op_ok prog -> run (rb_new L C) prog = Ok (s, v) ->
  exists ops, flush s = Ok (ops, reset s) /\
    payload_checkb (fst (arun (a_new L C) prog)) (xterm_payload pn ops) = true.
Proof. exact flush_payload_reachable. Qed.
Print Assumptions C04_flush_payload_reachable.

Example C04_nonvacuous :
  exists s v ops, run (rb_new 1 6) [OTextAt 0 0 [0xff21; 98; 99]; OCharAt 0 0 120; OHLine 0 4 5 2 3] = Ok (s, v) /\
    Inv s /\ flush s = Ok (ops, reset s) /\
    ops = [TGoto 0 0; TSetPen pen_empty; TPrint [120]; TSetPen pen_empty; TPrint [32]; TPrint [98; 99];
           TSetPen pen_empty; TPrint [0x2550; 0x2550]].
Proof. exact RBFlushProofs.nonvacuous. Qed.

Example C04_columns_nonvacuous :
  exists s v ops, run (rb_new 2 6) [OTextAt 0 0 [0xff21; 98; 99]; OCharAt 0 0 120; OEraseAt 1 1 2; OHLine 0 4 5 2 3] = Ok (s, v) /\
    flush s = Ok (ops, reset s) /\
    track None ops = Some ([(0, 0); (0, 1); (0, 2); (0, 3); (0, 4); (0, 5); (1, 1); (1, 2)], None).
Proof. exact columns_nonvacuous. Qed.
