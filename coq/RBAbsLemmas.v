(* RBAbsLemmas.v -- pointwise reasoning about grids: list extensionality through nth, the cell
   of a mapi-built grid, the cell of the abstraction of a concrete grid. *)
From Coq Require Import ZArith List Bool Lia.
From Tickit Require Import RectDefs RBDefs RBSpec RBLemmas.
Import ListNotations.
Local Open Scope Z_scope.

Definition zlen {A} (l : list A) : Z := Z.of_nat (length l).
Definition zn {A} (l : list A) (i : Z) (d : A) : A := nth (Z.to_nat i) l d.

Lemma zlen_nonneg : forall {A} (l : list A), 0 <= zlen l.
Proof. intros. unfold zlen. lia. Qed.

Lemma list_ext_zn : forall {A} (a b : list A) (d : A),
  zlen a = zlen b -> (forall i, 0 <= i < zlen a -> zn a i d = zn b i d) -> a = b.
Proof.
  intros A a b d HL H. unfold zlen in *. apply (nth_ext a b d d); [lia|].
  intros k Hk. specialize (H (Z.of_nat k) ltac:(lia)). unfold zn in H. now rewrite Nat2Z.id in H.
Qed.

Lemma zlen_mapi : forall {A B} (f : Z -> A -> B) l, zlen (mapi f l) = zlen l.
Proof. intros. unfold zlen. now rewrite mapi_length. Qed.

Lemma zn_mapi : forall {A B} (f : Z -> A -> B) l i d d',
  0 <= i < zlen l -> zn (mapi f l) i d' = f i (zn l i d).
Proof.
  intros A B f l i d d' Hi. unfold zn, zlen in *.
  rewrite (nth_mapi f l (Z.to_nat i) d d') by lia. now rewrite Z2Nat.id by lia.
Qed.

Lemma zlen_map : forall {A B} (f : A -> B) l, zlen (map f l) = zlen l.
Proof. intros. unfold zlen. now rewrite map_length. Qed.

Lemma zn_map : forall {A B} (f : A -> B) l i d d',
  0 <= i < zlen l -> zn (map f l) i d' = f (zn l i d).
Proof.
  intros A B f l i d d' Hi. unfold zn, zlen in *.
  rewrite (nth_indep (map f l) d' (f d)) by (rewrite map_length; lia).
  apply map_nth.
Qed.

Lemma zlen_repeat : forall {A} (x : A) n, zlen (repeat x n) = Z.of_nat n.
Proof. intros. unfold zlen. now rewrite repeat_length. Qed.

Lemma zn_repeat : forall {A} (x : A) n i d, 0 <= i < Z.of_nat n -> zn (repeat x n) i d = x.
Proof.
  intros A x n i d Hi. unfold zn.
  assert (H : In (nth (Z.to_nat i) (repeat x n) d) (repeat x n)).
  { apply nth_In. rewrite repeat_length. lia. }
  now apply repeat_spec in H.
Qed.

Lemma len_zlen : forall r : row, len r = zlen r.
Proof. reflexivity. Qed.

Lemma get_zn : forall (r : row) i, get r i = zn r i dcell.
Proof. reflexivity. Qed.

(* grids are compared cell by cell *)
Definition dacell : acell := mkA ASkip (-1).
Definition gcell (g : agrid) (y x : Z) : acell := zn (zn g y []) x dacell.

Lemma agrid_ext : forall a b : agrid,
  zlen a = zlen b ->
  (forall y, 0 <= y < zlen a -> zlen (zn a y []) = zlen (zn b y [])) ->
  (forall y x, 0 <= y < zlen a -> 0 <= x < zlen (zn a y []) -> gcell a y x = gcell b y x) ->
  a = b.
Proof.
  intros a b HL HR HC. apply (list_ext_zn a b []); [assumption|].
  intros y Hy. apply (list_ext_zn _ _ dacell); [apply HR; assumption|].
  intros x Hx. apply HC; assumption.
Qed.

(* the abstraction of a concrete row / grid, pointwise *)
Lemma zlen_abs_row : forall r, zlen (abs_row r) = len r.
Proof. intros. unfold abs_row. now rewrite zlen_mapi. Qed.

Lemma zn_abs_row : forall r x d, 0 <= x < len r -> zn (abs_row r) x d = mkA (abs_cell r x) (cmask (get r x)).
Proof. intros r x d Hx. unfold abs_row. rewrite (zn_mapi _ r x dcell d) by assumption. reflexivity. Qed.

(* ext for abs_row: same length, same abstract cells, same masks *)
Lemma abs_row_ext : forall r (l : list acell),
  zlen l = len r ->
  (forall x, 0 <= x < len r -> zn l x dacell = mkA (abs_cell r x) (cmask (get r x))) ->
  abs_row r = l.
Proof.
  intros r l HL H. apply (list_ext_zn _ _ dacell).
  - now rewrite zlen_abs_row.
  - intros x Hx. rewrite zlen_abs_row in Hx. rewrite zn_abs_row by assumption. symmetry. now apply H.
Qed.
