(* Utf8Defs.v -- executable model of the library's src/utf8.c and of the width functions of
   src/unicode.h, written function by function after the C.  Definitions only.

   Conventions
   * A byte is a Z in 0..255 (`unsigned char`); `int`, `long`, `uint32_t` are unbounded Z (no
     overflow: a decoded value is below 2^21).  `size_t len` with the sentinel (size_t)-1 is
     [option Z] with [None] = (size_t)-1 ("no length: NUL-terminated").
   * A `const char *` into a buffer is modelled by the list of bytes from the pointer up to
     the END OF THE PERMITTED REGION: `p + k` is [skipn k p], `p[i]` is [rd p i] =
     [nth_error p i], and a read outside the permitted bytes yields [None], which every
     function turns into its Fault result ([NFault] / [LFault] / [CFault]).  So "never reads
     past the terminator / the given length" is: the result is not Fault on a buffer that
     ENDS there.
   * Loops whose termination is not structural take fuel; exhaustion is the distinguished
     result [None] / [LFuel] / [CFuel], never a normal-looking value. *)
From Coq Require Import ZArith List Bool.
From Tickit Require Import Gen_Width.
Import ListNotations.
Local Open Scope Z_scope.

(* ------------------------------------------------------------------ memory, size_t *)

Definition rd (p : list Z) (i : nat) : option Z := nth_error p i.
Definition padd (p : list Z) (k : Z) : list Z := skipn (Z.to_nat k) p.

Definition len_is0 (len : option Z) : bool :=
  match len with Some l => l =? 0 | None => false end.
Definition len_lt (len : option Z) (n : Z) : bool :=            (* len < n, len unsigned *)
  match len with Some l => l <? n | None => false end.
Definition len_sub (len : option Z) (n : Z) : option Z :=       (* if(len != -1) len -= n *)
  match len with Some l => Some (l - n) | None => None end.

(* ------------------------------------------------------------------ next_utf8 *)

Inductive nxt := NFault | NErr | NOk (nbytes cp : Z).          (* NErr = return -1 *)

(* for(int i = 1; i < nbytes; i++) { b0 = (str++)[0]; if(!b0) return -1;
                                     *cp <<= 6; *cp |= b0 & 0x3f; }
   [i] is the index of the next byte to read, [todo] = nbytes - i.  NB: no test that the
   byte is 10xxxxxx -- as in the C. *)
Fixpoint next_cont (str : list Z) (nbytes : Z) (i todo : nat) (cp : Z) : nxt :=
  match todo with
  | O => NOk nbytes cp
  | S todo' =>
      match rd str i with
      | None => NFault
      | Some b0 =>
          if b0 =? 0 then NErr
          else next_cont str nbytes (S i) todo' (Z.lor (Z.shiftl cp 6) (Z.land b0 0x3f))
      end
  end.

Definition next_utf8 (str : list Z) (len : option Z) : nxt :=
  match rd str 0 with                    (* unsigned char b0 = (str++)[0];  read BEFORE !len *)
  | None => NFault
  | Some b0 =>
      if len_is0 len then NErr else
      if b0 =? 0 then NErr
      else if b0 <? 0x80 then NOk 1 b0
      else if b0 <? 0xc0 then NErr
      else
        let hdr := if b0 <? 0xe0 then Some (2, Z.land b0 0x1f)
                   else if b0 <? 0xf0 then Some (3, Z.land b0 0x0f)
                   else if b0 <? 0xf8 then Some (4, Z.land b0 0x07)
                   else None in
        match hdr with
        | None => NErr
        | Some (nbytes, cp) =>
            if len_lt len nbytes then NErr
            else next_cont str nbytes 1 (Z.to_nat (nbytes - 1)) cp
        end
  end.

(* ------------------------------------------------------------------ seqlen, put *)

Definition u8_seqlen (cp : Z) : Z :=
  if cp <? 0x0000080 then 1 else
  if cp <? 0x0000800 then 2 else
  if cp <? 0x0010000 then 3 else
  if cp <? 0x0200000 then 4 else
  if cp <? 0x4000000 then 5 else 6.

(* while(b > 1) { b--; str[b] = 0x80 | (codepoint & 0x3f); codepoint >>= 6; }
   [k] = b - 1 continuation bytes still to write; [acc] = str[b..nbytes-1] *)
Fixpoint put_tail (k : nat) (cp : Z) (acc : list Z) : Z * list Z :=
  match k with
  | O => (cp, acc)
  | S k' => put_tail k' (Z.shiftr cp 6) (Z.lor 0x80 (Z.land cp 0x3f) :: acc)
  end.

Definition put_lead (nbytes cp : Z) : Z :=
  if nbytes =? 1 then Z.land cp 0x7f
  else if nbytes =? 2 then Z.lor 0xc0 (Z.land cp 0x1f)
  else if nbytes =? 3 then Z.lor 0xe0 (Z.land cp 0x0f)
  else if nbytes =? 4 then Z.lor 0xf0 (Z.land cp 0x07)
  else if nbytes =? 5 then Z.lor 0xf8 (Z.land cp 0x03)
  else Z.lor 0xfc (Z.land cp 0x01).

(* the bytes tickit_utf8_put stores at str[0..nbytes-1] when it stores anything *)
Definition put_bytes (cp : Z) : list Z :=
  let nbytes := u8_seqlen cp in
  let '(cp', tail) := put_tail (Z.to_nat (nbytes - 1)) cp [] in
  put_lead nbytes cp' :: tail.

(* tickit_utf8_put: (return value, bytes written or None when the buffer is untouched) *)
Definition u8_put (str_is_null : bool) (len cp : Z) : Z * option (list Z) :=
  let nbytes := u8_seqlen cp in
  if str_is_null then (nbytes, None)
  else if len <? nbytes then (-1, None)
  else (nbytes, Some (put_bytes cp)).

(* ------------------------------------------------------------------ unicode.h *)

(* while (max >= min) { mid = (min+max)/2; ... }   None = fuel exhausted or table index
   outside the table *)
Fixpoint bisearch_loop (fuel : nat) (ucs : Z) (table : list (Z * Z)) (min max : Z) : option bool :=
  match fuel with
  | O => None
  | S fuel' =>
      if max >=? min then
        let mid := (min + max) / 2 in
        match nth_error table (Z.to_nat mid) with
        | None => None
        | Some (first, last) =>
            if ucs >? last then bisearch_loop fuel' ucs table (mid + 1) max
            else if ucs <? first then bisearch_loop fuel' ucs table min (mid - 1)
            else Some true
        end
      else Some false
  end.

Definition bisearch (ucs : Z) (table : list (Z * Z)) (max : Z) : option bool :=
  match nth_error table 0, nth_error table (Z.to_nat max) with
  | Some (first0, _), Some (_, lastmax) =>
      if (ucs <? first0) || (ucs >? lastmax) then Some false
      else bisearch_loop (S (length table)) ucs table 0 max
  | _, _ => None
  end.

(* sizeof(t) / sizeof(t[0]) - 1 *)
Definition tbl_max (t : list (Z * Z)) : Z := Z.of_nat (length t) - 1.

Definition mk_wide_ranges (ucs : Z) : bool :=
  (ucs >=? 0x1100) &&
  ((ucs <=? 0x115f) ||
   (ucs =? 0x2329) || (ucs =? 0x232a) ||
   ((ucs >=? 0x2e80) && (ucs <=? 0xa4cf) && negb (ucs =? 0x303f)) ||
   ((ucs >=? 0xac00) && (ucs <=? 0xd7a3)) ||
   ((ucs >=? 0xf900) && (ucs <=? 0xfaff)) ||
   ((ucs >=? 0xfe10) && (ucs <=? 0xfe19)) ||
   ((ucs >=? 0xfe30) && (ucs <=? 0xfe6f)) ||
   ((ucs >=? 0xff00) && (ucs <=? 0xff60)) ||
   ((ucs >=? 0xffe0) && (ucs <=? 0xffe6)) ||
   ((ucs >=? 0x20000) && (ucs <=? 0x2fffd)) ||
   ((ucs >=? 0x30000) && (ucs <=? 0x3fffd))).

Definition mk_wcwidth (ucs : Z) : option Z :=
  if ucs =? 0 then Some 0 else
  if (ucs <? 32) || ((ucs >=? 0x7f) && (ucs <? 0xa0)) then Some (-1) else
  match bisearch ucs combining (tbl_max combining) with
  | None => None
  | Some true => Some 0
  | Some false => Some (1 + (if mk_wide_ranges ucs then 1 else 0))
  end.

Definition u8_wcwidth (cp : Z) : option Z :=
  match bisearch cp fullwidth (tbl_max fullwidth) with
  | None => None
  | Some true => Some 2
  | Some false => mk_wcwidth cp
  end.

(* ------------------------------------------------------------------ TickitStringPos *)

Record spos := mkPos { p_bytes : Z; p_cps : Z; p_graphs : Z; p_cols : Z }.
Definition pos_zero : spos := mkPos 0 0 0 0.

(* `limit && limit->F != -1 && v > limit->F`; the limit pointer may be NULL = None *)
Definition lim_exceeds (limit : option spos) (field : spos -> Z) (v : Z) : bool :=
  match limit with
  | None => false
  | Some l => negb (field l =? -1) && (v >? field l)
  end.

(* ------------------------------------------------------------------ tickit_utf8_ncountmore *)

Inductive lres :=
| LFault | LFuel
| LErr (pos : spos)                                            (* return -1; *pos as it is *)
| LExit (str : list Z) (len : option Z) (pos here : spos).     (* loop left (cond false / break) *)

Fixpoint count_loop (fuel : nat) (str : list Z) (len : option Z) (limit : option spos)
                    (pos here : spos) : lres :=
  match fuel with
  | O => LFuel
  | S fuel' =>
      (* while(len != 0 && *str) *)
      if len_is0 len then LExit str len pos here else
      match rd str 0 with
      | None => LFault
      | Some c =>
          if c =? 0 then LExit str len pos here else
          match next_utf8 str len with
          | NFault => LFault
          | NErr => LErr pos
          | NOk bytes cp =>
              (* Abort on C0 or C1 controls *)
              if (cp <? 0x20) || ((cp >=? 0x80) && (cp <? 0xa0)) then LErr pos else
              match u8_wcwidth cp with
              | None => LFuel
              | Some width =>
                  if width =? -1 then LErr pos else
                  let is_grapheme := if width >? 0 then 1 else 0 in
                  (* if(is_grapheme) *pos = here;   "commit on the previous grapheme" *)
                  let pos := if is_grapheme =? 1 then here else pos in
                  if lim_exceeds limit p_bytes (p_bytes here + bytes) then LExit str len pos here else
                  if lim_exceeds limit p_cps (p_cps here + 1) then LExit str len pos here else
                  if lim_exceeds limit p_graphs (p_graphs here + is_grapheme) then LExit str len pos here else
                  if lim_exceeds limit p_cols (p_cols here + width) then LExit str len pos here else
                  count_loop fuel' (padd str bytes) (len_sub len bytes) limit pos
                    (mkPos (p_bytes here + bytes) (p_cps here + 1)
                           (p_graphs here + is_grapheme) (p_cols here + width))
              end
          end
      end
  end.

Inductive cres := CFault | CFuel | CRet (ret : Z) (pos : spos).   (* ret = -1: the error value *)

(* the part after the loop: if(len == 0 || *str == 0) *pos = here; return pos->bytes - start *)
Definition count_finish (start_bytes : Z) (r : lres) : cres :=
  match r with
  | LFault => CFault
  | LFuel => CFuel
  | LErr pos => CRet (-1) pos
  | LExit str len pos here =>
      if len_is0 len then CRet (p_bytes here - start_bytes) here else
      match rd str 0 with
      | None => CFault
      | Some c => if c =? 0 then CRet (p_bytes here - start_bytes) here
                  else CRet (p_bytes pos - start_bytes) pos
      end
  end.

Definition u8_ncountmore (str : list Z) (len : option Z) (pos : spos) (limit : option spos) : cres :=
  let start_bytes := p_bytes pos in
  let str' := padd str (p_bytes pos) in              (* str += pos->bytes *)
  let len' := len_sub len (p_bytes pos) in           (* if(len != -1) len -= pos->bytes *)
  count_finish start_bytes (count_loop (S (length str')) str' len' limit pos pos).

Definition u8_count (str : list Z) (limit : option spos) : cres :=
  u8_ncountmore str None pos_zero limit.
Definition u8_countmore (str : list Z) (pos : spos) (limit : option spos) : cres :=
  u8_ncountmore str None pos limit.
Definition u8_ncount (str : list Z) (len : Z) (limit : option spos) : cres :=
  u8_ncountmore str (Some len) pos_zero limit.

(* the convenience wrappers ignore the return value and read one field of pos *)
Definition limit_bytes (v : Z) : spos := mkPos v (-1) (-1) (-1).
Definition limit_columns (v : Z) : spos := mkPos (-1) (-1) (-1) v.

Definition pos_field (f : spos -> Z) (r : cres) : option Z :=
  match r with CRet _ pos => Some (f pos) | _ => None end.

Definition u8_mbswidth (str : list Z) : option Z := pos_field p_cols (u8_count str None).
Definition u8_byte2col (str : list Z) (byte : Z) : option Z :=
  pos_field p_cols (u8_count str (Some (limit_bytes byte))).
Definition u8_col2byte (str : list Z) (col : Z) : option Z :=
  pos_field p_bytes (u8_count str (Some (limit_columns col))).
